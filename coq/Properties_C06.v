(* Properties_C06.v -- C06: ex line commands change exactly the addressed lines (reference line editor).
   Statements only; every proof is `exact <lemma>`; Print Assumptions under each.
   The model (ExDefs.v) mirrors ex.c / lbuf.c / reg.c; the regex engine, the shell filter, the file
   system and the file name are arbitrary (universally quantified) parameters of every theorem. *)
From Coq Require Import List NArith ZArith Bool.
From NV Require Import Bytes ExDefs ExSpec ExProps ExRefine ExAddr ExRegDefs ExRegProps.
Import ListNotations.
Local Open Scope Z_scope.

(* ex_region succeeds only with 0 <= b <= e <= len and b < len, or with an empty range: (0,0) for address 0
   and for "%" on the empty buffer, (cur,cur) for an address-less command whose current line equals len *)
Theorem C06_resolve_bounds : forall rvalid rfind loc s b e s1,
  ex_region rvalid rfind loc s = (false, b, e, s1) ->
  0 <= b <= e /\ e <= slen s1 /\ (b < slen s1 \/ (b = e /\ (loc = [] \/ loc = [37%N]))).
Proof. exact region_bounds. Qed.
Print Assumptions C06_resolve_bounds.

(* every command of the list (a i c d k p pu r y ! =) whose address resolves to [b,e) yields
   firstn b lines ++ new ++ skipn e lines: every line outside [b,e) keeps bytes, order and identity.
   (xwa: the filter command is refused on a modified buffer otherwise -- also a frame.) *)
Theorem C06_frame : forall rvalid rfind filter readfile curpath a loc cmd arg txt s b e s1,
  In a frame_cmds -> xwa s = true ->
  ex_region rvalid rfind loc s = (false, b, e, s1) ->
  frame b e (lns (lb s)) (lns (lb (fst (ex_simple rvalid rfind filter readfile curpath a loc cmd arg txt s)))).
Proof. exact frame_simple. Qed.
Print Assumptions C06_frame.

(* a command whose address does not resolve is rejected (returns 1) and leaves lines, marks and the undo
   history -- the whole line buffer -- unchanged; (0,0) is what the text-adding commands a/i/c/pu/r accept as
   "before the first line" (also on the empty buffer) *)
Theorem C06_rejected_unchanged : forall rvalid rfind filter readfile curpath a loc cmd arg txt s b e s1,
  In a frame_cmds -> xwa s = true ->
  ex_region rvalid rfind loc s = (true, b, e, s1) ->
  (In a [[97]; [105]; [99]; [112; 117]; [114]]%N -> b <> 0 \/ e <> 0) ->
  lb (fst (ex_simple rvalid rfind filter readfile curpath a loc cmd arg txt s)) = lb s /\
  snd (ex_simple rvalid rfind filter readfile curpath a loc cmd arg txt s) = 1.
Proof. exact rejected_simple. Qed.
Print Assumptions C06_rejected_unchanged.

(* marks: every mark whose ghost identity is known designates a line with that identity -- after the
   initial load and after ANY script (any number of commands, including @, global, substitute, undo) *)
Theorem C06_marks_track : forall rvalid rfind filter readfile curpath data input wa n fuel,
  marks_agree (lb (ex_main rvalid rfind filter readfile curpath n fuel (init_st data input wa))).
Proof. exact marks_track_main. Qed.
Print Assumptions C06_marks_track.

Theorem C06_marks_track_step : forall rvalid rfind filter readfile curpath fuel ret ln s,
  marks_agree (lb s) -> marks_agree (lb (fst (ex_exec rvalid rfind filter readfile curpath fuel ret ln s))).
Proof. exact sagree_ex_exec. Qed.
Print Assumptions C06_marks_track_step.

(* ... and the ghost is kept by a splice exactly when the marked row lies outside the replaced range
   (lbuf_replace's three-way shift): lines added or removed elsewhere never make a mark forget its line *)
Theorem C06_marks_outside_kept : forall nul pos ndel nins r g, 0 <= nins -> (r < pos \/ pos + ndel <= r) ->
  snd (shift_mark nul pos ndel nins (r, g)) = g.
Proof. exact shift_mark_outside. Qed.
Print Assumptions C06_marks_outside_kept.

(* THE REFERENCE EDITOR ON WHOLE SCRIPTS.  ExSpec.v defines the reference line editor as a machine of its own
   ([rst]: texts, current line, printed output, registers, the rows the marks designate, the remembered search
   pattern, pending input, quit/writeany flags -- no identities, no ln_glob bits, no undo log, no sequence numbers, no
   error flags) whose commands are stated with ref_append / ref_insert / ref_change / ref_delete / ref_put / ref_read /
   ref_print / ref_range / ref_marks_edit; [abs] forgets everything else of a model state.
   C06_refines_spec: for EVERY script (the pending input of ANY model state: command lines, `|`-joined lists, text
   blocks), every fuel, and arbitrary regex / filter / file parameters: whenever the reference editor runs the script
   to its end (ref_main = Some r'), the model's run ends in a state whose texts, current line, printed output,
   registers, mark rows, remembered pattern and remaining input are exactly r'.  ref_main is None when
   (a) the script uses a command outside C06's list: global/vglobal (C15), substitute, undo (C04), write (C02),
   anything ExDefs.v does not model (is_other), or a construct ExDefs.v flags as outside its fragment (registers ; # ^,
   `r !cmd`, % # \ in an argument, an address-less `!`), or the filter command without writeany (its first step is the
   modified-buffer question of C02); or (b) the fuel (number of commands per line / nesting depth of @) or the
   line budget n is exhausted.  All commands of the property's list are inside: a i c d y pu r p = k ! rs and @
   (@ runs the register as a command line, recursively), plus q!, ec, the unknown-command message and the
   command without a name.
   What is SHARED between model and reference (and therefore not checked by this theorem): the cutting of a command
   line into address / command word / argument / text block (ex_loc ex_cmd ex_idx ex_arg ex_txt: pure functions of the
   bytes) and of an address string into tokens (tok_addr).  The MEANING of an address is not shared: the reference resolves
   it with ref_region, which C06_address_semantics proves equal to the token semantics spec_region of ExSpec.v
   (and C06_resolve_bounds pins the outcomes).  The parsers are compared with the independent Python reference editor by
   the correspondence run.
   C06_refines_spec_line is the induction step (one command line from ANY state, any pending return value) and
   C06_refines_spec_step the single command: "after every command" is these two read together with the script theorem. *)
Theorem C06_refines_spec : forall rvalid rfind filter readfile curpath n fuel s r',
  ref_main rvalid rfind filter readfile curpath n fuel (abs s) = Some r' ->
  abs (ex_main rvalid rfind filter readfile curpath n fuel s) = r'.
Proof. exact main_refines. Qed.
Print Assumptions C06_refines_spec.

Theorem C06_refines_spec_line : forall rvalid rfind filter readfile curpath fuel ret ln s r' ret',
  ref_exec rvalid rfind filter readfile curpath fuel ret ln (abs s) = Some (r', ret') ->
  abs (fst (ex_exec rvalid rfind filter readfile curpath fuel ret ln s)) = r' /\
  snd (ex_exec rvalid rfind filter readfile curpath fuel ret ln s) = ret'.
Proof. exact exec_refines_pair. Qed.
Print Assumptions C06_refines_spec_line.

Theorem C06_refines_spec_step : forall rvalid rfind filter readfile curpath a loc cmd arg txt s r' ret',
  ref_simple rvalid rfind filter readfile curpath a loc cmd arg txt (abs s) = Some (r', ret') ->
  abs (fst (ex_simple rvalid rfind filter readfile curpath a loc cmd arg txt s)) = r' /\
  snd (ex_simple rvalid rfind filter readfile curpath a loc cmd arg txt s) = ret'.
Proof. exact simple_refines_pair. Qed.
Print Assumptions C06_refines_spec_step.

(* AFTER EVERY COMMAND, explicitly: ex_exec_tr / ex_main_tr are ex_exec / ex_main returning the list of states after each
   command (C06_trace_is_the_run: the last one is ex_exec's result); ref_exec_tr / ref_main_tr do the same for the reference.
   Whenever the reference runs the line / the script to its end, the abstractions of the model's states after EVERY command
   are exactly the reference's states after every command. *)
Theorem C06_refines_spec_after_every_command : forall rvalid rfind filter readfile curpath,
  (forall fuel ret ln s t, ref_exec_tr rvalid rfind filter readfile curpath fuel ret ln (abs s) = Some t ->
     map abs (ex_exec_tr rvalid rfind filter readfile curpath fuel ret ln s) = t) /\
  (forall n fuel s t, ref_main_tr rvalid rfind filter readfile curpath n fuel (abs s) = Some t ->
     map abs (ex_main_tr rvalid rfind filter readfile curpath n fuel s) = t).
Proof. exact (fun rvalid rfind filter readfile curpath =>
  conj (exec_tr_refines rvalid rfind filter readfile curpath) (main_tr_refines rvalid rfind filter readfile curpath)). Qed.
Print Assumptions C06_refines_spec_after_every_command.

Theorem C06_trace_is_the_run : forall rvalid rfind filter readfile curpath fuel ret ln s,
  fst (ex_exec rvalid rfind filter readfile curpath fuel ret ln s) =
  last (ex_exec_tr rvalid rfind filter readfile curpath fuel ret ln s) s.
Proof. exact exec_tr_last. Qed.
Print Assumptions C06_trace_is_the_run.

(* the reference resolves an address exactly as the model does, on its own state *)
Theorem C06_ref_region : forall rvalid rfind loc s bad b e s1,
  ex_region rvalid rfind loc s = (bad, b, e, s1) -> ref_region rvalid rfind loc (abs s) = (bad, b, e, abs s1).
Proof. exact region_abs. Qed.
Print Assumptions C06_ref_region.

(* ADDRESS RESOLUTION, independently of ex_region.  ExSpec.v cuts an address string into tokens (tok_addr: "%", nothing, or a
   list of terms -- base . $ 'c /pat/ ?pat? number, offsets +n -n -- each followed by ";" "," or the end; only the walking
   over the bytes follows the C code) and gives the tokens a meaning on the reference state (spec_region / sem_terms / sem_term /
   sem_base / spec_search): a number n is row n-1, $ the last row, 'c the marked row, /pat/ (?pat?) the NEAREST matching row
   strictly after (before) the current line without wrap-around (first_match over the lines after / the reversed lines
   before), an empty pattern reuses the remembered pattern and direction, offsets add up, a term sets the end of the range
   and the previous end becomes the beginning, ";" moves the current line, a term that designates no line or a line before
   line 0 rejects the address, address 0 alone gives (0,0), and the final range must satisfy b < len, b <= e <= len.
   The resolver the reference editor uses (ref_region, i.e. the model's ex_region on the reference state) IS this meaning,
   for every address string and every state -- so with C06_ref_region the model's ex_region is specified by spec_region. *)
Theorem C06_address_semantics : forall rvalid rfind loc r,
  ref_region rvalid rfind loc r = spec_region rvalid rfind (tok_addr loc) r.
Proof. exact region_spec. Qed.
Print Assumptions C06_address_semantics.

(* the per-command equations the reference is built from, given the resolved range [b,e) (older statement, kept:
   it shows each ExSpec.v function at work without the script machinery).  s1 is the state after the address was
   resolved (it differs from s only in the remembered search keyword and, after `;`, the current line). *)
Theorem C06_refines_spec_per_command : forall rvalid rfind,
  (forall loc arg s b e s1, ex_region rvalid rfind loc s = (false, b, e, s1) -> slen s <> 0 -> ex_zero loc b e = false ->
     let s' := fst (ec_delete rvalid rfind loc arg s) in (texts s', xrow s') = ref_delete (texts s) b e) /\
  (forall loc cmd txt s b e s1, ex_region rvalid rfind loc s = (false, b, e, s1) ->
     let s' := fst (ec_insert rvalid rfind loc cmd (Some txt) s) in
     (texts s', xrow s') =
       (if (hd0 cmd =? 99)%N then ref_change (texts s) (if (hd0 cmd =? 97)%N && (b <? e) then b + 1 else b) e (split_lines txt)
        else if (hd0 cmd =? 97)%N then ref_append (texts s) b e (split_lines txt)
        else ref_insert (texts s) b e (split_lines txt))) /\
  (forall loc cmd s b e s1, ex_region rvalid rfind loc s = (false, b, e, s1) -> (cmd <> [] \/ loc <> []) -> ex_zero loc b e = false ->
     let s' := fst (ec_print rvalid rfind loc cmd s) in
     texts s' = texts s /\ xrow s' = snd (ref_print (texts s) b e) /\
     out s' = rev (map OLine (fst (ref_print (texts s) b e))) ++ out s1) /\
  (forall loc arg s b e s1 buf, ex_region rvalid rfind loc s = (false, b, e, s1) ->
     reg_special (REG arg) = false -> reg_get s (REG arg) = Some buf ->
     let s' := fst (ec_put rvalid rfind loc arg s) in (texts s', xrow s') = ref_put (texts s) b e (split_lines buf)) /\
  (forall readfile curpath loc arg s b e s1 data, ex_region rvalid rfind loc s = (false, b, e, s1) ->
     negb (plain_arg arg) || (hd0 arg =? 33)%N = false ->
     readfile (match arg with [] => curpath | _ => arg end) = Some data ->
     let s' := fst (ec_read rvalid rfind readfile curpath loc arg s) in
     (texts s', xrow s') = ref_read (texts s) b e (split_lines data) /\ out s' = OMsg M_READ :: out s1) /\
  (forall loc arg s b e s1, ex_region rvalid rfind loc s = (false, b, e, s1) -> slen s <> 0 -> ex_zero loc b e = false ->
     let s' := fst (ec_yank rvalid rfind loc arg s) in
     texts s' = texts s /\ xrow s' = xrow s1 /\ regs s' = reg_put (regs s1) (REG arg) (ref_range (texts s) b e)) /\
  (forall loc arg s b e s1, ex_region rvalid rfind loc s = (false, b, e, s1) -> slen s <> 0 -> ex_zero loc b e = false ->
     regs (fst (ec_delete rvalid rfind loc arg s)) = reg_put (regs s1) (REG arg) (ref_range (texts s) b e)) /\
  (forall loc arg s b e s1 k, ex_region rvalid rfind loc s = (false, b, e, s1) -> ex_zero loc b e = false ->
     markidx (hd0 arg) = Some k -> (k < length (marks (lb s)))%nat ->
     let s' := fst (ec_mark rvalid rfind loc arg s) in
     texts s' = texts s /\ xrow s' = xrow s1 /\ nth k (marks (lb s')) (-1, None) = (e - 1, ghost_at (lns (lb s)) (e - 1))) /\
  (forall loc s b e s1, ex_region rvalid rfind loc s = (false, b, e, s1) -> ex_zero loc b e = false ->
     let s' := fst (ec_lnum rvalid rfind loc s) in
     texts s' = texts s /\ xrow s' = xrow s1 /\ out s' = ONum e :: out s1) /\
  (forall filter loc arg s b e s1 rep, xwa s = true -> plain_arg arg = true -> loc <> [] ->
     ex_region rvalid rfind loc s = (false, b, e, s1) -> ex_zero loc b e = false ->
     filter arg (ref_range (texts s) b e) = Some rep ->
     let s' := fst (ec_exec rvalid rfind filter loc arg s) in
     texts s' = splice (Z.to_nat b) (Z.to_nat e) (split_lines rep) (texts s) /\ xrow s' = xrow s1).
Proof. exact (fun rvalid rfind =>
  conj (delete_refines rvalid rfind) (conj (insert_refines rvalid rfind) (conj (print_refines rvalid rfind)
  (conj (put_refines rvalid rfind) (conj (read_refines rvalid rfind) (conj (yank_refines rvalid rfind)
  (conj (delete_regs rvalid rfind) (conj (mark_refines rvalid rfind) (conj (lnum_refines rvalid rfind) (filter_refines rvalid rfind)))))))))). Qed.
Print Assumptions C06_refines_spec_per_command.

(* the hypotheses are satisfiable: on a three-line buffer "2,3" resolves to [1,3) *)
Example C06_nonvacuous :
  let s := init_st [97; 10; 98; 10; 99; 10]%N [] true in
  exists s1, ex_region (fun _ => true) (fun _ _ _ => None) [50; 44; 51]%N s = (false, 1, 3, s1) /\ marks_agree (lb s).
Proof. eexists. split; [vm_compute; reflexivity | apply sagree_init]. Qed.

(* the script theorem is not vacuous: the reference runs this 14-line script (d, a with a text block, k, i at address 0,
   'a=, %p, y into a register | pu from it, @: re-running the previous line, q!) to its end on the file a b c *)
Example C06_script_nonvacuous :
  let sc := [[50;44;51;100]; [49;97]; [120]; [46]; [49;107;97]; [48;105]; [121]; [122]; [46]; [39;97;61]; [37;112];
             [36;121;32;114;124;49;112;117;32;114]; [64;58]; [113;33]; [49;100]]%N in
  exists r', ref_main (fun _ => true) (fun _ _ _ => None) (fun _ _ => None) (fun _ => None) [] 20 20
               (abs (init_st [97; 10; 98; 10; 99; 10]%N sc true)) = Some r' /\
             r_txt r' = [[121]; [120]; [120]; [122]; [97]; [120]]%N /\ r_cur r' = 1 /\
             r_out r' = [OLine [120%N]; OLine [97%N]; OLine [122%N]; OLine [121%N]; ONum 3] /\ r_quit r' = true /\
             exists t, ref_main_tr (fun _ => true) (fun _ _ _ => None) (fun _ _ => None) (fun _ => None) [] 20 20
                         (abs (init_st [97; 10; 98; 10; 99; 10]%N sc true)) = Some t /\ length t = 10%nat.
Proof. eexists. split; [vm_compute; reflexivity | vm_compute; repeat split]. eexists. split; [reflexivity | reflexivity]. Qed.

(* the tokens of `2;+1,/x/-1` and of `'a,$` *)
Example C06_tokens :
  tok_addr [50;59;43;49;44;47;120;47;45;49]%N =
    ATerms [(mkterm (BNum 2) [], Some true); (mkterm BCur [1], Some false); (mkterm (BPat 47 (Some [120%N])) [-1], None)] /\
  tok_addr [39;97;44;36]%N = ATerms [(mkterm (BMark 97) [], Some false); (mkterm BLast [], None)] /\
  tok_addr [37]%N = APercent /\ tok_addr [] = AEmpty.
Proof. vm_compute. repeat split. Qed.

(* ---------------------------------------------------------------------------------------------------------------- *)
(* The numbered registers 1..9 (reg.c reg_put; ExDefs.reg_put mirrors its loop `for (i = 8; i > 0; i--)`, one copy after
   the other).  ExRegDefs.v says what the loop must amount to without a loop: a store into the unnamed register or a letter
   ([pushes]) makes register 1 the new text and register i+1 what register i held BEFORE the store (an unset register hands
   nothing on); every register that is neither a digit nor the addressed one keeps its text; the addressed lettered register
   gets the text (appended for a capital).  y and d reach reg_put with the addressed lines (yank_refines, delete_regs in
   C06_refines_spec_per_command), rs with its text block (rs_only_regs below: nothing but the registers changes). *)
Theorem C06_numbered_push : forall r c v, pushes c = true ->
  (forall i, (1 <= i <= 9)%nat -> nreg (reg_put r c v) i = num_after_push (nreg r) v i) /\
  (forall k, k <> tolower c -> is_numkey k = false -> reg_getraw (reg_put r c v) k = reg_getraw r k) /\
  reg_getraw (reg_put r c v) (tolower c) =
    Some ((if isupper c then match reg_getraw r (tolower c) with Some p => p | None => [] end else []) ++ v).
Proof. exact (fun r c v P => conj (put_num_push r c v P) (conj (fun k H K => put_other r c v k H (fun _ => K)) (put_named r c v))). Qed.
Print Assumptions C06_numbered_push.

(* a store that is not pushed (register ':' after every command line, a digit, a '\'-escaped name) changes its own register only *)
Theorem C06_unpushed_store : forall r c v k, pushes c = false -> k <> tolower c ->
  reg_getraw (reg_put r c v) k = reg_getraw r k.
Proof. exact (fun r c v k P H => put_other r c v k H (fun Q => False_ind _ (eq_true_false_abs _ Q P))). Qed.
Print Assumptions C06_unpushed_store.

(* histories: after ANY sequence of stores that are pushed or go to a non-digit name, from a register file showing the
   history h, the registers 1..9 show the texts of the pushed stores, newest first, followed by h: register i holds the
   i-th newest line-wise store, registers beyond the number of stores are unset, the tenth newest is forgotten; and a
   register that is no digit and is not addressed by any of the stores keeps its text *)
Theorem C06_numbered_history : forall l r h, shows r h -> forallb plain_store l = true ->
  shows (reg_stores r l) (pushed l ++ h) /\
  (forall k, is_numkey k = false -> (forall cv, In cv l -> tolower (fst cv) <> k) -> reg_getraw (reg_stores r l) k = reg_getraw r k).
Proof. exact (fun l r h S F => conj (stores_show l r h S F) (fun k K H => stores_named l r k K H)). Qed.
Print Assumptions C06_numbered_history.

(* the same in the terms of the property: k stores with the texts t1..tk (oldest first) into unnamed/lettered registers,
   numbered registers unset before: register i holds t_(k+1-i) for 1 <= i <= min(k,9) and is unset for k < i <= 9 *)
Theorem C06_numbered_kth_newest : forall r names texts,
  shows r [] -> length names = length texts -> Forall (fun c => pushes c = true) names ->
  forall i, (1 <= i <= 9)%nat ->
  nreg (reg_stores r (combine names texts)) i =
  if (i <=? length texts)%nat then Some (nth (length texts - i) texts []) else None.
Proof. exact numbered_history. Qed.
Print Assumptions C06_numbered_kth_newest.

(* put and @ see a numbered register only through reg_get: with the history h they get its i-th newest text; while fewer
   than i stores happened both are rejected and the WHOLE state (buffer, current line, marks, registers, output) is unchanged *)
Theorem C06_numbered_unset_rejected : forall rvalid rfind exec loc s h i rest,
  shows (regs s) h -> (1 <= i <= 9)%nat ->
  reg_get s (REG (numkey i :: rest)) = nth_error h (i - 1) /\
  ((length h < i)%nat -> ec_put rvalid rfind loc (numkey i :: rest) s = (s, 1) /\
                         ec_at rvalid rfind exec loc (numkey i :: rest) s = (s, 1)).
Proof. exact (fun rvalid rfind exec loc s h i rest S Hi =>
  conj (proj2 (numbered_get s h i rest S Hi))
       (fun L => conj (put_unset_rejected rvalid rfind loc s h i rest S Hi L) (at_unset_rejected rvalid rfind exec loc s h i rest S Hi L))). Qed.
Print Assumptions C06_numbered_unset_rejected.

(* rs: the text block goes through reg_put; buffer, current line, output, pattern and pending input are untouched *)
Theorem C06_rs_only_registers : forall arg t s, let s' := fst (ec_rs arg (Some t) s) in
  regs s' = reg_put (regs s) (REG arg) t /\ lb s' = lb s /\ xrow s' = xrow s /\ out s' = out s /\ kwd s' = kwd s /\ inp s' = inp s.
Proof. exact rs_only_regs. Qed.
Print Assumptions C06_rs_only_registers.

(* not vacuous, and sharp: "one" into the unnamed register, "two" into a, "three" into the unnamed register: register 3 holds
   "one", register 4 is unset, `pu 4` is rejected; the upward-copying loop (reg_put_up: i = 1 .. 8) puts "two" into register 3
   already and fills register 3 after two stores *)
Example C06_numbered_nonvacuous :
  let one := [111; 110; 101; 10]%N in let two := [116; 119; 111; 10]%N in let three := [116; 104; 114; 101; 101; 10]%N in
  let r := reg_stores [] [(0, one); (97, two); (0, three)]%N in
  shows [] [] /\ shows r [three; two; one] /\ nreg r 3 = Some one /\ nreg r 4 = None /\
  nreg (reg_put_up (reg_put_up (reg_put_up [] 0 one) 97 two) 0 three) 3 = Some two /\
  nreg (reg_put_up (reg_put_up [] 0 one) 97 two) 3 = Some one /\ nreg (reg_put (reg_put [] 0 one) 97 two) 3 = None.
Proof.
  cbv zeta. split; [intros i _; destruct i as [|[|i]]; reflexivity|].
  split; [apply (stores_show [(0, _); (97, _); (0, _)]%N [] []); [intros i _; destruct i as [|[|i]]; reflexivity | reflexivity]|].
  vm_compute. repeat split.
Qed.

(* ------------------------------------------------------------------------------------------ *)
(* THE MODEL IS THE C TEXT (coq/TrLbufMarks.v): markidx, lbuf_mark, lbuf_jump of /repo/lbuf.c, translated by tools/c2clite.py into
   CLite terms (coq/GenCFuncs.v, whitelist tools/c2clite.d/50_lbuf.list), RUN on a memory in which block bl is the struct lbuf
   (75 cells; mark[32] = cells 0..31, mark_off[32] = cells 32..63).  markidx returns, for EVERY argument islower() is defined on,
   the index of the models (ExDefs.markidx of this property; CapDefs2.markidx, C05's table form -- the two agree) and it is at
   most 30, inside mark[]; lbuf_mark stores exactly the two cells mark[k], mark_off[k] (nothing for an invalid mark) and the rows
   are then those of ExDefs.lbuf_mark; lbuf_jump fails exactly when ExDefs.lbuf_jump answers None, otherwise stores the model's
   row through pos (and the column through off unless off is NULL) and returns 0.  The imports are local to the section. *)
From Coq Require Import Lia.
From NV Require CLite CLiteProps GenCFuncs CapDefs2 TrLbufBase TrLbufMarks.
Section C06_translated.
Import CLite CLiteProps GenCFuncs TrLbufBase TrLbufMarks.

Theorem C06_tr_markidx : forall m (cn : N) d fuel, (cn < 256)%N ->
  callf cprog fuel (S d) F_markidx [VInt (Z.of_N cn)] m
    = Ok (VInt (match ExDefs.markidx cn with Some k => Z.of_nat k | None => -1 end), m)
  /\ CapDefs2.markidx (Z.of_N cn) = match ExDefs.markidx cn with Some k => Z.of_nat k | None => -1 end
  /\ match ExDefs.markidx cn with Some k => (k <= 30)%nat | None => True end.
Proof. exact tr_markidx_model. Qed.

(* islower() is defined on unsigned char values and EOF only: any other argument is undefined behaviour (ECtype) *)
Theorem C06_tr_markidx_domain : forall m c d fuel,
  (-1 <= c <= 255 -> callf cprog fuel (S d) F_markidx [VInt c] m = Ok (VInt (CapDefs2.markidx c), m)) /\
  (c < -1 \/ 255 < c -> callf cprog fuel (S d) F_markidx [VInt c] m = Err ECtype).
Proof. exact (fun m c d fuel => conj (tr_markidx m c d fuel) (tr_markidx_ctype m c d fuel)). Qed.

Theorem C06_tr_lbuf_mark : forall m bl blk (l : lbuf) cn pos off d fuel,
  nth_error m bl = Some blk -> length blk = LBUF_CELLS -> marks_rep blk (marks l) -> (cn < 256)%N -> i32 pos -> i32 off ->
  let blk' := mark_blk blk (Z.of_N cn) pos off in
  callf cprog fuel (S (S d)) F_lbuf_mark [VPtr bl 0; VInt (Z.of_N cn); VInt pos; VInt off] m
    = Ok (VUndef, if 0 <=? midx cn then CLiteProps.upd m bl blk' else m)
  /\ marks_rep blk' (marks (lbuf_mark l cn pos)).
Proof. exact tr_lbuf_mark_model. Qed.

Theorem C06_tr_lbuf_jump : forall m bl blk (l : lbuf) cn bp op pblk (offp : option (nat * Z * block)) d fuel,
  nth_error m bl = Some blk -> marks_ints blk -> marks_rep blk (marks l) -> (cn < 256)%N ->
  bp <> bl -> nth_error m bp = Some pblk -> 0 <= op < Z.of_nat (length pblk) ->
  match offp with Some (bo, oo, oblk) => bo <> bl /\ bo <> bp /\ nth_error m bo = Some oblk /\ 0 <= oo < Z.of_nat (length oblk) | None => True end ->
  let k := Z.to_nat (CapDefs2.markidx (Z.of_N cn)) in
  callf cprog fuel (S (S d)) F_lbuf_jump
    [VPtr bl 0; VInt (Z.of_N cn); VPtr bp op; match offp with Some (bo, oo, _) => VPtr bo oo | None => VInt 0 end] m
  = match lbuf_jump l cn with
    | None => Ok (VInt 1, m)
    | Some row => Ok (VInt 0, let m1 := CLiteProps.upd m bp (CLiteProps.upd pblk (Z.to_nat op) (VInt row)) in
                              match offp with
                              | Some (bo, oo, oblk) => CLiteProps.upd m1 bo (CLiteProps.upd oblk (Z.to_nat oo) (VInt (cellz blk (M_OFF + k))))
                              | None => m1
                              end)
    end.
Proof. exact tr_lbuf_jump_model. Qed.

(* not vacuous, and the translated functions RUN: the struct in block 12 with all marks unset, two int cells (blocks 13, 14)
   for *pos and *off.  markidx: 'a' -> 0, 'z' -> 25, '`' and ''' -> 26, '*' -> 27, '[' -> 28, ']' -> 29, '^' -> 30, 'A' -> -1;
   lbuf_jump on the unset mark 'c' fails; after lbuf_mark(lb, 'c', 7, 3) it returns 0 with *pos = 7, *off = 3; marking 'A' changes
   nothing; the model's rows agree *)
Example C06_tr_nonvacuous :
  let blk0 := repeat (VInt (-1)) 32 ++ repeat (VInt 0) 32 ++
              [VInt 0; VInt 0; VInt 0; VInt 0; VInt 1; VInt 0; VInt 0; VInt 0; VInt 0; VInt 0; VInt 0] in
  let m0 := repeat [] 12 ++ [blk0; [VInt 55]; [VInt 66]] in
  let l0 := mklb [] (repeat (-1, None) 32) [] 0 1 0 0 0 in
  let mi c := match callf cprog 1 3 F_markidx [VInt c] m0 with Ok (VInt k, _) => k | _ => -99 end in
  marks_rep blk0 (marks l0) /\ marks_ints blk0 /\
  map mi [97; 122; 96; 39; 42; 91; 93; 94; 65] = [0; 25; 26; 26; 27; 28; 29; 30; -1] /\
  callf cprog 1 3 F_lbuf_jump [VPtr 12 0; VInt 99; VPtr 13 0; VPtr 14 0] m0 = Ok (VInt 1, m0) /\ lbuf_jump l0 99 = None /\
  match callf cprog 1 3 F_lbuf_mark [VPtr 12 0; VInt 99; VInt 7; VInt 3] m0 with
  | Ok (_, m1) =>
      nth_error m1 12%nat = Some (mark_blk blk0 99 7 3) /\
      (exists m2, callf cprog 1 3 F_lbuf_jump [VPtr 12 0; VInt 99; VPtr 13 0; VPtr 14 0] m1 = Ok (VInt 0, m2) /\
                  nth_error m2 13%nat = Some [VInt 7] /\ nth_error m2 14%nat = Some [VInt 3]) /\
      lbuf_jump (lbuf_mark l0 99 7) 99 = Some 7 /\
      callf cprog 1 3 F_lbuf_mark [VPtr 12 0; VInt 65; VInt 7; VInt 3] m1 = Ok (VUndef, m1)
  | Err _ => False
  end.
Proof.
  cbv zeta. split.
  { split; [reflexivity|]. intros k Hk. do 32 (destruct k as [|k]; [reflexivity|]). lia. }
  split. { intros j Hj. do 32 (destruct j as [|j]; [exists (-1); split; [reflexivity|unfold i32; lia]|]).
           do 32 (destruct j as [|j]; [exists 0; split; [reflexivity|unfold i32; lia]|]). lia. }
  vm_compute. repeat split. eexists. repeat split.
Qed.
End C06_translated.
Print Assumptions C06_tr_markidx.
Print Assumptions C06_tr_markidx_domain.
Print Assumptions C06_tr_lbuf_mark.
Print Assumptions C06_tr_lbuf_jump.

(* ---------------------------------------------------------------------------------------------------------------- *)
(* TEXT BLOCKS INSIDE A COMMAND STRING (ex.c ex_txt(), first branch; added after seeded change C06g).  A typed `rs` reads its
   text block from the input up to the lone "." (ExDefs.read_block); an `rs` that is executed from a STRING -- a register run by
   @ whose text holds the `rs x` line, the text lines, the lone "." and further command lines, e.g. lines yanked from the
   buffer -- takes its block out of that string with a byte scan for "\n.\n" (ExDefs.inline_block) and execution continues
   behind those three bytes.  Model and reference (ExSpec.ref_txt) SHARE that scan, so C06_refines_spec says nothing about it.
   ExStrDefs.v states on LINES what the scan must amount to: of the lines t0 :: ls that follow the `rs x` line, t0 is text whatever
   it is and the block ends before the first later lone "." line ([cut_dot]); that line is consumed and the lines after it
   are the commands still to run ([str_block]; without a "." line everything is text plus one empty line).
   C06_rs_block_on_lines: the byte scan equals that cut, for every list of newline-free lines.
   C06_rs_in_string: executing such a string (model: ex_exec and its trace; reference: ref_exec) is ONE command that changes
   the addressed register only -- current line, output, buffer, marks, input as before -- followed by exactly the execution
   of the lines after the "." line (no stray empty command: that would print a line and move the current line).
   C06_at_rs_string: so `@r` on a register holding it leaves the current line on the first addressed line, sets the register
   and runs exactly the commands after the "." line, in the model and in the reference; C06_at_rs_string_only: with nothing
   after the "." the run returns 0 and changes the register and the current line (= first addressed line) only.
   a / i / c executed from a string read the INPUT (second branch of ex_txt: by definition, nothing to prove). *)
From NV Require Import ExStrDefs ExStrProps.

Theorem C06_rs_block_on_lines : forall t0 ls, nonl t0 = true -> forallb nonl ls = true ->
  let '(t, rest) := inline_block (join_lines (t0 :: ls)) [] in
  t ++ [nl] = join_lines (fst (str_block t0 ls)) /\ rest = join_lines (snd (str_block t0 ls)).
Proof. exact inline_block_str. Qed.
Print Assumptions C06_rs_block_on_lines.

Theorem C06_rs_in_string : forall rvalid rfind filter readfile curpath c t0 ls f ret,
  regch c = true -> nonl t0 = true -> forallb nonl ls = true ->
  let text := join_lines (fst (str_block t0 ls)) in
  let rest := join_lines (snd (str_block t0 ls)) in
  (forall s, let s' := set_regs s (reg_put (regs s) (rs_reg c) text) in
     ex_exec rvalid rfind filter readfile curpath (S f) ret (rs_string c t0 ls) s =
       ex_exec rvalid rfind filter readfile curpath f 0 rest s' /\
     ex_exec_tr rvalid rfind filter readfile curpath (S f) ret (rs_string c t0 ls) s =
       s' :: ex_exec_tr rvalid rfind filter readfile curpath f 0 rest s') /\
  (forall r, ref_exec rvalid rfind filter readfile curpath (S f) ret (rs_string c t0 ls) r =
     ref_exec rvalid rfind filter readfile curpath f 0 rest (r_regs_set r (reg_put (r_regs r) (rs_reg c) text))).
Proof. exact (fun rvalid rfind filter readfile curpath c t0 ls f ret Hc H0 Hl =>
  conj (fun s => conj (exec_rs_string rvalid rfind filter readfile curpath c t0 ls f ret s Hc H0 Hl)
                      (exec_tr_rs_string rvalid rfind filter readfile curpath c t0 ls f ret s Hc H0 Hl))
       (fun r => rexec_rs_string rvalid rfind filter readfile curpath c t0 ls f ret r Hc H0 Hl)). Qed.
Print Assumptions C06_rs_in_string.

Theorem C06_at_rs_string : forall rvalid rfind filter readfile curpath loc arg c t0 ls f b e,
  regch c = true -> nonl t0 = true -> forallb nonl ls = true -> reg_special (REG arg) = false -> ex_zero loc b e = false ->
  let text := join_lines (fst (str_block t0 ls)) in
  let rest := join_lines (snd (str_block t0 ls)) in
  (forall s s1, reg_get s (REG arg) = Some (rs_string c t0 ls) -> ex_region rvalid rfind loc s = (false, b, e, s1) ->
     ec_at rvalid rfind (ex_exec rvalid rfind filter readfile curpath (S f) 0) loc arg s =
     let '(s3, r) := ex_exec rvalid rfind filter readfile curpath f 0 rest
                       (set_regs (set_xrow s1 b) (reg_put (regs s1) (rs_reg c) text)) in (bump s3, r)) /\
  (forall r r1, ref_reg_get r (REG arg) = Some (rs_string c t0 ls) -> ref_region rvalid rfind loc r = (false, b, e, r1) ->
     ref_at_cmd rvalid rfind (ref_exec rvalid rfind filter readfile curpath (S f) 0) loc arg r =
     ref_exec rvalid rfind filter readfile curpath f 0 rest (r_regs_set (r_cur_set r1 b) (reg_put (r_regs r1) (rs_reg c) text))).
Proof. exact (fun rvalid rfind filter readfile curpath loc arg c t0 ls f b e Hc H0 Hl Hs Hz =>
  conj (fun s s1 Hg Hr => at_rs_string rvalid rfind filter readfile curpath loc arg s c t0 ls f b e s1 Hc H0 Hl Hs Hg Hr Hz)
       (fun r r1 Hg Hr => ref_at_rs_string rvalid rfind filter readfile curpath loc arg r c t0 ls f b e r1 Hc H0 Hl Hs Hg Hr Hz)). Qed.
Print Assumptions C06_at_rs_string.

Theorem C06_at_rs_string_only : forall rvalid rfind filter readfile curpath loc arg s c t0 ls f b e s1,
  regch c = true -> nonl t0 = true -> forallb nonl ls = true ->
  reg_special (REG arg) = false -> reg_get s (REG arg) = Some (rs_string c t0 ls) ->
  ex_region rvalid rfind loc s = (false, b, e, s1) -> ex_zero loc b e = false ->
  snd (str_block t0 ls) = [] ->
  let s' := fst (ec_at rvalid rfind (ex_exec rvalid rfind filter readfile curpath (S (S f)) 0) loc arg s) in
  snd (ec_at rvalid rfind (ex_exec rvalid rfind filter readfile curpath (S (S f)) 0) loc arg s) = 0 /\
  xrow s' = b /\ out s' = out s1 /\ lns (lb s') = lns (lb s1) /\ marks (lb s') = marks (lb s1) /\ inp s' = inp s1 /\
  regs s' = reg_put (regs s1) (rs_reg c) (join_lines (fst (str_block t0 ls))).
Proof. exact at_rs_string_only. Qed.
Print Assumptions C06_at_rs_string_only.

(* not vacuous, and sharp.  (1) the lines hi / . / .= after `rs b`: the block is [hi], the command still to run is `.=`; the
   seeded scan (inline_block_short: strstr + `end + 2`) leaves the newline of the "." line in front of it.  (2) what that
   newline does: on a 7-line buffer with the current line on line 5, `.=` prints 5 and the current line stays; with the stray
   empty command in front, line 6 is printed, the current line moves there and `.=` prints 6.  (3) the whole scenario through
   ex_main: lines 1-3 of the file (rs b / hello / .) yanked into register a, `5`, `@a`, `.=`, `d`, `$pu b`, `%p`: printed are
   "five", 5 and the listing without "five" and with "hello" appended. *)
Example C06_rs_string_nonvacuous :
  let P1 := fun _ : bytes => true in let P2 := fun (_ _ : bytes) (_ : bool) => @None (nat * nat) in
  let P3 := fun _ _ : bytes => @None bytes in let P4 := fun _ : bytes => @None bytes in
  let file := [114;115;32;98;10; 104;101;108;108;111;10; 46;10; 102;111;117;114;10; 102;105;118;101;10; 115;105;120;10;
               115;101;118;101;110;10]%N in
  regch (Some 98%N) = true /\ forallb nonl [[104;105]; [46]; [46;61]]%N = true /\
  str_block [104;105]%N [[46]; [46;61]]%N = ([[104;105]], [[46;61]])%N /\
  inline_block (join_lines [[104;105]; [46]; [46;61]]%N) [] = ([104;105], [46;61;10])%N /\
  inline_block_short (join_lines [[104;105]; [46]; [46;61]]%N) [] = ([104;105], [10;46;61;10])%N /\
  (let s5 := set_xrow (init_st file [] true) 4 in
   let e1 := fst (ex_exec P1 P2 P3 P4 [] 5 0 [46;61;10]%N s5) in
   let e2 := fst (ex_exec P1 P2 P3 P4 [] 5 0 [10;46;61;10]%N s5) in
   out e1 = [ONum 5] /\ xrow e1 = 4 /\ out e2 = [ONum 6; OLine [115;105;120]%N] /\ xrow e2 = 5) /\
  (let sc := [[49;44;51;121;32;97]; [53]; [64;97]; [46;61]; [100]; [36;112;117;32;98]; [37;112]; [113;33]]%N in
   let fin := ex_main P1 P2 P3 P4 [] 20 20 (init_st file sc true) in
   rev (out fin) = [OLine [102;105;118;101]; ONum 5; OLine [114;115;32;98]; OLine [104;101;108;108;111]; OLine [46];
                    OLine [102;111;117;114]; OLine [115;105;120]; OLine [115;101;118;101;110]; OLine [104;101;108;108;111]]%N /\
   flags fin = 0%N /\
   exists r', ref_main P1 P2 P3 P4 [] 20 20 (abs (init_st file sc true)) = Some r' /\ r_out r' = out fin /\ r_cur r' = 6).
Proof. vm_compute. repeat split. eexists. repeat split. Qed.

(* ---------- the register model on the C TEXT of reg.c (TrReg.v, TrRegEx.v) ----------
   ExDefs.reg_put / reg_shift / reg_getraw (the association list of the ex model; every put of ex is line-wise) against the
   CLite terms tools/c2clite.py generates from reg_getraw, reg_get, reg_putraw, reg_put of /repo/reg.c (GenCFuncs.v) and the
   tables `static char *bufs[256]; static int lnmode[256];`.  TrReg.regs_at m pb lb R: the memory m represents a register
   file R (RegDefs.v: text and line-wise flag under every name 0..255; cell c of bufs NULL or pointing to a live heap block with
   the text, pairwise distinct blocks).  TrRegEx.ex_abs r R: the association list r holds the same texts as R under every name
   0..255.  C06_tr_reg_put: from EVERY such memory, for every name 0..255, every terminated text in a block that is no
   register's and every flag != 0 the call reg_put(c, s, ln) returns (no access outside a block, no use of a freed block, no
   double free) and the memory afterwards represents an R' with ex_abs (reg_put r c s) R'; TrReg.fr: replaced texts freed, every
   other block unchanged, nothing leaks but the cell of the local i_ln.  C06_tr_numbered_push composes it with
   C06_numbered_push: read off the memory after the call, register 1 holds s and register i+1 the old text of register i (an unset
   register i leaves i+1 alone) -- with the loop of the C text turned upward (the seeded rewrite) TrReg.put_loop_ok has no proof. *)
From NV Require CLiteTac TrReg TrRegEx RegDefs.

Theorem C06_tr_reg_put : forall m pb lb R r c bs (t : bytes) (o : nat) ln d fuel,
  TrReg.regs_at m pb lb R -> TrRegEx.ex_abs r R -> (0 <= c < 256)%Z -> CLiteProps.str_at m bs t -> nonul t -> (o <= length t)%nat ->
  bs <> GenCFuncs.G_reg__bufs -> bs <> GenCFuncs.G_lnmode ->
  (forall k o', (k < 256)%nat -> TrReg.cellp pb k <> CLite.VPtr bs o') ->
  CLiteTac.int_ok ln -> ln <> 0%Z -> TrReg.str_fits (TrReg.pre_of R c ++ skipn o t) -> (9 <= fuel)%nat ->
  exists m' pb' lb' R',
    CLite.callf GenCFuncs.cprog fuel (S (S (S d))) GenCFuncs.F_reg_put [CLite.VInt c; CLite.VPtr bs (Z.of_nat o); CLite.VInt ln] m
    = CLite.Ok (CLite.VUndef, m') /\
    TrReg.regs_at m' pb' lb' R' /\ TrRegEx.ex_abs (reg_put r (Z.to_N c) (skipn o t)) R' /\
    TrReg.fr (length m) m pb m' pb' /\ (exists v, nth_error m' (length m) = Some [v]).
Proof. exact TrRegEx.tr_reg_put_ex. Qed.
Print Assumptions C06_tr_reg_put.

(* the numbered registers after the call, read through the representation: the simultaneous assignment of C06_numbered_push *)
Theorem C06_tr_numbered_push : forall m pb lb R r c bs (t : bytes) (o : nat) ln d fuel,
  TrReg.regs_at m pb lb R -> TrRegEx.ex_abs r R -> (0 <= c < 256)%Z -> pushes (Z.to_N c) = true ->
  CLiteProps.str_at m bs t -> nonul t -> (o <= length t)%nat ->
  bs <> GenCFuncs.G_reg__bufs -> bs <> GenCFuncs.G_lnmode ->
  (forall k o', (k < 256)%nat -> TrReg.cellp pb k <> CLite.VPtr bs o') ->
  CLiteTac.int_ok ln -> ln <> 0%Z -> TrReg.str_fits (TrReg.pre_of R c ++ skipn o t) -> (9 <= fuel)%nat ->
  exists m' pb' lb' R',
    CLite.callf GenCFuncs.cprog fuel (S (S (S d))) GenCFuncs.F_reg_put [CLite.VInt c; CLite.VPtr bs (Z.of_nat o); CLite.VInt ln] m
    = CLite.Ok (CLite.VUndef, m') /\
    TrReg.regs_at m' pb' lb' R' /\
    forall i, (1 <= i <= 9)%nat -> option_map fst (R' (numkey i)) = num_after_push (nreg r) (skipn o t) i.
Proof. exact TrRegEx.tr_numbered_push. Qed.
Print Assumptions C06_tr_numbered_push.

(* non-vacuity: the zero-initialised globals represent the empty register file, the empty association list holds the same
   texts; and the translated reg_put RUNS on the initial memory followed by the texts "one\n" "two\n" "three\n": after the
   three line-wise stores (unnamed, a, unnamed) register 1 holds "three\n", 2 "two\n", 3 "one\n", 4 is unset, the unnamed
   register holds "three\n" -- what ExDefs.reg_put gives on the empty list *)
Example C06_tr_reg_nonvacuous :
  TrReg.regs_at GenCFuncs.cglobals GenCFuncs.gb_reg__bufs (repeat 0%Z 256) RegDefs.regs0 /\ TrRegEx.ex_abs [] RegDefs.regs0 /\
  let one := [111; 110; 101; 10]%N in let two := [116; 119; 111; 10]%N in let three := [116; 104; 114; 101; 101; 10]%N in
  let blk (s : bytes) := CLite.cstr_block (map Z.of_N s) in
  let g := length GenCFuncs.cglobals in
  let m0 := (GenCFuncs.cglobals ++ [blk one; blk two; blk three])%list in
  let put c b m := match m with
                   | CLite.Ok (_, m) => CLite.callf GenCFuncs.cprog 12 4 GenCFuncs.F_reg_put [CLite.VInt c; CLite.VPtr b 0%Z; CLite.VInt 1%Z] m
                   | e => e end in
  let r3 := reg_put (reg_put (reg_put [] 0%N one) 97%N two) 0%N three in
  match put 0%Z (g + 2)%nat (put 97%Z (g + 1)%nat (put 0%Z g (CLite.Ok (CLite.VUndef, m0)))) with
  | CLite.Ok (_, m3) => map (TrReg.reg_text m3) [49; 50; 51; 52; 0]%nat
  | CLite.Err _ => []
  end = map (fun k => option_map blk (reg_getraw r3 k)) [49; 50; 51; 52; 0]%N.
Proof. split; [exact TrReg.regs_at_init|split; [intros k _; reflexivity|vm_compute; reflexivity]]. Qed.

(* ======================================================================================== *)
(* the address resolution on the TRANSLATED C text (tools/c2clite.py -> GenCFuncs.v, semantics CLite.v): ex_lineno and
   ex_region of ex.c, proved in TrExAddr.v.  Memory: the address string s in block bs; xrow in the block of the global;
   bufs[0].lb points to the struct lbuf in block bl (mark[] in cells 0..31, ln_n = len in cell 66); `char **num` of
   ex_lineno and `int *beg, *end` of ex_region point to blocks of their own.  atoi is the builtin BAtoi of CLite.v (checked
   reads, a value outside int is the error EOverflow); ex_search is not translated, so the statements are for address
   strings without '/' and '?' (TrExAddr.lineno_body_ok / region_body_ok are the same statements for any `call` that
   answers ex_search the way a search oracle says).  The model is the position-based one of CapDefs.v (ex_lineno with the
   mark table of the struct and the search oracle) and ExAddrDefs.region_full (CapDefs.ex_region with beg and end kept when
   the address is rejected: ec_insert/ec_put/ec_read look at them); lineno_fit / region_fit are the exact conditions
   under which atoi(..), atoi(..) - 1, n += atoi(..), lbuf_len(xb) - 1, ex_lineno(..) + 1, xrow + 1 stay inside int. *)
From NV Require CapDefs CLiteTac ExAddrDefs TrExAddr.

(* ex_lineno(&p), p at any position i of any address string (any bytes) without a search: number (the digit loop / atoi),
   `.`, `$`, 'x (lbuf_jump on the mark table in memory), then the +n -n offsets.  The model returns (n, j); the call
   returns n, leaves p at j -- after an unset mark behind the mark letter, and n = -2 -- and changes nothing else. *)
Theorem C06_tr_ex_lineno : forall m bs bn bl s i xrow len gbufs lblk search d fuel,
  CLiteProps.str_at m bs s -> CLiteProps.bytes_lt256 s -> nth_error m bn = Some [CLite.VPtr bs (Z.of_nat i)] ->
  CLiteProps.cell_at m GenCFuncs.G_xrow xrow ->
  nth_error m GenCFuncs.G_bufs = Some gbufs -> nth_error gbufs TrExAddr.BUFS_LB = Some (CLite.VPtr bl 0) ->
  nth_error m bl = Some lblk -> nth_error lblk TrLbufBase.L_ln_n = Some (CLite.VInt len) -> TrLbufMarks.marks_ints lblk ->
  bs <> bn /\ GenCFuncs.G_xrow <> bn /\ GenCFuncs.G_bufs <> bn /\ bl <> bn -> TrExAddr.int_ok xrow -> TrExAddr.int_ok len ->
  ExAddrDefs.nosearch s -> (i <= length s)%nat -> (2 * S (length s) <= fuel)%nat ->
  exists n j, CapDefs.ex_lineno len (TrExAddr.mark_of lblk) search xrow s i = CapDefs.Ok (n, j) /\ (i <= j)%nat /\ (j <= length s)%nat /\
    (TrExAddr.lineno_fit len (TrExAddr.mark_of lblk) search xrow s i ->
     exists j' nb, CLite.callf GenCFuncs.cprog fuel (S (S (S d))) GenCFuncs.F_ex_lineno [CLite.VPtr bn 0] m
                   = CLite.Ok (CLite.VInt n, (CLiteProps.upd m bn [CLite.VPtr bs (Z.of_nat j')] ++ [[CLite.VInt nb]])%list) /\
                   (j' = j \/ n = -2) /\ (i <= j')%nat /\ (j' <= length s)%nat /\ TrExAddr.int_ok n).
Proof. exact TrExAddr.tr_ex_lineno. Qed.
Print Assumptions C06_tr_ex_lineno.

(* ex_region(loc, &beg, &end) on any NUL-free address string without a search: `%`, the empty address (with the check of
   xrow against the buffer), a, a,b, a;b (xrow set to the first address), the address-0 rule of 6c95ca8, the range checks.
   r = (rejected, beg, end, xrow'): the call returns 1 or 0 accordingly, *beg = beg, *end = end, xrow = xrow', every other
   block of the memory is as before.  ( *end must hold an int at the call: the C text reads it before it writes it.) *)
Theorem C06_tr_ex_region : forall m bs bb be bl s xrow len gbufs lblk vb0 e0 search d fuel,
  CLiteProps.str_at m bs s -> nonul s -> CLiteProps.cell_at m GenCFuncs.G_xrow xrow ->
  nth_error m bb = Some [vb0] -> nth_error m be = Some [CLite.VInt e0] ->
  nth_error m GenCFuncs.G_bufs = Some gbufs -> nth_error gbufs TrExAddr.BUFS_LB = Some (CLite.VPtr bl 0) ->
  nth_error m bl = Some lblk -> nth_error lblk TrLbufBase.L_ln_n = Some (CLite.VInt len) -> TrLbufMarks.marks_ints lblk ->
  nth_error m GenCFuncs.G_lit_25_1 = Some GenCFuncs.gb_lit_25_1 -> TrExAddr.rdist bs bb be bl ->
  TrExAddr.int_ok xrow -> TrExAddr.int_ok len -> TrExAddr.int_ok e0 -> 2 * Z.of_nat (S (length s)) <= 2147483647 ->
  ExAddrDefs.nosearch s -> (2 * S (length s) <= fuel)%nat ->
  exists r, ExAddrDefs.region_full len (CapDefs.ex_lineno len (TrExAddr.mark_of lblk) search) s xrow = CapDefs.Ok r /\
    (TrExAddr.region_fit len (TrExAddr.mark_of lblk) search s xrow ->
     exists m', CLite.callf GenCFuncs.cprog fuel (S (S (S (S d)))) GenCFuncs.F_ex_region [CLite.VPtr bs 0; CLite.VPtr bb 0; CLite.VPtr be 0] m
                = CLite.Ok (CLite.VInt (CLite.b2z (fst (fst (fst r)))), m') /\
       nth_error m' bb = Some [CLite.VInt (snd (fst (fst r)))] /\ nth_error m' be = Some [CLite.VInt (snd (fst r))] /\
       CLiteProps.cell_at m' GenCFuncs.G_xrow (snd r) /\
       (forall b', (b' < length m)%nat -> b' <> bb -> b' <> be -> b' <> GenCFuncs.G_xrow -> nth_error m' b' = nth_error m b')).
Proof. exact TrExAddr.tr_ex_region. Qed.
Print Assumptions C06_tr_ex_region.

(* non-vacuity: the hypotheses of C06_tr_ex_region hold of a concrete memory (the program's globals, a struct lbuf of 5 lines
   without marks, the string "2,$-1"), the model answers lines 2..4 (beg = 1, end = 4), and the translated ex_region RUNS
   on that memory and stores the same; further runs: `2;+1` moves xrow, `0` is accepted as (0,0), `%`, the empty address at
   line 4, an unset mark is rejected with end = -1, a search stops at the untranslated ex_search, 2147483648 is outside
   int (atoi: undefined behaviour in C, EOverflow here) *)
Example C06_tr_addr_nonvacuous :
  let a := [50; 44; 36; 45; 49]%N in
  let m := TrExAddr.ex_mem 5 0 (map Z.of_N a) in
  let bl := length GenCFuncs.cglobals in
  (CLiteProps.str_at m (S bl) a /\ nonul a /\ CLiteProps.cell_at m GenCFuncs.G_xrow 0 /\
   nth_error m (S (S bl)) = Some [CLite.VUndef] /\ nth_error m (S (S (S bl))) = Some [CLite.VInt 0] /\
   nth_error m GenCFuncs.G_bufs = Some (CLiteProps.upd GenCFuncs.gb_bufs TrExAddr.BUFS_LB (CLite.VPtr bl 0)) /\
   nth_error m bl = Some (TrExAddr.lbuf_blk 5) /\ nth_error (TrExAddr.lbuf_blk 5) TrLbufBase.L_ln_n = Some (CLite.VInt 5) /\
   TrLbufMarks.marks_ints (TrExAddr.lbuf_blk 5) /\
   nth_error m GenCFuncs.G_lit_25_1 = Some GenCFuncs.gb_lit_25_1 /\ TrExAddr.rdist (S bl) (S (S bl)) (S (S (S bl))) bl /\
   ExAddrDefs.nosearch a /\
   TrExAddr.region_fit 5 (TrExAddr.mark_of (TrExAddr.lbuf_blk 5)) TrExAddr.search0 a 0) /\
  ExAddrDefs.region_full 5 (CapDefs.ex_lineno 5 (TrExAddr.mark_of (TrExAddr.lbuf_blk 5)) TrExAddr.search0) a 0 = CapDefs.Ok (false, 1, 4, 0) /\
  TrExAddr.run_region 5 0 (map Z.of_N a) = CLite.Ok (0, 1, 4, 0) /\
  TrExAddr.run_region 5 0 [50; 59; 43; 49] = CLite.Ok (0, 1, 3, 1) /\
  TrExAddr.run_region 5 0 [48] = CLite.Ok (0, 0, 0, 0) /\
  TrExAddr.run_region 5 0 [37] = CLite.Ok (0, 0, 5, 0) /\
  TrExAddr.run_region 5 3 [] = CLite.Ok (0, 3, 4, 3) /\
  TrExAddr.run_region 5 0 [39; 97] = CLite.Ok (1, -2, -1, 0) /\
  TrExAddr.run_region 5 0 [47; 97; 47] = CLite.Err CLite.EShape /\
  TrExAddr.run_region 5 0 [50; 49; 52; 55; 52; 56; 51; 54; 52; 56] = CLite.Err CLite.EOverflow.
Proof.
  cbv zeta. split; [|vm_compute; repeat split; reflexivity].
  split; [vm_compute; reflexivity|]. split; [repeat constructor; cbv; intuition discriminate|].
  split; [vm_compute; reflexivity|]. split; [vm_compute; reflexivity|]. split; [vm_compute; reflexivity|].
  split; [vm_compute; reflexivity|]. split; [vm_compute; reflexivity|]. split; [vm_compute; reflexivity|].
  split. { intros j Hj. do 64 (destruct j as [|j]; [eexists; split; [reflexivity|unfold TrLbufBase.i32; lia]|]). lia. }
  split; [vm_compute; reflexivity|].
  split. { unfold TrExAddr.rdist. vm_compute. repeat split; intro H; discriminate H. }
  split. { repeat constructor; intro H; discriminate H. }
  vm_compute. intuition discriminate.
Qed.

(* the same with searches, RELATIVE to the untranslated ex_search: TrExAddr.callfx is cprog linked with a function ext in its
   place; TrExAddr.search_ext says what is assumed of ext -- called with pat = &p, p at position i of s, it returns the row the
   oracle `search` gives (or -1), moves p to the position the oracle gives, inside s, and changes nothing else.  For EVERY
   address string (/re/ and ?re? included), the statements of C06_tr_ex_lineno and C06_tr_ex_region. *)
Theorem C06_tr_ex_lineno_rel : forall ext m bs bn bl s i xrow len gbufs lblk search d fuel,
  CLiteProps.str_at m bs s -> CLiteProps.bytes_lt256 s -> nth_error m bn = Some [CLite.VPtr bs (Z.of_nat i)] ->
  CLiteProps.cell_at m GenCFuncs.G_xrow xrow ->
  nth_error m GenCFuncs.G_bufs = Some gbufs -> nth_error gbufs TrExAddr.BUFS_LB = Some (CLite.VPtr bl 0) ->
  nth_error m bl = Some lblk -> nth_error lblk TrLbufBase.L_ln_n = Some (CLite.VInt len) -> TrLbufMarks.marks_ints lblk ->
  bs <> bn /\ GenCFuncs.G_xrow <> bn /\ GenCFuncs.G_bufs <> bn /\ bl <> bn -> TrExAddr.int_ok xrow -> TrExAddr.int_ok len ->
  TrExAddr.search_ext ext search bs bn s -> (i <= length s)%nat -> (2 * S (length s) <= fuel)%nat ->
  exists n j, CapDefs.ex_lineno len (TrExAddr.mark_of lblk) search xrow s i = CapDefs.Ok (n, j) /\ (i <= j)%nat /\ (j <= length s)%nat /\
    (TrExAddr.lineno_fit len (TrExAddr.mark_of lblk) search xrow s i ->
     exists j' nb, TrExAddr.callfx ext fuel (S (S (S d))) GenCFuncs.F_ex_lineno [CLite.VPtr bn 0] m
                   = CLite.Ok (CLite.VInt n, (CLiteProps.upd m bn [CLite.VPtr bs (Z.of_nat j')] ++ [[CLite.VInt nb]])%list) /\
                   (j' = j \/ n = -2) /\ (i <= j')%nat /\ (j' <= length s)%nat /\ TrExAddr.int_ok n).
Proof. exact TrExAddr.tr_ex_lineno_rel. Qed.
Print Assumptions C06_tr_ex_lineno_rel.

Theorem C06_tr_ex_region_rel : forall ext m bs bb be bl s xrow len gbufs lblk vb0 e0 search d fuel,
  CLiteProps.str_at m bs s -> nonul s -> CLiteProps.cell_at m GenCFuncs.G_xrow xrow ->
  nth_error m bb = Some [vb0] -> nth_error m be = Some [CLite.VInt e0] ->
  nth_error m GenCFuncs.G_bufs = Some gbufs -> nth_error gbufs TrExAddr.BUFS_LB = Some (CLite.VPtr bl 0) ->
  nth_error m bl = Some lblk -> nth_error lblk TrLbufBase.L_ln_n = Some (CLite.VInt len) -> TrLbufMarks.marks_ints lblk ->
  nth_error m GenCFuncs.G_lit_25_1 = Some GenCFuncs.gb_lit_25_1 -> TrExAddr.rdist bs bb be bl ->
  TrExAddr.int_ok xrow -> TrExAddr.int_ok len -> TrExAddr.int_ok e0 -> 2 * Z.of_nat (S (length s)) <= 2147483647 ->
  TrExAddr.search_ext ext search bs (length m) s -> (2 * S (length s) <= fuel)%nat ->
  exists r, ExAddrDefs.region_full len (CapDefs.ex_lineno len (TrExAddr.mark_of lblk) search) s xrow = CapDefs.Ok r /\
    (TrExAddr.region_fit len (TrExAddr.mark_of lblk) search s xrow ->
     exists m', TrExAddr.callfx ext fuel (S (S (S (S d)))) GenCFuncs.F_ex_region [CLite.VPtr bs 0; CLite.VPtr bb 0; CLite.VPtr be 0] m
                = CLite.Ok (CLite.VInt (CLite.b2z (fst (fst (fst r)))), m') /\
       nth_error m' bb = Some [CLite.VInt (snd (fst (fst r)))] /\ nth_error m' be = Some [CLite.VInt (snd (fst r))] /\
       CLiteProps.cell_at m' GenCFuncs.G_xrow (snd r) /\
       (forall b', (b' < length m)%nat -> b' <> bb -> b' <> be -> b' <> GenCFuncs.G_xrow -> nth_error m' b' = nth_error m b')).
Proof. exact TrExAddr.tr_ex_region_rel. Qed.
Print Assumptions C06_tr_ex_region_rel.

(* non-vacuity: search_ext is satisfiable (an ext that answers row 2 and moves p to the end of the string, for the oracle that
   says so), and the linked program RUNS: with an ext that answers row 2 and steps over three bytes, `/a/,$` on 5 lines
   resolves to lines 3..5 (beg = 2, end = 5) *)
Example C06_tr_search_nonvacuous :
  (forall bs bn s,
     TrExAddr.search_ext (fun _ mm => CLite.Ok (CLite.VInt 2, CLiteProps.upd mm bn [CLite.VPtr bs (Z.of_nat (length s))]))
                         (fun _ t _ => (Some 2, length t)) bs bn s) /\
  let ext := fun (args : list CLite.val) (mm : CLite.mem) =>
               match args with
               | [CLite.VPtr b 0] => match nth_error mm b with
                                     | Some [CLite.VPtr bs' o] => CLite.Ok (CLite.VInt 2, CLiteProps.upd mm b [CLite.VPtr bs' (o + 3)])
                                     | _ => CLite.Err CLite.EShape
                                     end
               | _ => CLite.Err CLite.EShape
               end in
  let bl := length GenCFuncs.cglobals in
  match TrExAddr.callfx ext 100 10 GenCFuncs.F_ex_region [CLite.VPtr (S bl) 0; CLite.VPtr (S (S bl)) 0; CLite.VPtr (S (S (S bl))) 0]
          (TrExAddr.ex_mem 5 0 [47; 97; 47; 44; 36]) with
  | CLite.Ok (r, m') => Some (r, nth_error m' (S (S bl)), nth_error m' (S (S (S bl))))
  | CLite.Err _ => None
  end = Some (CLite.VInt 0, Some [CLite.VInt 2], Some [CLite.VInt 5]).
Proof.
  split; [|vm_compute; reflexivity].
  intros bs bn s. split; [intros; reflexivity|]. intros xr i Hi. cbn [snd]. lia.
Qed.

(* the same against the list-based model of THIS file (ExDefs.ex_lineno / ExDefs.ex_region, what C06_resolve_bounds,
   C06_frame, C06_address_semantics ... are about): TrExAddr.v composed with the model bridge ExCapAddr.v (region_bridge:
   for every NUL-free address string without a search and every editor state, ExDefs.ex_region returns what region_full
   returns over the state's buffer length, current line and mark rows, and changes the state only in xrow).  The editor
   state st supplies length, current line and mark rows; marks_rep says that mark[] of the struct lbuf in memory holds
   those rows.  R = (rejected, beg, end, state after): the translated ex_region returns 1/0 and stores beg, end and the
   new current line exactly as the model of C06 says. *)
From NV Require TrExAddrEx.
Theorem C06_tr_ex_region_model : forall rvalid rfind (st : st) m bs bb be bl s gbufs lblk vb0 e0 d fuel,
  CLiteProps.str_at m bs s -> nonul s -> CLiteProps.cell_at m GenCFuncs.G_xrow (xrow st) ->
  nth_error m bb = Some [vb0] -> nth_error m be = Some [CLite.VInt e0] ->
  nth_error m GenCFuncs.G_bufs = Some gbufs -> nth_error gbufs TrExAddr.BUFS_LB = Some (CLite.VPtr bl 0) ->
  nth_error m bl = Some lblk -> nth_error lblk TrLbufBase.L_ln_n = Some (CLite.VInt (slen st)) ->
  TrLbufMarks.marks_ints lblk -> TrLbufMarks.marks_rep lblk (marks (lb st)) ->
  nth_error m GenCFuncs.G_lit_25_1 = Some GenCFuncs.gb_lit_25_1 -> TrExAddr.rdist bs bb be bl ->
  TrExAddr.int_ok (xrow st) -> TrExAddr.int_ok (slen st) -> TrExAddr.int_ok e0 -> 2 * Z.of_nat (S (length s)) <= 2147483647 ->
  ExAddrDefs.nosearch s -> (2 * S (length s) <= fuel)%nat ->
  TrExAddr.region_fit (slen st) (TrExAddr.mark_of lblk) TrExAddr.search0 s (xrow st) ->
  let R := ex_region rvalid rfind s st in
  exists m', CLite.callf GenCFuncs.cprog fuel (S (S (S (S d)))) GenCFuncs.F_ex_region [CLite.VPtr bs 0; CLite.VPtr bb 0; CLite.VPtr be 0] m
             = CLite.Ok (CLite.VInt (CLite.b2z (fst (fst (fst R)))), m') /\
    nth_error m' bb = Some [CLite.VInt (snd (fst (fst R)))] /\ nth_error m' be = Some [CLite.VInt (snd (fst R))] /\
    CLiteProps.cell_at m' GenCFuncs.G_xrow (xrow (snd R)) /\ lb (snd R) = lb st /\
    (forall b', (b' < length m)%nat -> b' <> bb -> b' <> be -> b' <> GenCFuncs.G_xrow -> nth_error m' b' = nth_error m b').
Proof. exact TrExAddrEx.tr_ex_region_model. Qed.
Print Assumptions C06_tr_ex_region_model.

Theorem C06_tr_ex_lineno_model : forall rvalid rfind (st : st) m bs bn bl s i gbufs lblk d fuel,
  CLiteProps.str_at m bs s -> CLiteProps.bytes_lt256 s -> nth_error m bn = Some [CLite.VPtr bs (Z.of_nat i)] ->
  CLiteProps.cell_at m GenCFuncs.G_xrow (xrow st) ->
  nth_error m GenCFuncs.G_bufs = Some gbufs -> nth_error gbufs TrExAddr.BUFS_LB = Some (CLite.VPtr bl 0) ->
  nth_error m bl = Some lblk -> nth_error lblk TrLbufBase.L_ln_n = Some (CLite.VInt (slen st)) ->
  TrLbufMarks.marks_ints lblk -> TrLbufMarks.marks_rep lblk (marks (lb st)) ->
  bs <> bn /\ GenCFuncs.G_xrow <> bn /\ GenCFuncs.G_bufs <> bn /\ bl <> bn -> TrExAddr.int_ok (xrow st) -> TrExAddr.int_ok (slen st) ->
  ExAddrDefs.nosearch s -> (i <= length s)%nat -> (2 * S (length s) <= fuel)%nat ->
  TrExAddr.lineno_fit (slen st) (TrExAddr.mark_of lblk) TrExAddr.search0 (xrow st) s i ->
  let R := ex_lineno rvalid rfind st (skipn i s) in
  exists j' nb, CLite.callf GenCFuncs.cprog fuel (S (S (S d))) GenCFuncs.F_ex_lineno [CLite.VPtr bn 0] m
                = CLite.Ok (CLite.VInt (fst (fst R)), (CLiteProps.upd m bn [CLite.VPtr bs (Z.of_nat j')] ++ [[CLite.VInt nb]])%list) /\
                (snd (fst R) = skipn j' s \/ fst (fst R) = -2) /\ (i <= j')%nat /\ (j' <= length s)%nat /\ snd R = st.
Proof. exact TrExAddrEx.tr_ex_lineno_model. Qed.
Print Assumptions C06_tr_ex_lineno_model.

(* non-vacuity: on a state with five lines, current line 0 and no mark set the model of this file resolves `2,$-1` to (1, 4) -- what the
   translated ex_region stored in C06_tr_addr_nonvacuous -- and `0` to the empty range (0, 0) *)
Example C06_tr_model_nonvacuous :
  let st0 := mkst (mklb (number_lines [[97]; [98]; [99]; [100]; [101]]%N 0) (repeat (-1, None) NMARKS) [] 0 1 0 0 5) 0 [] [] 0 [] [] false true 0 None 0%N in
  slen st0 = 5 /\ xrow st0 = 0 /\
  TrLbufMarks.marks_rep (TrExAddr.lbuf_blk 5) (marks (lb st0)) /\
  (let R := ex_region (fun _ => true) (fun _ _ _ => None) [50; 44; 36; 45; 49]%N st0 in (fst (fst (fst R)), snd (fst (fst R)), snd (fst R), xrow (snd R))) = (false, 1, 4, 0) /\
  (let R := ex_region (fun _ => true) (fun _ _ _ => None) [48]%N st0 in (fst (fst (fst R)), snd (fst (fst R)), snd (fst R))) = (false, 0, 0).
Proof.
  cbv zeta. split; [vm_compute; reflexivity|]. split; [vm_compute; reflexivity|].
  split. { split; [vm_compute; reflexivity|]. intros k Hk. do 32 (destruct k as [|k]; [vm_compute; reflexivity|]). lia. }
  split; vm_compute; reflexivity.
Qed.

(* ================================================================================================================== *)
(* THE LINE COMMANDS ON THE TRANSLATED C TEXT (coq/TrExCmds.v, whitelist tools/c2clite.d/88_excmds.list): ec_delete, ... of /repo/ex.c as
   CLite terms (GenCFuncs.cf_ec_delete ...) do what the model's commands of this file do, for every memory and every oracle.

   The setting.  `CLiteExt.callx ext cprog` is the translated program in which a call to an untranslated function (index X_..) is
   answered by the oracle ext.  The commands call ex_region (translated; C06_tr_ex_region_model), lbuf_len / ex_lbuf (translated) and
   the oracles lbuf_cp, reg_put, lbuf_edit, ex_print, sprintf.  Each theorem says: (1) ex_region is called on the command's frame and
   returns what the model's ex_region says; (2) when the model's command returns 1 the C command returns 1 from that memory, no
   oracle having been called; (3) when the model's command returns 0: IF the oracles answer the calls
   f [arguments of the model] on the memory the previous step left -- one hypothesis per call, chained by the memories, so the order
   of the calls is fixed -- THEN the command returns 0 and has stored the model's current line in xrow.  The hypotheses about the
   memories the oracles return are what the C text reads back from them (bufs[0].lb still points to the struct lbuf, its ln_n is
   the length of the model's buffer after the model's edit, the command's own locals beg / end are untouched).
   TrExCmds.cmd_pre m st bs bl s gbufs lblk: the memory m holds the address string s (NUL-free, no search) in block bs, xrow st in
   G_xrow, bufs[0].lb -> block bl, a struct lbuf whose ln_n is slen st and whose mark[] are the mark rows of st (C06_tr_cmd_pre).
   TrExCmds.zero_linked ext: ex.c's calls of ex_zero go to the index X_ex_zero (so that ec_glob's term keeps its form); the oracle
   is the translated ex_zero there (C06_tr_ex_zero: it computes the model's ex_zero, fix 6c95ca8).
   THE FRAME.  A command starts with `int beg, end;` -- two fresh one-cell blocks, indeterminate -- and passes their addresses to
   ex_region, which executes `int end0 = *end` before it stores to *end (the value is used from the second address on only).  CLite
   makes the use of an indeterminate value an error, so the CALL of a command with an address other than "" and "%" is EUndef in
   CLite (C06_tr_delete_runs, last line).  In C, `end` has SOME int value there.  TrExCmds.ec_delete_run ext fuel D loc cmd arg txt m ve
   is the text of ec_delete behind the two allocations, run in the frame where `end` holds ve; C06_tr_ec_delete_entry: the call IS
   ec_delete_run .. VUndef; the theorems are about ec_delete_run .. (VInt e0) for EVERY int e0, and the results do not depend on e0. *)
From NV Require CLiteExt TrExCmds.

Theorem C06_tr_cmd_pre : forall mm (st : st) bs bl s gbufs lblk, TrExCmds.cmd_pre mm st bs bl s gbufs lblk <->
  (CLiteProps.str_at mm bs s /\ nonul s /\ ExAddrDefs.nosearch s /\ CLiteProps.cell_at mm GenCFuncs.G_xrow (xrow st) /\
   nth_error mm GenCFuncs.G_bufs = Some gbufs /\ nth_error gbufs TrExAddr.BUFS_LB = Some (CLite.VPtr bl 0) /\
   nth_error mm bl = Some lblk /\ nth_error lblk TrLbufBase.L_ln_n = Some (CLite.VInt (slen st)) /\
   TrLbufMarks.marks_ints lblk /\ TrLbufMarks.marks_rep lblk (marks (lb st)) /\ nth_error mm GenCFuncs.G_lit_25_1 = Some GenCFuncs.gb_lit_25_1 /\
   TrExAddr.int_ok (xrow st) /\ TrExAddr.int_ok (slen st) /\ 2 * Z.of_nat (S (length s)) <= 2147483647 /\
   TrExAddr.region_fit (slen st) (TrExAddr.mark_of lblk) TrExAddr.search0 s (xrow st)).
Proof. exact TrExCmds.cmd_pre_iff. Qed.
Print Assumptions C06_tr_cmd_pre.

(* ex_zero(loc, beg, end) = loc[0] && strcmp("%", loc) && !beg && !end: the model's ex_zero, for every NUL-free string (fix 6c95ca8) *)
Theorem C06_tr_ex_zero : forall m bs s b e d fuel,
  CLiteProps.str_at m bs s -> nonul s -> nth_error m GenCFuncs.G_lit_25_1 = Some GenCFuncs.gb_lit_25_1 ->
  CLite.callf GenCFuncs.cprog fuel (S d) GenCFuncs.F_ex_zero [CLite.VPtr bs 0; CLite.VInt b; CLite.VInt e] m
  = CLite.Ok (CLite.VInt (CLite.b2z (ex_zero s b e)), m).
Proof. exact TrExCmds.tr_ex_zero. Qed.
Print Assumptions C06_tr_ex_zero.

Theorem C06_tr_ec_delete_entry : forall ext fuel D a0 a1 a2 a3 m,
  CLiteExt.callx ext GenCFuncs.cprog fuel (S D) GenCFuncs.F_ec_delete [a0; a1; a2; a3] m = TrExCmds.ec_delete_run ext fuel D a0 a1 a2 a3 m CLite.VUndef.
Proof. exact TrExCmds.ec_delete_entry. Qed.
Print Assumptions C06_tr_ec_delete_entry.

(* d.  M = the model's ec_delete on the state st; R = the model's ex_region (rejected, beg, end, state).  The calls, in order:
   ex_region(loc, &beg, &end); [ex_zero(loc, beg, end); lbuf_len(xb)]; lbuf_cp(xb, beg, end) -> buf; reg_put(REG(arg), buf, 1);
   free(buf); lbuf_edit(xb, NULL, beg, end); xrow = MAX(0, MIN(beg, lbuf_len(xb) - 1)) = the model's new current line (fix 9481b21). *)
Theorem C06_tr_ec_delete : forall ext fuel rvalid rfind (st : st) m bs bl s gbufs lblk e0 d,
  TrExCmds.cmd_pre m st bs bl s gbufs lblk -> GenCFuncs.G_xrow <> bs -> GenCFuncs.G_xrow <> bl ->
  TrExCmds.zero_linked ext -> TrExAddr.int_ok e0 -> (2 * S (length s) <= fuel)%nat ->
  forall vcmd ba arg vtxt, CLiteProps.str_at m ba arg -> nonul arg -> ba <> GenCFuncs.G_xrow ->
  let M := ec_delete rvalid rfind s arg st in
  let R := ex_region rvalid rfind s st in
  let bb := length m in let be := S (length m) in let D := S (S (S (S d))) in
  exists m1,
    CLiteExt.callx ext GenCFuncs.cprog fuel D GenCFuncs.F_ex_region [CLite.VPtr bs 0; CLite.VPtr bb 0; CLite.VPtr be 0]
      (TrExCmds.frame_mem m CLite.VUndef (CLite.VInt e0)) = CLite.Ok (CLite.VInt (CLite.b2z (fst (fst (fst R)))), m1) /\
    (snd M <> 0 ->
       TrExCmds.ec_delete_run ext fuel D (CLite.VPtr bs 0) vcmd (CLite.VPtr ba 0) vtxt m (CLite.VInt e0) = CLite.Ok (CLite.VInt (snd M), m1) /\
       snd M = 1 /\ CLiteProps.cell_at m1 GenCFuncs.G_xrow (xrow (fst M)) /\ lb (fst M) = lb st) /\
    (snd M = 0 -> forall pb m2 u m3 c blk u' m5 x5,
       ext GenCFuncs.X_lbuf_cp [CLite.VPtr bl 0; CLite.VInt (snd (fst (fst R))); CLite.VInt (snd (fst R))] m1 = CLite.Ok (CLite.VPtr pb 0, m2) ->
       ext GenCFuncs.X_reg_put [CLite.VInt (Z.of_N (REG arg)); CLite.VPtr pb 0; CLite.VInt 1] m2 = CLite.Ok (u, m3) ->
       nth_error m3 pb = Some (c :: blk) ->
       TrExCmds.keeps [GenCFuncs.G_bufs; bb; be] m1 (CLiteProps.upd m3 pb []) ->
       ext GenCFuncs.X_lbuf_edit [CLite.VPtr bl 0; CLite.VInt 0; CLite.VInt (snd (fst (fst R))); CLite.VInt (snd (fst R))] (CLiteProps.upd m3 pb [])
         = CLite.Ok (u', m5) ->
       nth_error m5 bb = Some [CLite.VInt (snd (fst (fst R)))] -> TrExCmds.len_view m5 bl (slen (fst M)) -> CLiteProps.cell_at m5 GenCFuncs.G_xrow x5 ->
       TrExCmds.ec_delete_run ext fuel D (CLite.VPtr bs 0) vcmd (CLite.VPtr ba 0) vtxt m (CLite.VInt e0)
       = CLite.Ok (CLite.VInt 0, CLiteProps.upd m5 GenCFuncs.G_xrow [CLite.VInt (xrow (fst M))])).
Proof. exact TrExCmds.tr_ec_delete. Qed.
Print Assumptions C06_tr_ec_delete.

(* the translated ec_delete RUNS, with a table oracle that logs every call as a block (tag :: arguments) appended to the memory (tags: 1
   lbuf_cp, 2 reg_put, 3 lbuf_edit; TrExCmds.log_ext newlen cp: lbuf_cp returns a fresh string cp, lbuf_edit sets ln_n to newlen).
   Five lines, current line 0, bl = the block of the struct lbuf.  `2,3d`: lbuf_cp(xb, 1, 3), reg_put(0, buf, 1), lbuf_edit(xb, NULL, 1, 3),
   xrow = 1, result 0 -- whatever int `end` held (0 or 77); `%d`: lbuf_edit(xb, NULL, 0, 5), xrow = 0; `4,5d`: xrow = 2, the new last
   line (fix 9481b21); `0d`: result 1, no call (fix 6c95ca8).  The call of the function: on `%d` the same run; on `2,3d` EUndef. *)
Example C06_tr_delete_runs :
  let bl := length GenCFuncs.cglobals in
  let run e0 newlen cp addr :=
    TrExCmds.show (TrExCmds.ec_delete_run (TrExCmds.log_ext newlen cp) 100 10 (CLite.VPtr (S bl) 0) (CLite.VPtr (S (S bl)) 0) (CLite.VPtr (S (S (S bl))) 0)
                     (CLite.VInt 0) (TrExCmds.cmd_mem 5 0 addr [100] []) (CLite.VInt e0)) (bl + 6) in
  run 0 3 [98; 10; 99; 10] [50; 44; 51]
  = Some (CLite.VInt 0, Some [CLite.VInt 1],
          [[CLite.VInt 1; CLite.VPtr bl 0; CLite.VInt 1; CLite.VInt 3]; [CLite.VInt 2; CLite.VInt 0; CLite.VPtr (bl + 10) 0; CLite.VInt 1];
           [CLite.VInt 3; CLite.VPtr bl 0; CLite.VInt 0; CLite.VInt 1; CLite.VInt 3]]) /\
  run 77 3 [98; 10; 99; 10] [50; 44; 51] = run 0 3 [98; 10; 99; 10] [50; 44; 51] /\
  run 0 0 [97; 10] [37]
  = Some (CLite.VInt 0, Some [CLite.VInt 0],
          [[CLite.VInt 1; CLite.VPtr bl 0; CLite.VInt 0; CLite.VInt 5]; [CLite.VInt 2; CLite.VInt 0; CLite.VPtr (bl + 8) 0; CLite.VInt 1];
           [CLite.VInt 3; CLite.VPtr bl 0; CLite.VInt 0; CLite.VInt 0; CLite.VInt 5]]) /\
  run 0 3 [100; 10; 101; 10] [52; 44; 53]
  = Some (CLite.VInt 0, Some [CLite.VInt 2],
          [[CLite.VInt 1; CLite.VPtr bl 0; CLite.VInt 3; CLite.VInt 5]; [CLite.VInt 2; CLite.VInt 0; CLite.VPtr (bl + 10) 0; CLite.VInt 1];
           [CLite.VInt 3; CLite.VPtr bl 0; CLite.VInt 0; CLite.VInt 3; CLite.VInt 5]]) /\
  run 0 5 [] [48] = Some (CLite.VInt 1, Some [CLite.VInt 0], []) /\
  TrExCmds.show (CLiteExt.callx (TrExCmds.log_ext 0 [97; 10]) GenCFuncs.cprog 100 11 GenCFuncs.F_ec_delete
                   [CLite.VPtr (S bl) 0; CLite.VPtr (S (S bl)) 0; CLite.VPtr (S (S (S bl))) 0; CLite.VInt 0] (TrExCmds.cmd_mem 5 0 [37] [100] [])) (bl + 6)
  = run 0 0 [97; 10] [37] /\
  CLiteExt.callx (TrExCmds.log_ext 3 []) GenCFuncs.cprog 100 11 GenCFuncs.F_ec_delete
    [CLite.VPtr (S bl) 0; CLite.VPtr (S (S bl)) 0; CLite.VPtr (S (S (S bl))) 0; CLite.VInt 0] (TrExCmds.cmd_mem 5 0 [50; 44; 51] [100] []) = CLite.Err CLite.EUndef.
Proof. exact TrExCmds.run_delete_examples. Qed.

(* satisfiable: the memory TrExCmds.cmd_mem 5 0 addr cmd arg (five lines, current line 0, no marks) represents the five-line state TrExCmds.st5 for
   every address the run examples use, and the logging table oracle is linked with ex_zero *)
Example C06_tr_cmd_pre_nonvacuous : forall cmd arg,
  let bl := length GenCFuncs.cglobals in
  Forall (fun a : bytes => TrExCmds.cmd_pre (TrExCmds.cmd_mem 5 0 (map Z.of_N a) cmd arg) TrExCmds.st5 (S bl) bl a
                             (CLiteProps.upd GenCFuncs.gb_bufs TrExAddr.BUFS_LB (CLite.VPtr bl 0)) (TrExAddr.lbuf_blk 5))
         [[50; 44; 51]; [37]; [52; 44; 53]; [48]; []; [36]]%N /\
  (forall n cp, TrExCmds.zero_linked (TrExCmds.log_ext n cp)) /\ GenCFuncs.G_xrow <> S bl /\ GenCFuncs.G_xrow <> bl.
Proof. exact TrExCmds.cmd_pre_example. Qed.

(* y.  The guard of d; then lbuf_cp(xb, beg, end) -> buf, reg_put(REG(arg), buf, 1), free(buf); the buffer is not touched, xrow is what ex_region left. *)
Theorem C06_tr_ec_yank_entry : forall ext fuel D a0 a1 a2 a3 m,
  CLiteExt.callx ext GenCFuncs.cprog fuel (S D) GenCFuncs.F_ec_yank [a0; a1; a2; a3] m = TrExCmds.ec_yank_run ext fuel D a0 a1 a2 a3 m CLite.VUndef.
Proof. exact TrExCmds.ec_yank_entry. Qed.
Print Assumptions C06_tr_ec_yank_entry.
Theorem C06_tr_ec_yank : forall ext fuel rvalid rfind (st : st) m bs bl s gbufs lblk e0 d,
  TrExCmds.cmd_pre m st bs bl s gbufs lblk -> GenCFuncs.G_xrow <> bs -> GenCFuncs.G_xrow <> bl ->
  TrExCmds.zero_linked ext -> TrExAddr.int_ok e0 -> (2 * S (length s) <= fuel)%nat ->
  forall vcmd ba arg vtxt, CLiteProps.str_at m ba arg -> nonul arg -> ba <> GenCFuncs.G_xrow ->
  let M := ec_yank rvalid rfind s arg st in
  let R := ex_region rvalid rfind s st in
  let bb := length m in let be := S (length m) in let D := S (S (S (S d))) in
  exists m1,
    CLiteExt.callx ext GenCFuncs.cprog fuel D GenCFuncs.F_ex_region [CLite.VPtr bs 0; CLite.VPtr bb 0; CLite.VPtr be 0]
      (TrExCmds.frame_mem m CLite.VUndef (CLite.VInt e0)) = CLite.Ok (CLite.VInt (CLite.b2z (fst (fst (fst R)))), m1) /\
    CLiteProps.cell_at m1 GenCFuncs.G_xrow (xrow (fst M)) /\ lb (fst M) = lb st /\
    (snd M <> 0 ->
       TrExCmds.ec_yank_run ext fuel D (CLite.VPtr bs 0) vcmd (CLite.VPtr ba 0) vtxt m (CLite.VInt e0) = CLite.Ok (CLite.VInt (snd M), m1) /\ snd M = 1) /\
    (snd M = 0 -> forall pb m2 u m3 c blk,
       ext GenCFuncs.X_lbuf_cp [CLite.VPtr bl 0; CLite.VInt (snd (fst (fst R))); CLite.VInt (snd (fst R))] m1 = CLite.Ok (CLite.VPtr pb 0, m2) ->
       ext GenCFuncs.X_reg_put [CLite.VInt (Z.of_N (REG arg)); CLite.VPtr pb 0; CLite.VInt 1] m2 = CLite.Ok (u, m3) ->
       nth_error m3 pb = Some (c :: blk) ->
       TrExCmds.keeps [GenCFuncs.G_bufs; bb; be] m1 (CLiteProps.upd m3 pb []) ->
       TrExCmds.ec_yank_run ext fuel D (CLite.VPtr bs 0) vcmd (CLite.VPtr ba 0) vtxt m (CLite.VInt e0) = CLite.Ok (CLite.VInt 0, CLiteProps.upd m3 pb [])).
Proof. exact TrExCmds.tr_ec_yank. Qed.
Print Assumptions C06_tr_ec_yank.

(* a i c.  b' = TrExCmds.ins_b, e' = TrExCmds.ins_e: the positions the model's ec_insert edits at (C06_tr_ins_positions): `a` moves beg behind a
   NON-EMPTY range that does not end the buffer's index space (so 0a, whose range (0,0) is empty, inserts before the first line: fix e93d764),
   `i` and `a` replace nothing (end' = beg'), `c` replaces [beg, end).  An address that ex_region rejects is accepted when it is address 0
   (beg = end = 0, fix 6c95ca8: 0a on the empty buffer).  lbuf_edit(xb, txt, b', e') is the only oracle call; it is made in the memory where
   the locals beg and end hold b' and e'; afterwards xrow = MAX(0, MIN(len' - 1, e' + len' - len - 1)) = the model's current line (fix 7b90d84:
   0 and not -1 when nothing was added at the top).  txt is the model's text block (None = no block): the pointer vtxt is handed to the oracle
   as it came, and the hypothesis about the oracle is that the buffer it leaves has the length of the model's buffer after the model's edit. *)
Theorem C06_tr_ec_insert_entry : forall ext fuel D a0 a1 a2 a3 m,
  CLiteExt.callx ext GenCFuncs.cprog fuel (S D) GenCFuncs.F_ec_insert [a0; a1; a2; a3] m = TrExCmds.ec_insert_run ext fuel D a0 a1 a2 a3 m CLite.VUndef.
Proof. exact TrExCmds.ec_insert_entry. Qed.
Print Assumptions C06_tr_ec_insert_entry.
Theorem C06_tr_ins_positions : forall rvalid rfind (st : st) s cmd,
  let R := ex_region rvalid rfind s st in let b := snd (fst (fst R)) in let e := snd (fst R) in
  TrExCmds.ins_b rvalid rfind st s cmd = (if (hd0 cmd =? 97)%N && (b <? e) && (b + 1 <=? slen st) then b + 1 else b) /\
  TrExCmds.ins_e rvalid rfind st s cmd = (if (hd0 cmd =? 99)%N then e else TrExCmds.ins_b rvalid rfind st s cmd).
Proof. exact TrExCmds.ins_positions. Qed.
Theorem C06_tr_ec_insert : forall ext fuel rvalid rfind (st : st) m bs bl s gbufs lblk e0 d,
  TrExCmds.cmd_pre m st bs bl s gbufs lblk -> GenCFuncs.G_xrow <> bs -> GenCFuncs.G_xrow <> bl ->
  TrExAddr.int_ok e0 -> (2 * S (length s) <= fuel)%nat ->
  forall bc cmd varg vtxt txt, CLiteProps.str_at m bc cmd -> nonul cmd -> bc <> GenCFuncs.G_xrow -> vtxt <> CLite.VUndef ->
  let M := ec_insert rvalid rfind s cmd txt st in
  let R := ex_region rvalid rfind s st in
  let b' := TrExCmds.ins_b rvalid rfind st s cmd in let e' := TrExCmds.ins_e rvalid rfind st s cmd in
  let bb := length m in let be := S (length m) in let D := S (S (S (S d))) in
  exists m1,
    CLiteExt.callx ext GenCFuncs.cprog fuel D GenCFuncs.F_ex_region [CLite.VPtr bs 0; CLite.VPtr bb 0; CLite.VPtr be 0]
      (TrExCmds.frame_mem m CLite.VUndef (CLite.VInt e0)) = CLite.Ok (CLite.VInt (CLite.b2z (fst (fst (fst R)))), m1) /\
    (snd M <> 0 ->
       TrExCmds.ec_insert_run ext fuel D (CLite.VPtr bs 0) (CLite.VPtr bc 0) varg vtxt m (CLite.VInt e0) = CLite.Ok (CLite.VInt (snd M), m1) /\
       snd M = 1 /\ CLiteProps.cell_at m1 GenCFuncs.G_xrow (xrow (fst M)) /\ lb (fst M) = lb st) /\
    (snd M = 0 -> lb (fst M) = lbuf_edit txt (Z.to_nat b') (Z.to_nat e') (lb st) /\ forall u' m5 x5,
       ext GenCFuncs.X_lbuf_edit [CLite.VPtr bl 0; vtxt; CLite.VInt b'; CLite.VInt e']
           (CLiteProps.upd (CLiteProps.upd m1 bb [CLite.VInt b']) be [CLite.VInt e']) = CLite.Ok (u', m5) ->
       nth_error m5 be = Some [CLite.VInt e'] -> TrExCmds.len_view m5 bl (slen (fst M)) -> CLiteProps.cell_at m5 GenCFuncs.G_xrow x5 ->
       TrExAddr.int_ok (e' + slen (fst M)) ->
       TrExCmds.ec_insert_run ext fuel D (CLite.VPtr bs 0) (CLite.VPtr bc 0) varg vtxt m (CLite.VInt e0)
       = CLite.Ok (CLite.VInt 0, CLiteProps.upd m5 GenCFuncs.G_xrow [CLite.VInt (xrow (fst M))])).
Proof. exact TrExCmds.tr_ec_insert. Qed.
Print Assumptions C06_tr_ec_insert.

(* the translated ec_insert RUNS (the log shows the one call of lbuf_edit; txt = a pointer, handed on): `0a` on five lines: lbuf_edit(xb, txt, 0, 0),
   xrow = 0 (fix e93d764); `2a`: (2, 2), xrow = 2; `2,3c` with one line: (1, 3), xrow = 1; `2i`: (1, 1); `a` with an empty block on the empty
   buffer: (0, 0), xrow = 0 and not -1 (fix 7b90d84); `0a` on the empty buffer (fix 6c95ca8); `7a` on five lines: result 1, no call. *)
Example C06_tr_insert_runs :
  let bl := length GenCFuncs.cglobals in
  let txt := CLite.VPtr (S (S (S bl))) 0 in
  let run lines newlen addr c :=
    TrExCmds.show (TrExCmds.ec_insert_run (TrExCmds.log_ext newlen []) 100 10 (CLite.VPtr (S bl) 0) (CLite.VPtr (S (S bl)) 0) (CLite.VInt 0) txt
                     (TrExCmds.cmd_mem lines 0 addr [c] [120; 10]) (CLite.VInt 0)) (bl + 6) in
  run 5 6 [48] 97 = Some (CLite.VInt 0, Some [CLite.VInt 0], [[CLite.VInt 3; CLite.VPtr bl 0; txt; CLite.VInt 0; CLite.VInt 0]]) /\
  run 5 6 [50] 97 = Some (CLite.VInt 0, Some [CLite.VInt 2], [[CLite.VInt 3; CLite.VPtr bl 0; txt; CLite.VInt 2; CLite.VInt 2]]) /\
  run 5 4 [50; 44; 51] 99 = Some (CLite.VInt 0, Some [CLite.VInt 1], [[CLite.VInt 3; CLite.VPtr bl 0; txt; CLite.VInt 1; CLite.VInt 3]]) /\
  run 5 6 [50] 105 = Some (CLite.VInt 0, Some [CLite.VInt 1], [[CLite.VInt 3; CLite.VPtr bl 0; txt; CLite.VInt 1; CLite.VInt 1]]) /\
  run 0 0 [] 97 = Some (CLite.VInt 0, Some [CLite.VInt 0], [[CLite.VInt 3; CLite.VPtr bl 0; txt; CLite.VInt 0; CLite.VInt 0]]) /\
  run 0 1 [48] 97 = Some (CLite.VInt 0, Some [CLite.VInt 0], [[CLite.VInt 3; CLite.VPtr bl 0; txt; CLite.VInt 0; CLite.VInt 0]]) /\
  run 5 5 [55] 97 = Some (CLite.VInt 1, Some [CLite.VInt 0], []).
Proof. exact TrExCmds.run_insert_examples. Qed.

(* pu (coq/TrExCmdsPut.v), through the TRANSLATED reg_get (C06_tr_reg_get ...): regs_at m pb lb R = the register file of reg.c in memory holds the
   registers R (TrReg.v), ex_abs (regs st) R = the model state's registers are those texts.  n = lbuf_len(xb); buf = reg_get(REG(arg), &lnmode);
   TrExCmdsPut.put_mem = the memory after that (the command's frame beg, end, lnmode, with the register's line-wise flag stored in lnmode).
   An unset register: the command returns 1 and M = (st, 1).  A set register: its slot points to a block b0 that holds the model's text buf; ex_region
   runs; the address is accepted also when it is address 0 (0pu, fix 6c95ca8); lbuf_edit(xb, buf, end, end) is the one oracle call, with the
   model's end; xrow = MAX(0, MIN(len' - 1, end + len' - len - 1)) = the model's current line (fix 7b90d84).  ; # ^ (computed registers)
   are outside the model (reg_special). *)
From NV Require TrExCmdsPut.
Theorem C06_tr_ec_put_entry : forall ext fuel D a0 a1 a2 a3 m,
  CLiteExt.callx ext GenCFuncs.cprog fuel (S D) GenCFuncs.F_ec_put [a0; a1; a2; a3] m = TrExCmdsPut.ec_put_run ext fuel D a0 a1 a2 a3 m CLite.VUndef.
Proof. exact TrExCmdsPut.ec_put_entry. Qed.
Print Assumptions C06_tr_ec_put_entry.
Theorem C06_tr_ec_put : forall ext fuel rvalid rfind (st : st) m bs bl s gbufs lblk e0 d pb lb0 R ba arg,
  TrExCmds.cmd_pre m st bs bl s gbufs lblk -> GenCFuncs.G_xrow <> bs -> GenCFuncs.G_xrow <> bl ->
  TrExAddr.int_ok e0 -> (2 * S (length s) <= fuel)%nat ->
  TrReg.regs_at m pb lb0 R -> TrRegEx.ex_abs (regs st) R -> CLiteProps.str_at m ba arg -> nonul arg -> reg_special (REG arg) = false ->
  forall vcmd vtxt,
  let M := ec_put rvalid rfind s arg st in
  let R0 := ex_region rvalid rfind s st in let e := snd (fst R0) in
  let bb := length m in let be := S (length m) in let D := S (S (S (S d))) in
  let name := N.to_nat (if (REG arg =? 34)%N then 0%N else REG arg) in
  let pm := TrExCmdsPut.put_mem m e0 lb0 arg in
  (reg_get st (REG arg) = None ->
     TrExCmdsPut.ec_put_run ext fuel D (CLite.VPtr bs 0) vcmd (CLite.VPtr ba 0) vtxt m (CLite.VInt e0) = CLite.Ok (CLite.VInt 1, pm) /\ M = (st, 1)) /\
  (forall buf, reg_get st (REG arg) = Some buf ->
     exists b0, TrReg.cellp pb name = CLite.VPtr b0 0 /\ CLiteProps.str_at m b0 buf /\
     exists m1, CLiteExt.callx ext GenCFuncs.cprog fuel D GenCFuncs.F_ex_region [CLite.VPtr bs 0; CLite.VPtr bb 0; CLite.VPtr be 0] pm
                = CLite.Ok (CLite.VInt (CLite.b2z (fst (fst (fst R0)))), m1) /\
       (snd M <> 0 ->
          TrExCmdsPut.ec_put_run ext fuel D (CLite.VPtr bs 0) vcmd (CLite.VPtr ba 0) vtxt m (CLite.VInt e0) = CLite.Ok (CLite.VInt (snd M), m1) /\
          snd M = 1 /\ CLiteProps.cell_at m1 GenCFuncs.G_xrow (xrow (fst M)) /\ lb (fst M) = lb st) /\
       (snd M = 0 -> lb (fst M) = lbuf_edit (Some buf) (Z.to_nat e) (Z.to_nat e) (lb st) /\ forall u' m5 x5,
          ext GenCFuncs.X_lbuf_edit [CLite.VPtr bl 0; CLite.VPtr b0 0; CLite.VInt e; CLite.VInt e] m1 = CLite.Ok (u', m5) ->
          nth_error m5 be = Some [CLite.VInt e] -> TrExCmds.len_view m5 bl (slen (fst M)) -> CLiteProps.cell_at m5 GenCFuncs.G_xrow x5 ->
          TrExAddr.int_ok (e + slen (fst M)) ->
          TrExCmdsPut.ec_put_run ext fuel D (CLite.VPtr bs 0) vcmd (CLite.VPtr ba 0) vtxt m (CLite.VInt e0)
          = CLite.Ok (CLite.VInt 0, CLiteProps.upd m5 GenCFuncs.G_xrow [CLite.VInt (xrow (fst M))]))).
Proof. exact TrExCmdsPut.tr_ec_put. Qed.
Print Assumptions C06_tr_ec_put.

(* the translated ec_put RUNS, reg_get included (TrExCmdsPut.put_example_mem: the unnamed register of reg.c points to the block bl + 4 = "x\n"): `2pu`:
   lbuf_edit(xb, buf, 2, 2), buf = that block, xrow = 2; `0pu`: (0, 0), xrow = 0 (fix 6c95ca8); `$pu`: (5, 5), xrow = 5; `0pu` and `pu` on the empty
   buffer: (0, 0), xrow = 0 (fix 7b90d84 when nothing is added); `2pu` with the register named by a double quote: the same as `2pu`; `7pu`: 1; `2pu a` with register a unset: 1, no call *)
Example C06_tr_put_runs :
  let bl := length GenCFuncs.cglobals in
  let run lines newlen addr arg :=
    TrExCmds.show (TrExCmdsPut.ec_put_run (TrExCmds.log_ext newlen []) 100 10 (CLite.VPtr (S bl) 0) (CLite.VPtr (S (S bl)) 0) (CLite.VPtr (S (S (S bl))) 0)
                     (CLite.VInt 0) (TrExCmdsPut.put_example_mem lines addr arg) (CLite.VInt 0)) (bl + 8) in
  run 5 6 [50] [] = Some (CLite.VInt 0, Some [CLite.VInt 2], [[CLite.VInt 3; CLite.VPtr bl 0; CLite.VPtr (bl + 4) 0; CLite.VInt 2; CLite.VInt 2]]) /\
  run 5 6 [48] [] = Some (CLite.VInt 0, Some [CLite.VInt 0], [[CLite.VInt 3; CLite.VPtr bl 0; CLite.VPtr (bl + 4) 0; CLite.VInt 0; CLite.VInt 0]]) /\
  run 5 6 [36] [] = Some (CLite.VInt 0, Some [CLite.VInt 5], [[CLite.VInt 3; CLite.VPtr bl 0; CLite.VPtr (bl + 4) 0; CLite.VInt 5; CLite.VInt 5]]) /\
  run 0 1 [48] [] = Some (CLite.VInt 0, Some [CLite.VInt 0], [[CLite.VInt 3; CLite.VPtr bl 0; CLite.VPtr (bl + 4) 0; CLite.VInt 0; CLite.VInt 0]]) /\
  run 0 0 [] [] = Some (CLite.VInt 0, Some [CLite.VInt 0], [[CLite.VInt 3; CLite.VPtr bl 0; CLite.VPtr (bl + 4) 0; CLite.VInt 0; CLite.VInt 0]]) /\
  run 5 6 [50] [34] = run 5 6 [50] [] /\
  run 5 6 [55] [] = Some (CLite.VInt 1, Some [CLite.VInt 0], []) /\
  run 5 6 [50] [97] = Some (CLite.VInt 1, Some [CLite.VInt 0], []).
Proof. exact TrExCmdsPut.run_put_examples. Qed.

(* p (and the command line that is only an address).  early = no command name, no address and the current line is not a line: 1, from the frame memory.
   Otherwise ex_region and ex_zero (fix 6c95ca8); then ex_print(lbuf_get(xb, i)) for i = beg, .., end - 1 IN THIS ORDER: pm 0 = the memory after ex_region,
   pm (k + 1) = what the oracle leaves when called on pm k with lb->ln[beg + k] (TrExCmds.printed); every pm k still shows the buffer and the
   command's locals (TrExCmds.print_view: bufs[0].lb -> a struct lbuf with ln_n = slen st and ln -> block bln = the table lnblk, beg and end in their
   blocks); afterwards xrow = MAX(beg, end - 1) = the model's current line and xoff = 0. *)
Theorem C06_tr_ec_print_entry : forall ext fuel D a0 a1 a2 a3 m,
  CLiteExt.callx ext GenCFuncs.cprog fuel (S D) GenCFuncs.F_ec_print [a0; a1; a2; a3] m = TrExCmds.ec_print_run ext fuel D a0 a1 a2 a3 m CLite.VUndef.
Proof. exact TrExCmds.ec_print_entry. Qed.
Print Assumptions C06_tr_ec_print_entry.
Theorem C06_tr_print_view : forall rvalid rfind (st : st) bl s bb be bln lnblk mx,
  TrExCmds.print_view rvalid rfind st bl s bb be bln lnblk mx <->
  (TrExCmds.len_view mx bl (slen st) /\
   (exists lblk', nth_error mx bl = Some lblk' /\ nth_error lblk' TrLbufBase.L_ln_n = Some (CLite.VInt (slen st)) /\
                  nth_error lblk' TrLbufBase.L_ln = Some (CLite.VPtr bln 0)) /\
   nth_error mx bln = Some lnblk /\
   nth_error mx bb = Some [CLite.VInt (snd (fst (fst (ex_region rvalid rfind s st))))] /\
   nth_error mx be = Some [CLite.VInt (snd (fst (ex_region rvalid rfind s st)))]).
Proof. exact TrExCmds.print_view_iff. Qed.
Theorem C06_tr_printed : forall ext rvalid rfind (st : st) s lnblk pm,
  TrExCmds.printed ext rvalid rfind st s lnblk pm <->
  (let b := snd (fst (fst (ex_region rvalid rfind s st))) in let e := snd (fst (ex_region rvalid rfind s st)) in
   forall k, (k < Z.to_nat (e - b))%nat ->
   exists p o u, nth_error lnblk (Z.to_nat (b + Z.of_nat k)) = Some (CLite.VPtr p o) /\ ext GenCFuncs.X_ex_print [CLite.VPtr p o] (pm k) = CLite.Ok (u, pm (S k))).
Proof. exact TrExCmds.printed_iff. Qed.
Theorem C06_tr_ec_print : forall ext fuel rvalid rfind (st : st) m bs bl s gbufs lblk e0 d,
  TrExCmds.cmd_pre m st bs bl s gbufs lblk -> GenCFuncs.G_xrow <> bs -> GenCFuncs.G_xrow <> bl ->
  TrExCmds.zero_linked ext -> TrExAddr.int_ok e0 -> (2 * S (length s) <= fuel)%nat ->
  forall bc cmd varg vtxt bln lnblk, CLiteProps.str_at m bc cmd -> nonul cmd -> bc <> GenCFuncs.G_xrow ->
  nth_error lblk TrLbufBase.L_ln = Some (CLite.VPtr bln 0) -> nth_error m bln = Some lnblk -> bln <> GenCFuncs.G_xrow ->
  let M := ec_print rvalid rfind s cmd st in
  let R := ex_region rvalid rfind s st in let b := snd (fst (fst R)) in let e := snd (fst R) in
  let early := TrExCmds.noaddr_nocmd s cmd && (slen st <=? xrow st) in
  let cnt := Z.to_nat (e - b) in
  let bb := length m in let be := S (length m) in let D := S (S (S (S d))) in
  let mf := TrExCmds.frame_mem m CLite.VUndef (CLite.VInt e0) in
  let run := TrExCmds.ec_print_run ext fuel D (CLite.VPtr bs 0) (CLite.VPtr bc 0) varg vtxt m (CLite.VInt e0) in
  (early = true -> run = CLite.Ok (CLite.VInt 1, mf) /\ M = (st, 1)) /\
  exists m1,
    CLiteExt.callx ext GenCFuncs.cprog fuel D GenCFuncs.F_ex_region [CLite.VPtr bs 0; CLite.VPtr bb 0; CLite.VPtr be 0] mf
      = CLite.Ok (CLite.VInt (CLite.b2z (fst (fst (fst R)))), m1) /\
    TrExCmds.print_view rvalid rfind st bl s bb be bln lnblk m1 /\
    (early = false -> snd M <> 0 ->
       run = CLite.Ok (CLite.VInt (snd M), m1) /\ snd M = 1 /\ CLiteProps.cell_at m1 GenCFuncs.G_xrow (xrow (fst M)) /\ lb (fst M) = lb st) /\
    (early = false -> snd M = 0 -> xrow (fst M) = Z.max b (e - 1) /\ forall pm x5 y5,
       pm O = m1 -> (forall k, (1 <= k <= cnt)%nat -> TrExCmds.print_view rvalid rfind st bl s bb be bln lnblk (pm k)) ->
       TrExCmds.printed ext rvalid rfind st s lnblk pm ->
       CLiteProps.cell_at (pm cnt) GenCFuncs.G_xrow x5 -> CLiteProps.cell_at (pm cnt) GenCFuncs.G_xoff y5 -> (cnt < fuel)%nat ->
       run = CLite.Ok (CLite.VInt 0, CLiteProps.upd (CLiteProps.upd (pm cnt) GenCFuncs.G_xrow [CLite.VInt (xrow (fst M))]) GenCFuncs.G_xoff [CLite.VInt 0])).
Proof. exact TrExCmds.tr_ec_print. Qed.
Print Assumptions C06_tr_ec_print.

(* the null command (an address alone) in ex mode (xvis = 0): the CALL of ec_null is the CALL of ec_print on the memory where the current line went one
   line down when there is one -- the model's ec_null is ec_print on set_xrow s (if xrow s + 1 <? slen s then xrow s + 1 else xrow s) by definition;
   both sides are calls of cprog, so the frame remark does not apply to this equation.  The visual-mode branch (xvis != 0) is outside the model. *)
Theorem C06_tr_ec_null : forall ext fuel D a0 a1 a2 a3 m x n bl,
  CLiteProps.cell_at m GenCFuncs.G_xvis 0 -> CLiteProps.cell_at m GenCFuncs.G_xrow x -> TrExAddr.int_ok x -> TrExAddr.int_ok (x + 1) ->
  TrExCmds.len_view m bl n -> a0 <> CLite.VUndef -> a1 <> CLite.VUndef -> a2 <> CLite.VUndef -> a3 <> CLite.VUndef ->
  CLiteExt.callx ext GenCFuncs.cprog fuel (S (S D)) GenCFuncs.F_ec_null [a0; a1; a2; a3] m
  = CLiteExt.callx ext GenCFuncs.cprog fuel (S D) GenCFuncs.F_ec_print [a0; a1; a2; a3]
      (CLiteProps.upd (TrExCmds.frame_mem m CLite.VUndef CLite.VUndef) GenCFuncs.G_xrow [CLite.VInt (if x + 1 <? n then x + 1 else x)]).
Proof. exact TrExCmds.tr_ec_null_ex. Qed.
Print Assumptions C06_tr_ec_null.
Theorem C06_model_null : forall rvalid rfind loc cmd (s : st),
  ec_null rvalid rfind loc cmd s = ec_print rvalid rfind loc cmd (set_xrow s (if xrow s + 1 <? slen s then xrow s + 1 else xrow s)).
Proof. exact (fun _ _ _ _ _ => eq_refl). Qed.

(* =.  The frame is char msg[128] (block length m), beg, end.  ex_region, ex_zero (fix 6c95ca8); then sprintf(msg, "%d\n", end) with the model's number
   (the model emits ONum end) and ex_print(msg) on the memory sprintf left.  xrow stays what ex_region left, the buffer is not touched. *)
Theorem C06_tr_ec_lnum_entry : forall ext fuel D a0 a1 a2 a3 m,
  CLiteExt.callx ext GenCFuncs.cprog fuel (S D) GenCFuncs.F_ec_lnum [a0; a1; a2; a3] m = TrExCmds.ec_lnum_run ext fuel D a0 a1 a2 a3 m CLite.VUndef.
Proof. exact TrExCmds.ec_lnum_entry. Qed.
Print Assumptions C06_tr_ec_lnum_entry.
Theorem C06_tr_ec_lnum : forall ext fuel rvalid rfind (st : st) m bs bl s gbufs lblk e0 d vcmd varg vtxt,
  TrExCmds.cmd_pre m st bs bl s gbufs lblk -> GenCFuncs.G_xrow <> bs -> GenCFuncs.G_xrow <> bl ->
  TrExCmds.zero_linked ext -> TrExAddr.int_ok e0 -> (2 * S (length s) <= fuel)%nat ->
  let M := ec_lnum rvalid rfind s st in
  let R := ex_region rvalid rfind s st in
  let bmsg := length m in let bb := S (length m) in let be := S (S (length m)) in let D := S (S (S (S d))) in
  exists m1,
    CLiteExt.callx ext GenCFuncs.cprog fuel D GenCFuncs.F_ex_region [CLite.VPtr bs 0; CLite.VPtr bb 0; CLite.VPtr be 0]
      (TrExCmds.frame_mem (TrExCmds.msg_mem m) CLite.VUndef (CLite.VInt e0)) = CLite.Ok (CLite.VInt (CLite.b2z (fst (fst (fst R)))), m1) /\
    CLiteProps.cell_at m1 GenCFuncs.G_xrow (xrow (fst M)) /\ lb (fst M) = lb st /\
    (snd M <> 0 -> TrExCmds.ec_lnum_run ext fuel D (CLite.VPtr bs 0) vcmd varg vtxt m (CLite.VInt e0) = CLite.Ok (CLite.VInt (snd M), m1) /\
                   snd M = 1 /\ out (fst M) = out st) /\
    (snd M = 0 -> out (fst M) = ONum (snd (fst R)) :: out st /\ forall u m2 u' m3,
       ext GenCFuncs.X_sprintf [CLite.VPtr bmsg 0; CLite.VPtr GenCFuncs.G_lit_25640a_3 0; CLite.VInt (snd (fst R))] m1 = CLite.Ok (u, m2) ->
       ext GenCFuncs.X_ex_print [CLite.VPtr bmsg 0] m2 = CLite.Ok (u', m3) ->
       TrExCmds.ec_lnum_run ext fuel D (CLite.VPtr bs 0) vcmd varg vtxt m (CLite.VInt e0) = CLite.Ok (CLite.VInt 0, m3)).
Proof. exact TrExCmds.tr_ec_lnum. Qed.
Print Assumptions C06_tr_ec_lnum.

(* k.  No oracle besides the linked ex_zero: ex_region, ex_zero (fix 6c95ca8), then the TRANSLATED lbuf_mark(xb, (unsigned char) arg[0], end - 1, 0)
   (C06_tr_lbuf_mark); TrLbufMarks.mark_blk = the struct lbuf with the mark's row and column stored; it holds the mark rows of the model's state after ec_mark *)
Theorem C06_tr_ec_mark_entry : forall ext fuel D a0 a1 a2 a3 m,
  CLiteExt.callx ext GenCFuncs.cprog fuel (S D) GenCFuncs.F_ec_mark [a0; a1; a2; a3] m = TrExCmds.ec_mark_run ext fuel D a0 a1 a2 a3 m CLite.VUndef.
Proof. exact TrExCmds.ec_mark_entry. Qed.
Print Assumptions C06_tr_ec_mark_entry.
Theorem C06_tr_ec_mark : forall ext fuel rvalid rfind (st : st) m bs bl s gbufs lblk e0 d,
  TrExCmds.cmd_pre m st bs bl s gbufs lblk -> GenCFuncs.G_xrow <> bs -> GenCFuncs.G_xrow <> bl ->
  TrExCmds.zero_linked ext -> TrExAddr.int_ok e0 -> (2 * S (length s) <= fuel)%nat ->
  forall vcmd ba arg vtxt, CLiteProps.str_at m ba arg -> nonul arg -> ba <> GenCFuncs.G_xrow -> length lblk = TrLbufBase.LBUF_CELLS ->
  let M := ec_mark rvalid rfind s arg st in
  let R := ex_region rvalid rfind s st in
  let blk' := TrLbufMarks.mark_blk lblk (Z.of_N (hd0 arg)) (snd (fst R) - 1) 0 in
  let bb := length m in let be := S (length m) in let D := S (S (S (S d))) in
  exists m1,
    CLiteExt.callx ext GenCFuncs.cprog fuel D GenCFuncs.F_ex_region [CLite.VPtr bs 0; CLite.VPtr bb 0; CLite.VPtr be 0]
      (TrExCmds.frame_mem m CLite.VUndef (CLite.VInt e0)) = CLite.Ok (CLite.VInt (CLite.b2z (fst (fst (fst R)))), m1) /\
    CLiteProps.cell_at m1 GenCFuncs.G_xrow (xrow (fst M)) /\
    (snd M <> 0 -> TrExCmds.ec_mark_run ext fuel D (CLite.VPtr bs 0) vcmd (CLite.VPtr ba 0) vtxt m (CLite.VInt e0) = CLite.Ok (CLite.VInt (snd M), m1) /\
                   snd M = 1 /\ lb (fst M) = lb st) /\
    (snd M = 0 -> TrExCmds.ec_mark_run ext fuel D (CLite.VPtr bs 0) vcmd (CLite.VPtr ba 0) vtxt m (CLite.VInt e0)
                  = CLite.Ok (CLite.VInt 0, if 0 <=? TrLbufMarks.midx (hd0 arg) then CLiteProps.upd m1 bl blk' else m1) /\
                  TrLbufMarks.marks_rep blk' (marks (lb (fst M)))).
Proof. exact TrExCmds.tr_ec_mark. Qed.
Print Assumptions C06_tr_ec_mark.

(* p / null / = / k RUN (TrExCmds.print_mem: five lines with the table of line pointers lb->ln = block bl + 4, the lines in bl + 5 .. bl + 9; log tag 4 =
   ex_print, 5 = sprintf): `2,4p`: ex_print(lb->ln[1]), (lb->ln[2]), (lb->ln[3]), xrow = 3; `$p`; `0p`: 1, nothing printed (fix 6c95ca8); no address, current
   line 5 of 5: 1; no address, current line 2: row 2.  The null command, the call itself: `%`: all five rows, xrow = 4; no address: the next row, xrow = 1;
   on the last line: the last row.  `3=`: sprintf(msg, "%d\n", 3), ex_print(msg).  `3ka`: mark[0] = 2, its column 0, mark[1] still unset. *)
Example C06_tr_print_runs :
  let bl := length GenCFuncs.cglobals in
  let args := [CLite.VPtr (S bl) 0; CLite.VPtr (S (S bl)) 0; CLite.VPtr (S (S (S bl))) 0; CLite.VInt 0] in
  let ext := TrExCmds.log_ext 5 [] in
  let run xr addr cmd :=
    TrExCmds.show (TrExCmds.ec_print_run ext 100 10 (CLite.VPtr (S bl) 0) (CLite.VPtr (S (S bl)) 0) (CLite.VPtr (S (S (S bl))) 0) (CLite.VInt 0)
                     (TrExCmds.print_mem xr addr cmd []) (CLite.VInt 0)) (bl + 12) in
  let pr k := [CLite.VInt 4; CLite.VPtr (bl + k) 0] in
  run 0 [50; 44; 52] [112] = Some (CLite.VInt 0, Some [CLite.VInt 3], [pr 6; pr 7; pr 8])%nat /\
  run 0 [36] [112] = Some (CLite.VInt 0, Some [CLite.VInt 4], [pr 9])%nat /\
  run 0 [48] [112] = Some (CLite.VInt 1, Some [CLite.VInt 0], []) /\
  run 5 [] [] = Some (CLite.VInt 1, Some [CLite.VInt 5], []) /\
  run 2 [] [] = Some (CLite.VInt 0, Some [CLite.VInt 2], [pr 7])%nat /\
  TrExCmds.show (CLiteExt.callx ext GenCFuncs.cprog 100 12 GenCFuncs.F_ec_null args (TrExCmds.print_mem 0 [37] [] [])) (bl + 14)
  = Some (CLite.VInt 0, Some [CLite.VInt 4], [pr 5; pr 6; pr 7; pr 8; pr 9])%nat /\
  TrExCmds.show (CLiteExt.callx ext GenCFuncs.cprog 100 12 GenCFuncs.F_ec_null args (TrExCmds.print_mem 0 [] [] [])) (bl + 14)
  = Some (CLite.VInt 0, Some [CLite.VInt 1], [pr 6])%nat /\
  TrExCmds.show (CLiteExt.callx ext GenCFuncs.cprog 100 12 GenCFuncs.F_ec_null args (TrExCmds.print_mem 4 [] [] [])) (bl + 14)
  = Some (CLite.VInt 0, Some [CLite.VInt 4], [pr 9])%nat /\
  TrExCmds.show (TrExCmds.ec_lnum_run ext 100 10 (CLite.VPtr (S bl) 0) (CLite.VPtr (S (S bl)) 0) (CLite.VPtr (S (S (S bl))) 0) (CLite.VInt 0)
                   (TrExCmds.print_mem 0 [51] [61] []) (CLite.VInt 0)) (bl + 13)
  = Some (CLite.VInt 0, Some [CLite.VInt 0],
          [[CLite.VInt 5; CLite.VPtr (bl + 10) 0; CLite.VPtr GenCFuncs.G_lit_25640a_3 0; CLite.VInt 3]; [CLite.VInt 4; CLite.VPtr (bl + 10) 0]])%nat /\
  match TrExCmds.ec_mark_run ext 100 10 (CLite.VPtr (S bl) 0) (CLite.VPtr (S (S bl)) 0) (CLite.VPtr (S (S (S bl))) 0) (CLite.VInt 0)
          (TrExCmds.print_mem 0 [51] [107] [97]) (CLite.VInt 0) with
  | CLite.Ok (v, m') => Some (v, option_map (fun blk => (nth 0 blk CLite.VUndef, nth 32 blk CLite.VUndef, nth 1 blk CLite.VUndef)) (nth_error m' bl))
  | CLite.Err _ => None
  end = Some (CLite.VInt 0, Some (CLite.VInt 2, CLite.VInt 0, CLite.VInt (-1))).
Proof. exact TrExCmds.run_print_examples. Qed.

(* ---------------------------------------------------------------------------------------------------------------------------------
   The command-line loop of ex.c on the TRANSLATED C text (tools/c2clite.py -> GenCFuncs.v, whitelist tools/c2clite.d/99zzzzz_exparse.list):
   ex_idx, ex_exec, ex_command; and the three scanners ex_loc / ex_cmd / ex_arg (30_ex.list, coq/TrEx.v) against THIS property's
   parser (ExDefs.ex_loc / ex_cmd / ex_arg), through the bridge coq/ExCapParse.v between the capacity model of C05 and ExDefs.
   Proofs: coq/TrExIdx.v, coq/TrExParse.v, coq/ExCapParse.v; the run: coq/TrExParseEx.v. *)
From NV Require CLite CLiteProps CLiteTac CLiteExt GenCFuncs GenConsts CapDefs ExCapParse TrLbufBase TrLbuf UndoDefs TrEx TrExIdx TrExParse TrExParseEx.

(* ex_loc(src, loc) with loc[EXLEN], for every NUL-free line shorter than EXLEN, from any position: the bytes stored are exactly the
   address part ExDefs.ex_loc splits off (then the terminator; the rest of loc[] untouched: no store leaves the array), the pointer
   returned is src + what the model consumed *)
Theorem C06_tr_ex_loc : forall m bs bd s blk i d fuel,
  CLiteProps.str_at m bs s -> nonul s -> nth_error m bd = Some blk -> Z.of_nat (length blk) = GenConsts.EXLEN -> bs <> bd ->
  nth_error m TrEx.G_exloc = Some TrEx.gb_exloc -> TrEx.G_exloc <> bd ->
  Z.of_nat (length s) < GenConsts.EXLEN -> (i <= length s)%nat -> (2 * S (length s) <= fuel)%nat ->
  let rest := fst (ExDefs.ex_loc (skipn i s)) in
  let loc := snd (ExDefs.ex_loc (skipn i s)) in
  exists i', rest = skipn i' s /\ (i <= i' <= length s)%nat /\ (length loc < length blk)%nat /\
    CLite.callf GenCFuncs.cprog fuel (S d) GenCFuncs.F_ex_loc [CLite.VPtr bs (Z.of_nat i); CLite.VPtr bd 0] m
    = CLite.Ok (CLite.VPtr bs (Z.of_nat i'), CLiteProps.upd m bd (TrEx.cstr_cells loc ++ skipn (S (length loc)) blk)).
Proof. exact TrExParse.tr_ex_loc_model. Qed.
Print Assumptions C06_tr_ex_loc.

(* ex_cmd(src, cmd): the command name of ExDefs.ex_cmd (alphabetic run of at most 16, "k" alone, one of ! = @ appended) *)
Theorem C06_tr_ex_cmd : forall m bs bd s blk i d fuel,
  CLiteProps.str_at m bs s -> nonul s -> nth_error m bd = Some blk -> Z.of_nat (length blk) = GenConsts.EXLEN -> bs <> bd ->
  Z.of_nat (length s) < GenConsts.EXLEN -> (i <= length s)%nat -> (S (length s) <= fuel)%nat ->
  let rest := fst (ExDefs.ex_cmd (skipn i s)) in
  let cmd := snd (ExDefs.ex_cmd (skipn i s)) in
  exists i', rest = skipn i' s /\ (i <= i' <= length s)%nat /\ (length cmd <= 17)%nat /\
    CLite.callf GenCFuncs.cprog fuel (S d) GenCFuncs.F_ex_cmd [CLite.VPtr bs (Z.of_nat i); CLite.VPtr bd 0] m
    = CLite.Ok (CLite.VPtr bs (Z.of_nat i'), CLiteProps.upd m bd (TrEx.cstr_cells cmd ++ skipn (S (length cmd)) blk)).
Proof. exact TrExParse.tr_ex_cmd_model. Qed.
Print Assumptions C06_tr_ex_cmd.

(* ex_arg(src, arg, excmd): the argument of ExDefs.ex_arg for the command abbreviation e -- up to an unescaped | (or a double quote or a newline),
   the whole rest of the line for ! g v and r / w with a !, through the closing delimiters for s & ~; a backslash takes the next byte along *)
Theorem C06_tr_ex_arg : forall m bs bd be s e blk i d fuel,
  CLiteProps.str_at m bs s -> nonul s -> nth_error m bd = Some blk -> Z.of_nat (length blk) = GenConsts.EXLEN -> bs <> bd ->
  CLiteProps.str_at m be e -> nonul e -> be <> bd ->
  Z.of_nat (length s) < GenConsts.EXLEN -> (i <= length s)%nat -> (S (length s) <= fuel)%nat ->
  let rest := fst (ExDefs.ex_arg (skipn i s) e) in
  let arg := snd (ExDefs.ex_arg (skipn i s) e) in
  exists i', rest = skipn i' s /\ (i <= i' <= length s)%nat /\ (length arg < length blk)%nat /\
    CLite.callf GenCFuncs.cprog fuel (S d) GenCFuncs.F_ex_arg [CLite.VPtr bs (Z.of_nat i); CLite.VPtr bd 0; CLite.VPtr be 0] m
    = CLite.Ok (CLite.VPtr bs (Z.of_nat i'), CLiteProps.upd m bd (TrEx.cstr_cells arg ++ skipn (S (length arg)) blk)).
Proof. exact TrExParse.tr_ex_arg_model. Qed.
Print Assumptions C06_tr_ex_arg.

(* ex_idx(cmd): the index of the first entry of excmds[] whose abbreviation or name is cmd, else -1 -- over the generated table; and the
   generated table against this model's CMDS / OTHER lists *)
Theorem C06_tr_ex_idx : forall m bc cmd d fuel,
  TrExIdx.excmds_at m -> TrExIdx.pstr_at m bc cmd -> nonul cmd -> (S TrExIdx.NCMDS < fuel)%nat ->
  CLite.callf GenCFuncs.cprog fuel (S d) GenCFuncs.F_ex_idx [CLite.VPtr bc 0] m
  = CLite.Ok (CLite.VInt (TrExIdx.idx_res (CapDefs.ex_idx cmd)), m).
Proof. exact TrExIdx.tr_ex_idx. Qed.
Print Assumptions C06_tr_ex_idx.
Theorem C06_tr_excmds_table : forall m, CLiteTac.globals_at m -> TrExIdx.excmds_at m.
Proof. exact TrExIdx.excmds_at_globals. Qed.
Print Assumptions C06_tr_excmds_table.
Theorem C06_ex_idx_tables : forall cmd,
  match CapDefs.ex_idx cmd with
  | Some (k, ab) => (ex_idx cmd = Some ab /\ is_other cmd = false) \/ (ex_idx cmd = None /\ is_other cmd = true)
  | None => ex_idx cmd = None /\ is_other cmd = false
  end.
Proof. exact ExCapParse.ex_idx_bridge. Qed.
Print Assumptions C06_ex_idx_tables.

(* ex_exec(ln) for every line shorter than EXLEN and EVERY oracle: whenever the run the model prescribes exists (TrExParse.runs: per
   command the pieces of the parser written to loc / cmd / arg, then ex_txt, then excmds[idx].ec(loc, cmd, arg, txt) -- a call to the
   oracle index X_indirect with the address of the table cell -- or ex_show("unknown command"), then free(txt)), the translated C text
   performs exactly it: the same calls on the same memories in the same order, the value of the last command returned *)
Theorem C06_tr_ex_exec : forall ext m bs s d fuel n tr ret m',
  CLiteProps.str_at m bs s -> nonul s -> Z.of_nat (length s) < GenConsts.EXLEN ->
  (length GenCFuncs.cglobals <= length m)%nat -> (2 * S (length s) <= fuel)%nat -> (S TrExIdx.NCMDS < fuel)%nat -> (n < fuel)%nat ->
  TrExParse.runs ext bs s (length m) (S (length m)) (S (S (length m))) n tr 0 0 (TrExParse.exec_mem m) ret m' ->
  CLiteExt.callx ext GenCFuncs.cprog fuel (S (S d)) GenCFuncs.F_ex_exec [CLite.VPtr bs 0] m = CLite.Ok (CLite.VInt ret, m').
Proof. exact TrExParse.tr_ex_exec. Qed.
Print Assumptions C06_tr_ex_exec.

(* ... and the (loc, cmd, arg) triples the oracles were fed are ExDefs' parse of the line, left to right (for the commands of the model;
   an excmds[] entry outside it gets its own abbreviation in C where ExDefs passes "unknown" to ex_arg) *)
Theorem C06_tr_ex_exec_parse : forall ext bs s bl bc ba n tr ret m ret' m', nonul s ->
  TrExParse.runs ext bs s bl bc ba n tr 0 ret m ret' m' ->
  Forall (fun r => ExCapParse.supported (TrExParse.rec_cmd r) = true) tr ->
  map TrExParse.triple_of tr = ExCapParse.parse_line (S (length s)) s.
Proof. exact TrExParse.runs_parse_line. Qed.
Print Assumptions C06_tr_ex_exec_parse.

(* strlen(ln) >= EXLEN: the message and 1; no scanner runs (the guard in front of loc / cmd / arg[EXLEN]) *)
Theorem C06_tr_ex_exec_long : forall ext m bs s d fuel u m',
  CLiteProps.str_at m bs s -> nonul s -> GenConsts.EXLEN <= Z.of_nat (length s) -> Z.of_nat (length s) < 4294967296 ->
  ext GenCFuncs.X_ex_show [CLite.VPtr TrExParse.G_msg_long 0] (TrExParse.exec_mem m) = CLite.Ok (u, m') ->
  CLiteExt.callx ext GenCFuncs.cprog fuel (S (S d)) GenCFuncs.F_ex_exec [CLite.VPtr bs 0] m = CLite.Ok (CLite.VInt 1, m').
Proof. exact TrExParse.tr_ex_exec_long. Qed.
Print Assumptions C06_tr_ex_exec_long.

(* ex_command(ln): below 16 nested levels depth++, ex_exec(ln) (oracle), depth--, then lbuf_modified(xb) through the translated
   lbuf_modified (the sequence number of the buffer moves: one command line = one undo step), ex_exec's value returned *)
Theorem C06_tr_ex_command : forall ext m v dep r m1 dep1 gbufs bl blk lb d fuel,
  nth_error m GenCFuncs.G_ex_command__depth = Some [CLite.VInt dep] -> 0 <= dep < 16 ->
  ext GenCFuncs.X_ex_exec [v] (CLiteProps.upd m GenCFuncs.G_ex_command__depth [CLite.VInt (dep + 1)]) = CLite.Ok (CLite.VInt r, m1) ->
  nth_error m1 GenCFuncs.G_ex_command__depth = Some [CLite.VInt dep1] -> TrLbufBase.i32 dep1 -> TrLbufBase.i32 (dep1 - 1) ->
  let m2 := CLiteProps.upd m1 GenCFuncs.G_ex_command__depth [CLite.VInt (dep1 - 1)] in
  nth_error m2 GenCFuncs.G_bufs = Some gbufs -> nth_error gbufs TrExParse.BUFS_LB = Some (CLite.VPtr bl 0) ->
  TrLbuf.lbuf_rep m2 bl blk lb -> TrLbuf.lbuf_ints lb -> UndoDefs.useq lb < 2147483647 -> v <> CLite.VUndef ->
  CLiteExt.callx ext GenCFuncs.cprog fuel (S (S (S d))) GenCFuncs.F_ex_command [v] m
  = CLite.Ok (CLite.VInt r, CLiteProps.upd m2 bl (CLiteProps.upd blk TrLbufBase.L_useq (CLite.VInt (UndoDefs.useq lb + 1)))).
Proof. exact TrExParse.tr_ex_command. Qed.
Print Assumptions C06_tr_ex_command.

(* non-vacuity: the translated ex_exec RUNS on "1,2p|zz x|s/a|b/c/|g/re/d|p" with a logging oracle: four commands, the | inside the
   substitute and the global arguments kept, the unknown command reported, (cell offset of excmds[idx].ec; loc; cmd; arg) logged per call;
   and a `runs` derivation exists for "1p|zz" (the hypotheses of C06_tr_ex_exec are satisfiable) *)
Example C06_tr_ex_exec_runs : TrExParseEx.run_line TrExParseEx.ln1 =
  Some (CLite.VInt 0, [[56; 49; 44; 50; -1; 112; -1]; [-2; 0]; [95; -1; 115; -1; 47; 97; 124; 98; 47; 99; 47]; [38; -1; 103; -1; 47; 114; 101; 47; 100; 124; 112]]).
Proof. exact TrExParseEx.run_ex_exec. Qed.
Example C06_tr_ex_exec_nonvacuous : exists tr m',
  TrExParse.runs TrExParseEx.log_ext TrExParseEx.BS TrExParseEx.s2 (S TrExParseEx.BS) (S (S TrExParseEx.BS)) (S (S (S TrExParseEx.BS))) 2 tr 0 0
    (TrExParse.exec_mem TrExParseEx.m2) 0 m' /\
  map TrExParse.triple_of tr = [([49%N], [112%N], []); ([], [122; 122]%N, [])].
Proof. exact TrExParseEx.runs_nonvacuous. Qed.

(* ------------------------------------------------------------------------------------------------------------------------------
   TEXT EXCHANGED WITH EXTERNAL COMMANDS (round i/j): `beg,end!cmd`, `rx reg cmd`, `addr r !cmd`, `addr r file`.
   ExPipeDefs.v adds ec_rx and ec_read_pipe (r !cmd) to the model (ex_command_x / ex_main_x: the first command of an input line may be
   one of them; the extracted ex_main_x is what the correspondence runs) and the feeding loop of cmd.c's cmd_pipe().  The external
   command is an arbitrary function from (command, input bytes) to output bytes; the theorems below hold for EVERY output byte string,
   written as join_lines l ++ t: newline-free lines l, each with its newline, and a newline-free rest t without one
   (C06_text_decomposition: every byte string has this form).  text_lines l t = l, plus t as one more line when it is not empty. *)
From NV Require ExStrDefs ExPipeDefs ExPipeProps.

Theorem C06_text_decomposition : forall s, exists l t,
  forallb ExStrDefs.nonl l = true /\ ExStrDefs.nonl t = true /\ s = join_lines l ++ t.
Proof. exact ExPipeProps.bytes_decomp. Qed.
Print Assumptions C06_text_decomposition.

(* the lines the splice primitive makes of a text (split_lines = linecount / linelength of lbuf_replace): the terminated lines, and the
   unterminated rest as a last line of its own -- the missing newline is supplied, no line is lost; the empty text has no line *)
Theorem C06_text_lines : forall l t, forallb ExStrDefs.nonl l = true -> ExStrDefs.nonl t = true ->
  split_lines (join_lines l ++ t) = ExPipeProps.text_lines l t /\
  (t <> [] -> split_lines (join_lines l ++ t) = l ++ [t]) /\ split_lines (join_lines l) = l.
Proof. exact (fun l t Hl Ht => conj (ExPipeProps.split_text l t Hl Ht) (conj (ExPipeProps.split_unterminated l t Hl Ht) (ExPipeProps.split_terminated l Hl))). Qed.
Print Assumptions C06_text_lines.

(* the filter: for every output of the command the addressed lines [b,e) are replaced by exactly the lines of the output and every other
   line keeps its place (splice); the current line number, the registers and the printed output are those after address resolution;
   the mark rows are the reference's ref_marks_edit; the command succeeds *)
Theorem C06_filter_output : forall rvalid rfind (filter : bytes -> bytes -> option bytes) loc arg s b e s1 l t,
  xwa s = true -> plain_arg arg = true -> loc <> [] ->
  ex_region rvalid rfind loc s = (false, b, e, s1) -> ex_zero loc b e = false ->
  forallb ExStrDefs.nonl l = true -> ExStrDefs.nonl t = true ->
  filter arg (ref_range (texts s) b e) = Some (join_lines l ++ t) ->
  let s' := fst (ec_exec rvalid rfind filter loc arg s) in
  texts s' = splice (Z.to_nat b) (Z.to_nat e) (ExPipeProps.text_lines l t) (texts s) /\
  xrow s' = xrow s1 /\ regs s' = regs s1 /\ out s' = out s1 /\
  map fst (marks (lb s')) = ref_marks_edit (Some (join_lines l ++ t)) b e (map fst (marks (lb s))) /\
  snd (ec_exec rvalid rfind filter loc arg s) = 0.
Proof. exact ExPipeProps.filter_output. Qed.
Print Assumptions C06_filter_output.

(* the INPUT of the filter: the command's result depends on the external command only through its answer to ONE input -- ref_range, the
   concatenation of the addressed lines, each with its newline -- whatever the size of that text *)
Theorem C06_filter_input_only : forall rvalid rfind (f1 f2 : bytes -> bytes -> option bytes) loc arg s,
  xwa s = true ->
  (forall b e s1, ex_region rvalid rfind loc s = (false, b, e, s1) ->
     f1 arg (ref_range (texts s) b e) = f2 arg (ref_range (texts s) b e)) ->
  ec_exec rvalid rfind f1 loc arg s = ec_exec rvalid rfind f2 loc arg s.
Proof. exact ExPipeProps.filter_input_only. Qed.
Print Assumptions C06_filter_input_only.

(* ... and cmd_pipe() hands that text to the command unchanged: under EVERY schedule of write() results without a failing or empty
   write and with more POLLOUT events than bytes, whatever the size of each partial write, exactly the text reaches the pipe, once,
   in order, and the descriptor is closed with nw = slen; under ANY schedule what reached the pipe is a prefix of the text of length nw *)
Theorem C06_pipe_feed_all : forall sched ibuf, ExPipeDefs.sched_ok sched = true -> (length ibuf < length sched)%nat ->
  ExPipeDefs.pipe_feed ibuf 0 sched = (ibuf, length ibuf, true).
Proof. exact ExPipeProps.feed_all. Qed.
Print Assumptions C06_pipe_feed_all.
Theorem C06_pipe_feed_prefix : forall sched ibuf nw d n2 c, (nw <= length ibuf)%nat -> ExPipeDefs.pipe_feed ibuf nw sched = (d, n2, c) ->
  d = firstn (n2 - nw) (skipn nw ibuf) /\ (nw <= n2 <= length ibuf)%nat.
Proof. exact ExPipeProps.feed_prefix. Qed.
Print Assumptions C06_pipe_feed_prefix.

(* rx: the register's text is the input, the output bytes become the register's text through reg_put (C06_numbered_push: what that
   does to the numbered registers); lines, marks, current line, printed output, pending input are untouched (set_regs) *)
Theorem C06_rx_effect : forall (filter : bytes -> bytes -> option bytes) arg s reg cmd text rep,
  ExPipeDefs.ex_reg arg = (reg, cmd) -> reg <> 0%N -> plain_arg cmd = true -> reg_special reg = false ->
  reg_get s reg = Some text -> filter cmd text = Some rep ->
  ExPipeDefs.ec_rx filter arg s = (set_regs s (reg_put (regs s) reg rep), 0).
Proof. exact ExPipeProps.rx_effect. Qed.
Print Assumptions C06_rx_effect.
Theorem C06_rx_input_only : forall (f1 f2 : bytes -> bytes -> option bytes) arg s,
  (forall text, reg_get s (fst (ExPipeDefs.ex_reg arg)) = Some text ->
     f1 (snd (ExPipeDefs.ex_reg arg)) text = f2 (snd (ExPipeDefs.ex_reg arg)) text) ->
  ExPipeDefs.ec_rx f1 arg s = ExPipeDefs.ec_rx f2 arg s.
Proof. exact ExPipeProps.rx_input_only. Qed.
Print Assumptions C06_rx_input_only.
(* ... and a put from that register afterwards adds exactly the lines of the output after the addressed line *)
Theorem C06_rx_then_put : forall rvalid rfind (filter : bytes -> bytes -> option bytes) arg s c cmd text l t loc b e s1,
  ExPipeDefs.ex_reg arg = (c, cmd) -> islower c = true -> plain_arg cmd = true ->
  reg_get s c = Some text -> forallb ExStrDefs.nonl l = true -> ExStrDefs.nonl t = true -> filter cmd text = Some (join_lines l ++ t) ->
  let sx := fst (ExPipeDefs.ec_rx filter arg s) in
  ex_region rvalid rfind loc sx = (false, b, e, s1) ->
  let s' := fst (ec_put rvalid rfind loc [c] sx) in
  lb sx = lb s /\ xrow sx = xrow s /\ out sx = out s /\
  (texts s', xrow s') = ref_put (texts s) b e (ExPipeProps.text_lines l t).
Proof. exact ExPipeProps.rx_then_put. Qed.
Print Assumptions C06_rx_then_put.

(* r !cmd and r file: the lines of the bytes that arrive are added after the addressed line (at the top of an empty buffer: ref_read), the
   current line becomes the last of them (e + number of lines - 1), the message is printed; for r !cmd also registers and mark rows *)
Theorem C06_read_pipe : forall rvalid rfind (cmdout : bytes -> option bytes) loc arg s b e s1 c cmd l t,
  ex_region rvalid rfind loc s = (false, b, e, s1) -> tl arg = c :: cmd ->
  forallb ExStrDefs.nonl l = true -> ExStrDefs.nonl t = true -> cmdout (c :: cmd) = Some (join_lines l ++ t) ->
  let s' := fst (ExPipeDefs.ec_read_pipe rvalid rfind cmdout loc arg s) in
  (texts s', xrow s') = ref_read (texts s) b e (ExPipeProps.text_lines l t) /\ out s' = OMsg M_READ :: out s1 /\ regs s' = regs s1 /\
  map fst (marks (lb s')) =
    ref_marks_edit (Some (join_lines l ++ t)) (if slen s =? 0 then 0 else e) (if slen s =? 0 then 0 else e) (map fst (marks (lb s))).
Proof. exact ExPipeProps.read_pipe_refines. Qed.
Print Assumptions C06_read_pipe.
Theorem C06_read_file_lines : forall rvalid rfind (readfile : bytes -> option bytes) (curpath : bytes) loc arg s b e s1 l t,
  ex_region rvalid rfind loc s = (false, b, e, s1) ->
  negb (plain_arg arg) || (hd0 arg =? 33)%N = false ->
  forallb ExStrDefs.nonl l = true -> ExStrDefs.nonl t = true ->
  readfile (match arg with [] => curpath | _ => arg end) = Some (join_lines l ++ t) ->
  let s' := fst (ec_read rvalid rfind readfile curpath loc arg s) in
  (texts s', xrow s') = ref_read (texts s) b e (ExPipeProps.text_lines l t) /\ out s' = OMsg M_READ :: out s1.
Proof. exact ExPipeProps.read_file_lines. Qed.
Print Assumptions C06_read_file_lines.

(* the extended line executor is ExDefs.ex_command on every line whose first command is neither rx nor r / read *)
Theorem C06_command_x_other : forall rvalid rfind filter cmdout readfile curpath fuel ln s,
  bytes_eqb (snd (ex_cmd (fst (ex_loc ln)))) ExPipeDefs.RX = false ->
  bytes_eqb (snd (ex_cmd (fst (ex_loc ln)))) ExPipeDefs.RD = false -> bytes_eqb (snd (ex_cmd (fst (ex_loc ln)))) ExPipeDefs.READ = false ->
  ExPipeDefs.ex_command_x rvalid rfind filter cmdout readfile curpath fuel ln s = ex_command rvalid rfind filter readfile curpath fuel ln s.
Proof. exact ExPipeProps.command_x_other. Qed.
Print Assumptions C06_command_x_other.

(* non-vacuity.  (1) the lines of "a\nb\nlast", "only", "" and "a\n".  (2) a 5-byte text through a pipe that takes 3 bytes first: the loop
   of cmd_pipe delivers it; the loop without the pointer advance (pipe_feed_noadv) re-sends the start: 1 2 3 1 2.  (3) ex_main_x on
   L1..L4 with the script `2,3y a / rx a j / $pu a / 1r !c / 2,3!j`, every filter answering the unterminated "X+Y" and `c` printing
   "x\ny": L1 X+Y L2 L3 L4 X+Y (the register filter, the put, the read and the filter each deliver their unterminated last line). *)
Example C06_pipe_nonvacuous :
  split_lines [97; 10; 98; 10; 108; 97; 115; 116]%N = [[97]; [98]; [108; 97; 115; 116]]%N /\
  split_lines [111; 110; 108; 121]%N = [[111; 110; 108; 121]]%N /\ split_lines [] = [] /\ split_lines [97; 10]%N = [[97]]%N /\
  ExPipeDefs.pipe_feed [1; 2; 3; 4; 5]%N 0 [ExPipeDefs.WAcc 3; ExPipeDefs.WAcc 9] = ([1; 2; 3; 4; 5]%N, 5%nat, true) /\
  ExPipeDefs.pipe_feed_noadv [1; 2; 3; 4; 5]%N 0 [ExPipeDefs.WAcc 3; ExPipeDefs.WAcc 9] = ([1; 2; 3; 1; 2]%N, 5%nat, true) /\
  (let s := ExPipeDefs.ex_main_x (fun _ => false) (fun _ _ _ => None) (fun _ _ => Some [88; 43; 89]%N) (fun _ => Some [120; 10; 121]%N)
              (fun _ => None) [102]%N 100 100
              (init_st [76; 49; 10; 76; 50; 10; 76; 51; 10; 76; 52; 10]%N
                 [[50; 44; 51; 121; 32; 97]; [114; 120; 32; 97; 32; 106]; [36; 112; 117; 32; 97]; [49; 114; 32; 33; 99]; [50; 44; 51; 33; 106]]%N true) in
   texts s = [[76; 49]; [88; 43; 89]; [76; 50]; [76; 51]; [76; 52]; [88; 43; 89]]%N /\ flags s = F_EOF /\ xrow s = 2).
Proof. exact ExPipeProps.pipe_nonvacuous. Qed.

(* ... and for a class of oracles that run EXISTS, for every NUL-free line shorter than EXLEN (coq/TrExParseTotal.v): `oracle_ok ext .. T` says
   that ex_txt answers the position the model computes, that after every call the line, loc / cmd / arg, the command table and the literals
   are still there, that the txt cell holds NULL or a pointer (T: what the oracles keep true of it) and that free(txt) is accepted.  Then
   ex_exec returns after at most one command per byte, having performed the model's run *)
From NV Require TrExParseTotal.
Theorem C06_tr_ex_exec_total : forall ext T m bs s d fuel,
  CLiteProps.str_at m bs s -> nonul s -> Z.of_nat (length s) < GenConsts.EXLEN ->
  (length GenCFuncs.cglobals <= bs)%nat -> (2 * S (length s) <= fuel)%nat -> (S TrExIdx.NCMDS < fuel)%nat ->
  TrExParseTotal.oracle_ok ext bs s (length m) (S (length m)) (S (S (length m))) T ->
  TrExParse.frame_ok bs s (length m) (S (length m)) (S (S (length m))) (TrExParse.exec_mem m) ->
  exists n tr ret m', (n <= length s)%nat /\
    TrExParse.runs ext bs s (length m) (S (length m)) (S (S (length m))) n tr 0 0 (TrExParse.exec_mem m) ret m' /\
    CLiteExt.callx ext GenCFuncs.cprog fuel (S (S d)) GenCFuncs.F_ex_exec [CLite.VPtr bs 0] m = CLite.Ok (CLite.VInt ret, m').
Proof. exact TrExParseTotal.tr_ex_exec_total. Qed.
Print Assumptions C06_tr_ex_exec_total.
(* the class is not empty: the oracle that answers ex_txt with the model's position, lets every command return 0 and leaves the memory alone *)
Example C06_tr_oracle_ok_nonvacuous : forall bs s bl bc ba,
  TrExParseTotal.oracle_ok (TrExParseTotal.ok_ext s) bs s bl bc ba (fun m bt => nth_error m bt = Some [CLite.VInt 0]).
Proof. exact TrExParseTotal.ok_ext_ok. Qed.

(* ---- lbuf_cp under ex_yank / ec_delete / ec_yank (coq/TrLbufCp.v, coq/TrLbufCpUse.v; lbuf_cp itself: C04_tr_lbuf_cp in Properties_C04.v).
   C06_tr_ex_yank / C06_tr_ec_delete / C06_tr_ec_yank take the answer of the oracle for lbuf_cp as a premise
   (`ext X_lbuf_cp [xb; beg; end] m1 = Ok (VPtr pb 0, m2)`).  C06_tr_cp_discharged: for every oracle that answers X_lbuf_cp by RUNNING the
   translated lbuf_cp, on every memory that holds the model's lines (each line of ExDefs followed by its newline, as a C string in a block of its
   own) that premise holds, the block pb starts with exactly the text ExDefs.ex_yank puts into the register (ExDefs.lbuf_cp) and its terminator
   (the block is longer than the string: sbuf.c's capacity), pb did not exist in m1, nothing that existed in m1 changed -- so TrExCmds.keeps
   holds for every frame of live blocks -- and the struct sbuf has been freed.  Side conditions the premise form hides: 0 <= beg, the copy is at
   most 500 MB, one unit of loop fuel per row.  C06_tr_ex_yank_cp: ex_yank with the real lbuf_cp under it (reg_put stays an oracle). *)
From NV Require CLite CLiteProps CLiteExt GenCFuncs ExDefs TrExAddr TrExCmds TrCmp4Str TrMot TrViOp TrLbufCp TrLbufCpUse.
Theorem C06_tr_cp_discharged : forall (ext : nat -> list CLite.val -> CLite.mem -> CLite.res (CLite.val * CLite.mem)) (fuel d : nat)
    (m1 : CLite.mem) (bl : nat) (lb : ExDefs.lbuf) (b e : Z),
  (forall args m, ext GenCFuncs.X_lbuf_cp args m = CLite.callf GenCFuncs.cprog fuel (S (S (S (S d)))) GenCFuncs.F_lbuf_cp args m) ->
  TrLbufCp.cp_view m1 bl (TrLbufCpUse.ex_lines lb) -> (0 <= b)%Z -> TrExAddr.int_ok e ->
  (Z.of_nat (length (ExDefs.lbuf_cp lb (Z.to_nat b) (Z.to_nat e))) <= 500000000)%Z -> (Z.to_nat (e - b) < fuel)%nat ->
  exists pb m2, ext GenCFuncs.X_lbuf_cp [CLite.VPtr bl 0; CLite.VInt b; CLite.VInt e] m1 = CLite.Ok (CLite.VPtr pb 0%Z, m2) /\
    TrCmp4Str.pstr_at m2 pb (ExDefs.lbuf_cp lb (Z.to_nat b) (Z.to_nat e)) /\ Bytes.nonul (ExDefs.lbuf_cp lb (Z.to_nat b) (Z.to_nat e)) /\
    (length m1 < pb < length m2)%nat /\ nth_error m2 (length m1) = Some [] /\
    (forall k, (k < length m1)%nat -> nth_error m2 k = nth_error m1 k) /\
    (forall fr, (forall k, In k fr -> (k < length m1)%nat) -> TrExCmds.keeps fr m1 m2).
Proof. exact TrLbufCpUse.tr_cp_discharged_C06. Qed.
Print Assumptions C06_tr_cp_discharged.

Theorem C06_tr_ex_yank_cp : forall (ext : nat -> list CLite.val -> CLite.mem -> CLite.res (CLite.val * CLite.mem)) (fuel d D : nat)
    (mm : CLite.mem) (bl : nat) (lb : ExDefs.lbuf) (reg b e : Z),
  (forall args m, ext GenCFuncs.X_lbuf_cp args m = CLite.callf GenCFuncs.cprog fuel (S (S (S (S d)))) GenCFuncs.F_lbuf_cp args m) ->
  TrExCmds.xb_view mm bl -> TrLbufCp.cp_view mm bl (TrLbufCpUse.ex_lines lb) -> (0 <= b)%Z -> TrExAddr.int_ok e ->
  (Z.of_nat (length (ExDefs.lbuf_cp lb (Z.to_nat b) (Z.to_nat e))) <= 500000000)%Z -> (Z.to_nat (e - b) < fuel)%nat ->
  exists pb m2, TrCmp4Str.pstr_at m2 pb (ExDefs.lbuf_cp lb (Z.to_nat b) (Z.to_nat e)) /\
    (forall k, (k < length mm)%nat -> nth_error m2 k = nth_error mm k) /\
    forall u m3 c blk, ext GenCFuncs.X_reg_put [CLite.VInt reg; CLite.VPtr pb 0%Z; CLite.VInt 1%Z] m2 = CLite.Ok (u, m3) ->
      nth_error m3 pb = Some (c :: blk) ->
      CLiteExt.callx ext GenCFuncs.cprog fuel (S (S D)) GenCFuncs.F_ex_yank [CLite.VInt reg; CLite.VInt b; CLite.VInt e] mm
      = CLite.Ok (CLite.VUndef, CLiteProps.upd m3 pb []).
Proof. exact TrLbufCpUse.tr_ex_yank_cp. Qed.
Print Assumptions C06_tr_ex_yank_cp.

(* not vacuous, and the translated lbuf_cp RUNS: the buffer "ab\n", "cde\n", "f\n" of TrViOp.op_mem is the ExDefs buffer with the lines ab, cde, f;
   lbuf_cp(xb, 1, 3) returns a block that starts with "cde\nf\n" and the terminator = ExDefs.lbuf_cp of rows 1..2; the memory satisfies cp_view;
   the oracle TrLbufCpUse.ext_cp runs the C text. *)
Example C06_tr_cp_runs :
  let lb := ExDefs.mklb [ExDefs.mkline 0 0 [97; 98]%N; ExDefs.mkline 1 0 [99; 100; 101]%N; ExDefs.mkline 2 0 [102]%N] [] [] 0 0%Z 0%Z 0%Z 3 in
  let m := TrViOp.op_mem 0 0 in
  (match CLite.callf GenCFuncs.cprog 50 8 GenCFuncs.F_lbuf_cp [CLite.VPtr (length GenCFuncs.cglobals) 0%Z; CLite.VInt 1%Z; CLite.VInt 3%Z] m with
   | CLite.Ok (CLite.VPtr pb 0%Z, m') => firstn 7 (nth pb m' []) = CLite.cstr_block (CLiteProps.zb (ExDefs.lbuf_cp lb 1 3)) /\ (length m < pb)%nat
   | _ => False
   end) /\
  ExDefs.lbuf_cp lb 1 3 = [99; 100; 101; 10; 102; 10]%N /\
  TrLbufCp.cp_view m (length GenCFuncs.cglobals) (TrLbufCpUse.ex_lines lb) /\
  (forall args m0, TrLbufCpUse.ext_cp 50 4 GenCFuncs.X_lbuf_cp args m0 = CLite.callf GenCFuncs.cprog 50 8 GenCFuncs.F_lbuf_cp args m0).
Proof.
  cbv zeta. split; [vm_compute; split; [reflexivity|Lia.lia]|]. split; [reflexivity|]. split; [|exact (TrLbufCpUse.ext_cp_is 50 4)].
  apply (TrLbufCpUse.mot_at_view _ _ _ _ _ (TrViOp.ed_lb _ _ _ _ _ (TrViOp.op_mem_ed 0 0))). vm_compute. discriminate.
Qed.
