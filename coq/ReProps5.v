(* ReProps5.v -- C11: shape of the emitted program (every jump and every second fork target goes
   forward, every target stays inside the program, the last instruction is MATCH) and termination of
   the machine without fuel exhaustion: within one activation of re_rec the pc strictly increases, so
   |P|+1 steps suffice, and the recursion is cut at depth NDEPT. *)
From Coq Require Import List Arith Lia Bool ZArith NArith ZifyN ZifyBool ZifyNat.
From NV Require Import Bytes GenConsts ReSyntax ReParse ReEmit ReVM ReSem ReProps ReProps2 ReProps3.
Import ListNotations.

Section Fwd.
Variable P : list instr.
Notation fetch := (ReVM.fetch P).
Notation code_at := (ReSem.code_at P).

Definition fwd (lo hi : nat) : Prop :=
  forall pc, lo <= pc < hi ->
    match fetch pc with
    | IJump t => pc < t
    | IFork a1 a2 => pc < a2
    | _ => True
    end.

Lemma fwd_app lo mid hi : fwd lo mid -> fwd mid hi -> fwd lo hi.
Proof. intros F1 F2 pc Hpc. destruct (lt_dec pc mid); [apply F1 | apply F2]; lia. Qed.
Lemma fwd_empty lo : fwd lo lo.
Proof. intros pc Hpc. lia. Qed.
Lemma fwd_one pc i : fetch pc = i -> match i with IJump t => pc < t | IFork a1 a2 => pc < a2 | _ => True end -> fwd pc (pc + 1).
Proof. intros F H q Hq. assert (q = pc) by lia. subst q. rewrite F. exact H. Qed.

Lemma emit_fwd r : forall b, code_at b (emit r b) -> fwd b (b + len r).
Proof.
  induction r; intros b C; cbn [emit len] in *.
  - apply code_at_one in C. eapply fwd_one; eauto. exact I.
  - apply code_at_app in C. destruct C as [C1 C2]. rewrite emit_len in C2.
    replace (b + (len r1 + len r2)) with (b + len r1 + len r2) by lia.
    eapply fwd_app; [apply IHr1; eauto | apply IHr2; eauto].
  - apply code_at_app in C. destruct C as [C0 C]. apply code_at_one in C0. cbn [length] in C.
    apply code_at_app in C. destruct C as [C1 C]. rewrite emit_len in C.
    apply code_at_app in C. destruct C as [CJ C2]. apply code_at_one in CJ. cbn [length] in C2.
    replace (b + 1 + len r1 + 1) with (b + 2 + len r1) in C2 by lia.
    replace (b + (len r1 + len r2 + 2)) with (b + 2 + len r1 + len r2) by lia.
    eapply fwd_app; [|apply IHr2; exact C2].
    replace (b + 2 + len r1) with (b + 1 + len r1 + 1) by lia.
    eapply fwd_app; [|eapply fwd_one; [exact CJ | cbn; lia]].
    eapply fwd_app; [eapply fwd_one; [exact C0 | cbn; lia] | apply IHr1; exact C1].
  - apply code_at_app in C. destruct C as [C0 C]. apply code_at_one in C0. cbn [length] in C.
    apply code_at_app in C. destruct C as [C1 CF]. rewrite emit_len in CF. apply code_at_one in CF.
    replace (b + (len r + 2)) with (b + 1 + len r + 1) by lia.
    eapply fwd_app; [|eapply fwd_one; [exact CF | cbn; lia]].
    eapply fwd_app; [eapply fwd_one; [exact C0 | cbn; lia] | apply IHr; exact C1].
  - apply code_at_app in C. destruct C as [C0 C]. apply code_at_one in C0. cbn [length] in C.
    apply code_at_app in C. destruct C as [C1 CM]. rewrite emit_len in CM. apply code_at_one in CM.
    replace (b + (len r + 2)) with (b + 1 + len r + 1) by lia.
    eapply fwd_app; [|eapply fwd_one; [exact CM | cbn; exact I]].
    eapply fwd_app; [eapply fwd_one; [exact C0 | cbn; exact I] | apply IHr; exact C1].
  - (* pow *) revert b C. induction k as [|k IHk]; intros b C.
    + replace (b + 0 * len r) with b by lia. apply fwd_empty.
    + cbn [pow] in C. apply code_at_app in C. destruct C as [C1 C2]. rewrite emit_len in C2.
      replace (b + S k * len r) with (b + len r + k * len r) by lia.
      eapply fwd_app; [apply IHr; eauto | apply IHk; eauto].
  - (* plus *) apply code_at_app in C. destruct C as [C1 CF]. rewrite emit_len in CF. apply code_at_one in CF.
    replace (b + (len r + 1)) with (b + len r + 1) by lia.
    eapply fwd_app; [apply IHr; exact C1 | eapply fwd_one; [exact CF | cbn; lia]].
  - (* opt *) revert b C. induction j as [|j IHj]; intros b C.
    + replace (b + 0 * (1 + len r)) with b by lia. apply fwd_empty.
    + cbn [opt] in C. apply code_at_app in C. destruct C as [C0 C]. apply code_at_one in C0. cbn [length] in C.
      apply code_at_app in C. destruct C as [C1 C2]. rewrite emit_len in C2.
      replace (b + S j * (1 + len r)) with (b + 1 + len r + j * (1 + len r)) by lia.
      eapply fwd_app; [|apply IHj; exact C2].
      eapply fwd_app; [eapply fwd_one; [exact C0 | cbn; nia] | apply IHr; exact C1].
Qed.
End Fwd.

(* the static well-formedness regcomp guarantees *)
Definition prog_wf (P : list instr) : Prop :=
  nth (length P - 1) P IMatch = IMatch /\ 0 < length P /\
  forall pc, pc < length P ->
    match nth pc P IMatch with
    | IJump t => pc < t < length P
    | IFork a1 a2 => a1 < length P /\ pc < a2 < length P
    | IMatch => True
    | _ => S pc < length P
    end.

Lemma code_at_self l : code_at l 0 l.
Proof. intros k Hk. reflexivity. Qed.

Lemma top_prog_wf top : prog_wf ([IMark 0] ++ emit top 1 ++ [IMark 1; IMatch]).
Proof.
  set (P := [IMark 0] ++ emit top 1 ++ [IMark 1; IMatch]).
  assert (LP : length P = len top + 3). { subst P. cbn [app length]. rewrite app_length, emit_len. cbn [length]. lia. }
  pose proof (code_at_self P) as C. unfold P in C at 2.
  apply code_at_app in C. destruct C as [C0 C]. apply code_at_one in C0. cbn [length plus] in C.
  apply code_at_app in C. destruct C as [C1 C2]. rewrite emit_len in C2.
  assert (F1 : ReVM.fetch P (1 + len top) = IMark 1). { pose proof (C2 0 ltac:(cbn; lia)) as K. rewrite Nat.add_0_r in K. exact K. }
  assert (F2 : ReVM.fetch P (2 + len top) = IMatch). { replace (2 + len top) with (1 + len top + 1) by lia. apply (C2 1). cbn. lia. }
  pose proof (emit_closed P top 1 C1) as CL. pose proof (emit_fwd P top 1 C1) as FW.
  split; [|split].
  - rewrite LP. replace (len top + 3 - 1) with (2 + len top) by lia. exact F2.
  - lia.
  - intros pc Hpc. fold (ReVM.fetch P pc).
    destruct (Nat.eq_dec pc 0) as [->|]. { rewrite C0. lia. }
    destruct (Nat.eq_dec pc (1 + len top)) as [->|]. { rewrite F1. lia. }
    destruct (Nat.eq_dec pc (2 + len top)) as [->|]. { rewrite F2. exact I. }
    specialize (CL pc ltac:(lia)). specialize (FW pc ltac:(lia)).
    destruct (ReVM.fetch P pc); try lia.
Qed.

Theorem regcomp_prog_wf pat p : regcomp pat = Ok (Some p) -> prog_wf (code p).
Proof.
  unfold regcomp, parse_pat. destruct (rnode_parse (parse_fuel pat) pat) as [[[t|] s']| |] eqn:E; cbn [bind fst snd]; try discriminate.
  destruct (parse_bad pat || negb match s' with [] => true | _ :: _ => false end); [discriminate|].
  destruct ((0 <=? NINST)%Z && (NINST <=? count t + 3)%Z) eqn:L; [discriminate|].
  intro H; inversion H; subst; clear H. cbn [code].
  pose proof (rnode_parse_wf _ _ _ _ E) as W.
  rewrite emit_n_tr by (apply grpnum_wf; exact W). apply top_prog_wf.
Qed.

(* ---- termination: no fuel exhaustion ------------------------------------------------------------ *)
Section Term.
Variable St : Type.
Variable atom_step : atom -> St -> res (option St).
Variable mark_step : nat -> St -> St.
Variable P : list instr.
Hypothesis WF : prog_wf P.
Hypothesis atom_total : forall a s, atom_step a s <> NoFuel.
Notation loopF := (ReVM.loopF St atom_step mark_step P).
Notation rec := (ReVM.rec St atom_step mark_step P).

Lemma loop_no_abort (call : nat -> St -> out St * N) (Hc : forall pc s, pc < length P -> fst (call pc s) <> Abort) :
  forall k pc s, pc < length P -> length P - pc < k -> fst (loopF call k pc s) <> Abort.
Proof.
  destruct WF as (_ & _ & W).
  induction k as [|k IH]; intros pc s Hpc Hk; [lia|]. cbn [ReVM.loopF].
  specialize (W pc Hpc). unfold ReVM.fetch. destruct (nth pc P IMatch) eqn:F.
  - destruct (atom_step a s) as [[s1|]| |] eqn:A.
    + apply IH; lia.
    + cbn. discriminate.
    + cbn. discriminate.
    + exfalso. eapply atom_total; eauto.
  - apply IH; lia.
  - apply IH; lia.
  - destruct W as [W1 W2]. pose proof (Hc a1 s W1) as H1. destruct (call a1 s) as [[cs r| | |w] c]; cbn [fst] in *.
    + discriminate.
    + pose proof (IH a2 s ltac:(lia) ltac:(lia)) as H2. destruct (loopF call k a2 s) as [[cs r| | |w] c']; cbn [fst] in *; congruence.
    + congruence.
    + discriminate.
  - cbn. discriminate.
Qed.

Theorem rec_no_abort : forall d pc s, pc < length P -> fst (rec d pc s) <> Abort.
Proof.
  induction d as [|d IH]; intros pc s Hpc; cbn [ReVM.rec]; [cbn; discriminate|].
  apply loop_no_abort; [exact IH | exact Hpc | lia].
Qed.
End Term.

(* statement forms used by Properties_C10.v / Properties_C11.v *)
Lemma rec_first' St atom_step mark_step P d pc s o :
  rec St atom_step mark_step P d pc s = (o, 0%N) ->
  match o with
  | Found cs r => path St atom_step mark_step P pc s cs r /\
                  forall cs' r', path St atom_step mark_step P pc s cs' r' -> lexle cs cs'
  | Fail => forall cs' r', ~ path St atom_step mark_step P pc s cs' r'
  | _ => True
  end.
Proof. intro H. pose proof (rec_first St atom_step mark_step P d pc s o H) as F. destruct o; exact F. Qed.

Lemma terminates_partial St (atom_step : atom -> St -> res (option St)) mark_step pat p :
  regcomp pat = Ok (Some p) -> (forall a s, atom_step a s <> NoFuel) ->
  forall d pc s, pc < length (code p) -> fst (rec St atom_step mark_step (code p) d pc s) <> Abort.
Proof. intros H A. apply rec_no_abort; [eapply regcomp_prog_wf; eauto | exact A]. Qed.

Lemma regcomp_layout pat p : regcomp pat = Ok (Some p) -> code p = [IMark 0] ++ emit (tr (tree p)) 1 ++ [IMark 1; IMatch].
Proof.
  unfold regcomp, parse_pat. destruct (rnode_parse (parse_fuel pat) pat) as [[[t|] s']| |] eqn:E; cbn [bind fst snd]; try discriminate.
  destruct (parse_bad pat || negb match s' with [] => true | _ :: _ => false end); [discriminate|].
  destruct ((0 <=? NINST)%Z && (NINST <=? count t + 3)%Z) eqn:L; [discriminate|].
  intro H; inversion H; subst; clear H. cbn [code tree].
  pose proof (rnode_parse_wf _ _ _ _ E) as W.
  rewrite emit_n_tr by (apply grpnum_wf; exact W). reflexivity.
Qed.
