(* TrUcMemCap.v -- the model of uc_trim that C05 reasons about (CapDefs3.uc_trim, with its distinct out-of-fuel and
   out-of-bounds results) returns, on every C string, the string TrUcMem.uc_trim that the translated C text is proved to
   leave in memory (TrUcMem.tr_uc_trim): the theorems C05_uc_trim_spec / C05_cut_store_spec speak about the C text. *)
From Coq Require Import List ZArith NArith Bool Lia.
From NV Require Import Bytes UcDefs TrUcMem.
From NV Require CapDefs CapDefs3.
Import ListNotations.

Lemma trim_at_idx : forall fuel t i, nonul t -> (length t < fuel)%nat ->
  CapDefs3.trim_at fuel t i = CapDefs.Ok (trim_idx_f (fuel - 1) t i).
Proof.
  induction fuel as [|f IH]; intros t i F L; [lia|].
  cbn [CapDefs3.trim_at]. replace (S f - 1)%nat with f by lia.
  destruct t as [|c r]; [destruct f; reflexivity|].
  destruct f as [|f]; [cbn [length] in L; lia|].
  rewrite trim_idx_f_step by discriminate.
  destruct (Nat.leb_spec (uc_len (c :: r)) (length (c :: r))) as [Hfit|Hno]; [|reflexivity].
  pose proof (uc_len_pos (c :: r) F ltac:(discriminate)) as LP.
  rewrite IH; [|apply Forall_skipn'; exact F|rewrite skipn_length; lia].
  replace (S f - 1)%nat with f by lia. reflexivity.
Qed.

Theorem cap_uc_trim_eq s : nonul s -> CapDefs3.uc_trim s = CapDefs.Ok (uc_trim s).
Proof.
  intro F. unfold CapDefs3.uc_trim. rewrite trim_at_idx by (auto; lia). cbn [CapDefs.bind].
  replace (S (length s) - 1)%nat with (length s) by lia. fold (trim_idx s).
  pose proof (trim_idx_le s). destruct (Nat.leb_spec (trim_idx s) (length s)); [reflexivity|lia].
Qed.
