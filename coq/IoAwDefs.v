(* IoAwDefs.v -- the autowrite option and the remembered time stamp over whole editing histories (C03).
   Extends IoTableDefs.v.  ex.c has five callers of bufs_modified() -- ec_edit (:e :n :prev ...), ec_buffer (:b),
   ec_exec (:!cmd), ec_make (:make) and the loop of ec_quit (:q) -- which ask "may this buffer be left?"; with
   `:se aw` (xaw) a modified buffer is saved instead of refusing (ex.c after 37c81b2):
       if (xaw && b->path[0]) {
           if (lbuf_save(b->lb, 0, -1, b->path, 0, b->mtime) != NULL) return 1;
           lbuf_saved(b->lb, 0); b->mtime = mtime(b->path); return 0; }
   i.e. a write WITHOUT `!` guarded by the slot's own remembered stamp; the saved mark and the remembered stamp are
   updated after the save returned no error and only then.  The other callers of lbuf_save are ec_write (slot 0,
   bookkeeping only after success) and the `a` loop of ec_quit (every slot, the same bookkeeping after success).
   Every slot is paired with a GHOST stamp that is not in the C program: the stamp its file had when the editor
   last read it into that slot or last wrote it successfully from that slot as its own path (-1: no file then).
   The property "a write without ! never replaces a file newer than when the editor read or wrote it" is about
   the ghost; the code looks at bufs[i].mtime.  IoAwProps.v proves  bufs[i].mtime = ghost  over all histories.
   The refused :q / :xa does bufs_switch(i) to the offending slot: modelled here (not in IoTableDefs.ec_quit_t).
   All buffers are named; the writeany option (xwa) is off.  No proofs here. *)
From Coq Require Import List NArith ZArith Bool Arith.
From NV Require Import Bytes GenConsts IoDefs IoLinkDefs IoTableDefs.
Import ListNotations.

Definition gbuf := (buf * Z)%type.          (* a slot of bufs[] and its ghost stamp *)

(* bufs_switch / bufs_open+bufs_switch on any list (the ghost travels with its slot) *)
Definition sw {A} (l : list A) (i : nat) : list A :=
  match nth_error l i with
  | Some x => x :: firstn i l ++ skipn (S i) l
  | None => l
  end.
Definition push {A} (l : list A) (x : A) : list A := x :: (if NB <=? length l then firstn (NB - 1) l else l).

(* bufs_modified(idx, msg) for the record bf = bufs[idx]: (must stay?, status of the save, the record afterwards,
   file system, unused schedule) *)
Definition bmfun := Z -> bool -> links -> buf -> fsys -> list outcome -> bool * status * buf * fsys * list outcome.
Definition bufs_modified : bmfun := fun now aw lk bf fs sch =>
  if negb (b_dirty bf) then (false, SOk, bf, fs, sch)
  else if aw then
    let '(st, fs', r) := lbuf_save_l now (b_lines bf) 0 (length (b_lines bf)) lk (b_path bf) false (b_mtime bf) fs sch in
    match st with
    | SOk => (false, st, {| b_lines := b_lines bf; b_path := b_path bf; b_mtime := mtime_of lk fs' (b_path bf); b_dirty := false |}, fs', r)
    | _ => (true, st, bf, fs', r)                      (* return 1 before lbuf_saved / b->mtime = ... *)
    end
  else (true, SRefused, bf, fs, sch).                  (* "buffer modified" *)
(* NOT what the code does (seeded/C03i): the bookkeeping with the stamp re-read BEFORE the result is looked at.
   Only used to show that the theorems tell the two apart. *)
Definition bufs_modified_eager : bmfun := fun now aw lk bf fs sch =>
  if negb (b_dirty bf) then (false, SOk, bf, fs, sch)
  else if aw then
    let '(st, fs', r) := lbuf_save_l now (b_lines bf) 0 (length (b_lines bf)) lk (b_path bf) false (b_mtime bf) fs sch in
    (match st with SOk => false | _ => true end, st,
     {| b_lines := b_lines bf; b_path := b_path bf; b_mtime := mtime_of lk fs' (b_path bf);
        b_dirty := match st with SOk => false | _ => b_dirty bf end |}, fs', r)
  else (true, SRefused, bf, fs, sch).
(* NOT what the code does any more: ex.c before 37c81b2 recorded nothing after a successful autowrite (the defect
   "stale stamp": a file dated in the editor's future kept its later remembered stamp).  Only used in the Example. *)
Definition bufs_modified_stale : bmfun := fun now aw lk bf fs sch =>
  if negb (b_dirty bf) then (false, SOk, bf, fs, sch)
  else if aw then
    let '(st, fs', r) := lbuf_save_l now (b_lines bf) 0 (length (b_lines bf)) lk (b_path bf) false (b_mtime bf) fs sch in
    (match st with SOk => false | _ => true end, st, bf, fs', r)
  else (true, SRefused, bf, fs, sch).

(* the ghost of a slot after bufs_modified: the editor wrote the file iff the autowrite was tried and said ok *)
Definition bm_g (bm : bmfun) (now : Z) (aw : bool) (lk : links) (x : gbuf) (fs : fsys) (sch : list outcome)
  : bool * status * gbuf * fsys * list outcome :=
  let '(blk, st, bf', fs', r) := bm now aw lk (fst x) fs sch in
  let g' := if b_dirty (fst x) && aw then match st with SOk => mtime_of lk fs' (b_path (fst x)) | _ => snd x end else snd x in
  (blk, st, (bf', g'), fs', r).

(* `if (!strchr(cmd, '!')) if (bufs_modified(0, ...)) return 1;` at the head of ec_edit / ec_buffer / ec_exec / ec_make *)
Definition leave0 (bm : bmfun) (now : Z) (aw bang : bool) (lk : links) (tb : list gbuf) (fs : fsys) (sch : list outcome)
  : bool * status * list gbuf * fsys * list outcome :=
  match tb with
  | x :: rest =>
    if bang then (false, SOk, tb, fs, sch)
    else let '(blk, st, x', fs', r) := bm_g bm now aw lk x fs sch in (blk, st, x' :: rest, fs', r)
  | [] => (false, SOk, tb, fs, sch)
  end.

(* ec_write on the table (IoTableDefs.ec_write_t) with the ghost of slot 0 *)
Definition write_g (now : Z) (isx force : bool) (rng : option (nat * nat)) (lk : links) (a : parg) (tb : list gbuf)
                   (fs : fsys) (sch : list outcome) : status * list gbuf * fsys * list outcome :=
  match tb with
  | [] => (SFailed, tb, fs, sch)
  | (b0, g0) :: rest =>
    if isx && negb (b_dirty b0) then (SOk, tb, fs, sch)
    else match path_of_arg (map fst tb) a with
    | None => (SRefused, tb, fs, sch)
    | Some path =>
      let '(st, b0', fs', r) := ec_write_l now isx force rng lk path b0 fs sch in
      let g0' := match st with SOk => if Nat.eqb (b_path b0) path then mtime_of lk fs' path else g0 | _ => g0 end in
      (st, (b0', g0') :: rest, fs', r)
    end
  end.

(* the loop of ec_quit over bufs[]: Some k = stopped at the k-th slot (bufs_switch(k), no quit) *)
Fixpoint quit_scan (bm : bmfun) (now : Z) (aw all bang : bool) (lk : links) (tb : list gbuf) (fs : fsys) (sch : list outcome)
  : option nat * status * list gbuf * fsys * list outcome :=
  match tb with
  | [] => (None, SOk, [], fs, sch)
  | x :: rest =>
    if all then
      let bf := fst x in
      let '(st, fs', r) := lbuf_save_l now (b_lines bf) 0 (length (b_lines bf)) lk (b_path bf) bang (b_mtime bf) fs sch in
      match st with
      | SOk => let '(k, st2, rest', fs2, r2) := quit_scan bm now aw all bang lk rest fs' r in
               let m := mtime_of lk fs' (b_path bf) in           (* lbuf_saved(b->lb, 0); b->mtime = mtime(b->path); *)
               (option_map S k, st2, ({| b_lines := b_lines bf; b_path := b_path bf; b_mtime := m; b_dirty := false |}, m) :: rest', fs2, r2)
      | _ => (Some 0, st, tb, fs', r)
      end
    else if bang then
      let '(k, st2, rest', fs2, r2) := quit_scan bm now aw all bang lk rest fs sch in (option_map S k, st2, x :: rest', fs2, r2)
    else
      let '(blk, st, x', fs', r) := bm_g bm now aw lk x fs sch in
      if blk then (Some 0, st, x' :: rest, fs', r)
      else let '(k, st2, rest', fs2, r2) := quit_scan bm now aw all bang lk rest fs' r in (option_map S k, st2, x' :: rest', fs2, r2)
  end.
(* ec_quit for q, q!, wq, wq!, x, x!, xa, xa! [path] *)
Definition quit_g (bm : bmfun) (now : Z) (aw wr isx all bang : bool) (lk : links) (a : parg) (tb : list gbuf)
                  (fs : fsys) (sch : list outcome) : bool * status * list gbuf * fsys * list outcome :=
  let '(st1, tb1, fs1, r1) := if wr then write_g now isx bang None lk a tb fs sch else (SOk, tb, fs, sch) in
  match st1 with
  | SOk =>
    let '(k, st2, tb2, fs2, r2) := quit_scan bm now aw all bang lk tb1 fs1 r1 in
    match k with
    | None => (true, st2, tb2, fs2, r2)
    | Some i => (false, st2, sw tb2 i, fs2, r2)
    end
  | _ => (false, st1, tb1, fs1, r1)
  end.

(* ec_edit (IoTableDefs.ec_edit_t) behind bufs_modified *)
Definition edit_g (bm : bmfun) (now : Z) (aw bang : bool) (lk : links) (a : parg) (tb : list gbuf) (fs : fsys) (sch : list outcome)
  : status * list gbuf * fsys * list outcome :=
  let '(blk, st, tb1, fs1, r1) := leave0 bm now aw bang lk tb fs sch in
  if blk then (st, tb1, fs1, r1)
  else match a, tb1 with
  | ANone, (b0, g0) :: rest =>
    let m := mtime_of lk fs1 (b_path b0) in
    (SOk, ({| b_lines := match target lk fs1 (b_path b0) with Some (c, _) => split_lines c | None => b_lines b0 end;
              b_path := b_path b0; b_mtime := m; b_dirty := false |}, m) :: rest, fs1, r1)
  | _, _ =>
    match path_of_arg (map fst tb1) a with
    | None => (SRefused, tb1, fs1, r1)
    | Some p =>
      match bufs_find (map fst tb1) p with
      | Some i => (SOk, sw tb1 i, fs1, r1)
      | None => let b := ec_edit_l lk fs1 p in (SOk, push tb1 (b, b_mtime b), fs1, r1)
      end
    end
  end.
(* ec_buffer for :b i / :b! i *)
Definition buffer_g (bm : bmfun) (now : Z) (aw bang : bool) (lk : links) (i : nat) (tb : list gbuf) (fs : fsys) (sch : list outcome)
  : status * list gbuf * fsys * list outcome :=
  if i <? length tb then
    let '(blk, st, tb1, fs1, r1) := leave0 bm now aw bang lk tb fs sch in
    if blk then (st, tb1, fs1, r1) else (SOk, sw tb1 i, fs1, r1)
  else (SRefused, tb, fs, sch).                                  (* "no such buffer" *)
(* ec_exec / ec_make without an address: the command is whatever it does to the directory *)
Definition exec_g (bm : bmfun) (now : Z) (aw : bool) (lk : links) (ops : list fop) (tb : list gbuf) (fs : fsys) (sch : list outcome)
  : status * list gbuf * links * fsys * list outcome :=
  let '(blk, st, tb1, fs1, r1) := leave0 bm now aw false lk tb fs sch in
  if blk then (st, tb1, lk, fs1, r1)
  else let '(lk', fs') := foreign_run (lk, fs1) ops in (SOk, tb1, lk', fs', r1).

(* ------------------------------------------------------------------ histories *)
Inductive acmd :=
| ASet (on : bool)                                                             (* :se aw / :se noaw *)
| AText (ls : list bytes)                                                      (* any change of the current buffer's text *)
| AForeign (o : fop)                                                           (* another process, between two commands *)
| AWrite (now : Z) (isx force : bool) (rng : option (nat * nat)) (a : parg) (sch : list outcome)     (* :w :x [range] [!] [path] *)
| AQuit (now : Z) (wr isx all bang : bool) (a : parg) (sch : list outcome)    (* :q :wq :x :xa [!] [path] *)
| AEdit (now : Z) (bang : bool) (a : parg) (sch : list outcome)               (* :e :n :prev [!] [path] *)
| ABuffer (now : Z) (bang : bool) (i : nat) (sch : list outcome)              (* :b [!] i *)
| AExec (now : Z) (ops : list fop) (sch : list outcome).                      (* :!cmd  :make *)

Record est := { e_tb : list gbuf; e_lk : links; e_fs : fsys; e_aw : bool; e_quit : bool; e_st : status }.
(* the editor's clock when it executes the command (the stamp a file it modifies gets) *)
Definition cmd_now (c : acmd) : option Z :=
  match c with
  | AWrite now _ _ _ _ _ | AQuit now _ _ _ _ _ _ | AEdit now _ _ _ | ABuffer now _ _ _ | AExec now _ _ => Some now
  | _ => None
  end.
Definition step (bm : bmfun) (s : est) (c : acmd) : est :=
  match c with
  | AForeign o => let '(lk', fs') := foreign (e_lk s, e_fs s) o in
                  {| e_tb := e_tb s; e_lk := lk'; e_fs := fs'; e_aw := e_aw s; e_quit := e_quit s; e_st := e_st s |}
  | _ =>
    if e_quit s then s else
    match c with
    | ASet on => {| e_tb := e_tb s; e_lk := e_lk s; e_fs := e_fs s; e_aw := on; e_quit := false; e_st := SOk |}
    | AText ls =>
      {| e_tb := match e_tb s with
                 | (b0, g0) :: rest => ({| b_lines := ls; b_path := b_path b0; b_mtime := b_mtime b0; b_dirty := true |}, g0) :: rest
                 | [] => []
                 end;
         e_lk := e_lk s; e_fs := e_fs s; e_aw := e_aw s; e_quit := false; e_st := SOk |}
    | AForeign _ => s
    | AWrite now isx force rng a sch =>
      let '(st, tb', fs', _) := write_g now isx force rng (e_lk s) a (e_tb s) (e_fs s) sch in
      {| e_tb := tb'; e_lk := e_lk s; e_fs := fs'; e_aw := e_aw s; e_quit := false; e_st := st |}
    | AQuit now wr isx all bang a sch =>
      let '(q, st, tb', fs', _) := quit_g bm now (e_aw s) wr isx all bang (e_lk s) a (e_tb s) (e_fs s) sch in
      {| e_tb := tb'; e_lk := e_lk s; e_fs := fs'; e_aw := e_aw s; e_quit := q; e_st := st |}
    | AEdit now bang a sch =>
      let '(st, tb', fs', _) := edit_g bm now (e_aw s) bang (e_lk s) a (e_tb s) (e_fs s) sch in
      {| e_tb := tb'; e_lk := e_lk s; e_fs := fs'; e_aw := e_aw s; e_quit := false; e_st := st |}
    | ABuffer now bang i sch =>
      let '(st, tb', fs', _) := buffer_g bm now (e_aw s) bang (e_lk s) i (e_tb s) (e_fs s) sch in
      {| e_tb := tb'; e_lk := e_lk s; e_fs := fs'; e_aw := e_aw s; e_quit := false; e_st := st |}
    | AExec now ops sch =>
      let '(st, tb', lk', fs', _) := exec_g bm now (e_aw s) (e_lk s) ops (e_tb s) (e_fs s) sch in
      {| e_tb := tb'; e_lk := lk'; e_fs := fs'; e_aw := e_aw s; e_quit := false; e_st := st |}
    end
  end.
Definition run (bm : bmfun) (s : est) (h : list acmd) : est := fold_left (step bm) h s.
(* the editor started on the file named p: ec_edit_l, the ghost is what it read *)
Definition start (lk : links) (fs : fsys) (p : nat) : est :=
  let b := ec_edit_l lk fs p in
  {| e_tb := [(b, b_mtime b)]; e_lk := lk; e_fs := fs; e_aw := false; e_quit := false; e_st := SOk |}.

(* the remembered stamp of every slot IS the stamp its file had when the editor last read or wrote it *)
Definition aw_inv (tb : list gbuf) : Prop := Forall (fun x : gbuf => b_mtime (fst x) = snd x) tb.
(* what a save loop may do to a slot: nothing, or (after a save that said ok) saved mark set, stamp = ghost = the file's new stamp *)
Definition kept_or_saved (x x' : gbuf) : Prop :=
  x' = x \/ (b_lines (fst x') = b_lines (fst x) /\ b_path (fst x') = b_path (fst x) /\ b_dirty (fst x') = false /\ b_mtime (fst x') = snd x').
(* the file of slot x is newer than what the editor read or wrote last (or exists although there was none) *)
Definition newer (lk : links) (fs : fsys) (x : gbuf) : Prop := (mtime_of lk fs (b_path (fst x)) > snd x)%Z.
