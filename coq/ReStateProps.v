(* ReStateProps.v -- the flag re_bad threaded through the parser, regcomp, rset_make and whole processes
   (ReStateDefs.v) against the pure model (ReParse.v / ReEmit.v / RsetDefs.v):
     * the parser only ever SETS the flag: threaded parser = (pure parser, st || "set during this call");
     * regcomp clears it on entry, so its answer and the flag it leaves do not depend on the flag it finds;
     * hence every sequence of regcomp / rset_make calls, and every interleaving of compilations and matches in one
       process, answers call by call like the pure functions;
     * the same model with the clearing statement moved into the error branch does NOT have this property. *)
From Coq Require Import List Arith Lia Bool ZArith NArith.
From NV Require Import Bytes GenConsts ReSyntax ReParse ReEmit ReVM RsetDefs ReStateDefs.
Import ListNotations.
Local Open Scope N_scope.

Ltac bsimp := repeat rewrite ?orb_false_r, ?orb_true_r, ?orb_false_l, ?orb_true_l, ?orb_assoc.

Lemma rep_suffix_ok s : exists r, rep_suffix s = Ok r.
Proof.
  unfold rep_suffix.
  repeat match goal with
         | |- context [if ?c then _ else _] => destruct c
         | |- context [let '(_, _) := ?e in _] => destruct e
         end; eexists; reflexivity.
Qed.

Section P.
  Variable parse : bytes -> res (option node * bytes).
  Variable pbad : bytes -> bool.
  Variable parse_st : bytes -> bool -> stres (option node * bytes).
  Hypothesis Hp : forall s st, parse_st s st = lift (parse s) (st || pbad s).

  Lemma grp_st s st : rnode_grp_st parse_st s st = lift (rnode_grp parse s) (st || rnode_grp_bad parse pbad s).
  Proof.
    unfold rnode_grp_st, rnode_grp, rnode_grp_bad.
    destruct (negb (hd0 s =? 40)); [cbn; bsimp; reflexivity|].
    destruct (negb (hd0 (tl s) =? 41)) eqn:E1.
    - rewrite Hp. destruct (parse (tl s)) as [[[x|] s2]|w|]; cbn; try reflexivity.
      + destruct (negb (hd0 s2 =? 41)); cbn; bsimp; reflexivity.
      + bsimp. reflexivity.
    - cbn. rewrite E1. cbn. bsimp. reflexivity.
  Qed.

  Lemma atom_st s st : rnode_atom_st parse_st s st = lift (rnode_atom parse s) (st || rnode_atom_bad parse pbad s).
  Proof.
    unfold rnode_atom_st, rnode_atom, rnode_atom_bad.
    destruct ((hd0 s =? 0) || (hd0 s =? 124) || (hd0 s =? 41)); [cbn; bsimp; reflexivity|].
    destruct (hd0 s =? 40).
    - rewrite grp_st. destruct (rnode_grp parse s) as [[[n|] s1]|w|]; cbn; try reflexivity.
      unfold rep_bad. destruct (rep_suffix_ok s1) as [[[[mn mx]|] s2] E]; rewrite E; cbn; bsimp; reflexivity.
    - destruct (ratom_read s) as [a|w|]; cbn; try reflexivity.
      unfold rep_bad. destruct (rep_suffix_ok (snd a)) as [[[[mn mx]|] s2] E]; rewrite E; cbn; bsimp; reflexivity.
  Qed.

  Lemma seq_st : forall f s st,
    rnode_seq_st parse_st f s st = lift (rnode_seq parse f s) (st || rnode_seq_bad parse pbad f s).
  Proof.
    induction f as [|f IH]; intros s st; [reflexivity|].
    cbn [rnode_seq_st rnode_seq rnode_seq_bad]. rewrite atom_st.
    destruct (rnode_atom parse s) as [[[x|] s1]|w|]; cbn; try reflexivity.
    rewrite IH. destruct (rnode_seq parse f s1) as [[[y|] s2]|w|]; cbn; bsimp; reflexivity.
  Qed.
End P.

(* the parser never reads and never clears the flag *)
Lemma parse_st_pure : forall f s st,
  rnode_parse_st f s st = lift (rnode_parse f s) (st || rnode_parse_bad f s).
Proof.
  induction f as [|f IH]; intros s st; [reflexivity|].
  cbn [rnode_parse_st rnode_parse rnode_parse_bad].
  rewrite (seq_st (rnode_parse f) (rnode_parse_bad f) (rnode_parse_st f) IH).
  destruct (rnode_seq (rnode_parse f) f s) as [[x s1]|w|]; cbn; try reflexivity.
  destruct (negb (hd0 s1 =? 124)); [cbn; bsimp; reflexivity|].
  rewrite IH. destruct (rnode_parse f (tl s1)) as [[[y|] s2]|w|]; cbn; bsimp; reflexivity.
Qed.

(* ---- regcomp: the answer is the pure one, the flag it leaves is a function of the pattern alone ---------- *)
Lemma regcomp_st_pure pat st : regcomp_st pat st = (regcomp pat, flag_after pat).
Proof.
  unfold regcomp_st, regcomp_gen, regcomp, flag_after, parse_pat, parse_bad.
  rewrite parse_st_pure. cbn [orb].
  destruct (rnode_parse (parse_fuel pat) pat) as [[[t|] rest]|w|]; unfold lift, bind; cbn [fst snd orb]; try reflexivity.
  destruct (rnode_parse_bad (parse_fuel pat) pat || negb match rest with [] => true | _ :: _ => false end); [reflexivity|].
  destruct ((0 <=? NINST)%Z && (NINST <=? count t + 3)%Z); reflexivity.
Qed.

Lemma run_seq_pure {A B} (f : A -> bool -> B * bool) (g : A -> B) (h : A -> bool) :
  (forall x st, f x st = (g x, h x)) ->
  forall xs st, fst (run_seq f xs st) = map g xs.
Proof.
  intros H. induction xs as [|x r IH]; intros st; [reflexivity|].
  cbn [run_seq map]. rewrite H. specialize (IH (h x)). destruct (run_seq f r (h x)) as [ys st2]. cbn in *. rewrite IH. reflexivity.
Qed.

Theorem regcomp_seq_pure : forall pats st, fst (regcomp_seq pats st) = map regcomp pats.
Proof. intros. apply (run_seq_pure regcomp_st regcomp flag_after). exact regcomp_st_pure. Qed.

(* ---- rset_make -------------------------------------------------------------------------------------------- *)
Lemma rset_make_st_fst res flg st : fst (rset_make_st (res, flg) st) = rset_make res flg.
Proof.
  unfold rset_make_st, rset_make_gen, rset_make.
  destruct (rset_build res [40] 2) as [[[sb g] sg] gc].
  destruct (existsb _ (somes res)); [reflexivity|].
  change (regcomp_gen true) with regcomp_st. rewrite regcomp_st_pure.
  destruct (regcomp (sb ++ [41])) as [[pr|]|w|]; reflexivity.
Qed.

Lemma run_seq_fst {A B} (f : A -> bool -> B * bool) (g : A -> B) :
  (forall x st, fst (f x st) = g x) ->
  forall xs st, fst (run_seq f xs st) = map g xs.
Proof.
  intros H. induction xs as [|x r IH]; intros st; [reflexivity|].
  cbn [run_seq map]. specialize (H x st). destruct (f x st) as [y st1]. cbn in H. subst y.
  specialize (IH st1). destruct (run_seq f r st1) as [ys st2]. cbn in *. rewrite IH. reflexivity.
Qed.

Theorem rset_make_seq_pure : forall sets st,
  fst (rset_make_seq sets st) = map (fun a => rset_make (fst a) (snd a)) sets.
Proof.
  intros. apply (run_seq_fst rset_make_st (fun a => rset_make (fst a) (snd a))).
  intros [res flg] st0. apply rset_make_st_fst.
Qed.

(* ---- a whole process ------------------------------------------------------------------------------------------ *)
Theorem session_pure_any_depth : forall d ops slots st,
  fst (session_gen true d ops slots st) = session_pure_d d ops slots.
Proof.
  induction ops as [|o r IH]; intros slots st; [reflexivity|].
  destruct o as [res flg|pat|k line n flg]; cbn [session_gen session_pure_d].
  - pose proof (rset_make_st_fst res flg st) as E. unfold rset_make_st in E.
    destruct (rset_make_gen true (res, flg) st) as [m st1]. cbn in E. subst m.
    specialize (IH (slots ++ [rset_make res flg]) st1).
    destruct (session_gen true d r (slots ++ [rset_make res flg]) st1) as [os st2]. cbn in *. rewrite IH. reflexivity.
  - change (regcomp_gen true) with regcomp_st. rewrite regcomp_st_pure.
    specialize (IH slots (flag_after pat)). destruct (session_gen true d r slots (flag_after pat)) as [os st2].
    cbn in *. rewrite IH. reflexivity.
  - specialize (IH slots st). destruct (session_gen true d r slots st) as [os st2]. cbn in *. rewrite IH. reflexivity.
Qed.

Theorem session_is_pure : forall ops st, fst (session ops [] st) = session_pure ops [].
Proof. intros. apply session_pure_any_depth. Qed.

(* every OFind of a process answers as rset_find on the pure compilation of the set its slot was made from *)
Lemma session_pure_slots : forall d ops slots i k line n flg,
  nth_error ops i = Some (OFind k line n flg) ->
  nth_error (session_pure_d d ops slots) i =
  Some (find_obs d (nth_error (slots ++ map (fun a => rset_make (fst a) (snd a)) (makes (firstn i ops))) k) line n flg).
Proof.
  induction ops as [|o r IH]; intros slots i k line n flg H; [destruct i; discriminate|].
  destruct i as [|i].
  - cbn in H. injection H as ->. cbn. rewrite app_nil_r. reflexivity.
  - cbn [nth_error] in H. destruct o as [res0 flg0|pat0|k0 l0 n0 f0]; cbn [session_pure_d nth_error firstn makes map].
    + rewrite (IH _ _ _ _ _ _ H). rewrite <- app_assoc. reflexivity.
    + apply (IH _ _ _ _ _ _ H).
    + apply (IH _ _ _ _ _ _ H).
Qed.

Theorem session_find_is_function : forall ops st i k line n flg,
  nth_error ops i = Some (OFind k line n flg) ->
  nth_error (fst (session ops [] st)) i =
  Some (match nth_error (makes (firstn i ops)) k with
        | Some (res, cflg) => find_obs depth (Some (rset_make res cflg)) line n flg
        | None => BNone
        end).
Proof.
  intros ops st i k line n flg H. rewrite session_is_pure. unfold session_pure.
  rewrite (session_pure_slots _ _ _ _ _ _ _ _ H). cbn [app]. rewrite nth_error_map.
  destruct (nth_error (makes (firstn i ops)) k) as [[res cflg]|]; reflexivity.
Qed.

(* ---- the statement "re_bad = 0;" at the top of regcomp is what the theorems rest on ------------------------ *)
(* a{2,1} inside the wrapper "((" "))" : the parse comes back empty with the flag set, regcomp leaves through
   "if (!rnode) return 1;"; with the reset only in the other error branch the next, valid pattern ((a+b)) is refused *)
Lemma late_reset_refuted :
  exists pats, fst (run_seq (regcomp_gen false) pats false) <> map regcomp pats.
Proof.
  exists bad_then_good. vm_compute. intro H. discriminate H.
Qed.

Lemma entry_reset_example :
  map (fun r => match r with Ok (Some _) => 1 | Ok None => 0 | _ => 2 end) (fst (regcomp_seq bad_then_good true)) = [0; 1].
Proof. vm_compute. reflexivity. Qed.
