(* SubstAddrDefs.v -- C14: the remembered pattern (xkwd, xkwddir of ex.c) between the ADDRESSES of :s and the command itself.
   ex_region() evaluates a /re/ or ?re? address through ex_search(), which stores re with ex_kwdset(); ec_substitute()
   stores its own pattern with ex_kwdset() as well and then compiles whatever ex_kwd() hands back.  The order in the C text is
       if (ex_region(loc, &beg, &end)) return 1;        <- the searches of the address set xkwd
       pat = re_read(&s); if (pat && pat[0]) ex_kwdset(pat, +1); ... rep ... xrep ...
       if (ex_kwd(&pat, NULL)) return 1;                 <- the pattern that is compiled
   and this file mirrors exactly that order (subst_head).  Functions modelled: ex_kwd, ex_kwdset, ex_search, ex_lineno (marks
   are taken as unset), ex_region, the head of ec_substitute (its argument handling is SubstDefs.subst_args, the function
   TrSubstArgs.v ties to the C text), and the whole command over a list of lines (ec_subst; per line = SubstDefs.subst_line).
   The matcher is a parameter, as in SubstDefs.  No proofs in this file (it is extracted: Extract_subst.v). *)
From Coq Require Import List NArith ZArith Bool.
From NV Require Import Bytes SubstDefs.
Import ListNotations.
Local Open Scope Z_scope.

(* xkwd, xkwddir (0 = nothing remembered), xrep, xrow *)
Record kst := mk_kst { k_kwd : bytes; k_dir : Z; k_rep : bytes; k_row : Z }.
(* ex_kwdset(kwd, dir) with kwd != NULL *)
Definition kwdset (k : kst) (kw : bytes) (d : Z) : kst := mk_kst kw d (k_rep k) (k_row k).
Definition set_row (k : kst) (r : Z) : kst := mk_kst (k_kwd k) (k_dir k) (k_rep k) r.
Definition set_rep (k : kst) (r : bytes) : kst := mk_kst (k_kwd k) (k_dir k) r (k_row k).
(* what SubstDefs' argument handling sees of it: ex_kwd() fails when xkwddir == 0 *)
Definition to_sstate (k : kst) : sstate := mk_sstate (if k_dir k =? 0 then None else Some (k_kwd k)) (k_rep k).

Definition is_dig (c : N) : bool := ((48 <=? c) && (c <=? 57))%N.
Fixpoint digits (s : bytes) (acc : Z) : Z * bytes :=
  match s with
  | c :: r => if is_dig c then digits r (acc * 10 + Z.of_N (c - 48)) else (acc, s)
  | [] => (acc, [])
  end.
(* atoi on a piece of an address (no blanks there): optional sign, digits *)
Definition atoi (s : bytes) : Z :=
  match s with
  | 45%N :: r => - fst (digits r 0)
  | 43%N :: r => fst (digits r 0)
  | _ => fst (digits s 0)
  end.
(* the offset loop of ex_lineno: while the next byte is - or + : n += atoi(there); step over the sign and the digits *)
Fixpoint offsets (fuel : nat) (s : bytes) (n : Z) : Z * bytes :=
  match fuel with
  | O => (n, s)
  | S f =>
    match s with
    | c :: r => if ((c =? 45) || (c =? 43))%N then offsets f (snd (digits r 0)) (n + atoi s) else (n, s)
    | [] => (n, s)
    end
  end.
Fixpoint skip_to_sep (s : bytes) : bytes :=            (* ex_region steps to the next ; or , (or the end) *)
  match s with
  | c :: r => if ((c =? 59) || (c =? 44))%N then s else skip_to_sep r
  | [] => []
  end.
Fixpoint beqb (a b : bytes) : bool :=
  match a, b with
  | [], [] => true
  | x :: a', y :: b' => (x =? y)%N && beqb a' b'
  | _, _ => false
  end.

Section Addr.
  (* rstr_make(pat, xic ? RE_ICASE : 0) != NULL *)
  Variable valid : bytes -> bool.
  (* rstr_find(re, suffix of a line, ngroups, offs, notbol ? RE_NOTBOL : 0): pattern, text, flag *)
  Variable find : bytes -> bytes -> bool -> option (list grp).
  (* the lines of the buffer, each with its newline (lbuf_get) *)
  Variable buf : list bytes.

  Definition blen : Z := Z.of_nat (length buf).
  (* rstr_find(re, lbuf_get(xb, row), 0, NULL, 0) >= 0 : whether there is a match does not depend on the number of groups asked for *)
  Definition found (pat : bytes) (row : Z) : bool :=
    match find pat (nth (Z.to_nat row) buf []) false with Some _ => true | None => false end.

  (* the while loop of ex_search: the row it stops at when that is a row of the buffer, otherwise -1 *)
  Fixpoint search_rows (fuel : nat) (pat : bytes) (row dir : Z) : Z :=
    match fuel with
    | O => -1
    | S f =>
      if (0 <=? row) && (row <? blen) then
        if found pat row then row else search_rows f pat (row + dir) dir
      else -1
    end.

  (* ex_search: (row or -1, rest of the address, state) *)
  Definition a_search (k : kst) (s : bytes) : Z * bytes * kst :=
    match s with
    | [] => (-1, [], k)
    | delim :: s1 =>
      let (kw, rest) := re_read_loop delim s1 in
      let k1 := match kw with
                | [] => k                                                   (* only a non-empty kw is stored *)
                | _ :: _ => kwdset k kw (if (delim =? 47)%N then 1 else -1)
                end in
      if k_dir k1 =? 0 then (-1, rest, k1)                                  (* ex_kwd(&pat_re, &dir) *)
      else if negb (valid (k_kwd k1)) then (-1, rest, k1)
      else (search_rows (S (length buf)) (k_kwd k1) (k_row k1 + k_dir k1) (k_dir k1), rest, k1)
    end.

  (* ex_lineno: -2 = failed search (or a mark: none is set in this model) *)
  Definition a_lineno (k : kst) (s : bytes) : Z * bytes * kst :=
    let fin := fun (n : Z) (rest : bytes) (k' : kst) =>
      let (n', rest') := offsets (S (length rest)) rest n in (n', rest', k') in
    match s with
    | [] => fin (k_row k) [] k
    | c :: r =>
      if (c =? 46)%N then fin (k_row k) r k
      else if (c =? 36)%N then fin (blen - 1) r k
      else if (c =? 39)%N then (-2, r, k)
      else if ((c =? 47) || (c =? 63))%N then
        let '(n, rest, k1) := a_search k s in
        if n <? 0 then (-2, rest, k1) else fin n rest k1
      else if is_dig c then fin (fst (digits s 0) - 1) (snd (digits s 0)) k
      else fin (k_row k) s k
    end.

  (* the address loop of ex_region: None = out of fuel; (returned early, beg, end, state) *)
  Fixpoint a_loop (fuel : nat) (s : bytes) (first : bool) (b e : Z) (k : kst) : option (bool * Z * Z * kst) :=
    match fuel with
    | O => None
    | S f =>
      match s with
      | [] => Some (false, b, e, k)
      | _ :: _ =>
        let '(n, rest, k1) := a_lineno k s in
        let e1 := n + 1 in
        let b1 := if first then e1 - 1 else e - 1 in
        if e1 <? 0 then Some (true, b1, e1, k1)
        else match skip_to_sep rest with
             | [] => Some (false, b1, e1, k1)
             | c :: rest' => a_loop f rest' false b1 e1 (if (c =? 59)%N then set_row k1 (e1 - 1) else k1)
             end
      end
    end.

  (* ex_region: (nonzero = rejected, beg, end, state) *)
  Definition a_region (loc : bytes) (k : kst) : option (bool * Z * Z * kst) :=
    if beqb loc [37%N] then Some (false, 0, Z.max 0 blen, k)
    else match loc with
    | [] => Some ((k_row k <? 0) || (blen <? k_row k), k_row k, (if k_row k =? blen then k_row k else k_row k + 1), k)
    | _ :: _ =>
      match a_loop (S (length loc)) loc true 0 0 k with
      | None => None
      | Some (bad, b, e, k1) =>
        if bad then Some (true, b, e, k1)
        else
          let b := if (b <? 0) && (e =? 0) then 0 else b in
          if (b <? 0) || (blen <=? b) then Some (true, b, e, k1)
          else if (e <? b) || (blen <? e) then Some (true, b, e, k1)
          else Some (false, b, e, k1)
      end
    end.

  (* ec_substitute down to ex_kwd(): the address FIRST, then the command's own pattern and replacement.
     None = out of fuel (address loop); (state, None) = return 1; (state, Some (beg, end, pattern to compile, g flag)) *)
  Definition subst_head (loc arg : bytes) (k : kst) : option (kst * option (Z * Z * bytes * bool)) :=
    match a_region loc k with
    | None => None
    | Some (true, _, _, k1) => Some (k1, None)
    | Some (false, b, e, k1) =>
      let '(pat, rep, flags) := subst_args arg in
      let k2 := match pat with
                | Some (c :: p) => kwdset k1 (c :: p) 1                      (* if (pat && pat[0]) ex_kwdset(pat, +1) *)
                | _ => k1
                end in
      let k3 := match pat, rep with                                         (* if (pat || rep) snprintf(xrep, ...) *)
                | None, None => k2
                | _, Some r => set_rep k2 r
                | _, None => set_rep k2 []
                end in
      if k_dir k3 =? 0 then Some (k3, None)                                 (* if (ex_kwd(&pat, NULL)) return 1 *)
      else Some (k3, Some (b, e, k_kwd k3, has_g flags))
    end.

  (* one line of the for loop (a model-only outcome SOOB / SFuel leaves the line alone: SubstProps shows when they do not occur) *)
  Definition subst_row (pat rep : bytes) (g : bool) (ln : bytes) : bytes :=
    match subst_line (find pat) rep g ln with Changed new => new | _ => ln end.
  (* for (i = beg; i < end; i++): line i is replaced by its rewritten text; a rewritten line stays one line (no newline can
     be typed into a replacement), so the rows are independent of each other *)
  Fixpoint subst_rows (i b e : Z) (pat rep : bytes) (g : bool) (l : list bytes) : list bytes :=
    match l with
    | [] => []
    | ln :: r => (if (b <=? i) && (i <? e) then subst_row pat rep g ln else ln) :: subst_rows (i + 1) b e pat rep g r
    end.

  (* the whole command: (state, buffer, return value) *)
  Definition ec_subst (loc arg : bytes) (k : kst) : option (kst * list bytes * Z) :=
    match subst_head loc arg k with
    | None => None
    | Some (k', None) => Some (k', buf, 1)
    | Some (k', Some (b, e, pat, g)) =>
      if valid pat then Some (k', subst_rows 0 b e pat (k_rep k') g buf, 0)
      else Some (k', buf, 1)                                                (* re = rstr_make(..); if (!re) return 1 *)
    end.
End Addr.

(* the pattern an address leaves behind, read off the address TEXT: the last non-empty /re/ or ?re? that stands where an
   address begins (at the start, or behind a , or ; that is outside a pattern).  Used to state what an empty own pattern reuses. *)
Definition search_pat (s : bytes) : option (bytes * Z * bytes) :=      (* (pattern, direction, rest) of a leading /re/ or ?re? *)
  match s with
  | d :: s1 => if ((d =? 47) || (d =? 63))%N
               then let (kw, rest) := re_read_loop d s1 in Some (kw, (if (d =? 47)%N then 1 else -1), rest)
               else None
  | [] => None
  end.
