(* MotCountDefs.v -- C07: the count in front of a motion, as vi.c reads it (definitions only; proofs in MotCountProps.v).

   vi():        vi_arg1 = vi_prefix();  mv = vi_motion(&nrow, &noff);
   vi_prefix(): c = vi_read(); if (c >= '1' && c <= '9') while (isdigit(c)) { if (n < 100000000) n = n * 10 + c - '0'; c = vi_read(); }
                vi_back(c); return n;
   vi_cnt():    (vi_arg1 ? vi_arg1 : 1) * (vi_arg2 ? vi_arg2 : 1) in long long, saturated at 2^30.

   The pending keys are a list of bytes; a reader returns what it read and the keys that are left (vi_back(c) puts the key that
   ended the count back in front).  EVERY digit of the count is consumed -- the value merely stops growing once nine digits are
   in -- so the key that follows a count of any length is the motion key.

   Second part: MotDefs.vi_motion runs its loops `for (i = 0; i < cnt; i++) if (step) break;` over a unary number (Z.to_nat cnt),
   which no machine can build for a count of 10^9.  vi_motion_z / do_motion_z compute the same result without it: the loop runs
   over a binary counter, leaves at the first step that breaks and at the first step that does not move (a step is a function of
   the position alone), f F t T ; , fail at once when the count exceeds the length of the line, 0 ^ $ ignore the count.  They
   answer None when they cannot decide within their fuel; MotCountProps.do_motion_z_sound: every Some answer IS do_motion's. *)
From Coq Require Import List NArith ZArith Bool.
From NV Require Import Bytes UcDefs MotDefs.
Import ListNotations.
Local Open Scope Z_scope.

(* ---------- vi_prefix / vi_cnt ---------- *)
Definition is_digit (c : N) : bool := (48 <=? c)%N && (c <=? 57)%N.          (* isdigit(c) *)
Definition is_19 (c : N) : bool := (49 <=? c)%N && (c <=? 57)%N.             (* c >= '1' && c <= '9' *)
Definition add_digit (n : Z) (c : N) : Z := if n <? 100000000 then n * 10 + Z.of_N c - 48 else n.

Fixpoint prefix_loop (n : Z) (ks : list N) : Z * list N :=                   (* ks = c :: the keys vi_read() will return *)
  match ks with
  | c :: r => if is_digit c then prefix_loop (add_digit n c) r else (n, ks)
  | [] => (n, [])
  end.
Definition vi_prefix (ks : list N) : Z * list N :=
  match ks with
  | c :: _ => if is_19 c then prefix_loop 0 ks else (0, ks)
  | [] => (0, [])
  end.

Definition vi_cnt (a1 a2 : Z) : Z :=
  let n := (if a1 =? 0 then 1 else a1) * (if a2 =? 0 then 1 else a2) in
  if (0 <? n) && (n <? 1073741824) then n else 1073741824.

(* what the digits of a count amount to: the saturating fold of the C text, and the plain decimal value *)
Definition sat_count (ds : list N) : Z := fold_left add_digit ds 0.
Definition dec_step (n : Z) (c : N) : Z := n * 10 + Z.of_N c - 48.
Definition dec_value (ds : list N) : Z := fold_left dec_step ds 0.

(* ---------- the motion key ---------- *)
(* the switch of vi_motionln (cmd = 0) and of vi_motion, for the keys MotDefs models; f F t T read one more character *)
Definition plain_key (c : N) : option mkey :=
  match c with
  | 10 | 43 => Some Kplus | 45 => Some Kminus | 95 => Some Kunder
  | 106 => Some Kj | 107 => Some Kk | 71 => Some KG | 72 => Some KH | 76 => Some KL | 77 => Some KM
  | 37 => Some Kpct | 59 => Some Ksemi | 44 => Some Kcomma | 104 => Some Kh | 108 => Some Kl
  | 66 => Some KB | 69 => Some KE | 87 => Some KW | 98 => Some Kb | 101 => Some Ke | 119 => Some Kw
  | 123 => Some Klbrace | 125 => Some Krbrace | 48 => Some K0 | 94 => Some Kcaret | 36 => Some Kdollar
  | 124 => Some Kbar | 32 => Some Kspace | 127 | 8 => Some Kbs
  | _ => None
  end%N.
Definition find_key (c : N) (a : chr) : option mkey :=
  match c with 102 => Some (Kf a) | 70 => Some (KF a) | 116 => Some (Kt a) | 84 => Some (KT a) | _ => None end%N.
Definition is_find (c : N) : bool := ((c =? 102) || (c =? 70) || (c =? 116) || (c =? 84))%N.

(* one motion command off the pending keys: the count (vi_arg1), the key, what is left; None: not a motion of the model *)
Definition parse_motion (ks : list N) : option (Z * mkey * list N) :=
  let '(n, r) := vi_prefix ks in
  match r with
  | [] => None
  | c :: r' =>
      if is_find c then
        match r' with
        | [] => None
        | _ => let k := Nat.max 1 (uc_len r') in
               match find_key c (firstn k r') with Some mk => Some (n, mk, skipn k r') | None => None end
        end
      else match plain_key c with Some mk => Some (n, mk, r') | None => None end
  end.

(* ---------- the motion loops without a unary count ---------- *)
Definition pos_eqb (p q : Z * Z) : bool := (fst p =? fst q) && (snd p =? snd q).

(* Some r: iter_break (Z.to_nat n) step x = r;  None: undecided (fuel) *)
Fixpoint iter_break_z (fuel : nat) (n : Z) (step : Z * Z -> option (bool * (Z * Z))) (x : Z * Z) : option (option (Z * Z)) :=
  if n <=? 0 then Some (Some x) else
  match fuel with
  | O => None
  | S f => match step x with
           | None => Some None
           | Some (true, y) => Some (Some y)
           | Some (false, y) => if pos_eqb y x then Some (Some x) else iter_break_z f (n - 1) step y
           end
  end.

(* the loop body of the keys that vi_motion iterates *)
Definition key_step (b : buf) (k : mkey) : option (Z * Z -> option (bool * (Z * Z))) :=
  let fuel := mfuel b in
  match k with
  | Kh => Some (vi_nextcol b (-1))
  | Kl => Some (vi_nextcol b 1)
  | KB => Some (wstep (lbuf_wordend fuel b true (-1)))
  | KE => Some (wstep (lbuf_wordend fuel b true 1))
  | KW => Some (wstep (lbuf_wordbeg fuel b true 1))
  | Kb => Some (wstep (lbuf_wordend fuel b false (-1)))
  | Ke => Some (wstep (lbuf_wordend fuel b false 1))
  | Kw => Some (wstep (lbuf_wordbeg fuel b false 1))
  | Klbrace => Some (fun p => Some (false, lbuf_paragraphbeg b (-1) (fst p)))
  | Krbrace => Some (fun p => Some (false, lbuf_paragraphbeg b 1 (fst p)))
  | Kspace => Some (vi_nextoff b 1)
  | Kbs => Some (vi_nextoff b (-1))
  | _ => None
  end.

Definition is_linekey_c (has : bool) (k : mkey) : bool :=
  match k with Kplus | Kj | Kminus | Kk | Kunder | KG | KH | KL | KM => true | Kpct => has | _ => false end.

(* the length of the line a find motion searches *)
Definition row_len (b : buf) (row : Z) : Z := match getl b row with Some l => slen l | None => 0 end.

Definition vi_motion_z (b : buf) (rows top : Z) (cl : chr) (cc : N) (pcol0 : Z) (has : bool) (cnt : Z) (k : mkey) (row off : Z)
  : option mvres :=
  if is_linekey_c has k then Some (vi_motion b rows top cl cc pcol0 has cnt k row off)    (* vi_motionln: arithmetic on the count *)
  else match key_step b k with
  | Some step =>
      match iter_break_z (S (mfuel b)) cnt step (row, off) with
      | None => None
      | Some (Some (r, o)) => Some (MvOk r o cl cc pcol0)
      | Some None => Some MvFuel
      end
  | None =>
      match k with
      | Kbar => Some (MvOk row (vi_col2off b row (cnt - 1)) cl cc (cnt - 1))
      | Kf _ | KF _ | Kt _ | KT _ | Ksemi | Kcomma =>
          (* more occurrences are asked for than the line has characters: the search fails (vi_charlast / vi_charcmd as in vi_motion) *)
          Some (vi_motion b rows top cl cc pcol0 has (if row_len b row <? cnt then row_len b row + 1 else cnt) k row off)
      | _ => Some (vi_motion b rows top cl cc pcol0 has 1 k row off)                       (* 0 ^ $ and % without a count *)
      end
  end.

(* the mv > 0 / mv < 0 branches of vi(), given vi_motion's result (do_motion = land ... (vi_motion ...)) *)
Definition land (b : buf) (rows : Z) (k : mkey) (s : vst) (mv : mvres) : option vst :=
  match mv with
  | MvFuel => None
  | MvFail cl cc => Some (vi_wfix b rows (mk_vst (v_row s) (v_off s) (v_col s) (v_top s) cl cc (v_pcol s)))
  | MvOk r o cl cc pcol =>
      let o := if (o <? 0) && negb (is_jk k) then lbuf_indents b r else o in
      let o := if is_jk k then vi_col2off b r (v_col s) else o in
      let xoff := ren_noeol (getl b r) o in
      let col := if is_bar k then pcol else if is_jk k then v_col s else vi_off2col b r xoff in
      Some (vi_wfix b rows (mk_vst r xoff col (v_top s) cl cc pcol))
  end.

Definition do_motion_z (b : buf) (rows : Z) (arg1 arg2 : Z) (k : mkey) (s : vst) : option (option vst) :=
  let cnt := (if arg1 =? 0 then 1 else arg1) * (if arg2 =? 0 then 1 else arg2) in
  let has := negb (arg1 =? 0) || negb (arg2 =? 0) in
  match vi_motion_z b rows (v_top s) (v_cl s) (v_cc s) (v_pcol s) has cnt k (v_row s) (ren_noeol (getl b (v_row s)) (v_off s)) with
  | None => None
  | Some mv => Some (land b rows k s mv)
  end.

(* one motion command typed as keys: Some (Some s', rest) = the state after it and the keys left *)
Inductive kres := KBad | KUndecided | KFuel | KOk (s : vst) (rest : list N).
Definition step_keys (b : buf) (rows : Z) (ks : list N) (s : vst) : kres :=
  match parse_motion ks with
  | None => KBad
  | Some (n, k, rest) =>
      match do_motion_z b rows n 0 k s with
      | None => KUndecided
      | Some None => KFuel
      | Some (Some s') => KOk s' rest
      end
  end.
