(* ReGroups.v -- C10_rset_index: does rset.c's re_groupcount agree with the group numbering of the
   parser (rnode_grpnum: groups numbered in pre-order = the number of NGrp nodes)?  Before fix f534655 it
   did not (the bracket scanner of re_groupcount differed from regex.c's brk_len; see design.d/C10.md). *)
From Coq Require Import List Arith Lia Bool ZArith NArith.
From NV Require Import Bytes GenConsts ReSyntax ReParse ReEmit ReVM ReSem RsetDefs.
Import ListNotations.

Lemma grpnum_ngroups t : forall num, snd (grpnum t num) = ngroups t.
Proof.
  induction t; intros num; cbn [grpnum ngroups snd]; try reflexivity.
  - specialize (IHt (num + 1)). destruct (grpnum t (num + 1)). cbn [snd] in *. lia.
  - specialize (IHt1 num). destruct (grpnum t1 num) as [x' k1]. cbn [snd] in IHt1. subst k1.
    specialize (IHt2 (num + ngroups t1)). destruct (grpnum t2 (num + ngroups t1)). cbn [snd] in *. lia.
  - specialize (IHt1 num). destruct (grpnum t1 num) as [x' k1]. cbn [snd] in IHt1. subst k1.
    specialize (IHt2 (num + ngroups t1)). destruct (grpnum t2 (num + ngroups t1)). cbn [snd] in *. lia.
Qed.

(* pattern bytes *)
Definition p_under : bytes := [91; 97; 91; 42; 93; 40; 120; 41]%N.                       (* [a[*](x) *)
Definition p_over : bytes := [91; 91; 58; 115; 112; 97; 99; 101; 58; 93; 40; 41; 93; 43]%N.  (* [[:space:]()]+ *)
Definition p_y : bytes := [121]%N.                                                         (* y *)

(* the inputs of the repaired defect f534655 (re_groupcount scanned brackets differently from brk_len):
   (a) [a[*](x) was counted as having no group, (b) [[:space:]()]+ as having one *)
Lemma fixed_under :
  exists t rs, parse_pat (rset_pattern [Some p_under]) = Ok (Some t, []) /\ ngroups t = 3 /\ re_groupcount p_under = 1 /\
    rset_make [Some p_under] 0%Z = Ok (Some rs) /\
    fst (rset_find_d 300 rs [97; 120; 10]%N 2 0%Z) = Ok (0%Z, [(0%Z, 2%Z); (1%Z, 2%Z)]).
Proof. eexists. eexists. repeat split; vm_compute; reflexivity. Qed.

Lemma fixed_over :
  exists t rs, parse_pat (rset_pattern [Some p_over; Some p_y]) = Ok (Some t, []) /\ ngroups t = 3 /\ re_groupcount p_over = 0 /\
    rset_make [Some p_over; Some p_y] 0%Z = Ok (Some rs) /\ rs_grp rs = [2%Z; 3%Z; 4%Z] /\
    fst (rset_find_d 300 rs [121; 10]%N 1 0%Z) = Ok (1%Z, [(0%Z, 1%Z)]).
Proof. eexists. eexists. repeat split; vm_compute; reflexivity. Qed.

(* ---- C10_rset_index for every pattern set that passes the executable check rset_shape -------------- *)
Lemma ngroups_grpnum t : forall num, ngroups (fst (grpnum t num)) = ngroups t.
Proof.
  induction t; intros num; cbn [grpnum ngroups fst]; try reflexivity.
  - specialize (IHt (num + 1)). destruct (grpnum t (num + 1)). cbn [fst ngroups] in *. lia.
  - pose proof (grpnum_ngroups t1 num) as K. specialize (IHt1 num). destruct (grpnum t1 num) as [x' k1]. cbn [fst snd] in *.
    specialize (IHt2 (num + k1)). destruct (grpnum t2 (num + k1)). cbn [fst ngroups] in *. lia.
  - pose proof (grpnum_ngroups t1 num) as K. specialize (IHt1 num). destruct (grpnum t1 num) as [x' k1]. cbn [fst snd] in *.
    specialize (IHt2 (num + k1)). destruct (grpnum t2 (num + k1)). cbn [fst ngroups] in *. lia.
Qed.

(* the group numbers rset_make assigns: the first non-NULL pattern gets num, the next one num + 1 + its own groups ... *)
Fixpoint nums (num : nat) (ps : list bytes) : list nat :=
  match ps with [] => [] | p :: r => num :: nums (num + 1 + re_groupcount p) r end.
Fixpoint total (ps : list bytes) : nat :=
  match ps with [] => 0 | p :: r => 1 + re_groupcount p + total r end.

(* the alternation of wrapper groups as the compiled tree has it: alternative i is a group numbered g_i that sits
   directly under the alternation, contains exactly re_groupcount p_i groups, and these are numbered g_i + 1 ... in
   pre-order (x is the result of rnode_grpnum from g_i + 1) *)
Inductive wraps : node -> list bytes -> list nat -> Prop :=
| w_one x x0 g p : ngroups x = re_groupcount p -> x = fst (grpnum x0 (g + 1)) -> wraps (NGrp x g 1 1) [p] [g]
| w_cons x x0 g p rest ps gs : ngroups x = re_groupcount p -> x = fst (grpnum x0 (g + 1)) -> ps <> [] ->
    wraps rest ps gs -> wraps (NAlt (NGrp x g 1 1) rest) (p :: ps) (g :: gs).

Lemma is_wrap_inv t p : is_wrap t p = true -> exists x g, t = NGrp x g 1 1 /\ ngroups x = re_groupcount p.
Proof.
  destruct t; cbn [is_wrap]; try discriminate. intro H.
  apply andb_prop in H. destruct H as [H H3]. apply andb_prop in H. destruct H as [H1 H2].
  apply Z.eqb_eq in H1. apply Z.eqb_eq in H2. apply Nat.eqb_eq in H3. subst. eauto.
Qed.

Lemma grpnum_wrap x g p num : ngroups x = re_groupcount p ->
  exists x', grpnum (NGrp x g 1 1) num = (NGrp x' num 1 1, 1 + re_groupcount p) /\ ngroups x' = re_groupcount p /\ x' = fst (grpnum x (num + 1)).
Proof.
  intro H. cbn [grpnum]. pose proof (grpnum_ngroups x (num + 1)) as K. pose proof (ngroups_grpnum x (num + 1)) as K2.
  destruct (grpnum x (num + 1)) as [x' k]. cbn [fst snd] in *. exists x'. subst k. rewrite H. split; [reflexivity|]. split; [congruence | reflexivity].
Qed.

Lemma grpnum_alt_eq a b num : grpnum (NAlt a b) num =
  let '(a', k1) := grpnum a num in let '(b', k2) := grpnum b (num + k1) in (NAlt a' b', k1 + k2).
Proof. reflexivity. Qed.

Lemma grpnum_alts : forall ps body num, check_alts body ps = true ->
  wraps (fst (grpnum body num)) ps (nums num ps) /\ snd (grpnum body num) = total ps.
Proof.
  induction ps as [|p ps IH]; intros body num H; [discriminate|].
  cbn [check_alts] in H. destruct ps as [|p2 ps].
  - apply is_wrap_inv in H. destruct H as (x & g & -> & Hx).
    destruct (grpnum_wrap x g p num Hx) as (x' & E & N & X). rewrite E. cbn [fst snd nums total].
    split; [econstructor; eauto | lia].
  - destruct body; try discriminate. apply andb_prop in H. destruct H as [W C].
    apply is_wrap_inv in W. destruct W as (x & g & -> & Hx).
    destruct (grpnum_wrap x g p num Hx) as (x' & E & N & X).
    specialize (IH body2 (num + (1 + re_groupcount p)) C). destruct IH as [IH1 IH2].
    rewrite grpnum_alt_eq, E.
    destruct (grpnum body2 (num + (1 + re_groupcount p))) as [r' k2]. cbv beta iota zeta. cbn [fst snd] in *.
    cbn [nums total]. replace (num + 1 + re_groupcount p) with (num + (1 + re_groupcount p)) by lia.
    cbn [nums total] in *. split; [|lia]. eapply w_cons; [exact N | exact X | discriminate | exact IH1].
Qed.

Definition nonneg (z : Z) : bool := (0 <=? z)%Z.
Lemma build_nums : forall res sb gc sb' g sg gc', rset_build res sb gc = (sb', g, sg, gc') ->
  map Z.to_nat (filter nonneg g) = nums gc (somes res) /\ gc' = gc + total (somes res) /\ length g = length res /\
  map snd (filter (fun zs => nonneg (fst zs)) (combine g sg)) = map re_groupcount (somes res).
Proof.
  induction res as [|[p|] rest IH]; intros sb gc sb' g sg gc' H; cbn [rset_build] in H.
  - inversion H; subst. cbn. repeat split; lia.
  - set (sb1 := (if Nat.ltb 1 (length sb) then sb ++ [124%N] else sb) ++ [40%N] ++ p ++ [41%N]) in *.
    destruct (rset_build rest sb1 (gc + 1 + re_groupcount p)) as [[[sb2 g2] sg2] gc2] eqn:E. inversion H; subst; clear H.
    destruct (IH _ _ _ _ _ _ E) as (I1 & I2 & I3 & I4).
    cbn [filter somes nums total length map combine fst snd]. replace (nonneg (Z.of_nat gc)) with true by (unfold nonneg; lia).
    cbn [map fst snd]. rewrite I1, I4, Nat2Z.id. repeat split; try reflexivity; lia.
  - destruct (rset_build rest sb gc) as [[[sb2 g2] sg2] gc2] eqn:E. inversion H; subst; clear H.
    destruct (IH _ _ _ _ _ _ E) as (I1 & I2 & I3 & I4).
    cbn [filter somes length combine fst snd]. replace (nonneg (-1)) with false by reflexivity. repeat split; auto; lia.
Qed.

(* C10_rset_index: for every pattern set that passes rset_shape and that rset_make accepts, the compiled tree is the
   outer group 1 around the alternation of the wrapper groups, the wrapper of the i-th non-NULL pattern is numbered
   grp[i], contains setgrpcnt[i] groups numbered grp[i]+1 ..., and grpcnt is one more than the last group number *)
Theorem rset_index_full res flg rs : rset_shape res = true -> rset_make res flg = Ok (Some rs) ->
  exists body, tree (rs_prog rs) = NGrp body 1 1 1 /\
    wraps body (somes res) (map Z.to_nat (filter nonneg (firstn (rs_n rs) (rs_grp rs)))) /\
    map snd (filter (fun zs => nonneg (fst zs)) (combine (firstn (rs_n rs) (rs_grp rs)) (rs_setgrpcnt rs))) = map re_groupcount (somes res) /\
    rs_grpcnt rs = 1 + ngroups (tree (rs_prog rs)) /\ nth (rs_n rs) (rs_grp rs) 0%Z = Z.of_nat (rs_grpcnt rs) /\
    map Z.to_nat (filter nonneg (firstn (rs_n rs) (rs_grp rs))) = nums 2 (somes res).
Proof.
  unfold rset_shape, rset_make, rset_pattern. intros S M.
  destruct (rset_build res [40%N] 2) as [[[sb g] sg] gc] eqn:B.
  destruct (build_nums _ _ _ _ _ _ _ B) as (N1 & N2 & N3 & N4).
  destruct (existsb _ (somes res)); [discriminate|].
  unfold regcomp in M. destruct (parse_pat (sb ++ [41%N])) as [[[t|] rest]| |] eqn:P; try discriminate.
  destruct t; try discriminate. destruct rest; try discriminate.
  apply andb_prop in S. destruct S as [S C]. apply andb_prop in S. destruct S as [S1 S2].
  apply Z.eqb_eq in S1. apply Z.eqb_eq in S2. subst mn mx.
  cbn [bind fst snd] in M.
  destruct (parse_bad (sb ++ [41%N]) || negb true); [discriminate|].
  destruct ((0 <=? NINST)%Z && (NINST <=? count (NGrp t g0 1 1) + 3)%Z); [discriminate|].
  inversion M; subst rs; clear M. cbn [rs_prog rs_n rs_grp rs_setgrpcnt rs_grpcnt tree].
  destruct (grpnum_alts (somes res) t 2 C) as [W T].
  pose proof (ngroups_grpnum t 2) as K.
  cbn [grpnum]. change (1 + 1) with 2. destruct (grpnum t 2) as [t' k] eqn:G. cbn [fst snd ngroups] in *.
  replace (firstn (length res) (g ++ [Z.of_nat gc])) with g by (rewrite <- N3, firstn_app, Nat.sub_diag, firstn_all; cbn [firstn]; rewrite app_nil_r; reflexivity).
  exists t'. split; [reflexivity|]. split; [rewrite N1; exact W|]. split; [exact N4|]. split.
  - pose proof (grpnum_ngroups t 2) as K2. rewrite G in K2. cbn [snd] in K2. lia.
  - split; [rewrite <- N3, app_nth2, Nat.sub_diag; [reflexivity | lia] | exact N1].
Qed.

(* non-vacuity, and the deployed shape: sets of several patterns with groups, brackets containing parentheses, escapes *)
Example rset_shape_examples :
  rset_shape [Some p_under] = true /\ rset_shape [Some p_over; None; Some p_y] = true /\
  rset_shape [Some [40; 97; 41; 124; 92; 40; 98]%N; Some [91; 93; 40; 93; 40; 40; 99; 41; 42; 41]%N] = true /\
  (* truncated / unbalanced patterns are accepted by rset_make but do not pass the check *)
  rset_shape [Some [40; 97; 41; 40; 98; 123; 51; 44; 49; 125; 41]%N; Some [99]%N] = false /\
  rset_shape [Some [97; 41; 40; 98]%N] = false.
Proof. vm_compute. repeat split. Qed.
