(* ReGroups.v -- C10_rset_index: does rset.c's re_groupcount agree with the group numbering of the
   parser (rnode_grpnum: groups numbered in pre-order = the number of NGrp nodes)?  Before fix f534655 it
   did not (the bracket scanner of re_groupcount differed from regex.c's brk_len; see design.d/C10.md). *)
From Coq Require Import List Arith Lia Bool ZArith NArith.
From NV Require Import Bytes GenConsts ReSyntax ReParse ReEmit ReVM ReSem RsetDefs.
Import ListNotations.

(* the number of groups of a parse tree = what rnode_grpnum returns *)
Fixpoint ngroups (t : node) : nat :=
  match t with
  | NNil => 0
  | NAtom _ _ _ => 0
  | NGrp x _ _ _ => 1 + ngroups x
  | NCat x y => ngroups x + ngroups y
  | NAlt x y => ngroups x + ngroups y
  end.

Lemma grpnum_ngroups t : forall num, snd (grpnum t num) = ngroups t.
Proof.
  induction t; intros num; cbn [grpnum ngroups snd]; try reflexivity.
  - specialize (IHt (num + 1)). destruct (grpnum t (num + 1)). cbn [snd] in *. lia.
  - specialize (IHt1 num). destruct (grpnum t1 num) as [x' k1]. cbn [snd] in IHt1. subst k1.
    specialize (IHt2 (num + ngroups t1)). destruct (grpnum t2 (num + ngroups t1)). cbn [snd] in *. lia.
  - specialize (IHt1 num). destruct (grpnum t1 num) as [x' k1]. cbn [snd] in IHt1. subst k1.
    specialize (IHt2 (num + ngroups t1)). destruct (grpnum t2 (num + ngroups t1)). cbn [snd] in *. lia.
Qed.

(* pattern bytes *)
Definition p_under : bytes := [91; 97; 91; 42; 93; 40; 120; 41]%N.                       (* [a[*](x) *)
Definition p_over : bytes := [91; 91; 58; 115; 112; 97; 99; 101; 58; 93; 40; 41; 93; 43]%N.  (* [[:space:]()]+ *)
Definition p_y : bytes := [121]%N.                                                         (* y *)

(* the inputs of the repaired defect f534655 (re_groupcount scanned brackets differently from brk_len):
   (a) [a[*](x) was counted as having no group, (b) [[:space:]()]+ as having one *)
Lemma fixed_under :
  exists t rs, parse_pat (rset_pattern [Some p_under]) = Ok (Some t, []) /\ ngroups t = 3 /\ re_groupcount p_under = 1 /\
    rset_make [Some p_under] 0%Z = Ok (Some rs) /\
    fst (rset_find_d 300 rs [97; 120; 10]%N 2 0%Z) = Ok (0%Z, [(0%Z, 2%Z); (1%Z, 2%Z)]).
Proof. eexists. eexists. repeat split; vm_compute; reflexivity. Qed.

Lemma fixed_over :
  exists t rs, parse_pat (rset_pattern [Some p_over; Some p_y]) = Ok (Some t, []) /\ ngroups t = 3 /\ re_groupcount p_over = 0 /\
    rset_make [Some p_over; Some p_y] 0%Z = Ok (Some rs) /\ rs_grp rs = [2%Z; 3%Z; 4%Z] /\
    fst (rset_find_d 300 rs [121; 10]%N 1 0%Z) = Ok (1%Z, [(0%Z, 1%Z)]).
Proof. eexists. eexists. repeat split; vm_compute; reflexivity. Qed.
