(* TrEditLoad.v -- the LOADING part of ex.c ec_edit (`:e file`) as C TEXT (property C01):

       fd = open(ex_path(), O_RDONLY);
       if (fd >= 0) {
           int rd = lbuf_rd(xb, fd, 0, lbuf_len(xb));
           close(fd);
           snprintf(msg, sizeof(msg), "\"%s\"  [=%d]  [r]", ex_path(), lbuf_len(xb));
           if (rd) ex_show("read failed"); else ex_show(msg);
       }
       lbuf_saved(xb, path[0] != '\0');

   ec_edit is translated by tools/c2clite.d/87_quit.list (coq/TrQuit.v proves its "buffer modified" guard and leaves the rest of the
   body, ec_edit_rest, open).  Here the two statements above are cut out of the generated term (ee_load; ee_load_shape says what
   they are) and proved relative to the oracle indices X_open, X_lbuf_rd (C01_tr_lbuf_rd is the theorem about lbuf_rd), X_close,
   X_snprintf, X_ex_show, one hypothesis per call reached; ex_path / ex_lbuf / lbuf_len are translated and run. *)
From Coq Require Import List ZArith NArith Bool Lia.
From NV Require Import Bytes CLite CLiteProps GenCFuncs CLiteTac CLiteExt TrLbufBase TrReadCmd.
Import ListNotations.
Local Open Scope Z_scope.

Definition BUFS_PATH : nat := 32.   (* bufs[0].path *)

(* the statements of ec_edit from `fd = open(...)` on: found by their first call, not by position, so that a change of the statements in
   front of them (the guard of C02, the buffer switching of C20) does not move them *)
Fixpoint seq_from (p : stmt -> bool) (s : stmt) : stmt :=
  match s with SSeq a r => if p a then s else seq_from p r | _ => SSkip end.
Definition is_open (a : stmt) : bool :=
  match a with SExpr (ESetLocal _ (ECall f _)) => Nat.eqb f X_open | _ => false end.
Definition ee_from_open : stmt := seq_from is_open (fn_body cf_ec_edit).
Definition ee_open : stmt := match ee_from_open with SSeq a _ => a | _ => SSkip end.
Definition ee_if : stmt := match ee_from_open with SSeq _ (SSeq b _) => b | _ => SSkip end.
Definition ee_saved : stmt := match ee_from_open with SSeq _ (SSeq _ (SSeq c _)) => c | _ => SSkip end.
Definition ee_load : stmt := SSeq ee_open ee_if.

(* what the pieces are *)
Lemma ee_load_shape :
  ee_open = SExpr (ESetLocal 7 (ECall X_open [ECall F_ex_path []; EConst 0])) /\
  ee_if = SIf (EBin OGe I32 (ELocal 7) (EConst 0))
            (SSeq (SExpr (ESetLocal 8 (ECall X_lbuf_rd [ECall F_ex_lbuf []; ELocal 7; EConst 0; ECall F_lbuf_len [ECall F_ex_lbuf []]])))
               (SSeq (SExpr (ECall X_close [ELocal 7]))
                  (SSeq (SExpr (ECall X_snprintf [ELocal 5; EConst 128; EGlob G_rdfmt; ECall F_ex_path []; ECall F_lbuf_len [ECall F_ex_lbuf []]]))
                     (SIf (ELocal 8) (SExpr (ECall X_ex_show [EGlob G_rdfail])) (SExpr (ECall X_ex_show [ELocal 5]))))))
            SSkip /\
  ee_saved = SExpr (ECall F_lbuf_saved [ECall F_ex_lbuf []; EBin ONe I32 (ECast I32 (ELoad (Some I8) (EPtrAdd 1 (ELocal 6) (EConst 0)))) (EConst 0)]).
Proof. repeat split; reflexivity. Qed.

Section EditLoad.
  Variable ext : nat -> list val -> mem -> res (val * mem).
  Variables d fuel : nat.
  Variables loc cmd arg txt pls path : val.
  Variables pmsg bl pa : nat.            (* msg[128], the struct lbuf of xb, the block of bufs[0].path *)
  Variable po : Z.
  Let call := callx ext cprog fuel (S (S d)).
  Definition ee_st (fd rd : val) (M : mem) : state := mkst [loc; cmd; arg; txt; pls; VPtr pmsg 0; path; fd; rd] M.

  (* ex_path() *)
  Definition path_at (M : mem) : Prop := exists gbufs, nth_error M G_bufs = Some gbufs /\ nth_error gbufs BUFS_PATH = Some (VPtr pa po).
  Lemma call_path (M : mem) D : path_at M -> callx ext cprog fuel (S D) F_ex_path [] M = Ok (VPtr pa po, M).
  Proof.
    intros (gbufs & H1 & H2). apply callx_mono. enter F_ex_path cf_ex_path. xstep.
    rewrite (fld_load M G_bufs gbufs BUFS_PATH (VPtr pa po) _ H1 H2) by reflexivity. xstep. reflexivity.
  Qed.

  (* open fails: nothing is read, the buffer keeps what bufs_open / bufs_switch left *)
  Lemma ee_load_noopen (M : mem) fd0 rd0 fd mD f : path_at M -> fd < 0 ->
    ext X_open [VPtr pa po; VInt 0] M = Ok (VInt fd, mD) ->
    exec call f ee_load (ee_st fd0 rd0 M) = ONormal (ee_st (VInt fd) rd0 mD).
  Proof.
    intros Hp Hfd Ho. unfold ee_load. destruct ee_load_shape as (-> & -> & _). unfold ee_st. xstep.
    unfold call. rewrite (call_path M _ Hp). xstep. rewrite callx_S, x_open_none, Ho. xstep.
    destruct (Z.leb_spec 0 fd); [lia|]. xstep. reflexivity.
  Qed.

  (* open works: lbuf_rd(xb, fd, 0, lbuf_len(xb)) -- the WHOLE buffer is replaced --, close(fd), the message or "read failed" *)
  Lemma ee_load_ok (M : mem) fd0 rd0 fd mD len r mE u mF len1 u2 mG u3 mH f : path_at M -> 0 <= fd ->
    ext X_open [VPtr pa po; VInt 0] M = Ok (VInt fd, mD) ->
    xb_at bl mD -> len_at bl mD len ->
    ext X_lbuf_rd [VPtr bl 0; VInt fd; VInt 0; VInt len] mD = Ok (VInt r, mE) ->
    ext X_close [VInt fd] mE = Ok (u, mF) ->
    path_at mF -> xb_at bl mF -> len_at bl mF len1 ->
    ext X_snprintf [VPtr pmsg 0; VInt 128; VPtr G_rdfmt 0; VPtr pa po; VInt len1] mF = Ok (u2, mG) ->
    ext X_ex_show [if r =? 0 then VPtr pmsg 0 else VPtr G_rdfail 0] mG = Ok (u3, mH) ->
    exec call f ee_load (ee_st fd0 rd0 M) = ONormal (ee_st (VInt fd) (VInt r) mH).
  Proof.
    intros Hp Hfd Ho HxD HlD Hrd Hcl HpF HxF HlF Hsn Hsh. unfold ee_load. destruct ee_load_shape as (-> & -> & _). unfold ee_st. xstep.
    unfold call. rewrite (call_path M _ Hp). xstep. rewrite callx_S, x_open_none, Ho. xstep.
    destruct (Z.leb_spec 0 fd); [|lia]. xstep.
    rewrite (call_xb ext fuel bl mD _ HxD). xstep. rewrite (call_xb ext fuel bl mD _ HxD). xstep.
    rewrite (call_len ext fuel bl mD len _ HlD). xstep. rewrite callx_S, x_lbuf_rd_none, Hrd. xstep.
    rewrite callx_S, x_close_none, Hcl. xstep.
    rewrite (call_path mF _ HpF). xstep. rewrite (call_xb ext fuel bl mF _ HxF). xstep. rewrite (call_len ext fuel bl mF len1 _ HlF). xstep.
    rewrite callx_S, x_snprintf_none, Hsn. xstep.
    destruct (Z.eqb_spec r 0) as [->|Hr]; xstep; rewrite callx_S, x_ex_show_none, Hsh; xstep; reflexivity.
  Qed.
End EditLoad.

(* ------------------------------------------------------------------ helpers for examples: the fragment run on a concrete memory *)
From NV Require IoReadDefs TrRead.
(* TrReadCmd.ex_m0 with bufs[0].path = "f" and a block for msg[128] behind it *)
Definition ex_m1 (s : list IoReadDefs.rout) : mem :=
  upd (ex_m0 s) G_bufs (upd (upd gb_bufs BUFS_LB (VPtr ex_L 0)) BUFS_PATH (VPtr (ex_L + 2) 0)) ++ [repeat (VInt 0) 128].
(* fd, rd, the read log and the edit log after the loading part of ec_edit, run from a state whose locals hold "" and msg *)
Definition ex_editload (s : list IoReadDefs.rout) : option (val * val * block * block) :=
  let e := VPtr (ex_L + 1) 0 in
  match exec (callx (exsys (ex_L + 3) (ex_L + 4) (ex_L + 5)) cprog 20 8) 20 ee_load
             (mkst [e; e; e; e; e; VPtr (ex_L + 6) 0; VPtr (ex_L + 2) 0; VUndef; VUndef] (ex_m1 s)) with
  | ONormal st => Some (nth 7 (locals st) VUndef, nth 8 (locals st) VUndef, nth (ex_L + 4) (memm st) [], nth (ex_L + 5) (memm st) [])
  | _ => None
  end.
