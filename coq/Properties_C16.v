(* Properties_C16.v -- C16: UTF-8 character arithmetic agrees with code points; edits keep text
   valid UTF-8.  Statements only; every proof is `exact <lemma>`; Print Assumptions under each. *)
From Coq Require Import List NArith ZArith.
From NV Require Import Bytes UcDefs UcSpec UcProps UcSegProps.
Import ListNotations.
Local Open Scope N_scope.

(* character length from the lead byte and decoding, for every Unicode scalar value, whatever follows *)
Theorem C16_len_code : forall c rest, scalar c ->
  uc_len (encode c ++ rest) = length (encode c) /\ uc_code (encode c ++ rest) = c.
Proof. exact uc_len_code_encode. Qed.
Print Assumptions C16_len_code.

(* the editor's own encoder (used by letter shaping) is the RFC 3629 encoder *)
Theorem C16_cput : forall c, scalar c -> uc_cput c = encode c.
Proof. exact uc_cput_encode. Qed.
Print Assumptions C16_cput.

(* character count *)
Theorem C16_slen : forall cs, Forall scalar cs -> uc_slen (chars cs) = length cs.
Proof. exact uc_slen_chars. Qed.
Print Assumptions C16_slen.

(* n-th character: its byte offset is the total length of the first k encodings *)
Theorem C16_chr : forall cs k, Forall scalar cs -> (k <= length cs)%nat ->
  uc_chr (chars cs) (Z.of_nat k) = Some (off_of cs k).
Proof. exact uc_chr_chars. Qed.
Print Assumptions C16_chr.

(* byte offset -> character offset inverts character offset -> byte offset *)
Theorem C16_off_roundtrip : forall cs k, Forall scalar cs -> (k <= length cs)%nat ->
  uc_off (chars cs) (off_of cs k) = k.
Proof. exact uc_off_chars. Qed.
Print Assumptions C16_off_roundtrip.

(* the chopped character table is exactly the list of code-point boundaries *)
Theorem C16_chop : forall cs, Forall scalar cs -> uc_chop (chars cs) = bounds cs 0.
Proof. exact uc_chop_chars. Qed.
Print Assumptions C16_chop.

(* substring by character offsets *)
Theorem C16_sub : forall cs b e, Forall scalar cs -> (b <= e)%nat -> (e <= length cs)%nat ->
  uc_sub (chars cs) (Z.of_nat b) (Z.of_nat e) = Some (chars (firstn (e - b) (skipn b cs))).
Proof. exact uc_sub_chars. Qed.
Print Assumptions C16_sub.

(* next undoes previous and vice versa, on every character boundary *)
Theorem C16_next_prev : forall cs1 c cs2, Forall scalar cs1 -> scalar c -> Forall scalar cs2 ->
  uc_next (chars (c :: cs2)) = length (encode c) /\
  uc_prev (rev (chars (cs1 ++ [c]))) = length (encode c).
Proof. exact uc_next_prev_inverse. Qed.
Print Assumptions C16_next_prev.

(* lead-byte length and continuation-byte scanning agree on valid input *)
Theorem C16_len_end_agree : forall c cs, scalar c -> Forall scalar cs ->
  uc_len (chars (c :: cs)) = S (uc_end (chars (c :: cs))).
Proof. exact uc_len_end_agree. Qed.
Print Assumptions C16_len_end_agree.

(* replacing characters a..b-1 (offsets obtained from uc_chr) by valid text keeps the line valid:
   a character-wise edit never splits a multi-byte character *)
Theorem C16_splice_valid : forall cs ins a b, Forall scalar cs -> Forall scalar ins ->
  (a <= b)%nat -> (b <= length cs)%nat ->
  forall pa pb, uc_chr (chars cs) (Z.of_nat a) = Some pa -> uc_chr (chars cs) (Z.of_nat b) = Some pb ->
  valid (firstn pa (chars cs) ++ chars ins ++ skipn pb (chars cs)).
Proof. exact splice_valid. Qed.
Print Assumptions C16_splice_valid.

(* non-vacuity: a string with 1-, 2-, 3- and 4-byte characters meets the hypotheses, and the
   helpers compute what the theorems say on it *)
Example C16_nonvacuous :
  let cs := [97; 233; 8364; 128512; 1587] in
  forallb scalar_b cs = true /\ uc_slen (chars cs) = 5%nat /\ uc_chop (chars cs) = [0; 1; 3; 6; 10; 12]%nat /\
  uc_chr (chars cs) 3 = Some 6%nat /\ uc_off (chars cs) 6 = 3%nat.
Proof. vm_compute. repeat split; reflexivity. Qed.

(* ---------------------------------------------------------------------------------------------
   THE MODEL IS THE C TEXT.  GenCFuncs.v is regenerated from /repo's uc.c on every run by
   tools/c2clite.py (clang's AST printed as a term of the deep embedding CLite.v, whose checked
   semantics is fixed there).  The theorems below say: for EVERY memory holding a C string at any
   block, every offset into it, every call depth and every loop fuel above the stated bound,
   running the translated function returns exactly the value of the hand-written model UcDefs.v
   (which all the theorems above and the C07/C08/C11-C14/C17/C18 developments speak about) and
   leaves memory unchanged; in particular no load leaves the string and its terminator, no signed
   operation overflows and neither fuel runs out (those are distinct error results of CLite). *)
From NV Require Import CLite CLiteProps GenCFuncs CLiteTac TrUcCode TrUc TrUcClass.
Local Open Scope Z_scope.

Theorem C16_tr_uc_len : forall m b s o d fuel,
  str_at m b s -> bytes_lt256 s -> (o <= length s)%nat ->
  callf cprog fuel (S d) F_uc_len [VPtr b (Z.of_nat o)] m = Ok (VInt (Z.of_nat (uc_len_b (nthb s o))), m).
Proof. exact tr_uc_len. Qed.
Print Assumptions C16_tr_uc_len.

(* uc_code reads as many bytes as the lead byte announces: in bounds iff they lie inside the string
   or on its terminator (a truncated sequence right before the terminator is the excluded case) *)
Theorem C16_tr_uc_code : forall m b s o d fuel,
  str_at m b s -> bytes_lt256 s -> (o + uc_len_b (nthb s o) - 1 <= length s)%nat -> (o <= length s)%nat ->
  callf cprog fuel (S d) F_uc_code [VPtr b (Z.of_nat o)] m = Ok (VInt (Z.of_N (uc_code (skipn o s))), m).
Proof. exact tr_uc_code. Qed.
Print Assumptions C16_tr_uc_code.

Theorem C16_tr_uc_end : forall m b s o d fuel,
  str_at m b s -> bytes_lt256 s -> (o <= length s)%nat -> (length s < fuel)%nat ->
  callf cprog fuel (S d) F_uc_end [VPtr b (Z.of_nat o)] m = Ok (VPtr b (Z.of_nat (o + uc_end (skipn o s))), m).
Proof. exact tr_uc_end. Qed.
Print Assumptions C16_tr_uc_end.

Theorem C16_tr_uc_next : forall m b s o d fuel,
  str_at m b s -> bytes_lt256 s -> (o <= length s)%nat -> (length s < fuel)%nat ->
  callf cprog fuel (S (S d)) F_uc_next [VPtr b (Z.of_nat o)] m = Ok (VPtr b (Z.of_nat (o + uc_next (skipn o s))), m).
Proof. exact tr_uc_next. Qed.
Print Assumptions C16_tr_uc_next.

(* beg = offset ob, s = offset o of the same string; pre_of = the bytes between them, nearest first *)
Theorem C16_tr_uc_beg : forall m b s ob o d fuel,
  str_at m b s -> bytes_lt256 s -> (ob <= o <= length s)%nat -> (length s < fuel)%nat ->
  callf cprog fuel (S d) F_uc_beg [VPtr b (Z.of_nat ob); VPtr b (Z.of_nat o)] m
  = Ok (VPtr b (Z.of_nat (o - uc_beg (pre_of s ob o) (nthb s o))), m).
Proof. exact tr_uc_beg. Qed.
Print Assumptions C16_tr_uc_beg.

Theorem C16_tr_uc_prev : forall m b s ob o d fuel,
  str_at m b s -> bytes_lt256 s -> (ob <= o <= length s)%nat -> (length s < fuel)%nat ->
  callf cprog fuel (S (S d)) F_uc_prev [VPtr b (Z.of_nat ob); VPtr b (Z.of_nat o)] m
  = Ok (VPtr b (Z.of_nat (o - uc_prev (pre_of s ob o))), m).
Proof. exact tr_uc_prev. Qed.
Print Assumptions C16_tr_uc_prev.

(* the counting loops: strings shorter than 2^31 (the counter is an int) *)
Theorem C16_tr_uc_slen : forall m b s o d fuel,
  str_at m b s -> nonul s -> (o <= length s)%nat -> (length s < fuel)%nat -> Z.of_nat (length s) <= 2147483647 ->
  callf cprog fuel (S (S d)) F_uc_slen [VPtr b (Z.of_nat o)] m = Ok (VInt (Z.of_nat (uc_slen (skipn o s))), m).
Proof. exact tr_uc_slen. Qed.
Print Assumptions C16_tr_uc_slen.

Theorem C16_tr_uc_off : forall m b s o off d fuel,
  str_at m b s -> nonul s -> (o <= length s)%nat -> (length s < fuel)%nat ->
  Z.of_nat (length s) <= 2147483647 -> Z.of_nat off <= 2147483647 ->
  callf cprog fuel (S (S (S d))) F_uc_off [VPtr b (Z.of_nat o); VInt (Z.of_nat off)] m
  = Ok (VInt (Z.of_nat (uc_off (skipn o s) off)), m).
Proof. exact tr_uc_off. Qed.
Print Assumptions C16_tr_uc_off.

(* uc_chr for any int offset (negative too): a pointer into the string, or the static "" *)
Theorem C16_tr_uc_chr : forall m b s o off d fuel,
  str_at m b s -> nonul s -> (o <= length s)%nat -> (length s < fuel)%nat -> Z.of_nat (length s) <= 2147483647 ->
  callf cprog fuel (S (S (S d))) F_uc_chr [VPtr b (Z.of_nat o); VInt off] m
  = Ok (chr_val b (option_map (fun q => o + q)%nat (uc_chr (skipn o s) off)), m).
Proof. exact tr_uc_chr. Qed.
Print Assumptions C16_tr_uc_chr.

(* the character classes (isspace/isalpha/isdigit/isprint of <ctype.h> enter as CLite builtins, C locale) *)
Theorem C16_tr_uc_kind : forall m b s o d fuel, str_at m b s -> bytes_lt256 s -> (o <= length s)%nat ->
  callf cprog fuel (S (S d)) F_uc_kind [VPtr b (Z.of_nat o)] m = Ok (VInt (Z.of_N (uc_kind (skipn o s))), m).
Proof. exact tr_uc_kind. Qed.
Print Assumptions C16_tr_uc_kind.
Theorem C16_tr_uc_classes : forall m b s o d fuel, str_at m b s -> bytes_lt256 s -> (o <= length s)%nat ->
  callf cprog fuel (S d) F_uc_isspace [VPtr b (Z.of_nat o)] m = Ok (VInt (b2z (uc_isspace (skipn o s))), m) /\
  callf cprog fuel (S d) F_uc_isprint [VPtr b (Z.of_nat o)] m = Ok (VInt (b2z (uc_isprint (skipn o s))), m) /\
  callf cprog fuel (S d) F_uc_isalpha [VPtr b (Z.of_nat o)] m = Ok (VInt (b2z (uc_isalpha (skipn o s))), m) /\
  callf cprog fuel (S d) F_uc_isdigit [VPtr b (Z.of_nat o)] m = Ok (VInt (b2z (uc_isdigit (skipn o s))), m).
Proof.
  exact (fun m b s o d fuel Hs H Ho => conj (tr_uc_isspace m b s o d fuel Hs H Ho) (conj (tr_uc_isprint m b s o d fuel Hs H Ho)
          (conj (tr_uc_isalpha m b s o d fuel Hs H Ho) (tr_uc_isdigit m b s o d fuel Hs H Ho)))).
Qed.
Print Assumptions C16_tr_uc_classes.

(* non-vacuity and a run of the interpreter itself: "aé€" at block 0, every function on it *)
Example C16_tr_nonvacuous :
  let s := [97; 195; 169; 226; 130; 172]%N in
  let m := [cstr_block (zb s)] in
  str_at m 0 s /\ nonul s /\
  callf cprog 100 5 F_uc_slen [VPtr 0 0] m = Ok (VInt 3, m) /\
  callf cprog 100 5 F_uc_code [VPtr 0 3] m = Ok (VInt 8364, m) /\
  callf cprog 100 5 F_uc_chr [VPtr 0 0; VInt 2] m = Ok (VPtr 0 3, m) /\
  callf cprog 100 5 F_uc_off [VPtr 0 0; VInt 3] m = Ok (VInt 2, m) /\
  callf cprog 100 5 F_uc_prev [VPtr 0 0; VPtr 0 6] m = Ok (VPtr 0 3, m) /\
  (* a truncated sequence right before the terminator: the C text reads past the string *)
  callf cprog 100 5 F_uc_code [VPtr 0 0] [cstr_block [240]] = Err EOob.
Proof.
  cbv zeta. split; [reflexivity|]. split; [repeat constructor; cbv; intuition discriminate|].
  vm_compute. repeat split; reflexivity.
Qed.

(* ---------------------------------------------------------------------------------------------
   C16 ABOUT THE C TEXT: the translation theorems composed with the code-point theorems.  For the
   UTF-8 encoding of ANY list of scalar values (shorter than 2^31 bytes) held at any block of memory,
   the translated uc_slen, uc_chr and uc_off of /repo's uc.c return the number of characters, the
   pointer to the k-th character (its byte offset is the total length of the first k encodings) and the
   inverse conversion -- "character counts, offset conversions agree with code-point arithmetic". *)
From NV Require Import TrUcSpec.
Theorem C16_ctext_uc_slen : forall m b cs d fuel,
  Forall scalar cs -> str_at m b (chars cs) -> (length (chars cs) < fuel)%nat -> Z.of_nat (length (chars cs)) <= 2147483647 ->
  callf cprog fuel (S (S d)) F_uc_slen [VPtr b 0] m = Ok (VInt (Z.of_nat (length cs)), m).
Proof. exact ctext_uc_slen. Qed.
Print Assumptions C16_ctext_uc_slen.
Theorem C16_ctext_uc_chr : forall m b cs k d fuel,
  Forall scalar cs -> (k <= length cs)%nat -> str_at m b (chars cs) -> (length (chars cs) < fuel)%nat ->
  Z.of_nat (length (chars cs)) <= 2147483647 ->
  callf cprog fuel (S (S (S d))) F_uc_chr [VPtr b 0; VInt (Z.of_nat k)] m = Ok (VPtr b (Z.of_nat (off_of cs k)), m).
Proof. exact ctext_uc_chr. Qed.
Print Assumptions C16_ctext_uc_chr.
Theorem C16_ctext_uc_off : forall m b cs k d fuel,
  Forall scalar cs -> (k <= length cs)%nat -> str_at m b (chars cs) -> (length (chars cs) < fuel)%nat ->
  Z.of_nat (length (chars cs)) <= 2147483647 ->
  callf cprog fuel (S (S (S d))) F_uc_off [VPtr b 0; VInt (Z.of_nat (off_of cs k))] m = Ok (VInt (Z.of_nat k), m).
Proof. exact ctext_uc_off. Qed.
Print Assumptions C16_ctext_uc_off.
