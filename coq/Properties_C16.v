(* Properties_C16.v -- C16: UTF-8 character arithmetic agrees with code points; edits keep text
   valid UTF-8.  Statements only; every proof is `exact <lemma>`; Print Assumptions under each. *)
From Coq Require Import List NArith ZArith.
From NV Require Import Bytes UcDefs UcSpec UcProps UcSegProps.
Import ListNotations.
Local Open Scope N_scope.

(* character length from the lead byte and decoding, for every Unicode scalar value, whatever follows *)
Theorem C16_len_code : forall c rest, scalar c ->
  uc_len (encode c ++ rest) = length (encode c) /\ uc_code (encode c ++ rest) = c.
Proof. exact uc_len_code_encode. Qed.
Print Assumptions C16_len_code.

(* the editor's own encoder (used by letter shaping) is the RFC 3629 encoder *)
Theorem C16_cput : forall c, scalar c -> uc_cput c = encode c.
Proof. exact uc_cput_encode. Qed.
Print Assumptions C16_cput.

(* character count *)
Theorem C16_slen : forall cs, Forall scalar cs -> uc_slen (chars cs) = length cs.
Proof. exact uc_slen_chars. Qed.
Print Assumptions C16_slen.

(* n-th character: its byte offset is the total length of the first k encodings *)
Theorem C16_chr : forall cs k, Forall scalar cs -> (k <= length cs)%nat ->
  uc_chr (chars cs) (Z.of_nat k) = Some (off_of cs k).
Proof. exact uc_chr_chars. Qed.
Print Assumptions C16_chr.

(* byte offset -> character offset inverts character offset -> byte offset *)
Theorem C16_off_roundtrip : forall cs k, Forall scalar cs -> (k <= length cs)%nat ->
  uc_off (chars cs) (off_of cs k) = k.
Proof. exact uc_off_chars. Qed.
Print Assumptions C16_off_roundtrip.

(* the chopped character table is exactly the list of code-point boundaries *)
Theorem C16_chop : forall cs, Forall scalar cs -> uc_chop (chars cs) = bounds cs 0.
Proof. exact uc_chop_chars. Qed.
Print Assumptions C16_chop.

(* substring by character offsets *)
Theorem C16_sub : forall cs b e, Forall scalar cs -> (b <= e)%nat -> (e <= length cs)%nat ->
  uc_sub (chars cs) (Z.of_nat b) (Z.of_nat e) = Some (chars (firstn (e - b) (skipn b cs))).
Proof. exact uc_sub_chars. Qed.
Print Assumptions C16_sub.

(* next undoes previous and vice versa, on every character boundary *)
Theorem C16_next_prev : forall cs1 c cs2, Forall scalar cs1 -> scalar c -> Forall scalar cs2 ->
  uc_next (chars (c :: cs2)) = length (encode c) /\
  uc_prev (rev (chars (cs1 ++ [c]))) = length (encode c).
Proof. exact uc_next_prev_inverse. Qed.
Print Assumptions C16_next_prev.

(* lead-byte length and continuation-byte scanning agree on valid input *)
Theorem C16_len_end_agree : forall c cs, scalar c -> Forall scalar cs ->
  uc_len (chars (c :: cs)) = S (uc_end (chars (c :: cs))).
Proof. exact uc_len_end_agree. Qed.
Print Assumptions C16_len_end_agree.

(* replacing characters a..b-1 (offsets obtained from uc_chr) by valid text keeps the line valid:
   a character-wise edit never splits a multi-byte character *)
Theorem C16_splice_valid : forall cs ins a b, Forall scalar cs -> Forall scalar ins ->
  (a <= b)%nat -> (b <= length cs)%nat ->
  forall pa pb, uc_chr (chars cs) (Z.of_nat a) = Some pa -> uc_chr (chars cs) (Z.of_nat b) = Some pb ->
  valid (firstn pa (chars cs) ++ chars ins ++ skipn pb (chars cs)).
Proof. exact splice_valid. Qed.
Print Assumptions C16_splice_valid.

(* non-vacuity: a string with 1-, 2-, 3- and 4-byte characters meets the hypotheses, and the
   helpers compute what the theorems say on it *)
Example C16_nonvacuous :
  let cs := [97; 233; 8364; 128512; 1587] in
  forallb scalar_b cs = true /\ uc_slen (chars cs) = 5%nat /\ uc_chop (chars cs) = [0; 1; 3; 6; 10; 12]%nat /\
  uc_chr (chars cs) 3 = Some 6%nat /\ uc_off (chars cs) 6 = 3%nat.
Proof. vm_compute. repeat split; reflexivity. Qed.
