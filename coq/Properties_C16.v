(* Properties_C16.v -- C16: UTF-8 character arithmetic agrees with code points; edits keep text
   valid UTF-8.  Statements only; every proof is `exact <lemma>`; Print Assumptions under each. *)
From Coq Require Import List NArith ZArith.
From NV Require Import Bytes UcDefs UcSpec UcProps UcSegProps.
Import ListNotations.
Local Open Scope N_scope.

(* character length from the lead byte and decoding, for every Unicode scalar value, whatever follows *)
Theorem C16_len_code : forall c rest, scalar c ->
  uc_len (encode c ++ rest) = length (encode c) /\ uc_code (encode c ++ rest) = c.
Proof. exact uc_len_code_encode. Qed.
Print Assumptions C16_len_code.

(* the editor's own encoder (used by letter shaping) is the RFC 3629 encoder *)
Theorem C16_cput : forall c, scalar c -> uc_cput c = encode c.
Proof. exact uc_cput_encode. Qed.
Print Assumptions C16_cput.

(* character count *)
Theorem C16_slen : forall cs, Forall scalar cs -> uc_slen (chars cs) = length cs.
Proof. exact uc_slen_chars. Qed.
Print Assumptions C16_slen.

(* n-th character: its byte offset is the total length of the first k encodings *)
Theorem C16_chr : forall cs k, Forall scalar cs -> (k <= length cs)%nat ->
  uc_chr (chars cs) (Z.of_nat k) = Some (off_of cs k).
Proof. exact uc_chr_chars. Qed.
Print Assumptions C16_chr.

(* byte offset -> character offset inverts character offset -> byte offset *)
Theorem C16_off_roundtrip : forall cs k, Forall scalar cs -> (k <= length cs)%nat ->
  uc_off (chars cs) (off_of cs k) = k.
Proof. exact uc_off_chars. Qed.
Print Assumptions C16_off_roundtrip.

(* the chopped character table is exactly the list of code-point boundaries *)
Theorem C16_chop : forall cs, Forall scalar cs -> uc_chop (chars cs) = bounds cs 0.
Proof. exact uc_chop_chars. Qed.
Print Assumptions C16_chop.

(* substring by character offsets *)
Theorem C16_sub : forall cs b e, Forall scalar cs -> (b <= e)%nat -> (e <= length cs)%nat ->
  uc_sub (chars cs) (Z.of_nat b) (Z.of_nat e) = Some (chars (firstn (e - b) (skipn b cs))).
Proof. exact uc_sub_chars. Qed.
Print Assumptions C16_sub.

(* next undoes previous and vice versa, on every character boundary *)
Theorem C16_next_prev : forall cs1 c cs2, Forall scalar cs1 -> scalar c -> Forall scalar cs2 ->
  uc_next (chars (c :: cs2)) = length (encode c) /\
  uc_prev (rev (chars (cs1 ++ [c]))) = length (encode c).
Proof. exact uc_next_prev_inverse. Qed.
Print Assumptions C16_next_prev.

(* lead-byte length and continuation-byte scanning agree on valid input *)
Theorem C16_len_end_agree : forall c cs, scalar c -> Forall scalar cs ->
  uc_len (chars (c :: cs)) = S (uc_end (chars (c :: cs))).
Proof. exact uc_len_end_agree. Qed.
Print Assumptions C16_len_end_agree.

(* replacing characters a..b-1 (offsets obtained from uc_chr) by valid text keeps the line valid:
   a character-wise edit never splits a multi-byte character *)
Theorem C16_splice_valid : forall cs ins a b, Forall scalar cs -> Forall scalar ins ->
  (a <= b)%nat -> (b <= length cs)%nat ->
  forall pa pb, uc_chr (chars cs) (Z.of_nat a) = Some pa -> uc_chr (chars cs) (Z.of_nat b) = Some pb ->
  valid (firstn pa (chars cs) ++ chars ins ++ skipn pb (chars cs)).
Proof. exact splice_valid. Qed.
Print Assumptions C16_splice_valid.

(* non-vacuity: a string with 1-, 2-, 3- and 4-byte characters meets the hypotheses, and the
   helpers compute what the theorems say on it *)
Example C16_nonvacuous :
  let cs := [97; 233; 8364; 128512; 1587] in
  forallb scalar_b cs = true /\ uc_slen (chars cs) = 5%nat /\ uc_chop (chars cs) = [0; 1; 3; 6; 10; 12]%nat /\
  uc_chr (chars cs) 3 = Some 6%nat /\ uc_off (chars cs) 6 = 3%nat.
Proof. vm_compute. repeat split; reflexivity. Qed.

(* ---------------------------------------------------------------------------------------------
   THE MODEL IS THE C TEXT.  GenCFuncs.v is regenerated from /repo's uc.c on every run by
   tools/c2clite.py (clang's AST printed as a term of the deep embedding CLite.v, whose checked
   semantics is fixed there).  The theorems below say: for EVERY memory holding a C string at any
   block, every offset into it, every call depth and every loop fuel above the stated bound,
   running the translated function returns exactly the value of the hand-written model UcDefs.v
   (which all the theorems above and the C07/C08/C11-C14/C17/C18 developments speak about) and
   leaves memory unchanged; in particular no load leaves the string and its terminator, no signed
   operation overflows and neither fuel runs out (those are distinct error results of CLite). *)
From NV Require Import CLite CLiteProps GenCFuncs CLiteTac TrUcCode TrUc TrUcClass.
Local Open Scope Z_scope.

Theorem C16_tr_uc_len : forall m b s o d fuel,
  str_at m b s -> bytes_lt256 s -> (o <= length s)%nat ->
  callf cprog fuel (S d) F_uc_len [VPtr b (Z.of_nat o)] m = Ok (VInt (Z.of_nat (uc_len_b (nthb s o))), m).
Proof. exact tr_uc_len. Qed.
Print Assumptions C16_tr_uc_len.

(* uc_code reads as many bytes as the lead byte announces: in bounds iff they lie inside the string
   or on its terminator (a truncated sequence right before the terminator is the excluded case) *)
Theorem C16_tr_uc_code : forall m b s o d fuel,
  str_at m b s -> bytes_lt256 s -> (o + uc_len_b (nthb s o) - 1 <= length s)%nat -> (o <= length s)%nat ->
  callf cprog fuel (S d) F_uc_code [VPtr b (Z.of_nat o)] m = Ok (VInt (Z.of_N (uc_code (skipn o s))), m).
Proof. exact tr_uc_code. Qed.
Print Assumptions C16_tr_uc_code.

Theorem C16_tr_uc_end : forall m b s o d fuel,
  str_at m b s -> bytes_lt256 s -> (o <= length s)%nat -> (length s < fuel)%nat ->
  callf cprog fuel (S d) F_uc_end [VPtr b (Z.of_nat o)] m = Ok (VPtr b (Z.of_nat (o + uc_end (skipn o s))), m).
Proof. exact tr_uc_end. Qed.
Print Assumptions C16_tr_uc_end.

Theorem C16_tr_uc_next : forall m b s o d fuel,
  str_at m b s -> bytes_lt256 s -> (o <= length s)%nat -> (length s < fuel)%nat ->
  callf cprog fuel (S (S d)) F_uc_next [VPtr b (Z.of_nat o)] m = Ok (VPtr b (Z.of_nat (o + uc_next (skipn o s))), m).
Proof. exact tr_uc_next. Qed.
Print Assumptions C16_tr_uc_next.

(* beg = offset ob, s = offset o of the same string; pre_of = the bytes between them, nearest first *)
Theorem C16_tr_uc_beg : forall m b s ob o d fuel,
  str_at m b s -> bytes_lt256 s -> (ob <= o <= length s)%nat -> (length s < fuel)%nat ->
  callf cprog fuel (S d) F_uc_beg [VPtr b (Z.of_nat ob); VPtr b (Z.of_nat o)] m
  = Ok (VPtr b (Z.of_nat (o - uc_beg (pre_of s ob o) (nthb s o))), m).
Proof. exact tr_uc_beg. Qed.
Print Assumptions C16_tr_uc_beg.

Theorem C16_tr_uc_prev : forall m b s ob o d fuel,
  str_at m b s -> bytes_lt256 s -> (ob <= o <= length s)%nat -> (length s < fuel)%nat ->
  callf cprog fuel (S (S d)) F_uc_prev [VPtr b (Z.of_nat ob); VPtr b (Z.of_nat o)] m
  = Ok (VPtr b (Z.of_nat (o - uc_prev (pre_of s ob o))), m).
Proof. exact tr_uc_prev. Qed.
Print Assumptions C16_tr_uc_prev.

(* the counting loops: strings shorter than 2^31 (the counter is an int) *)
Theorem C16_tr_uc_slen : forall m b s o d fuel,
  str_at m b s -> nonul s -> (o <= length s)%nat -> (length s < fuel)%nat -> Z.of_nat (length s) <= 2147483647 ->
  callf cprog fuel (S (S d)) F_uc_slen [VPtr b (Z.of_nat o)] m = Ok (VInt (Z.of_nat (uc_slen (skipn o s))), m).
Proof. exact tr_uc_slen. Qed.
Print Assumptions C16_tr_uc_slen.

Theorem C16_tr_uc_off : forall m b s o off d fuel,
  str_at m b s -> nonul s -> (o <= length s)%nat -> (length s < fuel)%nat ->
  Z.of_nat (length s) <= 2147483647 -> Z.of_nat off <= 2147483647 ->
  callf cprog fuel (S (S (S d))) F_uc_off [VPtr b (Z.of_nat o); VInt (Z.of_nat off)] m
  = Ok (VInt (Z.of_nat (uc_off (skipn o s) off)), m).
Proof. exact tr_uc_off. Qed.
Print Assumptions C16_tr_uc_off.

(* uc_chr for any int offset (negative too): a pointer into the string, or the static "" *)
Theorem C16_tr_uc_chr : forall m b s o off d fuel,
  str_at m b s -> nonul s -> (o <= length s)%nat -> (length s < fuel)%nat -> Z.of_nat (length s) <= 2147483647 ->
  callf cprog fuel (S (S (S d))) F_uc_chr [VPtr b (Z.of_nat o); VInt off] m
  = Ok (chr_val b (option_map (fun q => o + q)%nat (uc_chr (skipn o s) off)), m).
Proof. exact tr_uc_chr. Qed.
Print Assumptions C16_tr_uc_chr.

(* the character classes (isspace/isalpha/isdigit/isprint of <ctype.h> enter as CLite builtins, C locale) *)
Theorem C16_tr_uc_kind : forall m b s o d fuel, str_at m b s -> bytes_lt256 s -> (o <= length s)%nat ->
  callf cprog fuel (S (S d)) F_uc_kind [VPtr b (Z.of_nat o)] m = Ok (VInt (Z.of_N (uc_kind (skipn o s))), m).
Proof. exact tr_uc_kind. Qed.
Print Assumptions C16_tr_uc_kind.
Theorem C16_tr_uc_classes : forall m b s o d fuel, str_at m b s -> bytes_lt256 s -> (o <= length s)%nat ->
  callf cprog fuel (S d) F_uc_isspace [VPtr b (Z.of_nat o)] m = Ok (VInt (b2z (uc_isspace (skipn o s))), m) /\
  callf cprog fuel (S d) F_uc_isprint [VPtr b (Z.of_nat o)] m = Ok (VInt (b2z (uc_isprint (skipn o s))), m) /\
  callf cprog fuel (S d) F_uc_isalpha [VPtr b (Z.of_nat o)] m = Ok (VInt (b2z (uc_isalpha (skipn o s))), m) /\
  callf cprog fuel (S d) F_uc_isdigit [VPtr b (Z.of_nat o)] m = Ok (VInt (b2z (uc_isdigit (skipn o s))), m).
Proof.
  exact (fun m b s o d fuel Hs H Ho => conj (tr_uc_isspace m b s o d fuel Hs H Ho) (conj (tr_uc_isprint m b s o d fuel Hs H Ho)
          (conj (tr_uc_isalpha m b s o d fuel Hs H Ho) (tr_uc_isdigit m b s o d fuel Hs H Ho)))).
Qed.
Print Assumptions C16_tr_uc_classes.

(* non-vacuity and a run of the interpreter itself: "aé€" at block 0, every function on it *)
Example C16_tr_nonvacuous :
  let s := [97; 195; 169; 226; 130; 172]%N in
  let m := [cstr_block (zb s)] in
  str_at m 0 s /\ nonul s /\
  callf cprog 100 5 F_uc_slen [VPtr 0 0] m = Ok (VInt 3, m) /\
  callf cprog 100 5 F_uc_code [VPtr 0 3] m = Ok (VInt 8364, m) /\
  callf cprog 100 5 F_uc_chr [VPtr 0 0; VInt 2] m = Ok (VPtr 0 3, m) /\
  callf cprog 100 5 F_uc_off [VPtr 0 0; VInt 3] m = Ok (VInt 2, m) /\
  callf cprog 100 5 F_uc_prev [VPtr 0 0; VPtr 0 6] m = Ok (VPtr 0 3, m) /\
  (* a truncated sequence right before the terminator: the C text reads past the string *)
  callf cprog 100 5 F_uc_code [VPtr 0 0] [cstr_block [240]] = Err EOob.
Proof.
  cbv zeta. split; [reflexivity|]. split; [repeat constructor; cbv; intuition discriminate|].
  vm_compute. repeat split; reflexivity.
Qed.

(* ---------------------------------------------------------------------------------------------
   C16 ABOUT THE C TEXT: the translation theorems composed with the code-point theorems.  For the
   UTF-8 encoding of ANY list of scalar values (shorter than 2^31 bytes) held at any block of memory,
   the translated uc_slen, uc_chr and uc_off of /repo's uc.c return the number of characters, the
   pointer to the k-th character (its byte offset is the total length of the first k encodings) and the
   inverse conversion -- "character counts, offset conversions agree with code-point arithmetic". *)
From NV Require Import TrUcSpec.
Theorem C16_ctext_uc_slen : forall m b cs d fuel,
  Forall scalar cs -> str_at m b (chars cs) -> (length (chars cs) < fuel)%nat -> Z.of_nat (length (chars cs)) <= 2147483647 ->
  callf cprog fuel (S (S d)) F_uc_slen [VPtr b 0] m = Ok (VInt (Z.of_nat (length cs)), m).
Proof. exact ctext_uc_slen. Qed.
Print Assumptions C16_ctext_uc_slen.
Theorem C16_ctext_uc_chr : forall m b cs k d fuel,
  Forall scalar cs -> (k <= length cs)%nat -> str_at m b (chars cs) -> (length (chars cs) < fuel)%nat ->
  Z.of_nat (length (chars cs)) <= 2147483647 ->
  callf cprog fuel (S (S (S d))) F_uc_chr [VPtr b 0; VInt (Z.of_nat k)] m = Ok (VPtr b (Z.of_nat (off_of cs k)), m).
Proof. exact ctext_uc_chr. Qed.
Print Assumptions C16_ctext_uc_chr.
Theorem C16_ctext_uc_off : forall m b cs k d fuel,
  Forall scalar cs -> (k <= length cs)%nat -> str_at m b (chars cs) -> (length (chars cs) < fuel)%nat ->
  Z.of_nat (length (chars cs)) <= 2147483647 ->
  callf cprog fuel (S (S (S d))) F_uc_off [VPtr b 0; VInt (Z.of_nat (off_of cs k))] m = Ok (VInt (Z.of_nat k), m).
Proof. exact ctext_uc_off. Qed.
Print Assumptions C16_ctext_uc_off.

(* ---------------------------------------------------------------------------------------------
   THE ALLOCATING / STRING-LEVEL HELPERS OF uc.c ARE THE C TEXT (coq/TrUcMem.v, TrUcComb.v, TrUcMemSpec.v, TrUcMemCap.v;
   tools/c2clite.d/99zzzzz_ucmem.list): uc_sub, uc_cat, uc_dup, uc_trim, uc_lastline, uc_iscomb.  vi's operators cut
   lines with uc_sub and join the pieces with uc_cat: this is the "edits keep text valid UTF-8" half of C16.
   malloc appends a fresh block (VPtr (length m) 0, memory m ++ [block]): "m ++ [...]" says at once that the result is
   fresh, holds exactly the stated bytes with their terminator, and that every other block is unchanged. *)
From Coq Require Import Lia.
From NV Require Import TrUcMem TrUcMemSpec.
From NV Require RenDefs TrUcComb CapDefs CapDefs3 TrUcMemCap.

(* uc_sub(s, beg, end) for EVERY C string and all int beg / end that uc_chr resolves (UcDefs.uc_sub = Some _): a fresh block
   with exactly the bytes between the two character starts -- nothing when beg lies behind end *)
Theorem C16_tr_uc_sub : forall m b s o beg en t d fuel,
  str_at m b s -> nonul s -> (o <= length s)%nat -> (length s < fuel)%nat -> Z.of_nat (length s) < 2147483647 ->
  UcDefs.uc_sub (skipn o s) beg en = Some t ->
  callf cprog fuel (S (S (S (S d)))) F_uc_sub [VPtr b (Z.of_nat o); VInt beg; VInt en] m
  = Ok (VPtr (length m) 0, m ++ [cstr_block (zb t)]).
Proof. exact tr_uc_sub. Qed.
Print Assumptions C16_tr_uc_sub.
(* which offsets resolve: the negative ones (the terminator: callers write -1 for "to the end") and 0 .. uc_slen(s) *)
Theorem C16_uc_chr_neg : forall s off, nonul s -> off < 0 -> uc_chr s off = Some (length s).
Proof. exact uc_chr_neg. Qed.
Print Assumptions C16_uc_chr_neg.
Theorem C16_uc_chr_none : forall s off, nonul s -> (uc_chr s off = None <-> Z.of_nat (uc_slen s) < off).
Proof. exact uc_chr_none. Qed.
Print Assumptions C16_uc_chr_none.
(* both offsets beyond the last character: uc_chr returns the static "" twice; a fresh empty string *)
Theorem C16_tr_uc_sub_out : forall m b s o beg en d fuel,
  str_at m b s -> nonul s -> (o <= length s)%nat -> (length s < fuel)%nat -> Z.of_nat (length s) < 2147483647 ->
  (G_lit__0 < length m)%nat ->
  uc_chr (skipn o s) beg = None -> uc_chr (skipn o s) en = None ->
  callf cprog fuel (S (S (S (S d)))) F_uc_sub [VPtr b (Z.of_nat o); VInt beg; VInt en] m
  = Ok (VPtr (length m) 0, m ++ [cstr_block (zb [])]).
Proof. exact tr_uc_sub_out. Qed.
Print Assumptions C16_tr_uc_sub_out.
(* exactly one offset beyond the last character: NO clamping -- `sbeg <= send` compares a pointer into the line with the
   static "" (C11 6.5.8p5: undefined); the checked semantics stops with EType *)
Theorem C16_tr_uc_sub_undef : forall m b s o beg en d fuel,
  str_at m b s -> nonul s -> (o <= length s)%nat -> (length s < fuel)%nat -> Z.of_nat (length s) < 2147483647 ->
  b <> G_lit__0 ->
  (uc_chr (skipn o s) beg = None <-> uc_chr (skipn o s) en <> None) ->
  callf cprog fuel (S (S (S (S d)))) F_uc_sub [VPtr b (Z.of_nat o); VInt beg; VInt en] m = Err EType.
Proof. exact tr_uc_sub_undef. Qed.
Print Assumptions C16_tr_uc_sub_undef.

(* uc_cat(s, r): a fresh block holding the concatenation (the two strings may share a block) *)
Theorem C16_tr_uc_cat : forall m b1 s1 o1 b2 s2 o2 d fuel,
  str_at m b1 s1 -> nonul s1 -> (o1 <= length s1)%nat -> str_at m b2 s2 -> nonul s2 -> (o2 <= length s2)%nat ->
  Z.of_nat (length s1 - o1) + Z.of_nat (length s2 - o2) + 1 <= 2147483647 ->
  callf cprog fuel (S d) F_uc_cat [VPtr b1 (Z.of_nat o1); VPtr b2 (Z.of_nat o2)] m
  = Ok (VPtr (length m) 0, m ++ [cstr_block (zb (skipn o1 s1 ++ skipn o2 s2))]).
Proof. exact tr_uc_cat. Qed.
Print Assumptions C16_tr_uc_cat.
(* uc_dup(s): an equal copy in a fresh block *)
Theorem C16_tr_uc_dup : forall (m : CLite.mem) b s o d fuel,
  str_at m b s -> nonul s -> (o <= length s)%nat -> Z.of_nat (length s) <= 2147483647 ->
  callf cprog fuel (S d) F_uc_dup [VPtr b (Z.of_nat o)] m = Ok (VPtr (length m) 0, m ++ [cstr_block (zb (skipn o s))]).
Proof. exact tr_uc_dup. Qed.
Print Assumptions C16_tr_uc_dup.

(* uc_trim(s) (fix a04410e) on a string at the start of an array of any size (vi_msg[512], cmp[64]): one store, s[i] = 0 with
   i = TrUcMem.trim_idx s; the array then holds the C string uc_trim s = firstn i s, the cells behind its terminator keep
   their old contents, no other block changes *)
Theorem C16_tr_uc_trim : forall (m : CLite.mem) b s rest d fuel,
  nth_error m b = Some (cstr_block (zb s) ++ rest) -> nonul s -> (length s < fuel)%nat ->
  Z.of_nat (length s) + 4 <= 2147483647 ->
  callf cprog fuel (S (S d)) F_uc_trim [VPtr b 0] m
  = Ok (VUndef, upd m b (cstr_block (zb (uc_trim s)) ++ skipn (S (trim_idx s)) (cstr_block (zb s) ++ rest))).
Proof. exact tr_uc_trim. Qed.
Print Assumptions C16_tr_uc_trim.
(* which prefix remains: whole characters only (every lead byte followed by all the bytes it announces); either nothing is
   cut or what follows the cut is ONE character announcing more bytes than are left -- fewer than 4 bytes go *)
Theorem C16_uc_trim_spec : forall s, nonul s ->
  let i := trim_idx s in
  uc_trim s = firstn i s /\ (i <= length s)%nat /\ whole (uc_trim s) /\
  (i = length s \/ (length s < i + uc_len (skipn i s))%nat) /\ (length s - i < 4)%nat.
Proof. exact uc_trim_spec. Qed.
Print Assumptions C16_uc_trim_spec.
Theorem C16_uc_trim_whole : forall s, whole s -> trim_idx s = length s /\ uc_trim s = s.
Proof. exact uc_trim_whole. Qed.
Print Assumptions C16_uc_trim_whole.
(* ... and then the call changes nothing at all *)
Theorem C16_tr_uc_trim_whole : forall (m : CLite.mem) b s rest d fuel,
  nth_error m b = Some (cstr_block (zb s) ++ rest) -> nonul s -> whole s -> (length s < fuel)%nat ->
  Z.of_nat (length s) + 4 <= 2147483647 ->
  callf cprog fuel (S (S d)) F_uc_trim [VPtr b 0] m = Ok (VUndef, m).
Proof. exact tr_uc_trim_whole. Qed.
Print Assumptions C16_tr_uc_trim_whole.
(* the model of uc_trim that C05 reasons about (C05_uc_trim_spec, C05_cut_store_spec) is this one *)
Theorem C16_cap_uc_trim_eq : forall s, nonul s -> CapDefs3.uc_trim s = CapDefs.Ok (uc_trim s).
Proof. exact TrUcMemCap.cap_uc_trim_eq. Qed.
Print Assumptions C16_cap_uc_trim_eq.

(* uc_lastline(s): the pointer behind the last '\n', or s *)
Theorem C16_tr_uc_lastline : forall m b s o d fuel, str_at m b s -> nonul s -> (o <= length s)%nat ->
  callf cprog fuel (S d) F_uc_lastline [VPtr b (Z.of_nat o)] m = Ok (VPtr b (Z.of_nat (o + uc_lastline (skipn o s))), m).
Proof. exact tr_uc_lastline. Qed.
Print Assumptions C16_tr_uc_lastline.
Theorem C16_uc_lastline_spec : forall s, let r := uc_lastline s in
  (r <= length s)%nat /\ ~ In 10%N (skipn r s) /\ (r = 0%nat \/ nthb s (r - 1) = 10%N).
Proof. exact uc_lastline_spec. Qed.
Print Assumptions C16_uc_lastline_spec.

(* uc_iscomb(s) = the model's combining test (RenDefs.uc_iscomb, the one C17's cursor / width theorems use) *)
Theorem C16_tr_uc_iscomb : forall m b s o d fuel,
  str_at m b s -> bytes_lt256 s -> (o + uc_len_b (nthb s o) - 1 <= length s)%nat -> (o <= length s)%nat ->
  callf cprog fuel (S (S d)) F_uc_iscomb [VPtr b (Z.of_nat o)] m = Ok (VInt (b2z (RenDefs.uc_iscomb (skipn o s))), m).
Proof. exact TrUcComb.tr_uc_iscomb. Qed.
Print Assumptions C16_tr_uc_iscomb.

(* ---- composed with the code-point theorems: VALID text stays VALID.  eff n z = the character index an int offset stands
   for in a line of n characters (negative = n).  For the encoding of ANY list of scalars cs and offsets inside the line: the
   fresh block holds the encoding of the characters kb .. ke-1 (none when kb > ke), that is valid UTF-8, ke - kb characters *)
Theorem C16_ctext_uc_sub : forall m b cs beg en d fuel,
  Forall scalar cs -> str_at m b (chars cs) -> (length (chars cs) < fuel)%nat -> Z.of_nat (length (chars cs)) < 2147483647 ->
  let kb := eff (length cs) beg in let ke := eff (length cs) en in
  (kb <= length cs)%nat -> (ke <= length cs)%nat ->
  let r := firstn (ke - kb) (skipn kb cs) in
  callf cprog fuel (S (S (S (S d)))) F_uc_sub [VPtr b 0; VInt beg; VInt en] m
  = Ok (VPtr (length m) 0, m ++ [cstr_block (zb (chars r))])
  /\ Forall scalar r /\ valid (chars r) /\ uc_slen (chars r) = (ke - kb)%nat.
Proof. exact ctext_uc_sub. Qed.
Print Assumptions C16_ctext_uc_sub.
Theorem C16_ctext_uc_sub_beyond : forall m b cs beg en d fuel,
  Forall scalar cs -> str_at m b (chars cs) -> (length (chars cs) < fuel)%nat -> Z.of_nat (length (chars cs)) < 2147483647 ->
  b <> G_lit__0 ->
  (Z.of_nat (length cs) < beg <-> en <= Z.of_nat (length cs)) ->
  callf cprog fuel (S (S (S (S d)))) F_uc_sub [VPtr b 0; VInt beg; VInt en] m = Err EType.
Proof. exact ctext_uc_sub_beyond. Qed.
Print Assumptions C16_ctext_uc_sub_beyond.
Theorem C16_ctext_uc_cat : forall m b1 cs1 b2 cs2 d fuel,
  Forall scalar cs1 -> Forall scalar cs2 -> str_at m b1 (chars cs1) -> str_at m b2 (chars cs2) ->
  Z.of_nat (length (chars cs1)) + Z.of_nat (length (chars cs2)) + 1 <= 2147483647 ->
  callf cprog fuel (S d) F_uc_cat [VPtr b1 0; VPtr b2 0] m
  = Ok (VPtr (length m) 0, m ++ [cstr_block (zb (chars (cs1 ++ cs2)))])
  /\ valid (chars (cs1 ++ cs2)) /\ uc_slen (chars (cs1 ++ cs2)) = (length cs1 + length cs2)%nat.
Proof. exact ctext_uc_cat. Qed.
Print Assumptions C16_ctext_uc_cat.
(* uc_trim leaves valid text alone ... *)
Theorem C16_ctext_uc_trim_valid : forall (m : CLite.mem) b cs rest d fuel,
  Forall scalar cs -> nth_error m b = Some (cstr_block (zb (chars cs)) ++ rest) -> (length (chars cs) < fuel)%nat ->
  Z.of_nat (length (chars cs)) + 4 <= 2147483647 ->
  callf cprog fuel (S (S d)) F_uc_trim [VPtr b 0] m = Ok (VUndef, m).
Proof. exact ctext_uc_trim_valid. Qed.
Print Assumptions C16_ctext_uc_trim_valid.
(* ... and repairs what snprintf(buf, k + 1, "%s", line) left of a valid line (its first k bytes, possibly ending inside a
   character): the array then holds the encoding of the first j characters, j the largest count that fits into k bytes *)
Theorem C16_ctext_uc_trim_cut : forall (m : CLite.mem) b cs k rest d fuel,
  Forall scalar cs -> nth_error m b = Some (cstr_block (zb (firstn k (chars cs))) ++ rest) -> (k < fuel)%nat ->
  Z.of_nat k + 4 <= 2147483647 ->
  exists j rest', (j <= length cs)%nat /\ (off_of cs j <= k)%nat /\ (j = length cs \/ (k < off_of cs (S j))%nat) /\
    callf cprog fuel (S (S d)) F_uc_trim [VPtr b 0] m
    = Ok (VUndef, upd m b (cstr_block (zb (chars (firstn j cs))) ++ rest'))
    /\ length (cstr_block (zb (chars (firstn j cs))) ++ rest') = length (cstr_block (zb (firstn k (chars cs))) ++ rest)
    /\ valid (chars (firstn j cs)).
Proof. exact ctext_uc_trim_cut. Qed.
Print Assumptions C16_ctext_uc_trim_cut.

(* non-vacuity, and the interpreter itself run on the translated text: the line "aé€\nx" (block 1; block 0 is the static ""),
   uc_sub cutting at multi-byte characters / with -1 / with beg > end / both offsets beyond / one offset beyond, uc_cat,
   uc_dup, uc_lastline, uc_iscomb on U+064B (an Arabic diacritic), and uc_trim on "a" + the first two bytes of € in an 8-byte array *)
Example C16_tr_mem_nonvacuous :
  let s := [97; 195; 169; 226; 130; 172; 10; 120]%N in
  let m := [cstr_block (zb []); cstr_block (zb s)] in
  let cut := [cstr_block (zb [97; 226; 130]%N) ++ [VInt 7; VUndef; VUndef; VUndef]] in
  str_at m 1 s /\ nonul s /\ UcDefs.uc_sub s 1 3 = Some [195; 169; 226; 130; 172]%N /\
  callf cprog 100 6 F_uc_sub [VPtr 1 0; VInt 1; VInt 3] m = Ok (VPtr 2 0, m ++ [cstr_block (zb [195; 169; 226; 130; 172]%N)]) /\
  callf cprog 100 6 F_uc_sub [VPtr 1 0; VInt 2; VInt (-1)] m = Ok (VPtr 2 0, m ++ [cstr_block (zb [226; 130; 172; 10; 120]%N)]) /\
  callf cprog 100 6 F_uc_sub [VPtr 1 0; VInt 3; VInt 1] m = Ok (VPtr 2 0, m ++ [cstr_block (zb [])]) /\
  callf cprog 100 6 F_uc_sub [VPtr 1 0; VInt 6; VInt 9] m = Ok (VPtr 2 0, m ++ [cstr_block (zb [])]) /\
  callf cprog 100 6 F_uc_sub [VPtr 1 0; VInt 0; VInt 6] m = Err EType /\
  callf cprog 100 6 F_uc_cat [VPtr 1 6; VPtr 1 1] m = Ok (VPtr 2 0, m ++ [cstr_block (zb [10; 120; 195; 169; 226; 130; 172; 10; 120]%N)]) /\
  callf cprog 100 6 F_uc_dup [VPtr 1 3] m = Ok (VPtr 2 0, m ++ [cstr_block (zb [226; 130; 172; 10; 120]%N)]) /\
  callf cprog 100 6 F_uc_lastline [VPtr 1 0] m = Ok (VPtr 1 7, m) /\ uc_lastline s = 7%nat /\
  callf cprog 100 6 F_uc_iscomb [VPtr 0 0] [cstr_block (zb [217; 139]%N)] = Ok (VInt 1, [cstr_block (zb [217; 139]%N)]) /\
  RenDefs.uc_iscomb [217; 139]%N = true /\
  callf cprog 100 6 F_uc_trim [VPtr 0 0] cut = Ok (VUndef, [cstr_block (zb [97]%N) ++ [VInt 130; VInt 0; VInt 7; VUndef; VUndef; VUndef]]) /\
  uc_trim [97; 226; 130]%N = [97]%N /\ whole [97; 226; 130; 172]%N /\ ~ whole [97; 226; 130]%N.
Proof.
  cbv zeta. split; [reflexivity|]. split; [repeat constructor; cbv; intuition discriminate|].
  split; [vm_compute; reflexivity|].
  repeat (split; [vm_compute; reflexivity|]).
  split.
  - apply whole_cons; [discriminate|vm_compute; lia|]. apply whole_cons; [discriminate|vm_compute; lia|]. constructor.
  - intro W. inversion W as [|t Hne Hl W' Et]. subst t. vm_compute in W'.
    inversion W' as [|t' Hne' Hl' W'' Et']. subst t'. vm_compute in Hl'. lia.
Qed.

(* uc_sub for every pair of offsets for which the C text is defined, in one statement: UcMemDefs.uc_sub_t (the model the check
   runs against the compiled uc.c) = UcDefs.uc_sub where both offsets resolve, the empty string where neither does *)
Theorem C16_tr_uc_sub_total : forall m b s o beg en t d fuel,
  str_at m b s -> nonul s -> (o <= length s)%nat -> (length s < fuel)%nat -> Z.of_nat (length s) < 2147483647 ->
  (G_lit__0 < length m)%nat ->
  uc_sub_t (skipn o s) beg en = Some t ->
  callf cprog fuel (S (S (S (S d)))) F_uc_sub [VPtr b (Z.of_nat o); VInt beg; VInt en] m
  = Ok (VPtr (length m) 0, m ++ [cstr_block (zb t)]).
Proof. exact tr_uc_sub_total. Qed.
Print Assumptions C16_tr_uc_sub_total.

(* s == NULL (lbuf_get on an empty buffer -- vi.c does call uc_sub with it): a fresh empty string *)
Theorem C16_tr_uc_sub_null : forall m beg en d fuel, (0 < fuel)%nat -> (G_lit__0 < length m)%nat ->
  callf cprog fuel (S (S d)) F_uc_sub [VInt 0; VInt beg; VInt en] m = Ok (VPtr (length m) 0, m ++ [cstr_block (zb [])]).
Proof. exact tr_uc_sub_null. Qed.
Print Assumptions C16_tr_uc_sub_null.
