(* ExUndoBufs.v -- C04 over SEVERAL buffers (the multi-buffer version of C04_ex_command_is_one_step).

   Part 1 (any payload): what bufs_switch does to the command counters -- the buffer that is left (slot 0) is bumped
   exactly once and lands in slot 1 (slot 0 if idx = 0), the buffer entered and every other buffer keep their line
   buffer unchanged, whatever slot the rotation moves them to (switch_bumps_left).
   Part 2 (any payload with predicates ok / closed): the IN-LINE invariant "the current buffer is ok, every other buffer
   of the table is closed (at an undo-step boundary)" is kept by every command of BufsDefs.ex_exec, and the closing
   lbuf_modified of ex_command closes the current one: after every command LINE every buffer of the table is closed,
   whatever slot it sits in (line_closes_all).
   Part 3 (payload = UndoDefs.lbuf, the edit log of lbuf.c): closed = the log refines an undo stack all of whose keys are
   below the buffer's command counter.  Edits on a closed buffer followed by one bump are exactly ONE undo step
   (closed_edits_one_step), hence: after any script, a command line that enters a buffer in any way and then edits
   it, followed by `u`, gives back the text the buffer had when it was entered (bufs_command_is_one_step). *)
From Coq Require Import List ZArith NArith Bool Lia Arith Permutation.
From NV Require Import GenConsts BufsDefs BufsProps BufsWf BufsReach.
Import ListNotations.

(* ------------------------------------------------------------------------------------------------------------- *)
Section Table.
Context {L Op Out : Type}.
Variable Lo : lops L Op Out.
Notation buf := (buf L).
Notation slot := (slot L).
Notation st := (st L).
Notation bump := (bump Lo).

(* where slot j goes when slot idx is brought to the front *)
Definition dest (idx j : nat) : nat := if Nat.eqb j idx then 0%nat else if Nat.ltb j idx then S j else j.

Lemma saved_nth_0 (s : st) b : nth_error (bufs s) 0 = Some (Some b) ->
  nth_error (saved Lo s) 0 = Some (Some (bump (set_view b (xv s)))).
Proof. unfold saved. destruct (bufs s) as [|x r]; [discriminate|]. cbn. intro H. inversion H. reflexivity. Qed.

(* Part 1 *)
Theorem switch_bumps_left (s : st) idx j b bi : nth_error (bufs s) idx = Some (Some bi) -> nth_error (bufs s) j = Some (Some b) ->
  exists b', nth_error (bufs (bufs_switch Lo s idx)) (dest idx j) = Some (Some b') /\
             b_id b' = b_id b /\ b_path b' = b_path b /\
             b_lb b' = (if Nat.eqb j 0 then fst (lb_modified Lo (b_lb b)) else b_lb b).
Proof.
  intros Hi Hj. rewrite switch_bufs.
  assert (Sj : exists b', nth_error (saved Lo s) j = Some (Some b') /\ b_id b' = b_id b /\ b_path b' = b_path b /\
                          b_lb b' = (if Nat.eqb j 0 then fst (lb_modified Lo (b_lb b)) else b_lb b)).
  { destruct j as [|j].
    - exists (bump (set_view b (xv s))). split; [apply saved_nth_0; exact Hj|]. cbn. auto.
    - exists b. rewrite saved_tail by lia. cbn. auto. }
  destruct Sj as (b' & Sj & P).
  assert (Si : exists x, nth_error (saved Lo s) idx = Some x).
  { destruct (nth_error (saved Lo s) idx) eqn:E; [eauto|]. apply nth_error_None in E. rewrite saved_length in E.
    assert (idx < length (bufs s))%nat by (apply nth_error_Some; congruence). lia. }
  destruct Si as [x Si]. exists b'. split; [|exact P]. unfold dest.
  destruct (Nat.eqb j idx) eqn:E1.
  - apply Nat.eqb_eq in E1. subst j. rewrite (switch_nth0 _ _ _ Si). rewrite Si in Sj. exact Sj.
  - apply Nat.eqb_neq in E1. destruct (Nat.ltb j idx) eqn:E2.
    + apply Nat.ltb_lt in E2. rewrite (switch_nth_lt _ _ _ _ Si E2). exact Sj.
    + apply Nat.ltb_ge in E2. rewrite (switch_nth_gt _ _ _ _ Si) by lia. exact Sj.
Qed.

(* the destinations are pairwise distinct: no two buffers land in the same slot *)
Lemma dest_inj idx j k : dest idx j = dest idx k -> j = k.
Proof.
  unfold dest. destruct (Nat.eqb_spec j idx), (Nat.eqb_spec k idx), (Nat.ltb_spec j idx), (Nat.ltb_spec k idx); lia.
Qed.

(* ------------------------------------------------------------------------------------------------------------- *)
(* Part 2 *)
Variables ok closed : L -> Prop.
Hypothesis closed_ok : forall l, closed l -> ok l.
Hypothesis bump_closes : forall l, ok l -> closed (fst (lb_modified Lo l)).
Hypothesis make_closed : closed (lb_make Lo).
Hypothesis rd_ok : forall c l, ok l -> ok (lb_rd Lo c l).
Hypothesis saved_closes : forall clear l, ok l -> closed (lb_saved Lo clear l).
Hypothesis op_ok : forall o l v, ok l -> ok (fst (fst (lb_op Lo o l v))).

Definition sl (P : L -> Prop) (x : slot) : Prop := match x with Some b => P (b_lb b) | None => True end.
(* the current buffer satisfies P0, all the others are closed *)
Definition inl (P0 : L -> Prop) (l : list slot) : Prop :=
  match l with [] => True | x :: r => sl P0 x /\ Forall (sl closed) r end.
Definition all_closed (l : list slot) : Prop := Forall (sl closed) l.

Lemma inl_all l : inl closed l <-> all_closed l.
Proof. unfold all_closed. destruct l as [|x r]; cbn; [split; auto|]. split; [intros [A B]; constructor; auto | intro H; inversion H; auto]. Qed.

Section P0.
Variable P0 : L -> Prop.
Hypothesis HP1 : forall l, closed l -> P0 l.
Hypothesis HP2 : forall l, P0 l -> ok l.

Lemma sl_weaken x : sl closed x -> sl P0 x. Proof. destruct x; cbn; auto. Qed.
Lemma inl_weaken l : inl closed l -> inl P0 l.
Proof. destruct l as [|x r]; cbn; [auto|]. intros [A B]. split; [apply sl_weaken; exact A | exact B]. Qed.
Lemma all_inl l : all_closed l -> inl P0 l. Proof. intro H. apply inl_weaken, inl_all, H. Qed.

Lemma P0_bump l : P0 l -> closed (fst (lb_modified Lo l)). Proof. intro H. apply bump_closes, HP2, H. Qed.

Lemma saved_all s : inl P0 (bufs s) -> all_closed (saved Lo s).
Proof.
  unfold saved, all_closed. destruct (bufs s) as [|x r]; cbn; [constructor|]. intros [A B]. constructor; [|exact B].
  destruct x as [b|]; cbn; [|exact I]. apply P0_bump, A.
Qed.
Lemma switch_all (l : list slot) idx : all_closed l -> all_closed (switch l idx).
Proof. unfold all_closed. intro H. eapply Permutation_Forall; [apply Permutation_sym, switch_perm | exact H]. Qed.
Lemma switch_closed s idx : inl P0 (bufs s) -> all_closed (bufs (bufs_switch Lo s idx)).
Proof. intro H. rewrite switch_bufs. apply switch_all, saved_all, H. Qed.

Lemma inl_set_nth l i x : inl P0 l -> sl closed x -> inl P0 (set_nth l i x).
Proof.
  destruct l as [|y r]; [destruct i; cbn; auto|]. cbn [inl]. intros [A B] C. destruct i as [|i]; cbn [set_nth inl].
  - split; [apply sl_weaken, C | exact B].
  - split; [exact A | apply Forall_set_nth; assumption].
Qed.
Lemma inl_upd0 l f : inl P0 l -> (forall b, P0 (b_lb b) -> P0 (b_lb (f b))) -> inl P0 (upd0 f l).
Proof. destruct l as [|x r]; cbn; [auto|]. intros [A B] H. split; [|exact B]. destruct x as [b|]; cbn; auto. Qed.

Lemma modified_inl s i : inl P0 (bufs s) -> inl P0 (bufs (fst (bufs_modified Lo s i))).
Proof.
  intro H. unfold bufs_modified. destruct (nth_error (bufs s) i) as [[b|]|] eqn:E; cbn [fst]; try exact H.
  cbn [bufs set_bufs]. apply inl_set_nth; [exact H|]. cbn.
  destruct (bufs s) as [|x r] eqn:Eb; [destruct i; discriminate|]. destruct H as [A B]. destruct i as [|i]; cbn in E.
  - inversion E; subst x. apply P0_bump, A.
  - apply bump_closes, closed_ok. apply nth_error_In in E. rewrite Forall_forall in B. apply (B _ E).
Qed.

Lemma load_bufs (s : st) : bufs (bufs_load s) = bufs s.
Proof. unfold bufs_load. destruct (slot0 s); reflexivity. Qed.

Lemma init_inl s idx p : inl P0 (bufs s) -> inl P0 (bufs (bufs_init Lo s idx p)).
Proof. intro H. unfold bufs_init. cbn [bufs set_cnt set_bufs]. apply inl_set_nth; [exact H|]. cbn. exact make_closed. Qed.

Lemma edit_read_closed s named : inl P0 (bufs s) -> all_closed (bufs (fst (edit_read Lo s named))).
Proof.
  intro H. unfold edit_read. destruct (slot0 s) as [b|] eqn:E; cbn [fst].
  - cbn [bufs set_xv set_bufs]. unfold slot0 in E. destruct (bufs s) as [|x r]; [discriminate|]. subst x. destruct H as [A B]. cbn in A.
    cbn [upd0 upd_slot]. constructor; [|exact B]. cbn. apply saved_closes.
    destruct (fs_get (fs s) (b_path b)); [apply rd_ok|]; apply HP2, A.
  - unfold slot0 in E. apply inl_all. destruct (bufs s) as [|x r]; [exact I|]. subst x. destruct H as [_ B]. split; [exact I | exact B].
Qed.

End P0.

Lemma find_or_open_closed (P0 : L -> Prop) : True. Proof. exact I. Qed.

Section P0b.
Variable P0 : L -> Prop.
Hypothesis HP1 : forall l, closed l -> P0 l.
Hypothesis HP2 : forall l, P0 l -> ok l.

Lemma edit_inl s bang ew a : inl P0 (bufs s) -> inl P0 (bufs (fst (fst (ec_edit Lo s bang ew a)))).
Proof.
  intro H. unfold ec_edit.
  assert (P : inl P0 (bufs (fst (if bang || xwa s then (s, false) else bufs_modified Lo s 0)))).
  { destruct (bang || xwa s); [exact H | apply modified_inl; assumption]. }
  destruct (if bang || xwa s then (s, false) else bufs_modified Lo s 0) as [s0 refused]. cbn [fst] in P.
  destruct refused; cbn [fst]; [exact P|]. destruct (pathexpand s0 a) as [p|]; cbn [fst]; [|exact P].
  set (nonempty := match p with [] => false | _ => true end).
  set (s1 := if nonempty && ew then match bufs_find s0 p with Some i => if (1 <? i)%nat then bufs_switch Lo s0 1 else s0 | None => s0 end else s0).
  assert (P1 : inl P0 (bufs s1)).
  { unfold s1. destruct (nonempty && ew); [|exact P]. destruct (bufs_find s0 p) as [i|]; [|exact P]. destruct (1 <? i)%nat; [|exact P].
    apply all_inl; [assumption|]. apply (switch_closed P0); assumption. }
  clearbody s1. destruct (if nonempty then bufs_find s1 p else None) as [i|]; cbn [fst].
  - apply all_inl; [assumption|]. apply (switch_closed P0); assumption.
  - set (s2 := if nonempty || is_free (slot0 s1) then let (s', idx) := bufs_open Lo s1 p in bufs_switch Lo s' idx else s1).
    assert (P2 : inl P0 (bufs s2)).
    { unfold s2. destruct (nonempty || is_free (slot0 s1)); [|exact P1]. unfold bufs_open.
      apply all_inl; [assumption|]. apply (switch_closed P0); [assumption|]. apply init_inl; assumption. }
    clearbody s2. pose proof (edit_read_closed P0 HP2 s2 nonempty P2) as W. destruct (edit_read Lo s2 nonempty). cbn [fst] in *.
    apply all_inl; assumption.
Qed.

Lemma next_inl s dis : inl P0 (bufs s) -> inl P0 (bufs (fst (ex_next Lo s dis))).
Proof.
  intro H. unfold ex_next. generalize (match nth_path (args s) (next_pos s) with Some _ => (next_pos s + dis)%Z | None => (-1)%Z end). intro idx.
  destruct (nth_path (args s) idx) as [p|]; [|exact H].
  pose proof (edit_inl s false false (PLit p) H) as W. destruct (ec_edit Lo s false false (PLit p)) as [[s1 evs] k]. cbn [fst] in *.
  destruct k; exact W.
Qed.

Lemma goto_inl s idx : inl P0 (bufs s) -> inl P0 (bufs (fst (buffer_goto Lo s idx))).
Proof.
  intro H. unfold buffer_goto. destruct idx as [i|]; [|exact H]. destruct (occupied s i); [|exact H].
  destruct (xwa s); cbn [fst]; [apply all_inl; [assumption|]; apply (switch_closed P0); assumption|].
  pose proof (modified_inl P0 HP1 HP2 s 0 H) as W. destruct (bufs_modified Lo s 0) as [s1 d]. cbn [fst] in W. destruct d; cbn [fst]; [exact W|].
  apply all_inl; [assumption|]. apply (switch_closed P0); assumption.
Qed.

Lemma quit_walk_inl : forall n s i, inl P0 (bufs s) -> inl P0 (bufs (fst (quit_walk Lo s i n))).
Proof.
  induction n as [|n IH]; intros s i H; cbn [quit_walk fst]; [exact H|].
  pose proof (modified_inl P0 HP1 HP2 s i H) as W. destruct (bufs_modified Lo s i) as [s1 d]. cbn [fst] in W. destruct d; cbn [fst]; [|apply IH; exact W].
  apply all_inl; [assumption|]. apply (switch_closed P0); assumption.
Qed.

Lemma walk_sl (P : L -> Prop) : (forall l, P l -> P (fst (lb_modified Lo l))) ->
  forall (l : list slot) i, Forall (sl P) l -> Forall (sl P) (fst (list_walk Lo l i)).
Proof.
  intros HB. induction l as [|[b|] r IH]; intros i H; cbn [list_walk]; try exact H.
  inversion H; subst. specialize (IH (S i) H3). destruct (list_walk Lo r (S i)) as [r' es]. cbn [fst] in *.
  constructor; [cbn; apply HB; assumption | exact IH].
Qed.
Lemma list_inl l i : inl P0 l -> inl P0 (fst (list_walk Lo l i)).
Proof.
  destruct l as [|[b|] r]; cbn [list_walk]; try (intro H; exact H). intros [A B].
  pose proof (walk_sl closed (fun l H => bump_closes l (closed_ok l H)) r (S i) B) as W.
  destruct (list_walk Lo r (S i)) as [r' es]. cbn [fst] in *. split; [cbn; apply HP1, bump_closes, HP2, A | exact W].
Qed.

Lemma renum_sl (P : L -> Prop) : forall (l : list slot) n, Forall (sl P) l -> Forall (sl P) (fst (renum l n)).
Proof.
  induction l as [|[b|] r IH]; intros n H; cbn [renum]; [exact H| |]; inversion H; subst.
  - specialize (IH (n + 1)%Z H3). destruct (renum r (n + 1)) as [r' n']. cbn [fst] in *. constructor; [exact H2 | exact IH].
  - specialize (IH n H3). destruct (renum r n) as [r' n']. cbn [fst] in *. constructor; [exact I | exact IH].
Qed.
Lemma renum_inl l n : inl P0 l -> inl P0 (fst (renum l n)).
Proof.
  destruct l as [|[b|] r]; cbn [renum]; [auto| |]; intros [A B].
  - pose proof (renum_sl closed r (n + 1)%Z B) as W. destruct (renum r (n + 1)) as [r' n']. cbn [fst] in *. split; [exact A | exact W].
  - pose proof (renum_sl closed r n B) as W. destruct (renum r n) as [r' n']. cbn [fst] in *. split; [exact I | exact W].
Qed.

Lemma shift_closed (s : st) : inl P0 (bufs s) -> all_closed (bufs (bufs_shift s)).
Proof.
  intro H. unfold bufs_shift. rewrite load_bufs. cbn [bufs set_bufs]. unfold all_closed. apply Forall_app. split; [|constructor; [exact I | constructor]].
  destruct (bufs s) as [|x r]; [constructor|]. destruct H as [_ B]. exact B.
Qed.

(* every command except an operation on the current buffer keeps "current P0, others closed" *)
Theorem exec_noop_inl s c : (forall o, c <> COp o) -> inl P0 (bufs s) -> inl P0 (bufs (fst (ex_exec Lo s c))).
Proof.
  intros NO H. destruct c; cbn [ex_exec].
  - pose proof (edit_inl s bang ew a H) as W. destruct (ec_edit Lo s bang ew a) as [[s1 evs] k]. exact W.
  - unfold ec_buffer_list. pose proof (list_inl (bufs s) 0 H) as W. destruct (list_walk Lo (bufs s) 0) as [l es]. exact W.
  - unfold ec_buffer_del. cbn [fst]. pose proof (shift_closed s H) as W. destruct (slot0 (bufs_shift s)); [apply all_inl; assumption|].
    apply init_inl; [assumption|]. apply all_inl; assumption.
  - unfold ec_buffer_renum, bufs_number. cbn [fst]. pose proof (renum_inl (bufs s) 0 H) as W. destruct (renum (bufs s) 0) as [l n]. exact W.
  - apply goto_inl. exact H.
  - apply goto_inl. exact H.
  - apply goto_inl. exact H.
  - apply goto_inl. exact H.
  - apply next_inl. exact H.
  - apply next_inl. exact H.
  - unfold ec_quit. destruct bang; [exact H|]. pose proof (quit_walk_inl NB s 0 H) as W. destruct (quit_walk Lo s 0 NB) as [s1 f]. cbn [fst] in *.
    destruct f; exact W.
  - unfold ec_write. destruct (slot0 s) as [b|] eqn:E; [|exact H].
    destruct (negb bang && _); [exact H|]. destruct (negb bang && _ && _); [exact H|].
    destruct (match p with Some q => q | None => b_path b end) eqn:Ep; [exact H|]. cbn [fst].
    assert (W : forall b2, (b_lb b2 = b_lb b \/ exists c, b_lb b2 = lb_saved Lo c (b_lb b)) -> inl P0 (upd0 (fun _ => b2) (bufs s))).
    { intros b2 Hb2. unfold slot0 in E. destruct (bufs s) as [|x r]; [discriminate|]. subst x. destruct H as [A B]. cbn in A. cbn. split; [|exact B].
      destruct Hb2 as [->|[c ->]]; [exact A | apply HP1, saved_closes, HP2, A]. }
    destruct (b_path b); cbn [bufs set_pct set_fs set_bufs]; apply W; repeat match goal with |- context [if ?c then _ else _] => destruct c end; cbn; eauto.
  - exact H.
  - exfalso. apply (NO o). reflexivity.
Qed.

End P0b.

(* Part 2, main statements *)
Theorem exec_inl s c : inl ok (bufs s) -> inl ok (bufs (fst (ex_exec Lo s c))).
Proof.
  intro H. destruct c; try (apply (exec_noop_inl ok closed_ok (fun l h => h)); [discriminate | exact H]).
  cbn [ex_exec]. unfold ec_op. destruct (slot0 s) as [b0|] eqn:E; [|exact H].
  pose proof (op_ok o (b_lb b0) (xv s)) as W. destruct (lb_op Lo o (b_lb b0) (xv s)) as [[lb' v'] out]. cbn [fst] in *.
  cbn [bufs set_xv set_bufs]. unfold slot0 in E. destruct (bufs s) as [|x r]; [discriminate|]. subst x. destruct H as [A B]. cbn. split; [apply W, A | exact B].
Qed.
Theorem exec_closed s c : (forall o, c <> COp o) -> all_closed (bufs s) -> all_closed (bufs (fst (ex_exec Lo s c))).
Proof. intros NO H. apply inl_all. apply (exec_noop_inl closed (fun l h => h) closed_ok); [exact NO | apply inl_all, H]. Qed.

Lemma exec_all_inl : forall cs s, inl ok (bufs s) -> inl ok (bufs (fst (exec_all Lo s cs))).
Proof.
  induction cs as [|c r IH]; intros s H; [exact H|]. rewrite exec_all_cons. apply IH, exec_inl, H.
Qed.
Lemma exec_all_closed : forall cs s, Forall (fun c => forall o, c <> COp o) cs -> all_closed (bufs s) -> all_closed (bufs (fst (exec_all Lo s cs))).
Proof.
  induction cs as [|c r IH]; intros s F H; [exact H|]. inversion F; subst. rewrite exec_all_cons. apply IH; [assumption|]. apply exec_closed; assumption.
Qed.

(* the closing lbuf_modified(xb) of ex_command closes the current buffer: after a command LINE every buffer is closed *)
Theorem line_closes_all s cs : inl ok (bufs s) -> all_closed (bufs (fst (ex_line Lo s cs))).
Proof.
  intro H. rewrite line_of_exec_all. cbn [bufs set_bufs]. pose proof (exec_all_inl cs s H) as W.
  destruct (bufs (fst (exec_all Lo s cs))) as [|x r]; [constructor|]. destruct W as [A B]. constructor; [|exact B].
  destruct x as [b|]; cbn; [apply bump_closes, A | exact I].
Qed.
Theorem lines_close_all : forall ls s, all_closed (bufs s) -> all_closed (bufs (run_lines Lo s ls)).
Proof.
  induction ls as [|l r IH]; intros s H; [exact H|]. cbn [run_lines]. destruct (xquit s); [exact H|]. apply IH, line_closes_all, all_inl; auto.
Qed.
Theorem init_closed files argv : all_closed (bufs (fst (ex_init Lo files argv))).
Proof.
  unfold ex_init. set (a := match match argv with [] => [] | q :: _ => q end with [] => PNone | _ :: _ => PLit _ end).
  assert (W : inl closed (bufs (init_st files argv))).
  { apply inl_all. unfold init_st, all_closed. cbn [bufs]. apply Forall_forall. intros x Hx. apply repeat_spec in Hx. subst x. exact I. }
  pose proof (edit_inl closed (fun l h => h) closed_ok _ false false a W) as W2.
  destruct (ec_edit Lo (init_st files argv) false false a) as [[s1 evs] k]. cbn [fst] in *. apply inl_all, W2.
Qed.

End Table.

Section Table2.
Context {L Op Out : Type}.
Variable Lo : lops L Op Out.
Lemma exec_all_app : forall a b (s : st L), fst (exec_all Lo s (a ++ b)) = fst (exec_all Lo (fst (exec_all Lo s a)) b).
Proof. induction a as [|c a IH]; intros b s; [reflexivity|]. cbn [app]. rewrite !exec_all_cons. apply IH. Qed.
Lemma op_slot0 (s : st L) o b : slot0 s = Some b ->
  slot0 (fst (ex_exec Lo s (COp o))) = Some (set_lb b (fst (fst (lb_op Lo o (b_lb b) (xv s))))).
Proof.
  intro E. cbn [ex_exec]. unfold ec_op. rewrite E. destruct (lb_op Lo o (b_lb b) (xv s)) as [[lb' v'] out]. cbn [fst].
  unfold slot0 in *. cbn [bufs set_xv set_bufs]. destruct (bufs s) as [|x r]; [discriminate|]. subst x. reflexivity.
Qed.
Lemma line_slot0 (s : st L) cs b : slot0 (fst (exec_all Lo s cs)) = Some b -> slot0 (fst (ex_line Lo s cs)) = Some (BufsDefs.bump Lo b).
Proof.
  intro E. rewrite line_of_exec_all. unfold slot0 in *. cbn [bufs set_bufs]. destruct (bufs (fst (exec_all Lo s cs))) as [|x r]; [discriminate|]. subst x. reflexivity.
Qed.
Lemma line1_op_slot0 (s : st L) o b : slot0 s = Some b ->
  slot0 (fst (ex_line Lo s [COp o])) = Some (BufsDefs.bump Lo (set_lb b (fst (fst (lb_op Lo o (b_lb b) (xv s)))))).
Proof. intro E. apply line_slot0. cbn [exec_all]. pose proof (op_slot0 s o b E) as O. destruct (ex_exec Lo s (COp o)) as [sx ex]. exact O. Qed.
End Table2.

(* ------------------------------------------------------------------------------------------------------------- *)
(* Part 3: the payload is the edit log of lbuf.c *)
From NV Require UndoDefs UndoProps UndoBufsDefs ExUndo.
Module U := UndoDefs.
Module UP := UndoProps.
Module UB := UndoBufsDefs.

(* the log refines an undo stack whose keys are at most / strictly below the command counter of the buffer:
   closed = the next edit starts a new undo step *)
Definition ok_lb (l : U.lbuf) : Prop := exists sp, UP.R l sp /\ ExUndo.keys_le sp.
Definition closed_lb (l : U.lbuf) : Prop := exists sp, UP.R l sp /\ ExUndo.keys_lt sp.

Lemma lt_le sp : ExUndo.keys_lt sp -> ExUndo.keys_le sp.
Proof. intros [A B]. split; (eapply Forall_impl; [|eassumption]); cbn; intros; lia. Qed.
Lemma le_bump sp : ExUndo.keys_le sp -> ExUndo.keys_lt (fst (U.spec_op sp U.Bump)).
Proof. intros [A B]. split; cbn [U.spec_op fst U.past U.future U.cmdno]; (eapply Forall_impl; [|eassumption]); cbn; intros; lia. Qed.

Lemma kle_step sp o : ExUndo.keys_le sp -> ExUndo.keys_le (fst (U.spec_op sp o)).
Proof.
  intros [P Fu]. destruct o; cbn [U.spec_op].
  - destruct (U.edit_noop _ _ _ _); [split; assumption|]. split; cbn [fst U.past U.future U.cmdno]; [|constructor].
    unfold U.push_past. destruct (U.past sp) as [|[q x] r] eqn:E; [constructor; [cbn; lia | constructor]|].
    destruct (Z.eqb q (U.cmdno sp)); [exact P | constructor; [cbn; lia | exact P]].
  - split; cbn [fst U.past U.future U.cmdno]; (eapply Forall_impl; [|eassumption]); cbn; intros; lia.
  - destruct (U.past sp) as [|[q t] p] eqn:E; [cbn [fst]; split; [rewrite E; constructor | exact Fu]|].
    inversion P; subst. split; cbn [fst U.past U.future U.cmdno]; [assumption | constructor; assumption].
  - destruct (U.future sp) as [|[q t] p] eqn:E; [cbn [fst]; split; [exact P | rewrite E; constructor]|].
    inversion Fu; subst. split; cbn [fst U.past U.future U.cmdno]; [constructor; assumption | assumption].
Qed.

Lemma R_ext l l' sp : U.ln l' = U.ln l -> U.hist l' = U.hist l -> U.hist_u l' = U.hist_u l -> U.useq l' = U.useq l -> UP.R l sp -> UP.R l' sp.
Proof.
  destruct l, l'. cbn. intros -> -> -> ->. unfold UP.R, UP.Inv. cbn. auto.
Qed.

Lemma ok_closed_lb l : closed_lb l -> ok_lb l.
Proof. intros (sp & A & B). exists sp. split; [exact A | apply lt_le, B]. Qed.
Lemma ok_bump l : ok_lb l -> closed_lb (fst (U.lbuf_modified l)).
Proof. intros (sp & A & B). exists (fst (U.spec_op sp U.Bump)). split; [apply (UP.R_bump l sp A) | apply le_bump, B]. Qed.
Lemma make_closed_lb : closed_lb U.lbuf_make.
Proof.
  exists (U.ustack_init [] 1). split; [|split; constructor]. change U.lbuf_make with (U.lbuf_loaded [] 1). apply UP.R_init. constructor.
Qed.
Lemma ok_step l o : ok_lb l -> ok_lb (fst (U.run_op l o)).
Proof. intros (sp & A & B). exists (fst (U.spec_op sp o)). split; [apply (proj1 (UP.R_step l sp o A)) | apply kle_step, B]. Qed.
Lemma ok_ops ops : forall l, ok_lb l -> ok_lb (U.run_ops l ops).
Proof. induction ops as [|o ops IH]; intros l H; [exact H|]. cbn [U.run_ops]. apply IH, ok_step, H. Qed.
Lemma ok_saved clear l : ok_lb l -> closed_lb (U.lbuf_saved l clear).
Proof.
  intros (sp & A & B). unfold U.lbuf_saved.
  set (l1 := if clear then U.clear_hist l else l).
  assert (H1 : ok_lb l1).
  { unfold l1. destruct clear; [|exists sp; auto]. exists (U.ustack_init (U.ln l) (U.useq l)). split; [|split; constructor].
    destruct A as (g0 & (_ & _ & _ & W) & _).
    apply (R_ext (U.lbuf_loaded (U.ln l) (U.useq l))); try reflexivity. apply UP.R_init, W. }
  assert (H2 : ok_lb (U.set_zero l1 (U.lbuf_seq l1))).
  { destruct H1 as (sp1 & A1 & B1). exists sp1. split; [|exact B1]. apply (R_ext l1); try reflexivity. exact A1. }
  apply (ok_bump _ H2).
Qed.

(* Part 2 instantiated *)
Definition u_all_closed (s : UB.ust) : Prop := all_closed closed_lb (bufs s).

Lemma u_lines_eq : forall ls s, UB.u_lines s ls = run_lines UB.uops s ls.
Proof. induction ls as [|l r IH]; intro s; [reflexivity|]. cbn [UB.u_lines run_lines]. destruct (xquit s); [reflexivity|]. apply IH. Qed.

Theorem u_init_closed files argv : u_all_closed (fst (UB.u_init files argv)).
Proof.
  apply (init_closed UB.uops ok_lb closed_lb ok_closed_lb ok_bump make_closed_lb); intros; cbn.
  - apply (ok_step l (U.Edit _ _ _)). assumption.
  - apply ok_saved. assumption.
Qed.
Theorem u_line_closes s cs : u_all_closed s -> u_all_closed (fst (UB.u_line s cs)).
Proof.
  intro H. apply (line_closes_all UB.uops ok_lb closed_lb ok_closed_lb ok_bump make_closed_lb); intros; cbn.
  - apply (ok_step l (U.Edit _ _ _)). assumption.
  - apply ok_saved. assumption.
  - apply ok_ops. assumption.
  - apply all_inl; [exact ok_closed_lb | exact H].
Qed.
Theorem u_lines_close : forall ls s, u_all_closed s -> u_all_closed (UB.u_lines s ls).
Proof. induction ls as [|l r IH]; intros s H; [exact H|]. cbn [UB.u_lines]. destruct (xquit s); [exact H|]. apply IH, u_line_closes, H. Qed.
Theorem u_script_closed files argv ls : u_all_closed (UB.u_lines (fst (UB.u_init files argv)) ls).
Proof. apply u_lines_close, u_init_closed. Qed.
Theorem u_exec_all_closed cs s : Forall (fun c => UB.is_op c = false) cs -> u_all_closed s -> u_all_closed (fst (UB.u_exec_all s cs)).
Proof.
  intros F H. apply (exec_all_closed UB.uops ok_lb closed_lb ok_closed_lb ok_bump make_closed_lb); intros; cbn; try assumption.
  - apply (ok_step l (U.Edit _ _ _)). assumption.
  - apply ok_saved. assumption.
  - eapply Forall_impl; [|exact F]. intros c Hc o ->. discriminate Hc.
Qed.

(* edits on a closed buffer, then one bump: exactly one undo step *)
Theorem closed_edits_one_step l es : closed_lb l ->
  let l1 := U.run_ops l (map UP.mk_edit es ++ [U.Bump]) in
  closed_lb l1 /\
  (U.ln l1 <> U.ln l -> exists l2, U.lbuf_undo l1 = Some l2 /\ U.ln l2 = U.ln l).
Proof.
  intros (sp & R & K) l1.
  pose proof (UP.R_ops l sp (map UP.mk_edit es ++ [U.Bump]) R) as R1. fold l1 in R1.
  split.
  { assert (O : ok_lb (U.run_ops l (map UP.mk_edit es))) by (apply ok_ops; exists sp; split; [exact R | apply lt_le, K]).
    unfold l1. rewrite ExUndo.run_ops_app. cbn [U.run_ops]. apply (ok_bump _ O). }
  intro NE.
  rewrite <- (ExUndo.slast_fst _ sp true), UP.spec_edits in R1. cbn [fst] in R1.
  pose proof (UP.R_cur _ _ R) as C. pose proof (UP.R_cur _ _ R1) as C1.
  destruct (fst (U.apply_edits es (U.cur sp))) eqn:CH.
  2:{ exfalso. apply NE. rewrite <- C, <- C1. reflexivity. }
  assert (P : U.push_past sp = (U.cmdno sp, U.cur sp) :: U.past sp).
  { destruct K as [K _]. unfold U.push_past. destruct (U.past sp) as [|[q x] r]; [reflexivity|]. inversion K; subst. cbn [fst] in *.
    replace (Z.eqb q (U.cmdno sp)) with false by (symmetry; apply Z.eqb_neq; lia). reflexivity. }
  rewrite P in R1.
  destruct (UP.R_undo _ _ R1) as [R2 OK]. cbn [U.spec_op U.past fst snd] in R2, OK. cbn [U.run_op] in R2, OK.
  destruct (U.lbuf_undo l1) as [l2|]; [|discriminate]. exists l2. split; [reflexivity|]. cbn [fst] in R2.
  pose proof (UP.R_cur _ _ R2) as C2. cbn [U.cur] in C2. rewrite <- C2. exact C.
Qed.

Lemma closed_at0 (s : UB.ust) b : u_all_closed s -> slot0 s = Some b -> closed_lb (b_lb b).
Proof.
  unfold u_all_closed, all_closed, slot0. destruct (bufs s) as [|x r]; [discriminate|]. intros H ->. inversion H; subst. assumption.
Qed.

(* a command line that enters a buffer in any way (cs1: any commands that are not operations on the text: e e! ew b n prev
   q w se ...; cs1 may be empty) and then edits it, from a state in which every buffer is closed: the line is ONE undo step
   of that buffer -- the line `u` gives back exactly the text the buffer had when it was entered, and reports success;
   afterwards every buffer of the table is closed again *)
Theorem line_is_one_step (s : UB.ust) cs1 es v v' b : u_all_closed s ->
  Forall (fun c => UB.is_op c = false) cs1 ->
  slot0 (fst (UB.u_exec_all s cs1)) = Some b ->
  let s1 := fst (UB.u_line s (cs1 ++ [UB.edits_cmd es v])) in
  let s2 := fst (UB.u_line s1 [UB.undo_cmd v']) in
  UB.cur_id_of s1 = b_id b /\ u_all_closed s1 /\ u_all_closed s2 /\
  (UB.cur_text s1 <> Some (U.ln (b_lb b)) ->
   UB.cur_text s2 = Some (U.ln (b_lb b)) /\ UB.cur_id_of s2 = b_id b /\
   exists b1, slot0 s1 = Some b1 /\ snd (U.run_op (b_lb b1) U.Undo) = true).
Proof.
  intros H F E s1 s2.
  pose proof (u_exec_all_closed cs1 s F H) as Ha. pose proof (closed_at0 _ b Ha E) as Cb.
  unfold UB.u_exec_all in *.
  set (lb1 := U.run_ops (b_lb b) (map UP.mk_edit es ++ [U.Bump])).
  assert (S1 : slot0 s1 = Some (set_lb b lb1)).
  { unfold s1, UB.u_line. erewrite line_slot0.
    2:{ rewrite exec_all_app. rewrite exec_all_cons. cbn [exec_all fst]. unfold UB.edits_cmd. apply op_slot0. exact E. }
    cbn [UB.uops lb_op fst snd]. unfold BufsDefs.bump. cbn [b_lb set_lb lb_modified UB.uops]. unfold lb1. rewrite ExUndo.run_ops_app. reflexivity. }
  assert (C1 : u_all_closed s1) by (apply u_line_closes, H).
  assert (C2 : u_all_closed s2) by (apply u_line_closes, C1).
  split; [unfold UB.cur_id_of; rewrite S1; reflexivity|]. split; [exact C1|]. split; [exact C2|].
  intro NE. unfold UB.cur_text in NE. rewrite S1 in NE. cbn [b_lb set_lb] in NE.
  destruct (closed_edits_one_step (b_lb b) es Cb) as [_ X]. fold lb1 in X.
  destruct X as (l2 & U2 & T2); [intro Q; apply NE; rewrite Q; reflexivity|].
  assert (S2 : slot0 s2 = Some (set_lb b (U.bump l2))).
  { unfold s2, UB.u_line, UB.undo_cmd. etransitivity; [apply (line1_op_slot0 UB.uops s1 ([U.Undo], v') _ S1)|].
    cbn [UB.uops lb_op fst snd U.run_ops U.run_op b_lb set_lb]. rewrite U2. reflexivity. }
  split; [unfold UB.cur_text; rewrite S2; cbn; rewrite T2; reflexivity|].
  split; [unfold UB.cur_id_of; rewrite S2; reflexivity|].
  exists (set_lb b lb1). split; [exact S1|]. cbn [b_lb set_lb U.run_op]. rewrite U2. reflexivity.
Qed.

(* the same after ANY script from the initial state of `vi -s -e files...` (the lines of the script are arbitrary lists of
   commands: edits, undo, redo, switches in the middle of a line, listings, quits that are refused ...) *)
Theorem bufs_command_is_one_step files argv pre cs1 es v v' b :
  let s := UB.u_lines (fst (UB.u_init files argv)) pre in
  Forall (fun c => UB.is_op c = false) cs1 ->
  slot0 (fst (UB.u_exec_all s cs1)) = Some b ->
  let s1 := fst (UB.u_line s (cs1 ++ [UB.edits_cmd es v])) in
  let s2 := fst (UB.u_line s1 [UB.undo_cmd v']) in
  UB.cur_text s1 <> Some (U.ln (b_lb b)) ->
  UB.cur_text s2 = Some (U.ln (b_lb b)) /\ UB.cur_id_of s2 = b_id b /\ UB.cur_id_of s1 = b_id b /\
  exists b1, slot0 s1 = Some b1 /\ snd (U.run_op (b_lb b1) U.Undo) = true.
Proof.
  intros s F E s1 s2 NE.
  destruct (line_is_one_step s cs1 es v v' b (u_script_closed files argv pre) F E) as (I1 & _ & _ & X).
  destruct (X NE) as (A & B & C). repeat split; assumption.
Qed.

(* the invariant spelled out: every occupied slot, whatever its index *)
Lemma u_all_closed_nth (s : UB.ust) : u_all_closed s <->
  (forall j b, nth_error (bufs s) j = Some (Some b) -> exists sp, UP.R (b_lb b) sp /\ ExUndo.keys_lt sp).
Proof.
  unfold u_all_closed, all_closed. rewrite Forall_forall. split.
  - intros H j b E. apply nth_error_In in E. apply (H _ E).
  - intros H x Hx. destruct x as [b|]; [|exact I]. apply In_nth_error in Hx. destruct Hx as [j Hj]. apply (H j b Hj).
Qed.
Theorem script_closes_every_buffer files argv ls j b :
  nth_error (bufs (UB.u_lines (fst (UB.u_init files argv)) ls)) j = Some (Some b) ->
  exists sp, UP.R (b_lb b) sp /\ ExUndo.keys_lt sp.
Proof. apply u_all_closed_nth, u_script_closed. Qed.
Theorem closed_edits_one_step' l es sp : UP.R l sp -> ExUndo.keys_lt sp ->
  let l1 := U.run_ops l (map UP.mk_edit es ++ [U.Bump]) in
  (exists sp1, UP.R l1 sp1 /\ ExUndo.keys_lt sp1) /\
  (U.ln l1 <> U.ln l -> exists l2, U.lbuf_undo l1 = Some l2 /\ U.ln l2 = U.ln l).
Proof. intros A B. apply closed_edits_one_step. exists sp. auto. Qed.
