(* Extract_subst.v -- extraction of the ec_substitute / replace / re_read / ex_arg model and of the matcher of
   ec_substitute over the regex model (SubstEngineDefs: rstr_make / rstr_find as modelled by RstrDefs, RsetDefs, ReVM)
   and of the address / remembered-pattern interplay of :s (SubstAddrDefs: ex_region with its searches, then the head of ec_substitute)
   (ExtrOcamlBasic only). *)
From Coq Require Import List NArith ZArith Extraction ExtrOcamlBasic.
From NV Require Import Bytes UcDefs SubstDefs ReVM SubstEngineDefs SubstAddrDefs.
Definition all_types : nat * N * Z := (0%nat, 0%N, 0%Z).
Definition engine_depth : nat := ReVM.depth.
Extraction "subst_model.ml" all_types re_read subst_args subst_setup ex_arg_s has_g expand scan subst_line flat_old flat_new
  engine_depth engine_path engine_find engine_table
  a_region subst_head ec_subst.
