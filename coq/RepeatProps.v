(* RepeatProps.v -- C09: proofs about coq/InputQueue.v. *)
From Coq Require Import List NArith ZArith Bool Arith Lia.
From NV Require Import GenConsts InputQueue.
Import ListNotations.
Local Open Scope nat_scope.
Opaque IBUF ICMD REPSZ.

Section Props.
Variable K : Type.
Notation tq := (tq K).

Definition rpt (n : nat) (s : list K) : list K := concat (repeat s n).

(* ---- term_read / read_n in terms of the single stream ibuf ++ tin ---- *)
Definition rec_ (ic : list K) (c : K) : list K := if length ic <? ICMD then ic ++ [c] else ic.

Lemma term_read_stream (q : tq) :
  match stream q with
  | [] => term_read q = None
  | c :: r => exists q1, term_read q = Some (c, q1) /\ stream q1 = r /\ icmd q1 = rec_ (icmd q) c /\
                          ibuf q1 = skipn 1 (ibuf q) /\
                          filled q1 = match ibuf q with [] => 1 | _ => filled q end
  end.
Proof.
  unfold stream, term_read, filled. destruct q as [us ib ti ic]; cbn [used ibuf tin icmd]. destruct ib as [|c r]; cbn [app].
  - destruct ti as [|c r]; [reflexivity|]. eexists. repeat split.
  - eexists. repeat split. cbn [length used ibuf]. lia.
Qed.

Lemma read_n_stream k : forall q : tq, stream (read_n k q) = skipn k (stream q) /\ ibuf (read_n k q) = skipn k (ibuf q).
Proof.
  induction k as [|k IH]; intros q; cbn [read_n]; [now split|].
  pose proof (term_read_stream q) as H. destruct (stream q) as [|c r] eqn:E.
  - rewrite H. rewrite E. cbn. split; [reflexivity|].
    unfold stream in E. apply app_eq_nil in E. destruct E as [-> _]. reflexivity.
  - destruct H as (q1 & -> & Hs & _ & Hi & _). destruct (IH q1) as [A B]. rewrite A, B, Hs, Hi. cbn [skipn].
    split; [reflexivity|]. destruct (ibuf q); cbn [skipn]; [now rewrite skipn_nil|reflexivity].
Qed.

Lemma read_n_same k : forall qa qb : tq, stream qa = stream qb -> icmd qa = icmd qb ->
  icmd (read_n k qa) = icmd (read_n k qb).
Proof.
  induction k as [|k IH]; intros qa qb Hs Hi; cbn [read_n]; [exact Hi|].
  pose proof (term_read_stream qa) as Ha. pose proof (term_read_stream qb) as Hb. rewrite <- Hs in Hb.
  destruct (stream qa) as [|c r].
  - now rewrite Ha, Hb.
  - destruct Ha as (qa1 & -> & Sa & Ia & _). destruct Hb as (qb1 & -> & Sb & Ib & _).
    apply IH; [congruence|]. rewrite Ia, Ib. now rewrite Hi.
Qed.

(* a state with fewer unread pushed keys and a less filled buffer keeps both after any number of reads *)
Lemma read_n_room k : forall qa qb : tq, stream qa = stream qb ->
  length (ibuf qb) <= length (ibuf qa) -> filled qb <= filled qa ->
  filled (read_n k qb) <= filled (read_n k qa).
Proof.
  induction k as [|k IH]; intros qa qb Hs Hl Hf; cbn [read_n]; [exact Hf|].
  pose proof (term_read_stream qa) as Ha. pose proof (term_read_stream qb) as Hb. rewrite <- Hs in Hb.
  destruct (stream qa) as [|c r].
  - now rewrite Ha, Hb.
  - destruct Ha as (qa1 & -> & Sa & _ & Ia & Fa). destruct Hb as (qb1 & -> & Sb & _ & Ib & Fb).
    apply IH; [congruence| |].
    + rewrite Ia, Ib, !skipn_length. lia.
    + rewrite Fa, Fb. destruct (ibuf qa) as [|x xa] eqn:Ea; destruct (ibuf qb) as [|y yb] eqn:Eb; cbn [length] in *; try lia.
      unfold filled. rewrite Ea. cbn [length]. lia.
Qed.

(* the record holds exactly the keys read, as long as it has room *)
Lemma read_n_icmd k : forall q : tq, length (icmd q) + k <= ICMD -> k <= length (stream q) ->
  icmd (read_n k q) = icmd q ++ firstn k (stream q).
Proof.
  induction k as [|k IH]; intros q Hl Hk; cbn [read_n firstn]; [now rewrite app_nil_r|].
  pose proof (term_read_stream q) as H. destruct (stream q) as [|c r] eqn:E; [rewrite ?E in Hk; cbn in Hk; lia|].
  rewrite ?E in Hk. destruct H as (q1 & -> & Hs & Hi & _ & _). cbn [firstn].
  assert (icmd q1 = icmd q ++ [c]) as Hi'.
  { rewrite Hi. unfold rec_. destruct (length (icmd q) <? ICMD) eqn:L; [reflexivity|]. apply Nat.ltb_ge in L. lia. }
  rewrite IH.
  - rewrite Hi', Hs, <- app_assoc. reflexivity.
  - rewrite Hi', app_length. cbn [length]. lia.
  - rewrite Hs. cbn [length] in Hk. lia.
Qed.

(* ---- pushes ---- *)
Lemma term_push_fits (q : tq) s : length s <= IBUF - filled q ->
  ibuf (term_push q s) = s ++ ibuf q /\ tin (term_push q s) = tin q /\ used (term_push q s) = used q.
Proof. intros H. unfold term_push. cbn [ibuf tin used]. rewrite Nat.min_l by exact H. rewrite firstn_all. repeat split; reflexivity. Qed.

Lemma rpt_comm n (s : list K) : rpt n s ++ s = s ++ rpt n s.
Proof.
  unfold rpt. induction n as [|n IH]; cbn [repeat concat]; [now rewrite app_nil_r|].
  rewrite <- app_assoc. now rewrite IH.
Qed.

Lemma push_n_fits n : forall (q : tq) s, n * length s <= IBUF - filled q ->
  ibuf (push_n n q s) = rpt n s ++ ibuf q /\ tin (push_n n q s) = tin q /\ used (push_n n q s) = used q.
Proof.
  induction n as [|n IH]; intros q s H; cbn [push_n]; [now repeat split|].
  cbn [Nat.mul] in H. destruct (term_push_fits q s ltac:(lia)) as (A & B & U).
  destruct (IH (term_push q s) s) as (C & D & U2); [unfold filled in *; rewrite A, U, app_length; lia|].
  rewrite C, D, A, B, U2, U. split; [|split; reflexivity].
  rewrite app_assoc, rpt_comm. unfold rpt. cbn [repeat concat]. now rewrite <- app_assoc.
Qed.

(* the buffer never holds more than its size: pushes are clipped to the room left (sizeof(ibuf) - ibuf_cnt) *)
Lemma term_push_capacity (q : tq) s : filled q <= IBUF -> filled (term_push q s) <= IBUF.
Proof. intros H. unfold term_push, filled in *. cbn [ibuf used]. rewrite app_length, firstn_length. lia. Qed.

Lemma term_push_clip (q : tq) s : filled q <= IBUF ->
  filled (term_push q s) = Nat.min (filled q + length s) IBUF.
Proof. intros H. unfold term_push, filled in *. cbn [ibuf used]. rewrite app_length, firstn_length. lia. Qed.

Lemma push_n_capacity n : forall (q : tq) s, filled q <= IBUF -> filled (push_n n q s) <= IBUF.
Proof. induction n; intros q s H; cbn [push_n]; [exact H|]. apply IHn. now apply term_push_capacity. Qed.

(* ---- the loop ---- *)
Section Vi.
Variable E : Type.
Variable exec : E -> list K -> E * nat * act K.
Notation st := (st K E).
Notation step := (step exec).
Notation fits := (fits exec).
Notation run := (run exec).

Definition R (s1 s2 : st) : Prop :=
  ed s1 = ed s2 /\ rep s1 = rep s2 /\ stream (q s1) = stream (q s2) /\
  length (ibuf (q s2)) <= length (ibuf (q s1)) /\ filled (q s2) <= filled (q s1).

Lemma reset_stream (x : tq) : stream (snd (term_cmd x)) = stream x /\ icmd (snd (term_cmd x)) = [] /\
  ibuf (snd (term_cmd x)) = ibuf x /\ filled (snd (term_cmd x)) = filled x.
Proof. now destruct x. Qed.

Lemma step_R s1 s2 : R s1 s2 -> fits s1 = true -> fits s2 = true /\ R (step s1) (step s2).
Proof.
  intros (He & Hr & Hs & Hl & Hfl) Hf. unfold InputQueue.fits, InputQueue.step in *. rewrite <- He, <- Hs, <- Hr.
  destruct (exec (ed s1) (stream (q s1))) as [[e1 k] a].
  set (x1 := read_n k (snd (term_cmd (q s1)))) in *. set (x2 := read_n k (snd (term_cmd (q s2)))).
  destruct (reset_stream (q s1)) as (A1 & B1 & C1 & D1). destruct (reset_stream (q s2)) as (A2 & B2 & C2 & D2).
  destruct (read_n_stream k (snd (term_cmd (q s1)))) as [S1 I1].
  destruct (read_n_stream k (snd (term_cmd (q s2)))) as [S2 I2]. fold x1 in S1, I1. fold x2 in S2, I2.
  assert (Hst : stream x1 = stream x2) by (rewrite S1, S2, A1, A2; now rewrite Hs).
  assert (Hic : icmd x1 = icmd x2) by (apply read_n_same; [now rewrite A1, A2|now rewrite B1, B2]).
  assert (Hlen : length (ibuf x2) <= length (ibuf x1)).
  { rewrite I1, I2, C1, C2. rewrite !skipn_length. lia. }
  assert (Hfil : filled x2 <= filled x1).
  { apply read_n_room; [now rewrite A1, A2|now rewrite C1, C2|now rewrite D1, D2]. }
  assert (PUSH : forall b n, Nat.max 1 n * length b <= IBUF - filled x1 ->
     Nat.max 1 n * length b <= IBUF - filled x2 /\
     stream (push_n (Nat.max 1 n) x1 b) = stream (push_n (Nat.max 1 n) x2 b) /\
     length (ibuf (push_n (Nat.max 1 n) x2 b)) <= length (ibuf (push_n (Nat.max 1 n) x1 b)) /\
     filled (push_n (Nat.max 1 n) x2 b) <= filled (push_n (Nat.max 1 n) x1 b)).
  { intros b n F1. assert (F2 : Nat.max 1 n * length b <= IBUF - filled x2) by lia. split; [exact F2|].
    destruct (push_n_fits (Nat.max 1 n) x1 b F1) as (P1 & T1 & U1).
    destruct (push_n_fits (Nat.max 1 n) x2 b F2) as (P2 & T2 & U2).
    unfold stream, filled in *. rewrite P1, P2, T1, T2, U1, U2, <- !app_assoc, !app_length.
    split; [now rewrite Hst|]. split; lia. }
  destruct a as [| |n|b n].
  - split; [reflexivity|]. repeat split; cbn [ed rep q]; auto.
  - split; [reflexivity|]. repeat split; cbn [ed rep q]; auto. now rewrite Hic, Hr.
  - apply Nat.leb_le in Hf. destruct (PUSH (rep s1) n Hf) as (F2 & P1 & P2 & P3).
    split; [now apply Nat.leb_le|]. repeat split; cbn [ed rep q]; auto.
  - apply Nat.leb_le in Hf. destruct (PUSH b n Hf) as (F2 & P1 & P2 & P3).
    split; [now apply Nat.leb_le|]. repeat split; cbn [ed rep q]; auto.
Qed.

Lemma run_R fuel : forall s1 s2 r, R s1 s2 -> run fuel s1 = Some r -> run fuel s2 = Some r.
Proof.
  induction fuel as [|f IH]; intros s1 s2 r HR; pose proof HR as (He & _ & Hs & _ & _); cbn [InputQueue.run]; rewrite <- Hs.
  - destruct (stream (q s1)); [now rewrite He|discriminate].
  - destruct (stream (q s1)) eqn:Es; [now rewrite He|].
    destruct (InputQueue.fits exec s1) eqn:F; [|discriminate].
    destruct (step_R s1 s2 HR F) as [F2 HR2]. rewrite F2. now apply IH.
Qed.

(* typed at the terminal in place of the keys just read *)
Definition retyped (s : st) (e1 : E) (k : nat) (keys : list K) : st :=
  {| q := {| used := 0; ibuf := []; tin := keys ++ skipn k (stream (q s)); icmd := [] |}; rep := rep s; ed := e1 |}.

Theorem dot_is_retyping s e1 k n fuel r :
  exec (ed s) (stream (q s)) = (e1, k, ADot n) -> fits s = true ->
  run fuel (step s) = Some r -> run fuel (retyped s e1 k (rpt (Nat.max 1 n) (rep s))) = Some r.
Proof.
  intros Hx Hf. apply run_R. unfold InputQueue.fits, InputQueue.step in *. rewrite Hx in *.
  apply Nat.leb_le in Hf. set (x := read_n k (snd (term_cmd (q s)))) in *.
  destruct (push_n_fits (Nat.max 1 n) x (rep s) Hf) as (P & T & _).
  destruct (read_n_stream k (snd (term_cmd (q s)))) as [S _]. fold x in S.
  destruct (reset_stream (q s)) as (A & _ & _).
  unfold R, filled. cbn [ed rep q retyped ibuf tin used length]. repeat split; try lia.
  unfold stream in *. cbn [ibuf tin app]. rewrite P, T, <- app_assoc. f_equal. now rewrite S, A.
Qed.

Theorem exec_is_typing s e1 k b n fuel r :
  exec (ed s) (stream (q s)) = (e1, k, APush b n) -> fits s = true ->
  run fuel (step s) = Some r -> run fuel (retyped s e1 k (rpt (Nat.max 1 n) b)) = Some r.
Proof.
  intros Hx Hf. apply run_R. unfold InputQueue.fits, InputQueue.step in *. rewrite Hx in *.
  apply Nat.leb_le in Hf. set (x := read_n k (snd (term_cmd (q s)))) in *.
  destruct (push_n_fits (Nat.max 1 n) x b Hf) as (P & T & _).
  destruct (read_n_stream k (snd (term_cmd (q s)))) as [S _]. fold x in S.
  destruct (reset_stream (q s)) as (A & _ & _).
  unfold R, filled. cbn [ed rep q retyped ibuf tin used length]. repeat split; try lia.
  unfold stream in *. cbn [ibuf tin app]. rewrite P, T, <- app_assoc. f_equal. now rewrite S, A.
Qed.

(* the queue discipline is invisible: a state and its flattening (everything typed at the terminal) end alike *)
Theorem queue_is_stream s fuel r : run fuel s = Some r ->
  run fuel {| q := {| used := 0; ibuf := []; tin := stream (q s); icmd := [] |}; rep := rep s; ed := ed s |} = Some r.
Proof. apply run_R. unfold R, stream, filled. cbn [q ibuf tin used ed rep app length]. repeat split; lia. Qed.

Theorem record_faithful s e1 k :
  exec (ed s) (stream (q s)) = (e1, k, AChange) -> k <= length (stream (q s)) -> S k < REPSZ -> k <= ICMD ->
  rep (step s) = firstn k (stream (q s)) /\ ed (step s) = e1 /\ stream (q (step s)) = skipn k (stream (q s)).
Proof.
  intros Hx Hk Hr Hi. unfold InputQueue.step. rewrite Hx.
  destruct (reset_stream (q s)) as (A & B & _ & _).
  pose proof (read_n_icmd k (snd (term_cmd (q s)))) as H. rewrite A, B in H. cbn [length app] in H.
  specialize (H ltac:(lia) Hk). cbn [rep ed q]. rewrite H.
  destruct (read_n_stream k (snd (term_cmd (q s)))) as [S1 _]. rewrite A in S1.
  split; [|now split]. rewrite firstn_length, Nat.min_l by exact Hk.
  destruct (S k <? REPSZ) eqn:L; [reflexivity|]. apply Nat.ltb_ge in L. lia.
Qed.
End Vi.
End Props.

(* before the repair: the keys of a nested push were queued BEHIND the unread keys of the macro *)
Theorem append_push_refuted :
  exists (qq : tq nat) (s : list nat),
    stream (term_push_append qq s) <> s ++ stream qq /\ stream (term_push qq s) = s ++ stream qq.
Proof.
  exists {| used := 0; ibuf := [1]; tin := [2]; icmd := [] |}, [7]. vm_compute. split; [discriminate|reflexivity].
Qed.
