(* RepeatProps.v -- C09: proofs about coq/InputQueue.v. *)
From Coq Require Import List NArith ZArith Bool Arith Lia.
From NV Require Import GenConsts InputQueue.
Import ListNotations.
Local Open Scope nat_scope.

Section Props.
Variable K : Type.
Notation tq := (tq K).

Definition rpt (n : nat) (s : list K) : list K := concat (repeat s n).

(* ---- term_read / read_n in terms of the single stream ibuf ++ tin ---- *)
Definition rec_ (ic : list K) (c : K) : list K := if length ic <? ICMD then ic ++ [c] else ic.

Lemma term_read_stream (q : tq) :
  match stream q with
  | [] => term_read q = None
  | c :: r => exists q1, term_read q = Some (c, q1) /\ stream q1 = r /\ icmd q1 = rec_ (icmd q) c /\
                          ibuf q1 = skipn 1 (ibuf q)
  end.
Proof.
  unfold stream, term_read. destruct q as [ib ti ic]; cbn [ibuf tin icmd]. destruct ib as [|c r]; cbn [app].
  - destruct ti as [|c r]; [reflexivity|]. eexists. repeat split.
  - eexists. repeat split.
Qed.

Lemma read_n_stream k : forall q : tq, stream (read_n k q) = skipn k (stream q) /\ ibuf (read_n k q) = skipn k (ibuf q).
Proof.
  induction k as [|k IH]; intros q; cbn [read_n]; [now split|].
  pose proof (term_read_stream q) as H. destruct (stream q) as [|c r] eqn:E.
  - rewrite H. rewrite E. cbn. split; [reflexivity|].
    unfold stream in E. apply app_eq_nil in E. destruct E as [-> _]. reflexivity.
  - destruct H as (q1 & -> & Hs & _ & Hi). destruct (IH q1) as [A B]. rewrite A, B, Hs, Hi. cbn [skipn].
    split; [reflexivity|]. destruct (ibuf q); cbn [skipn]; [now rewrite skipn_nil|reflexivity].
Qed.

Lemma read_n_same k : forall qa qb : tq, stream qa = stream qb -> icmd qa = icmd qb ->
  icmd (read_n k qa) = icmd (read_n k qb).
Proof.
  induction k as [|k IH]; intros qa qb Hs Hi; cbn [read_n]; [exact Hi|].
  pose proof (term_read_stream qa) as Ha. pose proof (term_read_stream qb) as Hb. rewrite <- Hs in Hb.
  destruct (stream qa) as [|c r].
  - now rewrite Ha, Hb.
  - destruct Ha as (qa1 & -> & Sa & Ia & _). destruct Hb as (qb1 & -> & Sb & Ib & _).
    apply IH; [congruence|]. rewrite Ia, Ib. now rewrite Hi.
Qed.

(* the record holds exactly the keys read, as long as it has room *)
Lemma read_n_icmd k : forall q : tq, length (icmd q) + k <= ICMD -> k <= length (stream q) ->
  icmd (read_n k q) = icmd q ++ firstn k (stream q).
Proof.
  induction k as [|k IH]; intros q Hl Hk; cbn [read_n firstn]; [now rewrite app_nil_r|].
  pose proof (term_read_stream q) as H. destruct (stream q) as [|c r] eqn:E; [rewrite ?E in Hk; cbn in Hk; lia|].
  rewrite ?E in Hk. destruct H as (q1 & -> & Hs & Hi & _). cbn [firstn].
  assert (icmd q1 = icmd q ++ [c]) as Hi'.
  { rewrite Hi. unfold rec_. destruct (length (icmd q) <? ICMD) eqn:L; [reflexivity|]. apply Nat.ltb_ge in L. lia. }
  rewrite IH.
  - rewrite Hi', Hs, <- app_assoc. reflexivity.
  - rewrite Hi', app_length. cbn [length]. lia.
  - rewrite Hs. cbn [length] in Hk. lia.
Qed.

(* ---- pushes ---- *)
Lemma term_push_fits (q : tq) s : length s <= IBUF - length (ibuf q) ->
  ibuf (term_push q s) = s ++ ibuf q /\ tin (term_push q s) = tin q.
Proof. intros H. unfold term_push. cbn. rewrite Nat.min_l by exact H. now rewrite firstn_all. Qed.

Lemma push_n_fits n : forall (q : tq) s, n * length s <= IBUF - length (ibuf q) ->
  ibuf (push_n n q s) = rpt n s ++ ibuf q /\ tin (push_n n q s) = tin q.
Proof.
  induction n as [|n IH]; intros q s H; cbn [push_n]; [now split|].
  cbn [Nat.mul] in H. destruct (term_push_fits q s ltac:(lia)) as [A B].
  destruct (IH (term_push q s) s) as [C D]; [rewrite A, app_length; lia|].
  rewrite C, D, A, B. split; [|reflexivity]. unfold rpt. cbn [repeat concat].
  rewrite <- app_assoc. f_equal.
  clear. induction n; cbn; [now rewrite app_nil_r|]. rewrite <- app_assoc. now rewrite IHn.
Qed.

(* the queue never holds more than its size: pushes are clipped to the room left *)
Lemma term_push_capacity (q : tq) s : length (ibuf q) <= IBUF -> length (ibuf (term_push q s)) <= IBUF.
Proof. intros H. unfold term_push. cbn. rewrite app_length, firstn_length. lia. Qed.

Lemma term_push_clip (q : tq) s : length (ibuf q) <= IBUF ->
  length (ibuf (term_push q s)) = Nat.min (length (ibuf q) + length s) IBUF.
Proof. intros H. unfold term_push. cbn. rewrite app_length, firstn_length. lia. Qed.

Lemma push_n_capacity n : forall (q : tq) s, length (ibuf q) <= IBUF -> length (ibuf (push_n n q s)) <= IBUF.
Proof. induction n; intros q s H; cbn [push_n]; [exact H|]. apply IHn. now apply term_push_capacity. Qed.

(* ---- the loop ---- *)
Section Vi.
Variable E : Type.
Variable exec : E -> list K -> E * nat * act K.
Notation st := (st K E).
Notation step := (step exec).
Notation fits := (fits exec).
Notation run := (run exec).

Definition R (s1 s2 : st) : Prop :=
  ed s1 = ed s2 /\ rep s1 = rep s2 /\ stream (q s1) = stream (q s2) /\ length (ibuf (q s2)) <= length (ibuf (q s1)).

Lemma reset_stream (x : tq) : stream (snd (term_cmd x)) = stream x /\ icmd (snd (term_cmd x)) = [] /\
  ibuf (snd (term_cmd x)) = ibuf x.
Proof. now destruct x. Qed.

Lemma step_R s1 s2 : R s1 s2 -> fits s1 = true -> fits s2 = true /\ R (step s1) (step s2).
Proof.
  intros (He & Hr & Hs & Hl) Hf. unfold fits, step in *. rewrite <- He, <- Hs, <- Hr.
  destruct (exec (ed s1) (stream (q s1))) as [[e1 k] a].
  set (x1 := read_n k (snd (term_cmd (q s1)))) in *. set (x2 := read_n k (snd (term_cmd (q s2)))).
  destruct (reset_stream (q s1)) as (A1 & B1 & C1). destruct (reset_stream (q s2)) as (A2 & B2 & C2).
  destruct (read_n_stream k (snd (term_cmd (q s1)))) as [S1 I1].
  destruct (read_n_stream k (snd (term_cmd (q s2)))) as [S2 I2]. fold x1 in S1, I1. fold x2 in S2, I2.
  assert (Hst : stream x1 = stream x2) by (rewrite S1, S2, A1, A2; now rewrite Hs).
  assert (Hic : icmd x1 = icmd x2) by (apply read_n_same; [now rewrite A1, A2|now rewrite B1, B2]).
  assert (Hlen : length (ibuf x2) <= length (ibuf x1)).
  { rewrite I1, I2, C1, C2. rewrite !skipn_length. lia. }
  destruct a as [| |n|b n].
  - split; [reflexivity|]. repeat split; cbn; auto.
  - split; [reflexivity|]. repeat split; cbn; auto. now rewrite Hic, Hr.
  - apply Nat.leb_le in Hf.
    assert (F2 : Nat.max 1 n * length (rep s1) <= IBUF - length (ibuf x2)) by lia.
    split; [now apply Nat.leb_le|].
    destruct (push_n_fits (Nat.max 1 n) x1 (rep s1) Hf) as [P1 T1].
    destruct (push_n_fits (Nat.max 1 n) x2 (rep s1) F2) as [P2 T2].
    repeat split; cbn [ed rep q]; auto.
    + unfold stream in *. rewrite P1, P2, T1, T2, <- !app_assoc. now rewrite Hst.
    + rewrite P1, P2, !app_length. lia.
  - apply Nat.leb_le in Hf.
    assert (F2 : Nat.max 1 n * length b <= IBUF - length (ibuf x2)) by lia.
    split; [now apply Nat.leb_le|].
    destruct (push_n_fits (Nat.max 1 n) x1 b Hf) as [P1 T1].
    destruct (push_n_fits (Nat.max 1 n) x2 b F2) as [P2 T2].
    repeat split; cbn [ed rep q]; auto.
    + unfold stream in *. rewrite P1, P2, T1, T2, <- !app_assoc. now rewrite Hst.
    + rewrite P1, P2, !app_length. lia.
Qed.

Lemma run_R fuel : forall s1 s2 r, R s1 s2 -> run fuel s1 = Some r -> run fuel s2 = Some r.
Proof.
  induction fuel as [|f IH]; intros s1 s2 r HR; pose proof HR as (He & _ & Hs & _); cbn [InputQueue.run]; rewrite <- Hs.
  - destruct (stream (q s1)); [now rewrite He|discriminate].
  - destruct (stream (q s1)) eqn:E; [now rewrite He|].
    destruct (InputQueue.fits exec s1) eqn:F; [|discriminate].
    destruct (step_R s1 s2 HR F) as [F2 HR2]. rewrite F2. now apply IH.
Qed.

(* typed at the terminal in place of the keys just read *)
Definition retyped (s : st) (e1 : E) (k : nat) (keys : list K) : st :=
  {| q := {| ibuf := []; tin := keys ++ skipn k (stream (q s)); icmd := [] |}; rep := rep s; ed := e1 |}.

Theorem dot_is_retyping s e1 k n fuel r :
  exec (ed s) (stream (q s)) = (e1, k, ADot n) -> fits s = true ->
  run fuel (step s) = Some r -> run fuel (retyped s e1 k (rpt (Nat.max 1 n) (rep s))) = Some r.
Proof.
  intros Hx Hf. apply run_R. unfold InputQueue.fits, InputQueue.step in *. rewrite Hx in *.
  apply Nat.leb_le in Hf. set (x := read_n k (snd (term_cmd (q s)))) in *.
  destruct (push_n_fits (Nat.max 1 n) x (rep s) Hf) as [P T].
  destruct (read_n_stream k (snd (term_cmd (q s)))) as [S _]. fold x in S.
  destruct (reset_stream (q s)) as (A & _ & _).
  repeat split; cbn [ed rep q retyped ibuf tin length]; [|lia].
  unfold stream in *. cbn [ibuf tin app]. rewrite P, T, <- app_assoc. f_equal. now rewrite S, A.
Qed.

Theorem exec_is_typing s e1 k b n fuel r :
  exec (ed s) (stream (q s)) = (e1, k, APush b n) -> fits s = true ->
  run fuel (step s) = Some r -> run fuel (retyped s e1 k (rpt (Nat.max 1 n) b)) = Some r.
Proof.
  intros Hx Hf. apply run_R. unfold InputQueue.fits, InputQueue.step in *. rewrite Hx in *.
  apply Nat.leb_le in Hf. set (x := read_n k (snd (term_cmd (q s)))) in *.
  destruct (push_n_fits (Nat.max 1 n) x b Hf) as [P T].
  destruct (read_n_stream k (snd (term_cmd (q s)))) as [S _]. fold x in S.
  destruct (reset_stream (q s)) as (A & _ & _).
  repeat split; cbn [ed rep q retyped ibuf tin length]; [|lia].
  unfold stream in *. cbn [ibuf tin app]. rewrite P, T, <- app_assoc. f_equal. now rewrite S, A.
Qed.

(* the queue discipline is invisible: a state and its flattening (everything typed at the terminal) end alike *)
Theorem queue_is_stream s fuel r : run fuel s = Some r ->
  run fuel {| q := {| ibuf := []; tin := stream (q s); icmd := [] |}; rep := rep s; ed := ed s |} = Some r.
Proof. apply run_R. repeat split; cbn; [now rewrite app_nil_r|lia]. Qed.

Theorem record_faithful s e1 k :
  exec (ed s) (stream (q s)) = (e1, k, AChange) -> k <= length (stream (q s)) -> S k < REPSZ -> k <= ICMD ->
  rep (step s) = firstn k (stream (q s)) /\ ed (step s) = e1 /\ stream (q (step s)) = skipn k (stream (q s)).
Proof.
  intros Hx Hk Hr Hi. unfold InputQueue.step. rewrite Hx.
  destruct (reset_stream (q s)) as (A & B & _).
  pose proof (read_n_icmd k (snd (term_cmd (q s)))) as H. rewrite A, B in H. cbn [length app] in H.
  specialize (H ltac:(lia) Hk). cbn [rep ed q]. rewrite H.
  destruct (read_n_stream k (snd (term_cmd (q s)))) as [S1 _]. rewrite A in S1.
  split; [|now split]. rewrite firstn_length, Nat.min_l by exact Hk.
  destruct (S k <? REPSZ) eqn:L; [reflexivity|]. apply Nat.ltb_ge in L. lia.
Qed.
End Vi.
End Props.

(* before the repair: the keys of a nested push were queued BEHIND the unread keys of the macro *)
Theorem append_push_refuted :
  exists (qq : tq nat) (s : list nat),
    stream (term_push_append qq s) <> s ++ stream qq /\ stream (term_push qq s) = s ++ stream qq.
Proof.
  exists {| ibuf := [1]; tin := [2]; icmd := [] |}, [7]. cbn. split; [discriminate|reflexivity].
Qed.
