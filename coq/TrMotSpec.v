(* TrMotSpec.v -- the scanner characterisations of C07 (MotWordProps.v: w W e E b B land on the FIRST stop beyond the
   cursor, minimality, failure exactly at the buffer ends) stated about the C TEXT: the translation theorems of TrMot.v
   composed with w_first_stop / e_first_stop / b_first_stop.  For every buffer held in memory as TrMot.lbuf_at describes,
   whose character view is well formed (every line ends in its "\n" character), from every position of it, the
   translated lbuf_wordbeg / lbuf_wordend of /repo's mot.c return the status and leave in *row, *off the position the
   characterisation names; nothing else in memory changes; no fuel hypothesis on the model side (mfuel suffices). *)
From Coq Require Import List ZArith NArith Bool Lia.
From NV Require Import Bytes UcDefs CLite CLiteProps GenCFuncs CLiteTac TrLbufBase MotDefs MotProps MotWordProps TrMot.
Import ListNotations.
Local Open Scope Z_scope.

Lemma vpos_pos_ok lines r o : lines_small lines -> Forall nonul lines -> vpos (map chop lines) r o -> pos_ok r o.
Proof.
  intros Hsm Hn (l & Hl & Ho). destruct (getl_some _ _ _ Hl) as (i & Ei & ->). destruct (rowidx_lt _ _ _ Ei) as [Hi ->].
  pose proof (slen_small lines i Hsm Hn). destruct Hsm as [Hs _]. unfold pos_ok. lia.
Qed.

Section Ctext.
  Variables (m : mem) (lb bln : nat) (lbs : list nat) (lines : list bytes) (br bo : nat) (bigz r o : Z) (d fuel : nat).
  Let b := map chop lines.
  Hypothesis MM : mot_mem m lb bln lbs lines br bo.
  Hypothesis Hsm : lines_small lines.
  Hypothesis Hok : lines_nl_ok lines.
  Hypothesis Hr : cell_at m br r.
  Hypothesis Ho : cell_at m bo o.
  Hypothesis Hwf : buf_wf b.
  Hypothesis Hv : vpos b r o.
  Hypothesis Hfm : (mfuel b < fuel)%nat.
  Hypothesis Hfl : (maxlen lines < fuel)%nat.

  Theorem ctext_w_W_first_stop :
    exists s r' o',
      callf cprog fuel (S (S (S (S (S (S d)))))) F_lbuf_wordbeg [VPtr lb 0; VInt bigz; VInt 1; VPtr br 0; VPtr bo 0] m
      = Ok (st_val1 s, set_pos m br bo r' o') /\ vpos b r' o' /\
      fwd_step (w_stop (fchr b) (negb (bigz =? 0))) (nchars b) (idx b r o) (idx b r' o') s.
  Proof.
    destruct (w_first_stop b (negb (bigz =? 0)) r o Hwf Hv) as (s & r' & o' & E & V & F).
    exists s, r', o'. split; [|split; assumption].
    apply (tr_lbuf_wordbeg m lb bln lbs lines br bo bigz 1 r o (mfuel b) (s, r', o') d fuel MM Hsm Hok Hr Ho); [ | |exact E|exact Hfm|exact Hfl].
    - apply (vpos_pos_ok lines); [exact Hsm|exact (la_nonul _ _ _ _ _ (mm_rep _ _ _ _ _ _ _ MM))|exact Hv].
    - left; reflexivity.
  Qed.

  Theorem ctext_e_E_first_stop :
    exists s r' o',
      callf cprog fuel (S (S (S (S (S (S d)))))) F_lbuf_wordend [VPtr lb 0; VInt bigz; VInt 1; VPtr br 0; VPtr bo 0] m
      = Ok (st_val1 s, set_pos m br bo r' o') /\ vpos b r' o' /\
      fwd_step (e_stop (fchr b) (nchars b) (negb (bigz =? 0))) (nchars b) (idx b r o) (idx b r' o') s.
  Proof.
    destruct (e_first_stop b (negb (bigz =? 0)) r o Hwf Hv) as (s & r' & o' & E & V & F).
    exists s, r', o'. split; [|split; assumption].
    apply (tr_lbuf_wordend m lb bln lbs lines br bo bigz 1 r o (mfuel b) (s, r', o') d fuel MM Hsm Hok Hr Ho); [ | |exact E|exact Hfm|exact Hfl].
    - apply (vpos_pos_ok lines); [exact Hsm|exact (la_nonul _ _ _ _ _ (mm_rep _ _ _ _ _ _ _ MM))|exact Hv].
    - left; reflexivity.
  Qed.

  Theorem ctext_b_B_first_stop :
    exists s r' o',
      callf cprog fuel (S (S (S (S (S (S d)))))) F_lbuf_wordend [VPtr lb 0; VInt bigz; VInt (-1); VPtr br 0; VPtr bo 0] m
      = Ok (st_val1 s, set_pos m br bo r' o') /\ vpos b r' o' /\
      bwd_step (b_stop (fchr b) (negb (bigz =? 0))) (idx b r o) (idx b r' o') s.
  Proof.
    destruct (b_first_stop b (negb (bigz =? 0)) r o Hwf Hv) as (s & r' & o' & E & V & F).
    exists s, r', o'. split; [|split; assumption].
    apply (tr_lbuf_wordend m lb bln lbs lines br bo bigz (-1) r o (mfuel b) (s, r', o') d fuel MM Hsm Hok Hr Ho); [ | |exact E|exact Hfm|exact Hfl].
    - apply (vpos_pos_ok lines); [exact Hsm|exact (la_nonul _ _ _ _ _ (mm_rep _ _ _ _ _ _ _ MM))|exact Hv].
    - right; reflexivity.
  Qed.
End Ctext.
