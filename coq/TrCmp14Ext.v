(* TrCmp14Ext.v -- C14, composition (part 4): the per-line loop of ec_substitute for an oracle that may LEAVE NEW BLOCKS BEHIND.

   TrCmp14Loop.find_oracle_ctx still asks for the result memory `upd m offs blk'`: true of the literal path of rstr_find, which allocates
   nothing.  The general path (rset_find -> regexec) allocates: in the CLite picture regexec's local state and saved states stay behind as
   new blocks and subs[] is a freed block (TrRsetFindRx.tr_rset_find_model), so no statement with an exact result memory can hold of it.
   find_oracle_ext is the variant that can: the result memory m' EXTENDS m (grows: at least as long, every block of m other than offs
   unchanged, offs holds the 32 answers).  The loop theorem below (subst_line_ok_e) is TrSubst's loop once more with that picture:
   Ctx and Rinv are stable under such an extension (ctx_grows, rinv_grows: the buffer r and its data block were allocated after the
   entry, so they are blocks of m other than offs).  find_oracle_ctx implies find_oracle_ext (find_oracle_ctx_ext), so TrCmp14.lit_oracle
   serves here too; a theorem about rset_find at an offset of the line, with the compiled program carried along, would plug in the same way.
   This is the loop-side half of the general path; the matcher-side half is open (see design.d/C14.md). *)
From Coq Require Import List ZArith NArith Bool Lia.
From NV Require Import Bytes UcDefs GenConsts IoDefs IoProps CLite CLiteProps GenCFuncs CLiteTac CLiteExt TrSbuf TrUcCode SubstDefs TrSubst TrCmp14Loop.
Import ListNotations.
Local Open Scope Z_scope.

Section ScanExt.
  Variable ext : nat -> list val -> mem -> res (val * mem).
  Variable find : bytes -> bool -> option (list grp).
  Variables (m0 : mem) (bl bo bsp bs rb : nat) (rz fo : Z) (line rep flags : bytes) (d fuel : nat).
  Variables (a0 a1 a2 a3 a6 a7 a8 a9 a11 : val).
  Hypothesis Hline : str_at m0 bl line.
  Hypothesis Hnline : nonul line.
  Hypothesis Hlen5 : Z.of_nat (length line) <= 500000000.
  Hypothesis Hrep : cstr_in m0 G_xrep 0 rep.
  Hypothesis Hnrep : nonul rep.
  Hypothesis Hsp : nth_error m0 bsp = Some [VPtr bs fo].
  Hypothesis Hflags : cstr_in m0 bs fo flags.
  Hypothesis Hnflags : nonul flags.
  Hypothesis Hbo : (bo < length m0)%nat.
  Hypothesis Hob : exists blk0, nth_error m0 bo = Some blk0 /\ length blk0 = 32%nat.
  Hypothesis Hne : bl <> bo /\ G_xrep <> bo /\ bsp <> bo /\ bs <> bo.
  Let gflag := has_g flags.
  Let call := callx ext cprog fuel (S (S (S d))).
  Local Notation ST o rv lv m :=
    (mkst [a0; a1; a2; a3; VPtr rb rz; VPtr bo 0; a6; a7; a8; a9; VPtr bsp 0; a11; VPtr bl (Z.of_nat o); rv; lv] m).

  (* m' extends m: every block of m other than offs is unchanged, offs holds blk' *)
  Definition grows (m m' : mem) (blk' : block) : Prop :=
    (length m <= length m')%nat /\ (forall b, (b < length m)%nat -> b <> bo -> nth_error m' b = nth_error m b) /\ nth_error m' bo = Some blk'.
  Definition find_oracle_ext : Prop :=
    forall (m : mem) (o : nat) (nb : bool) (blk : block),
      Ctx m0 bo m -> str_at m bl line -> (o <= length line)%nat -> nth_error m bo = Some blk -> length blk = 32%nat ->
      exists r blk' m', ext X_rstr_find [VPtr rb rz; VPtr bl (Z.of_nat o); VInt 16; VPtr bo 0; VInt (if nb then 2 else 0)] m
                     = Ok (VInt r, m') /\ grows m m' blk' /\ length blk' = 32%nat /\
        match find (skipn o line) nb with
        | None => r < 0
        | Some offs => 0 <= r /\ exists offl, blk' = map VInt offl /\ ints_ok offl /\ offs = pairs offl
        end.
  Hypothesis Horacle : find_oracle_ext.
  Hypothesis Hptr : find_ptr_ok find line rep.

  Let X_ctx_line := ctx_line ext m0 bl bo bsp bs line d fuel Hline Hne.
  Let X_ctx_upd_bo := ctx_upd_bo ext m0 bl bo bsp bs line rep d fuel Hbo Hne.
  Let X_rinv_upd_bo := rinv_upd_bo ext m0 bl bo bsp bs line rep d fuel Hbo Hne.
  Let X_ctx_apart := ctx_apart ext m0 bl bo bsp bs line rep d fuel Hbo Hne.
  Let X_ctx_step := ctx_step ext m0 bl bo bsp bs line rep d fuel Hbo Hne.
  Let X_ctx_m0 := ctx_m0 ext m0 bl bo bsp bs line rep d fuel Hbo Hob Hne.
  Let X_es_make_new := es_make_new ext m0 bl bo bsp bs rb rz line rep d fuel a0 a1 a2 a3 a6 a7 a8 a9 a11 Hbo Hne.
  Let X_es_make_old := es_make_old ext bl bo bsp rb rz d fuel a0 a1 a2 a3 a6 a7 a8 a9 a11.
  Let X_es_round := es_round ext find m0 bl bo bsp bs rb rz fo line rep flags d fuel a0 a1 a2 a3 a6 a7 a8 a9 a11
                      Hline Hnline Hlen5 Hrep Hnrep Hsp Hflags Hnflags Hbo Hne.

  Lemma ctx_grows mk m' blk' : Ctx m0 bo mk -> grows mk m' blk' -> length blk' = 32%nat -> Ctx m0 bo m'.
  Proof.
    intros (L & F & B) (G1 & G2 & G3) Hl. split; [lia|]. split; [|exists blk'; auto].
    intros b Hb Hn. rewrite G2 by (try assumption; lia). apply F; assumption.
  Qed.
  Lemma rinv_grows mk m' p cs blk' : Ctx m0 bo mk -> Rinv m0 mk p cs -> grows mk m' blk' -> Rinv m0 m' p cs.
  Proof.
    intros (L & _) ((sz & Rp & Hs) & Hp & Hd) (G1 & G2 & _).
    assert (Pm : (p < length mk)%nat) by (destruct Rp as [(_ & _ & X)|(b & rest & _ & X & _)]; apply nth_error_Some; congruence).
    assert (Ep : nth_error m' p = nth_error mk p) by (apply G2; [exact Pm|lia]).
    assert (Ed : sbuf_datab m' p = sbuf_datab mk p) by (unfold sbuf_datab; rewrite Ep; reflexivity).
    split; [|split; [exact Hp|rewrite Ed; exact Hd]]. exists sz. split; [|exact Hs].
    destruct Rp as [(E1 & E2 & X)|(b & rest & Nb & X & Y & Z)].
    - left. rewrite Ep. auto.
    - right. exists b, rest. rewrite Ep. split; [exact Nb|]. split; [exact X|]. split; [|exact Z].
      assert (Db : sbuf_datab mk p = Some b) by (unfold sbuf_datab; rewrite X; reflexivity).
      specialize (Hd b Db). rewrite G2; [exact Y|apply nth_error_Some; congruence|lia].
  Qed.

  Lemma es_cond_eval_e mk o (nb : bool) p lv : Ctx m0 bo mk -> (o <= length line)%nat ->
    let rv := if nb then VPtr p 0 else VInt 0 in
    exists r blk' m', eval call es_cond (ST o rv lv mk) = Ok (VInt (b2z (0 <=? r)), ST o rv lv m') /\ grows mk m' blk' /\ length blk' = 32%nat /\
      match find (skipn o line) nb with
      | None => r < 0
      | Some offs => 0 <= r /\ exists offl, blk' = map VInt offl /\ ints_ok offl /\ offs = pairs offl
      end.
  Proof.
    intros C Ho rv. pose proof C as (_ & _ & blk & Hb & Hbl).
    destruct (Horacle mk o nb blk C (X_ctx_line _ C) Ho Hb Hbl) as (r & blk' & m' & E & G & Hl' & Hm).
    exists r, blk', m'. split; [|split; [exact G|split; assumption]].
    unfold es_cond, rv. destruct nb; xs; change (wrap I32 16) with 16; unfold call; rewrite callx_S, x_rstr_find_none, E; reflexivity.
  Qed.

  Lemma es_loop_e : forall f o (nb : bool) p cs lv mk out k fuel',
    (f <= fuel')%nat -> (length rep < fuel)%nat -> Ctx m0 bo mk -> (if nb then Rinv m0 mk p cs else cs = []) -> (o <= length line)%nat ->
    scan find rep gflag f nb (skipn o line) = Some (Some (out, k)) ->
    Z.of_nat (length cs) + Z.of_nat (length out) <= 500000000 ->
    exists o' rv' lv' mk' cells,
      exec call fuel' es_while (ST o (if nb then VPtr p 0 else VInt 0) lv mk) = ONormal (ST o' rv' lv' mk') /\ Ctx m0 bo mk' /\
      (o' <= length line)%nat /\ out = map byte_of cells ++ skipn o' line /\
      match k with
      | O => rv' = (if nb then VPtr p 0 else VInt 0) /\ cells = [] /\ (nb = true -> Rinv m0 mk' p cs)
      | S _ => exists p', rv' = VPtr p' 0 /\ Rinv m0 mk' p' (cs ++ cells) /\ (nb = true -> p' = p)
      end.
  Proof.
    induction f as [|f IH]; intros o nb p cs lv mk out k fuel' Hf Hfr C Rn Ho Hs Hsz; [discriminate|].
    destruct fuel' as [|f']; [lia|]. unfold es_while. rewrite exec_while.
    destruct (es_cond_eval_e mk o nb p lv C Ho) as (r & blk' & m' & E & G & Hl' & Hm). cbv zeta in E. rewrite E, truth_b2z.
    cbn [scan] in Hs. destruct (find (skipn o line) nb) as [offs|] eqn:Ef.
    2:{ destruct (Z.leb_spec 0 r); [lia|]. injection Hs as <- <-.
        exists o, (if nb then VPtr p 0 else VInt 0), lv, m', []. split; [reflexivity|]. split; [apply (ctx_grows mk m' blk'); assumption|].
        split; [exact Ho|]. split; [reflexivity|]. split; [reflexivity|]. split; [reflexivity|].
        intros ->. apply (rinv_grows mk m' p cs blk'); assumption. }
    destruct Hm as (Hr & offl & -> & Hints & ->). rewrite map_length in Hl'.
    destruct (Z.leb_spec 0 r); [|lia].
    destruct (one_match rep (skipn o line) (pairs offl)) as [[out1 ln2]|] eqn:Em; [|discriminate].
    set (mk1 := m') in *.
    assert (C1 : Ctx m0 bo mk1) by (apply (ctx_grows mk m' (map VInt offl)); [exact C|exact G|rewrite map_length; exact Hl']).
    assert (Hof1 : int_arr_at mk1 bo offl) by (destruct G as (_ & _ & G3); exact G3).
    pose proof (Hptr o nb (pairs offl) Ho Ef) as Hp.
    assert (Mk : exists p1 mk2, exec call (S f') es_make (ST o (if nb then VPtr p 0 else VInt 0) lv mk1) = ONormal (ST o (VPtr p1 0) lv mk2) /\
                   Ctx m0 bo mk2 /\ Rinv m0 mk2 p1 cs /\ int_arr_at mk2 bo offl /\ (nb = true -> p1 = p)).
    { destruct nb.
      - exists p, mk1. split; [apply X_es_make_old|]. split; [exact C1|]. split; [apply (rinv_grows mk m' p cs (map VInt offl)); assumption|]. auto.
      - subst cs. destruct (X_es_make_new mk1 o lv (S f') C1) as (E1 & C2 & R2 & B2).
        exists (length mk1), (mk1 ++ [[VInt 0; VInt 0; VInt 0]]). split; [exact E1|]. split; [exact C2|]. split; [exact R2|].
        split; [unfold int_arr_at; rewrite B2; exact Hof1|discriminate]. }
    destruct Mk as (p1 & mk2 & E1 & C2 & R2 & Hof2 & Hp1).
    assert (Hsz1 : Z.of_nat (length cs) + Z.of_nat (length out1) <= 500000000).
    { destruct (stops gflag ln2); [injection Hs as <- _; rewrite app_length in Hsz; lia|].
      destruct (scan find rep gflag f true ln2) as [[[out2 k2]|]|]; try discriminate. injection Hs as <- _. rewrite app_length in Hsz. lia. }
    destruct (X_es_round mk2 o p1 cs lv offl out1 ln2 (S f') C2 R2 Hof2 Hl' Hints Ho Hfr Em Hp Hsz1)
      as (o2 & cells & lv2 & mk3 & E3 & C3 & R3 & Ec & Hln2 & Ho2).
    unfold es_body at 1. rewrite exec_seq. fold call in E1. rewrite E1. fold es_body. fold call in E3. fold gflag in E3. rewrite E3.
    destruct (stops gflag ln2).
    - injection Hs as <- <-. exists o2, (VPtr p1 0), lv2, mk3, cells. split; [reflexivity|]. split; [exact C3|]. split; [exact Ho2|].
      split; [rewrite Ec, Hln2; reflexivity|]. exists p1. auto.
    - destruct (scan find rep gflag f true ln2) as [[[out2 k2]|]|] eqn:Es2; try discriminate. injection Hs as <- <-.
      rewrite <- Hln2 in Es2. fold es_while.
      destruct (IH o2 true p1 (cs ++ cells) lv2 mk3 out2 k2 f' ltac:(lia) Hfr C3 R3 Ho2 Es2) as (o' & rv' & lv' & mk' & cells2 & E' & C' & Ho' & Eo & Hk).
      { rewrite app_length in *. rewrite <- Ec, map_length in Hsz. lia. }
      rewrite E'. destruct k2 as [|k2].
      + destruct Hk as (-> & -> & Rk). exists o', (VPtr p1 0), lv', mk', cells. split; [reflexivity|]. split; [exact C'|]. split; [exact Ho'|].
        split; [rewrite Ec, Eo; reflexivity|]. exists p1. split; [reflexivity|]. split; [apply Rk; reflexivity|exact Hp1].
      + destruct Hk as (p' & -> & Rk & Pk). specialize (Pk eq_refl). subst p'.
        exists o', (VPtr p1 0), lv', mk', (cells ++ cells2). split; [reflexivity|]. split; [exact C'|]. split; [exact Ho'|].
        split; [rewrite map_app, Ec, Eo, app_assoc; reflexivity|]. exists p1. rewrite app_assoc. auto.
  Qed.

  (* THE THEOREM about the loop of one line, for an oracle that is only known on the memories the loop reaches *)
  Theorem subst_line_ok_e lv : (S (length line) <= fuel)%nat -> (length rep < fuel)%nat ->
    match subst_line find rep gflag line with
    | Unchanged =>
        exists lv' mk', exec call fuel es_while (ST 0 (VInt 0) lv m0) = ONormal (ST 0 (VInt 0) lv' mk') /\ Ctx m0 bo mk'
    | Changed new =>
        Z.of_nat (length new) <= 500000000 ->
        exists o' p lv' mk' cells,
          exec call fuel (SSeq es_while es_str) (ST 0 (VInt 0) lv m0) = ONormal (ST o' (VPtr p 0) lv' mk') /\ Ctx m0 bo mk' /\
          Rinv m0 mk' p cells /\ map byte_of cells = new
    | SOOB | SFuel => True
    end.
  Proof.
    intros Hf Hfr. unfold subst_line.
    destruct (scan find rep gflag (S (length line)) false line) as [[[out k]|]|] eqn:Es; try exact I.
    pose proof (es_loop_e (S (length line)) 0%nat false 0%nat [] lv m0 out k fuel Hf Hfr X_ctx_m0 eq_refl ltac:(lia) Es) as L.
    destruct k as [|k].
    - assert (out = line).
      { cbn [scan] in Es. destruct (find line false); [|injection Es as <-; reflexivity].
        destruct (one_match rep line l) as [[o1 l2]|]; [|discriminate]. destruct (stops gflag l2); [discriminate|].
        destruct (scan find rep gflag (length line) true l2) as [[[o2 k2]|]|]; discriminate. }
      subst out. destruct L as (o' & rv' & lv' & mk' & cells & E & C' & Ho' & Eo & -> & -> & _); [cbn [length]; lia|].
      cbn [map app] in Eo.
      assert (o' = 0%nat).
      { apply (f_equal (@length N)) in Eo. rewrite skipn_length in Eo. lia. }
      subst o'. exists lv', mk'. split; [exact E|exact C'].
    - intro Hsz. destruct L as (o' & rv' & lv' & mk' & cells & E & C' & Ho' & Eo & p' & -> & R' & _); [cbn [length]; lia|].
      cbn [app] in R'. pose proof R' as (Rs & _).
      assert (Hbl : (bl < length m0)%nat) by (apply nth_error_Some; unfold str_at in Hline; congruence).
      destruct (X_ctx_apart mk' p' cells bl C' R' Hbl) as (X1 & X2 & X3).
      destruct (sb_str mk' p' cells bl line o' d fuel Rs X2 X3 (X_ctx_line _ C') Hnline Ho' ltac:(lia)) as (mk2 & E2 & R2 & S2).
      { subst out. rewrite app_length, map_length in Hsz. lia. }
      destruct (X_ctx_step mk' mk2 p' cells _ C' R' S2 R2) as (C2 & R2' & _).
      exists o', p', lv', mk2, (cells ++ zb (skipn o' line)).
      split; [|split; [exact C2|split; [exact R2'|]]].
      + rewrite exec_seq, E. unfold es_str. xstep. unfold call. rewrite (callx_mono ext _ _ _ _ _ _ _ E2). xstep. reflexivity.
      + rewrite map_app, byte_of_zb; [symmetry; exact Eo|]. apply Forall_skipn'. apply nonul_lt256. exact Hnline.
  Qed.
End ScanExt.
Print Assumptions subst_line_ok_e.

(* the exact-memory hypothesis implies this one: upd m offs blk' extends m *)
Lemma find_oracle_ctx_ext ext find m0 bl bo rb rz line : find_oracle_ctx ext find m0 bl bo rb rz line -> find_oracle_ext ext find m0 bl bo rb rz line.
Proof.
  intros H m o nb blk C Hs Ho Hb Hl. destruct (H m o nb blk C Hs Ho Hb Hl) as (r & blk' & E & Hl' & Hm).
  assert (Lb : (bo < length m)%nat) by (apply nth_error_Some; congruence).
  exists r, blk', (upd m bo blk'). split; [exact E|]. split; [|split; assumption].
  split; [rewrite mlen_upd by exact Lb; lia|]. split; [intros b Hb' Hn; apply mem_upd_other; assumption|apply mem_upd_same; exact Lb].
Qed.
