(* ReStrict2.v -- the side condition mbok of C10_accepted_shape holds for valid UTF-8 pattern sets; the
   hypothesis-free form of C10_rset_index_semantic. *)
From Coq Require Import List Arith Lia Bool ZArith NArith ZifyN ZifyBool ZifyNat.
From NV Require Import Bytes GenConsts UcDefs UcSpec UcProps UcSegProps ReSyntax ReParse ReEmit ReVM ReSem RsetDefs ReProps4 ReProps6 ReProps7 ReProps9 ReBoundary ReGroups ReGroups2 ReStrict.
Import ListNotations.

Lemma cont_plain b : UcDefs.is_cont b = true -> plainb b = true.
Proof.
  unfold plainb. intro H.
  destruct (N.eqb_spec b 92) as [->|]; [vm_compute in H; discriminate|].
  destruct (N.eqb_spec b 91) as [->|]; [vm_compute in H; discriminate|].
  destruct (N.eqb_spec b 40) as [->|]; [vm_compute in H; discriminate|].
  destruct (N.eqb_spec b 41) as [->|]; [vm_compute in H; discriminate|]. reflexivity.
Qed.

Lemma valid_mbok scs : Forall scalar scs -> mbok (chars scs).
Proof.
  intros H i j L. destruct (Suf_skipn_chars scs H i) as (t & scs' & At & Fs & E).
  rewrite <- (Nat.add_0_r (i + j)). replace (i + j + 0)%nat with (i + (j + 0))%nat by lia. rewrite Nat.add_0_r.
  rewrite <- nthb_skipn. rewrite E in L |- *.
  destruct t as [|b t].
  - cbn [app] in *. destruct scs' as [|c r]; [cbn in L; lia|]. inversion Fs; subst.
    rewrite chars_cons in L |- *. rewrite re_uclen_encode in L by assumption.
    destruct (encode_decomp c ltac:(assumption)) as (l & t & Ee & _ & Ac & _). rewrite Ee in L |- *. cbn [length] in L.
    destruct j as [|j]; [lia|]. unfold nthb. cbn [app nth]. rewrite app_nth1 by lia.
    apply cont_plain. unfold all_cont in Ac. rewrite Forall_forall in Ac. apply Ac. apply nth_In. lia.
  - inversion At; subst. cbn [app] in L. rewrite re_uclen_cont in L by assumption. lia.
Qed.

(* the combined pattern of a set of valid UTF-8 patterns is valid UTF-8 *)
Lemma encode_ascii c : (0 < c)%N -> (c < 128)%N -> encode c = [c] /\ scalar c.
Proof. intros A B. unfold encode. replace (c <? 128)%N with true by lia. split; [reflexivity | unfold scalar; lia]. Qed.

Lemma chars_app' a b : chars (a ++ b) = chars a ++ chars b. Proof. apply chars_app. Qed.

Lemma joins_valid pss : Forall (Forall scalar) pss -> exists cs, Forall scalar cs /\ joins (map chars pss) = chars cs.
Proof.
  induction 1 as [|ps pss Hp _ (cs & Fc & E)]; [exists []; split; [constructor | reflexivity]|].
  exists ([124; 40] ++ ps ++ [41] ++ cs)%N. split.
  - apply Forall_app. split; [repeat constructor; unfold scalar; lia|]. apply Forall_app. split; [exact Hp|]. apply Forall_app. split; [repeat constructor; unfold scalar; lia | exact Fc].
  - cbn [map joins]. rewrite E. rewrite !chars_app. reflexivity.
Qed.

Lemma somes_valid_mbok res pss : somes res = map chars pss -> Forall (Forall scalar) pss -> somes res <> [] -> mbok (rset_pattern res).
Proof.
  intros E H Hne. rewrite (rset_pattern_altstr res Hne). rewrite E in *. destruct pss as [|ps pss]; [contradiction|]. cbn [map].
  rewrite altstr_joins. inversion H; subst. destruct (joins_valid pss ltac:(assumption)) as (cs & Fc & Ej). rewrite Ej.
  match goal with |- mbok ?s => assert (Eq : s = chars ([40] ++ [40] ++ ps ++ [41] ++ cs ++ [41])%N) end.
  { rewrite !chars_app. change (chars [40%N]) with [40%N]. change (chars [41%N]) with [41%N]. cbn [app]. rewrite <- !app_assoc. reflexivity. }
  rewrite Eq. apply valid_mbok.
  apply Forall_app. split; [repeat constructor; unfold scalar; lia|]. apply Forall_app. split; [repeat constructor; unfold scalar; lia|].
  apply Forall_app. split; [assumption|]. apply Forall_app. split; [repeat constructor; unfold scalar; lia|].
  apply Forall_app. split; [exact Fc | repeat constructor; unfold scalar; lia].
Qed.

(* C10_rset_index_semantic without the hypothesis rset_shape *)
Theorem rset_index_semantic_all res flg rs d line n fl idx g c :
  rset_make res flg = Ok (Some rs) -> mbok (rset_pattern res) ->
  rset_find_d d rs line n fl = (Ok (idx, g), c) -> (0 <= idx)%Z ->
  let eflg := Z.lor REG_NEWLINE (Z.lor (if has fl RE_NOTBOL then REG_NOTBOL else 0%Z) (if has fl RE_NOTEOL then REG_NOTEOL else 0%Z)) in
  let f := Z.lor (rs_cflg rs) eflg in
  let G := Z.to_nat (nth (Z.to_nat idx) (firstn (rs_n rs) (rs_grp rs)) (-1)%Z) in
  exists body x p s2 r,
    tree (rs_prog rs) = NGrp body 1 1 1 /\ In (G, x) (wrappers body) /\
    In p (tried line (length line + 2) 0 0) /\
    ReSem.M st (atom_step f line) mark_step (RGrp G (tr x)) (mark_step 2 (mark_step 0 (init p))) s2 /\
    r = mark_step 1 (mark_step 3 s2) /\
    regexec_d d (rs_prog rs) (rs_cflg rs) line (rs_grpcnt rs) eflg = (Ok (Some (psub_of (snd r) (rs_grpcnt rs))), c).
Proof.
  intros Mk M Fd Hidx.
  assert (Hne : somes res <> []).
  { intro E0. (* no pattern: grpcnt = 2, rset_find answers -1 *)
    unfold rset_make in Mk. destruct (rset_build res [40%N] 2) as [[[sb g1] sg] gc] eqn:Bd.
    destruct (build_nums _ _ _ _ _ _ _ Bd) as (_ & Egc & _). rewrite E0 in Egc. cbn [total] in Egc.
    destruct (existsb _ (somes res)); [discriminate|].
    destruct (regcomp (sb ++ [41%N])) as [[pr|]| |]; cbn [bind] in Mk; try discriminate. inversion Mk; subst rs. clear Mk.
    unfold rset_find_d in Fd. cbn [rs_grpcnt] in Fd. replace (Nat.leb gc 2) with true in Fd by (symmetry; apply Nat.leb_le; lia).
    inversion Fd; subst. lia. }
  exact (rset_index_semantic res flg rs d line n fl idx g c (accepted_shape res flg rs Mk M Hne) Mk Fd Hidx).
Qed.
