(* BufsSteps.v -- C20: undo steps never span a buffer switch.

   lbuf.c groups the records of the edit log into undo steps by the counter useq; lbuf_modified() advances it.  A step
   is OPEN while the counter still has the value stored in the last record: the next change would join that step.
   ex_command() advances the counter once per command LINE and only for the buffer that is current at the end of the
   line, so every way of LEAVING a buffer has to end its step (bufs_switch: `if (bufs[0].lb) lbuf_modified(bufs[0].lb)`
   before the rotation, repo commit 75e4c2f) -- because there is a way of ENTERING a buffer that does nothing at all:
   bufs_shift() (`:b !`, delete the current buffer) just moves the table up.

   Part 1 (abstract payload L, as everywhere in the C20 model): two predicates on line buffers, `ok` (what every line
   buffer satisfies) and `closed` (no open step), with the laws step_laws (lbuf_modified closes, the operations on the
   CURRENT buffer keep ok).  steps_inv s: slot 0 is ok, every other occupied slot is closed.  It holds after ex_init and is
   preserved by every single command (ex_exec -- also in the middle of a |-joined line), by ex_command, by ex_line, hence in
   every reachable state and at every moment inside a command line.
   Part 2 (the concrete line buffer clb of BufsDefs.v): clb_ok / clb_closed satisfy the laws; if a buffer is closed, any
   number (>= 1) of changes followed by ONE undo gives back the text, the undo cursor, the sequence number that the dirty
   test reads (hence the dirty flag) it had before the first of these changes.
   Part 3: the same table code with the bump moved below the rotation (bufs_switch_entered: the step of the buffer that
   is ENTERED is ended instead) does not keep the invariant, and one `u` then undoes two command lines. *)
From Coq Require Import List ZArith NArith Bool Lia Arith Permutation.
From NV Require Import GenConsts BufsDefs BufsProps BufsReach.
Import ListNotations.

Lemma Forall_set_nth {A} (P : A -> Prop) (l : list A) : forall i x, Forall P l -> P x -> Forall P (set_nth l i x).
Proof.
  induction l as [|y r IH]; intros i x Hl Hx; cbn; [constructor|].
  inversion Hl; subst. destruct i; constructor; auto.
Qed.

Section Steps.
Context {L Op Out : Type}.
Variable Lo : lops L Op Out.
Variables ok closed : L -> Prop.

Notation st := (st L).
Notation buf := (buf L).
Notation slot := (slot L).

Record step_laws : Prop := mk_step_laws {
  sl_closed_ok : forall l, closed l -> ok l;
  sl_make : closed (lb_make Lo);
  sl_bump : forall l, ok l -> closed (fst (lb_modified Lo l));
  sl_rd : forall c l, ok l -> ok (lb_rd Lo c l);
  sl_saved : forall cl l, ok l -> ok (lb_saved Lo cl l);
  sl_op : forall o l v, ok l -> ok (fst (fst (lb_op Lo o l v)))
}.
Hypothesis Laws : step_laws.

Definition slot_sat (P : L -> Prop) (x : slot) : Prop := match x with Some b => P (b_lb b) | None => True end.
Definition lst_closed (l : list slot) : Prop := Forall (slot_sat closed) l.
Definition lst_inv (l : list slot) : Prop :=
  match l with [] => True | x :: r => slot_sat ok x /\ lst_closed r end.
(* the invariant: the current buffer is ok, every buffer in the background has its undo step closed *)
Definition steps_inv (s : st) : Prop := lst_inv (bufs s).
Definition all_closed (s : st) : Prop := lst_closed (bufs s).

Lemma sat_weaken x : slot_sat closed x -> slot_sat ok x.
Proof. destruct x; cbn; auto using (sl_closed_ok Laws). Qed.
Lemma closed_inv l : lst_closed l -> lst_inv l.
Proof. destruct l; cbn; auto. intro H. inversion H; subst. split; auto using sat_weaken. Qed.
Lemma inv_nth l : lst_inv l -> forall i b, nth_error l i = Some (Some b) -> ok (b_lb b).
Proof.
  destruct l as [|x r]; intros H i b E; [destruct i; discriminate|]. destruct H as [H0 Hr]. destruct i; cbn in E.
  - inversion E; subst. exact H0.
  - apply nth_error_In in E. unfold lst_closed in Hr. rewrite Forall_forall in Hr. apply (sat_weaken (Some b)), Hr, E.
Qed.
Lemma inv_set_nth l i b : lst_inv l -> closed (b_lb b) -> lst_inv (set_nth l i (Some b)).
Proof.
  destruct l as [|x r]; cbn; auto. intros [H0 Hr] Hc. destruct i; cbn; split; auto.
  - apply (sl_closed_ok Laws), Hc.
  - apply Forall_set_nth; auto.
Qed.
Lemma inv_upd0 f l : (forall b, ok (b_lb b) -> ok (b_lb (f b))) -> lst_inv l -> lst_inv (upd0 f l).
Proof. destruct l as [|[b|] r]; cbn; auto. intros Hf [H0 Hr]. split; auto. Qed.
Lemma closed_upd0_bump l : lst_inv l -> lst_closed (upd0 (bump Lo) l).
Proof.
  destruct l as [|[b|] r]; cbn.
  - intros _. constructor.
  - intros [H0 Hr]. constructor; auto. cbn. apply (sl_bump Laws), H0.
  - intros [H0 Hr]. constructor; auto.
Qed.
Lemma closed_switch l idx : lst_closed l -> lst_closed (switch l idx).
Proof.
  unfold lst_closed. rewrite !Forall_forall. intros H x Hx. apply H. eapply Permutation_in; [apply switch_perm|exact Hx].
Qed.
Lemma inv_bump_at l i b : lst_inv l -> nth_error l i = Some (Some b) -> lst_inv (set_nth l i (Some (bump Lo b))).
Proof. intros H E. apply inv_set_nth; auto. cbn. apply (sl_bump Laws). eapply inv_nth; eauto. Qed.

Lemma renum_sat P (l : list slot) : forall n, Forall (slot_sat P) l -> Forall (slot_sat P) (fst (renum l n)).
Proof.
  induction l as [|[b|] r IH]; intros n H; cbn; [constructor| |]; inversion H; subst.
  - specialize (IH (n + 1)%Z H3). destruct (renum r (n + 1)); cbn in *. constructor; auto.
  - specialize (IH n H3). destruct (renum r n); cbn in *. constructor; auto.
Qed.
Lemma inv_renum l n : lst_inv l -> lst_inv (fst (renum l n)).
Proof.
  destruct l as [|[b|] r]; cbn; auto; intros [H0 Hr].
  - pose proof (renum_sat closed r (n + 1)%Z Hr) as H. destruct (renum r (n + 1)); cbn in *. auto.
  - pose proof (renum_sat closed r n Hr) as H. destruct (renum r n); cbn in *. auto.
Qed.
Lemma walk_closed (l : list slot) : forall i, lst_closed l -> lst_closed (fst (list_walk Lo l i)).
Proof.
  induction l as [|[b|] r IH]; intros i H; cbn; auto. inversion H; subst. specialize (IH (S i) H3).
  destruct (list_walk Lo r (S i)); cbn in *. constructor; auto. cbn. apply (sl_bump Laws), (sl_closed_ok Laws), H2.
Qed.
Lemma inv_walk l i : lst_inv l -> lst_inv (fst (list_walk Lo l i)).
Proof.
  destruct l as [|[b|] r]; cbn; auto. intros [H0 Hr]. pose proof (walk_closed r (S i) Hr) as H.
  destruct (list_walk Lo r (S i)); cbn in *. split; auto. apply (sl_closed_ok Laws), (sl_bump Laws), H0.
Qed.

(* --- the table functions --- *)
Lemma load_bufs (s : st) : bufs (bufs_load s) = bufs s.
Proof. unfold bufs_load. destruct (slot0 s); reflexivity. Qed.

(* leaving by bufs_switch: afterwards EVERY buffer (the entered one included) has its step closed *)
Lemma switch_all_closed s idx : steps_inv s -> all_closed (bufs_switch Lo s idx).
Proof.
  intro H. unfold all_closed. rewrite switch_bufs. apply closed_switch. unfold saved. apply closed_upd0_bump.
  apply inv_upd0; auto.
Qed.
Lemma inv_switch s idx : steps_inv s -> steps_inv (bufs_switch Lo s idx).
Proof. intro H. apply closed_inv, switch_all_closed, H. Qed.
(* entering by bufs_shift (the current buffer is deleted): nothing is bumped, and nothing needs to be *)
Lemma shift_all_closed s : steps_inv s -> all_closed (bufs_shift s).
Proof.
  intro H. unfold all_closed, bufs_shift. rewrite load_bufs. cbn. unfold steps_inv in H. destruct (bufs s) as [|x r]; cbn in *.
  - constructor; cbn; auto.
  - destruct H as [_ Hr]. apply Forall_app. split; [exact Hr|]. constructor; cbn; auto.
Qed.
Lemma inv_shift_st s : steps_inv s -> steps_inv (bufs_shift s).
Proof. intro H. apply closed_inv, shift_all_closed, H. Qed.
Lemma inv_init s idx p : steps_inv s -> steps_inv (bufs_init Lo s idx p).
Proof. intro H. unfold steps_inv, bufs_init. cbn. apply inv_set_nth; auto. cbn. apply (sl_make Laws). Qed.
Lemma inv_modified s i : steps_inv s -> steps_inv (fst (bufs_modified Lo s i)).
Proof.
  intro H. unfold bufs_modified. destruct (nth_error (bufs s) i) as [[b|]|] eqn:E; cbn; auto.
  unfold steps_inv. cbn. apply inv_bump_at; auto.
Qed.
Lemma inv_goto s idx : steps_inv s -> steps_inv (fst (buffer_goto Lo s idx)).
Proof.
  intro H. unfold buffer_goto. destruct idx as [i|]; auto. destruct (occupied s i); auto.
  destruct (xwa s); [apply inv_switch, H|].
  pose proof (inv_modified s 0 H) as M. destruct (bufs_modified Lo s 0) as [s1 d]. cbn in M. destruct d; cbn; auto using inv_switch.
Qed.
Lemma inv_edit_read s named : steps_inv s -> steps_inv (fst (edit_read Lo s named)).
Proof.
  intro H. unfold edit_read. destruct (slot0 s) as [b|] eqn:E; auto. cbn. unfold steps_inv in *. cbn.
  unfold slot0 in E. destruct (bufs s) as [|x r]; [discriminate|]. subst x. cbn in *. destruct H as [H0 Hr]. split; auto.
  apply (sl_saved Laws). destruct (fs_get (fs s) (b_path b)); auto using (sl_rd Laws).
Qed.
Lemma inv_edit s bang ew a : steps_inv s -> steps_inv (fst (fst (ec_edit Lo s bang ew a))).
Proof.
  intro H. unfold ec_edit.
  set (pre := if bang || xwa s then (s, false) else bufs_modified Lo s 0).
  assert (P0 : steps_inv (fst pre)).
  { unfold pre. destruct (bang || xwa s); cbn [fst]; auto using inv_modified. }
  destruct pre as [s0 refused]. cbn [fst] in P0. destruct refused; cbn [fst]; auto.
  destruct (pathexpand s0 a) as [p|]; cbn [fst]; auto.
  set (nonempty := match p with [] => false | _ => true end).
  set (s1 := if nonempty && ew then match bufs_find s0 p with Some i => if (1 <? i)%nat then bufs_switch Lo s0 1 else s0 | None => s0 end else s0).
  assert (P1 : steps_inv s1).
  { unfold s1. destruct (nonempty && ew); auto. destruct (bufs_find s0 p); auto. destruct (1 <? n)%nat; auto using inv_switch. }
  clearbody s1. destruct (if nonempty then bufs_find s1 p else None); cbn [fst]; [apply inv_switch, P1|].
  set (s2 := if nonempty || is_free (slot0 s1) then let (s', idx) := bufs_open Lo s1 p in bufs_switch Lo s' idx else s1).
  assert (P2 : steps_inv s2).
  { unfold s2. destruct (nonempty || is_free (slot0 s1)); auto. unfold bufs_open. apply inv_switch, inv_init, P1. }
  clearbody s2. pose proof (inv_edit_read s2 nonempty P2) as R. destruct (edit_read Lo s2 nonempty); exact R.
Qed.
Lemma inv_next s dis : steps_inv s -> steps_inv (fst (ex_next Lo s dis)).
Proof.
  intro H. unfold ex_next.
  generalize (match nth_path (args s) (next_pos s) with Some _ => (next_pos s + dis)%Z | None => (-1)%Z end). intro idx.
  destruct (nth_path (args s) idx) as [p|]; auto.
  pose proof (inv_edit s false false (PLit p) H) as E. destruct (ec_edit Lo s false false (PLit p)) as [[s1 evs] k]. cbn [fst] in *.
  destruct k; exact E.
Qed.
Lemma inv_quit_walk : forall n s i, steps_inv s -> steps_inv (fst (quit_walk Lo s i n)).
Proof.
  induction n as [|n IH]; intros s i H; cbn [quit_walk fst]; auto.
  pose proof (inv_modified s i H) as M. destruct (bufs_modified Lo s i) as [s1 d]. cbn in M. destruct d; cbn [fst]; auto using inv_switch.
Qed.
Lemma inv_write s bang p : steps_inv s -> steps_inv (fst (ec_write Lo s bang p)).
Proof.
  intro H. unfold ec_write. destruct (slot0 s) as [b|] eqn:E; auto.
  destruct (negb bang && _); auto. destruct (negb bang && _ && _); auto.
  destruct (match p with Some q => q | None => b_path b end) eqn:Ep; auto.
  unfold slot0 in E. unfold steps_inv in *. destruct (bufs s) as [|x r] eqn:Eb; [discriminate|]. subst x. cbn in H. destruct H as [H0 Hr].
  destruct (b_path b) eqn:Ebp; cbn [fst]; cbn; rewrite ?Eb; cbn; (split; [|exact Hr]);
  repeat match goal with |- context [if ?c then _ else _] => destruct c end; cbn; auto using (sl_saved Laws).
Qed.
Lemma inv_op s o : steps_inv s -> steps_inv (fst (ec_op Lo s o)).
Proof.
  intro H. unfold ec_op. destruct (slot0 s) as [b|] eqn:E; auto.
  pose proof (sl_op Laws o (b_lb b) (xv s)) as O. destruct (lb_op Lo o (b_lb b) (xv s)) as [[lb' v'] out]. cbn in *.
  unfold steps_inv in *. cbn. unfold slot0 in E. destruct (bufs s) as [|x r]; [discriminate|]. subst x. cbn in *. destruct H as [H0 Hr]. auto.
Qed.

(* every single command, i.e. also every moment in the middle of a |-joined command line *)
Theorem steps_exec s c : steps_inv s -> steps_inv (fst (ex_exec Lo s c)).
Proof.
  intro H. destruct c; cbn [ex_exec].
  - pose proof (inv_edit s bang ew a H) as E. destruct (ec_edit Lo s bang ew a) as [[s1 evs] k]. exact E.
  - unfold ec_buffer_list. pose proof (inv_walk (bufs s) 0 H) as W. destruct (list_walk Lo (bufs s) 0). exact W.
  - unfold ec_buffer_del. cbn [fst]. pose proof (inv_shift_st s H) as S. destruct (slot0 (bufs_shift s)); auto using inv_init.
  - unfold ec_buffer_renum, bufs_number. cbn [fst]. pose proof (inv_renum (bufs s) 0 H) as R. destruct (renum (bufs s) 0). exact R.
  - apply inv_goto, H.
  - apply inv_goto, H.
  - apply inv_goto, H.
  - apply inv_goto, H.
  - apply inv_next, H.
  - apply inv_next, H.
  - unfold ec_quit. destruct bang; cbn [fst]; auto. pose proof (inv_quit_walk NB s 0 H) as Q.
    destruct (quit_walk Lo s 0 NB) as [s1 found]. cbn in Q. destruct found; exact Q.
  - apply inv_write, H.
  - exact H.
  - apply inv_op, H.
Qed.

Lemma closed_end s : steps_inv s -> all_closed (set_bufs s (upd0 (bump Lo) (bufs s))).
Proof. intro H. unfold all_closed. cbn. apply closed_upd0_bump, H. Qed.

Theorem steps_exec_all : forall cs s, steps_inv s -> steps_inv (fst (exec_all Lo s cs)).
Proof.
  induction cs as [|c r IH]; intros s H; cbn [exec_all fst]; auto.
  pose proof (steps_exec s c H) as E. destruct (ex_exec Lo s c) as [s1 e1]. cbn [fst] in E.
  specialize (IH s1 E). destruct (exec_all Lo s1 r) as [s2 e2]. exact IH.
Qed.
(* at the end of a command line nothing at all is open *)
Theorem steps_command s c : steps_inv s -> all_closed (fst (ex_command Lo s c)).
Proof.
  intro H. unfold ex_command. pose proof (steps_exec s c H) as E. destruct (ex_exec Lo s c) as [s1 evs]. cbn [fst] in *. apply closed_end, E.
Qed.
Theorem steps_line s cs : steps_inv s -> all_closed (fst (ex_line Lo s cs)).
Proof.
  intro H. unfold ex_line. pose proof (steps_exec_all cs s H) as E. destruct (exec_all Lo s cs) as [s1 evs]. cbn [fst] in *. apply closed_end, E.
Qed.
Theorem steps_init files argv : steps_inv (fst (ex_init Lo files argv)).
Proof.
  unfold ex_init.
  assert (H : steps_inv (init_st files argv)).
  { unfold steps_inv, init_st. cbn [bufs]. generalize NB. intros [|n]; cbn; [exact I|]. split; [exact I|].
    apply Forall_forall. intros x Hx. apply repeat_spec in Hx. subst. exact I. }
  match goal with |- context [ec_edit Lo ?s ?b ?e ?a] => pose proof (inv_edit s b e a H) as E; destruct (ec_edit Lo s b e a) as [[s1 evs] k] end. exact E.
Qed.
Theorem steps_run : forall cs s, steps_inv s -> steps_inv (run Lo s cs).
Proof.
  induction cs as [|c r IH]; intros s H; cbn [run]; auto. destruct (xquit s); auto. apply IH, closed_inv, steps_command, H.
Qed.

Theorem steps_run_lines : forall ls s, steps_inv s -> steps_inv (run_lines Lo s ls).
Proof.
  induction ls as [|l r IH]; intros s H; cbn [run_lines]; auto. destruct (xquit s); auto. apply IH, closed_inv, steps_line, H.
Qed.
(* every moment of every session: after the command lines ls, in the middle of the next line (after its commands cs) *)
Theorem steps_reachable files argv ls cs : steps_inv (fst (exec_all Lo (run_lines Lo (fst (ex_init Lo files argv)) ls) cs)).
Proof. apply steps_exec_all, steps_run_lines, steps_init. Qed.

(* the reading of the invariant: whatever was executed, a buffer in the background has no open step *)
Theorem background_closed s j b : steps_inv s -> (1 <= j)%nat -> nth_error (bufs s) j = Some (Some b) -> closed (b_lb b).
Proof.
  unfold steps_inv. destruct (bufs s) as [|x r]; intros H Hj E; [destruct j; discriminate|]. destruct j; [lia|]. cbn in E.
  destruct H as [_ Hr]. unfold lst_closed in Hr. rewrite Forall_forall in Hr. apply (Hr (Some b)). eapply nth_error_In, E.
Qed.

(* `:b !` -- the buffer that becomes current by deleting the current one is entered with its step closed, although
   bufs_shift does not call lbuf_modified: it was closed when that buffer was left *)
Theorem delete_enters_closed s b : steps_inv s -> slot0 (fst (ec_buffer_del Lo s)) = Some b -> closed (b_lb b).
Proof.
  intros H E. unfold ec_buffer_del in E. cbn [fst] in E. pose proof (shift_all_closed s H) as S.
  destruct (slot0 (bufs_shift s)) as [b'|] eqn:E0.
  - rewrite E0 in E. inversion E; subst. unfold all_closed, lst_closed, slot0 in *. destruct (bufs (bufs_shift s)); [discriminate|]. subst.
    inversion S; subst. assumption.
  - unfold bufs_init, slot0 in E. cbn in E. destruct (bufs (bufs_shift s)); cbn in E; [discriminate|]. inversion E; subst. cbn. apply (sl_make Laws).
Qed.

End Steps.

(* ------------------------------------------------------------------------------------------- *)
(* Part 2: the concrete line buffer of BufsDefs.v *)
Open Scope Z_scope.
Definition e_seq (e : Z * content * content) : Z := fst (fst e).
(* every record was made at or before the current value of the counter; the undo cursor is inside the log *)
Definition clb_ok (l : clb) : Prop :=
  (c_hu l <= length (c_hist l))%nat /\ Forall (fun e => e_seq e <= c_useq l) (c_hist l).
(* no open step: the counter was advanced after the last record was made, a new change starts a new step *)
Definition clb_closed (l : clb) : Prop :=
  (c_hu l <= length (c_hist l))%nat /\ Forall (fun e => e_seq e < c_useq l) (c_hist l).

Lemma Forall_firstn_loc {A} (P : A -> Prop) (l : list A) : forall n, Forall P l -> Forall P (firstn n l).
Proof. induction l; intros [|n] H; cbn; auto. inversion H; subst. constructor; auto. Qed.

Lemma clb_edit_ok new l : clb_ok l -> clb_ok (clb_edit new l).
Proof.
  intros [A B]. unfold clb_ok, clb_edit. cbn. split.
  - rewrite app_length, firstn_length. cbn. lia.
  - apply Forall_app. split; [apply Forall_firstn_loc, B|]. constructor; [cbn; lia|constructor].
Qed.
Lemma undo_loop_le h q : forall k t, (fst (BufsDefs.undo_loop h q k t) <= k)%nat.
Proof.
  induction k as [|k IH]; intro t; cbn; auto. destruct (nth_error h k) as [[[q' b] a]|]; cbn; auto.
  destruct (q' =? q); cbn; auto; try (specialize (IH b); lia).
Qed.
Lemma redo_loop_le h q : forall fuel k t, (k <= length h)%nat -> (fst (BufsDefs.redo_loop h q fuel k t) <= length h)%nat.
Proof.
  induction fuel as [|f IH]; intros k t Hk; cbn; auto. destruct (nth_error h k) as [[[q' b] a]|] eqn:E; cbn; auto.
  destruct (q' =? q); cbn; auto. apply IH.
  assert (k < length h)%nat by (apply nth_error_Some; rewrite E; discriminate). lia.
Qed.
Lemma clb_undo_ok l : clb_ok l -> clb_ok (clb_undo l).
Proof.
  intros [A B]. unfold clb_undo. destruct (c_hu l) as [|k] eqn:Eh; [split; auto; lia|].
  destruct (nth_error (c_hist l) k) as [[[q b] a]|]; [|split; auto; lia].
  pose proof (undo_loop_le (c_hist l) q (S k) (c_text l)) as U. destruct (BufsDefs.undo_loop (c_hist l) q (S k) (c_text l)) as [k' t'].
  cbn in U. split; cbn; auto. lia.
Qed.
Lemma clb_redo_ok l : clb_ok l -> clb_ok (clb_redo l).
Proof.
  intros [A B]. unfold clb_redo. destruct (nth_error (c_hist l) (c_hu l)) as [[[q b] a]|]; [|split; auto].
  pose proof (redo_loop_le (c_hist l) q (length (c_hist l)) (c_hu l) (c_text l) A) as U.
  destruct (BufsDefs.redo_loop (c_hist l) q (length (c_hist l)) (c_hu l) (c_text l)) as [k' t']. cbn in U. split; cbn; auto.
Qed.

Theorem clb_step_laws : step_laws clb_ops clb_ok clb_closed.
Proof.
  constructor.
  - intros l [A B]. split; auto. eapply Forall_impl; [|exact B]. cbn. intros; lia.
  - split; cbn; auto.
  - intros l [A B]. split; cbn; auto. eapply Forall_impl; [|exact B]. cbn. intros; lia.
  - intros c l H. cbn. apply clb_edit_ok, H.
  - intros cl l [A B]. cbn. unfold clb_saved. destruct cl; cbn; split; cbn; auto. eapply Forall_impl; [|exact B]. cbn. intros; lia.
  - intros o l v H. cbn. unfold cop_run. destruct o; cbn;
      repeat match goal with
             | |- context [region ?a ?r ?n] => destruct (region a r n) as [[? ?] ?]
             | |- context [if ?c then _ else _] => destruct c
             | |- context [match nth_error ?t ?k with _ => _ end] => destruct (nth_error t k)
             end; cbn; auto using clb_edit_ok, clb_undo_ok, clb_redo_ok.
Qed.

(* one or more changes of a buffer whose step is closed, then ONE undo *)
Definition edits (news : list content) (l : clb) : clb := fold_left (fun l new => clb_edit new l) news l.

Lemma edits_snoc news x l : edits (news ++ [x]) l = clb_edit x (edits news l).
Proof. unfold edits. rewrite fold_left_app. reflexivity. Qed.

Lemma edits_shape x0 l : clb_ok l -> forall news, let l' := edits (x0 :: news) l in
  c_useq l' = c_useq l /\ c_zero l' = c_zero l /\ c_last l' = c_last l /\
  c_hu l' = (c_hu l + S (length news))%nat /\ length (c_hist l') = c_hu l' /\
  firstn (c_hu l) (c_hist l') = firstn (c_hu l) (c_hist l) /\
  (forall i, (i <= length news)%nat -> exists b a, nth_error (c_hist l') (c_hu l + i) = Some (c_useq l, b, a)) /\
  (exists a, nth_error (c_hist l') (c_hu l) = Some (c_useq l, c_text l, a)).
Proof.
  intros [A B]. induction news as [|x news IH] using rev_ind.
  - cbn. assert (Lf : length (firstn (c_hu l) (c_hist l)) = c_hu l) by (rewrite firstn_length; lia).
    repeat split; auto.
    + lia.
    + rewrite app_length, Lf. cbn. lia.
    + rewrite firstn_app, Lf, Nat.sub_diag, firstn_firstn, Nat.min_id. cbn. apply app_nil_r.
    + intros i Hi. assert (i = 0)%nat by lia. subst. rewrite Nat.add_0_r, nth_error_app2 by lia. rewrite Lf, Nat.sub_diag. cbn. eauto.
    + rewrite nth_error_app2 by lia. rewrite Lf, Nat.sub_diag. cbn. eauto.
  - cbn zeta in *. change (x0 :: news ++ [x]) with ((x0 :: news) ++ [x]). rewrite edits_snoc.
    set (l1 := edits (x0 :: news) l) in *.
    destruct IH as (I1 & I2 & I3 & I4 & I5 & I6 & I7 & I8). clearbody l1.
    assert (Hf : firstn (c_hu l1) (c_hist l1) = c_hist l1) by (rewrite <- I5; apply firstn_all).
    unfold clb_edit. cbn. rewrite Hf. rewrite !app_length. cbn [length]. repeat split; auto.
    + lia.
    + lia.
    + rewrite firstn_app. replace (c_hu l - length (c_hist l1))%nat with 0%nat by lia. cbn. rewrite app_nil_r. exact I6.
    + intros i Hi. destruct (Nat.eq_dec i (S (length news))) as [->|Ne].
      * rewrite nth_error_app2 by lia. replace (c_hu l + S (length news) - length (c_hist l1))%nat with 0%nat by lia. cbn. rewrite I1. eauto.
      * rewrite nth_error_app1 by lia. apply I7. lia.
    + destruct I8 as [a I8]. exists a. rewrite nth_error_app1 by lia. exact I8.
Qed.

Lemma undo_run h q : forall n k t, (forall i, (i <= n)%nat -> exists b a, nth_error h (k + i) = Some (q, b, a)) ->
  forall b0 a0, nth_error h k = Some (q, b0, a0) -> BufsDefs.undo_loop h q (k + S n) t = BufsDefs.undo_loop h q k b0.
Proof.
  induction n as [|n IH]; intros k t H b0 a0 E0.
  - replace (k + 1)%nat with (S k) by lia. cbn. rewrite E0, Z.eqb_refl. reflexivity.
  - replace (k + S (S n))%nat with (S (k + S n)) by lia. cbn [BufsDefs.undo_loop].
    destruct (H (S n) (Nat.le_refl _)) as (b & a & E). rewrite E, Z.eqb_refl. apply (IH k b) with (a0 := a0); auto.
Qed.
Lemma undo_stop h q k t : (forall q' b a, (1 <= k)%nat -> nth_error h (k - 1) = Some (q', b, a) -> q' <> q) ->
  BufsDefs.undo_loop h q k t = (k, t).
Proof.
  destruct k as [|k]; [reflexivity|]. intro H. cbn [BufsDefs.undo_loop]. destruct (nth_error h k) as [[[q' b] a]|] eqn:E; auto.
  assert (X : q' <> q). { apply (H q' b a); [lia|]. replace (S k - 1)%nat with k by lia. exact E. }
  destruct (Z.eqb_spec q' q); [contradiction|reflexivity].
Qed.

(* a buffer with no open step: after any number (>= 1) of changes, ONE undo gives back the text, the undo cursor (so the
   earlier steps are still there to be undone one by one), the sequence number the dirty test compares -- the dirty
   flag is the one before these changes -- and leaves the counters alone *)
Theorem closed_changes_one_undo l x0 news : clb_closed l ->
  let l' := clb_undo (edits (x0 :: news) l) in
  c_text l' = c_text l /\ c_hu l' = c_hu l /\ firstn (c_hu l) (c_hist l') = firstn (c_hu l) (c_hist l) /\
  clb_seq l' = clb_seq l /\ snd (clb_modified l') = snd (clb_modified l) /\ c_useq l' = c_useq l /\ c_zero l' = c_zero l.
Proof.
  intros Hc. pose proof (sl_closed_ok _ _ _ clb_step_laws l Hc) as Hok. destruct Hc as [A B].
  destruct (edits_shape x0 l Hok news) as (I1 & I2 & I3 & I4 & I5 & I6 & I7 & [a0 I8]). cbn zeta.
  set (l1 := edits (x0 :: news) l) in *. clearbody l1.
  unfold clb_undo. rewrite I4. replace (c_hu l + S (length news))%nat with (S (c_hu l + length news)) by lia.
  destruct (I7 (length news) (Nat.le_refl _)) as (b & a & E). rewrite E.
  replace (S (c_hu l + length news)) with (c_hu l + S (length news))%nat by lia.
  rewrite (undo_run (c_hist l1) (c_useq l) (length news) (c_hu l) (c_text l1) I7 (c_text l) a0 I8).
  assert (Pre : forall j, (j < c_hu l)%nat -> nth_error (c_hist l1) j = nth_error (c_hist l) j).
  { intros j Hj. rewrite <- (nth_error_firstn' (c_hist l1) (c_hu l) j Hj), I6. apply nth_error_firstn'. exact Hj. }
  rewrite undo_stop.
  2:{ intros q' b' a' Hk E'. rewrite Pre in E' by lia. apply nth_error_In in E'. rewrite Forall_forall in B. specialize (B _ E'). cbn in B. lia. }
  cbn. assert (Sq : clb_seq (mkclb (c_text l) (c_hist l1) (c_hu l) (c_useq l1) (c_zero l1) (c_last l1)) = clb_seq l).
  { unfold clb_seq. cbn. destruct (c_hu l) as [|k] eqn:Ek; [exact I3|]. rewrite Pre by lia. rewrite I3. reflexivity. }
  repeat split; auto. rewrite Sq, I2. reflexivity.
Qed.

(* the same read on the table: a buffer that is in the background of ANY reachable state, or that has just become
   current by `:b !`, satisfies the hypothesis of closed_changes_one_undo *)
Theorem background_one_undo (s : st clb) j b x0 news : steps_inv clb_ok clb_closed s -> (1 <= j)%nat ->
  nth_error (bufs s) j = Some (Some b) ->
  let l' := clb_undo (edits (x0 :: news) (b_lb b)) in
  c_text l' = c_text (b_lb b) /\ c_hu l' = c_hu (b_lb b) /\ snd (clb_modified l') = snd (clb_modified (b_lb b)).
Proof.
  intros H Hj E. pose proof (background_closed clb_ok clb_closed s j b H Hj E) as C.
  destruct (closed_changes_one_undo (b_lb b) x0 news C) as (T & U & _ & _ & M & _). auto.
Qed.
Theorem delete_then_one_undo (s : st clb) b x0 news : steps_inv clb_ok clb_closed s ->
  slot0 (fst (ec_buffer_del clb_ops s)) = Some b ->
  let l' := clb_undo (edits (x0 :: news) (b_lb b)) in
  c_text l' = c_text (b_lb b) /\ c_hu l' = c_hu (b_lb b) /\ snd (clb_modified l') = snd (clb_modified (b_lb b)).
Proof.
  intros H E. pose proof (delete_enters_closed clb_ops clb_ok clb_closed clb_step_laws s b H E) as C.
  destruct (closed_changes_one_undo (b_lb b) x0 news C) as (T & U & _ & _ & M & _). auto.
Qed.

(* every moment of every session of the concrete model: a background buffer takes changes + one undo as above *)
Theorem reachable_one_undo files argv ls cs j (b : buf clb) (x0 : content) (news : list content) :
  let s := fst (exec_all clb_ops (run_lines clb_ops (fst (ex_init clb_ops files argv)) ls) cs) in
  (1 <= j)%nat -> nth_error (bufs s) j = Some (Some b) ->
  clb_closed (b_lb b) /\
  (let l' := clb_undo (edits (x0 :: news) (b_lb b)) in
   c_text l' = c_text (b_lb b) /\ c_hu l' = c_hu (b_lb b) /\ snd (clb_modified l') = snd (clb_modified (b_lb b))).
Proof.
  cbn zeta. intros Hj E. pose proof (steps_reachable clb_ops clb_ok clb_closed clb_step_laws files argv ls cs) as H.
  split; [exact (background_closed clb_ok clb_closed _ j b H Hj E)|]. exact (background_one_undo _ j b x0 news H Hj E).
Qed.

(* ------------------------------------------------------------------------------------------- *)
(* Part 3: the bump moved below the rotation -- "a switch starts a new step for the buffer that is entered" instead of
   "the command ends for the buffer that is left".  As long as a buffer is re-entered through this function the two
   read the same; but the buffer that is left keeps an OPEN step in the background, and bufs_shift enters it as it is. *)
Definition bufs_switch_entered {L Op Out : Type} (Lo : lops L Op Out) (s : st L) (idx : nat) : st L :=
  let s1 := bufs_save s in
  let s2 := set_bufs s1 (switch (bufs s1) idx) in
  bufs_load (set_bufs s2 (upd0 (bump Lo) (bufs s2))).

(* two buffers; the current one has just been changed (its step is open, which is fine for the current buffer) *)
Definition sw_l0 : clb := clb_edit [[88%N]] (clb_saved true (clb_edit [[97%N]] clb_make)).
Definition sw_st : st clb :=
  mkst (Some (mkbuf 1 [97%N] sw_l0 view0 1) :: Some (mkbuf 2 [98%N] (clb_saved true clb_make) view0 1) :: repeat None 14)
       2 view0 [] [] 0 false false [97%N].
(* `b !` in the state st, then a change and ONE undo: (text, dirty flag) of the buffer that became current *)
Definition del_change_undo (s : st clb) : option (content * bool) :=
  match slot0 (fst (ec_buffer_del clb_ops s)) with
  | Some b => let l' := clb_undo (clb_edit [[89%N]] (b_lb b)) in Some (c_text l', snd (clb_modified l'))
  | None => None
  end.

Theorem switch_entered_breaks :
  steps_inv clb_ok clb_closed sw_st /\
  steps_inv clb_ok clb_closed (bufs_switch clb_ops sw_st 1) /\
  ~ steps_inv clb_ok clb_closed (bufs_switch_entered clb_ops sw_st 1) /\
  (* with the real function the first change is kept and the buffer is still modified; with the other one both
     changes are gone after the one undo and the buffer counts as unmodified *)
  del_change_undo (bufs_switch clb_ops sw_st 1) = Some ([[88%N]], true) /\
  del_change_undo (bufs_switch_entered clb_ops sw_st 1) = Some ([[97%N]], false).
Proof.
  assert (Ok0 : clb_ok sw_l0). { split; [vm_compute; lia|]. cbn. repeat constructor; cbn; lia. }
  assert (Cl1 : clb_closed (clb_saved true clb_make)). { split; [vm_compute; lia|]. cbn. constructor. }
  assert (S0 : steps_inv clb_ok clb_closed sw_st).
  { unfold steps_inv, sw_st. cbn [bufs lst_inv slot_sat b_lb]. split; [exact Ok0|]. constructor; [exact Cl1|].
    apply Forall_forall. intros x Hx. apply repeat_spec in Hx. subst. exact I. }
  split; [exact S0|]. split; [apply (inv_switch clb_ops clb_ok clb_closed clb_step_laws), S0|].
  split.
  { intro H. pose proof (background_closed clb_ok clb_closed _ 1%nat (mkbuf 1 [97%N] sw_l0 view0 1) H (Nat.le_refl 1)) as C.
    assert (E : nth_error (bufs (bufs_switch_entered clb_ops sw_st 1)) 1 = Some (Some (mkbuf 1 [97%N] sw_l0 view0 1))) by (vm_compute; reflexivity).
    specialize (C E). destruct C as [_ C]. cbn in C. inversion C as [|? ? C1 C2]; subst. cbn in C1. lia. }
  split; vm_compute; reflexivity.
Qed.
