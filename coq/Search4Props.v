(* Search4Props.v -- C13, round i/j: proofs about coq/Search4Defs.v.
   (a) the literal scan of rstr.c examines every start offset: its answer is the least boundary-qualified occurrence of the window;
   (b) a search does not depend on the history of the session beyond the documented state (last pattern, direction, line offset),
       and not at all on what was compiled -- and rejected -- before (the flag re_bad of regex.c). *)
From Coq Require Import List NArith ZArith Bool Arith Lia.
From NV Require Import Bytes UcDefs GenConsts SearchDefs SearchProps Search2Defs Search2Props Search4Defs.
From NV Require ReSyntax RsetDefs ReStateDefs ReStateProps.
Import ListNotations.
Local Open Scope nat_scope.

(* ---------------------------------------------------------------------------------------------- *)
(* (a) *)

Lemma before_word prev s e :
  (match e with O => negb (prev_word prev) | S q => negb (isword_b (nthb s q)) end) = negb (prev_word (before prev s e)).
Proof. destruct e; reflexivity. Qed.

Lemma occurs_atb_match ic l s r : occurs_atb ic l s r = negb (match_case ic (skipn r s) l).
Proof.
  destruct (occurs_atb ic l s r) eqn:A.
  - apply occurs_atb_spec, occurs_at_match in A. now rewrite A.
  - destruct (match_case ic (skipn r s) l) eqn:M; [reflexivity|].
    apply occurs_at_match, occurs_atb_spec in M. congruence.
Qed.

(* one round of the for loop of rstr_find: take offset r when the literal qualifies there, otherwise go on AT r + 1 *)
Lemma loop_step ic sp prev s r k :
  rstr_loop ic sp prev s r (S k) =
  if qualifiesb ic sp prev s r then Some (r, r + length (lit sp)) else rstr_loop ic sp prev s (S r) k.
Proof.
  cbn [rstr_loop]. rewrite before_word. unfold qualifiesb, wbeg_ok, wend_ok. rewrite occurs_atb_match.
  change (match r with O => prev | S q => Some (nthb s q) end) with (before prev s r).
  destruct (wbeg sp), (wend sp), (prev_word (before prev s r)), (isword_b (nthb s r)),
    (nthb s (r + length (lit sp)) =? 0)%N, (prev_word (before prev s (r + length (lit sp)))),
    (isword_b (nthb s (r + length (lit sp)))), (match_case ic (skipn r s) (lit sp)); reflexivity.
Qed.

Lemma qualifiesb_spec ic sp prev s r : qualifiesb ic sp prev s r = true <-> qualifies ic sp prev s r.
Proof.
  unfold qualifiesb, qualifies. rewrite !andb_true_iff, occurs_atb_spec.
  destruct (wbeg sp), (wend sp); cbn [implb]; intuition congruence.
Qed.

(* the scan from offset b over cnt offsets: the LEAST qualifying offset of b .. b + cnt - 1, none when there is none.
   Nothing is skipped -- an occurrence that fails its boundary test does not hide one that begins inside it. *)
Theorem rstr_loop_least ic sp prev s : forall cnt b,
  match rstr_loop ic sp prev s b cnt with
  | Some (p, e) => b <= p < b + cnt /\ e = p + length (lit sp) /\ qualifies ic sp prev s p /\
                   forall q, b <= q < p -> ~ qualifies ic sp prev s q
  | None => forall q, b <= q < b + cnt -> ~ qualifies ic sp prev s q
  end.
Proof.
  induction cnt as [|k IH]; intros b; [cbn [rstr_loop]; intros q Hq; lia|].
  rewrite loop_step. destruct (qualifiesb ic sp prev s b) eqn:Q.
  - apply qualifiesb_spec in Q. split; [lia|]. split; [reflexivity|]. split; [exact Q|]. intros q Hq. lia.
  - assert (Hn : ~ qualifies ic sp prev s b) by (rewrite <- qualifiesb_spec; congruence).
    specialize (IH (S b)). destruct (rstr_loop ic sp prev s (S b) k) as [[p e]|].
    + destruct IH as (H1 & H2 & H3 & H4). split; [lia|]. split; [exact H2|]. split; [exact H3|].
      intros q Hq. destruct (Nat.eq_dec q b) as [->|Hne]; [exact Hn|]. apply H4. lia.
    + intros q Hq. destruct (Nat.eq_dec q b) as [->|Hne]; [exact Hn|]. apply IH. lia.
Qed.

(* rstr_find on  ^? \<? literal \>? $?  : the least candidate offset at which the literal qualifies *)
Theorem literal_least ic notbol sp prev s :
  match rstr_find_simple ic notbol sp prev s with
  | Some (p, e) => e = p + length (lit sp) /\ candidate sp prev notbol s p /\ qualifies ic sp prev s p /\
                   forall q, q < p -> candidate sp prev notbol s q -> ~ qualifies ic sp prev s q
  | None => forall q, candidate sp prev notbol s q -> ~ qualifies ic sp prev s q
  end.
Proof.
  unfold rstr_find_simple, candidate.
  destruct (lbeg sp && negb (bol_ok prev notbol s)) eqn:B.
  { apply andb_true_iff in B. destruct B as [B1 B2]. apply negb_true_iff in B2.
    intros q (_ & Hb & _). destruct (Hb B1) as [_ Hb2]. congruence. }
  destruct (length s <? length (lit sp) + 1) eqn:L.
  { apply Nat.ltb_lt in L. intros q (Hq & _). lia. }
  apply Nat.ltb_ge in L.
  set (len := length (lit sp)) in *. set (e0 := length s - len - 1).
  assert (Hbol : lbeg sp = true -> bol_ok prev notbol s = true).
  { intros E. rewrite E in B. cbn in B. now apply negb_false_iff in B. }
  destruct ((if lbeg sp then 0 else e0) <? (if lend sp then e0 else 0)) eqn:W.
  { apply Nat.ltb_lt in W. intros q (Hq & Hb & He). destruct (lbeg sp), (lend sp); try lia;
      destruct (Hb eq_refl) as [-> _]; specialize (He eq_refl); lia. }
  apply Nat.ltb_ge in W.
  pose proof (rstr_loop_least ic sp prev s (S ((if lbeg sp then 0 else e0) - (if lend sp then e0 else 0)))
                (if lend sp then e0 else 0)) as F.
  destruct (rstr_loop ic sp prev s _ _) as [[p e]|].
  - destruct F as (H1 & H2 & H3 & H4). split; [exact H2|]. split.
    + split; [destruct (lbeg sp), (lend sp); lia|]. split.
      * intros E. split; [rewrite E in *; lia|auto].
      * intros E. rewrite E in *. destruct (lbeg sp); lia.
    + split; [exact H3|]. intros q Hq (C1 & C2 & C3). apply H4.
      destruct (lend sp); [specialize (C3 eq_refl); lia|lia].
  - intros q (C1 & C2 & C3). apply F.
    destruct (lbeg sp), (lend sp); try (destruct (C2 eq_refl) as [-> _]); try specialize (C3 eq_refl); lia.
Qed.

(* the same for the reference matcher on a pattern string that rstr_simple accepts *)
Theorem ref_literal_least ic kw sp prev notbol s : rstr_simple kw = Some sp ->
  match ref_find ic kw prev notbol s with
  | Some (p, e) => e = p + length (lit sp) /\ candidate sp prev notbol s p /\ qualifies ic sp prev s p /\
                   forall q, q < p -> candidate sp prev notbol s q -> ~ qualifies ic sp prev s q
  | None => forall q, candidate sp prev notbol s q -> ~ qualifies ic sp prev s q
  end.
Proof. intros H. unfold ref_find. rewrite H. apply literal_least. Qed.

(* ---------------------------------------------------------------------------------------------- *)
(* (b) the search state *)

Lemma prompt_search_forgets st st' delim typed : fst (re_read delim typed) <> [] ->
  prompt_search st delim typed = prompt_search st' delim typed.
Proof.
  unfold prompt_search. destruct (re_read delim typed) as [re rest]. cbn [fst]. intros H.
  destruct re as [|c re]; [contradiction|]. reflexivity.
Qed.

(* a / or ? command with a pattern of its own: outcome, landing position AND the state it leaves are functions of
   (text, cursor, typed text, count) -- nothing of the state before it survives *)
Theorem prompt_forgets fmk rcomp st st' lb cmd cnt xrow xoff : carries_pattern cmd = true ->
  search_cmd fmk rcomp st lb cmd cnt xrow xoff = search_cmd fmk rcomp st' lb cmd cnt xrow xoff.
Proof.
  destruct cmd as [t|t| | |]; cbn [carries_pattern]; try discriminate; intros H; unfold search_cmd, vi_search.
  - rewrite (prompt_search_forgets st st' 47%N t); [reflexivity|]. intro E. rewrite E in H. discriminate.
  - rewrite (prompt_search_forgets st st' 63%N t); [reflexivity|]. intro E. rewrite E in H. discriminate.
Qed.

Lemma run_cmds_app fmk rcomp lb a b : forall st xrow xoff,
  run_cmds fmk rcomp st lb (a ++ b) xrow xoff =
  run_cmds fmk rcomp st lb a xrow xoff ++
  run_cmds fmk rcomp (fst (state_after fmk rcomp st lb a xrow xoff)) lb b
           (fst (snd (state_after fmk rcomp st lb a xrow xoff))) (snd (snd (state_after fmk rcomp st lb a xrow xoff))).
Proof.
  induction a as [|[c n] a IH]; intros st xrow xoff; [reflexivity|].
  cbn [app run_cmds state_after]. destruct (search_cmd fmk rcomp st lb c n xrow xoff) as [[st1 ok] [r o]].
  cbn [app]. f_equal. apply IH.
Qed.

Lemma run_cmds_length fmk rcomp lb cmds : forall st xrow xoff, length (run_cmds fmk rcomp st lb cmds xrow xoff) = length cmds.
Proof.
  induction cmds as [|[c n] a IH]; intros st xrow xoff; [reflexivity|].
  cbn [run_cmds]. destruct (search_cmd fmk rcomp st lb c n xrow xoff) as [[st1 ok] [r o]]. cbn [length]. f_equal. apply IH.
Qed.

(* commands that fail (nothing found, a malformed pattern, a bad offset) leave the cursor where it was *)
Lemma failed_cursor fmk rcomp lb cmds : forall st xrow xoff,
  Forall (fun x => fst x = false) (run_cmds fmk rcomp st lb cmds xrow xoff) ->
  snd (state_after fmk rcomp st lb cmds xrow xoff) = (xrow, xoff).
Proof.
  induction cmds as [|[c n] a IH]; intros st xrow xoff H; [reflexivity|].
  cbn [run_cmds state_after] in *. destruct (search_cmd fmk rcomp st lb c n xrow xoff) as [[st1 ok] [r o]] eqn:E.
  inversion H as [|? ? H1 H2]; subst. cbn [fst] in H1. subst ok.
  apply fail_in_place in E. injection E as -> ->. apply IH. exact H2.
Qed.

(* two histories -- any states, any commands -- that leave the cursor at the same place: from a command that carries its
   pattern on, the rest of the session is the same *)
Theorem history_irrelevant fmk rcomp lb h1 h2 st1 st2 x1 y1 x2 y2 cmd n rest : carries_pattern cmd = true ->
  snd (state_after fmk rcomp st1 lb h1 x1 y1) = snd (state_after fmk rcomp st2 lb h2 x2 y2) ->
  skipn (length h1) (run_cmds fmk rcomp st1 lb (h1 ++ (cmd, n) :: rest) x1 y1) =
  skipn (length h2) (run_cmds fmk rcomp st2 lb (h2 ++ (cmd, n) :: rest) x2 y2).
Proof.
  intros Hc He. rewrite !run_cmds_app.
  rewrite <- (run_cmds_length fmk rcomp lb h1 st1 x1 y1) at 1. rewrite <- (run_cmds_length fmk rcomp lb h2 st2 x2 y2) at 1.
  rewrite !skipn_app, !skipn_all, !Nat.sub_diag. cbn [app skipn].
  rewrite He. cbn [run_cmds].
  rewrite (prompt_forgets fmk rcomp (fst (state_after fmk rcomp st1 lb h1 x1 y1)) (fst (state_after fmk rcomp st2 lb h2 x2 y2)) lb cmd n _ _ Hc).
  reflexivity.
Qed.

(* a history of failed commands (malformed patterns, patterns without a match) is invisible: the command that carries its
   pattern and everything after it run as in a fresh session started at the same cursor *)
Theorem failed_history_invisible fmk rcomp lb hist st xrow xoff cmd n rest : carries_pattern cmd = true ->
  Forall (fun x => fst x = false) (run_cmds fmk rcomp st lb hist xrow xoff) ->
  run_cmds fmk rcomp st lb (hist ++ (cmd, n) :: rest) xrow xoff =
  run_cmds fmk rcomp st lb hist xrow xoff ++ run_cmds fmk rcomp sstate0 lb ((cmd, n) :: rest) xrow xoff.
Proof.
  intros Hc Hf. rewrite run_cmds_app. f_equal.
  pose proof (failed_cursor fmk rcomp lb hist st xrow xoff Hf) as E.
  destruct (state_after fmk rcomp st lb hist xrow xoff) as [st' [r o]]. cbn [fst snd] in *. injection E as -> ->.
  cbn [run_cmds]. rewrite (prompt_forgets fmk rcomp st' sstate0 lb cmd n xrow xoff Hc). reflexivity.
Qed.

(* ---------------------------------------------------------------------------------------------- *)
(* (b) the flag: when the answer of a compilation does not depend on the flag it finds, no search of a session does *)

Section FlagProps.
Variable fmk : bytes -> bytes -> nat -> option (nat * nat).
Variable rcomp_st : bytes -> bool -> bool * bool.
Variable rcomp : bytes -> bool.
Hypothesis flag_free : forall kw fl, fst (rcomp_st kw fl) = rcomp kw.

Lemma lbuf_search_st_fst kw lb fwd r0 o0 fl :
  fst (lbuf_search_st fmk rcomp_st kw lb fwd r0 o0 fl) = lbuf_search fmk rcomp kw lb fwd r0 o0.
Proof.
  unfold lbuf_search_st, lbuf_search. rewrite <- (flag_free kw fl). destruct (rcomp_st kw fl) as [c fl1]. reflexivity.
Qed.

Lemma search_iter_st_fst : forall cnt kw lb fwd r o fl,
  fst (search_iter_st fmk rcomp_st cnt kw lb fwd r o fl) = search_iter fmk rcomp cnt kw lb fwd r o.
Proof.
  induction cnt as [|c IH]; intros kw lb fwd r o fl; [reflexivity|].
  cbn [search_iter_st search_iter]. rewrite <- (lbuf_search_st_fst kw lb fwd r o fl).
  destruct (lbuf_search_st fmk rcomp_st kw lb fwd r o fl) as [x fl1]. cbn [fst].
  destruct x; try reflexivity. apply IH.
Qed.

Lemma vi_search_st_fst st lb cmd cnt row off fl :
  fst (vi_search_st fmk rcomp_st st lb cmd cnt row off fl) = vi_search fmk rcomp st lb cmd cnt row off.
Proof.
  unfold vi_search_st, vi_search. destruct lb as [|l0 lb]; [reflexivity|].
  set (st1 := match cmd with CSlash t => prompt_search st 47%N t | CQuest t => prompt_search st 63%N t | _ => st end).
  destruct (kdir st1 =? 0)%Z; [reflexivity|].
  rewrite <- (search_iter_st_fst cnt (kwd st1) (l0 :: lb) _ row off fl).
  destruct (search_iter_st fmk rcomp_st cnt (kwd st1) (l0 :: lb) _ row off fl) as [x fl1]. cbn [fst].
  destruct x; try reflexivity. destruct (soset st1); [|reflexivity]. destruct (_ || _); reflexivity.
Qed.

Lemma search_cmd_st_fst st lb cmd cnt xrow xoff fl :
  fst (search_cmd_st fmk rcomp_st st lb cmd cnt xrow xoff fl) = search_cmd fmk rcomp st lb cmd cnt xrow xoff.
Proof.
  unfold search_cmd_st, search_cmd.
  destruct (match cmd with
            | CWord => match vi_curword (nth xrow lb []) (ren_noeol (nth xrow lb []) xoff) with
                       | Some w => ({| kwd := firstn (Z.to_nat EXLEN - 1) ([92; 60]%N ++ w ++ [92; 62]%N);
                                       kdir := 1%Z; soset := false; so := so st |}, true)
                       | None => (st, false)
                       end
            | _ => (st, true)
            end) as [st0 ok0].
  destruct (negb ok0); [reflexivity|].
  rewrite <- (vi_search_st_fst st0 lb _ cnt xrow _ fl).
  destruct (vi_search_st fmk rcomp_st st0 lb _ cnt xrow _ fl) as [[st1 res] fl1]. cbn [fst].
  destruct res as [[r oo]|]; reflexivity.
Qed.

Theorem run_cmds_st_fst lb cmds : forall st xrow xoff fl,
  fst (run_cmds_st fmk rcomp_st st lb cmds xrow xoff fl) = run_cmds fmk rcomp st lb cmds xrow xoff.
Proof.
  induction cmds as [|[c n] rest IH]; intros st xrow xoff fl; [reflexivity|].
  cbn [run_cmds_st run_cmds]. rewrite <- (search_cmd_st_fst st lb c n xrow xoff fl).
  destruct (search_cmd_st fmk rcomp_st st lb c n xrow xoff fl) as [[[st1 ok] [r o]] fl1]. cbn [fst].
  specialize (IH st1 r o fl1). destruct (run_cmds_st fmk rcomp_st st1 lb rest r o fl1) as [out fl2]. cbn [fst] in *.
  rewrite IH. reflexivity.
Qed.
End FlagProps.

(* the compile chain of the code (fast path, else rset_make -> regcomp with "re_bad = 0;" on entry) answers as the pure
   function whatever the flag was *)
Lemma code_rcomp_flag_free ic kw fl : fst (code_rcomp_st ic kw fl) = code_rcomp ic kw.
Proof.
  unfold code_rcomp_st, code_rcomp_gen, code_rcomp. destruct (rstr_simple kw); [reflexivity|].
  pose proof (ReStateProps.rset_make_st_fst [Some kw] (if ic then RE_ICASE else 0%Z) fl) as E.
  unfold ReStateDefs.rset_make_st in E.
  destruct (ReStateDefs.rset_make_gen true ([Some kw], if ic then RE_ICASE else 0%Z) fl) as [m fl1]. cbn [fst] in E. subst m.
  destruct (RsetDefs.rset_make [Some kw] (if ic then RE_ICASE else 0%Z)) as [[x|]|w|]; reflexivity.
Qed.

(* for every matcher, text, cursor, initial search state, EVERY sequence of / ? n N ^A commands and every value the flag
   has when the session starts: outcomes and landing positions are those of the flag-free model *)
Theorem session_flag_free fmk ic lb cmds st xrow xoff fl :
  fst (run_cmds_st fmk (code_rcomp_st ic) st lb cmds xrow xoff fl) = run_cmds fmk (code_rcomp ic) st lb cmds xrow xoff.
Proof. apply run_cmds_st_fst. intros kw fl0. apply code_rcomp_flag_free. Qed.
