(* Extract_undobufs.v -- extraction of the buffer table of ex.c with the edit log of lbuf.c as payload
   (UndoBufsDefs.v; C04 over several buffers) to OCaml (ExtrOcamlBasic only). *)
From Coq Require Import List NArith ZArith Extraction ExtrOcamlBasic.
From NV Require Import GenConsts UndoDefs BufsDefs UndoBufsDefs.
Definition all_types : nat * N * Z := (0%nat, 0%N, 0%Z).
Extraction "undobufs_model.ml" all_types u_init u_line u_lines u_trace cur_text cur_id_of edits_cmd undo_cmd redo_cmd view0 xquit.
