(* GlobDepth.v -- C15: what the guard of ec_glob (`if (xgdep >= 7) { ex_show("global nesting too deep"); return 1; }`,
   /repo daf82c9) buys: (1) the instrumented interpreter of GlobDepthDefs.v computes exactly what ExDefs computes;
   (2) EVERY depth it hands to lbuf_globset / lbuf_globget is between 1 and 7 -- from any state, for any script;
   (3) a global started at nesting depth 7 or deeper fails: message, result 1, nothing else changes;
   (4) the model's limit is the constant of the C text (GenConsts.GLOB_DEPMAX, regenerated from /repo). *)
From Coq Require Import List NArith ZArith Bool Lia.
From NV Require Import Bytes GenConsts ExDefs GlobDefs GlobNest GlobDepthDefs.
Import ListNotations.
Local Open Scope Z_scope.

Definition dep_ok (d : N) : Prop := (1 <= d <= 7)%N.

Lemma gdepmax_is_c : Z.of_nat GDEPMAX = GLOB_DEPMAX.
Proof. reflexivity. Qed.

Section P.
Variable rvalid : bytes -> bool.
Variable rfind : bytes -> bytes -> bool -> option (nat * nat).
Variable filter : bytes -> bytes -> option bytes.
Variable readfile : bytes -> option bytes.
Variable curpath : bytes.

(* (3) the refused global *)
Lemma glob_too_deep exec fuel loc cmd arg s : (GDEPMAX <= xgdep s)%nat ->
  ec_glob rvalid rfind exec fuel loc cmd arg s = (emit s (OMsg M_GDEEP), 1).
Proof. intro H. unfold ec_glob. apply Nat.leb_le in H. rewrite H. reflexivity. Qed.

Section Rec.
Variable exec : bytes -> st -> st * Z.
Variable execd : bytes -> st -> st * Z * list N.
Hypothesis erase : forall b s, fst (execd b s) = exec b s.

Lemma glob_loop_d_erase : forall fuel i pat body not dep s,
  fst (glob_loop_d rfind execd fuel i pat body not dep s) = glob_loop rfind exec fuel i pat body not dep s.
Proof.
  induction fuel as [|f IH]; intros i pat body not dep s; [reflexivity|]. cbn [glob_loop_d glob_loop].
  destruct (nth_error (lns (lb s)) i) as [x|]; [|reflexivity].
  set (run := Bool.eqb _ not).
  assert (E : fst (if run then execd body (set_xrow s (Z.of_nat i)) else (s, 0, [])) =
              (if run then exec body (set_xrow s (Z.of_nat i)) else (s, 0))).
  { destruct run; [apply erase | reflexivity]. }
  destruct (if run then execd body (set_xrow s (Z.of_nat i)) else (s, 0, [])) as [[s1 r] t1]. cbn [fst] in E. rewrite <- E.
  destruct (run && negb (r =? 0)); [reflexivity|].
  destruct (glob_scan _ dep (lb s1)) as [j l]. rewrite <- IH.
  destruct (glob_loop_d rfind execd f j pat body not dep (set_lb s1 l)). reflexivity.
Qed.

Lemma ec_glob_d_erase fuel loc cmd arg s :
  fst (ec_glob_d rvalid rfind execd fuel loc cmd arg s) = ec_glob rvalid rfind exec fuel loc cmd arg s.
Proof.
  unfold ec_glob_d, ec_glob. destruct (GDEPMAX <=? xgdep s)%nat; [reflexivity|].
  destruct (ex_region rvalid rfind _ s) as [[[bad b] e] s1]. destruct (_ || _); [reflexivity|].
  destruct (re_read arg) as [pat body]. destruct (kwddir _ =? 0); [reflexivity|]. destruct (negb _); [reflexivity|].
  rewrite <- glob_loop_d_erase. destruct (glob_loop_d _ _ _ _ _ _ _ _ _). reflexivity.
Qed.

Lemma ec_at_d_erase loc arg s : fst (ec_at_d rvalid rfind execd loc arg s) = ec_at rvalid rfind exec loc arg s.
Proof.
  unfold ec_at_d, ec_at. destruct (reg_special _); [reflexivity|]. destruct (reg_get s _) as [buf|]; [|reflexivity].
  destruct (ex_region rvalid rfind loc s) as [[[bad b] e] s1]. destruct (_ || _); [reflexivity|].
  rewrite <- erase. destruct (execd buf (set_xrow s1 b)) as [[s2 r] t]. reflexivity.
Qed.

End Rec.

Section RecOk.
Variable execd : bytes -> st -> st * Z * list N.
(* (2) for one global, given the same of its executor *)
Hypothesis exec_ok : forall b s, Forall dep_ok (snd (execd b s)).

Lemma glob_loop_d_ok : forall fuel i pat body not dep s, dep_ok dep ->
  Forall dep_ok (snd (glob_loop_d rfind execd fuel i pat body not dep s)).
Proof.
  induction fuel as [|f IH]; intros i pat body not dep s D; [constructor|]. cbn [glob_loop_d].
  destruct (nth_error (lns (lb s)) i) as [x|]; [|constructor].
  set (run := Bool.eqb _ not).
  assert (E : Forall dep_ok (snd (if run then execd body (set_xrow s (Z.of_nat i)) else (s, 0, [])))).
  { destruct run; [apply exec_ok | constructor]. }
  destruct (if run then execd body (set_xrow s (Z.of_nat i)) else (s, 0, [])) as [[s1 r] t1]. cbn [snd] in E.
  destruct (run && negb (r =? 0)); [exact E|].
  destruct (glob_scan _ dep (lb s1)) as [j l].
  specialize (IH j pat body not dep (set_lb s1 l) D).
  destruct (glob_loop_d rfind execd f j pat body not dep (set_lb s1 l)) as [s2 t2]. cbn [snd] in *.
  apply Forall_app. split; [exact E|]. constructor; assumption.
Qed.

Lemma ec_glob_d_ok fuel loc cmd arg s : Forall dep_ok (snd (ec_glob_d rvalid rfind execd fuel loc cmd arg s)).
Proof.
  unfold ec_glob_d. destruct (GDEPMAX <=? xgdep s)%nat eqn:G; [constructor|].
  destruct (ex_region rvalid rfind _ s) as [[[bad b] e] s1] eqn:R. destruct (_ || _); [constructor|].
  destruct (re_read arg) as [pat body]. destruct (kwddir _ =? 0); [constructor|]. destruct (negb _); [constructor|].
  assert (X : xgdep (kwdset_if s1 pat 1) = xgdep s).
  { destruct (T_region rvalid rfind _ _ _ _ _ _ R) as [X1 _]. rewrite <- X1.
    pose proof (kwdset_if_lg s1 pat 1) as K. unfold lg in K. congruence. }
  assert (D : dep_ok (N.of_nat (S (xgdep (kwdset_if s1 pat 1))))).
  { rewrite X. apply Nat.leb_gt in G. unfold GDEPMAX in G. unfold dep_ok. lia. }
  match goal with |- context [glob_loop_d rfind execd fuel ?i ?p ?bd ?nt ?dp ?s4] =>
    pose proof (glob_loop_d_ok fuel i p bd nt dp s4 D) as L; destruct (glob_loop_d rfind execd fuel i p bd nt dp s4) as [s5 t] end.
  cbn [snd] in *. constructor; [exact D|]. apply Forall_app. split; [exact L|]. constructor; [exact D|constructor].
Qed.

Lemma ec_at_d_ok loc arg s : Forall dep_ok (snd (ec_at_d rvalid rfind execd loc arg s)).
Proof.
  unfold ec_at_d. destruct (reg_special _); [constructor|]. destruct (reg_get s _) as [buf|]; [|constructor].
  destruct (ex_region rvalid rfind loc s) as [[[bad b] e] s1]. destruct (_ || _); [constructor|].
  pose proof (exec_ok buf (set_xrow s1 b)) as H. destruct (execd buf (set_xrow s1 b)) as [[s2 r] t]. exact H.
Qed.
End RecOk.

Notation exd := (ex_exec_d rvalid rfind filter readfile curpath).
Notation ex := (ex_exec rvalid rfind filter readfile curpath).

(* (1) the instrumented interpreter computes what ExDefs computes *)
Theorem ex_exec_d_erase : forall fuel ret ln s, fst (exd fuel ret ln s) = ex fuel ret ln s.
Proof.
  induction fuel as [|f IH]; intros ret ln s; [reflexivity|]. cbn [ex_exec_d ex_exec].
  destruct ln as [|c ln]; [reflexivity|].
  destruct (ex_loc (c :: ln)) as [ln1 loc]. destruct (ex_cmd ln1) as [ln2 cmd].
  set (abbr := match ex_idx cmd with Some a => a | None => _ end).
  destruct (ex_arg ln2 abbr) as [ln3 arg]. destruct (ex_txt ln3 abbr s) as [[ln4 txt] s1].
  match goal with |- fst (match ?md with pair _ _ => _ end) = (match ?m with pair _ _ => _ end) => assert (M : fst md = m) end.
  { destruct (ex_idx cmd) as [a|]; [|reflexivity].
    destruct ((hd0 a =? 103)%N || (hd0 a =? 118)%N); [apply ec_glob_d_erase; intros; apply IH|].
    destruct (hd0 a =? 64)%N; [apply ec_at_d_erase; intros; apply IH|]. reflexivity. }
  match goal with |- fst (match ?md with pair _ _ => _ end) = _ => destruct md as [[s2 ret2] t2] end.
  cbn [fst] in M. rewrite <- M. rewrite <- IH. destruct (exd f ret2 ln4 s2) as [[s3 ret3] t3]. reflexivity.
Qed.

Theorem ex_main_d_erase : forall n fuel s,
  fst (ex_main_d rvalid rfind filter readfile curpath n fuel s) = ex_main rvalid rfind filter readfile curpath n fuel s.
Proof.
  induction n as [|n IH]; intros fuel s; [reflexivity|]. cbn [ex_main_d ex_main].
  destruct (xquit s); [reflexivity|]. destruct (inp s) as [|ln rest]; [reflexivity|].
  unfold ex_command. rewrite <- ex_exec_d_erase.
  destruct (exd fuel 0 ln (set_inp s rest)) as [[s1 r] t1]. cbn [fst]. rewrite <- IH.
  destruct (ex_main_d _ _ _ _ _ n fuel _). reflexivity.
Qed.

(* (2) every depth handed to lbuf_globset / lbuf_globget is one of 1..7: any command line, any state *)
Theorem ex_exec_d_ok : forall fuel ret ln s, Forall dep_ok (snd (exd fuel ret ln s)).
Proof.
  induction fuel as [|f IH]; intros ret ln s; [constructor|]. cbn [ex_exec_d].
  destruct ln as [|c ln]; [constructor|].
  destruct (ex_loc (c :: ln)) as [ln1 loc]. destruct (ex_cmd ln1) as [ln2 cmd].
  set (abbr := match ex_idx cmd with Some a => a | None => _ end).
  destruct (ex_arg ln2 abbr) as [ln3 arg]. destruct (ex_txt ln3 abbr s) as [[ln4 txt] s1].
  match goal with |- Forall _ (snd (match ?md with pair _ _ => _ end)) => assert (M : Forall dep_ok (snd md)) end.
  { destruct (ex_idx cmd) as [a|]; [|constructor].
    destruct ((hd0 a =? 103)%N || (hd0 a =? 118)%N); [apply ec_glob_d_ok; intros; apply IH|].
    destruct (hd0 a =? 64)%N; [apply ec_at_d_ok; intros; apply IH|]. constructor. }
  match goal with |- Forall _ (snd (match ?md with pair _ _ => _ end)) => destruct md as [[s2 ret2] t2] end.
  cbn [snd] in M. specialize (IH ret2 ln4 s2). destruct (exd f ret2 ln4 s2) as [[s3 ret3] t3]. cbn [snd] in *.
  apply Forall_app. split; assumption.
Qed.

(* ... and any script *)
Theorem ex_main_d_ok : forall n fuel s, Forall dep_ok (snd (ex_main_d rvalid rfind filter readfile curpath n fuel s)).
Proof.
  induction n as [|n IH]; intros fuel s; [constructor|]. cbn [ex_main_d].
  destruct (xquit s); [constructor|]. destruct (inp s) as [|ln rest]; [constructor|].
  pose proof (ex_exec_d_ok fuel 0 ln (set_inp s rest)) as H.
  destruct (exd fuel 0 ln (set_inp s rest)) as [[s1 r] t1]. cbn [snd] in H.
  match goal with |- context [ex_main_d _ _ _ _ _ n fuel ?s2] => specialize (IH fuel s2); destruct (ex_main_d _ _ _ _ _ n fuel s2) as [s3 t3] end.
  cbn [snd] in *. apply Forall_app. split; assumption.
Qed.
End P.

(* the two inputs that found the defect, on the model (every line contains the pattern): seven / eight `g/a/` in front of `%g/a/p`
   = 8 / 9 levels on a1..a4.  The script ends; each of the four depth-7 executions is refused with the message; the innermost p
   never runs (no OLine); lines and marks are as before; the depths used are exactly 1..7.  With 7 levels p runs 16 times. *)
Definition deep_rf : bytes -> bytes -> bool -> option (nat * nat) :=
  fun _ ln _ => if mem 97%N ln then Some (0, 1)%nat else None.
Definition deep_run (k : nat) : st * list N :=
  ex_main_d (fun _ => true) deep_rf (fun _ _ => None) (fun _ => None) [] 5 200
    (init_st [97;49;10;97;50;10;97;51;10;97;52;10]%N [concat (repeat [103;47;97;47]%N k) ++ [37;103;47;97;47;112]%N] true).
Definition is_line (o : oitem) : bool := match o with OLine _ => true | _ => false end.

Lemma deep_example : forall k, k = 7%nat \/ k = 8%nat ->
  out (fst (deep_run k)) = repeat (OMsg M_GDEEP) 4 /\ flags (fst (deep_run k)) = F_EOF /\
  lns (lb (fst (deep_run k))) = lns (init_lbuf [97;49;10;97;50;10;97;51;10;97;52;10]%N) /\
  fold_right N.max 0%N (snd (deep_run k)) = 7%N /\
  length (List.filter is_line (out (fst (deep_run 6)))) = 16%nat.
Proof. intros k [-> | ->]; vm_compute; repeat split. Qed.
