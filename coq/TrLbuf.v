(* TrLbuf.v -- the small state functions of the line buffer, /repo/lbuf.c: the hand-written models
   (UndoDefs.lbuf_seq / lbuf_modified / lbuf_unsaved / lbuf_saved of C02, ...) are what the C text says.
   For each function, running the CLite term tools/c2clite.py generated from /repo's lbuf.c (GenCFuncs.v)
   on a memory that holds a `struct lbuf` (a block of 75 consecutive cells: mark[32] 0..31, mark_off[32]
   32..63, ln 64, ln_glob 65, ln_n 66, ln_sz 67, useq 68, hist 69, hist_sz 70, hist_n 71, hist_u 72,
   useq_zero 73, useq_last 74) gives, for ALL field values, the value of the model and the memory in which
   exactly the cells the model changes are changed -- every load and store checked inside its block, no
   signed overflow (the one bound needed, useq < INT_MAX for lb->useq++, is stated and shown to be sharp). *)
From Coq Require Import List ZArith NArith Bool Lia.
From NV Require Import Bytes CLite CLiteProps GenCFuncs CLiteTac TrLbufBase UndoDefs.
Import ListNotations.
Local Open Scope Z_scope.

(* block bl of m is a struct lbuf whose bookkeeping fields are those of the model state lb; the 64 mark
   cells, ln, ln_glob, ln_n, ln_sz hold ANYTHING; when the log is not empty, hist points to the start of
   another block whose cells 9 i + 6 are the seq fields of the log entries (all other cells of that block: anything) *)
Record lbuf_rep (m : mem) (bl : nat) (blk : block) (lb : lbuf) : Prop := mk_lbuf_rep {
  rep_blk : nth_error m bl = Some blk;
  rep_len : length blk = LBUF_CELLS;
  rep_useq : nth_error blk L_useq = Some (VInt (useq lb));
  rep_hist_sz : nth_error blk L_hist_sz = Some (VInt (Z.of_nat (hist_sz lb)));
  rep_hist_n : nth_error blk L_hist_n = Some (VInt (Z.of_nat (length (hist lb))));
  rep_hist_u : nth_error blk L_hist_u = Some (VInt (Z.of_nat (hist_u lb)));
  rep_zero : nth_error blk L_useq_zero = Some (VInt (useq_zero lb));
  rep_last : nth_error blk L_useq_last = Some (VInt (useq_last lb));
  rep_hist : hist lb <> [] -> exists bh hblk, bh <> bl /\ nth_error blk L_hist = Some (VPtr bh 0) /\ nth_error m bh = Some hblk /\
             forall i, (i < length (hist lb))%nat -> nth_error hblk (LOPT_CELLS * i + O_seq) = Some (VInt (seq_at (hist lb) i))
}.
(* every C int of the state is inside int, the undo cursor is inside the log *)
Definition lbuf_ints (lb : lbuf) : Prop :=
  i32 (useq lb) /\ i32 (useq_zero lb) /\ i32 (useq_last lb) /\ Forall (fun lo => i32 (seq lo)) (hist lb) /\
  (hist_u lb <= length (hist lb))%nat /\ Z.of_nat (length (hist lb)) <= 2147483647.

Lemma seq_at_i32 h i : Forall (fun lo => i32 (seq lo)) h -> i32 (seq_at h i).
Proof.
  intro H. unfold seq_at. destruct (Nat.lt_ge_cases i (length h)) as [L|L].
  - rewrite Forall_forall in H. apply H. apply nth_In. exact L.
  - rewrite nth_overflow by exact L. cbn. unfold i32. lia.
Qed.


(* ------------------------------------------------------------------ lbuf_seq *)
Theorem tr_lbuf_seq m bl blk lb d fuel : lbuf_rep m bl blk lb -> lbuf_ints lb ->
  callf cprog fuel (S d) F_lbuf_seq [VPtr bl 0] m = Ok (VInt (lbuf_seq lb), m).
Proof.
  intros R (Hu & Hz & Hl & Hs & Hc & Hn). destruct R as [Rb Rl Ru Rsz Rn Rhu Rz Rla Rh].
  enter F_lbuf_seq cf_lbuf_seq. xstep. xfld Rb Rhu. rewrite wrap_I32_id by (unfold i32 in *; lia).
  unfold lbuf_seq. destruct (hist_u lb) as [|u] eqn:Eu.
  - xstep. xfld Rb Rla. rewrite wrap_I32_id by exact Hl. reflexivity.
  - assert (Hne : hist lb <> []) by (intro E; rewrite E in Hc; cbn in Hc; lia).
    destruct (Rh Hne) as (bh & hblk & Hbh & Rp & Rhb & Rcells).
    replace (Z.of_nat (S u) =? 0) with false by (symmetry; apply Z.eqb_neq; lia). xstep.
    xfld Rb Rp. xfld Rb Rhu. rewrite wrap_I32_id by (unfold i32 in *; lia).
    rewrite chk_I32 by lia. xstep.
    rewrite (fld_load m bh hblk (LOPT_CELLS * u + O_seq) _ _ Rhb (Rcells u ltac:(lia))) by (unfold LOPT_CELLS, O_seq; lia).
    xstep. rewrite wrap_I32_id by (apply seq_at_i32; exact Hs). reflexivity.
Qed.

(* ------------------------------------------------------------------ a field store keeps the representation *)
Lemma rep_store m bl blk lb lb' i v : lbuf_rep m bl blk lb -> (i < LBUF_CELLS)%nat -> i <> L_hist -> i <> L_hist_n ->
  hist lb' = hist lb ->
  nth_error (upd blk i v) L_useq = Some (VInt (useq lb')) ->
  nth_error (upd blk i v) L_hist_sz = Some (VInt (Z.of_nat (hist_sz lb'))) ->
  nth_error (upd blk i v) L_hist_u = Some (VInt (Z.of_nat (hist_u lb'))) ->
  nth_error (upd blk i v) L_useq_zero = Some (VInt (useq_zero lb')) ->
  nth_error (upd blk i v) L_useq_last = Some (VInt (useq_last lb')) ->
  lbuf_rep (upd m bl (upd blk i v)) bl (upd blk i v) lb'.
Proof.
  intros R Hi Hne Hne2 Hh H1 H2 H3 H4 H5. destruct R as [Rb Rl Ru Rsz Rn Rhu Rz Rla Rh].
  assert (Hbl : (bl < length m)%nat) by (apply nth_error_Some; congruence).
  constructor; try assumption.
  - apply mem_upd_same. exact Hbl.
  - rewrite upd_length by lia. exact Rl.
  - rewrite Hh. rewrite nth_error_upd_other by (try lia; congruence). exact Rn.
  - rewrite Hh. intro Hn. destruct (Rh Hn) as (bh & hblk & Hbh & Rp & Rhb & Rcells).
    exists bh, hblk. split; [exact Hbh|]. split; [rewrite nth_error_upd_other by (try lia; congruence); exact Rp|].
    split; [rewrite mem_upd_other by assumption; exact Rhb|exact Rcells].
Qed.
(* the field cells of a struct block after a store into field i *)
(* ------------------------------------------------------------------ lbuf_modified: lb->useq++; return lbuf_seq(lb) != lb->useq_zero *)
Theorem tr_lbuf_modified m bl blk lb d fuel : lbuf_rep m bl blk lb -> lbuf_ints lb -> useq lb < 2147483647 ->
  let blk' := upd blk L_useq (VInt (useq lb + 1)) in
  callf cprog fuel (S (S d)) F_lbuf_modified [VPtr bl 0] m
    = Ok (VInt (b2z (snd (lbuf_modified lb))), upd m bl blk')
  /\ lbuf_rep (upd m bl blk') bl blk' (fst (lbuf_modified lb)).
Proof.
  intros R Hints Hmax blk'.
  assert (R' : lbuf_rep (upd m bl blk') bl blk' (bump lb)).
  { pose proof R as [Rb Rl Ru Rsz Rn Rhu Rz Rla Rh].
    apply (rep_store m bl blk lb); try assumption; try reflexivity; try (unfold LBUF_CELLS, L_useq, L_hist, L_hist_n; lia); cbn [bump useq hist_sz hist_u useq_zero useq_last]; fld_after. }
  split; [|exact R'].
  pose proof Hints as (Hu & Hz & Hl & Hs & Hc & Hn). pose proof R as [Rb Rl Ru Rsz Rn Rhu Rz Rla Rh].
  enter F_lbuf_modified cf_lbuf_modified. xstep. xfld Rb Ru. rewrite (wrap_I32_id _ Hu).
  rewrite chk_I32 by (unfold i32 in *; lia). xstep.
  rewrite (fld_store m bl blk L_useq _ _ Rb) by (rewrite ?Rl; unfold LBUF_CELLS, L_useq; try reflexivity; lia). xstep.
  cbn [fst snd]. fold blk'. rewrite (tr_lbuf_seq (upd m bl blk') bl blk' (bump lb) d fuel R').
  2:{ unfold lbuf_ints in *. cbn [bump useq hist hist_u useq_zero useq_last]. unfold i32 in *. repeat split; try tauto; lia. }
  xstep. destruct R' as [Rb' _ _ _ _ _ Rz' _ _]. xfld Rb' Rz'. cbn [bump useq_zero]. rewrite (wrap_I32_id _ Hz).
  unfold lbuf_modified, modified_flag. cbn [snd]. change (lbuf_seq (bump lb)) with (lbuf_seq lb). reflexivity.
Qed.
(* the bound is sharp: at useq = INT_MAX the increment is a signed overflow (undefined behaviour in C) *)
Theorem tr_lbuf_modified_overflow m bl blk lb d fuel : lbuf_rep m bl blk lb -> useq lb = 2147483647 ->
  callf cprog fuel (S (S d)) F_lbuf_modified [VPtr bl 0] m = Err EOverflow.
Proof.
  intros R Hmax. pose proof R as [Rb Rl Ru Rsz Rn Rhu Rz Rla Rh].
  enter F_lbuf_modified cf_lbuf_modified. xstep. xfld Rb Ru. rewrite Hmax. reflexivity.
Qed.

(* ------------------------------------------------------------------ lbuf_unsaved: lb->useq_zero = -1 *)
Theorem tr_lbuf_unsaved m bl blk lb d fuel : lbuf_rep m bl blk lb ->
  let blk' := upd blk L_useq_zero (VInt (-1)) in
  callf cprog fuel (S d) F_lbuf_unsaved [VPtr bl 0] m = Ok (VUndef, upd m bl blk')
  /\ lbuf_rep (upd m bl blk') bl blk' (lbuf_unsaved lb).
Proof.
  intros R blk'. pose proof R as [Rb Rl Ru Rsz Rn Rhu Rz Rla Rh]. split.
  - enter F_lbuf_unsaved cf_lbuf_unsaved. xstep. change (chk I32 (- (1))) with (@Ok Z (-1)). xstep.
    rewrite (fld_store m bl blk L_useq_zero _ _ Rb) by (try reflexivity; fld_len). reflexivity.
  - apply (rep_store m bl blk lb); try assumption; try reflexivity; try fld_ne; try (unfold LBUF_CELLS; fld_ne);
      cbn [lbuf_unsaved set_zero useq hist_sz hist_u useq_zero useq_last]; fld_after.
Qed.

(* ------------------------------------------------------------------ lbuf_saved(lb, 0): lb->useq_zero = lbuf_seq(lb); lbuf_modified(xb)
   xb is ex_lbuf() = bufs[0].lb (struct buf is 41 cells, lb is cell 33); every caller passes lb = xb, which is the
   hypothesis `the first slot of bufs points to this struct` *)
Definition B_lb : nat := 33.
Theorem tr_lbuf_saved_keep m bl blk lb gblk d fuel : lbuf_rep m bl blk lb -> lbuf_ints lb -> useq lb < 2147483647 ->
  bl <> G_bufs -> nth_error m G_bufs = Some gblk -> nth_error gblk B_lb = Some (VPtr bl 0) ->
  let blk' := upd (upd blk L_useq_zero (VInt (lbuf_seq lb))) L_useq (VInt (useq lb + 1)) in
  callf cprog fuel (S (S (S d))) F_lbuf_saved [VPtr bl 0; VInt 0] m = Ok (VUndef, upd m bl blk')
  /\ lbuf_rep (upd m bl blk') bl blk' (lbuf_saved lb false).
Proof.
  intros R Hints Hmax Hg Hgb Hxb blk'. pose proof R as [Rb Rl Ru Rsz Rn Rhu Rz Rla Rh].
  pose proof Hints as (Hu & Hz & Hl & Hs & Hc & Hn).
  set (blk1 := upd blk L_useq_zero (VInt (lbuf_seq lb))).
  assert (Hq : i32 (lbuf_seq lb)) by (unfold lbuf_seq; destruct (hist_u lb); [exact Hl|apply seq_at_i32; exact Hs]).
  assert (R1 : lbuf_rep (upd m bl blk1) bl blk1 (set_zero lb (lbuf_seq lb))).
  { apply (rep_store m bl blk lb); try assumption; try reflexivity; try fld_ne; try (unfold LBUF_CELLS; fld_ne);
      cbn [set_zero useq hist_sz hist_u useq_zero useq_last]; fld_after. }
  assert (I1 : lbuf_ints (set_zero lb (lbuf_seq lb))) by (unfold lbuf_ints; cbn [set_zero useq hist hist_u useq_zero useq_last]; tauto).
  assert (Hbl : (bl < length m)%nat) by (apply nth_error_Some; congruence).
  destruct (tr_lbuf_modified (upd m bl blk1) bl blk1 (set_zero lb (lbuf_seq lb)) d fuel R1 I1 Hmax) as [C2 R2].
  cbn [set_zero useq] in C2, R2. fold blk' in C2, R2.
  rewrite upd_upd in C2, R2 by exact Hbl.
  split; [|exact R2].
  enter F_lbuf_saved cf_lbuf_saved. xstep.
  rewrite (tr_lbuf_seq m bl blk lb (S d) fuel R Hints). xstep. rewrite (wrap_I32_id _ Hq).
  rewrite (fld_store m bl blk L_useq_zero _ _ Rb) by (try reflexivity; fld_len). xstep. fold blk1.
  (* ex_lbuf() *)
  rewrite (callf_S cprog fuel (S d) F_ex_lbuf). cbn [nth_error cprog F_ex_lbuf cf_ex_lbuf fn_nparams fn_nlocals fn_body length Nat.eqb Nat.sub repeat app]. xstep.
  assert (Hgb1 : nth_error (upd m bl blk1) G_bufs = Some gblk) by (rewrite mem_upd_other by (try assumption; congruence); exact Hgb).
  rewrite (fld_load _ G_bufs gblk B_lb _ _ Hgb1 Hxb) by reflexivity. xstep.
  rewrite C2. reflexivity.
Qed.
