(* TrLbuf.v -- the small state functions of the line buffer, /repo/lbuf.c: the hand-written models
   (UndoDefs.lbuf_seq / lbuf_modified / lbuf_unsaved / lbuf_saved of C02, ...) are what the C text says.
   For each function, running the CLite term tools/c2clite.py generated from /repo's lbuf.c (GenCFuncs.v)
   on a memory that holds a `struct lbuf` (a block of 75 consecutive cells: mark[32] 0..31, mark_off[32]
   32..63, ln 64, ln_glob 65, ln_n 66, ln_sz 67, useq 68, hist 69, hist_sz 70, hist_n 71, hist_u 72,
   useq_zero 73, useq_last 74) gives, for ALL field values, the value of the model and the memory in which
   exactly the cells the model changes are changed -- every load and store checked inside its block, no
   signed overflow (the one bound needed, useq < INT_MAX for lb->useq++, is stated and shown to be sharp). *)
From Coq Require Import List ZArith NArith Bool Lia.
From NV Require Import Bytes CLite CLiteProps GenCFuncs CLiteTac TrLbufBase UndoDefs.
Import ListNotations.
Local Open Scope Z_scope.

(* block bl of m is a struct lbuf whose bookkeeping fields are those of the model state lb; the 64 mark
   cells, ln, ln_glob, ln_n, ln_sz hold ANYTHING; when the log is not empty, hist points to the start of
   another block whose cells 9 i + 6 are the seq fields of the log entries (all other cells of that block: anything) *)
Record lbuf_rep (m : mem) (bl : nat) (blk : block) (lb : lbuf) : Prop := mk_lbuf_rep {
  rep_blk : nth_error m bl = Some blk;
  rep_len : length blk = LBUF_CELLS;
  rep_useq : nth_error blk L_useq = Some (VInt (useq lb));
  rep_hist_sz : nth_error blk L_hist_sz = Some (VInt (Z.of_nat (hist_sz lb)));
  rep_hist_n : nth_error blk L_hist_n = Some (VInt (Z.of_nat (length (hist lb))));
  rep_hist_u : nth_error blk L_hist_u = Some (VInt (Z.of_nat (hist_u lb)));
  rep_zero : nth_error blk L_useq_zero = Some (VInt (useq_zero lb));
  rep_last : nth_error blk L_useq_last = Some (VInt (useq_last lb));
  rep_hist : hist lb <> [] -> exists bh hblk, bh <> bl /\ nth_error blk L_hist = Some (VPtr bh 0) /\ nth_error m bh = Some hblk /\
             forall i, (i < length (hist lb))%nat -> nth_error hblk (LOPT_CELLS * i + O_seq) = Some (VInt (seq_at (hist lb) i))
}.
(* every C int of the state is inside int, the undo cursor is inside the log *)
Definition lbuf_ints (lb : lbuf) : Prop :=
  i32 (useq lb) /\ i32 (useq_zero lb) /\ i32 (useq_last lb) /\ Forall (fun lo => i32 (seq lo)) (hist lb) /\
  (hist_u lb <= length (hist lb))%nat /\ Z.of_nat (length (hist lb)) <= 2147483647.

Lemma seq_at_i32 h i : Forall (fun lo => i32 (seq lo)) h -> i32 (seq_at h i).
Proof.
  intro H. unfold seq_at. destruct (Nat.lt_ge_cases i (length h)) as [L|L].
  - rewrite Forall_forall in H. apply H. apply nth_In. exact L.
  - rewrite nth_overflow by exact L. cbn. unfold i32. lia.
Qed.


(* ------------------------------------------------------------------ lbuf_seq *)
Theorem tr_lbuf_seq m bl blk lb d fuel : lbuf_rep m bl blk lb -> lbuf_ints lb ->
  callf cprog fuel (S d) F_lbuf_seq [VPtr bl 0] m = Ok (VInt (lbuf_seq lb), m).
Proof.
  intros R (Hu & Hz & Hl & Hs & Hc & Hn). destruct R as [Rb Rl Ru Rsz Rn Rhu Rz Rla Rh].
  enter F_lbuf_seq cf_lbuf_seq. xstep. xfld Rb Rhu. rewrite wrap_I32_id by (unfold i32 in *; lia).
  unfold lbuf_seq. destruct (hist_u lb) as [|u] eqn:Eu.
  - xstep. xfld Rb Rla. rewrite wrap_I32_id by exact Hl. reflexivity.
  - assert (Hne : hist lb <> []) by (intro E; rewrite E in Hc; cbn in Hc; lia).
    destruct (Rh Hne) as (bh & hblk & Hbh & Rp & Rhb & Rcells).
    replace (Z.of_nat (S u) =? 0) with false by (symmetry; apply Z.eqb_neq; lia). xstep.
    xfld Rb Rp. xfld Rb Rhu. rewrite wrap_I32_id by (unfold i32 in *; lia).
    rewrite chk_I32 by lia. xstep.
    rewrite (fld_load m bh hblk (LOPT_CELLS * u + O_seq) _ _ Rhb (Rcells u ltac:(lia))) by (unfold LOPT_CELLS, O_seq; lia).
    xstep. rewrite wrap_I32_id by (apply seq_at_i32; exact Hs). reflexivity.
Qed.

(* ------------------------------------------------------------------ a field store keeps the representation *)
Lemma rep_store m bl blk lb lb' i v : lbuf_rep m bl blk lb -> (i < LBUF_CELLS)%nat -> i <> L_hist -> i <> L_hist_n ->
  hist lb' = hist lb ->
  nth_error (upd blk i v) L_useq = Some (VInt (useq lb')) ->
  nth_error (upd blk i v) L_hist_sz = Some (VInt (Z.of_nat (hist_sz lb'))) ->
  nth_error (upd blk i v) L_hist_u = Some (VInt (Z.of_nat (hist_u lb'))) ->
  nth_error (upd blk i v) L_useq_zero = Some (VInt (useq_zero lb')) ->
  nth_error (upd blk i v) L_useq_last = Some (VInt (useq_last lb')) ->
  lbuf_rep (upd m bl (upd blk i v)) bl (upd blk i v) lb'.
Proof.
  intros R Hi Hne Hne2 Hh H1 H2 H3 H4 H5. destruct R as [Rb Rl Ru Rsz Rn Rhu Rz Rla Rh].
  assert (Hbl : (bl < length m)%nat) by (apply nth_error_Some; congruence).
  constructor; try assumption.
  - apply mem_upd_same. exact Hbl.
  - rewrite upd_length by lia. exact Rl.
  - rewrite Hh. rewrite nth_error_upd_other by (try lia; congruence). exact Rn.
  - rewrite Hh. intro Hn. destruct (Rh Hn) as (bh & hblk & Hbh & Rp & Rhb & Rcells).
    exists bh, hblk. split; [exact Hbh|]. split; [rewrite nth_error_upd_other by (try lia; congruence); exact Rp|].
    split; [rewrite mem_upd_other by assumption; exact Rhb|exact Rcells].
Qed.
(* the field cells of a struct block after a store into field i *)
(* ------------------------------------------------------------------ lbuf_modified: lb->useq++; return lbuf_seq(lb) != lb->useq_zero *)
Theorem tr_lbuf_modified m bl blk lb d fuel : lbuf_rep m bl blk lb -> lbuf_ints lb -> useq lb < 2147483647 ->
  let blk' := upd blk L_useq (VInt (useq lb + 1)) in
  callf cprog fuel (S (S d)) F_lbuf_modified [VPtr bl 0] m
    = Ok (VInt (b2z (snd (lbuf_modified lb))), upd m bl blk')
  /\ lbuf_rep (upd m bl blk') bl blk' (fst (lbuf_modified lb)).
Proof.
  intros R Hints Hmax blk'.
  assert (R' : lbuf_rep (upd m bl blk') bl blk' (bump lb)).
  { pose proof R as [Rb Rl Ru Rsz Rn Rhu Rz Rla Rh].
    apply (rep_store m bl blk lb); try assumption; try reflexivity; try (unfold LBUF_CELLS, L_useq, L_hist, L_hist_n; lia); cbn [bump useq hist_sz hist_u useq_zero useq_last]; fld_after. }
  split; [|exact R'].
  pose proof Hints as (Hu & Hz & Hl & Hs & Hc & Hn). pose proof R as [Rb Rl Ru Rsz Rn Rhu Rz Rla Rh].
  enter F_lbuf_modified cf_lbuf_modified. xstep. xfld Rb Ru. rewrite (wrap_I32_id _ Hu).
  rewrite chk_I32 by (unfold i32 in *; lia). xstep.
  rewrite (fld_store m bl blk L_useq _ _ Rb) by (rewrite ?Rl; unfold LBUF_CELLS, L_useq; try reflexivity; lia). xstep.
  cbn [fst snd]. fold blk'. rewrite (tr_lbuf_seq (upd m bl blk') bl blk' (bump lb) d fuel R').
  2:{ unfold lbuf_ints in *. cbn [bump useq hist hist_u useq_zero useq_last]. unfold i32 in *. repeat split; try tauto; lia. }
  xstep. destruct R' as [Rb' _ _ _ _ _ Rz' _ _]. xfld Rb' Rz'. cbn [bump useq_zero]. rewrite (wrap_I32_id _ Hz).
  unfold lbuf_modified, modified_flag. cbn [snd]. change (lbuf_seq (bump lb)) with (lbuf_seq lb). reflexivity.
Qed.
(* the bound is sharp: at useq = INT_MAX the increment is a signed overflow (undefined behaviour in C) *)
Theorem tr_lbuf_modified_overflow m bl blk lb d fuel : lbuf_rep m bl blk lb -> useq lb = 2147483647 ->
  callf cprog fuel (S (S d)) F_lbuf_modified [VPtr bl 0] m = Err EOverflow.
Proof.
  intros R Hmax. pose proof R as [Rb Rl Ru Rsz Rn Rhu Rz Rla Rh].
  enter F_lbuf_modified cf_lbuf_modified. xstep. xfld Rb Ru. rewrite Hmax. reflexivity.
Qed.

(* ------------------------------------------------------------------ lbuf_unsaved: lb->useq_zero = -1 *)
Theorem tr_lbuf_unsaved m bl blk lb d fuel : lbuf_rep m bl blk lb ->
  let blk' := upd blk L_useq_zero (VInt (-1)) in
  callf cprog fuel (S d) F_lbuf_unsaved [VPtr bl 0] m = Ok (VUndef, upd m bl blk')
  /\ lbuf_rep (upd m bl blk') bl blk' (lbuf_unsaved lb).
Proof.
  intros R blk'. pose proof R as [Rb Rl Ru Rsz Rn Rhu Rz Rla Rh]. split.
  - enter F_lbuf_unsaved cf_lbuf_unsaved. xstep. change (chk I32 (- (1))) with (@Ok Z (-1)). xstep.
    rewrite (fld_store m bl blk L_useq_zero _ _ Rb) by (try reflexivity; fld_len). reflexivity.
  - apply (rep_store m bl blk lb); try assumption; try reflexivity; try fld_ne; try (unfold LBUF_CELLS; fld_ne);
      cbn [lbuf_unsaved set_zero useq hist_sz hist_u useq_zero useq_last]; fld_after.
Qed.

(* ------------------------------------------------------------------ lbuf_saved(lb, 0): lb->useq_zero = lbuf_seq(lb); lbuf_modified(xb)
   xb is ex_lbuf() = bufs[0].lb (struct buf is 41 cells, lb is cell 33); every caller passes lb = xb, which is the
   hypothesis `the first slot of bufs points to this struct` *)
Definition B_lb : nat := 33.
Theorem tr_lbuf_saved_keep m bl blk lb gblk d fuel : lbuf_rep m bl blk lb -> lbuf_ints lb -> useq lb < 2147483647 ->
  bl <> G_bufs -> nth_error m G_bufs = Some gblk -> nth_error gblk B_lb = Some (VPtr bl 0) ->
  let blk' := upd (upd blk L_useq_zero (VInt (lbuf_seq lb))) L_useq (VInt (useq lb + 1)) in
  callf cprog fuel (S (S (S d))) F_lbuf_saved [VPtr bl 0; VInt 0] m = Ok (VUndef, upd m bl blk')
  /\ lbuf_rep (upd m bl blk') bl blk' (lbuf_saved lb false).
Proof.
  intros R Hints Hmax Hg Hgb Hxb blk'. pose proof R as [Rb Rl Ru Rsz Rn Rhu Rz Rla Rh].
  pose proof Hints as (Hu & Hz & Hl & Hs & Hc & Hn).
  set (blk1 := upd blk L_useq_zero (VInt (lbuf_seq lb))).
  assert (Hq : i32 (lbuf_seq lb)) by (unfold lbuf_seq; destruct (hist_u lb); [exact Hl|apply seq_at_i32; exact Hs]).
  assert (R1 : lbuf_rep (upd m bl blk1) bl blk1 (set_zero lb (lbuf_seq lb))).
  { apply (rep_store m bl blk lb); try assumption; try reflexivity; try fld_ne; try (unfold LBUF_CELLS; fld_ne);
      cbn [set_zero useq hist_sz hist_u useq_zero useq_last]; fld_after. }
  assert (I1 : lbuf_ints (set_zero lb (lbuf_seq lb))) by (unfold lbuf_ints; cbn [set_zero useq hist hist_u useq_zero useq_last]; tauto).
  assert (Hbl : (bl < length m)%nat) by (apply nth_error_Some; congruence).
  destruct (tr_lbuf_modified (upd m bl blk1) bl blk1 (set_zero lb (lbuf_seq lb)) d fuel R1 I1 Hmax) as [C2 R2].
  cbn [set_zero useq] in C2, R2. fold blk' in C2, R2.
  rewrite upd_upd in C2, R2 by exact Hbl.
  split; [|exact R2].
  enter F_lbuf_saved cf_lbuf_saved. xstep.
  rewrite (tr_lbuf_seq m bl blk lb (S d) fuel R Hints). xstep. rewrite (wrap_I32_id _ Hq).
  rewrite (fld_store m bl blk L_useq_zero _ _ Rb) by (try reflexivity; fld_len). xstep. fold blk1.
  (* ex_lbuf() *)
  rewrite (callf_S cprog fuel (S d) F_ex_lbuf). cbn [nth_error cprog F_ex_lbuf cf_ex_lbuf fn_nparams fn_nlocals fn_body length Nat.eqb Nat.sub repeat app]. xstep.
  assert (Hgb1 : nth_error (upd m bl blk1) G_bufs = Some gblk) by (rewrite mem_upd_other by (try assumption; congruence); exact Hgb).
  rewrite (fld_load _ G_bufs gblk B_lb _ _ Hgb1 Hxb) by reflexivity. xstep.
  rewrite C2. reflexivity.
Qed.

(* ------------------------------------------------------------------ free() *)
Fixpoint free_list (vs : list val) (m : mem) : res mem :=
  match vs with
  | [] => Ok m
  | v :: r => match do_builtin_m BFree [v] m with Ok (_, m1) => free_list r m1 | Err e => Err e end
  end.
(* a legal free(v): v is NULL (nothing happens) or points to the start of a live block, which is emptied; the other blocks stay *)
Lemma free_inv v m u m1 : do_builtin_m BFree [v] m = Ok (u, m1) ->
  (v = VInt 0 /\ m1 = m) \/ (exists b, v = VPtr b 0 /\ forall b', b' <> b -> nth_error m1 b' = nth_error m b').
Proof.
  intro H. destruct v as [|z|b o]; cbn [do_builtin_m] in H; [discriminate| |].
  - destruct z; try discriminate. left. injection H as _ <-. split; reflexivity.
  - destruct o; try discriminate. destruct (nth_error m b) as [[|c blk]|] eqn:E; try discriminate.
    destruct (set_nth m b []) as [m'|] eqn:E2; [|discriminate]. injection H as _ <-. right. exists b. split; [reflexivity|].
    intros b' Hne. assert (Hb : (b < length m)%nat) by (apply nth_error_Some; congruence).
    rewrite set_nth_upd in E2 by exact Hb. injection E2 as <-. apply nth_error_upd_other; assumption.
Qed.
Definition val_block (v : val) : option nat := match v with VPtr b _ => Some b | _ => None end.
(* the blocks in `keep` are not among the pointers *)
Definition avoids (vs : list val) (keep : list nat) : Prop := forall v b, In v vs -> val_block v = Some b -> ~ In b keep.
Lemma free_keeps v m u m1 keep b' : do_builtin_m BFree [v] m = Ok (u, m1) -> avoids [v] keep -> In b' keep -> nth_error m1 b' = nth_error m b'.
Proof.
  intros H Ha Hin. destruct (free_inv v m u m1 H) as [[-> ->]|[b [-> Hb]]]; [reflexivity|].
  apply Hb. intro E. subst b'. apply (Ha (VPtr b 0) b); [left; reflexivity|reflexivity|exact Hin].
Qed.
Lemma avoids_cons v vs keep : avoids (v :: vs) keep -> avoids [v] keep /\ avoids vs keep.
Proof.
  intro H. split; intros w b Hin Hb; apply (H w b); try assumption; [destruct Hin as [<-|[]]; left; reflexivity|right; exact Hin].
Qed.
Lemma avoids_app a b keep : avoids (a ++ b) keep -> avoids a keep /\ avoids b keep.
Proof. intro H. split; intros w x Hin Hb; apply (H w x); try assumption; apply in_or_app; [left|right]; exact Hin. Qed.
Lemma free_list_app a b m : free_list (a ++ b) m = match free_list a m with Ok m1 => free_list b m1 | Err e => Err e end.
Proof.
  revert m; induction a as [|v a IH]; intro m; [reflexivity|]. cbn [app free_list].
  destruct (do_builtin_m BFree [v] m) as [[u m1]|e]; [apply IH|reflexivity].
Qed.
Lemma free_list_keeps vs : forall m m1 keep b', free_list vs m = Ok m1 -> avoids vs keep -> In b' keep -> nth_error m1 b' = nth_error m b'.
Proof.
  induction vs as [|v vs IH]; intros m m1 keep b' H Ha Hin; [injection H as <-; reflexivity|].
  cbn [free_list] in H. destruct (do_builtin_m BFree [v] m) as [[u ma]|e] eqn:E; [|discriminate].
  destruct (avoids_cons _ _ _ Ha) as [A1 A2].
  rewrite (IH ma m1 keep b' H A2 Hin). apply (free_keeps v m u ma keep b' E A1 Hin).
Qed.

(* ------------------------------------------------------------------ lopt_done: free(lo->ins); free(lo->del); free(lo->mark); free(lo->mark_off) *)
(* the four pointers of log entry i of the hist block *)
Definition ent_ptrs (hblk : block) (i : nat) : list val :=
  [nth (9 * i) hblk VUndef; nth (9 * i + 1) hblk VUndef; nth (9 * i + 7) hblk VUndef; nth (9 * i + 8) hblk VUndef].
(* a pointer cell that free() accepts is a pointer cell that a pointer load accepts *)
Lemma free_loadable v m u m1 : do_builtin_m BFree [v] m = Ok (u, m1) -> v = VInt 0 \/ exists b, v = VPtr b 0.
Proof. intro H. destruct (free_inv v m u m1 H) as [[-> _]|[b [-> _]]]; [left; reflexivity|right; exists b; reflexivity]. Qed.

Theorem tr_lopt_done m bh hblk i m1 d fuel : nth_error m bh = Some hblk -> (9 * i + 9 <= length hblk)%nat ->
  avoids (ent_ptrs hblk i) [bh] -> free_list (ent_ptrs hblk i) m = Ok m1 ->
  callf cprog fuel (S d) F_lopt_done [VPtr bh (Z.of_nat (9 * i))] m = Ok (VUndef, m1).
Proof.
  intros Hh Hlen Ha Hf. unfold ent_ptrs in Hf, Ha. cbn [free_list] in Hf.
  set (v0 := nth (9 * i) hblk VUndef) in *. set (v1 := nth (9 * i + 1) hblk VUndef) in *.
  set (v7 := nth (9 * i + 7) hblk VUndef) in *. set (v8 := nth (9 * i + 8) hblk VUndef) in *.
  destruct (do_builtin_m BFree [v0] m) as [[u0 ma]|] eqn:E0; [|discriminate].
  destruct (do_builtin_m BFree [v1] ma) as [[u1 mb]|] eqn:E1; [|discriminate].
  destruct (do_builtin_m BFree [v7] mb) as [[u7 mc]|] eqn:E7; [|discriminate].
  destruct (do_builtin_m BFree [v8] mc) as [[u8 md]|] eqn:E8; [|discriminate]. injection Hf as <-.
  destruct (avoids_cons _ _ _ Ha) as [A0 Ha1]. destruct (avoids_cons _ _ _ Ha1) as [A1 Ha2]. destruct (avoids_cons _ _ _ Ha2) as [A7 A8].
  assert (Ha_ : nth_error ma bh = Some hblk) by (rewrite (free_keeps v0 m u0 ma [bh] bh E0 A0 (or_introl eq_refl)); exact Hh).
  assert (Hb_ : nth_error mb bh = Some hblk) by (rewrite (free_keeps v1 ma u1 mb [bh] bh E1 A1 (or_introl eq_refl)); exact Ha_).
  assert (Hc_ : nth_error mc bh = Some hblk) by (rewrite (free_keeps v7 mb u7 mc [bh] bh E7 A7 (or_introl eq_refl)); exact Hb_).
  assert (C0 : nth_error hblk (9 * i) = Some v0) by (apply nth_error_nth'; lia).
  assert (C1 : nth_error hblk (9 * i + 1) = Some v1) by (apply nth_error_nth'; lia).
  assert (C7 : nth_error hblk (9 * i + 7) = Some v7) by (apply nth_error_nth'; lia).
  assert (C8 : nth_error hblk (9 * i + 8) = Some v8) by (apply nth_error_nth'; lia).
  enter F_lopt_done cf_lopt_done. xstep.
  rewrite (fld_load m bh hblk (9 * i) v0 _ Hh C0 eq_refl).
  destruct (free_loadable _ _ _ _ E0) as [L|[b L]]; rewrite L in *; xstep; rewrite E0; xstep;
  (rewrite (fld_load ma bh hblk (9 * i + 1) v1 _ Ha_ C1) by lia);
  destruct (free_loadable _ _ _ _ E1) as [L1|[b1 L1]]; rewrite L1 in *; xstep; rewrite E1; xstep;
  (rewrite (fld_load mb bh hblk (9 * i + 7) v7 _ Hb_ C7) by lia);
  destruct (free_loadable _ _ _ _ E7) as [L7|[b7 L7]]; rewrite L7 in *; xstep; rewrite E7; xstep;
  (rewrite (fld_load mc bh hblk (9 * i + 8) v8 _ Hc_ C8) by lia);
  destruct (free_loadable _ _ _ _ E8) as [L8|[b8 L8]]; rewrite L8 in *; xstep; rewrite E8; reflexivity.
Qed.

(* ------------------------------------------------------------------ lbuf_saved: the common tail
   lb->useq_zero = lbuf_seq(lb); lbuf_modified(xb);   with xb = bufs[0].lb == lb *)
Definition saved_tail : stmt := match fn_body cf_lbuf_saved with SSeq _ t => t | _ => SSkip end.
Definition saved_clear : stmt := match fn_body cf_lbuf_saved with SSeq (SIf _ c _) _ => c | _ => SSkip end.
Definition saved_loop : stmt := match saved_clear with SSeq (SSeq _ w) _ => w | _ => SSkip end.

Lemma saved_tail_ok m bl blk lb gblk d fuel l1 l2 : lbuf_rep m bl blk lb -> lbuf_ints lb -> useq lb < 2147483647 ->
  bl <> G_bufs -> nth_error m G_bufs = Some gblk -> nth_error gblk B_lb = Some (VPtr bl 0) ->
  let blk' := upd (upd blk L_useq_zero (VInt (lbuf_seq lb))) L_useq (VInt (useq lb + 1)) in
  exec (callf cprog fuel (S (S d))) fuel saved_tail (mkst [VPtr bl 0; l1; l2] m) = ONormal (mkst [VPtr bl 0; l1; l2] (upd m bl blk'))
  /\ lbuf_rep (upd m bl blk') bl blk' (lbuf_saved lb false).
Proof.
  intros R Hints Hmax Hg Hgb Hxb blk'. pose proof R as [Rb Rl Ru Rsz Rn Rhu Rz Rla Rh].
  pose proof Hints as (Hu & Hz & Hl & Hs & Hc & Hn).
  set (blk1 := upd blk L_useq_zero (VInt (lbuf_seq lb))).
  assert (Hq : i32 (lbuf_seq lb)) by (unfold lbuf_seq; destruct (hist_u lb); [exact Hl|apply seq_at_i32; exact Hs]).
  assert (R1 : lbuf_rep (upd m bl blk1) bl blk1 (set_zero lb (lbuf_seq lb))).
  { apply (rep_store m bl blk lb); try assumption; try reflexivity; try fld_ne; try (unfold LBUF_CELLS; fld_ne);
      cbn [set_zero useq hist_sz hist_u useq_zero useq_last]; fld_after. }
  assert (I1 : lbuf_ints (set_zero lb (lbuf_seq lb))) by (unfold lbuf_ints; cbn [set_zero useq hist hist_u useq_zero useq_last]; tauto).
  assert (Hbl : (bl < length m)%nat) by (apply nth_error_Some; congruence).
  destruct (tr_lbuf_modified (upd m bl blk1) bl blk1 (set_zero lb (lbuf_seq lb)) d fuel R1 I1 Hmax) as [C2 R2].
  cbn [set_zero useq] in C2, R2. fold blk' in C2, R2.
  rewrite upd_upd in C2, R2 by exact Hbl.
  split; [|exact R2].
  unfold saved_tail; cbn [fn_body cf_lbuf_saved]. xstep.
  rewrite (tr_lbuf_seq m bl blk lb (S d) fuel R Hints). xstep. rewrite (wrap_I32_id _ Hq).
  rewrite (fld_store m bl blk L_useq_zero _ _ Rb) by (try reflexivity; fld_len). xstep. fold blk1.
  rewrite (callf_S cprog fuel (S d) F_ex_lbuf). cbn [nth_error cprog F_ex_lbuf cf_ex_lbuf fn_nparams fn_nlocals fn_body length Nat.eqb Nat.sub repeat app]. xstep.
  assert (Hgb1 : nth_error (upd m bl blk1) G_bufs = Some gblk) by (rewrite mem_upd_other by (try assumption; congruence); exact Hgb).
  rewrite (fld_load _ G_bufs gblk B_lb _ _ Hgb1 Hxb) by reflexivity. xstep.
  rewrite C2. reflexivity.
Qed.

(* ------------------------------------------------------------------ the loop  for (i = 0; i < lb->hist_n; i++) lopt_done(&lb->hist[i]); *)
Definition ptrs_from (hblk : block) (i k : nat) : list val := flat_map (ent_ptrs hblk) (List.seq i k).

Lemma saved_loop_ok bl blk bh hblk n c d fuel :
  nth_error blk L_hist_n = Some (VInt (Z.of_nat n)) -> ((0 < n)%nat -> nth_error blk L_hist = Some (VPtr bh 0)) ->
  (9 * n <= length hblk)%nat -> Z.of_nat n <= 2147483647 ->
  forall k i m m1 fuel', (i + k = n)%nat -> nth_error m bl = Some blk -> nth_error m bh = Some hblk ->
  avoids (ptrs_from hblk i k) [bl; bh] -> free_list (ptrs_from hblk i k) m = Ok m1 -> (k < fuel')%nat ->
  exec (callf cprog fuel (S (S d))) fuel' saved_loop (mkst [VPtr bl 0; c; VInt (Z.of_nat i)] m)
  = ONormal (mkst [VPtr bl 0; c; VInt (Z.of_nat n)] m1).
Proof.
  intros Hn Hp Hlen Hmax. induction k as [|k IH]; intros i m m1 fuel' Hik Hb Hh Ha Hf Hfu; (destruct fuel' as [|fuel']; [lia|]);
    unfold saved_loop, saved_clear; cbn [fn_body cf_lbuf_saved]; rewrite exec_for; xstep; xfld Hb Hn;
    rewrite wrap_I32_id by lia.
  - assert (i = n) by lia. subst i. destruct (Z.ltb_spec (Z.of_nat n) (Z.of_nat n)); [lia|]. xstep.
    cbn in Hf. injection Hf as <-. reflexivity.
  - destruct (Z.ltb_spec (Z.of_nat i) (Z.of_nat n)); [|lia]. xstep. specialize (Hp ltac:(lia)). xfld Hb Hp.
    unfold ptrs_from in Hf, Ha. cbn [List.seq flat_map] in Hf, Ha. fold (ptrs_from hblk (S i) k) in Hf, Ha.
    rewrite free_list_app in Hf. destruct (free_list (ent_ptrs hblk i) m) as [ma|] eqn:E; [|discriminate].
    destruct (avoids_app _ _ _ Ha) as [A1 A2].
    assert (A1h : avoids (ent_ptrs hblk i) [bh]).
    { intros v b Hin Hv Hk. apply (A1 v b Hin Hv). destruct Hk as [<-|[]]. right; left; reflexivity. }
    replace (0 + 9 * Z.of_nat i) with (Z.of_nat (9 * i)) by lia.
    rewrite (tr_lopt_done m bh hblk i ma (S d) fuel Hh ltac:(lia) A1h E). xstep.
    rewrite chk_I32 by lia. xstep. replace (Z.of_nat i + 1) with (Z.of_nat (S i)) by lia.
    assert (Hb' : nth_error ma bl = Some blk) by (rewrite (free_list_keeps _ m ma [bl; bh] bl E A1 (or_introl eq_refl)); exact Hb).
    assert (Hh' : nth_error ma bh = Some hblk) by (rewrite (free_list_keeps _ m ma [bl; bh] bh E A1 (or_intror (or_introl eq_refl))); exact Hh).
    specialize (IH (S i) ma m1 fuel' ltac:(lia) Hb' Hh' A2 Hf ltac:(lia)).
    unfold saved_loop, saved_clear in IH; cbn [fn_body cf_lbuf_saved] in IH. exact IH.
Qed.

(* ------------------------------------------------------------------ lbuf_saved(lb, clear != 0) *)
(* the struct after  lb->hist_n = 0; lb->hist_u = 0; lb->useq_last = lb->useq; *)
Definition cleared_blk (blk : block) (u : Z) : block :=
  upd (upd (upd blk L_hist_n (VInt 0)) L_hist_u (VInt 0)) L_useq_last (VInt u).

Lemma cleared_len blk u : length blk = LBUF_CELLS -> length (cleared_blk blk u) = LBUF_CELLS.
Proof.
  intro H. unfold cleared_blk.
  assert (L1 : length (upd blk L_hist_n (VInt 0)) = LBUF_CELLS) by (rewrite upd_length; [exact H|rewrite H; unfold LBUF_CELLS; fld_ne]).
  assert (L2 : length (upd (upd blk L_hist_n (VInt 0)) L_hist_u (VInt 0)) = LBUF_CELLS) by (rewrite upd_length; [exact L1|rewrite L1; unfold LBUF_CELLS; fld_ne]).
  rewrite upd_length; [exact L2|rewrite L2; unfold LBUF_CELLS; fld_ne].
Qed.
Lemma cleared_cell blk u j : length blk = LBUF_CELLS ->
  nth_error (cleared_blk blk u) j =
  if Nat.eqb j L_useq_last then Some (VInt u) else if Nat.eqb j L_hist_u then Some (VInt 0) else
  if Nat.eqb j L_hist_n then Some (VInt 0) else nth_error blk j.
Proof.
  intro H. unfold cleared_blk.
  assert (L1 : length (upd blk L_hist_n (VInt 0)) = LBUF_CELLS) by (rewrite upd_length; [exact H|rewrite H; unfold LBUF_CELLS; fld_ne]).
  assert (L2 : length (upd (upd blk L_hist_n (VInt 0)) L_hist_u (VInt 0)) = LBUF_CELLS) by (rewrite upd_length; [exact L1|rewrite L1; unfold LBUF_CELLS; fld_ne]).
  destruct (Nat.eqb_spec j L_useq_last) as [->|N1]; [apply nth_error_upd_same; rewrite L2; unfold LBUF_CELLS; fld_ne|].
  rewrite nth_error_upd_other by (try exact N1; rewrite L2; unfold LBUF_CELLS; fld_ne).
  destruct (Nat.eqb_spec j L_hist_u) as [->|N2]; [apply nth_error_upd_same; rewrite L1; unfold LBUF_CELLS; fld_ne|].
  rewrite nth_error_upd_other by (try exact N2; rewrite L1; unfold LBUF_CELLS; fld_ne).
  destruct (Nat.eqb_spec j L_hist_n) as [->|N3]; [apply nth_error_upd_same; rewrite H; unfold LBUF_CELLS; fld_ne|].
  apply nth_error_upd_other; [rewrite H; unfold LBUF_CELLS; fld_ne|exact N3].
Qed.
(* a field store / load on a struct block that was just stored into: the memory stays of the form upd m bl B *)
Lemma fld_store_upd (m : mem) bl (b : block) i v z : (bl < length m)%nat -> (i < length b)%nat -> z = Z.of_nat i ->
  store (upd m bl b) bl z v = Ok (upd m bl (upd b i v)).
Proof.
  intros Hbl Hi Hz. rewrite (fld_store (upd m bl b) bl b i v z) by (try assumption; apply mem_upd_same; exact Hbl).
  f_equal. apply upd_upd. exact Hbl.
Qed.
Lemma fld_load_upd (m : mem) bl (b : block) i v z : (bl < length m)%nat -> nth_error b i = Some v -> z = Z.of_nat i ->
  load (upd m bl b) bl z = Ok v.
Proof. intros Hbl Hi Hz. apply (fld_load (upd m bl b) bl b i v z); try assumption. apply mem_upd_same. exact Hbl. Qed.

(* the block of `if (clear) { ... }` *)
Lemma saved_clear_ok m bl blk lb bh hblk m1 c l2 d fuel : lbuf_rep m bl blk lb -> lbuf_ints lb ->
  ((0 < length (hist lb))%nat -> nth_error blk L_hist = Some (VPtr bh 0) /\ nth_error m bh = Some hblk /\
                                  (9 * length (hist lb) <= length hblk)%nat) ->
  avoids (ptrs_from hblk 0 (length (hist lb))) [bl; bh] -> free_list (ptrs_from hblk 0 (length (hist lb))) m = Ok m1 ->
  (length (hist lb) < fuel)%nat ->
  exec (callf cprog fuel (S (S d))) fuel saved_clear (mkst [VPtr bl 0; c; l2] m)
  = ONormal (mkst [VPtr bl 0; c; VInt (Z.of_nat (length (hist lb)))] (upd m1 bl (cleared_blk blk (useq lb))))
  /\ nth_error m1 bl = Some blk.
Proof.
  intros R Hints Hh Ha Hf Hfu. pose proof R as [Rb Rl Ru Rsz Rn Rhu Rz Rla Rh]. pose proof Hints as (Hu & Hz & Hl & Hs & Hc & Hn).
  set (n := length (hist lb)) in *.
  assert (Hb1 : nth_error m1 bl = Some blk).
  { rewrite (free_list_keeps _ m m1 [bl; bh] bl Hf Ha (or_introl eq_refl)). exact Rb. }
  split; [|exact Hb1].
  assert (Hloop : exec (callf cprog fuel (S (S d))) fuel saved_loop (mkst [VPtr bl 0; c; VInt (Z.of_nat 0)] m)
                  = ONormal (mkst [VPtr bl 0; c; VInt (Z.of_nat n)] m1)).
  { destruct (Nat.eq_dec n 0) as [E0|E0].
    - (* an empty log: the loop body never runs, hist is not read *)
      fold n in Hf. rewrite E0 in *. cbn in Hf. injection Hf as <-.
      destruct fuel as [|fuel0]; [lia|]. unfold saved_loop, saved_clear; cbn [fn_body cf_lbuf_saved]. rewrite exec_for. xstep.
      xfld Rb Rn. reflexivity.
    - destruct (Hh ltac:(lia)) as (Hp & Hhb & Hlen).
      apply (saved_loop_ok bl blk bh hblk n c d fuel Rn (fun _ => Hp) Hlen Hn n 0%nat m m1 fuel ltac:(lia) Rb Hhb Ha Hf Hfu). }
  unfold saved_clear; cbn [fn_body cf_lbuf_saved]. rewrite exec_seq, exec_seq. xstep.
  unfold saved_loop, saved_clear in Hloop; cbn [fn_body cf_lbuf_saved] in Hloop. change (Z.of_nat 0) with 0 in Hloop. rewrite Hloop. xstep.
  change (wrap I32 0) with 0.
  assert (Hbl : (bl < length m1)%nat) by (apply nth_error_Some; congruence).
  rewrite (fld_store m1 bl blk L_hist_n _ _ Hb1) by (try reflexivity; fld_len). xstep.
  set (b1 := upd blk L_hist_n (VInt 0)).
  assert (L1 : length b1 = LBUF_CELLS) by (unfold b1; rewrite upd_length; [exact Rl|fld_len]).
  rewrite (fld_store_upd m1 bl b1 L_hist_u _ _ Hbl) by (try reflexivity; rewrite L1; unfold LBUF_CELLS; fld_ne). xstep.
  set (b2 := upd b1 L_hist_u (VInt 0)).
  assert (L2 : length b2 = LBUF_CELLS) by (unfold b2; rewrite upd_length; [exact L1|rewrite L1; unfold LBUF_CELLS; fld_ne]).
  assert (C68 : nth_error b2 L_useq = Some (VInt (useq lb))).
  { unfold b2, b1. rewrite nth_error_upd_other by (try fld_ne; rewrite upd_length by fld_len; fld_len).
    rewrite nth_error_upd_other by (try fld_ne; fld_len). exact Ru. }
  rewrite (fld_load_upd m1 bl b2 L_useq _ _ Hbl C68) by reflexivity. xstep. rewrite (wrap_I32_id _ Hu), (wrap_I32_id _ Hu).
  rewrite (fld_store_upd m1 bl b2 L_useq_last _ _ Hbl) by (try reflexivity; rewrite L2; unfold LBUF_CELLS; fld_ne). xstep.
  reflexivity.
Qed.

(* lbuf_saved(lb, clear) with clear != 0: every log entry's four pointers are freed, in order; the heap hypothesis is that this
   sequence of frees is legal (free_list = Ok: each pointer is NULL or points to the start of a live block, none twice) and
   touches neither the struct, nor the log array, nor the table bufs *)
Theorem tr_lbuf_saved_clear m bl blk lb bh hblk gblk m1 c d fuel : lbuf_rep m bl blk lb -> lbuf_ints lb -> useq lb < 2147483647 ->
  c <> 0 ->
  ((0 < length (hist lb))%nat -> nth_error blk L_hist = Some (VPtr bh 0) /\ nth_error m bh = Some hblk /\
                                  (9 * length (hist lb) <= length hblk)%nat) ->
  avoids (ptrs_from hblk 0 (length (hist lb))) [bl; bh; G_bufs] ->
  free_list (ptrs_from hblk 0 (length (hist lb))) m = Ok m1 ->
  bl <> G_bufs -> nth_error m G_bufs = Some gblk -> nth_error gblk B_lb = Some (VPtr bl 0) ->
  (length (hist lb) < fuel)%nat ->
  let blk' := upd (upd (cleared_blk blk (useq lb)) L_useq_zero (VInt (useq lb))) L_useq (VInt (useq lb + 1)) in
  callf cprog fuel (S (S (S d))) F_lbuf_saved [VPtr bl 0; VInt c] m = Ok (VUndef, upd m1 bl blk')
  /\ lbuf_rep (upd m1 bl blk') bl blk' (lbuf_saved lb true).
Proof.
  intros R Hints Hmax Hc0 Hh Ha Hf Hg Hgb Hxb Hfu blk'.
  assert (Ha2 : avoids (ptrs_from hblk 0 (length (hist lb))) [bl; bh]).
  { intros v b Hin Hv Hk. apply (Ha v b Hin Hv). destruct Hk as [<-|[<-|[]]]; [left; reflexivity|right; left; reflexivity]. }
  destruct (saved_clear_ok m bl blk lb bh hblk m1 (VInt c) VUndef d fuel R Hints Hh Ha2 Hf Hfu) as [Hclr Hb1].
  assert (Hgb1 : nth_error m1 G_bufs = Some gblk).
  { rewrite (free_list_keeps _ m m1 [bl; bh; G_bufs] G_bufs Hf Ha ltac:(right; right; left; reflexivity)). exact Hgb. }
  assert (Hbl : (bl < length m1)%nat) by (apply nth_error_Some; congruence).
  (* the state after the block represents clear_hist lb *)
  assert (R3 : lbuf_rep (upd m1 bl (cleared_blk blk (useq lb))) bl (cleared_blk blk (useq lb)) (clear_hist lb)).
  { pose proof R as [Rb Rl Ru Rsz Rn Rhu Rz Rla Rh].
    constructor; cbn [clear_hist useq hist hist_sz hist_u useq_zero useq_last length Z.of_nat];
      try (rewrite (cleared_cell _ _ _ Rl); first [assumption|reflexivity]).
    - apply mem_upd_same. exact Hbl.
    - apply cleared_len. exact Rl.
    - intro H. congruence. }
  assert (I3 : lbuf_ints (clear_hist lb)).
  { destruct Hints as (Hu & Hz & Hl & Hs & Hc & Hn). unfold lbuf_ints. cbn [clear_hist useq hist hist_u useq_zero useq_last length].
    unfold i32 in *. repeat split; try lia; try apply Forall_nil. }
  assert (Hgb3 : nth_error (upd m1 bl (cleared_blk blk (useq lb))) G_bufs = Some gblk)
    by (rewrite mem_upd_other by (try assumption; congruence); exact Hgb1).
  destruct (saved_tail_ok _ bl _ (clear_hist lb) gblk d fuel (VInt c) (VInt (Z.of_nat (length (hist lb)))) R3 I3 Hmax Hg Hgb3 Hxb) as [Htail Rfin].
  cbn [clear_hist useq lbuf_seq hist_u useq_last] in Htail, Rfin. fold blk' in Htail, Rfin.
  rewrite (upd_upd m1 bl _ blk' Hbl) in Htail, Rfin.
  split; [|exact Rfin].
  enter F_lbuf_saved cf_lbuf_saved. rewrite exec_seq, exec_if. xcbn.
  destruct (Z.eqb_spec c 0) as [E|_]; [contradiction|]. cbn [negb].
  match goal with |- context [exec ?cl ?f (SSeq (SSeq ?a ?w) ?r) ?st] => change (exec cl f (SSeq (SSeq a w) r) st) with (exec cl f saved_clear st) end.
  rewrite Hclr.
  match goal with |- context [exec ?cl ?f (SSeq ?a ?r) ?st] => change (exec cl f (SSeq a r) st) with (exec cl f saved_tail st) end.
  rewrite Htail. reflexivity.
Qed.
