(* UndoWalkDefs.v -- definitions for "the history is never truncated" (C04): the state of the one-entry-per-command
   stack after a command list, all the lbuf calls of a command list, and the number of undoable / redoable steps
   counted on the command list alone.  No proofs here (UndoWalk.v). *)
From Coq Require Import List Arith NArith ZArith Bool.
From NV Require Import UndoDefs.
Import ListNotations.

(* the text at the bottom of the keyed stack: what a complete undo walk must end on *)
Definition bottom (s : ustack) : text := last (map snd (past s)) (cur s).
(* the text at the top of the redo branch: what a complete redo walk must end on *)
Definition top (s : ustack) : text := last (map snd (future s)) (cur s).

(* the one-entry-per-command stack after a command list *)
Fixpoint cspec_cmds (s : cstack) (cs : list cmd) : cstack :=
  match cs with [] => s | c :: r => cspec_cmds (fst (cspec_cmd s c)) r end.

(* every lbuf call of a command list, each command closed by its Bump *)
Definition ops_of_cmds (cs : list cmd) : list op := flat_map ops_of_cmd cs.

(* a command that certainly logs something: one of its edit calls carries a text (lbuf_edit returns early only for
   a NULL text with an empty range); undo and redo commands are not restricted *)
Definition logs (c : cmd) : bool :=
  match c with
  | CEdits l => existsb (fun x => negb (is_none (fst (fst x)))) l
  | _ => true
  end.

(* (modifying commands not yet undone, commands undone and neither redone nor discarded by a later modifying command),
   counted on the command list alone, starting from n and f *)
Fixpoint live (cs : list cmd) (n f : nat) : nat * nat :=
  match cs with
  | [] => (n, f)
  | CEdits _ :: r => live r (S n) 0
  | CUndo :: r => match n with O => live r n f | S n' => live r n' (S f) end
  | CRedo :: r => match f with O => live r n f | S f' => live r (S n) f' end
  end.
