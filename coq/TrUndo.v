(* TrUndo.v -- lbuf_undo and lbuf_redo of /repo/lbuf.c on the translated C text (GenCFuncs.v), relative to an oracle for the
   splice lbuf_replace (X_lbuf_replace, CLiteExt.callx): the C text refines UndoDefs.lbuf_undo / lbuf_redo step by step.

   * undo_step / redo_step: ONE iteration of the loop, for EVERY oracle, under a hypothesis about the one call reached: the
     cursor hist_u is moved first (--hist_u / hist_u++), then lbuf_replace is called with the record's INVERSE arguments
     (lo->del, lo->pos, lo->n_ins) resp. its forward arguments (lo->ins, lo->pos, lo->n_del) on exactly that memory, then
     lbuf_loadpos and (undo) the 32 lbuf_loadmark calls change mark cells of the struct only;
   * tr_lbuf_undo / tr_lbuf_redo: the whole functions for every oracle that implements the model's splice on the
     represented state (`replace_oracle`, a simulation hypothesis): the loop runs over exactly the records of one sequence
     number (UndoDefs.undo_loop / redo_loop), newest first resp. oldest first, the state afterwards represents the model's,
     the result is 1 exactly when the model fails (nothing to undo / redo) and then the memory is untouched. *)
From Coq Require Import List ZArith NArith Bool Lia.
From NV Require Import Bytes GenConsts CLite CLiteProps GenCFuncs CLiteTac CLiteExt TrLbufBase UndoDefs TrUndoBase.
From NV Require TrLbuf.
Import ListNotations.
Local Open Scope Z_scope.

Lemma x_lbuf_replace_none : nth_error cprog X_lbuf_replace = None. Proof. vm_compute. reflexivity. Qed.

(* the splice is asked for something it can do: the range is inside the table, the new line count is an int *)
Definition splice_ok (lb : lbuf) (s : option (list N)) (p nd : nat) : Prop :=
  (p + nd <= length (ln lb))%nat /\ i31 (length (ln lb) + linecount s).

(* the oracle implements the model's splice: called on a memory that represents lb with a string argument that reads s, it
   returns a memory that represents lbuf_replace lb s p nd -- the same hist array (same block, same cells), the log's
   strings and mark arrays still in place (they are part of urep), the struct's bookkeeping cells unchanged *)
Definition replace_oracle (ext : nat -> list val -> mem -> res (val * mem)) (T : Tpred) (bl : nat) : Prop :=
  forall m blk bh hblk lb sv s p nd, urep T m bl blk bh hblk lb -> sarg m sv s -> splice_ok lb s p nd ->
  exists r m' blk', ext X_lbuf_replace [VPtr bl 0; sv; VInt (Z.of_nat p); VInt (Z.of_nat nd)] m = Ok (r, m') /\
                    urep T m' bl blk' bh hblk (lbuf_replace lb s p nd).

(* every splice of the undo group is one the oracle is obliged to answer *)
Fixpoint undo_fits (k : nat) (q : Z) (lb : lbuf) : Prop :=
  match k with
  | O => True
  | S f => if Nat.ltb 0 (hist_u lb) && Z.eqb (seq_at (hist lb) (hist_u lb - 1)) q
           then let lo := nth (hist_u lb - 1) (hist lb) dflt in
                splice_ok (set_hu lb (hist_u lb - 1)) (del lo) (pos lo) (n_ins lo) /\ undo_fits f q (undo1 lb)
           else True
  end.
Definition undo_ok (lb : lbuf) : Prop := undo_fits (hist_u lb) (seq_at (hist lb) (hist_u lb - 1)) lb.

Definition undo_while : stmt := match fn_body cf_lbuf_undo with SSeq _ (SSeq _ (SSeq w _)) => w | _ => SSkip end.
Definition undo_body : stmt := match undo_while with SWhile _ b => b | _ => SSkip end.
Definition undo_cond : expr := match undo_while with SWhile c _ => c | _ => EConst 0 end.
Definition undo_marks : stmt := match undo_body with SSeq _ (SSeq _ (SSeq _ (SSeq _ f))) => f | _ => SSkip end.

Lemma undo_while_eq : undo_while = SWhile undo_cond undo_body. Proof. reflexivity. Qed.

Section Undo.
  Variable ext : nat -> list val -> mem -> res (val * mem).
  Variable T : Tpred.
  Hypothesis TF : T_frame T.
  Variables (bl bh : nat) (hblk : block).
  Variables (d fuel : nat).
  Let cx := callx ext cprog fuel (S (S (S d))).

  Lemma undo_marks_ok q i : forall k j (m : mem) (blk : block) fuel', (j + k = 32)%nat ->
    nth_error m bl = Some blk -> length blk = LBUF_CELLS -> ints_upto blk 64 -> bh <> bl -> nth_error m bh = Some hblk ->
    (9 * i + 9 <= length hblk)%nat -> mark_part m hblk i -> ~ In bl (mark_blocks hblk i) -> (k < fuel')%nat ->
    exists blk', exec cx fuel' undo_marks (mkst [VPtr bl 0; VInt q; VInt (Z.of_nat j); VPtr bh (Z.of_nat (9 * i))] m)
                 = ONormal (mkst [VPtr bl 0; VInt q; VInt 32; VPtr bh (Z.of_nat (9 * i))] (upd m bl blk')) /\ mk_eq blk blk'.
  Proof.
    induction k as [|k IH]; intros j m blk fuel' Hjk Hb L I Hne Hh Hlen Hm Hnb Hf; (destruct fuel' as [|fuel']; [lia|]);
      unfold undo_marks, undo_body, undo_while; cbn [fn_body cf_lbuf_undo]; rewrite exec_for; xstep.
    - (* j = 32: the loop ends *)
      assert (j = 32)%nat by lia. subst j. div32. xstep. rewrite wrap_U64_id by lia. change (Z.of_nat 32 <? 32) with false. xstep.
      exists blk. split; [rewrite (upd_self m bl blk Hb); reflexivity|apply mk_eq_refl; exact I].
    - div32. xstep. rewrite wrap_U64_id by lia. destruct (Z.ltb_spec (Z.of_nat j) 32); [|lia]. xstep.
      destruct (tr_loadmark m bl bh blk hblk i j (S (S d)) fuel Hb L I Hne Hh Hlen Hm Hnb ltac:(lia)) as (b1 & C1 & E1).
      unfold cx. rewrite (callx_mono ext _ _ _ _ _ _ _ C1). xstep. rewrite chk_I32 by lia. xstep.
      assert (Hbl : (bl < length m)%nat) by (apply nth_error_Some; congruence).
      replace (Z.of_nat j + 1) with (Z.of_nat (S j)) by lia.
      destruct (IH (S j) (upd m bl b1) b1 fuel' ltac:(lia) (mem_upd_same m bl b1 Hbl) (mk_eq_len _ _ E1 L) (mk_eq_ints _ _ E1) Hne) as (b2 & C2 & E2);
        try assumption; try lia.
      + rewrite mem_upd_other by assumption. exact Hh.
      + destruct Hm as [Hm|(bm & bo & H7 & H8 & Hm)]; [left; exact Hm|]. right. exists bm, bo. split; [exact H7|]. split; [exact H8|].
        unfold mark_blocks in Hnb. rewrite H7, H8 in Hnb. cbn [ptr_block app In] in Hnb.
        apply (marr_keeps m); [exact Hm| |]; apply mem_upd_other; try assumption; intro; subst; tauto.
      + unfold undo_marks, undo_body, undo_while in C2; cbn [fn_body cf_lbuf_undo] in C2. fold cx. rewrite C2.
        exists b2. rewrite upd_upd by exact Hbl. split; [reflexivity|apply (mk_eq_trans _ _ _ E1 E2)].
  Qed.

  Lemma undo_step (m : mem) (blk : block) lb (q : Z) (l2 l3 : val) fuel' : urep T m bl blk bh hblk lb -> (0 < hist_u lb)%nat -> (32 < fuel')%nat ->
    let u := (hist_u lb - 1)%nat in let lo := nth u (hist lb) dflt in
    let blk1 := upd blk L_hist_u (VInt (Z.of_nat u)) in let m1 := upd m bl blk1 in
    urep T m1 bl blk1 bh hblk (set_hu lb u) /\ sarg m1 (hc hblk (9 * u + 1)) (del lo) /\
    forall r (m2 : mem) (blk2 : block) lb2,
      ext X_lbuf_replace [VPtr bl 0; hc hblk (9 * u + 1); VInt (Z.of_nat (pos lo)); VInt (Z.of_nat (n_ins lo))] m1 = Ok (r, m2) ->
      urep T m2 bl blk2 bh hblk lb2 -> (u < length (hist lb2))%nat ->
      exists m3 blk3, exec cx fuel' undo_body (mkst [VPtr bl 0; VInt q; l2; l3] m)
                      = ONormal (mkst [VPtr bl 0; VInt q; VInt 32; VPtr bh (Z.of_nat (9 * u))] m3) /\
                      urep T m3 bl blk3 bh hblk lb2.
  Proof.
    intros R Hu Hf u lo blk1 m1. pose proof R as [Hb L I Cn Rn Cq Ch Csz Cnn Cu Cz Cl Rg Hh Hl He Ho Ht].
    destruct Rg as (Rq & (Ru & Rs) & Rz & Rsz).
    assert (Hbl : (bl < length m)%nat) by (apply nth_error_Some; congruence).
    assert (R1 : urep T m1 bl blk1 bh hblk (set_hu lb u)).
    { apply (urep_struct T m bl blk blk1 bh hblk lb u TF R).
      - unfold blk1. rewrite upd_length; [exact L|rewrite L; unfold LBUF_CELLS, L_hist_u; lia].
      - intros j Hj. unfold blk1. rewrite nth_error_upd_other by (try (rewrite L; unfold LBUF_CELLS, L_hist_u; lia); unfold L_hist_u; lia). apply I. exact Hj.
      - intros j Hj Hne. unfold blk1. apply nth_error_upd_other; [rewrite L; unfold LBUF_CELLS, L_hist_u; lia|exact Hne].
      - unfold blk1. apply nth_error_upd_same. rewrite L; unfold LBUF_CELLS, L_hist_u; lia.
      - unfold u. lia. }
    assert (Hui : (u < length (hist lb))%nat) by (unfold u; lia).
    pose proof (u_ents _ _ _ _ _ _ _ R1 u Hui) as E1. cbn [set_hu hist] in E1. fold lo in E1.
    split; [exact R1|]. split; [apply sown_sarg; apply (er_del _ _ _ _ E1)|].
    intros r m2 blk2 lb2 Hext R2 Hu2.
    pose proof R2 as [Hb2 L2 I2 Cn2 Rn2 Cq2 Ch2 Csz2 Cnn2 Cu2 Cz2 Cl2 Rg2 Hh2 Hl2 He2 Ho2 Ht2].
    assert (Nhl : bh <> bl) by (intro X; subst; inversion Ho as [|? ? Hn _]; apply Hn; left; reflexivity).
    assert (Hlen : (9 * u + 9 <= length hblk)%nat) by (rewrite Hl; lia).
    destruct E1 as [E1i E1d E1p E1ni E1nd [zo E1o] E1s E1m (Rp & Rni & Rnd & Rs1)].
    unfold undo_body, undo_while; cbn [fn_body cf_lbuf_undo]. xstep.
    xfld Hb Ch. xfld Hb Cu. rewrite wrap_I32_id by (unfold i31 in *; lia). rewrite chk_I32 by (unfold i31 in *; lia). xstep.
    replace (Z.of_nat (hist_u lb) + -1) with (Z.of_nat u) by (unfold u; lia).
    rewrite (fld_store m bl blk L_hist_u _ _ Hb) by (try reflexivity; rewrite L; unfold LBUF_CELLS, L_hist_u; lia). cbn [fst snd]. xstep.
    fold blk1. fold m1.
    replace (0 + 9 * Z.of_nat u) with (Z.of_nat (9 * u)) by lia.
    assert (Hh1 : nth_error m1 bh = Some hblk) by (apply (u_hblk _ _ _ _ _ _ _ R1)).
    rewrite (hc_load m1 bh hblk (9 * u + 1) _ Hh1) by lia.
    assert (Hd : exists vd, hc hblk (9 * u + 1) = vd /\ (vd = VInt 0 \/ exists b, vd = VPtr b 0)).
    { eexists. split; [reflexivity|]. destruct (del lo); cbn [sown] in E1d; [right; destruct E1d as (_ & b & -> & _); eauto|left; exact E1d]. }
    destruct Hd as (vd & Evd & Hvd). rewrite Evd in *.
    assert (Hbl2 : (bl < length m2)%nat) by (apply nth_error_Some; congruence).
    assert (Nmk : ~ In bl (mark_blocks hblk u)).
    { intro X. inversion Ho2 as [|? ? Hn _]. apply Hn. right. apply (in_log_blocks hblk u); [exact Hu2|apply mark_blocks_ent; exact X]. }
    pose proof (He2 u Hu2) as E2. destruct E2 as [_ _ E2p _ _ [zo2 E2o] _ E2m _].
    destruct (tr_loadpos m2 bl bh blk2 hblk u _ _ d fuel Hb2 L2 I2 Nhl Hh2 Hlen E2p E2o) as (b3 & C3 & E3).
    pose proof (urep_marks T m2 bl blk2 b3 bh hblk lb2 TF R2 E3) as R3.
    pose proof (u_ents _ _ _ _ _ _ _ R3 u Hu2) as E3'. destruct E3' as [_ _ _ _ _ _ _ E3m _].
    destruct (undo_marks_ok q u 32 0 (upd m2 bl b3) b3 fuel' ltac:(lia) (mem_upd_same m2 bl b3 Hbl2) (mk_eq_len _ _ E3 L2) (mk_eq_ints _ _ E3) Nhl
                (u_hblk _ _ _ _ _ _ _ R3) Hlen E3m Nmk Hf) as (b4 & C4 & E4).
    unfold undo_marks, undo_body, undo_while in C4; cbn [fn_body cf_lbuf_undo] in C4. change (Z.of_nat 0) with 0 in C4.
    exists (upd (upd m2 bl b3) bl b4), b4. split; [|apply (urep_marks T _ bl b3 b4 bh hblk lb2 TF R3 E4)].
    destruct Hvd as [->|[bd ->]]; xstep;
      (rewrite (hc_load m1 bh hblk (9 * u + 2) _ Hh1) by lia); rewrite E1p; xstep;
      (rewrite (hc_load m1 bh hblk (9 * u + 3) _ Hh1) by lia); rewrite E1ni; xstep;
      (rewrite !wrap_I32_id by (unfold i31 in *; lia));
      unfold cx at 1; rewrite callx_S, x_lbuf_replace_none; rewrite Hext; xstep;
      unfold cx at 1; rewrite (callx_mono ext _ _ _ _ _ _ _ C3); xstep;
      rewrite C4; reflexivity.
  Qed.
  Hypothesis HO : replace_oracle ext T bl.

  Lemma undo_loop_ok q : forall k (m : mem) (blk : block) lb (l2 l3 : val) fuel',
    urep T m bl blk bh hblk lb -> undo_fits k q lb -> (hist_u lb <= k)%nat -> (k + 33 < fuel')%nat ->
    exists (m' : mem) (blk' : block) (l2' l3' : val),
      exec cx fuel' undo_while (mkst [VPtr bl 0; VInt q; l2; l3] m) = ONormal (mkst [VPtr bl 0; VInt q; l2'; l3'] m') /\
      urep T m' bl blk' bh hblk (undo_loop k q lb).
  Proof.
    induction k as [|k IH]; intros m blk lb l2 l3 fuel' R Hfit Hk Hf; (destruct fuel' as [|fuel']; [lia|]);
      pose proof R as [Hb L I Cn Rn Cq Ch Csz Cnn Cu Cz Cl Rg Hh Hl He Ho Ht]; destruct Rg as (Rq & (Ru & Rs) & Rz & Rsz);
      rewrite undo_while_eq, exec_while, <- undo_while_eq; set (W := undo_while); unfold undo_cond, undo_while; cbn [fn_body cf_lbuf_undo];
      xstep; xfld Hb Cu; rewrite wrap_I32_id by (unfold i31 in *; lia).
    - assert (hist_u lb = 0)%nat by lia. rewrite H. xstep. exists m, blk, l2, l3. split; [reflexivity|exact R].
    - cbn [undo_loop]. cbn [undo_fits] in Hfit. destruct (hist_u lb) as [|u] eqn:Eu.
      + xstep. exists m, blk, l2, l3. split; [reflexivity|exact R].
      + replace (Z.of_nat (S u) =? 0) with false by (symmetry; apply Z.eqb_neq; lia). xstep.
        xfld Hb Ch. xfld Hb Cu. rewrite ?Eu. rewrite wrap_I32_id by (unfold i31 in *; lia). rewrite chk_I32 by (unfold i31 in *; lia). xstep.
        replace (S u - 1)%nat with u in * by lia.
        assert (Hui : (u < length (hist lb))%nat) by lia.
        pose proof (He u Hui) as E. destruct E as [_ _ _ _ _ _ Es _ (_ & _ & _ & Rsq)].
        rewrite (hc_load m bh hblk (9 * u + 6) _ Hh) by (try rewrite Hl; lia). rewrite Es. xstep. rewrite (wrap_I32_id _ Rsq).
        change (Nat.ltb 0 (S u)) with true in *. cbn [andb] in *. unfold seq_at in *.
        destruct (Z.eqb_spec (seq (nth u (hist lb) dflt)) q) as [Eq|Nq]; xstep.
        2:{ exists m, blk, l2, l3. split; [reflexivity|exact R]. }
        destruct Hfit as [Hsp Hfit].
        destruct (undo_step m blk lb q l2 l3 (S fuel') R ltac:(lia) ltac:(lia)) as (R1 & Hsa & Hstep).
        rewrite Eu in *. replace (S u - 1)%nat with u in * by lia.
        destruct (HO _ _ _ _ _ _ _ _ _ R1 Hsa Hsp) as (r & m2 & blk2 & Hext & R2).
        destruct (Hstep r m2 blk2 _ Hext R2 Hui) as (m3 & blk3 & C3 & R3).
        rewrite C3.
        assert (Hu1 : undo1 lb = lbuf_replace (set_hu lb u) (del (nth u (hist lb) dflt)) (pos (nth u (hist lb) dflt)) (n_ins (nth u (hist lb) dflt)))
          by (unfold undo1; rewrite Eu; replace (S u - 1)%nat with u by lia; reflexivity).
        rewrite <- Hu1 in R3.
        destruct (IH m3 blk3 (undo1 lb) (VInt 32) (VPtr bh (Z.of_nat (9 * u))) fuel' R3 Hfit) as (m' & blk' & l2' & l3' & C' & R'); try lia.
        { rewrite Hu1. cbn [lbuf_replace set_ln set_hu hist_u]. lia. }
        subst W. rewrite C'.
        exists m', blk', l2', l3'. split; [reflexivity|exact R'].
  Qed.

  Theorem tr_lbuf_undo (m : mem) (blk : block) lb : urep T m bl blk bh hblk lb -> undo_ok lb -> (hist_u lb + 33 < fuel)%nat ->
    match UndoDefs.lbuf_undo lb with
    | None => callx ext cprog fuel (S (S (S (S d)))) F_lbuf_undo [VPtr bl 0] m = Ok (VInt 1, m)
    | Some lb' => exists (m' : mem) (blk' : block),
                    callx ext cprog fuel (S (S (S (S d)))) F_lbuf_undo [VPtr bl 0] m = Ok (VInt 0, m') /\ urep T m' bl blk' bh hblk lb'
    end.
  Proof.
    intros R Hok Hf. pose proof R as [Hb L I Cn Rn Cq Ch Csz Cnn Cu Cz Cl Rg Hh Hl He Ho Ht]. destruct Rg as (Rq & (Ru & Rs) & Rz & Rsz).
    unfold UndoDefs.lbuf_undo. destruct (hist_u lb) as [|u] eqn:Eu.
    - cbn [Nat.eqb]. rewrite callx_S. cbn [nth_error cprog F_lbuf_undo cf_lbuf_undo fn_nparams fn_nlocals fn_body length Nat.eqb Nat.sub repeat app].
      xstep. xfld Hb Cu. rewrite ?Eu. change (wrap I32 (Z.of_nat 0)) with 0. xstep. reflexivity.
    - cbn [Nat.eqb]. replace (S u - 1)%nat with u in * by lia.
      assert (Hui : (u < length (hist lb))%nat) by lia.
      pose proof (He u Hui) as E. destruct E as [_ _ _ _ _ _ Es _ (_ & _ & _ & Rsq)].
      unfold undo_ok in Hok. rewrite Eu in Hok. replace (S u - 1)%nat with u in * by lia.
      destruct (undo_loop_ok (seq_at (hist lb) u) (S u) m blk lb VUndef VUndef fuel R Hok ltac:(lia) ltac:(lia)) as (m' & blk' & l2' & l3' & C & R').
      exists m', blk'. split; [|exact R'].
      rewrite callx_S. cbn [nth_error cprog F_lbuf_undo cf_lbuf_undo fn_nparams fn_nlocals fn_body length Nat.eqb Nat.sub repeat app].
      xstep. xfld Hb Cu. rewrite ?Eu. rewrite wrap_I32_id by (unfold i31 in *; lia).
      replace (Z.of_nat (S u) =? 0) with false by (symmetry; apply Z.eqb_neq; lia). cbn [negb]. xstep.
      xfld Hb Ch. xfld Hb Cu. rewrite ?Eu. rewrite wrap_I32_id by (unfold i31 in *; lia). rewrite chk_I32 by (unfold i31 in *; lia). xstep.
      replace (0 + 9 * (Z.of_nat (S u) - 1) + 1 * 6) with (Z.of_nat (9 * u + 6)) by lia.
      rewrite (hc_load m bh hblk (9 * u + 6) _ Hh) by (try rewrite Hl; lia). rewrite Es. xstep. rewrite (wrap_I32_id _ Rsq).
      unfold seq_at in C. fold cx.
      match goal with |- context [exec cx fuel (SWhile ?c ?b) ?st] => change (exec cx fuel (SWhile c b) st) with (exec cx fuel undo_while st) end.
      rewrite C. xstep. reflexivity.
  Qed.
End Undo.

(* ------------------------------------------------------------------ lbuf_redo *)
Fixpoint redo_fits (k : nat) (q : Z) (lb : lbuf) : Prop :=
  match k with
  | O => True
  | S f => if Nat.ltb (hist_u lb) (length (hist lb)) && Z.eqb (seq_at (hist lb) (hist_u lb)) q
           then let lo := nth (hist_u lb) (hist lb) dflt in
                splice_ok (set_hu lb (S (hist_u lb))) (ins lo) (pos lo) (n_del lo) /\ redo_fits f q (redo1 lb)
           else True
  end.
Definition redo_ok (lb : lbuf) : Prop := redo_fits (length (hist lb) - hist_u lb) (seq_at (hist lb) (hist_u lb)) lb.

Definition redo_while : stmt := match fn_body cf_lbuf_redo with SSeq _ (SSeq _ (SSeq w _)) => w | _ => SSkip end.
Definition redo_body : stmt := match redo_while with SWhile _ b => b | _ => SSkip end.
Definition redo_cond : expr := match redo_while with SWhile c _ => c | _ => EConst 0 end.
Lemma redo_while_eq : redo_while = SWhile redo_cond redo_body. Proof. reflexivity. Qed.

Section Redo.
  Variable ext : nat -> list val -> mem -> res (val * mem).
  Variable T : Tpred.
  Hypothesis TF : T_frame T.
  Variables (bl bh : nat) (hblk : block).
  Variables (d fuel : nat).
  Let cx := callx ext cprog fuel (S (S (S d))).

  Lemma redo_step (m : mem) (blk : block) lb (q : Z) (l2 : val) fuel' : urep T m bl blk bh hblk lb -> (hist_u lb < length (hist lb))%nat ->
    let u := hist_u lb in let lo := nth u (hist lb) dflt in
    let blk1 := upd blk L_hist_u (VInt (Z.of_nat (S u))) in let m1 := upd m bl blk1 in
    urep T m1 bl blk1 bh hblk (set_hu lb (S u)) /\ sarg m1 (hc hblk (9 * u)) (ins lo) /\
    forall r (m2 : mem) (blk2 : block) lb2,
      ext X_lbuf_replace [VPtr bl 0; hc hblk (9 * u); VInt (Z.of_nat (pos lo)); VInt (Z.of_nat (n_del lo))] m1 = Ok (r, m2) ->
      urep T m2 bl blk2 bh hblk lb2 -> (u < length (hist lb2))%nat ->
      exists (m3 : mem) (blk3 : block), exec cx fuel' redo_body (mkst [VPtr bl 0; VInt q; l2] m)
                      = ONormal (mkst [VPtr bl 0; VInt q; VPtr bh (Z.of_nat (9 * u))] m3) /\
                      urep T m3 bl blk3 bh hblk lb2.
  Proof.
    intros R Hu u lo blk1 m1. pose proof R as [Hb L I Cn Rn Cq Ch Csz Cnn Cu Cz Cl Rg Hh Hl He Ho Ht].
    destruct Rg as (Rq & (Ru & Rs) & Rz & Rsz).
    assert (Hbl : (bl < length m)%nat) by (apply nth_error_Some; congruence).
    assert (R1 : urep T m1 bl blk1 bh hblk (set_hu lb (S u))).
    { apply (urep_struct T m bl blk blk1 bh hblk lb (S u) TF R).
      - unfold blk1. rewrite upd_length; [exact L|rewrite L; unfold LBUF_CELLS, L_hist_u; lia].
      - intros j Hj. unfold blk1. rewrite nth_error_upd_other by (try (rewrite L; unfold LBUF_CELLS, L_hist_u; lia); unfold L_hist_u; lia). apply I. exact Hj.
      - intros j Hj Hne. unfold blk1. apply nth_error_upd_other; [rewrite L; unfold LBUF_CELLS, L_hist_u; lia|exact Hne].
      - unfold blk1. apply nth_error_upd_same. rewrite L; unfold LBUF_CELLS, L_hist_u; lia.
      - unfold u. lia. }
    assert (Hui : (u < length (hist lb))%nat) by (unfold u; lia).
    pose proof (u_ents _ _ _ _ _ _ _ R1 u Hui) as E1. cbn [set_hu hist] in E1. fold lo in E1.
    split; [exact R1|]. split; [apply sown_sarg; apply (er_ins _ _ _ _ E1)|].
    intros r m2 blk2 lb2 Hext R2 Hu2.
    pose proof R2 as [Hb2 L2 I2 Cn2 Rn2 Cq2 Ch2 Csz2 Cnn2 Cu2 Cz2 Cl2 Rg2 Hh2 Hl2 He2 Ho2 Ht2].
    assert (Nhl : bh <> bl) by (intro X; subst; inversion Ho as [|? ? Hn _]; apply Hn; left; reflexivity).
    assert (Hlen : (9 * u + 9 <= length hblk)%nat) by (rewrite Hl; lia).
    destruct E1 as [E1i E1d E1p E1ni E1nd [zo E1o] E1s E1m (Rp & Rni & Rnd & Rs1)].
    assert (Hh1 : nth_error m1 bh = Some hblk) by (apply (u_hblk _ _ _ _ _ _ _ R1)).
    assert (Hd : exists vd, hc hblk (9 * u) = vd /\ (vd = VInt 0 \/ exists b, vd = VPtr b 0)).
    { eexists. split; [reflexivity|]. destruct (ins lo); cbn [sown] in E1i; [right; destruct E1i as (_ & b & -> & _); eauto|left; exact E1i]. }
    destruct Hd as (vd & Evd & Hvd). rewrite Evd in *.
    pose proof (He2 u Hu2) as E2. destruct E2 as [_ _ E2p _ _ [zo2 E2o] _ E2m _].
    destruct (tr_loadpos m2 bl bh blk2 hblk u _ _ d fuel Hb2 L2 I2 Nhl Hh2 Hlen E2p E2o) as (b3 & C3 & E3).
    exists (upd m2 bl b3), b3. split; [|apply (urep_marks T m2 bl blk2 b3 bh hblk lb2 TF R2 E3)].
    unfold redo_body, redo_while; cbn [fn_body cf_lbuf_redo]. xstep.
    xfld Hb Ch. xfld Hb Cu. rewrite wrap_I32_id by (unfold i31 in *; lia). rewrite chk_I32 by (unfold i31 in *; lia). xstep.
    replace (Z.of_nat (hist_u lb) + 1) with (Z.of_nat (S u)) by (unfold u; lia).
    rewrite (fld_store m bl blk L_hist_u _ _ Hb) by (try reflexivity; rewrite L; unfold LBUF_CELLS, L_hist_u; lia). cbn [fst snd]. xstep.
    fold blk1. fold m1. fold u.
    replace (0 + 9 * Z.of_nat u) with (Z.of_nat (9 * u)) by lia.
    rewrite (hc_load m1 bh hblk (9 * u) _ Hh1) by lia. rewrite Evd.
    destruct Hvd as [->|[bd ->]]; xstep;
      (rewrite (hc_load m1 bh hblk (9 * u + 2) _ Hh1) by lia); rewrite E1p; xstep;
      (rewrite (hc_load m1 bh hblk (9 * u + 4) _ Hh1) by lia); rewrite E1nd; xstep;
      (rewrite !wrap_I32_id by (unfold i31 in *; lia));
      unfold cx at 1; rewrite callx_S, x_lbuf_replace_none; rewrite Hext; xstep;
      unfold cx at 1; rewrite (callx_mono ext _ _ _ _ _ _ _ C3); xstep; reflexivity.
  Qed.
  Hypothesis HO : replace_oracle ext T bl.

  Lemma redo_loop_ok q : forall k (m : mem) (blk : block) lb (l2 : val) fuel',
    urep T m bl blk bh hblk lb -> redo_fits k q lb -> (length (hist lb) - hist_u lb <= k)%nat -> (k < fuel')%nat ->
    exists (m' : mem) (blk' : block) (l2' : val),
      exec cx fuel' redo_while (mkst [VPtr bl 0; VInt q; l2] m) = ONormal (mkst [VPtr bl 0; VInt q; l2'] m') /\
      urep T m' bl blk' bh hblk (redo_loop k q lb).
  Proof.
    induction k as [|k IH]; intros m blk lb l2 fuel' R Hfit Hk Hf; (destruct fuel' as [|fuel']; [lia|]);
      pose proof R as [Hb L I Cn Rn Cq Ch Csz Cnn Cu Cz Cl Rg Hh Hl He Ho Ht]; destruct Rg as (Rq & (Ru & Rs) & Rz & Rsz);
      rewrite redo_while_eq, exec_while, <- redo_while_eq; set (W := redo_while); unfold redo_cond, redo_while; cbn [fn_body cf_lbuf_redo];
      xstep; xfld Hb Cu; xfld Hb Cnn; rewrite !wrap_I32_id by (unfold i31 in *; lia).
    - destruct (Z.ltb_spec (Z.of_nat (hist_u lb)) (Z.of_nat (length (hist lb)))); [lia|]. xstep.
      exists m, blk, l2. split; [reflexivity|exact R].
    - cbn [redo_loop]. cbn [redo_fits] in Hfit.
      destruct (Nat.ltb_spec (hist_u lb) (length (hist lb))) as [Hlt|Hge]; cbn [andb] in *.
      2:{ destruct (Z.ltb_spec (Z.of_nat (hist_u lb)) (Z.of_nat (length (hist lb)))); [lia|]. xstep.
          exists m, blk, l2. split; [reflexivity|exact R]. }
      destruct (Z.ltb_spec (Z.of_nat (hist_u lb)) (Z.of_nat (length (hist lb)))); [|lia]. xstep.
      xfld Hb Ch. xfld Hb Cu. rewrite wrap_I32_id by (unfold i31 in *; lia). xstep.
      set (u := hist_u lb) in *.
      pose proof (He u Hlt) as E. destruct E as [_ _ _ _ _ _ Es _ (_ & _ & _ & Rsq)].
      replace (0 + 9 * Z.of_nat u + 1 * 6) with (Z.of_nat (9 * u + 6)) by lia.
      rewrite (hc_load m bh hblk (9 * u + 6) _ Hh) by (try rewrite Hl; lia). rewrite Es. xstep. rewrite (wrap_I32_id _ Rsq).
      unfold seq_at in *.
      destruct (Z.eqb_spec (seq (nth u (hist lb) dflt)) q) as [Eq|Nq]; xstep.
      2:{ exists m, blk, l2. split; [reflexivity|exact R]. }
      destruct Hfit as [Hsp Hfit].
      destruct (redo_step m blk lb q l2 (S fuel') R Hlt) as (R1 & Hsa & Hstep). fold u in R1, Hsa, Hstep.
      destruct (HO _ _ _ _ _ _ _ _ _ R1 Hsa Hsp) as (r & m2 & blk2 & Hext & R2).
      destruct (Hstep r m2 blk2 _ Hext R2 Hlt) as (m3 & blk3 & C3 & R3).
      rewrite C3.
      assert (Hu1 : redo1 lb = lbuf_replace (set_hu lb (S u)) (ins (nth u (hist lb) dflt)) (pos (nth u (hist lb) dflt)) (n_del (nth u (hist lb) dflt)))
        by reflexivity.
      rewrite <- Hu1 in R3.
      destruct (IH m3 blk3 (redo1 lb) (VPtr bh (Z.of_nat (9 * u))) fuel' R3 Hfit) as (m' & blk' & l2' & C' & R'); try lia.
      { rewrite Hu1. cbn [lbuf_replace set_ln set_hu hist_u hist]. lia. }
      subst W. rewrite C'. exists m', blk', l2'. split; [reflexivity|exact R'].
  Qed.

  Theorem tr_lbuf_redo (m : mem) (blk : block) lb : urep T m bl blk bh hblk lb -> redo_ok lb -> (length (hist lb) - hist_u lb < fuel)%nat ->
    match UndoDefs.lbuf_redo lb with
    | None => callx ext cprog fuel (S (S (S (S d)))) F_lbuf_redo [VPtr bl 0] m = Ok (VInt 1, m)
    | Some lb' => exists (m' : mem) (blk' : block),
                    callx ext cprog fuel (S (S (S (S d)))) F_lbuf_redo [VPtr bl 0] m = Ok (VInt 0, m') /\ urep T m' bl blk' bh hblk lb'
    end.
  Proof.
    intros R Hok Hf. pose proof R as [Hb L I Cn Rn Cq Ch Csz Cnn Cu Cz Cl Rg Hh Hl He Ho Ht]. destruct Rg as (Rq & (Ru & Rs) & Rz & Rsz).
    unfold UndoDefs.lbuf_redo. destruct (Nat.eqb_spec (hist_u lb) (length (hist lb))) as [Eu|Nu].
    - rewrite callx_S. cbn [nth_error cprog F_lbuf_redo cf_lbuf_redo fn_nparams fn_nlocals fn_body length Nat.eqb Nat.sub repeat app].
      xstep. xfld Hb Cu. xfld Hb Cnn. rewrite !wrap_I32_id by (unfold i31 in *; lia). rewrite Eu, Z.eqb_refl. xstep. reflexivity.
    - assert (Hlt : (hist_u lb < length (hist lb))%nat) by lia.
      pose proof (He _ Hlt) as E. destruct E as [_ _ _ _ _ _ Es _ (_ & _ & _ & Rsq)].
      destruct (redo_loop_ok (seq_at (hist lb) (hist_u lb)) (length (hist lb) - hist_u lb) m blk lb VUndef fuel R Hok ltac:(lia) ltac:(lia)) as (m' & blk' & l2' & C & R').
      exists m', blk'. split; [|exact R'].
      rewrite callx_S. cbn [nth_error cprog F_lbuf_redo cf_lbuf_redo fn_nparams fn_nlocals fn_body length Nat.eqb Nat.sub repeat app].
      xstep. xfld Hb Cu. xfld Hb Cnn. rewrite !wrap_I32_id by (unfold i31 in *; lia).
      destruct (Z.eqb_spec (Z.of_nat (hist_u lb)) (Z.of_nat (length (hist lb)))); [lia|]. xstep.
      xfld Hb Ch. xfld Hb Cu. rewrite wrap_I32_id by (unfold i31 in *; lia). xstep.
      replace (0 + 9 * Z.of_nat (hist_u lb) + 1 * 6) with (Z.of_nat (9 * hist_u lb + 6)) by lia.
      rewrite (hc_load m bh hblk (9 * hist_u lb + 6) _ Hh) by (try rewrite Hl; lia). rewrite Es. xstep. rewrite (wrap_I32_id _ Rsq).
      unfold seq_at in C. fold cx.
      match goal with |- context [exec cx fuel (SWhile ?c ?b) ?st] => change (exec cx fuel (SWhile c b) st) with (exec cx fuel redo_while st) end.
      rewrite C. xstep. reflexivity.
  Qed.
End Redo.
