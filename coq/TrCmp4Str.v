(* TrCmp4Str.v -- lbuf_replace of /repo/lbuf.c on the translated C text once more, for the memories the undo log really has (C04,
   composition of TrSplice*.v with TrUndo*.v): the text argument s may lie in a block that is LONGER than the string (the buffers
   sbuf_done hands out, which is what lbuf_cp returns and what the log's `del` strings are: TrUndoBase.cstr_from), and the
   conclusion also says that the 32 cells mark_off[] of the struct still hold integers (TrUndoBase.urep needs it).
   The proofs are those of TrLbufLines.v (linelength, linecount), TrSpliceCut.v (the cut loop) and TrSpliceAll.v (tr_lbuf_replace)
   with `pstr_at` for `str_at`; neither of those files is changed.  pstr_at: the string at the start of a block that may go on. *)
From Coq Require Import List ZArith NArith Bool Lia.
From NV Require Import Bytes GenConsts GenCap CLite CLiteProps GenCFuncs CLiteTac TrLbufBase IoDefs TrLbufLines TrLbufMarks
  TrSplice TrSpliceMove TrSpliceCut TrSpliceMarks TrSpliceAll.
From NV Require CapDefs2.
Import ListNotations.
Local Open Scope Z_scope.

Definition pstr_at (m : mem) (b : nat) (s : bytes) : Prop := exists rest, nth_error m b = Some (cstr_block (zb s) ++ rest).
Lemma str_pstr m b s : str_at m b s -> pstr_at m b s.
Proof. intro H. exists []. rewrite app_nil_r. exact H. Qed.
Lemma cstr_len (s : bytes) : length (cstr_block (zb s)) = S (length s).
Proof. unfold cstr_block, zb. rewrite app_length, !map_length. cbn. lia. Qed.
Lemma load_pstr m b s z (o : nat) : pstr_at m b s -> z = Z.of_nat o -> (o <= length s)%nat ->
  load m b z = Ok (VInt (Z.of_N (nthb s o))).
Proof.
  intros [rest H] -> Ho. pose proof (cstr_len s) as L.
  pose proof (load_str [cstr_block (zb s)] 0 s (Z.of_nat o) o eq_refl eq_refl Ho) as E.
  unfold load in *. rewrite H. cbn [nth_error] in E.
  destruct (Z.of_nat o <? 0); [exact E|]. rewrite nth_error_app1 by lia. exact E.
Qed.
Lemma scan0_app l r : forall n k, scan0 l n = Ok k -> scan0 (l ++ r) n = Ok k.
Proof.
  induction l as [|v l IH]; intros n k H; cbn [scan0 app] in *; [discriminate|].
  destruct v as [|z|? ?]; try discriminate. destruct z; [exact H|apply IH; exact H|apply IH; exact H].
Qed.
Lemma scanc_app l r c : forall n k, scanc l c n = Ok k -> scanc (l ++ r) c n = Ok k.
Proof.
  induction l as [|v l IH]; intros n k H; cbn [scanc app] in *; [discriminate|].
  destruct v as [|z|? ?]; try discriminate. destruct (wrap I8 z =? c); [exact H|]. destruct (z =? 0); [exact H|]. apply IH. exact H.
Qed.
Lemma blk_from_p (m : mem) b s (rest : block) (o : nat) : nth_error m b = Some (cstr_block (zb s) ++ rest) -> (o <= length s)%nat ->
  blk_from m b (Z.of_nat o) = Ok (cstr_block (zb (skipn o s)) ++ rest).
Proof.
  intros H Ho. unfold blk_from. rewrite H. rewrite app_length, cstr_len.
  destruct (Z.ltb_spec (Z.of_nat o) 0); [lia|]. destruct (Z.ltb_spec (Z.of_nat (S (length s) + length rest)) (Z.of_nat o)); [lia|].
  cbn [orb]. rewrite Nat2Z.id, skipn_app, cstr_len. replace (o - S (length s))%nat with 0%nat by lia. cbn [skipn].
  rewrite skipn_cstr_block by exact Ho. reflexivity.
Qed.
Lemma builtin_strlen_p m b s (o : nat) : pstr_at m b s -> nonul s -> (o <= length s)%nat ->
  do_builtin_m BStrlen [VPtr b (Z.of_nat o)] m = Ok (VInt (Z.of_nat (length s - o)), m).
Proof.
  intros [rest H] Hn Ho. cbn [do_builtin_m do_builtin bind]. rewrite (blk_from_p m b s rest o H Ho). cbn [bind].
  rewrite (scan0_app _ rest _ _ (scan0_cstr (skipn o s) O (Forall_skipn' _ _ _ Hn))). cbn [bind]. rewrite skipn_length. reflexivity.
Qed.
Lemma builtin_strchr_p m b s (o : nat) c : pstr_at m b s -> nonul s -> (o <= length s)%nat -> (c < 256)%N -> c <> 0%N ->
  do_builtin_m BStrchr [VPtr b (Z.of_nat o); VInt (Z.of_N c)] m
  = Ok (match find_byte c (skipn o s) with Some k => VPtr b (Z.of_nat o + Z.of_nat k) | None => VInt 0 end, m).
Proof.
  intros [rest H] Hn Ho Hc Hc0. cbn [do_builtin_m do_builtin bind]. rewrite (blk_from_p m b s rest o H Ho). cbn [bind].
  rewrite (scanc_app _ rest _ _ _ (scanc_cstr (skipn o s) c O (Forall_skipn' _ _ _ Hn) Hc Hc0)). cbn [bind].
  destruct (find_byte c (skipn o s)); reflexivity.
Qed.
Lemma firstn_skipn_app_l {A} (a r : list A) o k : (o + k <= length a)%nat -> firstn k (skipn o (a ++ r)) = firstn k (skipn o a).
Proof.
  intro H. rewrite skipn_app, firstn_app, skipn_length. replace (k - (length a - o))%nat with 0%nat by lia. cbn [firstn]. apply app_nil_r.
Qed.
Lemma pstr_lt m b s : pstr_at m b s -> (b < length m)%nat.
Proof. intros [rest H]. apply nth_error_Some. congruence. Qed.
Lemma pstr_same m m' b s : pstr_at m b s -> nth_error m' b = nth_error m b -> pstr_at m' b s.
Proof. intros [rest H] E. exists rest. rewrite E. exact H. Qed.

(* ------------------------------------------------------------------ linelength, linecount *)
Theorem tr_linelength_p m b s o d fuel : pstr_at m b s -> nonul s -> (o <= length s)%nat -> Z.of_nat (length s) <= 2147483647 ->
  callf cprog fuel (S d) F_lbuf_linelength [VPtr b (Z.of_nat o)] m = Ok (VInt (Z.of_nat (linelen (skipn o s))), m).
Proof.
  intros Hs Hn Ho Hmax. enter F_lbuf_linelength cf_lbuf_linelength. xstep.
  change 10 with (Z.of_N NL). rewrite (builtin_strchr_p m b s o NL Hs Hn Ho) by (unfold NL; lia). xstep.
  rewrite linelen_find. destruct (find_byte NL (skipn o s)) as [k|] eqn:E.
  - destruct (find_byte_lt _ _ _ E) as [Hk _]. rewrite skipn_length in Hk. xstep. rewrite Nat.eqb_refl. xstep.
    replace ((Z.of_nat o + Z.of_nat k - Z.of_nat o) ÷ 1 + wrap I64 1) with (Z.of_nat (S k))
      by (rewrite Z.quot_1_r; change (wrap I64 1) with 1; lia).
    rewrite chk_I64_small by lia. xstep. rewrite wrap_U64_id by lia. rewrite wrap_I32_id by lia. reflexivity.
  - xstep. rewrite (builtin_strlen_p m b s o Hs Hn Ho). xstep. rewrite wrap_I32_id by lia. rewrite skipn_length. reflexivity.
Qed.

Lemma lc_loop_ok_p m b s d fuel : pstr_at m b s -> nonul s -> Z.of_nat (length s) <= 2147483647 ->
  forall k o n fuel', linecount (skipn o s) = k -> (o <= length s)%nat -> 0 <= n <= Z.of_nat o -> (k < fuel')%nat ->
  exists o', exec (callf cprog fuel (S d)) fuel' lc_loop (mkst [VPtr b (Z.of_nat o); VInt n] m)
             = ONormal (mkst [VPtr b (Z.of_nat o'); VInt (n + Z.of_nat k)] m).
Proof.
  intros Hs Hn Hmax. pose proof (nonul_lt256 s Hn) as H256.
  induction k as [|k IH]; intros o n fuel' Hk Ho Hnn Hf; (destruct fuel' as [|fuel']; [lia|]);
    unfold lc_loop; cbn [fn_body cf_lbuf_linecount]; rewrite exec_for; xstep;
    rewrite (load_pstr m b s _ o Hs) by lia; xstep; rewrite (cc_nz32 _ (nthb_lt256 s o H256)).
  - (* no line left: the pointer is at the terminator *)
    destruct (Nat.eq_dec o (length s)) as [->|Hne].
    + rewrite nthb_end by lia. cbn [N.eqb negb]. exists (length s). rewrite Z.add_0_r. reflexivity.
    + exfalso. rewrite linecount_step in Hk; [discriminate|]. rewrite (skipn_cons_nthb s o) by lia. discriminate.
  - destruct (Nat.eq_dec o (length s)) as [->|Hne]; [rewrite skipn_all in Hk; discriminate|].
    assert (Hne0 : skipn o s <> []) by (rewrite (skipn_cons_nthb s o) by lia; discriminate).
    assert (Hnz : (nthb s o =? 0)%N = false).
    { apply N.eqb_neq. unfold nonul in Hn. rewrite Forall_forall in Hn. destruct (Hn (nthb s o)) as [Hp _]; [apply nth_In; lia|lia]. }
    rewrite Hnz. cbn [negb].
    rewrite (tr_linelength_p m b s o d fuel Hs Hn Ho Hmax). xstep.
    set (l := linelen (skipn o s)) in *.
    assert (Hl : (1 <= l <= length s - o)%nat).
    { split; [apply linelen_pos; exact Hne0|]. unfold l. rewrite <- (skipn_length o s). apply linelen_le. }
    rewrite chk_I32 by lia. xstep.
    rewrite linecount_step in Hk by exact Hne0. injection Hk as Hk. fold l in Hk. rewrite skipn_skipn in Hk.
    replace (Z.of_nat o + 1 * Z.of_nat l) with (Z.of_nat (o + l)) by lia.
    destruct (IH (o + l)%nat (n + 1) fuel' Hk ltac:(lia) ltac:(lia) ltac:(lia)) as [o' X].
    unfold lc_loop in X; cbn [fn_body cf_lbuf_linecount] in X. rewrite X. exists o'. replace (n + Z.of_nat (S k)) with (n + 1 + Z.of_nat k) by lia. reflexivity.
Qed.

(* for (n = 0; s && *s; n++) s += linelength(s); return n;   -- also for s = NULL *)
Theorem tr_linecount_p m b s o d fuel : pstr_at m b s -> nonul s -> (o <= length s)%nat -> Z.of_nat (length s) <= 2147483647 ->
  (linecount (skipn o s) < fuel)%nat ->
  callf cprog fuel (S (S d)) F_lbuf_linecount [VPtr b (Z.of_nat o)] m = Ok (VInt (Z.of_nat (linecount (skipn o s))), m).
Proof.
  intros Hs Hn Ho Hmax Hf. enter F_lbuf_linecount cf_lbuf_linecount. xstep.
  destruct (lc_loop_ok_p m b s d fuel Hs Hn Hmax _ o 0 fuel eq_refl Ho ltac:(lia) Hf) as [o' X].
  unfold lc_loop in X; cbn [fn_body cf_lbuf_linecount] in X. rewrite X. xstep. reflexivity.
Qed.

(* ------------------------------------------------------------------ the cut loop *)
Lemma cut_loop_ok_p fuel d lb blk bln bs text pos ni vnd v6 v7 v8 :
  nth_error blk L_ln = Some (VPtr bln 0) -> nonul text -> Z.of_nat (length text) + 2 <= 2147483647 ->
  Z.of_nat pos + Z.of_nat ni <= 2147483647 -> bs <> bln -> bs <> lb -> lb <> bln ->
  forall k i o (m : mem) (lnblk : block) fuel' v9 v10 v11, linecount (skipn o text) = k -> (i + k = ni)%nat -> (o <= length text)%nat ->
  nth_error m lb = Some blk -> nth_error m bln = Some lnblk -> pstr_at m bs text -> (pos + ni <= length lnblk)%nat -> (k < fuel')%nat ->
  exists o' v9' v10' v11',
  exec (callf cprog fuel (S d)) fuel' rp_cut_loop
    (mkst [VPtr lb 0; VPtr bs (Z.of_nat o); VInt (Z.of_nat pos); vnd; VInt (Z.of_nat ni); VInt (Z.of_nat i); v6; v7; v8; v9; v10; v11] m)
  = ONormal (mkst [VPtr lb 0; VPtr bs o'; VInt (Z.of_nat pos); vnd; VInt (Z.of_nat ni); VInt (Z.of_nat ni); v6; v7; v8; v9'; v10'; v11']
       (upd (m ++ map line_blk (split_lines (skipn o text))) bln (put_cells lnblk (pos + i) (new_ptrs (length m) k)))).
Proof.
  intros Hln Hnn Hmax Hpn Nsl Nsb Nbl. pose proof (nonul_lt256 text Hnn) as H256.
  induction k as [|k IH]; intros i o m lnblk fuel' v9 v10 v11 Hk Hik Ho Hb Hl Hs Hcap Hf; (destruct fuel' as [|fuel']; [lia|]);
    unfold rp_cut_loop, rp_cut, rp_rest4, rp_rest3, rp_rest2, rp_rest1, rp_body; cbn [fn_body cf_lbuf_replace]; rewrite exec_for; xstep.
  - assert (i = ni) by lia. subst i. destruct (Z.ltb_spec (Z.of_nat ni) (Z.of_nat ni)); [lia|]. xstep.
    assert (E : skipn o text = []).
    { destruct (skipn o text) eqn:E; [reflexivity|]. rewrite linecount_step in Hk by discriminate. discriminate. }
    rewrite E. cbn [split_lines split_aux map new_ptrs seq]. rewrite app_nil_r, put_cells_nil, (upd_self m bln lnblk Hl).
    exists (Z.of_nat o), v9, v10, v11. reflexivity.
  - destruct (Z.ltb_spec (Z.of_nat i) (Z.of_nat ni)); [|lia]. xstep.
    set (t := skipn o text) in *.
    assert (Hne : t <> []) by (intro E; rewrite E in Hk; discriminate).
    assert (Hlt : (o < length text)%nat).
    { destruct (Nat.lt_ge_cases o (length text)); [assumption|]. exfalso. apply Hne. unfold t. apply skipn_all2. lia. }
    rewrite (tr_linelength_p m bs text o d fuel Hs Hnn Ho ltac:(lia)). fold t. xstep.
    set (l := linelen t).
    assert (Hl1 : (1 <= l <= length text - o)%nat).
    { split; [apply linelen_pos; exact Hne|]. unfold l, t. rewrite <- (skipn_length o text). apply linelen_le. }
    rewrite chk_I32 by lia. xstep.
    rewrite (load_pstr m bs text _ (o + (l - 1)) Hs) by lia. xstep.
    rewrite (eq_nl32 _ (nthb_lt256 text _ H256)).
    replace (nthb text (o + (l - 1))) with (nthb t (l - 1)) by (unfold t; apply nthb_skipn).
    destruct (first_line_norm t Hne) as [Hnorm Hle]. fold l in Hnorm, Hle.
    set (k0 := nonl_len t) in *.
    assert (Ek0 : Z.of_nat l - b2z (is_nl (nthb t (l - 1))) = Z.of_nat k0).
    { unfold k0, nonl_len. fold l. destruct (is_nl (nthb t (l - 1))); cbn [b2z]; lia. }
    rewrite Ek0. rewrite chk_I32 by lia. xstep. rewrite chk_I32 by lia. xstep. rewrite wrap_U64_id by lia.
    rewrite malloc_ok by lia. xstep. rewrite wrap_U64_id by lia. cbn [memm locals].
    set (U := repeat VUndef (Z.to_nat (Z.of_nat k0 + 2))).
    match goal with |- context [do_builtin_m BMemcpy _ ?mm] => set (m1 := mm) end.
    assert (A1 : nth_error m1 (length m) = Some U) by apply nth_error_app_new.
    assert (Lbs : (bs < length m)%nat) by (exact (pstr_lt _ _ _ Hs)).
    destruct Hs as [rest Hs0].
    assert (Lbl : (lb < length m)%nat) by (apply nth_error_Some; congruence).
    assert (Lln : (bln < length m)%nat) by (apply nth_error_Some; congruence).
    assert (S1 : nth_error m1 bs = Some (cstr_block (zb text) ++ rest)) by (unfold m1; rewrite nth_error_app_old by lia; exact Hs0).
    rewrite (memcpy_ok m1 (length m) 0 bs (Z.of_nat o) (Z.of_nat k0) U _ A1 S1)
      by (unfold U; rewrite ?repeat_length, ?app_length, ?cstr_len; lia).
    xstep. cbn [memm locals]. rewrite !Nat2Z.id. change (Z.to_nat 0) with 0%nat.
    rewrite firstn_skipn_app_l by (rewrite cstr_len; lia).
    rewrite skipn_cstr_block by lia. fold t. rewrite firstn_cstr by (unfold t; rewrite skipn_length; lia).
    set (X := map VInt (zb (firstn k0 t))).
    assert (LX : length X = k0) by (unfold X, zb, t; rewrite !map_length, firstn_length, skipn_length; lia).
    replace (put_cells U 0 X) with (X ++ [VUndef; VUndef]).
    2:{ rewrite put_cells_0. f_equal. rewrite LX. unfold U. rewrite skipn_repeat. replace (Z.to_nat (Z.of_nat k0 + 2) - k0)%nat with 2%nat by lia. reflexivity. }
    unfold m1. rewrite !upd_app_new. set (m2 := m ++ [X ++ [VUndef; VUndef]]).
    (* n[l_nonl] = '\n'; n[l_nonl + 1] = '\0' *)
    rewrite chk_I32 by lia. xstep. change (wrap I8 (wrap I8 10)) with 10.
    assert (A2 : nth_error m2 (length m) = Some (X ++ [VUndef; VUndef])) by apply nth_error_app_new.
    rewrite (store_ok m2 (length m) _ _ _ A2) by (rewrite app_length, LX; cbn [length]; lia). xstep.
    unfold m2. rewrite !upd_app_new. rewrite chk_I32 by lia. xstep. change (wrap I8 (wrap I8 0)) with 0.
    set (m3 := m ++ [upd (X ++ [VUndef; VUndef]) (Z.to_nat (0 + 1 * (Z.of_nat k0 + 0))) (VInt 10)]).
    assert (A3 : nth_error m3 (length m) = Some (upd (X ++ [VUndef; VUndef]) (Z.to_nat (0 + 1 * (Z.of_nat k0 + 0))) (VInt 10))) by apply nth_error_app_new.
    rewrite (store_ok m3 (length m) _ _ _ A3) by (rewrite upd_length by (rewrite app_length, LX; cbn [length]; lia); rewrite app_length, LX; cbn [length]; lia).
    xstep. unfold m3. rewrite !upd_app_new.
    replace (Z.to_nat (0 + 1 * (Z.of_nat k0 + 0))) with (length X) by lia. replace (Z.to_nat (0 + 1 * (Z.of_nat k0 + 1))) with (length X + 1)%nat by lia.
    rewrite upd_two_tail. unfold X. rewrite cstr_snoc_nl, <- Hnorm. fold (line_blk (norm (firstn l t))).
    set (m4 := m ++ [line_blk (norm (firstn l t))]).
    (* lb->ln[pos + i] = n *)
    assert (B4 : nth_error m4 lb = Some blk) by (unfold m4; rewrite nth_error_app_old by lia; exact Hb).
    assert (L4 : nth_error m4 bln = Some lnblk) by (unfold m4; rewrite nth_error_app_old by lia; exact Hl).
    xfld B4 Hln. rewrite chk_I32 by lia. xstep.
    rewrite (store_ok m4 bln lnblk _ _ L4) by lia. xstep. rewrite chk_I32 by lia. xstep.
    replace (Z.to_nat (0 + 1 * (Z.of_nat pos + Z.of_nat i))) with (pos + i)%nat by lia.
    replace (Z.of_nat i + 1) with (Z.of_nat (S i)) by lia. replace (Z.of_nat o + 1 * Z.of_nat l) with (Z.of_nat (o + l)) by lia.
    destruct (upd_frame m4 bln lnblk (upd lnblk (pos + i) (VPtr (length m) 0)) L4) as (F1 & F2 & F3). set (m5 := upd m4 bln _) in *.
    assert (Hk' : linecount (skipn (o + l) text) = k).
    { rewrite linecount_step in Hk by exact Hne. injection Hk as Hk. fold l in Hk. unfold t in Hk. rewrite skipn_skipn in Hk. replace (l + o)%nat with (o + l)%nat in Hk by lia. exact Hk. }
    destruct (IH (S i) (o + l)%nat m5 (upd lnblk (pos + i) (VPtr (length m) 0)) fuel' (VInt (Z.of_nat l)) (VInt (Z.of_nat k0)) (VPtr (length m) 0) Hk' ltac:(lia) ltac:(lia))
      as (o' & v9' & v10' & v11' & E).
    + rewrite F2 by congruence. exact B4.
    + exact F1.
    + exists rest. rewrite F2 by congruence. unfold m4. rewrite nth_error_app_old by lia. exact Hs0.
    + rewrite upd_length by lia. exact Hcap.
    + lia.
    + unfold rp_cut_loop, rp_cut, rp_rest4, rp_rest3, rp_rest2, rp_rest1, rp_body in E; cbn [fn_body cf_lbuf_replace] in E. rewrite E. clear E.
      exists o', v9', v10', v11'. f_equal. f_equal.
      rewrite (split_lines_step t Hne). fold l. unfold t at 2. rewrite skipn_skipn. replace (l + o)%nat with (o + l)%nat by lia.
      cbn [map]. rewrite F3. unfold m5, m4. rewrite app_length. cbn [length]. replace (length m + 1)%nat with (S (length m)) by lia.
      rewrite upd_app_l by (rewrite upd_length; rewrite app_length; cbn [length]; lia).
      rewrite upd_upd by (rewrite app_length; cbn [length]; lia).
      rewrite <- upd_app_l by (rewrite app_length; cbn [length]; lia). rewrite <- app_assoc. cbn [app]. f_equal.
      replace (pos + S i)%nat with (S (pos + i)) by lia. rewrite put_cells_cons by lia. reflexivity.
Qed.

(* the statement  for (i = 0; i < n_ins; i++) { ... }  from the start of the text *)
Lemma cut_ok_p fuel d lb blk bln bs text o pos ni vnd vi v6 v7 v8 v9 v10 v11 (m : mem) (lnblk : block) :
  nth_error blk L_ln = Some (VPtr bln 0) -> nonul text -> Z.of_nat (length text) + 2 <= 2147483647 ->
  Z.of_nat pos + Z.of_nat ni <= 2147483647 -> bs <> bln -> bs <> lb -> lb <> bln ->
  linecount (skipn o text) = ni -> (o <= length text)%nat ->
  nth_error m lb = Some blk -> nth_error m bln = Some lnblk -> pstr_at m bs text -> (pos + ni <= length lnblk)%nat -> (ni < fuel)%nat ->
  exists o' v9' v10' v11',
  exec (callf cprog fuel (S d)) fuel rp_cut
    (mkst [VPtr lb 0; VPtr bs (Z.of_nat o); VInt (Z.of_nat pos); vnd; VInt (Z.of_nat ni); vi; v6; v7; v8; v9; v10; v11] m)
  = ONormal (mkst [VPtr lb 0; VPtr bs o'; VInt (Z.of_nat pos); vnd; VInt (Z.of_nat ni); VInt (Z.of_nat ni); v6; v7; v8; v9'; v10'; v11']
       (upd (m ++ map line_blk (split_lines (skipn o text))) bln (put_cells lnblk pos (new_ptrs (length m) ni)))).
Proof.
  intros Hln Hnn Hmax Hpn N1 N2 N3 Hk Ho Hb Hl Hs Hcap Hf.
  destruct (cut_loop_ok_p fuel d lb blk bln bs text pos ni vnd v6 v7 v8 Hln Hnn Hmax Hpn N1 N2 N3 ni O o m lnblk fuel v9 v10 v11 Hk eq_refl Ho Hb Hl Hs Hcap Hf)
    as (o' & v9' & v10' & v11' & E).
  exists o', v9', v10', v11'. rewrite Nat.add_0_r in E. rewrite <- E.
  unfold rp_cut_loop, rp_cut, rp_rest4, rp_rest3, rp_rest2, rp_rest1, rp_body; cbn [fn_body cf_lbuf_replace]. rewrite exec_seq. xstep. reflexivity.
Qed.

