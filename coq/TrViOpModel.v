(* TrViOpModel.v -- C08: the byte-level texts of coq/TrViOp.v (what the translated lbuf_region / vi_yank / vi_delete hand to reg_put and
   lbuf_edit) are the bytes of the texts of the C08 model ViDefs.v, which works on the character view of a line (MotDefs.chop):
   region_b = flat (ViDefs.lbuf_region ...), the replacement line of a character-wise delete = flat (sub_l .. ++ sub_l ..), and the
   side condition region_in of the C theorems holds whenever the offsets do not exceed the number of characters of their lines.
   No C text here: pure Gallina. *)
From Coq Require Import List ZArith NArith Bool Lia.
From NV Require Import Bytes UcDefs MotDefs ViDefs TrMot TrViOp.
Import ListNotations.
Local Open Scope Z_scope.

(* ------------------------------------------------------------------ chop cuts a string into non-empty pieces *)
Lemma chop_step t : nonul t -> t <> [] ->
  (1 <= uc_next t <= length t)%nat /\ chop t = firstn (uc_next t) t :: chop (skipn (uc_next t) t).
Proof.
  intros Hn Ht. destruct (nonul_next t Hn Ht) as (E1 & E2 & _). split; [exact E2|].
  rewrite (chop_cons t Ht). unfold hd_chr. rewrite E1. destruct t; [congruence|reflexivity].
Qed.
Lemma nonul_skipn'' (s : bytes) n : nonul s -> nonul (skipn n s).
Proof. unfold nonul. apply Forall_skipn'. Qed.
Lemma flat_chop_k : forall k t, (length t <= k)%nat -> nonul t -> concat (chop t) = t.
Proof.
  induction k as [|k IH]; intros t Hk Hn.
  - destruct t; [reflexivity|cbn in Hk; lia].
  - destruct t as [|x r] eqn:Et; [reflexivity|]. rewrite <- Et in *. assert (Ht : t <> []) by (rewrite Et; discriminate).
    destruct (chop_step t Hn Ht) as ((L1 & L2) & Ec). rewrite Ec. cbn [concat].
    rewrite IH by (try apply nonul_skipn''; try exact Hn; rewrite skipn_length; lia). apply firstn_skipn.
Qed.
Lemma flat_chop t : nonul t -> flat (chop t) = t.
Proof. intro H. apply (flat_chop_k (length t)); [lia|exact H]. Qed.
Lemma chop_nonempty_k : forall k t, (length t <= k)%nat -> nonul t -> Forall (fun c => c <> []) (chop t).
Proof.
  induction k as [|k IH]; intros t Hk Hn.
  - destruct t; [rewrite chop_nil; constructor|cbn in Hk; lia].
  - destruct t as [|x r] eqn:Et; [rewrite chop_nil; constructor|]. rewrite <- Et in *. assert (Ht : t <> []) by (rewrite Et; discriminate).
    destruct (chop_step t Hn Ht) as ((L1 & L2) & Ec). rewrite Ec. constructor.
    + intro E0. apply (f_equal (@length N)) in E0. rewrite firstn_length in E0. cbn in E0. lia.
    + apply IH; [rewrite skipn_length; lia|apply nonul_skipn''; exact Hn].
Qed.
Lemma chop_nonempty t : nonul t -> Forall (fun c => c <> []) (chop t).
Proof. intro H. apply (chop_nonempty_k (length t)); [lia|exact H]. Qed.

(* ------------------------------------------------------------------ positions in a concatenation *)
Section Pos.
  Context {A : Type}.
  Definition pos_of (L : list (list A)) (k : nat) : nat := length (concat (firstn k L)).
  Lemma skipn_pos : forall (L : list (list A)) b, skipn (pos_of L b) (concat L) = concat (skipn b L).
  Proof.
    unfold pos_of. induction L as [|c L IH]; intro b; [destruct b; reflexivity|]. destruct b as [|b]; [reflexivity|].
    cbn [firstn concat skipn]. rewrite app_length, skipn_app. rewrite skipn_all2 by lia.
    replace (length c + length (concat (firstn b L)) - length c)%nat with (length (concat (firstn b L))) by lia. cbn [app]. apply IH.
  Qed.
  Lemma firstn_pos : forall (L : list (list A)) k, firstn (pos_of L k) (concat L) = concat (firstn k L).
  Proof.
    unfold pos_of. induction L as [|c L IH]; intro k; [destruct k; reflexivity|]. destruct k as [|k]; [reflexivity|].
    cbn [firstn concat]. rewrite app_length, firstn_app. rewrite firstn_all2 by lia.
    replace (length c + length (concat (firstn k L)) - length c)%nat with (length (concat (firstn k L))) by lia. rewrite IH. reflexivity.
  Qed.
  Lemma firstn_split (L : list (list A)) b e : (b <= e)%nat -> firstn e L = firstn b L ++ firstn (e - b) (skipn b L).
  Proof.
    revert L e; induction b as [|b IH]; intros L e H; [rewrite Nat.sub_0_r; reflexivity|]. destruct e as [|e]; [lia|].
    destruct L as [|c L]; [rewrite !firstn_nil; reflexivity|]. cbn [firstn skipn app]. rewrite (IH L e) by lia. reflexivity.
  Qed.
  Lemma pos_split (L : list (list A)) b e : (b <= e)%nat -> pos_of L e = (pos_of L b + pos_of (skipn b L) (e - b))%nat.
  Proof. intro H. unfold pos_of. rewrite (firstn_split L b e H), concat_app, app_length. reflexivity. Qed.
  Lemma pos_gt (L : list (list A)) b e : Forall (fun c => c <> []) L -> (e < b <= length L)%nat -> (pos_of L e < pos_of L b)%nat.
  Proof.
    intros F H. rewrite (pos_split L e b) by lia. assert (1 <= pos_of (skipn e L) (b - e))%nat; [|lia].
    destruct (skipn e L) as [|c R] eqn:E. { apply (f_equal (@length _)) in E. rewrite skipn_length in E. cbn in E. lia. }
    assert (Hc : c <> []). { pose proof (Forall_skipn' _ e L F) as F'. rewrite E in F'. inversion F'; assumption. }
    destruct (b - e)%nat as [|j] eqn:Ej; [lia|]. unfold pos_of. cbn [firstn concat]. rewrite app_length. destruct c; [congruence|cbn; lia].
  Qed.
  Lemma slice_pos (L : list (list A)) b e : (b <= e)%nat ->
    firstn (pos_of L e - pos_of L b) (skipn (pos_of L b) (concat L)) = concat (firstn (e - b) (skipn b L)).
  Proof.
    intro H. rewrite (pos_split L b e H), skipn_pos. replace (pos_of L b + pos_of (skipn b L) (e - b) - pos_of L b)%nat with (pos_of (skipn b L) (e - b)) by lia.
    apply firstn_pos.
  Qed.
End Pos.

(* ------------------------------------------------------------------ uc_chr finds the byte position of a character *)
Lemma slen_chop_step t : nonul t -> t <> [] -> slen (chop t) = 1 + slen (chop (skipn (uc_next t) t)).
Proof. intros Hn Ht. destruct (chop_step t Hn Ht) as (_ & Ec). rewrite Ec. unfold slen. cbn [length]. lia. Qed.
Lemma uc_chr_f_neg off : off < 0 -> forall fuel t i base, nonul t -> (length t <= fuel)%nat -> 0 <= i ->
  uc_chr_f fuel t i off base = Some (base + length t)%nat.
Proof.
  intro Hoff. induction fuel as [|f IH]; intros t i base Hn Hk Hi.
  - destruct t; [|cbn in Hk; lia]. cbn [uc_chr_f]. destruct (Z.ltb_spec off 0); [|lia]. cbn [orb length]. f_equal. lia.
  - destruct t as [|x r] eqn:Et.
    + cbn [uc_chr_f]. destruct (Z.ltb_spec off 0); [|lia]. cbn [orb length]. f_equal. lia.
    + rewrite <- Et in *. assert (Ht : t <> []) by (rewrite Et; discriminate). destruct (chop_step t Hn Ht) as ((L1 & L2) & _).
      rewrite Et at 1. cbn [uc_chr_f]. rewrite <- Et. destruct (Z.eqb_spec i off); [lia|].
      rewrite IH by (try apply nonul_skipn''; try exact Hn; try rewrite skipn_length; lia). rewrite skipn_length. f_equal. lia.
Qed.
Lemma uc_chr_f_pos : forall fuel t i off base, nonul t -> (length t <= fuel)%nat -> i <= off <= i + slen (chop t) ->
  uc_chr_f fuel t i off base = Some (base + pos_of (chop t) (Z.to_nat (off - i)))%nat.
Proof.
  induction fuel as [|f IH]; intros t i off base Hn Hk Hr.
  - destruct t; [|cbn in Hk; lia]. rewrite chop_nil in *. unfold slen in Hr. cbn [length] in Hr. cbn [uc_chr_f].
    destruct (Z.eqb_spec i off); [|lia]. rewrite orb_true_r. unfold pos_of. rewrite firstn_nil. cbn. f_equal. lia.
  - destruct t as [|x r] eqn:Et.
    + rewrite chop_nil in *. unfold slen in Hr. cbn [length] in Hr. cbn [uc_chr_f].
      destruct (Z.eqb_spec i off); [|lia]. rewrite orb_true_r. unfold pos_of. rewrite firstn_nil. cbn. f_equal. lia.
    + rewrite <- Et in *. assert (Ht : t <> []) by (rewrite Et; discriminate). destruct (chop_step t Hn Ht) as ((L1 & L2) & Ec).
      rewrite Et at 1. cbn [uc_chr_f]. rewrite <- Et. destruct (Z.eqb_spec i off) as [->|Hne].
      * rewrite Z.sub_diag. unfold pos_of. cbn. f_equal. lia.
      * rewrite (slen_chop_step t Hn Ht) in Hr.
        rewrite IH by (try apply nonul_skipn''; try exact Hn; try rewrite skipn_length; lia).
        rewrite Ec. replace (Z.to_nat (off - i)) with (S (Z.to_nat (off - (i + 1)))) by lia. unfold pos_of. cbn [firstn concat].
        rewrite app_length, firstn_length. f_equal. lia.
Qed.
Definition off_nat (l : line) (o : Z) : nat := if o <? 0 then length l else Z.to_nat o.
Lemma uc_chr_pos s o : nonul s -> o <= slen (chop s) -> uc_chr s o = Some (pos_of (chop s) (off_nat (chop s) o)).
Proof.
  intros Hn Ho. unfold uc_chr, off_nat. destruct (Z.ltb_spec o 0) as [Hneg|Hpos].
  - rewrite (uc_chr_f_neg o Hneg) by (try exact Hn; lia). cbn [Nat.add]. f_equal. unfold pos_of. rewrite firstn_all.
    change (concat (chop s)) with (flat (chop s)). rewrite flat_chop by exact Hn. reflexivity.
  - rewrite uc_chr_f_pos by (try exact Hn; lia). rewrite Z.sub_0_r. reflexivity.
Qed.

(* ------------------------------------------------------------------ uc_sub = sub_l on the characters *)
Definition off_ok (l : line) (o : Z) : Prop := o <= slen l.
Theorem sub_model s b e : nonul s -> off_ok (chop s) b -> off_ok (chop s) e ->
  uc_sub s b e = Some (flat (sub_l (chop s) b e)).
Proof.
  intros Hn Hb He. unfold off_ok in *. unfold uc_sub. rewrite (uc_chr_pos s b Hn Hb), (uc_chr_pos s e Hn He). f_equal.
  set (l := chop s) in *. assert (Es : s = concat l) by (symmetry; apply (flat_chop s Hn)).
  unfold sub_l. fold l. unfold slen in *. set (n := Z.of_nat (length l)) in *.
  set (b' := if b <? 0 then n else Z.min b n). set (e' := if e <? 0 then n else Z.min e n).
  assert (Eb : off_nat l b = Z.to_nat b') by (unfold off_nat, b', n; destruct (b <? 0) eqn:E; [lia|]; apply Z.ltb_ge in E; lia).
  assert (Ee : off_nat l e = Z.to_nat e') by (unfold off_nat, e', n; destruct (e <? 0) eqn:E; [lia|]; apply Z.ltb_ge in E; lia).
  assert (Rb : 0 <= b' <= n) by (unfold b', n; destruct (b <? 0) eqn:E; [lia|]; apply Z.ltb_ge in E; lia).
  assert (Re : 0 <= e' <= n) by (unfold e', n; destruct (e <? 0) eqn:E; [lia|]; apply Z.ltb_ge in E; lia).
  rewrite Eb, Ee. clearbody b' e'. assert (Hnl : n = Z.of_nat (length l)) by reflexivity. clearbody n. destruct (Z.leb_spec b' e') as [Hle|Hgt].
  - assert (X : (Z.to_nat b' <= Z.to_nat e')%nat) by lia. pose proof (pos_split l (Z.to_nat b') (Z.to_nat e') X) as Hp.
    destruct (Nat.leb_spec (pos_of l (Z.to_nat b')) (pos_of l (Z.to_nat e'))); [|lia].
    rewrite Es at 1. rewrite slice_pos by lia. unfold flat. f_equal. f_equal. lia.
  - assert (X : (Z.to_nat e' < Z.to_nat b' <= length l)%nat) by lia.
    pose proof (pos_gt l (Z.to_nat b') (Z.to_nat e') (chop_nonempty s Hn) X) as Hp.
    destruct (Nat.leb_spec (pos_of l (Z.to_nat b')) (pos_of l (Z.to_nat e'))); [lia|]. reflexivity.
Qed.

(* ------------------------------------------------------------------ the buffer: lines of bytes / lines of characters *)
Lemma getl_getb lines r : getl (map chop lines) r = option_map chop (getb lines r).
Proof. rewrite getl_rowidx. unfold getb. destruct (rowidx lines r); reflexivity. Qed.
Lemma sub_b_model lines r s b e : Forall nonul lines -> getb lines r = Some s -> off_ok (chop s) b -> off_ok (chop s) e ->
  sub_b (getb lines r) b e = flat (sub_l (chop s) b e) /\ sub_in (getb lines r) b e.
Proof.
  intros Hn Eg Hb He. rewrite Eg. cbn [sub_b sub_in]. rewrite (sub_model s b e (getb_nonul lines r s Hn Eg) Hb He). split; [reflexivity|discriminate].
Qed.
Lemma concat_chop_lines (L : list bytes) : Forall nonul L -> concat (concat (map chop L)) = concat L.
Proof.
  induction 1 as [|s L Hs HL IH]; [reflexivity|]. cbn [map concat]. rewrite concat_app, IH. f_equal. apply (flat_chop s Hs).
Qed.
Lemma cp_b_model lines b e : Forall nonul lines -> cp_b lines b e = flat (concat (rows_between (map chop lines) b e)).
Proof.
  intro Hn. unfold cp_b, rows_between, flat. rewrite skipn_map, firstn_map. symmetry. apply concat_chop_lines.
  apply Forall_firstn', Forall_skipn'. exact Hn.
Qed.

(* the text of a region whose two rows exist and whose offsets do not exceed the number of characters of their lines *)
Theorem region_model lines r1 o1 r2 o2 s1 s2 : Forall nonul lines -> getb lines r1 = Some s1 -> getb lines r2 = Some s2 ->
  off_ok (chop s1) o1 -> off_ok (chop s2) o2 ->
  region_b lines r1 o1 r2 o2 = flat (ViDefs.lbuf_region (map chop lines) r1 o1 r2 o2) /\ region_in lines r1 o1 r2 o2.
Proof.
  intros Hn E1 E2 H1 H2. unfold region_b, region_in, ViDefs.lbuf_region. rewrite !getl_getb, E1, E2. cbn [option_map].
  destruct (Z.eqb_spec r1 r2) as [->|Hne].
  - rewrite E1 in E2. injection E2 as <-. rewrite <- E1. apply (sub_b_model lines r2 s1 o1 o2 Hn E1 H1 H2).
  - assert (Hm1 : off_ok (chop s1) (-1)) by (unfold off_ok, slen; lia). assert (H0 : off_ok (chop s2) 0) by (unfold off_ok, slen; lia).
    destruct (sub_b_model lines r1 s1 o1 (-1) Hn E1 H1 Hm1) as [A1 B1]. destruct (sub_b_model lines r2 s2 0 o2 Hn E2 H0 H2) as [A2 B2].
    rewrite E1 in A1, B1. rewrite E2 in A2, B2. split; [|split; assumption].
    rewrite A1, A2, (cp_b_model lines (r1 + 1) r2 Hn). unfold flat. rewrite !concat_app. reflexivity.
Qed.
(* what vi_yank / vi_delete hand to reg_put is the model's region text (ViDefs.region_text of the region record g) *)
Theorem op_text_model lines (g : region) ln s1 s2 : Forall nonul lines -> getb lines (g_r1 g) = Some s1 -> getb lines (g_r2 g) = Some s2 ->
  off_ok (chop s1) (g_o1 g) -> off_ok (chop s2) (g_o2 g) -> g_ln g = lnb ln ->
  op_text lines (g_r1 g) (g_o1 g) (g_r2 g) (g_o2 g) ln = flat (region_text (map chop lines) g) /\
  region_in lines (g_r1 g) (op_o1 ln (g_o1 g)) (g_r2 g) (op_o2 ln (g_o2 g)).
Proof.
  intros Hn E1 E2 H1 H2 El. unfold op_text, region_text, op_o1, op_o2. rewrite El. destruct (lnb ln).
  - apply (region_model lines _ 0 _ (-1) s1 s2 Hn E1 E2); unfold off_ok, slen; lia.
  - apply (region_model lines _ _ _ _ s1 s2 Hn E1 E2 H1 H2).
Qed.
(* the line a character-wise delete hands to lbuf_edit is the model's replacement text *)
Theorem del_line_model lines (g : region) s1 s2 : Forall nonul lines -> getb lines (g_r1 g) = Some s1 -> getb lines (g_r2 g) = Some s2 ->
  off_ok (chop s1) (g_o1 g) -> off_ok (chop s2) (g_o2 g) ->
  del_pref lines (g_r1 g) (g_o1 g) ++ del_post lines (g_r2 g) (g_o2 g)
  = flat (sub_l (optl (getl (map chop lines) (g_r1 g))) 0 (g_o1 g) ++ sub_l (optl (getl (map chop lines) (g_r2 g))) (g_o2 g) (-1)) /\
  sub_in (getb lines (g_r1 g)) 0 (g_o1 g) /\ sub_in (getb lines (g_r2 g)) (g_o2 g) (-1).
Proof.
  intros Hn E1 E2 H1 H2. unfold del_pref, del_post. rewrite !getl_getb, E1, E2. cbn [option_map optl].
  assert (Hm1 : off_ok (chop s2) (-1)) by (unfold off_ok, slen; lia). assert (H0 : off_ok (chop s1) 0) by (unfold off_ok, slen; lia).
  destruct (sub_b_model lines _ s1 0 (g_o1 g) Hn E1 H0 H1) as [A1 B1]. destruct (sub_b_model lines _ s2 (g_o2 g) (-1) Hn E2 H2 Hm1) as [A2 B2].
  rewrite E1 in A1, B1. rewrite E2 in A2, B2. split; [|split; assumption]. rewrite A1, A2. unfold flat. rewrite concat_app. reflexivity.
Qed.
