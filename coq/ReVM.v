(* ReVM.v -- model of the matcher of regex.c: uc_dec, uc_beg, isword, brk_match, ratom_match, the
   backtracking machine re_rec (depth fuel counts down from NDEPT, pc fuel |P|+1 per activation,
   the number of depth cuts is returned so that it can be compared with the hook counter
   re_verif_depthcut), re_recmatch and regexec.  The nondeterministic reading of a program
   (choice paths) is defined next to the machine.  No proofs. *)
From Coq Require Import List NArith ZArith Bool Arith.
From NV Require Import Bytes GenConsts ReSyntax ReParse ReEmit.
Import ListNotations.

(* ---- character helpers of regex.c ----------------------------------------------------------- *)
Local Open Scope N_scope.
Definition re_ucdec (s : bytes) (i : nat) : res N :=
  do c <- rdk SUcDec s i;
  if negb (bit c 128 && bit c 64) then Ok c
  else if Nat.ltb (re_uclen_at s i) (re_ucfull c) then Ok (N.lor 2097152 c)      (* truncated sequence: 0x200000 | c *)
  else if negb (bit c 32) then
    do c1 <- rdk SUcDec s (i + 1);
    Ok (N.lor (N.shiftl (N.land c 31) 6) (N.land c1 63))
  else if negb (bit c 16) then
    do c1 <- rdk SUcDec s (i + 1); do c2 <- rdk SUcDec s (i + 2);
    Ok (N.lor (N.lor (N.shiftl (N.land c 15) 12) (N.shiftl (N.land c1 63) 6)) (N.land c2 63))
  else if negb (bit c 8) then
    do c1 <- rdk SUcDec s (i + 1); do c2 <- rdk SUcDec s (i + 2); do c3 <- rdk SUcDec s (i + 3);
    Ok (N.lor (N.lor (N.lor (N.shiftl (N.land c 7) 18) (N.shiftl (N.land c1 63) 12)) (N.shiftl (N.land c2 63) 6)) (N.land c3 63))
  else Ok c.

Definition isupper (c : N) : bool := (65 <=? c) && (c <=? 90).
Definition isalnum (c : N) : bool := ((48 <=? c) && (c <=? 57)) || ((65 <=? c) && (c <=? 90)) || ((97 <=? c) && (c <=? 122)).
Definition isword (c : N) : bool := isalnum c || (c =? 95) || (127 <? c).
(* if (flg & REG_ICASE && c < 128 && isupper(c)) c = tolower(c); *)
Definition fold (icase : bool) (c : N) : N := if icase && isupper c then c + 32 else c.
Definition is_cont (c : N) : bool := N.land c 192 =? 128.

(* uc_beg(o, o + i): index of the first byte of the character that contains byte i *)
Fixpoint uc_beg (line : bytes) (i : nat) : nat :=
  match i with
  | O => O
  | S j => if is_cont (nthb line i) then uc_beg line j else i
  end.

Fixpoint prefixb (a b : bytes) : bool :=
  match a, b with
  | [], _ => true
  | x :: a', y :: b' => (x =? y) && prefixb a' b'
  | _ :: _, [] => false
  end.

(* ---- brk_match: C return value as a bool (true = 1 = the atom does not match) --------------- *)
Section Brk.
  Variable icase : bool.
  Variable c : N.                                   (* already folded *)
  Variable rec_cls : bytes -> res bool.            (* brk_match on a class body *)

  Fixpoint cls_hit (cl : list (bytes * bytes)) (q : bytes) : res bool :=
    match cl with
    | [] => Ok false
    | (cc, cp) :: rest =>
      if prefixb cc q then (do r <- rec_cls cp; if negb r then Ok true else cls_hit rest q)
      else cls_hit rest q
    end.

  Fixpoint brk_loop (k : nat) (p : bytes) (isp0 : bool) (nt : bool) : res bool :=
    match k with
    | O => NoFuel
    | S k' =>
      if (hd0 p =? 0) || (negb isp0 && (hd0 p =? 93)) then Ok (negb nt)
      else if (hd0 p =? 91) && (nthb p 1 =? 58) then
        do hit <- cls_hit brk_classes (tl p);
        if hit then Ok nt
        else do p' <- adv SOther p (brk_len p); brk_loop k' p' false nt
      else
        do b <- re_ucdec p 0;
        do p1 <- adv SUcLen p (re_uclen p);
        do ep <- (if (hd0 p1 =? 45) && negb (nthb p1 1 =? 0) && negb (nthb p1 1 =? 93) then
                    let p2 := tl p1 in
                    do e <- re_ucdec p2 0;
                    do p3 <- adv SUcLen p2 (re_uclen p2);
                    Ok (e, p3)
                  else Ok (b, p1));
        let '(e, p4) := ep in
        if (fold icase b <=? c) && (c <=? fold icase e) then Ok nt
        else brk_loop k' p4 false nt
    end.
End Brk.

Fixpoint brk_match (d : nat) (icase : bool) (brk : bytes) (c : N) : res bool :=
  match d with
  | O => NoFuel
  | S d' =>
    let nt := hd0 brk =? 94 in
    let p := if nt then tl brk else brk in
    let c' := fold icase c in
    brk_loop icase c' (fun cp => brk_match d' icase cp c') (S (length p)) p true nt
  end.

(* ---- ratom_match: None = mismatch, Some pos' = the new position ------------------------------ *)
Section Atom.
  Variable flg : Z.                                 (* re->flg | regexec flags *)
  Variable line : bytes.
  Let icase := has flg REG_ICASE.
  Let newline := has flg REG_NEWLINE.

  (* the REG_ICASE comparison loop of RA_CHR; pos = bytes of the literal compared so far *)
  Fixpoint chr_icase (k : nat) (a : bytes) (p0 pos : nat) : res (option nat) :=
    match k with
    | O => NoFuel
    | S k' =>
      if nthb a pos =? 0 then
        (if Nat.leb (p0 + pos) (length line) then Ok (Some (p0 + pos)%nat) else OOB SUcLen)
      else
        do c1 <- re_ucdec a pos;
        do c2 <- re_ucdec line (p0 + pos);
        if (fold icase c1 =? fold icase c2) && Nat.eqb (re_uclen_at a pos) (re_uclen_at line (p0 + pos))
        then chr_icase k' a p0 (pos + re_uclen_at a pos)
        else Ok None
    end.

  Definition prev_isword (p : nat) : bool := isword (nthb line (uc_beg line (p - 1))).

  Definition ratom_match (a : atom) (p : nat) : res (option nat) :=
    match a with
    | AChr s =>
      if negb icase then
        (if prefixb s (skipn p line) then Ok (Some (p + length s)%nat) else Ok None)
      else chr_icase (S (length s)) s p 0
    | AAny =>
      do c <- rdk SOther line p;
      if (c =? 0) || ((c =? 10) && newline) then Ok None
      else if Nat.leb (p + re_uclen_at line p) (length line) then Ok (Some (p + re_uclen_at line p)%nat) else OOB SUcLen
    | ABrk s =>
      do c <- re_ucdec line p;
      if (c =? 0) || ((c =? 10) && newline) then Ok None   (* fix 86d0c64: no bracket expression matches the newline *)
      else
        do c0 <- rdk SOther line p;
        if negb (Nat.leb (p + re_uclen_at line p) (length line)) then OOB SUcLen
        else
          do r <- brk_match 2 icase (tl s) c;
          if r then Ok None else Ok (Some (p + re_uclen_at line p)%nat)
    | ABeg =>
      if Nat.eqb p 0 then (if has flg REG_NOTBOL then Ok None else Ok (Some p))
      else if nthb line (p - 1) =? 10 then
        (* return !(rs->flg & REG_NEWLINE) || !rs->s[0];  -- not at the end of the subject *)
        (do c <- rdk SOther line p; if newline && negb (c =? 0) then Ok (Some p) else Ok None)
      else Ok None
    | AEnd =>
      do c <- rdk SOther line p;
      if c =? 0 then (if has flg REG_NOTEOL then Ok None else Ok (Some p))
      else if c =? 10 then (if newline then Ok (Some p) else Ok None)
      else Ok None
    | AWBeg =>
      do c <- rdk SOther line p;
      if (Nat.eqb p 0 || negb (prev_isword p)) && isword c then Ok (Some p) else Ok None
    | AWEnd =>
      do c <- rdk SOther line p;
      if negb (Nat.eqb p 0) && prev_isword p && ((c =? 0) || negb (isword c)) then Ok (Some p) else Ok None
    end.
End Atom.

(* ---- the machine, generic in the state ------------------------------------------------------- *)
Inductive out (St : Type) := Found (cs : list bool) (s : St) | Fail | Abort | OobO (w : site).
Arguments Found {St} cs s.
Arguments Fail {St}.
Arguments Abort {St}.
Arguments OobO {St} w.

Section VM.
  Variable St : Type.
  Variable atom_step : atom -> St -> res (option St).
  Variable mark_step : nat -> St -> St.
  Variable P : list instr.
  Definition fetch (pc : nat) : instr := nth pc P IMatch.

  (* nondeterministic semantics: a run is driven by a list of fork choices (false = a1) *)
  Inductive path : nat -> St -> list bool -> St -> Prop :=
  | p_match pc s : fetch pc = IMatch -> path pc s [] s
  | p_atom pc s a s' cs r : fetch pc = IAtom a -> atom_step a s = Ok (Some s') -> path (S pc) s' cs r -> path pc s cs r
  | p_mark pc s m cs r : fetch pc = IMark m -> path (S pc) (mark_step m s) cs r -> path pc s cs r
  | p_jump pc s t cs r : fetch pc = IJump t -> path t s cs r -> path pc s cs r
  | p_left pc s a1 a2 cs r : fetch pc = IFork a1 a2 -> path a1 s cs r -> path pc s (false :: cs) r
  | p_right pc s a1 a2 cs r : fetch pc = IFork a1 a2 -> path a2 s cs r -> path pc s (true :: cs) r.

  (* lexicographic order on choice lists, false < true: the meaning of greedy / left-biased *)
  Inductive lexle : list bool -> list bool -> Prop :=
  | lex_nil l : lexle [] l
  | lex_lt l l' : lexle (false :: l) (true :: l')
  | lex_eq b l l' : lexle l l' -> lexle (b :: l) (b :: l').

  (* one activation of re_rec: the while(1) loop; call = the recursive re_rec for fork's a1.
     The N is the number of depth cuts (re_verif_depthcut) on the way. *)
  Fixpoint loopF (call : nat -> St -> out St * N) (k : nat) (pc : nat) (s : St) {struct k} : out St * N :=
    match k with
    | O => (Abort, 1)
    | S k' =>
      match fetch pc with
      | IMatch => (Found [] s, 0)
      | IAtom a =>
        match atom_step a s with
        | Ok (Some s') => loopF call k' (S pc) s'
        | Ok None => (Fail, 0)
        | OOB w => (OobO w, 0)
        | NoFuel => (Abort, 1)
        end
      | IMark m => loopF call k' (S pc) (mark_step m s)
      | IJump t => loopF call k' t s
      | IFork a1 a2 =>
        match call a1 s with
        | (Found cs r, c) => (Found (false :: cs) r, c)
        | (Fail, c) =>
          match loopF call k' a2 s with
          | (Found cs r, c') => (Found (true :: cs) r, c + c')
          | (o, c') => (o, c + c')
          end
        | (o, c) => (o, c)
        end
      end
    end.

  Fixpoint rec (d : nat) (pc : nat) (s : St) {struct d} : out St * N :=
    match d with
    | O => (Fail, 1)                      (* if (rs->dep >= NDEPT) return 1;  -- a cut *)
    | S d' => loopF (rec d') (S (length P)) pc s
    end.
End VM.

(* ---- the concrete state: position and marks --------------------------------------------------- *)
Definition st := (nat * list Z)%type.
Fixpoint upd (l : list Z) (i : nat) (v : Z) : list Z :=
  match l, i with
  | [], _ => []
  | _ :: r, O => v :: r
  | x :: r, S j => x :: upd r j v
  end.
(* if (ri->mark < NGRPS) rs->mark[ri->mark] = rs->s - rs->o; *)
Definition mark_step (m : nat) (s : st) : st :=
  if (Z.of_nat m <? NGRPS)%Z then (fst s, upd (snd s) m (Z.of_nat (fst s))) else s.
Definition atom_step (flg : Z) (line : bytes) (a : atom) (s : st) : res (option st) :=
  do r <- ratom_match flg line a (fst s);
  match r with Some p => Ok (Some (p, snd s)) | None => Ok None end.

Definition nmarks : nat := Z.to_nat (NGRPS * 2).
Definition depth : nat := Z.to_nat NDEPT.

(* re_recmatch at one start: Some (list of (so, eo)) on a match *)
Definition psub_of (marks : list Z) (nsub : nat) : list (Z * Z) :=
  map (fun i => if Nat.ltb (i * 2) nmarks then (nth (i * 2) marks (-1)%Z, nth (i * 2 + 1) marks (-1)%Z) else ((-1)%Z, (-1)%Z))
      (seq 0 nsub).

Definition re_recmatch (d : nat) (P : list instr) (flg : Z) (line : bytes) (o : nat) : out st * N :=
  rec st (atom_step flg line) mark_step P d 0 (o, repeat (-1)%Z nmarks).

(* regexec: while (o[0]) { rs.s = o = s; s += uc_len(s); if (!re_recmatch(...)) return 0; } return 1; *)
Fixpoint re_loop (d : nat) (P : list instr) (flg : Z) (line : bytes) (k : nat) (o s : nat) : res (option st) * N :=
  match k with
  | O => (NoFuel, 0%N)
  | S k' =>
    match rdk SUcLen line o with
    | Ok co =>
      if co =? 0 then (Ok None, 0%N)
      else
        match rdk SUcLen line s with
        | Ok cs =>
          match re_recmatch d P flg line s with
          | (Found _ r, c) => (Ok (Some r), c)
          | (Fail, c) => let '(x, c') := re_loop d P flg line k' s (s + re_uclen_at line s) in (x, c + c')
          | (Abort, c) => (NoFuel, c)
          | (OobO w, c) => (OOB w, c)
          end
        | OOB w => (OOB w, 0%N)
        | NoFuel => (NoFuel, 0%N)
        end
    | OOB w => (OOB w, 0%N)
    | NoFuel => (NoFuel, 0%N)
    end
  end.

(* result: None = no match, Some psub; plus the number of depth cuts *)
Definition regexec_d (d : nat) (p : prog) (cflg : Z) (line : bytes) (nsub : nat) (eflg : Z) : res (option (list (Z * Z))) * N :=
  let flg := Z.lor cflg eflg in
  match re_loop d (code p) flg line (length line + 2) 0 0 with
  | (Ok (Some r), c) => (Ok (Some (psub_of (snd r) nsub)), c)
  | (Ok None, c) => (Ok None, c)
  | (OOB w, c) => (OOB w, c)
  | (NoFuel, c) => (NoFuel, c)
  end.
Definition regexec := regexec_d depth.
