(* ExStrProps.v -- C06: an `rs` executed from a command string takes exactly the lines up to the lone "." and execution
   continues with the line after it (proofs for ExStrDefs.v). *)
From Coq Require Import List NArith ZArith Bool Lia.
From NV Require Import Bytes ExDefs ExSpec ExStrDefs.
Import ListNotations.

(* ---- the byte scan, one step ---- *)
Local Ltac notN e :=
  destruct e as [|e]; [reflexivity|];
  do 7 (try (destruct e as [e|e|]); try reflexivity); try congruence.

Lemma inline_block_eq src acc : inline_block src acc =
  match src with
  | [] => (rev acc, [])
  | c :: src' =>
    if ((c =? 10) && (hd0 src' =? 46) && (hd0 (tl src') =? 10))%N then (rev acc, tl (tl src'))
    else inline_block src' (c :: acc)
  end.
Proof.
  destruct src as [|c src']; [reflexivity|].
  destruct (N.eqb_spec c 10) as [->|Hc].
  - destruct src' as [|d src'']; [reflexivity|].
    destruct (N.eqb_spec d 46) as [->|Hd].
    + destruct src'' as [|e r]; [reflexivity|].
      destruct (N.eqb_spec e 10) as [->|He]; [reflexivity|].
      cbn [hd0 tl andb]. notN e.
    + cbn [hd0 tl andb]. notN d.
  - cbn [andb]. notN c.
Qed.

(* a stretch without newline is copied *)
Lemma inline_block_nonl : forall p rest acc, nonl p = true ->
  inline_block (p ++ rest) acc = inline_block rest (rev p ++ acc).
Proof.
  induction p as [|c p IH]; intros rest acc H; [reflexivity|].
  unfold nonl in H. cbn [mem existsb] in H. apply negb_true_iff in H. apply orb_false_iff in H. destruct H as [Hc Hp].
  unfold nl in Hc. cbn [app]. rewrite inline_block_eq. rewrite Hc. cbn [andb].
  rewrite IH by (unfold nonl, mem; rewrite Hp; reflexivity).
  cbn [rev]. rewrite <- app_assoc. reflexivity.
Qed.

Lemma join_cons x l : join_lines (x :: l) = x ++ nl :: join_lines l.
Proof. unfold join_lines. cbn [map concat]. rewrite <- app_assoc. reflexivity. Qed.

Lemma is_dot_spec x : is_dot x = true -> x = [46%N].
Proof.
  destruct x as [|c [|d x]]; cbn; try discriminate.
  - rewrite andb_true_r. intro H. apply N.eqb_eq in H. subst. reflexivity.
  - rewrite andb_false_r. discriminate.
Qed.

(* from the newline that ends a line on: the scan stops at the first lone "." line *)
Lemma inline_block_lines : forall ls acc, forallb nonl ls = true ->
  inline_block (nl :: join_lines ls) acc =
  match cut_dot ls with
  | Some (pre, post) => (rev acc ++ concat (map (cons nl) pre), join_lines post)
  | None => (rev acc ++ nl :: join_lines ls, [])
  end.
Proof.
  induction ls as [|x ls IH]; intros acc H.
  - cbn. reflexivity.
  - cbn [forallb] in H. apply andb_true_iff in H. destruct H as [Hx Hls].
    cbn [cut_dot]. destruct (is_dot x) eqn:D.
    + apply is_dot_spec in D. subst x. rewrite app_nil_r. reflexivity.
    + rewrite join_cons. rewrite inline_block_eq.
      assert (C : ((nl =? 10) && (hd0 (x ++ nl :: join_lines ls) =? 46) && (hd0 (tl (x ++ nl :: join_lines ls)) =? 10))%N = false).
      { destruct x as [|c x]; [reflexivity|]. cbn [app hd0 tl].
        destruct (N.eqb_spec c 46) as [->|Hc]; [|rewrite andb_false_r; reflexivity].
        destruct x as [|d x]; [discriminate D|]. cbn [app hd0].
        unfold nonl in Hx. cbn [mem existsb] in Hx. apply negb_true_iff in Hx.
        apply orb_false_iff in Hx. destruct Hx as [_ Hx]. apply orb_false_iff in Hx. destruct Hx as [Hd _].
        unfold nl in Hd. rewrite Hd. rewrite andb_false_r. reflexivity. }
      rewrite C. rewrite inline_block_nonl by exact Hx. rewrite IH by exact Hls.
      destruct (cut_dot ls) as [[pre post]|].
      * cbn [map concat rev]. rewrite rev_app_distr, rev_involutive. cbn [rev app]. rewrite <- !app_assoc. reflexivity.
      * rewrite rev_app_distr, rev_involutive. cbn [rev app]. rewrite <- !app_assoc. reflexivity.
Qed.

Lemma block_text t0 pre : (t0 ++ concat (map (cons nl) pre)) ++ [nl] = join_lines (t0 :: pre).
Proof.
  revert t0. induction pre as [|x pre IH]; intro t0.
  - cbn. rewrite app_nil_r. unfold join_lines. cbn. rewrite app_nil_r. reflexivity.
  - rewrite join_cons. cbn [map concat]. rewrite <- app_assoc. f_equal. cbn [app]. f_equal.
    rewrite <- IH. rewrite <- app_assoc. reflexivity.
Qed.

Lemma join_app a b : join_lines (a ++ b) = join_lines a ++ join_lines b.
Proof. unfold join_lines. rewrite map_app, concat_app. reflexivity. Qed.

(* THE SCAN ON LINES: the text is the block of str_block, the rest of the string is the lines after the lone "." *)
Lemma inline_block_str t0 tl : nonl t0 = true -> forallb nonl tl = true ->
  let '(t, rest) := inline_block (join_lines (t0 :: tl)) [] in
  t ++ [nl] = join_lines (fst (str_block t0 tl)) /\ rest = join_lines (snd (str_block t0 tl)).
Proof.
  intros H0 Htl. rewrite join_cons. rewrite inline_block_nonl by exact H0.
  rewrite inline_block_lines by exact Htl. unfold str_block.
  destruct (cut_dot tl) as [[pre post]|]; cbn [fst snd]; rewrite app_nil_r, rev_involutive.
  - split; [apply block_text | reflexivity].
  - split; [|reflexivity]. rewrite <- join_cons. change (t0 :: tl ++ [[]]) with ((t0 :: tl) ++ [[]]).
    rewrite join_app. reflexivity.
Qed.

(* ---- the command line `rs c` is cut into (no address, "rs", the register name) ---- *)
Local Ltac notN' e :=
  destruct e as [|e]; [reflexivity|];
  do 8 (try (destruct e as [e|e|]); try reflexivity); try congruence.

Definition rs_tail (c : option N) (rest : bytes) : bytes :=
  match c with Some c => (32 :: c :: 10 :: rest)%N | None => (10 :: rest)%N end.
Definition rs_arg (c : option N) : bytes := match c with Some c => [c] | None => [] end.

Lemma rs_loc c rest : ex_loc (rs_line c ++ rest) = (rs_line c ++ rest, []).
Proof. destruct c; reflexivity. Qed.
Lemma rs_cmd c rest : ex_cmd (rs_line c ++ rest) = (rs_tail c rest, [114; 115]%N).
Proof. destruct c; reflexivity. Qed.
Lemma rs_idx : ex_idx [114; 115]%N = Some [114; 115]%N.
Proof. reflexivity. Qed.
Lemma rs_argp c rest : regch c = true -> ex_arg (rs_tail c rest) [114; 115]%N = (rest, rs_arg c).
Proof.
  destruct c as [c|]; [|reflexivity]. intro H.
  unfold regch, mem, str in H. cbn [existsb] in H. apply negb_true_iff in H.
  repeat (apply orb_false_iff in H; destruct H as [?H H]).
  unfold ex_arg, rs_tail.
  assert (S1 : skip_set (str [32; 9]%N) (32 :: c :: 10 :: rest)%N = (c :: 10 :: rest)%N).
  { unfold str. cbn [skip_set mem existsb]. rewrite H0, H1. reflexivity. }
  rewrite S1. cbn [hd0 tl].
  replace ((114 =? 33)%N || (114 =? 103)%N || (114 =? 118)%N || ((114 =? 114)%N || (114 =? 119)%N) && (115 =? 0)%N && (c =? 33)%N) with false by reflexivity.
  replace ((114 =? 115)%N && negb (115 =? 101)%N || (114 =? 38)%N || (114 =? 126)%N) with false by reflexivity.
  assert (S2 : copy_until (str [10; 124; 34]%N) (c :: 10 :: rest)%N [] = ((10 :: rest)%N, [c])).
  { unfold str. cbn [copy_until mem existsb]. rewrite H2, H3, H4. cbn [orb]. rewrite (N.eqb_sym c 92), H5. reflexivity. }
  rewrite S2. reflexivity.
Qed.

Lemma reg_rs_arg c : regch c = true -> REG (rs_arg c) = rs_reg c.
Proof.
  destruct c as [c|]; [|reflexivity]. intro H. unfold regch, mem, str in H. cbn [existsb] in H. apply negb_true_iff in H.
  repeat (apply orb_false_iff in H; destruct H as [?H H]).
  unfold rs_arg, rs_reg, REG. apply N.eqb_neq in H5. notN' c.
Qed.

Lemma join_nonempty t0 ls : join_lines (t0 :: ls) <> [].
Proof. rewrite join_cons. destruct t0; discriminate. Qed.

Section Str.
Variable rvalid : bytes -> bool.
Variable rfind : bytes -> bytes -> bool -> option (nat * nat).
Variable filter : bytes -> bytes -> option bytes.
Variable readfile : bytes -> option bytes.
Variable curpath : bytes.
Notation exec := (ex_exec rvalid rfind filter readfile curpath).
Notation rexec := (ref_exec rvalid rfind filter readfile curpath).

Lemma txt_rs src s : src <> [] ->
  ex_txt src [114; 115]%N s = (snd (inline_block src []), Some (fst (inline_block src []) ++ [nl]), s).
Proof.
  destruct src as [|c src]; [intro H; contradiction H; reflexivity|]. intros _.
  unfold ex_txt. cbn [hd0 tl]. change ((114 =? 114)%N && (115 =? 115)%N) with true. cbv iota.
  destruct (inline_block (c :: src) []). reflexivity.
Qed.

Lemma simple_rs loc cmd arg txt s :
  ex_simple rvalid rfind filter readfile curpath [114; 115]%N loc cmd arg txt s = ec_rs arg txt s.
Proof. reflexivity. Qed.

Lemma exec_S f ret ln s : ln <> [] -> exec (S f) ret ln s =
      let '(ln1, loc) := ex_loc ln in
      let '(ln2, cmd) := ex_cmd ln1 in
      let idx := ex_idx cmd in
      let abbr := match idx with Some a => a | None => str [117;110;107;110;111;119;110]%N end in
      let '(ln3, arg) := ex_arg ln2 abbr in
      let '(ln4, txt, s1) := ex_txt ln3 abbr s in
      let '(s2, ret2) :=
        match idx with
        | None => (if is_other cmd then flag s1 F_UNSUP else emit s1 (OMsg M_UNKNOWN), ret)
        | Some a =>
          if (hd0 a =? 103)%N || (hd0 a =? 118)%N then ec_glob rvalid rfind (exec f 0) f loc cmd arg s1
          else if (hd0 a =? 64)%N then ec_at rvalid rfind (exec f 0) loc arg s1
          else ex_simple rvalid rfind filter readfile curpath a loc cmd arg txt s1
        end in
      exec f ret2 ln4 s2.
Proof. destruct ln; [intro H; contradiction H; reflexivity | reflexivity]. Qed.

Lemma exec_rs_string c t0 ls f ret s : regch c = true -> nonl t0 = true -> forallb nonl ls = true ->
  exec (S f) ret (rs_string c t0 ls) s =
  exec f 0 (join_lines (snd (str_block t0 ls)))
       (set_regs s (reg_put (regs s) (rs_reg c) (join_lines (fst (str_block t0 ls))))).
Proof.
  intros Hc H0 Hls. unfold rs_string.
  rewrite exec_S by (destruct c; discriminate).
  rewrite rs_loc, rs_cmd. cbv zeta. rewrite rs_idx. rewrite (rs_argp c _ Hc).
  rewrite txt_rs by apply join_nonempty.
  pose proof (inline_block_str t0 ls H0 Hls) as B. destruct (inline_block (join_lines (t0 :: ls)) []) as [t rest].
  destruct B as [B1 B2]. cbn [fst snd]. rewrite B1, B2.
  cbn [hd0]. change ((114 =? 103)%N || (114 =? 118)%N) with false. change (114 =? 64)%N with false. cbv iota.
  rewrite simple_rs. unfold ec_rs. rewrite (reg_rs_arg c Hc). reflexivity.
Qed.

(* the same step with the states after every command listed: the rs is ONE command (only the register changes), then
   come the commands after the "." line and nothing else *)
Lemma exec_tr_rs_string c t0 ls f ret s : regch c = true -> nonl t0 = true -> forallb nonl ls = true ->
  let s' := set_regs s (reg_put (regs s) (rs_reg c) (join_lines (fst (str_block t0 ls)))) in
  ex_exec_tr rvalid rfind filter readfile curpath (S f) ret (rs_string c t0 ls) s =
  s' :: ex_exec_tr rvalid rfind filter readfile curpath f 0 (join_lines (snd (str_block t0 ls))) s'.
Proof.
  intros Hc H0 Hls. unfold rs_string.
  assert (E : rs_line c ++ join_lines (t0 :: ls) <> []) by (destruct c; discriminate).
  destruct (rs_line c ++ join_lines (t0 :: ls)) as [|x y] eqn:Q; [contradiction E; reflexivity|]. clear E.
  cbn [ex_exec_tr]. rewrite <- Q. clear Q x y.
  rewrite rs_loc, rs_cmd. cbv zeta. rewrite rs_idx. rewrite (rs_argp c _ Hc).
  rewrite txt_rs by apply join_nonempty.
  pose proof (inline_block_str t0 ls H0 Hls) as B. destruct (inline_block (join_lines (t0 :: ls)) []) as [t rest].
  destruct B as [B1 B2]. cbn [fst snd]. rewrite B1, B2.
  cbn [hd0]. change ((114 =? 103)%N || (114 =? 118)%N) with false. change (114 =? 64)%N with false. cbv iota.
  rewrite simple_rs. unfold ec_rs. rewrite (reg_rs_arg c Hc). reflexivity.
Qed.

(* the reference editor of ExSpec.v does the same on its own state *)
Lemma ref_txt_rs src r : src <> [] ->
  ref_txt src [114; 115]%N r = (snd (inline_block src []), Some (fst (inline_block src []) ++ [nl]), r).
Proof.
  destruct src as [|c src]; [intro H; contradiction H; reflexivity|]. intros _.
  unfold ref_txt. cbn [hd0 tl]. change ((114 =? 114)%N && (115 =? 115)%N) with true. cbv iota.
  destruct (inline_block (c :: src) []). reflexivity.
Qed.

Lemma rexec_rs_string c t0 ls f ret r : regch c = true -> nonl t0 = true -> forallb nonl ls = true ->
  rexec (S f) ret (rs_string c t0 ls) r =
  rexec f 0 (join_lines (snd (str_block t0 ls)))
        (r_regs_set r (reg_put (r_regs r) (rs_reg c) (join_lines (fst (str_block t0 ls))))).
Proof.
  intros Hc H0 Hls. unfold rs_string.
  assert (E : rs_line c ++ join_lines (t0 :: ls) <> []) by (destruct c; discriminate).
  destruct (rs_line c ++ join_lines (t0 :: ls)) as [|x y] eqn:Q; [contradiction E; reflexivity|]. clear E.
  cbn [ref_exec]. rewrite <- Q. clear Q x y.
  rewrite rs_loc, rs_cmd. cbv zeta. rewrite rs_idx. rewrite (rs_argp c _ Hc).
  rewrite ref_txt_rs by apply join_nonempty.
  pose proof (inline_block_str t0 ls H0 Hls) as B. destruct (inline_block (join_lines (t0 :: ls)) []) as [t rest].
  destruct B as [B1 B2]. cbn [fst snd]. rewrite B1, B2.
  cbn [hd0]. change ((114 =? 103)%N || (114 =? 118)%N) with false. change (114 =? 64)%N with false. cbv iota.
  change (ref_simple rvalid rfind filter readfile curpath [114; 115]%N [] [114; 115]%N (rs_arg c)
            (Some (join_lines (fst (str_block t0 ls)))) r)
    with (Some (r_regs_set r (reg_put (r_regs r) (REG (rs_arg c)) (join_lines (fst (str_block t0 ls)))), 0%Z)).
  rewrite (reg_rs_arg c Hc). reflexivity.
Qed.

(* RUNNING THE REGISTER: @ puts the current line on the first addressed line, the rs of the string changes the register only,
   and what is executed then is exactly the lines after the lone "." *)
Lemma at_rs_string loc arg s c t0 ls f b e s1 :
  regch c = true -> nonl t0 = true -> forallb nonl ls = true ->
  reg_special (REG arg) = false -> reg_get s (REG arg) = Some (rs_string c t0 ls) ->
  ex_region rvalid rfind loc s = (false, b, e, s1) -> ex_zero loc b e = false ->
  ec_at rvalid rfind (exec (S f) 0) loc arg s =
  let '(s3, r) := exec f 0 (join_lines (snd (str_block t0 ls)))
                    (set_regs (set_xrow s1 b) (reg_put (regs s1) (rs_reg c) (join_lines (fst (str_block t0 ls))))) in
  (bump s3, r).
Proof.
  intros Hc H0 Hls Hsp Hg Hr Hz. unfold ec_at. rewrite Hsp, Hg, Hr. cbn [orb]. rewrite Hz.
  rewrite exec_rs_string by assumption. reflexivity.
Qed.

Lemma ref_at_rs_string loc arg r c t0 ls f b e r1 :
  regch c = true -> nonl t0 = true -> forallb nonl ls = true ->
  reg_special (REG arg) = false -> ref_reg_get r (REG arg) = Some (rs_string c t0 ls) ->
  ref_region rvalid rfind loc r = (false, b, e, r1) -> ex_zero loc b e = false ->
  ref_at_cmd rvalid rfind (rexec (S f) 0) loc arg r =
  rexec f 0 (join_lines (snd (str_block t0 ls)))
        (r_regs_set (r_cur_set r1 b) (reg_put (r_regs r1) (rs_reg c) (join_lines (fst (str_block t0 ls))))).
Proof.
  intros Hc H0 Hls Hsp Hg Hr Hz. unfold ref_at_cmd. rewrite Hsp, Hg, Hr. cbn [orb]. rewrite Hz.
  rewrite rexec_rs_string by assumption. reflexivity.
Qed.

(* nothing after the "." line (the block ends the string): the run of the register sets the register and does NOTHING else --
   the current line is the first addressed line, nothing is printed, the buffer, the marks, the pending input are untouched *)
Lemma at_rs_string_only loc arg s c t0 ls f b e s1 :
  regch c = true -> nonl t0 = true -> forallb nonl ls = true ->
  reg_special (REG arg) = false -> reg_get s (REG arg) = Some (rs_string c t0 ls) ->
  ex_region rvalid rfind loc s = (false, b, e, s1) -> ex_zero loc b e = false ->
  snd (str_block t0 ls) = [] ->
  let s' := fst (ec_at rvalid rfind (exec (S (S f)) 0) loc arg s) in
  snd (ec_at rvalid rfind (exec (S (S f)) 0) loc arg s) = 0%Z /\
  xrow s' = b /\ out s' = out s1 /\ lns (lb s') = lns (lb s1) /\ marks (lb s') = marks (lb s1) /\ inp s' = inp s1 /\
  regs s' = reg_put (regs s1) (rs_reg c) (join_lines (fst (str_block t0 ls))).
Proof.
  intros Hc H0 Hls Hsp Hg Hr Hz Hn. cbv zeta.
  rewrite (at_rs_string loc arg s c t0 ls (S f) b e s1) by assumption. rewrite Hn.
  cbn. repeat split.
Qed.

End Str.
