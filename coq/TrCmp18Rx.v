(* TrCmp18Rx.v -- copy of TrRsetFindRx.v (C10) with globals_at weakened to the blocks the regex engine reads; made for the C18 composition because C18's memories have dir_rslr/dir_rsrl/dir_rsctx/xtd set *)
(* TrRsetFindRx.v -- rset_find of /repo/rset.c on the C text, UNCONDITIONALLY: TrRsetFind.tr_rset_find_rel (rset_find relative to the
   answer of its call of regexec) composed with the theorem about the translated regexec (TrRegexRec: regexec = the model's regexec_d 256).
   Result (tr_rset_find_model): for every struct rset in memory whose regex_t points to a compiled program laid out as TrRegexRec.prog_at
   says, whose tables satisfy rset_tabs_ok, every line at the start of a C string block, every n / flag word: the call of the translated
   rset_find returns the index RsetDefs.rset_find_d 256 returns, grps[] holds the model's groups, the block of subs[] is freed, the
   blocks that existed at the call (other than grps[]) are unchanged; regexec's local state and saved states stay behind as garbage.
   (Kept apart from TrRsetFind.v so that a change of regex.c does not disturb the relative theorem.)
   regexec is called with &rs->regex, a pointer to cell 0 of the 5-cell struct rset: TrRegexRec.tr_regexec is stated for a regex_t in a
   block of its own, so its proof is repeated here for a regex_t that is the first cell of a larger block (tr_regexec_in). *)
From Coq Require Import List ZArith NArith Bool Lia.
From NV Require Import Bytes GenConsts ReSyntax ReParse ReEmit ReVM RsetDefs CLite CLiteProps GenCFuncs CLiteTac
                       TrRegex TrRegexAtom TrCmp18Brk TrCmp18Rec TrRsetFind.
From NV Require ReProps5.
Import ListNotations.
Local Open Scope Z_scope.

(* ------------------------------------------------------------------ regexec with the regex_t inside a larger block *)
Theorem tr_regexec_in bre bp bl bps bpreg (prest : block) P cflg eflg line fuel (m : mem) nsub pcells e x c :
  let flg := Z.lor cflg eflg in
  let ns := Z.to_nat (if negb (Z.land eflg 2 =? 0) then 0 else nsub) in
  nth_error m bpreg = Some (VPtr bre 0 :: prest) ->
  prog_at m (length m) fuel bre bp P cflg -> str_at m bl line -> globals_at m -> nth_error m bps = Some pcells ->
  bytes_lt256 line -> -2147483648 <= flg <= 2147483647 -> -2147483648 <= cflg <= 2147483647 -> -2147483648 <= eflg <= 2147483647 ->
  (length line + 2 <= fuel)%nat -> (cls_fuel <= fuel)%nat -> Z.of_nat (length line) < 2147483647 -> Z.of_nat (length P) < 2147483647 ->
  prog_closed P -> (length P < fuel)%nat -> (0 < length P)%nat -> (128 < fuel)%nat ->
  0 <= nsub -> nsub * 2 <= 2147483647 -> (2 * Z.to_nat nsub <= length pcells)%nat -> (Z.to_nat nsub < fuel)%nat ->
  re_loop 256 P flg line (length line + 2) 0 0 = (ReSyntax.Ok x, c) ->
  exists m' blk extra,
    callf cprog fuel (S (S (S (S (S (S (S (S (S (256 + e)))))))))) F_regexec [VPtr bpreg 0; VPtr bl 0; VInt nsub; VPtr bps 0; VInt eflg] m
    = Ok (VInt (match x with Some _ => 0 | None => 1 end), m') /\
    m' = match x with
         | Some r => upd m bps (tab_block (psub_of (snd r) ns) ++ skipn (2 * ns) pcells) ++ blk :: extra
         | None => m ++ blk :: extra
         end.
Proof.
  intros flg ns Hpreg Hprog Hl Hg Hps H5 H6 Hcf Hef H7 H8 H9 H10 H11 H12 HP0 H128 Hn0 Hn2 Hpc Hnf Hloop.
  set (br := length m).
  assert (Lre : (bre < br)%nat) by (destruct Hprog as [cells [A _]]; apply nth_error_Some; congruence).
  assert (Lbp : (bp < br)%nat) by (destruct Hprog as [cells [_ [A _]]]; apply nth_error_Some; congruence).
  assert (Lbl : (bl < br)%nat) by (apply nth_error_Some; unfold str_at in Hl; congruence).
  assert (Lbps : (bps < br)%nat) by (apply nth_error_Some; congruence).
  pose proof (globals_len m Hg) as Lg.
  enter F_regexec cf_regexec. xstep.
  rewrite (load_cell m bpreg _ 0 _ Hpreg eq_refl ltac:(lia)). xstep.
  rewrite (malloc_ok m 133) by lia. xstep.
  change (chk U64 (544 * 133)) with (@Ok Z 72352). xstep.
  change (if 544 =? 0 then Err EDivZero else chk U64 (72352 ÷ 544)) with (@Ok Z 133). xstep.
  rewrite (memset_ok (m ++ [repeat VUndef (Z.to_nat 133)]) (length m) 0 0 133 (repeat VUndef (Z.to_nat 133)) (nth_error_app_new m _))
    by (rewrite ?repeat_length; lia).
  xstep. rewrite upd_app_new.
  change (put_cells (repeat VUndef (Z.to_nat 133)) (Z.to_nat 0) (repeat (VInt (wrap U8 0)) (Z.to_nat 133))) with (repeat (VInt 0) 133).
  destruct Hprog as [cells [Hre [Hbp Hinstr]]].
  assert (Hre' : nth_error (m ++ [(repeat (VInt 0) 133 : block)]) bre = Some [VPtr bp 0; VInt (Z.of_nat (length P)); VInt cflg])
    by (rewrite nth_error_app1 by exact Lre; exact Hre).
  rewrite (load_cell _ bre _ (0 + 1 * 2) _ Hre' eq_refl ltac:(lia)). xstep.
  rewrite (wrap_I32_id cflg Hcf). fold flg. rewrite (wrap_I32_id flg H6).
  rewrite (store_ok _ (length m) (repeat (VInt 0) 133) (0 + 1 * 131) _ (nth_error_app_new m _)) by (rewrite repeat_length; lia).
  xstep. rewrite upd_app_new.
  rewrite (store_ok _ (length m) _ (0 + 1 * 1) _ (nth_error_app_new m _)) by (rewrite upd_length; rewrite repeat_length; lia).
  xstep. rewrite upd_app_new.
  change (upd (upd (repeat (VInt 0) 133) (Z.to_nat (0 + 1 * 131)) (VInt flg)) (Z.to_nat (0 + 1 * 1)) (VPtr bl 0))
    with (VInt 0 :: tl (rs_cells bl 0 (repeat 0 128) 0 flg 0)).
  set (B0 := VInt 0 :: tl (rs_cells bl 0 (repeat 0 128) 0 flg 0)).
  assert (F0 : frame bre bp br bl P cflg line fuel (m ++ [B0])).
  { apply frame_fresh; [|exact Hl|exact Hg]. exists cells. split; [exact Hre|]. split; [exact Hbp|exact Hinstr]. }
  destruct (rx_loop_ok bre bp br bl bps bpreg P cflg flg line fuel ltac:(lia) ltac:(lia) ltac:(lia) Lg H5 H6 H7 H8 H9 H10 H11 H12 ltac:(lia) HP0 H128
              nsub eflg pcells e Hn0 Hn2 Hpc Hnf fuel (length line + 2) (m ++ [B0]) 0%nat 0%nat (VInt 0) (repeat 0 128) 0 0 fuel x c
              F0 (nth_error_app_new m B0) (repeat_length _ _) ltac:(rewrite nth_error_app1 by exact Lbps; exact Hps) ltac:(lia) ltac:(lia) Hloop H7)
    as [st' [X Y]].
  unfold rx_loop, rx_tail in X; cbn [fn_body cf_regexec] in X. change (Z.of_nat 0) with 0 in X.
  match type of X with ?LX = _ =>
    match goal with |- context [match ?LG with ONormal _ => _ | _ => _ end] => change LG with LX end end.
  rewrite X.
  destruct Y as [blk [extra Y]]. exists (memm st'), blk, extra. split; [reflexivity|].
  fold ns in Y. unfold br in Y. rewrite upd_app_new in Y. destruct x as [r|].
  - rewrite Y. rewrite <- app_assoc. cbn [app]. rewrite upd_app_mem by exact Lbps. reflexivity.
  - rewrite Y. rewrite <- app_assoc. reflexivity.
Qed.

(* ------------------------------------------------------------------ the marks regexec reports are ints *)
Lemma re_loop_marks_ok P flg line : Z.of_nat (length line) < 2147483647 ->
  forall k o s r c, (o <= length line)%nat -> (s <= length line)%nat ->
  re_loop 256 P flg line k o s = (ReSyntax.Ok (Some r), c) -> ints_ok (snd r).
Proof.
  intro Hl. induction k as [|k IH]; intros o s r c Ho Hs H; [discriminate|].
  cbn [re_loop] in H. rewrite (rdk_in _ line o Ho), (rdk_in _ line s Hs) in H.
  destruct (nthb line o =? 0)%N; [discriminate|].
  destruct (ReVM.re_recmatch 256 P flg line s) as [[cs r1| | |w] c1] eqn:E; try discriminate.
  - injection H as <- _. unfold ReVM.re_recmatch in E.
    apply (rec_inv flg line P 256 0 (s, repeat (-1) nmarks) cs r1 c1 Hl) in E; [exact (proj2 E)|].
    split; [exact Hs|]. unfold ints_ok. apply Forall_forall. intros x Hx. apply repeat_spec in Hx. subst x. lia.
  - destruct (re_loop 256 P flg line k s (s + re_uclen_at line s)) as [x2 c2] eqn:E2. injection H as -> _.
    exact (IH _ _ _ _ Hs (re_uclen_at_in line s Hs) E2).
Qed.
Lemma psub_of_tab_ok M n : ints_ok M -> tab_ok (psub_of M n).
Proof.
  intro H. unfold tab_ok, psub_of. apply Forall_forall. intros ab Hin. apply in_map_iff in Hin. destruct Hin as [i [<- _]].
  destruct (Nat.ltb (i * 2) nmarks); cbn [fst snd]; unfold int_ok; [|lia].
  assert (X : forall j, -2147483648 <= nth j M (-1) <= 2147483647).
  { intro j. destruct (Nat.lt_ge_cases j (length M)) as [L|L]; [|rewrite nth_overflow by exact L; lia].
    unfold ints_ok in H. rewrite Forall_forall in H. apply H. apply nth_In. exact L. }
  split; apply X.
Qed.

(* ------------------------------------------------------------------ the hypotheses of tr_regexec survive the malloc of subs *)
Lemma prog_at_app (m : mem) fuel bre bp P cflg (B : block) :
  prog_at m (length m) fuel bre bp P cflg -> prog_at (m ++ [B]) (length (m ++ [B])) fuel bre bp P cflg.
Proof.
  intros [cells [Hre [Hp Hi]]].
  assert (Hx : forall b (blk : block), nth_error m b = Some blk -> nth_error (m ++ [B]) b = Some blk).
  { intros b blk Hn. rewrite nth_error_app1; [exact Hn|]. apply nth_error_Some. congruence. }
  exists cells. split; [apply Hx; exact Hre|]. split; [apply Hx; exact Hp|].
  intros k i Hk. specialize (Hi k i Hk). destruct Hi as [A1 A2]. split; [exact A1|].
  destruct i as [a| | | |]; try exact A2. destruct A2 as [A2 A3]. split; [exact A2|].
  destruct (ra_str a) as [s|]; [|exact I]. destruct A3 as [bs [E1 [E2 [E3 [E4 E5]]]]]. exists bs. split; [exact E1|].
  split; [apply Hx; exact E2|]. split; [exact E3|]. split; [|exact E5].
  assert (bs < length m)%nat by (apply nth_error_Some; unfold str_at in E2; congruence). rewrite app_length. cbn [length]. lia.
Qed.
Lemma globals_at_app (m : mem) (B : block) : globals_at m -> globals_at (m ++ [B]).
Proof.
  intros [HL Hg]. split; [rewrite app_length; lia|]. intros g blk Hin Hn.
  rewrite nth_error_app1; [apply Hg; assumption|]. apply nth_error_Some. rewrite (Hg _ _ Hin Hn). discriminate.
Qed.

(* ------------------------------------------------------------------ a set of the model in memory *)
(* block rb = the struct rset of the model's set rs: its regex_t points to the struct regex bre of the compiled program (prog_at),
   grp[] holds rs_grp (n + 1 ints), setgrpcnt[] holds rs_setgrpcnt (n ints; the C code allocates n + 1 cells and leaves the last one
   indeterminate: rests) *)
Definition rset_at (m : mem) (fuel rb bre bp bg bsg : nat) (rs : rset) (rests : block) : Prop :=
  nth_error m rb = Some [VPtr bre 0; VInt (Z.of_nat (rs_n rs)); VPtr bg 0; VPtr bsg 0; VInt (Z.of_nat (rs_grpcnt rs))] /\
  nth_error m bg = Some (map VInt (rs_grp rs)) /\
  nth_error m bsg = Some (map VInt (map Z.of_nat (rs_setgrpcnt rs)) ++ rests) /\
  prog_at m (length m) fuel bre bp (code (rs_prog rs)) (rs_cflg rs).

(* THE THEOREM: the translated rset_find is the model's rset_find_d at the engine's depth.  Hypotheses: the set in memory (rset_at), its
   tables inside subs[] (rset_tabs_ok: true for every set rset_make builds, TrRsetFind.rset_make_tabs_ok), a program with the static shape
   regcomp guarantees (prog_wf, C11_wf_prog), the line a C string at the start of block bl, grps[] a block of at least 2 * n cells,
   sizes inside int, fuel for the loops; and that the model answers (Ok: no atom read outside the line, no loop fuel exhausted --
   C11_terminates / C11_atom_in_bounds exclude the other answers for programs of regcomp). *)
Theorem tr_rset_find_model (m : mem) fuel rb bre bp bg bsg gb bl (rs : rset) rests (line : bytes) n flg (gold : block) e idx g c :
  rset_at m fuel rb bre bp bg bsg rs rests -> rset_tabs_ok (Z.of_nat (rs_n rs)) (Z.of_nat (rs_grpcnt rs)) (rs_grp rs) (rs_setgrpcnt rs) ->
  str_at m bl line -> globals_at m -> nth_error m gb = Some gold -> gb <> rb -> gb <> bg -> gb <> bsg ->
  bytes_lt256 line -> -2147483648 <= rs_cflg rs <= 2147483647 -> -2147483648 <= Z.lor (rs_cflg rs) (eflg_of flg) <= 2147483647 ->
  Z.of_nat (rs_grpcnt rs) <= 1073741823 -> n * 2 <= 2147483647 -> Z.of_nat (rs_grpcnt rs) + n <= 2147483647 ->
  (2 * Z.to_nat n <= length gold)%nat ->
  (length line + 2 <= fuel)%nat -> (cls_fuel <= fuel)%nat -> Z.of_nat (length line) < 2147483647 ->
  Z.of_nat (length (code (rs_prog rs))) < 2147483647 -> ReProps5.prog_wf (code (rs_prog rs)) -> (length (code (rs_prog rs)) < fuel)%nat ->
  (128 < fuel)%nat -> (rs_grpcnt rs < fuel)%nat -> (rs_n rs < fuel)%nat -> (Z.to_nat n < fuel)%nat ->
  rset_find_d 256 rs line (Z.to_nat n) flg = (ReSyntax.Ok (idx, g), c) ->
  exists m', callf cprog fuel (S (S (S (S (S (S (S (S (S (S (256 + e))))))))))) F_rset_find
               [VPtr rb 0; VPtr bl 0; VInt n; VPtr gb 0; VInt flg] m = Ok (VInt idx, m') /\
    nth_error m' gb = Some (if idx <? 0 then gold else tab_block g ++ skipn (2 * Z.to_nat n) gold) /\
    ((2 < rs_grpcnt rs)%nat -> nth_error m' (length m) = Some []) /\
    forall b, (b < length m)%nat -> b <> gb -> nth_error m' b = nth_error m b.
Proof.
  intros (Hrb & Hbg & Hbsg & Hprog) Htabs Hl Hg Hgb G1 G2 G3 H5 Hcf H6 Hgc Hn2 Hgn Hgold H7 H8 H9 H10 Hwf H12 H128 Hf0 Hf1 Hf2 Hmod.
  rewrite rset_find_d_answer in Hmod.
  destruct (Nat.leb_spec (rs_grpcnt rs) 2) as [L2|L2].
  { injection Hmod as <- <- <-. exists m.
    split; [apply (tr_rset_find_empty m rb _ (Z.of_nat (rs_grpcnt rs)) _ _ _ flg _ fuel Hrb eq_refl); lia|].
    split; [exact Hgb|]. split; [lia|]. reflexivity. }
  destruct (regexec_d 256 (rs_prog rs) (rs_cflg rs) line (rs_grpcnt rs) (eflg_of flg)) as [[osubs| |] c'] eqn:Hrx; try discriminate.
  injection Hmod as HR <-.
  set (gc := Z.of_nat (rs_grpcnt rs)) in *.
  set (m1 := m ++ [repeat VUndef (Z.to_nat (2 * gc))]).
  assert (Hef : -2147483648 <= eflg_of flg <= 2147483647).
  { unfold eflg_of. change REG_NEWLINE with 8. change REG_NOTBOL with 16. change REG_NOTEOL with 32.
    destruct (has flg RE_NOTBOL), (has flg RE_NOTEOL); cbn; lia. }
  assert (Hnosub : Z.land (eflg_of flg) 2 = 0).
  { unfold eflg_of. change REG_NEWLINE with 8. change REG_NOTBOL with 16. change REG_NOTEOL with 32.
    destruct (has flg RE_NOTBOL), (has flg RE_NOTEOL); reflexivity. }
  assert (Lrb : (rb < length m)%nat) by (apply nth_error_Some; congruence).
  destruct (prog_wf_closed _ Hwf) as [H11 HP0].
  (* the model's regexec_d is re_loop + psub_of *)
  assert (Hloop : exists x, re_loop 256 (code (rs_prog rs)) (Z.lor (rs_cflg rs) (eflg_of flg)) line (length line + 2) 0 0 = (ReSyntax.Ok x, c') /\
                            osubs = match x with Some r => Some (psub_of (snd r) (rs_grpcnt rs)) | None => None end).
  { unfold regexec_d in Hrx.
    destruct (re_loop 256 (code (rs_prog rs)) (Z.lor (rs_cflg rs) (eflg_of flg)) line (length line + 2) 0 0) as [[x| |] c2]; try (destruct x; discriminate); try discriminate.
    exists x. destruct x as [r|]; injection Hrx as <- <-; split; reflexivity. }
  destruct Hloop as (x & Hloop & Hos).
  assert (Hm1rb : nth_error m1 rb = Some (VPtr bre 0 :: [VInt (Z.of_nat (rs_n rs)); VPtr bg 0; VPtr bsg 0; VInt gc]))
    by (unfold m1; rewrite nth_error_app_old by exact Lrb; exact Hrb).
  assert (Hm1sb : nth_error m1 (length m) = Some (repeat VUndef (Z.to_nat (2 * gc)))) by (apply nth_error_app_new).
  destruct (tr_regexec_in bre bp bl (length m) rb _ (code (rs_prog rs)) (rs_cflg rs) (eflg_of flg) line fuel m1 gc
              (repeat VUndef (Z.to_nat (2 * gc))) e x c' Hm1rb (prog_at_app m fuel bre bp _ _ _ Hprog)
              ltac:(unfold m1, str_at; rewrite nth_error_app_old; [exact Hl|apply nth_error_Some; unfold str_at in Hl; congruence])
              (globals_at_app m _ Hg) Hm1sb H5 H6 Hcf Hef H7 H8 H9 H10 H11 H12 HP0 H128 ltac:(lia) ltac:(lia)
              ltac:(rewrite repeat_length; lia) ltac:(unfold gc; lia) Hloop) as (m2 & blk & extra & Hcall & Hm2).
  rewrite Hnosub in Hm2. cbn [Z.eqb negb] in Hm2.
  assert (Hlm1 : length m1 = S (length m)) by (unfold m1; rewrite app_length; cbn [length]; lia).
  assert (Hskip : skipn (2 * Z.to_nat gc) (repeat VUndef (Z.to_nat (2 * gc))) = [])
    by (apply skipn_all2; rewrite repeat_length; lia).
  assert (Hans : regexec_ans m m2 (length m) gc (match x with Some _ => 0 | None => 1 end) osubs).
  { split.
    - intros b Hb. rewrite Hm2. destruct x as [r|].
      + rewrite nth_error_app1 by (rewrite upd_length by lia; lia). rewrite mem_upd_other by lia. apply nth_error_app_old. exact Hb.
      + rewrite nth_error_app1 by lia. apply nth_error_app_old. exact Hb.
    - rewrite Hos. destruct x as [r|].
      + split; [reflexivity|]. split.
        * rewrite Hm2. rewrite nth_error_app1 by (rewrite upd_length by lia; lia). rewrite mem_upd_same by lia.
          rewrite Hskip, app_nil_r. unfold gc. rewrite Nat2Z.id. reflexivity.
        * split; [rewrite psub_of_length; reflexivity|]. apply psub_of_tab_ok.
          exact (re_loop_marks_ok _ _ line H9 _ 0%nat 0%nat r c' ltac:(lia) ltac:(lia) Hloop).
      + split; [lia|]. exists (repeat VUndef (Z.to_nat (2 * gc))). split.
        * rewrite Hm2. rewrite nth_error_app1 by lia. exact Hm1sb.
        * intro E. apply (f_equal (@length val)) in E. rewrite repeat_length in E. cbn [length] in E. lia. }
  pose proof (tr_rset_find_rel m rb bre bg bsg gb (Z.of_nat (rs_n rs)) gc (rs_grp rs) (rs_setgrpcnt rs) [] rests bl 0 n flg gold _ fuel _ osubs m2
                Hrb ltac:(rewrite app_nil_r; exact Hbg) Hbsg Hgb G1 G2 G3 Htabs ltac:(unfold gc; lia) Hn2 Hgn Hgold ltac:(lia) Hf2 Hcall Hans) as T.
  cbv zeta in T. rewrite !Nat2Z.id in T. rewrite HR in T. cbn [fst snd] in T.
  eexists. split; [exact T|].
  assert (Lgb : (gb < length m)%nat) by (apply nth_error_Some; congruence).
  assert (Lm2 : (S (length m) <= length m2)%nat).
  { rewrite Hm2. destruct x; rewrite app_length; [rewrite upd_length by lia|]; lia. }
  destruct Hans as [Hfr _].
  split; [|split].
  - rewrite mem_upd_other by (destruct (idx <? 0); rewrite ?upd_length by lia; lia).
    destruct (idx <? 0); [rewrite Hfr by exact Lgb; exact Hgb|]. apply mem_upd_same. lia.
  - intros _. apply mem_upd_same. destruct (idx <? 0); rewrite ?upd_length by lia; lia.
  - intros b Hb Hne. rewrite mem_upd_other by (destruct (idx <? 0); rewrite ?upd_length by lia; lia).
    destruct (idx <? 0); [apply Hfr; exact Hb|]. rewrite mem_upd_other by (auto; lia). apply Hfr. exact Hb.
Qed.

(* ------------------------------------------------------------------ rset_find(rs, s, 0, NULL, flg): the call dir_context makes *)
(* TrRsetFind.tr_rset_find_rel is stated for grps = a pointer to cell 0 of a block; with n = 0 the second loop exits at once and the
   argument grps is only copied into its local: the proof of tr_rset_find_rel once more with the second loop run directly; rf_loop1_ok's
   block gb (a section variable of TrRsetFind.RsetFind it does not use for the first loop) is instantiated with an index beyond all
   blocks.  No grps cell is written: the final memory is what regexec left, with the subs block freed. *)
(* n = 0: grps is never dereferenced, whatever value gpv is passed *)
Theorem tr_rset_find_rel0 (m : mem) rb bre bg bsg n_rs grpcnt grp sgc restg rests bl o gpv flg D fuel r osubs m2 :
  nth_error m rb = Some [VPtr bre 0; VInt n_rs; VPtr bg 0; VPtr bsg 0; VInt grpcnt] ->
  nth_error m bg = Some (map VInt grp ++ restg) -> nth_error m bsg = Some (map VInt (map Z.of_nat sgc) ++ rests) ->
  rset_tabs_ok n_rs grpcnt grp sgc -> 2 < grpcnt <= 2147483647 -> (Z.to_nat n_rs < fuel)%nat -> (0 < fuel)%nat ->
  let sb := length m in
  callf cprog fuel D F_regexec [VPtr rb 0; VPtr bl o; VInt grpcnt; VPtr sb 0; VInt (eflg_of flg)] (m ++ [repeat VUndef (Z.to_nat (2 * grpcnt))])
    = Ok (VInt r, m2) ->
  regexec_ans m m2 sb grpcnt r osubs ->
  callf cprog fuel (S D) F_rset_find [VPtr rb 0; VPtr bl o; VInt 0; gpv; VInt flg] m
  = Ok (VInt (fst (rset_answer (Z.to_nat n_rs) grp sgc osubs 0)), upd m2 sb []).
Proof.
  intros Hrb Hbg Hbsg Htabs Hgc Hf1 Hf0 sb Hcall [Hfr Hans].
  assert (Lrb : (rb < length m)%nat) by (apply nth_error_Some; congruence).
  assert (Lbg : (bg < length m)%nat) by (apply nth_error_Some; congruence).
  assert (Lbsg : (bsg < length m)%nat) by (apply nth_error_Some; congruence).
  set (gb := S (rb + bg + bsg + length m)).
  assert (G1 : gb <> rb) by (unfold gb; lia). assert (G2 : gb <> bg) by (unfold gb; lia). assert (G3 : gb <> bsg) by (unfold gb; lia).
  enter F_rset_find cf_rset_find.
  rewrite (rf_head_ok _ fuel m rb _ grpcnt _ _ _ flg Hrb eq_refl) by lia.
  destruct (Z.leb_spec grpcnt 2); [lia|].
  unfold rf_tail; cbn [fn_body cf_rset_find]. xstep.
  rewrite (rf_load_cell m rb _ (0 + 1 * 4) _ Hrb eq_refl) by lia. xstep. rewrite (wrap_I32_id grpcnt) by lia.
  rewrite (wrap_U64_id grpcnt) by lia. rewrite (chk_U64 (grpcnt * 16)) by lia. xstep.
  rewrite (chk_U64 (grpcnt * 16 * 2)) by lia. xstep. change (16 =? 0) with false. cbv iota.
  replace (grpcnt * 16 * 2) with (2 * grpcnt * 16) by lia. rewrite Z.quot_mul by lia. rewrite (chk_U64 (2 * grpcnt)) by lia. xstep.
  rewrite (malloc_ok m (2 * grpcnt)) by lia. xstep. fold sb.
  set (m1 := m ++ [repeat VUndef (Z.to_nat (2 * grpcnt))]) in *.
  assert (Hrb1 : nth_error m1 rb = Some [VPtr bre 0; VInt n_rs; VPtr bg 0; VPtr bsg 0; VInt grpcnt])
    by (unfold m1; rewrite nth_error_app_old by exact Lrb; exact Hrb).
  rewrite (rf_load_cell m1 rb _ (0 + 1 * 4) _ Hrb1 eq_refl) by lia. xstep. rewrite (wrap_I32_id grpcnt) by lia.
  rewrite Hcall. xstep.
  destruct osubs as [subs|].
  - (* found *)
    destruct Hans as (-> & Hsb & Hsl & Hsok). change (0 =? 0) with true. cbn [negb b2z].
    assert (G4 : gb <> sb) by (unfold sb, gb; lia).
    assert (V : rf_view rb bre bg bsg sb n_rs grpcnt grp sgc restg rests subs m2).
    { unfold rf_view. rewrite !Hfr by assumption. auto. }
    pose proof (rf_loop1_ok rb bre bg bsg sb gb n_rs grpcnt grp sgc restg rests subs G1 G2 G3 G4 Htabs Hsl Hsok (callf cprog fuel D) m2
                  (VPtr bl o) (VInt 0) gpv (VInt flg) (VInt (eflg_of flg)) VUndef V (Z.to_nat n_rs) 0 (-1) fuel ltac:(lia)
                  ltac:(destruct Htabs as (A & _); lia) Hf1) as L1.
    unfold rf_loop1 in L1; cbn [fn_body cf_rset_find] in L1. rewrite L1. clear L1. xstep.
    change (Z.to_nat 0) with 0%nat. cbn [skipn].
    unfold rset_answer, rset_pick. fold neg1.
    set (st := rset_which (firstn (Z.to_nat n_rs) grp) subs 0 (-1)) in *.
    assert (Hnon : tab_block subs <> []).
    { intro E. apply (f_equal (@length val)) in E. rewrite rf_tab_block_length in E. cbn [length] in E. lia. }
    destruct (Z.leb_spec 0 st) as [S0|S0]; (destruct (Z.ltb_spec st 0) as [S1|S1]; [try lia|try lia]); cbn [b2z fst snd]; xstep.
    + (* set >= 0: for (i = 0; i < 0; i++) exits at once *)
      destruct fuel as [|fuel]; [lia|]. rewrite exec_for. xstep.
      rewrite (free_ok m2 sb _ Hsb Hnon). xstep. reflexivity.
    + rewrite (free_ok m2 sb _ Hsb Hnon). xstep. reflexivity.
  - (* not found *)
    destruct Hans as (Hr & blk & Hsb & Hne).
    replace (r =? 0) with false by (symmetry; apply Z.eqb_neq; exact Hr). cbn [negb b2z].
    destruct fuel as [|fuel]; [lia|]. rewrite exec_for. xstep.
    rewrite (free_ok m2 sb _ Hsb Hne). xstep. reflexivity.
Qed.

(* its composition with tr_regexec_in (with the weakened globals_at), as tr_rset_find_model is composed from tr_rset_find_rel *)
Theorem tr_rset_find_model0 (m : mem) fuel rb bre bp bg bsg bl (rs : rset) rests (line : bytes) gpv flg e idx g c :
  rset_at m fuel rb bre bp bg bsg rs rests -> rset_tabs_ok (Z.of_nat (rs_n rs)) (Z.of_nat (rs_grpcnt rs)) (rs_grp rs) (rs_setgrpcnt rs) ->
  str_at m bl line -> globals_at m ->
  bytes_lt256 line -> -2147483648 <= rs_cflg rs <= 2147483647 -> -2147483648 <= Z.lor (rs_cflg rs) (eflg_of flg) <= 2147483647 ->
  Z.of_nat (rs_grpcnt rs) <= 1073741823 ->
  (length line + 2 <= fuel)%nat -> (cls_fuel <= fuel)%nat -> Z.of_nat (length line) < 2147483647 ->
  Z.of_nat (length (code (rs_prog rs))) < 2147483647 -> ReProps5.prog_wf (code (rs_prog rs)) -> (length (code (rs_prog rs)) < fuel)%nat ->
  (128 < fuel)%nat -> (rs_grpcnt rs < fuel)%nat -> (rs_n rs < fuel)%nat ->
  rset_find_d 256 rs line 0 flg = (ReSyntax.Ok (idx, g), c) ->
  exists m', callf cprog fuel (S (S (S (S (S (S (S (S (S (S (256 + e))))))))))) F_rset_find
               [VPtr rb 0; VPtr bl 0; VInt 0; gpv; VInt flg] m = Ok (VInt idx, m') /\
    (length m <= length m')%nat /\ forall b, (b < length m)%nat -> nth_error m' b = nth_error m b.
Proof.
  intros (Hrb & Hbg & Hbsg & Hprog) Htabs Hl Hg H5 Hcf H6 Hgc H7 H8 H9 H10 Hwf H12 H128 Hf0 Hf1 Hmod.
  rewrite rset_find_d_answer in Hmod.
  destruct (Nat.leb_spec (rs_grpcnt rs) 2) as [L2|L2].
  { injection Hmod as <- <- <-. exists m.
    split; [apply (tr_rset_find_empty m rb _ (Z.of_nat (rs_grpcnt rs)) _ _ _ flg _ fuel Hrb eq_refl); lia|].
    split; [lia|]. reflexivity. }
  destruct (regexec_d 256 (rs_prog rs) (rs_cflg rs) line (rs_grpcnt rs) (eflg_of flg)) as [[osubs| |] c'] eqn:Hrx; try discriminate.
  injection Hmod as HR <-.
  set (gc := Z.of_nat (rs_grpcnt rs)) in *.
  set (m1 := m ++ [repeat VUndef (Z.to_nat (2 * gc))]).
  assert (Hef : -2147483648 <= eflg_of flg <= 2147483647).
  { unfold eflg_of. change REG_NEWLINE with 8. change REG_NOTBOL with 16. change REG_NOTEOL with 32.
    destruct (has flg RE_NOTBOL), (has flg RE_NOTEOL); cbn; lia. }
  assert (Hnosub : Z.land (eflg_of flg) 2 = 0).
  { unfold eflg_of. change REG_NEWLINE with 8. change REG_NOTBOL with 16. change REG_NOTEOL with 32.
    destruct (has flg RE_NOTBOL), (has flg RE_NOTEOL); reflexivity. }
  assert (Lrb : (rb < length m)%nat) by (apply nth_error_Some; congruence).
  destruct (prog_wf_closed _ Hwf) as [H11 HP0].
  assert (Hloop : exists x, re_loop 256 (code (rs_prog rs)) (Z.lor (rs_cflg rs) (eflg_of flg)) line (length line + 2) 0 0 = (ReSyntax.Ok x, c') /\
                            osubs = match x with Some r => Some (psub_of (snd r) (rs_grpcnt rs)) | None => None end).
  { unfold regexec_d in Hrx.
    destruct (re_loop 256 (code (rs_prog rs)) (Z.lor (rs_cflg rs) (eflg_of flg)) line (length line + 2) 0 0) as [[x| |] c2]; try (destruct x; discriminate); try discriminate.
    exists x. destruct x as [r|]; injection Hrx as <- <-; split; reflexivity. }
  destruct Hloop as (x & Hloop & Hos).
  assert (Hm1rb : nth_error m1 rb = Some (VPtr bre 0 :: [VInt (Z.of_nat (rs_n rs)); VPtr bg 0; VPtr bsg 0; VInt gc]))
    by (unfold m1; rewrite nth_error_app_old by exact Lrb; exact Hrb).
  assert (Hm1sb : nth_error m1 (length m) = Some (repeat VUndef (Z.to_nat (2 * gc)))) by (apply nth_error_app_new).
  destruct (tr_regexec_in bre bp bl (length m) rb _ (code (rs_prog rs)) (rs_cflg rs) (eflg_of flg) line fuel m1 gc
              (repeat VUndef (Z.to_nat (2 * gc))) e x c' Hm1rb (prog_at_app m fuel bre bp _ _ _ Hprog)
              ltac:(unfold m1, str_at; rewrite nth_error_app_old; [exact Hl|apply nth_error_Some; unfold str_at in Hl; congruence])
              (globals_at_app m _ Hg) Hm1sb H5 H6 Hcf Hef H7 H8 H9 H10 H11 H12 HP0 H128 ltac:(lia) ltac:(lia)
              ltac:(rewrite repeat_length; lia) ltac:(unfold gc; lia) Hloop) as (m2 & blk & extra & Hcall & Hm2).
  rewrite Hnosub in Hm2. cbn [Z.eqb negb] in Hm2.
  assert (Hlm1 : length m1 = S (length m)) by (unfold m1; rewrite app_length; cbn [length]; lia).
  assert (Hskip : skipn (2 * Z.to_nat gc) (repeat VUndef (Z.to_nat (2 * gc))) = [])
    by (apply skipn_all2; rewrite repeat_length; lia).
  assert (Hans : regexec_ans m m2 (length m) gc (match x with Some _ => 0 | None => 1 end) osubs).
  { split.
    - intros b Hb. rewrite Hm2. destruct x as [r|].
      + rewrite nth_error_app1 by (rewrite upd_length by lia; lia). rewrite mem_upd_other by lia. apply nth_error_app_old. exact Hb.
      + rewrite nth_error_app1 by lia. apply nth_error_app_old. exact Hb.
    - rewrite Hos. destruct x as [r|].
      + split; [reflexivity|]. split.
        * rewrite Hm2. rewrite nth_error_app1 by (rewrite upd_length by lia; lia). rewrite mem_upd_same by lia.
          rewrite Hskip, app_nil_r. unfold gc. rewrite Nat2Z.id. reflexivity.
        * split; [rewrite psub_of_length; reflexivity|]. apply psub_of_tab_ok.
          exact (re_loop_marks_ok _ _ line H9 _ 0%nat 0%nat r c' ltac:(lia) ltac:(lia) Hloop).
      + split; [lia|]. exists (repeat VUndef (Z.to_nat (2 * gc))). split.
        * rewrite Hm2. rewrite nth_error_app1 by lia. exact Hm1sb.
        * intro E. apply (f_equal (@length val)) in E. rewrite repeat_length in E. cbn [length] in E. lia. }
  pose proof (tr_rset_find_rel0 m rb bre bg bsg (Z.of_nat (rs_n rs)) gc (rs_grp rs) (rs_setgrpcnt rs) [] rests bl 0 gpv flg _ fuel _ osubs m2
                Hrb ltac:(rewrite app_nil_r; exact Hbg) Hbsg Htabs ltac:(unfold gc; lia) ltac:(lia) ltac:(lia) Hcall Hans) as T.
  cbv zeta in T. rewrite !Nat2Z.id in T. rewrite HR in T. cbn [fst snd] in T.
  eexists. split; [exact T|].
  assert (Lm2 : (S (length m) <= length m2)%nat).
  { rewrite Hm2. destruct x; rewrite app_length; [rewrite upd_length by lia|]; lia. }
  destruct Hans as [Hfr _].
  split.
  - rewrite upd_length by lia. lia.
  - intros b Hb. rewrite mem_upd_other by lia. apply Hfr. exact Hb.
Qed.
Print Assumptions tr_rset_find_model.
Print Assumptions tr_rset_find_model0.
