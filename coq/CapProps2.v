(* CapProps2.v -- C05: lemmas about the table models of CapDefs2.v *)
From Coq Require Import List NArith ZArith Bool Lia ZifyBool ZifyNat ZifyN.
From NV Require Import Bytes GenConsts GenCap GenExCmds CapDefs CapProps CapDefs2.
Import ListNotations.
Local Open Scope Z_scope.

Lemma ix_ok n i : 0 <= i < n -> ix n i = Ok i.
Proof. intro H. unfold ix. destruct (Z.leb_spec 0 i), (Z.ltb_spec i n); try lia. reflexivity. Qed.
Lemma ixw_ok n i : 0 <= i < n -> ixw n i = Ok i.
Proof. intro H. unfold ixw. destruct (Z.leb_spec 0 i), (Z.ltb_spec i n); try lia. reflexivity. Qed.
Lemma ixw_inv n i j : ixw n i = Ok j -> j = i /\ 0 <= i < n.
Proof. unfold ixw. destruct (Z.leb_spec 0 i), (Z.ltb_spec i n); cbn; intro E; inversion E; lia. Qed.

(* ---------------------------------------------------------------------------------------- *)
(* (1) registers                                                                             *)

Definition in_reg (i : Z) : Prop := 0 <= i < REGSZ /\ 0 <= i < LNMODESZ.

Lemma reg_sizes : 256 <= REGSZ /\ 256 <= LNMODESZ.
Proof. split; now vm_compute. Qed.

Lemma tolower_byte c : 0 <= c < 256 -> 0 <= z_tolower c < 256.
Proof. intro H. unfold z_tolower, z_isupper. destruct (Z.leb_spec 65 c), (Z.leb_spec c 90); cbn [andb]; lia. Qed.

Lemma lor128_byte : forall c, (c < 256)%N -> 0 <= Z.lor 128 (Z.of_N c) < 256.
Proof.
  intros c H.
  assert (S : forallb (fun c => (0 <=? Z.lor 128 (Z.of_N c)) && (Z.lor 128 (Z.of_N c) <? 256)) bytes256 = true) by (vm_compute; reflexivity).
  pose proof (byte_sweep _ S c H) as B. cbv beta in B. lia.
Qed.

Lemma REG_byte s : Forall (fun b => (b < 256)%N) s -> exists c, REG s = Ok c /\ 0 <= c < 256.
Proof.
  intro F. unfold REG.
  destruct (rd_ok s 0) as (c0 & E0 & N0); [lia|]. rewrite E0. cbn [bind].
  assert (B0 : (c0 < 256)%N).
  { unfold rd in E0. destruct (nth_error s 0) eqn:E.
    - inversion E0; subst. apply nth_error_In in E. rewrite Forall_forall in F. now apply F.
    - destruct (Nat.eqb 0 (length s)); inversion E0; lia. }
  destruct (N.eqb_spec c0 92).
  - destruct (rd_ok s 1) as (c1 & E1 & _). { assert (0 < length s)%nat by (apply N0; lia). lia. }
    rewrite E1. cbn [bind]. eexists; split; [reflexivity|]. apply lor128_byte.
    unfold rd in E1. destruct (nth_error s 1) eqn:E.
    + inversion E1; subst. apply nth_error_In in E. rewrite Forall_forall in F. now apply F.
    + destruct (Nat.eqb 1 (length s)); inversion E1; lia.
  - eexists; split; [reflexivity|]. lia.
Qed.

Lemma reg_putraw_ok c : 0 <= c < 256 -> reg_putraw c = Ok (z_tolower c).
Proof.
  intro H. pose proof (tolower_byte c H) as T. pose proof reg_sizes as SZ. unfold reg_putraw.
  rewrite !ix_ok, !ixw_ok by lia. destruct (z_isupper c); reflexivity.
Qed.

Lemma reg_get_ok present c : 0 <= c < 256 -> exists b, reg_get present c = Ok b.
Proof.
  intro H. pose proof reg_sizes as SZ. unfold reg_get, reg_getraw.
  set (c' := if c =? 34 then 0 else c). assert (0 <= c' < 256) by (subst c'; destruct (c =? 34); lia).
  destruct ((c' =? 59) || (c' =? 35) || (c' =? 94)); [eexists; reflexivity|].
  rewrite !ix_ok by lia. cbn [bind]. eexists; reflexivity.
Qed.

Lemma reg_shift_ok present : forall i acc, (i <= 8)%nat -> Forall in_reg acc ->
  exists l, reg_shift present i acc = Ok l /\ Forall in_reg l.
Proof.
  pose proof reg_sizes as SZ.
  induction i as [|j IH]; intros acc Hi Fa; [exists acc; split; [reflexivity|assumption]|].
  cbn [reg_shift]. destruct (reg_get_ok present (48 + Z.of_nat (S j))) as (b & E); [lia|]. rewrite E. cbn [bind].
  destruct b.
  - rewrite reg_putraw_ok by lia. cbn [bind]. apply IH; [lia|]. constructor; [|assumption].
    pose proof (tolower_byte (48 + Z.of_nat (S j) + 1)). unfold in_reg. lia.
  - cbn [bind]. apply IH; [lia|assumption].
Qed.

Lemma reg_put_in_range present c lnnl : 0 <= c < 256 ->
  exists l, reg_put present c lnnl = Ok l /\ Forall in_reg l.
Proof.
  intro H. pose proof reg_sizes as SZ. unfold reg_put.
  assert (T : in_reg (z_tolower c)) by (pose proof (tolower_byte c H); unfold in_reg; lia).
  destruct (lnnl && ((c =? 0) || z_isalpha c)).
  - destruct (reg_shift_ok present 8 []) as (a & E & Fa); [lia|constructor|]. rewrite E. cbn [bind].
    rewrite reg_putraw_ok by lia. cbn [bind]. rewrite reg_putraw_ok by lia. cbn [bind].
    eexists; split; [reflexivity|]. constructor; [assumption|]. constructor; [|assumption].
    unfold in_reg; vm_compute; repeat split; congruence.
  - cbn [bind]. rewrite reg_putraw_ok by lia. cbn [bind]. eexists; split; [reflexivity|]. constructor; [assumption|constructor].
Qed.

(* ---------------------------------------------------------------------------------------- *)
(* (2) marks                                                                                 *)

Lemma markidx_table_ok : Forall (fun p => 0 <= snd p < NMARKS) markidx_special.
Proof. repeat constructor; vm_compute; congruence. Qed.
Lemma markidx_lower_ok : 0 <= 97 - markidx_lower_base /\ 122 - markidx_lower_base < NMARKS.
Proof. split; vm_compute; congruence. Qed.

Lemma markidx_range m : markidx m = -1 \/ 0 <= markidx m < NMARKS.
Proof.
  unfold markidx. destruct (z_islower m) eqn:L.
  - right. pose proof markidx_lower_ok. unfold z_islower in L. lia.
  - destruct (find _ markidx_special) eqn:F; [|left; reflexivity].
    right. apply find_some in F. destruct F as [I _].
    pose proof markidx_table_ok as T. rewrite Forall_forall in T. exact (T _ I).
Qed.

Definition in_marks (i : Z) : Prop := 0 <= i < NMARKS.

Lemma lbuf_mark_ok m : exists l, lbuf_mark m = Ok l /\ Forall in_marks l.
Proof.
  unfold lbuf_mark. destruct (markidx_range m) as [E|R].
  - rewrite E. cbn. eexists; split; [reflexivity|constructor].
  - destruct (Z.leb_spec 0 (markidx m)); [|lia]. rewrite !ixw_ok by assumption. cbn [bind].
    eexists; split; [reflexivity|]. repeat constructor; exact R || apply R.
Qed.

Lemma lbuf_jump_ok isset m w : exists r, lbuf_jump isset m w = Ok r /\ match r with Some i => in_marks i | None => True end.
Proof.
  unfold lbuf_jump. destruct (markidx_range m) as [E|R].
  - rewrite E. cbn. eexists; split; [reflexivity|exact I].
  - destruct (Z.ltb_spec (markidx m) 0); [lia|]. rewrite !ix_ok by assumption. cbn [bind].
    destruct (isset (markidx m)); cbn [negb]; [|eexists; split; [reflexivity|exact I]].
    destruct w; cbn [bind]; eexists; (split; [reflexivity|exact R]).
Qed.

Lemma lbuf_pos_marks_ok : exists d s, lbuf_pos_marks = Ok (d, s) /\ in_marks d /\ in_marks s.
Proof. vm_compute. do 2 eexists. split; [reflexivity|]. repeat split; congruence. Qed.

Lemma mark_loop_ok : forall n, Z.of_nat n <= NMARKS -> mark_loop n = Ok tt.
Proof.
  induction n as [|k IH]; intro H; [reflexivity|]. cbn [mark_loop]. rewrite IH by lia. cbn [bind].
  rewrite ixw_ok by lia. reflexivity.
Qed.
Lemma lbuf_opt_marks_ok : lbuf_opt_marks = Ok tt.
Proof. unfold lbuf_opt_marks. apply mark_loop_ok. vm_compute. congruence. Qed.

(* ---------------------------------------------------------------------------------------- *)
(* (3) vi_buf                                                                                *)

Lemma vibuf_sizes : 1 <= VIBUFSZ /\ 1 <= VIBUFGUARD.
Proof. split; now vm_compute. Qed.

(* after a read at most 0 keys are pending (if at most 1 was), so the push that follows makes it 1 *)
Lemma vb_run_inv : forall ops n justread, back_after_read justread ops = true ->
  0 <= n <= 1 -> (justread = true -> n = 0) ->
  exists n', vb_run n ops = Ok n' /\ 0 <= n' <= 1.
Proof.
  pose proof vibuf_sizes as SZ.
  induction ops as [|o r IH]; intros n jr B Hn Hj; [exists n; split; [reflexivity|assumption]|].
  cbn [vb_run]. destruct o; cbn [back_after_read] in B.
  - (* read *) unfold vb_step. destruct (Z.eqb_spec n 0).
    + cbn [bind]. apply (IH 0 true B); lia.
    + assert (n = 1) by lia. subst n. rewrite ix_ok by lia. cbn [bind]. apply (IH 0 true B); lia.
  - (* back *) apply andb_true_iff in B. destruct B as [J B]. rewrite (Hj J). unfold vb_step.
    destruct (Z.leb_spec 0 0); [|lia]. destruct (Z.ltb_spec 0 VIBUFGUARD); [|lia]. cbn [andb].
    rewrite ixw_ok by lia. cbn [bind]. apply (IH 1 false B); [lia|discriminate].
Qed.

Lemma vi_buf_one_pending ops : back_after_read false ops = true ->
  exists n, vb_run 0 ops = Ok n /\ 0 <= n <= 1.
Proof. intro B. apply (vb_run_inv ops 0 false B); [lia|discriminate]. Qed.

(* every prefix too: the run of a prefix of a well-shaped stream is the run of a well-shaped stream *)
Lemma back_after_read_prefix : forall a b j, back_after_read j (a ++ b) = true -> back_after_read j a = true.
Proof.
  induction a as [|o a IH]; intros b j H; [reflexivity|]. destruct o; cbn [back_after_read app] in *.
  - exact (IH _ _ H).
  - apply andb_true_iff in H. destruct H as [J H]. rewrite J. exact (IH _ _ H).
Qed.

(* rep_cmd *)
Lemma rep_copy_ok n : 0 <= n <= ICMDSZ -> exists r, rep_copy n = Ok r /\ match r with Some i => 0 <= i < REPCMDSZ | None => True end.
Proof.
  intro H. unfold rep_copy.
  destruct ((0 <=? n + 1) && (n + 1 <? REPCMDSZ)) eqn:G; [|eexists; split; [reflexivity|exact I]].
  apply andb_true_iff in G. destruct G as [G1 G2].
  destruct (Z.ltb_spec n 0); [lia|]. destruct (Z.ltb_spec ICMDSZ n); [lia|]. cbn [orb].
  destruct (Z.ltb_spec REPCMDSZ n); [lia|]. rewrite ixw_ok by lia. cbn [bind]. eexists; split; [reflexivity|cbv beta iota; lia].
Qed.

Lemma rep_copy_after_any_input ops : Forall op_ok ops ->
  exists t r, t_run t_init ops = Ok t /\ rep_copy (icmd_pos t) = Ok r.
Proof.
  intro F. destruct (icmd_bounded ops F) as (t & E & B).
  destruct (rep_copy_ok (icmd_pos t)) as (r & R & _); [lia|]. exists t, r. split; assumption.
Qed.

(* ---------------------------------------------------------------------------------------- *)
(* (4) led_render                                                                            *)

Lemma aset_ok (P : Z -> Prop) a i v : 0 <= i < Z.of_nat (length a) -> Forall P a -> P v ->
  exists a', aset a i v = Ok a' /\ length a' = length a /\ Forall P a'.
Proof.
  intros H F Pv. unfold aset. destruct (Z.leb_spec 0 i), (Z.ltb_spec i (Z.of_nat (length a))); try lia. cbn [andb].
  eexists; split; [reflexivity|]. split.
  - rewrite app_length, firstn_length. cbn [length]. rewrite skipn_length. lia.
  - apply Forall_app. split; [now apply Forall_firstn'|]. constructor; [assumption|now apply Forall_skipn'].
Qed.

Lemma fill_cells_ok ctx cbeg cend p i (P : Z -> Prop) : P i -> forall n j off,
  (forall k, j <= k < j + Z.of_nat n -> 0 <= led_pos ctx (p + k) cbeg cend < Z.of_nat (length off)) -> Forall P off ->
  exists off', fill_cells ctx cbeg cend n j p i off = Ok off' /\ length off' = length off /\ Forall P off'.
Proof.
  intro Pi. induction n as [|k IH]; intros j off R F; [exists off; repeat split; assumption|].
  cbn [fill_cells]. destruct (aset_ok P off (led_pos ctx (p + j) cbeg cend) i) as (o1 & E1 & L1 & F1); [apply R; lia|assumption|assumption|].
  rewrite E1. cbn [bind]. destruct (IH (j + 1) o1) as (o2 & E2 & L2 & F2); [intros k0 Hk; rewrite L1; apply R; lia|assumption|].
  exists o2. repeat split; [assumption|lia|assumption].
Qed.

(* both ends inside the window => every cell of the character is *)
Lemma led_pos_between ctx cbeg cend p w k : 0 <= k < w ->
  0 <= led_pos ctx p cbeg cend < cend - cbeg -> 0 <= led_pos ctx (p + w - 1) cbeg cend < cend - cbeg ->
  0 <= led_pos ctx (p + k) cbeg cend < cend - cbeg.
Proof. unfold led_pos. destruct (0 <=? ctx); lia. Qed.

Lemma render_off_ok ctx cbeg cend : forall cols i off, Z.of_nat (length off) = cend - cbeg ->
  Forall (fun o => o < i + Z.of_nat (length cols)) off -> 0 <= i ->
  exists off', render_off ctx cbeg cend true cols i off = Ok off' /\ length off' = length off /\
               Forall (fun o => o < i + Z.of_nat (length cols)) off'.
Proof.
  induction cols as [|[p w] r IH]; intros i off L F Hi; [exists off; repeat split; assumption|].
  cbn [render_off]. cbn [length] in *.
  set (g := (0 <=? led_pos ctx p cbeg cend) && (led_pos ctx p cbeg cend <? cend - cbeg) &&
            (negb true || ((0 <=? led_pos ctx (p + w - 1) cbeg cend) && (led_pos ctx (p + w - 1) cbeg cend <? cend - cbeg)))).
  assert (S1 : exists o1, (if g then fill_cells ctx cbeg cend (Z.to_nat w) 0 p i off else Ok off) = Ok o1 /\
                          length o1 = length off /\ Forall (fun o => o < i + 1 + Z.of_nat (length r)) o1).
  { assert (F' : Forall (fun o => o < i + 1 + Z.of_nat (length r)) off) by (eapply Forall_impl; [|exact F]; cbv beta; intros; lia).
    destruct g eqn:G; [|exists off; repeat split; assumption].
    subst g. cbn [negb orb] in G. apply andb_true_iff in G. destruct G as [G G34]. apply andb_true_iff in G. destruct G as [G1 G2].
    apply andb_true_iff in G34. destruct G34 as [G3 G4].
    apply (fill_cells_ok ctx cbeg cend p i (fun o => o < i + 1 + Z.of_nat (length r))); [lia| |assumption].
    intros k Hk. rewrite L. apply (led_pos_between ctx cbeg cend p w k); lia. }
  destruct S1 as (o1 & E1 & L1 & F1). rewrite E1. cbn [bind].
  destruct (IH (i + 1) o1) as (o2 & E2 & L2 & F2); [lia|assumption|lia|].
  exists o2. repeat split; [assumption|lia|].
  eapply Forall_impl; [|exact F2]. cbv beta. intros. lia.
Qed.

Lemma cells_index_ok n : forall off, Forall (fun o => o < n) off -> cells_index n off = Ok tt.
Proof.
  induction off as [|o r IH]; intro F; [reflexivity|]. inversion F; subst. cbn [cells_index].
  destruct (Z.leb_spec 0 o); [rewrite ix_ok by lia|]; cbn [bind]; now apply IH.
Qed.

Lemma led_render_safe ctx cbeg cend cols : cbeg <= cend ->
  exists off, led_render_off ctx cbeg cend true cols = Ok off /\ Z.of_nat (length off) = cend - cbeg /\
              cells_index (Z.of_nat (length cols)) off = Ok tt.
Proof.
  intro H. unfold led_render_off.
  destruct (render_off_ok ctx cbeg cend cols 0 (repeat (-1) (Z.to_nat (cend - cbeg)))) as (off & E & L & F).
  - rewrite repeat_length. lia.
  - apply Forall_forall. intros x Hx. apply repeat_spec in Hx. lia.
  - lia.
  - exists off. split; [assumption|]. split; [rewrite L, repeat_length; lia|]. apply cells_index_ok.
    eapply Forall_impl; [|exact F]. cbv beta. intros. lia.
Qed.

(* ---------------------------------------------------------------------------------------- *)
(* (5) ex_pathexpand; bufs[]                                                                 *)

Lemma pathcap_pos : 2 <= PATHCAP.
Proof. now vm_compute. Qed.

Definition pinv (st : pst) : Prop := 0 <= p_d st.

Lemma p_store_ok st b : pinv st -> p_d st + 1 < PATHCAP -> exists st', p_store st b = Ok st' /\ pinv st'.
Proof.
  unfold pinv, p_store. intros H G. destruct (Z.leb_spec 0 (p_d st)), (Z.ltb_spec (p_d st) PATHCAP); try lia.
  cbn [andb]. eexists; split; [reflexivity|]. cbn. lia.
Qed.

Lemma p_snprintf_ok st p : pinv st -> p_d st + 1 < PATHCAP -> exists st', p_snprintf st p = Ok st' /\ pinv st'.
Proof.
  unfold pinv, p_snprintf. intros H G.
  destruct (Z.ltb_spec (PATHCAP - p_d st) 0); [lia|]. destruct (Z.eqb_spec (PATHCAP - p_d st) 0); [lia|].
  destruct (Z.ltb_spec (p_d st) 0); [lia|].
  destruct (Z.ltb_spec PATHCAP (p_d st + Z.min (Z.of_nat (length p)) (PATHCAP - p_d st - 1) + 1)); [lia|]. cbn [orb].
  eexists; split; [reflexivity|]. cbn. lia.
Qed.

Lemma last_slash_lt : forall p k f r, last_slash p k f = Some r -> (forall x, f = Some x -> x < k) -> 0 <= k ->
  0 <= r < k + Z.of_nat (length p) \/ f = Some r.
Proof.
  induction p as [|b p IH]; intros k f r E Hf Hk; cbn [last_slash] in E; [right; assumption|].
  cbn [length]. destruct (IH _ _ _ E) as [R|R].
  - intros x Hx. destruct (b =? 47)%N; [inversion Hx; lia|specialize (Hf _ Hx); lia].
  - lia.
  - left. lia.
  - destruct (b =? 47)%N; [left; inversion R; lia|right; assumption].
Qed.

Lemma p_eq_branch_ok st p k : p_d st = 0 -> last_slash p 0 None = Some k ->
  exists st', (do st1 <- p_memcpy st p (Z.min k (PATHCAP - p_d st - 2)); p_store st1 47%N) = Ok st' /\ pinv st'.
Proof.
  intros D E. pose proof pathcap_pos as PC.
  assert (R : 0 <= k < 0 + Z.of_nat (length p)).
  { assert (Hf : forall x : Z, @None Z = Some x -> x < 0) by (intros; discriminate).
    destruct (last_slash_lt p 0 None k E Hf (Z.le_refl 0)) as [R|R]; [exact R|discriminate]. }
  unfold p_memcpy. rewrite D.
  destruct (Z.ltb_spec (Z.min k (PATHCAP - 0 - 2)) 0); [lia|]. destruct (Z.ltb_spec 0 0); [lia|].
  destruct (Z.ltb_spec PATHCAP (0 + Z.min k (PATHCAP - 0 - 2))); [lia|]. cbn [orb].
  destruct (Z.ltb_spec (Z.of_nat (length p) + 1) (Z.min k (PATHCAP - 0 - 2))); [lia|]. cbn [bind].
  apply p_store_ok; unfold pinv; cbn [p_d p_out]; lia.
Qed.

Lemma pe_loop_ok cur alt sp : forall fuel s i st, (i <= length s)%nat -> (length s < i + fuel)%nat -> pinv st ->
  exists r, pe_loop cur alt sp fuel s i st = Ok r /\ match r with Some st' => pinv st' | None => True end.
Proof.
  induction fuel as [|f IH]; intros s i st Hi Hf Hst; [lia|]. cbn [pe_loop].
  destruct (rd_ok s i Hi) as (c & Ec & Nc). rewrite Ec. cbn [bind].
  destruct (Z.ltb_spec (p_d st + 1) PATHCAP) as [G|G]; cbn [negb orb]; [|eexists; split; [reflexivity|assumption]].
  destruct (N.eqb_spec c 0) as [C0|C0]; cbn [orb]; [eexists; split; [reflexivity|assumption]|].
  specialize (Nc C0).
  destruct ((c =? 10)%N || (negb sp && ((c =? 32)%N || (c =? 9)%N))); [eexists; split; [reflexivity|assumption]|].
  destruct ((c =? 37)%N || (c =? 35)%N).
  { destruct (if (c =? 35)%N then alt else cur) as [p|]; [|eexists; split; [reflexivity|exact I]].
    destruct (p_snprintf_ok st (match p with [] => [47%N] | _ => p end) Hst G) as (st' & E & I'). rewrite E. cbn [bind].
    apply IH; [lia|lia|assumption]. }
  destruct ((p_d st =? 0) && (c =? 61)%N) eqn:EQ.
  { apply andb_true_iff in EQ. destruct EQ as [D _]. apply Z.eqb_eq in D.
    assert (S1 : exists st', match cur with
                 | Some p => match last_slash p 0 None with
                             | Some k => do st1 <- p_memcpy st p (Z.min k (PATHCAP - p_d st - 2)); p_store st1 47%N
                             | None => Ok st end
                 | None => Ok st end = Ok st' /\ pinv st').
    { destruct cur as [p|]; [|exists st; split; [reflexivity|assumption]].
      destruct (last_slash p 0 None) as [k|] eqn:LS; [|exists st; split; [reflexivity|assumption]].
      now apply p_eq_branch_ok. }
    destruct S1 as (st' & E & I'). rewrite E. cbn [bind]. apply IH; [lia|lia|assumption]. }
  assert (S2 : exists c1, (if (c =? 92)%N then rd s (S i) else Ok 0%N) = Ok c1 /\ ((c =? 92)%N && negb (c1 =? 0)%N = true -> (S i < length s)%nat)).
  { destruct (c =? 92)%N; [|exists 0%N; split; [reflexivity|discriminate]].
    destruct (rd_ok s (S i)) as (c1 & E1 & N1); [lia|]. exists c1. split; [assumption|].
    cbn [andb]. intro T. apply N1. destruct (N.eqb_spec c1 0); [discriminate|assumption]. }
  destruct S2 as (c1 & E1 & N1). rewrite E1. cbn [bind].
  set (i1 := if (c =? 92)%N && negb (c1 =? 0)%N then S i else i).
  assert (Hi1 : (i <= i1 /\ i1 < length s)%nat) by (subst i1; destruct ((c =? 92)%N && negb (c1 =? 0)%N); [specialize (N1 eq_refl)|]; lia).
  destruct (rd_ok s i1) as (b & Eb & _); [lia|]. rewrite Eb. cbn [bind].
  destruct (p_store_ok st b Hst G) as (st' & E & I'). rewrite E. cbn [bind]. apply IH; [lia|lia|assumption].
Qed.

Lemma ex_pathexpand_safe cur alt sp s :
  exists r, ex_pathexpand cur alt sp s = Ok r /\
            match r with Some str => Z.of_nat (length str) < PATHCAP | None => True end.
Proof.
  pose proof pathcap_pos as PC. unfold ex_pathexpand, ex_pathexpand_gen.
  destruct (pe_loop_ok cur alt sp (S (length s)) s 0 (mkP [] 0)) as (r & E & R); [lia|lia|unfold pinv; cbn; lia|].
  rewrite E. cbn [bind]. destruct r as [st|]; [|eexists; split; [reflexivity|exact I]].
  unfold pinv in R. cbn [andb].
  set (d := if PATHCAP <=? p_d st + 1 then PATHCAP - 1 else p_d st).
  assert (0 <= d < PATHCAP) by (subst d; destruct (Z.leb_spec PATHCAP (p_d st + 1)); lia).
  rewrite ixw_ok by assumption. cbn [bind]. eexists; split; [reflexivity|]. cbv beta iota.
  rewrite firstn_length. lia.
Qed.

(* bufs[] *)
Lemma bget_ok t i : 0 <= i < Z.of_nat (length t) -> exists u, bget t i = Ok u.
Proof. intro H. unfold bget. destruct (Z.leb_spec 0 i), (Z.ltb_spec i (Z.of_nat (length t))); try lia. eexists; reflexivity. Qed.

Lemma findroom_from_ok : forall fuel t i, 0 <= i -> i <= Z.of_nat (length t) - 1 -> Z.of_nat (length t) - 1 - i < Z.of_nat fuel ->
  exists r, findroom_from fuel 1 t i = Ok r /\ 0 <= r <= Z.of_nat (length t) - 1.
Proof.
  induction fuel as [|f IH]; intros t i H0 H1 H2; [lia|]. cbn [findroom_from].
  destruct (Z.ltb_spec i (Z.of_nat (length t) - 1)); [|exists i; split; [reflexivity|lia]].
  destruct (bget_ok t i) as (u & E); [lia|]. rewrite E. cbn [bind].
  destruct u; cbn [negb]; [apply IH; lia|exists i; split; [reflexivity|lia]].
Qed.

Lemma bufs_findroom_ok t : (1 <= length t)%nat -> exists r, bufs_findroom t = Ok r /\ 0 <= r < Z.of_nat (length t).
Proof.
  intro H. unfold bufs_findroom, bufs_findroom_gen.
  destruct (findroom_from_ok (S (length t)) t 0) as (r & E & R); [lia|lia|lia|]. exists r. split; [assumption|lia].
Qed.

Lemma bset_ok t i v : 0 <= i < Z.of_nat (length t) -> exists t', bset t i v = Ok t' /\ length t' = length t.
Proof.
  intro H. unfold bset. destruct (Z.leb_spec 0 i), (Z.ltb_spec i (Z.of_nat (length t))); try lia. cbn [andb].
  eexists; split; [reflexivity|]. rewrite app_length, firstn_length. cbn [length]. rewrite skipn_length. lia.
Qed.

Lemma bufs_switch_ok t idx : 0 <= idx < Z.of_nat (length t) -> exists t', bufs_switch t idx = Ok t' /\ length t' = length t.
Proof.
  intro H. unfold bufs_switch. destruct (bget_ok t idx H) as (u & E). rewrite E. cbn [bind].
  destruct (Z.ltb_spec idx 0); [lia|]. destruct (Z.ltb_spec (Z.of_nat (length t)) (1 + idx)); [lia|]. cbn [orb].
  eexists; split; [reflexivity|]. cbn [length]. rewrite app_length, firstn_length, skipn_length. lia.
Qed.

Definition bop_ok (o : bop) : Prop := match o with BSwitch idx => 0 <= idx < NBUFS | _ => True end.

Lemma b_step_ok t o : Z.of_nat (length t) = NBUFS -> bop_ok o -> exists t', b_step_gen 1 t o = Ok t' /\ length t' = length t.
Proof.
  intros L H. assert (1 <= NBUFS) by now vm_compute. destruct o as [|idx|]; cbn [b_step_gen].
  - destruct (bufs_findroom_ok t) as (r & E & R); [lia|]. unfold bufs_findroom in E. rewrite E. cbn [bind].
    destruct (bset_ok t r true R) as (t1 & E1 & L1). rewrite E1. cbn [bind].
    destruct (bufs_switch_ok t1 r) as (t2 & E2 & L2); [lia|]. exists t2. split; [assumption|lia].
  - cbn in H. apply bufs_switch_ok. lia.
  - destruct t as [|u r]; [cbn in L; lia|]. eexists; split; [reflexivity|]. rewrite app_length. cbn. lia.
Qed.

Lemma b_run_ok : forall ops t, Z.of_nat (length t) = NBUFS -> Forall bop_ok ops ->
  exists t', b_run t ops = Ok t' /\ Z.of_nat (length t') = NBUFS.
Proof.
  induction ops as [|o r IH]; intros t L F; [exists t; split; [reflexivity|assumption]|].
  inversion F; subst. unfold b_run. cbn [b_run_gen]. destruct (b_step_ok t o L) as (t1 & E1 & L1); [assumption|].
  rewrite E1. cbn [bind]. apply IH; [lia|assumption].
Qed.

Lemma b_run_from_init ops : Forall bop_ok ops -> exists t', b_run b_init ops = Ok t' /\ Z.of_nat (length t') = NBUFS.
Proof. intro F. apply b_run_ok; [|assumption]. unfold b_init. rewrite repeat_length. vm_compute. reflexivity. Qed.
