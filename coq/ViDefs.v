(* ViDefs.v -- C08: the region rule of vc_motion and the text operations of vi_delete / vi_yank /
   vc_put on the character view of the buffer (MotDefs), with the registers of RegDefs.
   Only definitions.  Not modelled here (explored by the Python reference of tools/props/c08.py
   against the real editor): insert mode (led_input), vi_change, vi_case, vi_shift, vc_join,
   vc_replace, and the key-program interpreter. *)
From Coq Require Import List NArith ZArith Bool.
From NV Require Import Bytes UcDefs UcSpec MotDefs RegDefs.
Import ListNotations.
Local Open Scope Z_scope.

(* strchr("fFtTeE%", mv) *)
Definition incl_key (k : mkey) : bool :=
  match k with Kf _ | KF _ | Kt _ | KT _ | Ke | KE | Kpct => true | _ => false end.

Record region := mk_region { g_r1 : Z; g_o1 : Z; g_r2 : Z; g_o2 : Z; g_ln : bool }.

(* vc_motion after the motion: (r1, o1) = the cursor (o1 already through ren_noeol), (r2, o2) = what
   vi_motionln / vi_motion returned (o2 < 0: line-wise) *)
Definition vc_region (b : buf) (k : mkey) (r1 o1 r2 o2 : Z) : region :=
  let ln := o2 <? 0 in
  let o1 := if ln then 0 else o1 in
  let o2 := if ln then lbuf_eol b r2 else o2 in
  let sw := r2 <? r1 in
  let r1' := if sw then r2 else r1 in
  let o1' := if sw then o2 else o1 in
  let r2' := if sw then r1 else r2 in
  let o2' := if sw then o1 else o2 in
  let sw2 := (r1' =? r2') && (o2' <? o1') in
  let o1'' := if sw2 then o2' else o1' in
  let o2'' := if sw2 then o1' else o2' in
  let o1f := ren_noeol (getl b r1') o1'' in
  let o2f := if negb ln && incl_key k && (o2'' <? lbuf_eol b r2') then ren_noeol (getl b r2') o2'' + 1 else o2'' in
  mk_region r1' o1f r2' o2f ln.

(* uc_sub on a line (character list incl. the terminator): a negative offset means the end *)
Definition sub_l (l : line) (b e : Z) : list chr :=
  let n := slen l in
  let b := if b <? 0 then n else Z.min b n in
  let e := if e <? 0 then n else Z.min e n in
  if b <=? e then firstn (Z.to_nat (e - b)) (skipn (Z.to_nat b) l) else [].
Definition rows_between (b : buf) (r1 r2 : Z) : list line :=     (* lbuf_cp(lb, r1, r2) *)
  firstn (Z.to_nat (r2 - r1)) (skipn (Z.to_nat r1) b).
(* vi.c: lbuf_region, as characters *)
Definition lbuf_region (b : buf) (r1 o1 r2 o2 : Z) : list chr :=
  match getl b r1, getl b r2 with
  | Some l1, Some l2 =>
      if r1 =? r2 then sub_l l1 o1 o2
      else sub_l l1 o1 (-1) ++ concat (rows_between b (r1 + 1) r2) ++ sub_l l2 0 o2
  | _, _ => []
  end.
Definition flat (cs : list chr) : bytes := concat cs.

(* vi_delete, character-wise inside one line / line-wise: new buffer and the register traffic *)
Definition set_row (b : buf) (r : Z) (ls : list line) (n : Z) : buf :=     (* lbuf_edit(lines, r, r + n) *)
  firstn (Z.to_nat r) b ++ ls ++ skipn (Z.to_nat (r + n)) b.
Definition vi_delete (b : buf) (R : regs) (ybuf : N) (g : region) : buf * regs :=
  let txt := if g_ln g then lbuf_region b (g_r1 g) 0 (g_r2 g) (-1) else lbuf_region b (g_r1 g) (g_o1 g) (g_r2 g) (g_o2 g) in
  let R' := reg_put R ybuf (flat txt) (g_ln g) in
  if g_ln g then (set_row b (g_r1 g) [] (g_r2 g - g_r1 g + 1), R')
  else match getl b (g_r1 g), getl b (g_r2 g) with
       | Some l1, Some l2 => (set_row b (g_r1 g) [sub_l l1 0 (g_o1 g) ++ sub_l l2 (g_o2 g) (-1)] (g_r2 g - g_r1 g + 1), R')
       | _, _ => (b, R')
       end.
Definition vi_yank (b : buf) (R : regs) (ybuf : N) (g : region) : regs :=
  let txt := if g_ln g then lbuf_region b (g_r1 g) 0 (g_r2 g) (-1) else lbuf_region b (g_r1 g) (g_o1 g) (g_r2 g) (g_o2 g) in
  reg_put R ybuf (flat txt) (g_ln g).
(* vc_put of text given as characters / lines (count 1): P of character-wise text at offset off,
   P of line-wise text at row r *)
Definition put_chars (b : buf) (r off : Z) (txt : list chr) : buf :=
  match getl b r with
  | Some l => set_row b r [sub_l l 0 off ++ txt ++ sub_l l off (-1)] 1
  | None => b
  end.
Definition put_lines (b : buf) (r : Z) (ls : list line) : buf := set_row b r ls 0.

(* valid UTF-8 on the character view: every character is the encoding of one scalar value *)
Definition chr_valid (c : chr) : Prop := exists k, scalar k /\ c = encode k.
Definition line_valid (l : line) : Prop := Forall chr_valid l.
Definition buf_valid (b : buf) : Prop := Forall line_valid b.
