(* ViDefs.v -- C08: the region rule of vc_motion and the text operations of vi_delete / vi_yank /
   vc_put on the character view of the buffer (MotDefs), with the registers of RegDefs.
   Second half: the interpreter [exec] of key programs -- mirror of vc_motion, vi_yank, vi_delete,
   vi_change, vi_case, vi_shift, vc_put, vc_join, vc_replace, vc_insert (vi.c) and of led_input /
   led_line (led.c: keys ^H DEL ^U ^W ^T ^D ^V ^P ^R, autoindent on) over the state (buffer, cursor state of
   MotDefs, registers of RegDefs).  Text handed to lbuf_edit is cut into lines on the character
   view (split_text); for valid UTF-8 that is the byte-wise cut of lbuf_replace.
   Not modelled: the ! filter, u, ., marks, searches, insert-mode keys ^K ^A ^F ^E (and ^V before a newline or a multi-byte character),
   keymaps other than 0, the ai option switched off.  Only definitions. *)
From Coq Require Import List NArith ZArith Bool.
From NV Require Import Bytes UcDefs UcSpec MotDefs RegDefs.
Import ListNotations.
Local Open Scope Z_scope.

(* strchr("fFtTeE%", mv) *)
Definition incl_key (k : mkey) : bool :=
  match k with Kf _ | KF _ | Kt _ | KT _ | Ke | KE | Kpct => true | _ => false end.

Record region := mk_region { g_r1 : Z; g_o1 : Z; g_r2 : Z; g_o2 : Z; g_ln : bool }.

(* vc_motion after the motion: (r1, o1) = the cursor (o1 already through ren_noeol), (r2, o2) = what
   vi_motionln / vi_motion returned (o2 < 0: line-wise) *)
Definition vc_region (b : buf) (k : mkey) (r1 o1 r2 o2 : Z) : region :=
  let ln := o2 <? 0 in
  let o1 := if ln then 0 else o1 in
  let o2 := if ln then lbuf_eol b r2 else o2 in
  let sw := r2 <? r1 in
  let r1' := if sw then r2 else r1 in
  let o1' := if sw then o2 else o1 in
  let r2' := if sw then r1 else r2 in
  let o2' := if sw then o1 else o2 in
  let sw2 := (r1' =? r2') && (o2' <? o1') in
  let o1'' := if sw2 then o2' else o1' in
  let o2'' := if sw2 then o1' else o2' in
  let o1f := ren_noeol (getl b r1') o1'' in
  let o2f := if negb ln && incl_key k && (o2'' <? lbuf_eol b r2') then ren_noeol (getl b r2') o2'' + 1 else o2'' in
  mk_region r1' o1f r2' o2f ln.

(* uc_sub on a line (character list incl. the terminator): a negative offset means the end *)
Definition sub_l (l : line) (b e : Z) : list chr :=
  let n := slen l in
  let b := if b <? 0 then n else Z.min b n in
  let e := if e <? 0 then n else Z.min e n in
  if b <=? e then firstn (Z.to_nat (e - b)) (skipn (Z.to_nat b) l) else [].
Definition rows_between (b : buf) (r1 r2 : Z) : list line :=     (* lbuf_cp(lb, r1, r2) *)
  firstn (Z.to_nat (r2 - r1)) (skipn (Z.to_nat r1) b).
(* vi.c: lbuf_region, as characters *)
Definition lbuf_region (b : buf) (r1 o1 r2 o2 : Z) : list chr :=
  match getl b r1, getl b r2 with
  | Some l1, Some l2 =>
      if r1 =? r2 then sub_l l1 o1 o2
      else sub_l l1 o1 (-1) ++ concat (rows_between b (r1 + 1) r2) ++ sub_l l2 0 o2
  | _, _ => []
  end.
Definition flat (cs : list chr) : bytes := concat cs.

Definition set_row (b : buf) (r : Z) (ls : list line) (n : Z) : buf :=     (* lbuf_edit(lines, r, r + n) *)
  firstn (Z.to_nat r) b ++ ls ++ skipn (Z.to_nat (r + n)) b.
Definition vi_yank (b : buf) (R : regs) (ybuf : N) (g : region) : regs :=
  let txt := if g_ln g then lbuf_region b (g_r1 g) 0 (g_r2 g) (-1) else lbuf_region b (g_r1 g) (g_o1 g) (g_r2 g) (g_o2 g) in
  reg_put R ybuf (flat txt) (g_ln g).
(* vc_put of text given as characters / lines (count 1): P of character-wise text at offset off,
   P of line-wise text at row r *)
Definition put_chars (b : buf) (r off : Z) (txt : list chr) : buf :=
  match getl b r with
  | Some l => set_row b r [sub_l l 0 off ++ txt ++ sub_l l off (-1)] 1
  | None => b
  end.
Definition put_lines (b : buf) (r : Z) (ls : list line) : buf := set_row b r ls 0.

(* valid UTF-8 on the character view: every character is the encoding of one scalar value *)
Definition chr_valid (c : chr) : Prop := exists k, scalar k /\ c = encode k.
Definition line_valid (l : line) : Prop := Forall chr_valid l.
Definition buf_valid (b : buf) : Prop := Forall line_valid b.

(* ====================================================================================== *)
(* the interpreter of key programs                                                          *)
(* ====================================================================================== *)
Definition nlc : chr := [10%N].
Definition is_nlb (c : chr) : bool := N.eqb (b0 c) 10.                       (* s[0] == '\n' *)
Definition is_blankc (c : chr) : bool := N.eqb (b0 c) 32 || N.eqb (b0 c) 9.  (* s[0] == ' ' || s[0] == '\t' *)
Definition is_nil {A} (l : list A) : bool := match l with [] => true | _ => false end.
Definition optl (ol : option line) : line := match ol with Some l => l | None => [] end.   (* uc_sub(NULL, ..) = "" *)

(* lbuf_replace: the text is cut after every "\n"; a last piece without terminator gets one *)
Fixpoint split_text (t : list chr) : list line :=
  match t with
  | [] => []
  | c :: r => if is_nlb c then [c] :: split_text r
              else match split_text r with
                   | [] => [[c; nlc]]
                   | l :: ls => (c :: l) :: ls
                   end
  end.
(* lbuf.c: lbuf_edit (None = NULL) *)
Definition lbuf_edit (b : buf) (t : option (list chr)) (beg en : Z) : buf :=
  let n := blen b in
  let beg := Z.min beg n in
  let en := Z.min en n in
  match t with
  | None => if beg =? en then b else set_row b beg [] (en - beg)
  | Some t => set_row b beg (split_text t) (en - beg)
  end.
(* vi_delete: new buffer and the register traffic *)
Definition vi_delete (b : buf) (R : regs) (ybuf : N) (g : region) : buf * regs :=
  let txt := if g_ln g then lbuf_region b (g_r1 g) 0 (g_r2 g) (-1) else lbuf_region b (g_r1 g) (g_o1 g) (g_r2 g) (g_o2 g) in
  let R' := reg_put R ybuf (flat txt) (g_ln g) in
  if g_ln g then (lbuf_edit b None (g_r1 g) (g_r2 g + 1), R')
  else (lbuf_edit b (Some (sub_l (optl (getl b (g_r1 g))) 0 (g_o1 g) ++ sub_l (optl (getl b (g_r2 g))) (g_o2 g) (-1)))
                  (g_r1 g) (g_r2 g + 1), R').
Definition count_nl (t : list chr) : Z := Z.of_nat (length (filter is_nlb t)).
(* vi.c: linecount(s) - 1 for a non-NULL s = the number of newlines *)

Fixpoint span_blank (l : list chr) : list chr * list chr :=
  match l with
  | c :: r => if is_blankc c then let (a, z) := span_blank r in (c :: a, z) else ([], l)
  | [] => ([], [])
  end.
Fixpoint span_blank_n (n : nat) (l : list chr) : list chr * list chr :=
  match n with
  | O => ([], l)
  | S n' => match l with
            | c :: r => if is_blankc c then let (a, z) := span_blank_n n' r in (c :: a, z) else ([], l)
            | [] => ([], [])
            end
  end.
(* vi.c: vi_indents (xai = 1) *)
Definition vi_indents (ol : option line) : list chr := fst (span_blank (optl ol)).

(* ---------- led.c ---------- *)
Definition ai_max : nat := 127.                      (* char ai[128] of led_input *)
(* led_lastword: index where the last word of the typed text starts *)
Fixpoint lw_space (sb : list chr) (r : nat) : nat :=
  match r with O => O | S r' => if uc_isspace (nth r sb []) then lw_space sb r' else r end.
Fixpoint lw_kind (sb : list chr) (kind : N) (r : nat) : nat :=
  match r with O => O | S r' => if N.eqb (uc_kind (nth r' sb [])) kind then lw_kind sb kind r' else r end.
Definition led_lastword (sb : list chr) : nat :=
  match sb with
  | [] => O
  | _ => let r := lw_space sb (length sb - 1) in
         let kind := match r with O => 0%N | _ => uc_kind (nth r sb []) end in
         lw_kind sb kind r
  end.
(* one key of led_line; state = (typed text of this line, autoindent buffer, pending key: 0 none, 1 = the
   byte after ^V, 2 = the register name after ^R).  ^V takes the next key literally (modelled for a single-byte
   key other than newline), ^P appends the unnamed register, ^R x the register x (may contain newlines) *)
Definition lstate := (list chr * list chr * N)%type.
Definition reg_chars (R : regs) (c : N) : list chr := match reg_get R c with Some (t, _) => chop t | None => [] end.
Definition led_key (R : regs) (pref_empty : bool) (st : lstate) (k : chr) : lstate :=
  let '(sb, ai, pend) := st in
  let c := b0 k in
  if N.eqb pend 1 then (sb ++ [k], ai, 0%N)                                  (* led_readchar after ^V *)
  else if N.eqb pend 2 then (sb ++ (if N.eqb c 0 then [] else reg_chars R c), ai, 0%N)      (* ^R x *)
  else if N.eqb c 8 || N.eqb c 127 then (removelast sb, ai, 0%N)            (* ^H DEL: sbuf_cut(led_lastchar) *)
  else if N.eqb c 21 then ([], ai, 0%N)                                      (* ^U *)
  else if N.eqb c 23 then (firstn (led_lastword sb) sb, ai, 0%N)             (* ^W *)
  else if N.eqb c 20 then (sb, (if Nat.ltb (length ai) ai_max then ai ++ [[9%N]] else ai), 0%N)     (* ^T *)
  else if N.eqb c 4 then                                                      (* ^D *)
    ((if is_nil ai && pref_empty then match sb with c0 :: r => if is_blankc c0 then r else sb | [] => sb end else sb),
     removelast ai, 0%N)
  else if N.eqb c 22 then (sb, ai, 1%N)                                       (* ^V *)
  else if N.eqb c 18 then (sb, ai, 2%N)                                       (* ^R *)
  else if N.eqb c 16 then (sb ++ reg_chars R 0, ai, 0%N)                      (* ^P *)
  else (sb ++ [k], ai, 0%N).
Definition led_line (R : regs) (pref_empty : bool) (keys : list chr) (ai : list chr) : list chr * list chr :=
  fst (fold_left (led_key R pref_empty) keys ([], ai, 0%N)).

(* the typed keys of one insert, cut at the newline keys (never empty) *)
Fixpoint split_typed (t : list chr) : list (list chr) :=
  match t with
  | [] => [[]]
  | k :: r => if is_nlb k then [] :: split_typed r
              else match split_typed r with
                   | s :: ss => (k :: s) :: ss
                   | [] => [[k]]
                   end
  end.
(* led_input: the loop; returns the replacement text, post as it is at the end (its leading blanks are
   stripped after every newline) and the number of nextline() calls (lncnt summed) *)
Fixpoint led_loop (R : regs) (segs : list (list chr)) (pref post ai acc : list chr) (nls : nat) {struct segs}
  : list chr * list chr * nat :=
  match segs with
  | [] => (acc ++ post, post, nls)
  | seg :: rest =>
      let '(ln, ai) := led_line R (is_nil pref) seg ai in
      let sp := length (fst (span_blank ln)) in
      let last := is_nil rest in
      let use_ai := negb (Nat.eqb (length ln) sp) || negb (is_nil pref)
                    || (last && match post with c :: _ => negb (is_nlb c) | [] => false end) in
      let acc := acc ++ (if use_ai then ai else []) ++ pref ++ ln ++ (if last then [] else [nlc]) in
      let nls := (nls + length (filter is_nlb ln) + (if last then 0 else 1))%nat in
      let ai := if is_nil pref then ai ++ firstn (Nat.min sp (ai_max - length ai)) ln else ai in
      if last then (acc ++ post, post, nls)
      else led_loop R rest [] (snd (span_blank post)) ai acc nls
  end.
Definition led_input (R : regs) (pref post typed : list chr) : list chr * list chr * nat :=
  let (ai, pref') := span_blank_n ai_max pref in
  led_loop R (split_typed typed) pref' post ai [] 0%nat.

(* vi.c: charcount(text, post) for text = head ++ post: the characters of head after its last newline *)
Definition charcount (text post : list chr) : Z :=
  if slen text <? slen post then 0
  else fold_left (fun n c => if is_nlb c then 0 else n + 1) (firstn (length text - length post) text) 0.
(* vi.c: vi_nextline, n times, on (xrow, xtop) *)
Fixpoint nextlines (rows : Z) (n : nat) (rt : Z * Z) : Z * Z :=
  match n with
  | O => rt
  | S n' => let (r, t) := rt in nextlines rows n' (if r =? t + rows - 1 then (r + 1, t + 1) else (r + 1, t))
  end.
(* vi.c: vi_input: replacement, row = linecount(rep) - 1, off = max 0 (charcount - 1), newline keys typed *)
Definition vi_input (R : regs) (pref post typed : list chr) : list chr * Z * Z * nat :=
  let '(rep, post', nls) := led_input R pref post typed in
  (rep, count_nl rep, Z.max 0 (charcount rep post' - 1), nls).

(* ---------- the state ---------- *)
Record est := mk_est { s_buf : buf; s_vs : vst; s_regs : regs }.
Definition vs_pos (s : vst) (r o : Z) : vst := mk_vst r o (v_col s) (v_top s) (v_cl s) (v_cc s) (v_pcol s).
Definition vs_top (s : vst) (t : Z) : vst := mk_vst (v_row s) (v_off s) (v_col s) t (v_cl s) (v_cc s) (v_pcol s).
Definition vs_col (s : vst) (c : Z) : vst := mk_vst (v_row s) (v_off s) c (v_top s) (v_cl s) (v_cc s) (v_pcol s).
Definition vs_mot (s : vst) (cl : chr) (cc : N) (pc : Z) : vst := mk_vst (v_row s) (v_off s) (v_col s) (v_top s) cl cc pc.
(* the end of one round of vi(): vi_wfix; if (mod) xcol = vi_off2col(xb, xrow, xoff) *)
Definition finish (rows : Z) (b : buf) (R : regs) (s : vst) (md : bool) : est :=
  let s1 := vi_wfix b rows s in
  mk_est b (if md then vs_col s1 (vi_off2col b (v_row s1) (v_off s1)) else s1) R.

(* ---------- vc_motion ---------- *)
Inductive okey := Od | Oy | Oc | Olt | Ogt | Otilde | Ogu | OgU.
Inductive tgt := TMot (k : mkey) | TDbl.             (* a motion key, or the operator key doubled *)
Inductive tres := TFuel | TFail (cl : chr) (cc : N) | TOk (k : mkey) (r2 o2 : Z) (cl : chr) (cc : N) (pc : Z).
Definition op_target (b : buf) (rows : Z) (s : vst) (a1 a2 : Z) (t : tgt) (o1 : Z) : tres :=
  let cnt := (if a1 =? 0 then 1 else a1) * (if a2 =? 0 then 1 else a2) in
  let has := negb (a1 =? 0) || negb (a2 =? 0) in
  match t with
  | TDbl => let r := Z.min (v_row s + cnt - 1) (blen b - 1) in
            TOk Kunder (if r <? 0 then 0 else r) (-1) (v_cl s) (v_cc s) (v_pcol s)
  | TMot k => match vi_motion b rows (v_top s) (v_cl s) (v_cc s) (v_pcol s) has cnt k (v_row s) o1 with
              | MvFuel => TFuel
              | MvFail cl cc => TFail cl cc
              | MvOk r o cl cc pc => TOk k r o cl cc pc
              end
  end.
Definition region_text (b : buf) (g : region) : list chr :=
  if g_ln g then lbuf_region b (g_r1 g) 0 (g_r2 g) (-1) else lbuf_region b (g_r1 g) (g_o1 g) (g_r2 g) (g_o2 g).

(* vi_change *)
Definition vi_change (rows : Z) (b : buf) (R : regs) (s : vst) (ybuf : N) (g : region) (typed : list chr) : est :=
  let R' := reg_put R ybuf (flat (region_text b g)) (g_ln g) in
  let pref := if g_ln g then vi_indents (getl b (g_r1 g)) else sub_l (optl (getl b (g_r1 g))) 0 (g_o1 g) in
  let post := if g_ln g || (blen b =? 0) then [nlc] else sub_l (optl (getl b (g_r2 g))) (g_o2 g) (-1) in
  let '(rep, row, off, nls) := vi_input R' pref post typed in       (* ^P / ^R see the register just written *)
  let top' := snd (nextlines rows nls (g_r1 g, v_top s)) in
  let b' := lbuf_edit b (Some rep) (g_r1 g) (g_r2 g + 1) in
  finish rows b' R' (vs_top (vs_pos s (g_r1 g + row - 1) off) top') true.

(* vi_case *)
Definition c_toupper (c : N) : N := if c_islower c then (c - 32)%N else c.
Definition case_chr (op : okey) (c : chr) : chr :=
  match c with
  | x :: r => if (x <=? 127)%N
              then (match op with
                    | Ogu => c_tolower x
                    | OgU => c_toupper x
                    | _ => if c_islower x then c_toupper x else c_tolower x
                    end) :: r
              else c
  | [] => c
  end.
Definition vi_case (rows : Z) (b : buf) (R : regs) (s : vst) (g : region) (op : okey) : est :=
  let reg := map (case_chr op) (region_text b g) in
  let b' := if g_ln g then lbuf_edit b (Some reg) (g_r1 g) (g_r2 g + 1)
            else lbuf_edit b (Some (sub_l (optl (getl b (g_r1 g))) 0 (g_o1 g) ++ reg ++ sub_l (optl (getl b (g_r2 g))) (g_o2 g) (-1)))
                           (g_r1 g) (g_r2 g + 1) in
  finish rows b' R (vs_pos s (g_r2 g) (if g_ln g then lbuf_indents b' (g_r2 g) else g_o2 g)) true.

(* vi_shift *)
Definition shift_line (right : bool) (l : line) : list chr :=
  if right then (match l with c :: _ => if is_nlb c then l else [9%N] :: l | [] => l end)
  else match l with c :: r => if is_blankc c then r else l | [] => l end.
Fixpoint shift_rows (right : bool) (n : nat) (i : Z) (b : buf) : buf :=
  match n with
  | O => b
  | S n' => shift_rows right n' (i + 1)
              (match getl b i with Some l => lbuf_edit b (Some (shift_line right l)) i (i + 1) | None => b end)
  end.
Definition vi_shift (rows : Z) (b : buf) (R : regs) (s : vst) (g : region) (right : bool) : est :=
  let b' := shift_rows right (Z.to_nat (g_r2 g - g_r1 g + 1)) (g_r1 g) b in
  finish rows b' R (vs_pos s (g_r1 g) (lbuf_indents b' (g_r1 g))) true.

(* vc_motion(cmd): ybuf = register name (0 = none), a1 a2 = the two counts (0 = none) *)
Definition exec_op (rows : Z) (e : est) (ybuf : N) (a1 : Z) (op : okey) (a2 : Z) (t : tgt) (typed : list chr) : option est :=
  let b := s_buf e in let s := s_vs e in let R := s_regs e in
  let o1 := ren_noeol (getl b (v_row s)) (v_off s) in
  match op_target b rows s a1 a2 t o1 with
  | TFuel => None
  | TFail cl cc => Some (finish rows b R (vs_mot s cl cc (v_pcol s)) false)
  | TOk k r2 o2 cl cc pc =>
      let s := vs_mot s cl cc pc in
      let g := vc_region b k (v_row s) o1 r2 o2 in
      Some (match op with
            | Oy => finish rows b (vi_yank b R ybuf g) (vs_pos s (g_r1 g) (if g_ln g then v_off s else g_o1 g))
                           (negb (g_ln g && (v_row s =? g_r1 g)))
                    (* vi_yank: if (lnmode && xrow == r1) return 0; ... return VC_COL *)
            | Od => let (b', R') := vi_delete b R ybuf g in
                    finish rows b' R' (vs_pos s (g_r1 g) (if g_ln g then lbuf_indents b' (g_r1 g) else g_o1 g)) true
            | Oc => vi_change rows b R s ybuf g typed
            | Olt => vi_shift rows b R s g false
            | Ogt => vi_shift rows b R s g true
            | Otilde | Ogu | OgU => vi_case rows b R s g op
            end)
  end.

(* vc_put *)
Fixpoint repeat_app {A} (n : nat) (x : list A) : list A := match n with O => [] | S n' => x ++ repeat_app n' x end.
Definition exec_put (rows : Z) (e : est) (ybuf : N) (a1 : Z) (after : bool) : est :=
  let b := s_buf e in let s := s_vs e in let R := s_regs e in
  let cnt := Z.to_nat (Z.max 1 a1) in
  match reg_get R ybuf with
  | None => finish rows b R s false
  | Some ([], _) => finish rows b R s false
  | Some (txt, true) =>
      let t := repeat_app cnt (chop txt) in
      let b1 := if blen b =? 0 then lbuf_edit b (Some [nlc]) 0 0 else b in
      let row := if after then v_row s + 1 else v_row s in
      let b' := lbuf_edit b1 (Some t) row row in
      finish rows b' R (vs_pos s row (lbuf_indents b' row)) true
  | Some (txt, false) =>
      let ct := chop txt in
      let ln := if v_row s <? blen b then optl (getl b (v_row s)) else [nlc] in
      let off := ren_noeol (Some ln) (v_off s) + (if negb (is_nlb (chr_at ln 0)) && after then 1 else 0) in
      let t := sub_l ln 0 off ++ repeat_app cnt ct ++ sub_l ln off (-1) in
      let b' := lbuf_edit b (Some t) (v_row s) (v_row s + 1) in
      finish rows b' R (vs_pos s (v_row s) (off + slen ct * Z.of_nat cnt - 1)) true
  end.

(* vc_join *)
Definition body_of (l : line) : list chr := removelast l.         (* sbuf_mem(sb, ln, lnend - ln) of a terminated line *)
Definition last_byte (t : list chr) : N := last (last t []) 0%N.
Definition join_spaces (prev next : list chr) : nat :=
  if is_nil prev then 0%nat
  else if N.eqb (last_byte prev) 32 || N.eqb (b0 (hd [] next)) 41 then 0%nat
  else if N.eqb (last_byte prev) 46 then 2%nat else 1%nat.
Fixpoint join_loop (ls : list line) (first : bool) (sb : list chr) (off : Z) : list chr * Z :=
  match ls with
  | [] => (sb, off)
  | l :: r =>
      let ln := if first then l else snd (span_blank l) in
      let spaces := if first then 0%nat else join_spaces sb ln in
      join_loop r false (sb ++ repeat [32%N] spaces ++ body_of ln) (slen sb)
  end.
Definition exec_join (rows : Z) (e : est) (a1 : Z) : est :=
  let b := s_buf e in let s := s_vs e in let R := s_regs e in
  let cnt := if a1 <=? 1 then 2 else a1 in
  let beg := v_row s in
  let en := v_row s + cnt in
  match getl b beg, getl b (en - 1) with
  | Some _, Some _ =>
      let (sb, off) := join_loop (rows_between b beg en) true [] 0 in
      let b' := lbuf_edit b (Some (sb ++ [nlc])) beg en in
      finish rows b' R (vs_pos s (v_row s) off) true
  | _, _ => finish rows b R s false
  end.

(* vc_replace *)
Definition exec_replace (rows : Z) (e : est) (a1 : Z) (cs : chr) : est :=
  let b := s_buf e in let s := s_vs e in let R := s_regs e in
  let cnt := Z.max 1 a1 in
  match getl b (v_row s) with
  | None => finish rows b R s false
  | Some ln =>
      let off := ren_noeol (Some ln) (v_off s) in
      let span := firstn (Z.to_nat cnt) (skipn (Z.to_nat off) ln) in
      if negb (forallb (fun c => negb (is_nlb c)) span) || (slen span <? cnt) then finish rows b R s false
      else
        let t := sub_l ln 0 off ++ repeat_app (Z.to_nat cnt) [cs] ++ sub_l ln (off + cnt) (-1) in
        let b' := lbuf_edit b (Some t) (v_row s) (v_row s + 1) in
        if is_nlb cs then finish rows b' R (vs_pos s (v_row s + cnt) 0) true
        else finish rows b' R (vs_pos s (v_row s) (off + cnt - 1)) true
  end.

(* vc_insert *)
Inductive ikey := Ii | Ia | II | IA | Io | IO.
Definition is_oO (k : ikey) : bool := match k with Io | IO => true | _ => false end.
Definition exec_insert (rows : Z) (e : est) (k : ikey) (typed : list chr) : est :=
  let b := s_buf e in let s := s_vs e in let R := s_regs e in
  let oln := getl b (v_row s) in
  let xoff := match k with II => lbuf_indents b (v_row s) | IA => lbuf_eol b (v_row s) | _ => v_off s end in
  let xoff := ren_noeol oln xoff in
  let rt := match k with Io => nextlines rows 1 (v_row s, v_top s) | _ => (v_row s, v_top s) end in
  let off := match k with Ii | II => xoff | Ia | IA => xoff + 1 | _ => 0 end in
  let off := match oln with Some (c :: _) => if is_nlb c then 0 else off | _ => off end in
  let line_ins := match oln with Some _ => negb (is_oO k) | None => false end in
  let pref := if line_ins then sub_l (optl oln) 0 off else vi_indents oln in
  let post := if line_ins then sub_l (optl oln) off (-1) else [nlc] in
  let '(rep, row, off', nls) := vi_input R pref post typed in
  let (xrow, top') := nextlines rows nls rt in
  let b1 := if is_oO k && (blen b =? 0) then lbuf_edit b (Some [nlc]) 0 0 else b in
  let beg := xrow - row + 1 in
  let b' := lbuf_edit b1 (Some rep) beg (beg + (if is_oO k then 0 else 1)) in
  finish rows b' R (vs_top (vs_pos s xrow off') top') true.

(* ---------- key programs ---------- *)
Inductive cmd :=
| CGoto (n : Z)
| CMot (cnt : Z) (k : mkey)
| COp (reg : N) (a1 : Z) (op : okey) (a2 : Z) (t : tgt) (typed : list chr)
| CPut (reg : N) (cnt : Z) (after : bool)
| CJoin (cnt : Z)
| CReplace (cnt : Z) (c : chr)
| CIns (k : ikey) (typed : list chr).
(* x X D C s S Y ~ push a key back and call vc_motion *)
Definition c_x (reg : N) (cnt : Z) : cmd := COp reg cnt Od 0 (TMot Kspace) [].
Definition c_X (reg : N) (cnt : Z) : cmd := COp reg cnt Od 0 (TMot Kbs) [].
Definition c_D (reg : N) (cnt : Z) : cmd := COp reg cnt Od 0 (TMot Kdollar) [].
Definition c_C (reg : N) (cnt : Z) (typed : list chr) : cmd := COp reg cnt Oc 0 (TMot Kdollar) typed.
Definition c_s (reg : N) (cnt : Z) (typed : list chr) : cmd := COp reg cnt Oc 0 (TMot Kspace) typed.
Definition c_S (reg : N) (cnt : Z) (typed : list chr) : cmd := COp reg cnt Oc 0 TDbl typed.
Definition c_Y (reg : N) (cnt : Z) : cmd := COp reg cnt Oy 0 TDbl [].
Definition c_tilde (cnt : Z) : cmd := COp 0%N cnt Otilde 0 (TMot Kspace) [].

Definition exec1 (rows : Z) (c : cmd) (e : est) : option est :=
  match c with
  | CGoto n => Some (mk_est (s_buf e) (do_goto (s_buf e) rows n (s_vs e)) (s_regs e))
  | CMot cnt k => match do_motion (s_buf e) rows cnt 0 k (s_vs e) with
                  | Some s' => Some (mk_est (s_buf e) s' (s_regs e))
                  | None => None
                  end
  | COp reg a1 op a2 t typed => exec_op rows e reg a1 op a2 t typed
  | CPut reg cnt after => Some (exec_put rows e reg cnt after)
  | CJoin cnt => Some (exec_join rows e cnt)
  | CReplace cnt c => Some (exec_replace rows e cnt c)
  | CIns k typed => Some (exec_insert rows e k typed)
  end.
Fixpoint exec (rows : Z) (cs : list cmd) (e : est) : option est :=
  match cs with
  | [] => Some e
  | c :: r => match exec1 rows c e with Some e' => exec rows r e' | None => None end
  end.
Definition init_est (b : buf) : est := mk_est b init_vst regs0.
Definition exec_prog (b : buf) (rows : Z) (cs : list cmd) : option est := exec rows cs (init_est b).

(* ---------- reference vocabulary of the C08 theorems ---------- *)
(* buffer order on positions *)
Definition lex_le (r1 o1 r2 o2 : Z) : Prop := r1 < r2 \/ (r1 = r2 /\ o1 <= o2).
Definition lex_leb (r1 o1 r2 o2 : Z) : bool := (r1 <? r2) || ((r1 =? r2) && (o1 <=? o2)).

(* the two ends of a character-wise region in buffer order *)
Definition ends (r1 o1 r2 o2 : Z) : Z * Z * Z * Z :=
  if lex_leb r1 o1 r2 o2 then (r1, o1, r2, o2) else (r2, o2, r1, o1).
(* the region vc_motion must hand to the operator for the cursor (r1, o1) and the motion target (r2, o2)
   (o2 < 0: a line motion): line-wise = whole lines min..max; character-wise = from the earlier end
   (passed through ren_noeol) to the later end, one character further for f F t T e E % unless the
   later end is already at the end of its line; ordered *)
Definition region_spec (b : buf) (k : mkey) (r1 o1 r2 o2 : Z) (g : region) : Prop :=
  (o2 < 0 -> g_ln g = true /\ g_r1 g = Z.min r1 r2 /\ g_r2 g = Z.max r1 r2) /\
  (0 <= o2 ->
     let '(ra, oa, rb, ob) := ends r1 o1 r2 o2 in
     g_ln g = false /\ g_r1 g = ra /\ g_r2 g = rb /\
     g_o1 g = ren_noeol (getl b ra) oa /\
     g_o2 g = (if incl_key k && (ob <? lbuf_eol b rb) then ob + 1 else ob) /\
     lex_le (g_r1 g) (g_o1 g) (g_r2 g) (g_o2 g)).
(* a register name that reg_put stores under itself: not upper case (append) and not the double quote *)
Definition plain_reg (y : N) : Prop := c_isupper y = false /\ y <> 34%N.
(* valid UTF-8 of a whole state and of the typed text of a program (C08_utf8) *)
Definition regs_valid (R : regs) : Prop := forall c t ln, R c = Some (t, ln) -> valid t.
Definition est_valid (e : est) : Prop := buf_valid (s_buf e) /\ regs_valid (s_regs e).
Definition cmd_valid (c : cmd) : Prop :=
  match c with
  | COp _ _ _ _ _ typed => line_valid typed
  | CReplace _ c => chr_valid c
  | CIns _ typed => line_valid typed
  | _ => True
  end.

(* ---------- a smaller declarative reference for the deletes inside the cursor line (C08_refines_partial) ---------- *)
(* the cursor line is body ++ ["\n"], the cursor offset is o, n = max 1 count; [a, z) = the span of the
   body that x / X / D remove *)
Inductive lkey := Lx | LX | LD.
Definition ref_span (k : lkey) (n o len : Z) : Z * Z :=
  match k with
  | Lx => (o, Z.min (o + n) len)
  | LX => (Z.max (o - n) 0, o)
  | LD => (o, len)
  end.
(* new body and deleted text *)
Definition ref_line_delete (body : list chr) (a z : Z) : list chr * list chr :=
  (firstn (Z.to_nat a) body ++ skipn (Z.to_nat z) body, firstn (Z.to_nat (z - a)) (skipn (Z.to_nat a) body)).
Definition lcmd (k : lkey) (y : N) (cnt : Z) : cmd :=
  match k with Lx => c_x y cnt | LX => c_X y cnt | LD => c_D y cnt end.
(* ~ with a count flips the case of the span x would delete; r<c> with a count replaces n characters when
   they exist; the results as line bodies *)
Definition ref_tilde (body : list chr) (a z : Z) : list chr :=
  firstn (Z.to_nat a) body ++ map (case_chr Otilde) (firstn (Z.to_nat (z - a)) (skipn (Z.to_nat a) body)) ++ skipn (Z.to_nat z) body.
Definition ref_replace (body : list chr) (o n : Z) (c : chr) : list chr :=
  firstn (Z.to_nat o) body ++ repeat c (Z.to_nat n) ++ skipn (Z.to_nat (o + n)) body.
(* p / P: where the text of a character-wise register goes in the cursor line (after the cursor character for p,
   unless the line is empty), and the row where the lines of a line-wise register go *)
Definition ref_put_off (body : list chr) (o : Z) (after : bool) : Z := if after && negb (is_nil body) then o + 1 else o.
Definition ref_put_row (r : Z) (after : bool) : Z := if after then r + 1 else r.
(* a typed key that is plain text for the modelled insert mode: none of ^H DEL ^U ^W ^T ^D ^V ^R ^P and not a newline *)
Definition plain_key (k : chr) : bool := negb (existsb (N.eqb (b0 k)) [8; 127; 21; 23; 20; 4; 22; 18; 16; 10]%N).
(* where i / a start inserting in the cursor line *)
Definition ref_ins_off (body : list chr) (o : Z) (append : bool) : Z := if append && negb (is_nil body) then o + 1 else o.
(* the invariant of the interpreter's states: valid UTF-8 (buffer and registers), every line well formed (one
   terminator, at the end), the cursor on an existing character (C07's cursor_ok) *)
Definition est_inv (e : est) : Prop :=
  est_valid e /\ buf_wf (s_buf e) /\ cursor_ok (s_buf e) (v_row (s_vs e)) (v_off (s_vs e)).
