(* CapDefs4.v -- C05, fourth part: what ex.c replace() reads.  No proofs here.
   Same conventions as CapDefs.v: a C string is the list of its bytes with an implicit terminator; a load outside an object
   is the distinct result OobRd.

     ex.c    replace(dst, rep, ln, offs): the replacement text of :s is copied to a growing buffer; `\d` copies
             memcpy(.., ln + offs[2d], offs[2d + 1] - offs[2d]) -- pointer and length come from the group offsets that the
             matcher handed to ec_substitute in int offs[32]; every other `\c` copies c, a lone trailing backslash itself.

   The pointer `rep` is the suffix of the list still to be read (rep[1] == 0 <-> the tail is empty), so the loads from rep
   are inside the string by construction; the loads that depend on DATA are the two from offs[] and the range of ln.
   memcpy with length 0 reads nothing (an unset group has offsets -1, -1); a negative length is a huge size_t, a range that
   is not inside the line and its terminator is an out-of-bounds read: both OobRd. *)
From Coq Require Import List NArith ZArith Bool.
From NV Require Import Bytes CapDefs.
Import ListNotations.
Local Open Scope Z_scope.

Definition NOFFS : nat := 32.                     (* int offs[32] of ec_substitute *)

(* offs[k] *)
Definition ofs (offs : list Z) (k : nat) : res Z :=
  match nth_error offs k with Some z => Ok z | None => OobRd end.

(* memcpy(dst, ln + so, eo - so) *)
Definition rd_range (ln : bytes) (so eo : Z) : res bytes :=
  if eo - so =? 0 then Ok []
  else if (so <? 0) || (eo <? so) || (Z.of_nat (length ln) + 1 <? eo) then OobRd
  else Ok (firstn (Z.to_nat (eo - so)) (skipn (Z.to_nat so) (ln ++ [0%N]))).

Definition c_digit (c : N) : bool := (48 <=? c)%N && (c <=? 57)%N.

Fixpoint replace (rep : bytes) (ln : bytes) (offs : list Z) : res bytes :=
  match rep with
  | [] => Ok []
  | c :: r =>
      if (c =? 92)%N then
        match r with
        | [] => Ok [c]                                            (* rep[1] == 0: sbuf_chr(rep[0]) *)
        | c1 :: r' =>
            if c_digit c1 then
              let g := (2 * N.to_nat (c1 - 48))%nat in
              do so <- ofs offs g;
              do eo <- ofs offs (S g);
              do seg <- rd_range ln so eo;
              do t <- replace r' ln offs;
              Ok (seg ++ t)
            else
              do t <- replace r' ln offs;
              Ok (c1 :: t)
        end
      else
        do t <- replace r ln offs;
        Ok (c :: t)
  end.

(* what ec_substitute may assume about the offsets of one match on a line of n bytes (n counts the bytes before the
   terminator): every group is unset (-1, -1) or lies inside the line *)
Definition grp_ok (n : Z) (so eo : Z) : bool := ((so =? -1) && (eo =? -1)) || ((0 <=? so) && (so <=? eo) && (eo <=? n)).
Fixpoint offs_ok (n : Z) (offs : list Z) : bool :=
  match offs with
  | so :: eo :: r => grp_ok n so eo && offs_ok n r
  | [] => true
  | [_] => false
  end.
