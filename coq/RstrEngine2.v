(* RstrEngine2.v -- C12, part 2: the backtracking machine on the fork-free program of a simple
   pattern: it runs straight through the marks and atoms; the result is the chain of atom
   matches. *)
From Coq Require Import List NArith ZArith Bool Arith Lia ZifyBool ZifyNat ZifyN.
From NV Require Import Bytes GenConsts ReSyntax ReParse ReEmit ReVM RsetDefs RstrEngine.
Import ListNotations.

Section SL.
  Variable St : Type.
  Variable atom_step : atom -> St -> res (option St).
  Variable mark_step : nat -> St -> St.

  Definition is_sl (i : instr) : Prop := match i with IAtom _ | IMark _ => True | _ => False end.

  Fixpoint sl_run (l : list instr) (s : St) : out St * N :=
    match l with
    | [] => (Found [] s, 0%N)
    | IAtom a :: r =>
      match atom_step a s with
      | Ok (Some s') => sl_run r s'
      | Ok None => (Fail, 0%N)
      | OOB w => (OobO w, 0%N)
      | NoFuel => (Abort, 1%N)
      end
    | IMark m :: r => sl_run r (mark_step m s)
    | _ => (Abort, 1%N)
    end.

  Lemma loopF_sl call : forall l pre k s, Forall is_sl l -> (length l < k)%nat ->
    loopF St atom_step mark_step (pre ++ l ++ [IMatch]) call k (length pre) s = sl_run l s.
  Proof.
    induction l as [|i l IH]; intros pre k s Hl Hk; (destruct k as [|k]; [lia|]).
    - cbn [loopF sl_run]. unfold fetch. rewrite app_nth2 by lia. rewrite Nat.sub_diag. reflexivity.
    - inversion Hl as [|? ? Hi Hl']; subst. cbn [loopF]. unfold fetch. rewrite app_nth2 by lia. rewrite Nat.sub_diag.
      cbn [app nth]. cbn [length] in Hk.
      assert (E : pre ++ i :: l ++ [IMatch] = (pre ++ [i]) ++ l ++ [IMatch]) by (rewrite <- app_assoc; reflexivity).
      assert (El : S (length pre) = length (pre ++ [i])) by (rewrite app_length; cbn; lia).
      destruct i as [a|m| | |]; cbn in Hi; try contradiction; cbn [sl_run].
      + destruct (atom_step a s) as [[s'|]| |]; try reflexivity. rewrite E, El. apply IH; [assumption|lia].
      + rewrite E, El. apply IH; [assumption|lia].
  Qed.

  Lemma rec_sl l d s : Forall is_sl l -> rec St atom_step mark_step (l ++ [IMatch]) (S d) 0 s = sl_run l s.
  Proof.
    intro Hl. cbn [rec]. apply (loopF_sl _ l [] _ s Hl). rewrite app_length. cbn. lia.
  Qed.

  Lemma sl_run_marks ms l s : sl_run (map IMark ms ++ l) s = sl_run l (fold_left (fun s m => mark_step m s) ms s).
  Proof. revert s. induction ms as [|m ms IH]; intro s; [reflexivity|]. cbn [map app sl_run fold_left]. apply IH. Qed.
End SL.

(* the atoms in sequence *)
Fixpoint chain (flg : Z) (line : bytes) (l : list atom) (p : nat) : res (option nat) :=
  match l with
  | [] => Ok (Some p)
  | a :: r => match ratom_match flg line a p with Ok (Some q) => chain flg line r q | x => x end
  end.

Lemma sl_run_atoms flg line l rest : forall p M,
  sl_run st (atom_step flg line) mark_step (map IAtom l ++ rest) (p, M) =
  match chain flg line l p with
  | Ok (Some q) => sl_run st (atom_step flg line) mark_step rest (q, M)
  | Ok None => (Fail, 0%N)
  | OOB w => (OobO w, 0%N)
  | NoFuel => (Abort, 1%N)
  end.
Proof.
  induction l as [|a l IH]; intros p M; [reflexivity|].
  cbn [map app sl_run chain]. unfold atom_step at 1. cbn [fst snd].
  destruct (ratom_match flg line a p) as [[q|]| |]; cbn [bind]; try reflexivity. apply IH.
Qed.

Definition marks_of (o e : nat) : list Z :=
  snd (mark_step 1 (mark_step 3 (mark_step 5 (e, snd (mark_step 4 (mark_step 2 (mark_step 0 (o, repeat (-1)%Z nmarks)))))))).

Lemma psub_marks o e : psub_of (marks_of o e) 3 =
  [(Z.of_nat o, Z.of_nat e); (Z.of_nat o, Z.of_nat e); (Z.of_nat o, Z.of_nat e)].
Proof. reflexivity. Qed.

Lemma recmatch_simple d l flg line o :
  re_recmatch (S d) (simple_code l) flg line o =
  match chain flg line l o with
  | Ok (Some e) => (Found [] (e, marks_of o e), 0%N)
  | Ok None => (Fail, 0%N)
  | OOB w => (OobO w, 0%N)
  | NoFuel => (Abort, 1%N)
  end.
Proof.
  unfold re_recmatch, simple_code.
  replace ([IMark 0; IMark 2; IMark 4] ++ map IAtom l ++ [IMark 5; IMark 3; IMark 1; IMatch])
    with (([IMark 0; IMark 2; IMark 4] ++ map IAtom l ++ [IMark 5; IMark 3; IMark 1]) ++ [IMatch])
    by (rewrite <- !app_assoc; reflexivity).
  rewrite rec_sl.
  2:{ apply Forall_app; split; [repeat constructor|]. apply Forall_app; split; [|repeat constructor].
      apply Forall_forall. intros i Hi. apply in_map_iff in Hi. destruct Hi as (a & <- & _). exact I. }
  change [IMark 0; IMark 2; IMark 4] with (map IMark [0; 2; 4]%nat).
  rewrite sl_run_marks. cbn [fold_left].
  assert (E : forall M, mark_step 4 (mark_step 2 (mark_step 0 (o, M))) = (o, snd (mark_step 4 (mark_step 2 (mark_step 0 (o, M)))))).
  { intro M. reflexivity. }
  rewrite E. rewrite sl_run_atoms.
  destruct (chain flg line l o) as [[e|]| |]; try reflexivity.
Qed.
