(* SubstProps.v -- C14: the scan loop of ec_substitute rewrites exactly the chain of successive matches. *)
From Coq Require Import List NArith ZArith Bool Lia ZifyBool ZifyNat ZifyN.
From NV Require Import Bytes UcDefs SubstDefs.
Import ListNotations.
Local Open Scope N_scope.

Section Props.
  Variable find : bytes -> bool -> option (list grp).
  Variable rep : bytes.
  Variable gflag : bool.

  Lemma one_match_seg ln offs o ln2 : one_match rep ln offs = Some (o, ln2) ->
    exists s, match_seg rep ln offs s ln2 /\ o = seg_new s /\ ln = seg_old s ++ ln2 /\ (length ln2 < length ln)%nat.
  Proof.
    unfold one_match. destruct (nth 0 offs unset) as [so eo] eqn:E0.
    destruct ((so <? 0)%Z || (eo <? so)%Z || (Z.of_nat (length ln) <? eo)%Z) eqn:Eb; [discriminate|].
    destruct (expand rep ln offs) as [t|] eqn:Et; [|discriminate].
    apply orb_false_iff in Eb. destruct Eb as [Eb Eb3]. apply orb_false_iff in Eb. destruct Eb as [Eb1 Eb2].
    apply Z.ltb_ge in Eb1, Eb2, Eb3.
    assert (Hsplit : ln = firstn (Z.to_nat so) ln ++ firstn (Z.to_nat (eo - so)) (skipn (Z.to_nat so) ln) ++ skipn (Z.to_nat eo) ln).
    { rewrite <- (firstn_skipn (Z.to_nat so) ln) at 1. f_equal.
      rewrite <- (firstn_skipn (Z.to_nat (eo - so)) (skipn (Z.to_nat so) ln)) at 1. f_equal.
      rewrite skipn_skipn. f_equal. lia. }
    destruct (eo <=? so)%Z eqn:Ez.
    - destruct (step_char (skipn (Z.to_nat eo) ln)) as [[c r2]|] eqn:Es; [|discriminate].
      intro H. inversion H; subst o ln2; clear H.
      assert (Hc : skipn (Z.to_nat eo) ln = c ++ r2 /\ (1 <= length c)%nat).
      { unfold step_char in Es. destruct (length (skipn (Z.to_nat eo) ln) <? _)%nat eqn:El; [discriminate|].
        inversion Es; subst. rewrite firstn_skipn. split; [reflexivity|]. rewrite firstn_length. apply Nat.ltb_ge in El. pose proof (Nat.le_max_l 1 (uc_len (skipn (Z.to_nat eo) ln))). apply Nat.min_glb; [exact H|eapply Nat.le_trans; [exact H|exact El]]. }
      destruct Hc as [Hc Hc1].
      exists (firstn (Z.to_nat so) ln, firstn (Z.to_nat (eo - so)) (skipn (Z.to_nat so) ln), t, c).
      split; [|split; [|split]].
      + exists so, eo, t, c. rewrite Ez. repeat split; try assumption; try lia.
      + reflexivity.
      + cbn [seg_old]. rewrite Hsplit at 1. rewrite Hc. now rewrite <- !app_assoc.
      + assert (Hl := f_equal (@length N) Hc). rewrite app_length, skipn_length in Hl. lia.
    - intro H. inversion H; subst o ln2; clear H.
      exists (firstn (Z.to_nat so) ln, firstn (Z.to_nat (eo - so)) (skipn (Z.to_nat so) ln), t, []).
      split; [|split; [|split]].
      + exists so, eo, t, []. rewrite Ez. repeat split; try assumption; try lia.
      + cbn [seg_new]. now rewrite app_nil_r.
      + cbn [seg_old]. rewrite app_nil_r. rewrite <- app_assoc. exact Hsplit.
      + rewrite skipn_length. lia.
  Qed.

  Lemma stops_nog ln : gflag = false -> stops gflag ln = true.
  Proof. intros ->. destruct ln; [reflexivity|]. cbn. apply orb_true_r. Qed.

  Lemma scan_chain : forall fuel nb ln out k, scan find rep gflag fuel nb ln = Some (Some (out, k)) ->
    exists segs tail, Chain find rep gflag nb ln segs tail /\ ln = flat_old segs ++ tail /\
      out = flat_new segs ++ tail /\ length segs = k /\ (gflag = false -> (k <= 1)%nat).
  Proof.
    induction fuel as [|f IH]; intros nb ln out k H; [discriminate|]. cbn [scan] in H.
    destruct (find ln nb) as [offs|] eqn:Ef.
    - destruct (one_match rep ln offs) as [[o ln2]|] eqn:Em; [|discriminate].
      destruct (one_match_seg _ _ _ _ Em) as (s & Hs & Ho & Hln & _).
      destruct (stops gflag ln2) eqn:Est.
      + inversion H; subst out k; clear H. exists [s], ln2. repeat split.
        * eapply ChLast; eassumption.
        * cbn. now rewrite app_nil_r.
        * cbn. rewrite app_nil_r. now subst o.
        * lia.
      + destruct (scan find rep gflag f true ln2) as [[[o2 k2]|]|] eqn:Esc; try discriminate.
        inversion H; subst out k; clear H.
        destruct (IH _ _ _ _ Esc) as (segs & tail & Hc & Hl & Hn & Hk & Hg).
        exists (s :: segs), tail. repeat split.
        * eapply ChStep; eassumption.
        * cbn [flat_old flat_map]. fold (flat_old segs). rewrite <- app_assoc, <- Hl. exact Hln.
        * cbn [flat_new flat_map]. fold (flat_new segs). rewrite <- app_assoc, <- Hn. now subst o.
        * cbn. now rewrite Hk.
        * intro Hg0. rewrite (stops_nog ln2 Hg0) in Est. discriminate.
    - inversion H; subst out k; clear H. exists [], ln. repeat split; [now apply ChEnd|lia].
  Qed.

  Lemma scan_fuel : forall fuel nb ln, (length ln < fuel)%nat -> scan find rep gflag fuel nb ln <> None.
  Proof.
    induction fuel as [|f IH]; intros nb ln Hl; [lia|]. cbn [scan].
    destruct (find ln nb) as [offs|]; [|discriminate].
    destruct (one_match rep ln offs) as [[o ln2]|] eqn:Em; [|discriminate].
    destruct (one_match_seg _ _ _ _ Em) as (s & _ & _ & _ & Hlen).
    destruct (stops gflag ln2); [discriminate|].
    specialize (IH true ln2). destruct (scan find rep gflag f true ln2) as [[[o2 k2]|]|]; try discriminate.
    apply IH. lia.
  Qed.

  (* the property's structure clause *)
  Theorem structure line new : subst_line find rep gflag line = Changed new ->
    exists segs tail, segs <> [] /\ Chain find rep gflag false line segs tail /\
      line = flat_old segs ++ tail /\ new = flat_new segs ++ tail /\ (gflag = false -> length segs = 1%nat).
  Proof.
    unfold subst_line. destruct (scan find rep gflag (S (length line)) false line) as [[[o k]|]|] eqn:E; try discriminate.
    destruct k as [|k]; [discriminate|]. intro H. inversion H; subst new; clear H.
    destruct (scan_chain _ _ _ _ _ E) as (segs & tail & Hc & Hl & Hn & Hk & Hg).
    exists segs, tail. repeat split; try assumption.
    - intro E0. subst segs. discriminate.
    - intro Hg0. specialize (Hg Hg0). lia.
  Qed.

  (* lines without a match are untouched: no lbuf_edit *)
  Theorem unchanged line : subst_line find rep gflag line = Unchanged <-> find line false = None.
  Proof.
    unfold subst_line. cbn [scan]. split.
    - destruct (find line false) as [offs|]; [|reflexivity].
      destruct (one_match rep line offs) as [[o ln2]|]; [|discriminate].
      destruct (stops gflag ln2); [discriminate|].
      destruct (scan find rep gflag (length line) true ln2) as [[[o2 k2]|]|]; discriminate.
    - intros ->. reflexivity.
  Qed.

  Theorem no_fuel line : subst_line find rep gflag line <> SFuel.
  Proof.
    unfold subst_line. pose proof (scan_fuel (S (length line)) false line (Nat.lt_succ_diag_r _)) as H.
    destruct (scan find rep gflag (S (length line)) false line) as [[[o [|k]]|]|]; try discriminate. contradiction.
  Qed.

  (* ^ only at the real line start: a matcher that finds nothing under RE_NOTBOL (a pattern anchored
     with ^) is applied at most once per line *)
  Theorem bol_once line segs tail : (forall ln, find ln true = None) ->
    Chain find rep gflag false line segs tail -> (length segs <= 1)%nat.
  Proof.
    intros Hnb Hc. inversion Hc; subst; cbn; try lia.
    match goal with H : Chain _ _ _ true _ _ _ |- _ => inversion H; subst; cbn; try lia end;
    match goal with H : find _ true = Some _ |- _ => rewrite Hnb in H; discriminate end.
  Qed.
End Props.

  (* a character is stepped over after every empty match and after no other *)
Lemma empty_match_steps rep ln offs g m r c rest : match_seg rep ln offs (g, m, r, c) rest ->
    (m = [] -> (1 <= length c)%nat /\ step_char (c ++ rest) = Some (c, rest)) /\ (m <> [] -> c = []).
  Proof.
    intros (so & eo & t & c' & E0 & Hb & Hlen & Et & Es & Hsk & Hstep). inversion Es; subst g m r c'; clear Es.
    destruct (eo <=? so)%Z eqn:Ez.
    - split.
      + intros _. rewrite <- Hsk. split; [|exact Hstep].
        unfold step_char in Hstep. destruct (length _ <? _)%nat eqn:El; [discriminate|].
        inversion Hstep as [[Hc Hr]]. rewrite firstn_length. apply Nat.ltb_ge in El.
        pose proof (Nat.le_max_l 1 (uc_len (skipn (Z.to_nat eo) ln))) as H.
        apply Nat.min_glb; [exact H|eapply Nat.le_trans; [exact H|exact El]].
      + intro Hm. exfalso. apply Hm. replace (Z.to_nat (eo - so)) with 0%nat by lia. reflexivity.
    - split; [|intros _; exact Hstep].
      intro Hm. exfalso. assert (Hl := f_equal (@length N) Hm). rewrite firstn_length, skipn_length in Hl. cbn in Hl. lia.
  Qed.


(* \N of a group that did not take part expands to nothing (and reads nothing) *)
Lemma grp_text_unset ln : grp_text ln unset = Some [].
Proof. reflexivity. Qed.
Theorem unset_group d rep2 ln offs : is_digit d = true -> nth (N.to_nat (d - 48)) offs unset = unset ->
  expand (92 :: d :: rep2) ln offs = expand rep2 ln offs.
Proof.
  intros Hd Hu. cbn [expand]. replace (92 =? 92) with true by reflexivity. rewrite Hd, Hu, grp_text_unset.
  destruct (expand rep2 ln offs); reflexivity.
Qed.
(* a set group expands to its text; any other escaped byte to itself *)
Theorem escaped_byte d rep2 ln offs : is_digit d = false ->
  expand (92 :: d :: rep2) ln offs = opt_app [d] (expand rep2 ln offs).
Proof. intros Hd. cbn [expand]. replace (92 =? 92) with true by reflexivity. now rewrite Hd. Qed.

(* ------------------------------------------------------------------------------------------ *)
(* the remembered pattern *)
Definition plain (d : N) (p : bytes) : Prop := Forall (fun c => c <> d /\ c <> 92) p.

Lemma re_read_loop_plain d p tail : plain d p -> re_read_loop d (p ++ d :: tail) = (p, tail).
Proof.
  induction 1 as [|c p [Hd Hb] Hp IH]; cbn [app re_read_loop].
  - now rewrite N.eqb_refl.
  - destruct (N.eqb_spec c d); [contradiction|]. destruct (N.eqb_spec c 92); [contradiction|]. now rewrite IH.
Qed.

Definition setup_state (st : sstate) (arg : bytes) : sstate := fst (fst (subst_setup st arg)).
Definition setup_pat (st : sstate) (arg : bytes) : option bytes := snd (fst (subst_setup st arg)).

(* s/pat/... with a non-empty pattern compiles that pattern and remembers it *)
Lemma setup_remember st d p tail : plain d p -> p <> [] ->
  setup_pat st (d :: p ++ d :: tail) = Some p /\ st_kwd (setup_state st (d :: p ++ d :: tail)) = Some p.
Proof.
  intros Hp Hne. unfold setup_pat, setup_state, subst_setup, subst_args.
  rewrite (re_read_loop_plain d p tail Hp).
  destruct p as [|c p]; [contradiction|].
  destruct tail as [|t tail]; [split; reflexivity|].
  destruct (re_read_loop d (t :: tail)) as [r rest2]. split; reflexivity.
Qed.

(* s//... compiles the remembered pattern and keeps it *)
Lemma setup_empty st d tail :
  setup_pat st (d :: d :: tail) = st_kwd st /\ st_kwd (setup_state st (d :: d :: tail)) = st_kwd st.
Proof.
  unfold setup_pat, setup_state, subst_setup, subst_args. cbn [re_read_loop]. rewrite N.eqb_refl.
  destruct tail as [|t tail]; [split; reflexivity|].
  destruct (re_read_loop d (t :: tail)) as [r rest2]. split; reflexivity.
Qed.

Theorem reuse st d p tail d2 tail2 : plain d p -> p <> [] ->
  setup_pat (setup_state st (d :: p ++ d :: tail)) (d2 :: d2 :: tail2) = Some p.
Proof.
  intros Hp Hne. destruct (setup_empty (setup_state st (d :: p ++ d :: tail)) d2 tail2) as [-> _].
  apply (setup_remember st d p tail Hp Hne).
Qed.

(* with no remembered pattern an empty pattern is an error (nothing is compiled) *)
Lemma setup_empty_none d tail rep0 : setup_pat (mk_sstate None rep0) (d :: d :: tail) = None.
Proof. now destruct (setup_empty (mk_sstate None rep0) d tail) as [-> _]. Qed.
