(* Extract_bufs.v -- extraction of the buffer-table model (C20) to OCaml (ExtrOcamlBasic only). *)
From Coq Require Import List NArith ZArith Extraction ExtrOcamlBasic.
From NV Require Import GenConsts BufsDefs.
Definition all_types : nat * N * Z := (0%nat, 0%N, 0%Z).
Extraction "bufs_model.ml" all_types c_init c_command c_line clb_ops NB.
