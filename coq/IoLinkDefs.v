(* IoLinkDefs.v -- names, symbolic links and foreign writers around the overwrite guards of ex.c (C03).
   Extends IoDefs.v: mtime() of ex.c is stat(2), which follows symbolic links, and so does the
   open(O_WRONLY | O_CREAT) of lbuf_save; the time stamp a buffer remembers (bufs[].mtime) is taken by
   ec_edit (-1 when stat fails: no such file, dangling link, link loop) and by ec_write after a
   successful write of the buffer's own path.  Foreign writers (other processes) change files between
   the editor's commands.  No proofs here (IoLinkProps.v). *)
From Coq Require Import List NArith ZArith Bool Arith.
From NV Require Import Bytes GenConsts IoDefs.
Import ListNotations.

(* ------------------------------------------------------------------ names *)
(* symbolic links: name -> the name it points to.  A name listed here is a link; every other name is a
   regular file (when the fsys has it) or absent. *)
Definition links := list (nat * nat).
Fixpoint lk_get (lk : links) (p : nat) : option nat :=
  match lk with [] => None | (q, t) :: r => if Nat.eqb q p then Some t else lk_get r p end.
Fixpoint lk_del (lk : links) (p : nat) : links :=
  match lk with [] => [] | (q, t) :: r => if Nat.eqb q p then lk_del r p else (q, t) :: lk_del r p end.
Fixpoint fs_del (fs : fsys) (p : nat) : fsys :=
  match fs with [] => [] | (q, f) :: r => if Nat.eqb q p then fs_del r p else (q, f) :: fs_del r p end.

(* path resolution of stat(2) / open(2): follow links, at most MAXSYMLINKS of them; None = ELOOP *)
Definition MAXSYMLINKS : nat := 40.
Fixpoint resolve_n (fuel : nat) (lk : links) (p : nat) {struct fuel} : option nat :=
  match lk_get lk p with
  | None => Some p
  | Some t => match fuel with O => None | S f => resolve_n f lk t end
  end.
Definition resolve : links -> nat -> option nat := resolve_n MAXSYMLINKS.

(* the file a name finally denotes, if any *)
Definition target (lk : links) (fs : fsys) (p : nat) : option file :=
  match resolve lk p with Some q => fs_get fs q | None => None end.
(* mtime(path) of ex.c: stat() follows links; -1 when it fails *)
Definition mtime_of (lk : links) (fs : fsys) (p : nat) : Z :=
  match target lk fs p with Some (_, m) => m | None => (-1)%Z end.

(* ------------------------------------------------------------------ the editor's commands over names *)
(* lbuf_save(lb, beg, end, path, force, ts): both guards look at stat(path); open follows the links too
   (and creates the file a dangling link points to); a link loop makes stat fail (-1) and open fail. *)
Definition lbuf_save_l (now : Z) (lines : list bytes) (b e : nat) (lk : links) (path : nat) (force : bool) (ts : Z)
                       (fs : fsys) (sch : list outcome) : status * fsys * list outcome :=
  match resolve lk path with
  | Some q => lbuf_save now lines b e q force ts fs sch
  | None => if refuses force ts (-1)%Z then (SRefused, fs, sch) else (SFailed, fs, tl sch)
  end.

(* ec_edit for a path that is not in bufs[] yet (also the file named on the command line): a fresh
   buffer with the lines of the file if it can be read; bufs[0].mtime = mtime(path); lbuf_saved *)
Definition ec_edit_l (lk : links) (fs : fsys) (path : nat) : buf :=
  {| b_lines := match target lk fs path with Some (c, _) => split_lines c | None => [] end;
     b_path := path; b_mtime := mtime_of lk fs path; b_dirty := false |}.

(* ec_write (see IoDefs.ec_write): "own path" is decided by comparing the names (strcmp), not the files *)
Definition ec_write_l (now : Z) (isx force : bool) (rng : option (nat * nat)) (lk : links) (path : nat) (bf : buf)
                      (fs : fsys) (sch : list outcome) : status * buf * fsys * list outcome :=
  if isx && negb (b_dirty bf) then (SOk, bf, fs, sch)
  else
    let n := length (b_lines bf) in
    let '(b, e) := match rng with Some r => r | None => (0, n) end in
    let own := Nat.eqb (b_path bf) path in
    let ts := if own then b_mtime bf else 0%Z in
    let '(st, fs', r) := lbuf_save_l now (b_lines bf) b e lk path force ts fs sch in
    match st with
    | SOk =>
      let bf' := if own
                 then {| b_lines := b_lines bf; b_path := b_path bf; b_mtime := mtime_of lk fs' path;
                         b_dirty := negb (Nat.eqb b 0 && Nat.eqb e n) |}
                 else bf in
      (SOk, bf', fs', r)
    | _ => (st, bf, fs', r) end.

Fixpoint quit_loop_l (now : Z) (all bang : bool) (lk : links) (bufs : list buf) (fs : fsys) (sch : list outcome)
  : bool * status * fsys * list outcome :=
  match bufs with
  | [] => (true, SOk, fs, sch)
  | bf :: rest =>
    if negb all && negb bang && b_dirty bf then (false, SRefused, fs, sch)
    else if all then
      let '(st, fs', r) := lbuf_save_l now (b_lines bf) 0 (length (b_lines bf)) lk (b_path bf) bang (b_mtime bf) fs sch in
      match st with
      | SOk => quit_loop_l now all bang lk rest fs' r
      | _ => (false, st, fs', r)
      end
    else quit_loop_l now all bang lk rest fs sch
  end.
Fixpoint quit_marks_l (now : Z) (all bang : bool) (lk : links) (bufs : list buf) (fs : fsys) (sch : list outcome) : list buf :=
  match bufs with
  | [] => []
  | bf :: rest =>
    if negb all && negb bang && b_dirty bf then bufs
    else if all then
      let '(st, fs', r) := lbuf_save_l now (b_lines bf) 0 (length (b_lines bf)) lk (b_path bf) bang (b_mtime bf) fs sch in
      match st with
      | SOk => {| b_lines := b_lines bf; b_path := b_path bf; b_mtime := mtime_of lk fs' (b_path bf); b_dirty := false |}
               :: quit_marks_l now all bang lk rest fs' r
      | _ => bufs
      end
    else bf :: quit_marks_l now all bang lk rest fs sch
  end.
Definition ec_quit_l (now : Z) (wr isx all bang : bool) (lk : links) (bufs : list buf) (fs : fsys) (sch : list outcome)
  : bool * status * list buf * fsys * list outcome :=
  match bufs with
  | [] => (true, SOk, bufs, fs, sch)
  | b0 :: rest =>
    if wr then
      let '(st, b0', fs', r) := ec_write_l now isx bang None lk (b_path b0) b0 fs sch in
      match st with
      | SOk => let '(q, st2, fs2, r2) := quit_loop_l now all bang lk (b0' :: rest) fs' r in
               (q, st2, quit_marks_l now all bang lk (b0' :: rest) fs' r, fs2, r2)
      | _ => (false, st, bufs, fs', r)
      end
    else let '(q, st2, fs2, r2) := quit_loop_l now all bang lk bufs fs sch in (q, st2, quit_marks_l now all bang lk bufs fs sch, fs2, r2)
  end.

(* ------------------------------------------------------------------ foreign writers *)
(* what another process does to the directory between two commands of the editor; t = the time stamp
   the file gets (whole seconds, like st_mtime) *)
Inductive fop :=
| FWrite (p : nat) (c : bytes) (t : Z)     (* open(p, O_WRONLY | O_CREAT | O_TRUNC), write c, close: follows links, creates the file *)
| FReplace (p : nat) (c : bytes) (t : Z)   (* rename(tmp, p): the name itself (a link is not followed) becomes a regular file *)
| FTouch (p : nat) (t : Z)                 (* utimes(p): follows links; nothing happens if there is no file *)
| FRemove (p : nat).                       (* unlink(p): the name itself *)
Definition fop_stamp (o : fop) : option Z :=
  match o with FWrite _ _ t | FReplace _ _ t | FTouch _ t => Some t | FRemove _ => None end.
Definition foreign (w : links * fsys) (o : fop) : links * fsys :=
  let '(lk, fs) := w in
  match o with
  | FWrite p c t => match resolve lk p with Some q => (lk, fs_set fs q (c, t)) | None => w end
  | FReplace p c t => (lk_del lk p, fs_set fs p (c, t))
  | FTouch p t =>
    match resolve lk p with
    | Some q => match fs_get fs q with Some (c, _) => (lk, fs_set fs q (c, t)) | None => w end
    | None => w
    end
  | FRemove p => (lk_del lk p, fs_del fs p)
  end.
Definition foreign_run (w : links * fsys) (ops : list fop) : links * fsys := fold_left foreign ops w.
(* every time stamp a foreign writer leaves is later than ts (whole seconds: "in a later second") *)
Definition later_than (ts : Z) (o : fop) : Prop := match fop_stamp o with Some t => (t > ts)%Z | None => True end.
