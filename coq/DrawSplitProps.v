(* DrawSplitProps.v -- C19, two windows: after an ex command that wrote to the terminal and stopped at "[enter to continue]"
   the repaint of the tail of vi() leaves each window a true window of its buffer and the scroll region the active window's,
   whatever was on the screen; without the repaint neither holds.  Which command lines get the repaint. *)
From Coq Require Import List Arith ZArith NArith Bool Lia ZifyBool.
From NV Require Import Bytes TermEmu DrawDefs DrawProps DrawSplitDefs.
Import ListNotations.

Section SplitProps.
Variable R : Type.
Notation drawwin := (@drawwin R).
Notation drawwin_msg := (@drawwin_msg R).
Notation rows_at := (@rows_at R).
Notation win := (@win R).

Lemma drawwin_length f beg top h scr : length (drawwin f beg top h scr) = length scr.
Proof.
  unfold DrawSplitDefs.drawwin. generalize (seq 0 h) as l. intro l. revert scr.
  induction l as [|i l IH]; intro scr; cbn [fold_left]; [reflexivity|]. rewrite IH. apply set_nth_length.
Qed.

Lemma drawwin_S f beg top h scr : drawwin f beg top (S h) scr = set_nth (beg + h) (f (top + h)) (drawwin f beg top h scr).
Proof. unfold DrawSplitDefs.drawwin. rewrite seq_S, fold_left_app. reflexivity. Qed.

Lemma drawwin_nth f beg top h scr k d : beg + h <= length scr ->
  nth k (drawwin f beg top h scr) d = if (beg <=? k) && (k <? beg + h) then f (top + (k - beg)) else nth k scr d.
Proof.
  intro L. induction h as [|h IH].
  - cbn [DrawSplitDefs.drawwin seq fold_left]. destruct ((beg <=? k) && (k <? beg + 0)) eqn:E; [lia|reflexivity].
  - rewrite drawwin_S.
    rewrite set_nth_nth by (rewrite (drawwin_length f beg top h scr); lia).
    destruct (k =? beg + h) eqn:E.
    + apply Nat.eqb_eq in E. subst k. replace ((beg <=? beg + h) && (beg + h <? beg + S h)) with true by lia.
      f_equal. lia.
    + rewrite IH by lia. apply Nat.eqb_neq in E.
      destruct ((beg <=? k) && (k <? beg + h)) eqn:E1; destruct ((beg <=? k) && (k <? beg + S h)) eqn:E2; try reflexivity; lia.
Qed.

Lemma rows_at_length beg h (scr : list R) : beg + h <= length scr -> length (rows_at beg h scr) = h.
Proof. intro L. unfold DrawSplitDefs.rows_at. rewrite firstn_length, skipn_length. lia. Qed.

Lemma rows_at_nth beg h (scr : list R) k d : k < h -> nth k (rows_at beg h scr) d = nth (beg + k) scr d.
Proof. intro H. unfold DrawSplitDefs.rows_at. rewrite nth_firstn' by exact H. apply nth_skipn'. Qed.

(* the rows a window's repaint draws are the window ... *)
Lemma rows_at_drawwin f beg top h scr : beg + h <= length scr -> rows_at beg h (drawwin f beg top h scr) = win f top h.
Proof.
  intro L. destruct h as [|h0]; [reflexivity|]. set (h := S h0) in *.
  apply (win_pointwise R f top h _ (f top)).
  - apply rows_at_length. rewrite drawwin_length. exact L.
  - intros k Hk. rewrite rows_at_nth by exact Hk. rewrite drawwin_nth by exact L.
    replace ((beg <=? beg + k) && (beg + k <? beg + h)) with true by lia. f_equal. lia.
Qed.
(* ... and no other row changes *)
Lemma rows_at_drawwin_other f beg top h scr b2 h2 : beg + h <= length scr -> b2 + h2 <= length scr ->
  b2 + h2 <= beg \/ beg + h <= b2 ->
  rows_at b2 h2 (drawwin f beg top h scr) = rows_at b2 h2 scr.
Proof.
  intros L L2 D. destruct h2 as [|h0]; [reflexivity|]. set (hh := S h0) in *.
  apply (nth_ext _ _ (f 0) (f 0)).
  - rewrite !rows_at_length; [reflexivity|lia|rewrite drawwin_length; lia].
  - intros k Hk. rewrite rows_at_length in Hk by (rewrite drawwin_length; lia).
    rewrite !rows_at_nth by exact Hk. rewrite drawwin_nth by exact L.
    destruct ((beg <=? b2 + k) && (b2 + k <? beg + h)) eqn:E; [lia|reflexivity].
Qed.
Lemma rows_at_set_nth_other i (x : R) scr b2 h2 : b2 + h2 <= length scr -> i < b2 \/ b2 + h2 <= i ->
  rows_at b2 h2 (set_nth i x scr) = rows_at b2 h2 scr.
Proof.
  intros L2 D. destruct (lt_dec i (length scr)) as [Hi|Hi].
  2:{ unfold set_nth. replace (i <? length scr) with false by lia. reflexivity. }
  destruct h2 as [|h0]; [reflexivity|]. set (hh := S h0) in *.
  apply (nth_ext _ _ x x).
  - rewrite !rows_at_length; [reflexivity|lia|rewrite set_nth_length; lia].
  - intros k Hk. rewrite rows_at_length in Hk by (rewrite set_nth_length; lia).
    rewrite !rows_at_nth by exact Hk. rewrite set_nth_nth by exact Hi.
    destruct (b2 + k =? i) eqn:E; [lia|reflexivity].
Qed.

Lemma drawwin_msg_length f msg beg top h scr : length (drawwin_msg f msg beg top h scr) = length scr.
Proof. unfold DrawSplitDefs.drawwin_msg. rewrite set_nth_length. apply drawwin_length. Qed.
Lemma rows_at_drawwin_msg f msg beg top h scr : beg + h <= length scr ->
  rows_at beg h (drawwin_msg f msg beg top h scr) = win f top h.
Proof.
  intro L. unfold DrawSplitDefs.drawwin_msg. rewrite rows_at_set_nth_other by (rewrite ?drawwin_length; lia).
  apply rows_at_drawwin. exact L.
Qed.
Lemma rows_at_drawwin_msg_other f msg beg top h scr b2 h2 : beg + h <= length scr -> b2 + h2 <= length scr ->
  b2 + h2 <= beg \/ beg + h < b2 ->
  rows_at b2 h2 (drawwin_msg f msg beg top h scr) = rows_at b2 h2 scr.
Proof.
  intros L L2 D. unfold DrawSplitDefs.drawwin_msg. rewrite rows_at_set_nth_other by (rewrite ?drawwin_length; lia).
  apply rows_at_drawwin_other; lia.
Qed.

(* the halves vi_switch() makes: both have a text row, they and their message rows do not overlap and fill the screen *)
Lemma geom_split rows id : 4 <= rows -> id <= 1 ->
  let '(ba, ha) := geom rows 2 id in let '(bo, ho) := geom rows 2 (1 - id) in
  1 <= ha /\ 1 <= ho /\ ba + ha < rows /\ bo + ho < rows /\ (ba + ha < bo \/ bo + ho < ba) /\ ha + ho + 2 = rows.
Proof.
  intros Hr Hi. unfold geom. cbn [Nat.eqb].
  assert (H2 : 2 <= rows / 2) by (apply Nat.div_le_lower_bound; lia).
  assert (H3 : 2 * (rows / 2) <= rows) by (apply Nat.mul_div_le; lia).
  destruct id as [|[|id]]; [| |lia]; cbn [Nat.eqb Nat.sub]; lia.
Qed.

Lemma view_fix_in h (v : view) : 1 <= h -> (0 <= v_top v)%Z -> (0 <= v_len v)%Z -> in_view h (view_fix h v).
Proof.
  intros Hh Ht Hl. unfold view_fix, in_view.
  pose proof (wfix_follows (v_top v) (v_row v) (Z.of_nat h) (v_len v) ltac:(lia) Hl Ht) as W.
  destruct (wfix (v_top v) (v_row v) (Z.of_nat h) (v_len v)) as [t r]. cbn [v_top v_row]. lia.
Qed.

(* after the continue step, the repaint of the tail (mod = VC_ALL): whatever the screen held *)
Theorem split_continue_repaint fa fo msga msgo junk (s : sstate R) :
  4 <= s_rows R s -> s_cur R s <= 1 -> length junk = s_rows R s ->
  (0 <= v_top (s_act R s))%Z -> (0 <= v_len (s_act R s))%Z -> (0 <= v_top (s_oth R s))%Z -> (0 <= v_len (s_oth R s))%Z ->
  split_inv R fa fo (tail_after_wait R true fa fo msga msgo junk s).
Proof.
  intros Hr Hc Hj Hta Hla Hto Hlo. pose proof (geom_split (s_rows R s) (s_cur R s) Hr Hc) as G.
  unfold split_inv, tail_after_wait.
  destruct (geom (s_rows R s) 2 (s_cur R s)) as [ba ha] eqn:Ga. destruct (geom (s_rows R s) 2 (1 - s_cur R s)) as [bo ho] eqn:Go.
  cbn [s_rows s_cur s_act s_oth s_region s_scr]. rewrite Ga, Go.
  destruct G as (Ha & Ho & La & Lo & D & _).
  repeat split.
  - apply rows_at_drawwin_msg. rewrite drawwin_msg_length. lia.
  - rewrite rows_at_drawwin_msg_other by (rewrite ?drawwin_msg_length; lia). apply rows_at_drawwin_msg. lia.
  - apply (view_fix_in ha (s_act R s)); assumption.
  - apply (view_fix_in ha (s_act R s)); assumption.
  - apply (view_fix_in ha (s_act R s)); assumption.
  - apply (view_fix_in ho (s_oth R s)); assumption.
  - apply (view_fix_in ho (s_oth R s)); assumption.
  - apply (view_fix_in ho (s_oth R s)); assumption.
  - rewrite !drawwin_msg_length. exact Hj.
Qed.

(* without it (mod = 0): the scroll region stays the whole screen -- the invariant fails for every screen *)
Theorem split_continue_no_repaint fa fo msga msgo junk (s : sstate R) :
  4 <= s_rows R s -> s_cur R s <= 1 ->
  ~ split_inv R fa fo (tail_after_wait R false fa fo msga msgo junk s).
Proof.
  intros Hr Hc. pose proof (geom_split (s_rows R s) (s_cur R s) Hr Hc) as G.
  unfold split_inv, tail_after_wait.
  destruct (geom (s_rows R s) 2 (s_cur R s)) as [ba ha] eqn:Ga. destruct (geom (s_rows R s) 2 (1 - s_cur R s)) as [bo ho] eqn:Go.
  cbn [s_rows s_cur s_act s_oth s_region s_scr]. rewrite Ga, Go.
  intros (_ & _ & E & _). injection E as E1 E2. lia.
Qed.

(* ^Wx since 9a0f0fa: the invariant holds afterwards -- in particular the cursor line is inside the half the window moved to *)
Theorem wswap_keeps_inv fa fo msga msgo (s : sstate R) :
  4 <= s_rows R s -> s_cur R s <= 1 -> length (s_scr R s) = s_rows R s ->
  (0 <= v_top (s_act R s))%Z -> (0 <= v_len (s_act R s))%Z -> (0 <= v_top (s_oth R s))%Z -> (0 <= v_len (s_oth R s))%Z ->
  split_inv R fa fo (wswap_tail R true fa fo msga msgo s).
Proof.
  intros Hr Hc Hj Hta Hla Hto Hlo. assert (Hc' : 1 - s_cur R s <= 1) by lia.
  pose proof (geom_split (s_rows R s) (1 - s_cur R s) Hr Hc') as G.
  unfold split_inv, wswap_tail.
  destruct (geom (s_rows R s) 2 (1 - s_cur R s)) as [ba ha] eqn:Ga. destruct (geom (s_rows R s) 2 (1 - (1 - s_cur R s))) as [bo ho] eqn:Go.
  cbn [s_rows s_cur s_act s_oth s_region s_scr]. rewrite Ga, Go.
  destruct G as (Ha & Ho & La & Lo & D & _).
  repeat split.
  - apply rows_at_drawwin_msg. rewrite drawwin_msg_length. lia.
  - rewrite rows_at_drawwin_msg_other by (rewrite ?drawwin_msg_length; lia). apply rows_at_drawwin_msg. lia.
  - apply (view_fix_in ha (s_act R s)); assumption.
  - apply (view_fix_in ha (s_act R s)); assumption.
  - apply (view_fix_in ha (s_act R s)); assumption.
  - apply (view_fix_in ho (s_oth R s)); assumption.
  - apply (view_fix_in ho (s_oth R s)); assumption.
  - apply (view_fix_in ho (s_oth R s)); assumption.
  - rewrite !drawwin_msg_length. exact Hj.
Qed.

(* before 9a0f0fa (the tail's vi_wfix() works with the height of the half the window came from): on an odd number of rows, from the
   lower (taller) half with the cursor on its last row, the cursor line is NOT inside the upper half afterwards *)
Theorem wswap_unfixed_loses_cursor fa fo msga msgo (s : sstate R) k :
  2 <= k -> s_rows R s = 2 * k + 1 -> s_cur R s = 1 -> s_region R s = geom (s_rows R s) 2 1 ->
  (0 <= v_top (s_act R s))%Z -> (v_row (s_act R s) = v_top (s_act R s) + Z.of_nat k - 1)%Z -> (v_row (s_act R s) < v_len (s_act R s))%Z ->
  ~ split_inv R fa fo (wswap_tail R false fa fo msga msgo s).
Proof.
  intros Hk Hr Hc Hreg Ht Hrow Hlen.
  assert (Hhalf : (2 * k + 1) / 2 = k) by (symmetry; apply (Nat.div_unique (2 * k + 1) 2 k 1); lia).
  unfold split_inv, wswap_tail. rewrite Hc, Hreg, Hr. unfold geom. cbn [Nat.eqb Nat.sub snd]. rewrite Hhalf.
  cbn [s_rows s_cur s_act s_oth s_region s_scr Nat.eqb Nat.sub]. rewrite Hhalf.
  replace (2 * k + 1 - k - 1) with k by lia.
  assert (E : view_fix k (s_act R s) = mkView (v_top (s_act R s)) (v_row (s_act R s)) (v_len (s_act R s))).
  { unfold view_fix. rewrite (wfix_stable (v_top (s_act R s)) (v_row (s_act R s)) (Z.of_nat k) (v_len (s_act R s))) by lia. reflexivity. }
  rewrite E. unfold in_view at 1. cbn [v_top v_row v_len]. intros (_ & _ & _ & (_ & _ & H) & _). lia.
Qed.
End SplitProps.

(* ---------- which command lines are followed by the repaint ---------- *)
Lemma bytes_eqb_eq a b : bytes_eqb a b = true <-> a = b.
Proof.
  revert b. induction a as [|x a IH]; intros [|y b]; cbn [bytes_eqb]; try (split; congruence).
  rewrite andb_true_iff, N.eqb_eq, IH. split; [intros [-> ->]; reflexivity|intro E; injection E; auto].
Qed.
Theorem colon_repaints_all_but_w ln : colon_repaints ln = false <-> ln = COLON_W.
Proof. unfold colon_repaints. rewrite negb_false_iff. apply bytes_eqb_eq. Qed.
(* `:w !cmd`: repainted by vi.c's rule, not by the prefix rule *)
Theorem write_to_command_repaints ln : write_to_command ln = true ->
  colon_repaints ln = true /\ colon_repaints_prefix ln = false.
Proof.
  unfold write_to_command, colon_repaints, colon_repaints_prefix, COLON_W_BANG, COLON_W.
  destruct ln as [|a [|b [|c [|d ln]]]]; cbn [bytes_prefix bytes_eqb]; rewrite ?andb_false_r; try discriminate.
  rewrite !andb_true_iff, !N.eqb_eq. intros (Ha & Hb & Hc & Hd & _). subst. cbn. split; reflexivity.
Qed.
