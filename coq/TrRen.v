(* TrRen.v -- the functions of ren.c / dir.c that work on an int array (the column array pos[] of
   ren_position, the order array ord[] of dir_reorder): the hand-written models (RenDefs.pos_next,
   RenDefs.pos_prev, DirDefs.dir_reverse) are what the C text says.  For each function, running the
   CLite term tools/c2clite.py generated from /repo (GenCFuncs.v) gives, for ALL arrays and arguments,
   the value / the memory the model predicts -- every load and store checked inside the array,
   no signed overflow, no fuel exhausted. *)
From Coq Require Import List ZArith NArith Bool Lia.
From NV Require Import Bytes RenDefs DirDefs CLite CLiteProps GenCFuncs CLiteTac.
Import ListNotations.
Local Open Scope Z_scope.

Ltac xld Hm Hok :=
  match goal with
  | |- context [load ?m ?b (0 + 1 * ?z)] =>
      replace (0 + 1 * z) with z by lia; rewrite (load_int_arr m b _ z Hm) by lia; xstep;
      rewrite (wrap_I32_id _ (nthz_ok _ z Hok))
  end.

(* ------------------------------------------------------------------ pos_next *)
Definition pn_loop : stmt := match fn_body cf_pos_next with SSeq _ (SSeq (SSeq _ w) _) => w | _ => SSkip end.

(* the C variable ret (an index, -1 = none yet) against the model's ret (the value pos[ret]) *)
Definition ropt (l : list Z) (r : Z) : option Z := if r <? 0 then None else Some (nthz l r).

(* the subtraction pos[i] - !cur must not leave int: columns are never INT_MIN in neatvi *)
Definition next_ok (l : list Z) (cur : bool) : Prop := Forall (fun x => -2147483648 <= x - (if cur then 0 else 1)) l.
Definition prev_ok (l : list Z) (cur : bool) : Prop := Forall (fun x => x + (if cur then 0 else 1) <= 2147483647) l.

Lemma pn_loop_ok call m b l n p c : int_arr_at m b l -> ints_ok l -> (n <= length l)%nat ->
  Z.of_nat n <= 2147483647 -> next_ok (firstn n l) (negb (c =? 0)) ->
  forall k i r fuel, (i + k = n)%nat -> -1 <= r < Z.of_nat i -> (k < fuel)%nat ->
  exists r', exec call fuel pn_loop (mkst [VPtr b 0; VInt (Z.of_nat n); VInt p; VInt c; VInt (Z.of_nat i); VInt r] m)
             = ONormal (mkst [VPtr b 0; VInt (Z.of_nat n); VInt p; VInt c; VInt (Z.of_nat n); VInt r'] m)
    /\ -1 <= r' < Z.of_nat n
    /\ ropt l r' = pos_next_f (skipn i (firstn n l)) p (negb (c =? 0)) (ropt l r).
Proof.
  intros Hm Hok Hn Hmax Hno. induction k as [|k IH]; intros i r fuel Hik Hr Hf; (destruct fuel as [|fuel]; [lia|]);
    unfold pn_loop; cbn [fn_body cf_pos_next]; rewrite exec_for; xstep.
  - assert (i = n) by lia. subst i. destruct (Z.ltb_spec (Z.of_nat n) (Z.of_nat n)); [lia|]. xstep.
    exists r. split; [reflexivity|]. split; [lia|].
    rewrite skipn_all2 by (rewrite firstn_length; lia). reflexivity.
  - destruct (Z.ltb_spec (Z.of_nat i) (Z.of_nat n)); [|lia]. xstep.
    xld Hm Hok. pose proof (nthz_ok l (Z.of_nat i) Hok) as Hx.
    rewrite (skipn_cons_nthz (firstn n l) i) by (rewrite firstn_length; lia).
    assert (Hnx : nthz (firstn n l) (Z.of_nat i) = nthz l (Z.of_nat i)) by (apply nthz_firstn; lia).
    rewrite Hnx. cbn [pos_next_f]. set (x := nthz l (Z.of_nat i)) in *.
    assert (Hsub : -2147483648 <= x - (if negb (c =? 0) then 0 else 1)).
    { unfold next_ok in Hno. rewrite Forall_forall in Hno. rewrite <- Hnx. apply Hno. unfold nthz. apply nth_In.
      rewrite firstn_length; lia. }
    assert (Hb : b2z (negb (negb (c =? 0))) = (if negb (c =? 0) then 0 else 1)) by (destruct (c =? 0); reflexivity).
    rewrite Hb. rewrite chk_I32 by (destruct (negb (c =? 0)); lia). xstep.
    assert (Hstep : forall r1, -1 <= r1 < Z.of_nat (S i) ->
      exists r' : Z,
        match (match eval call (EIncLocal true 4 (Some I32) 1)
                       (mkst [VPtr b 0; VInt (Z.of_nat n); VInt p; VInt c; VInt (Z.of_nat i); VInt r1] m) with
               | Ok (_, st3) => exec call fuel pn_loop st3
               | Err x0 => OErr x0 end) with o => o end
        = ONormal (mkst [VPtr b 0; VInt (Z.of_nat n); VInt p; VInt c; VInt (Z.of_nat n); VInt r'] m) /\
        -1 <= r' < Z.of_nat n /\ ropt l r' = pos_next_f (skipn (S i) (firstn n l)) p (negb (c =? 0)) (ropt l r1)).
    { intros r1 Hr1. xstep. rewrite chk_I32 by lia. xstep. replace (Z.of_nat i + 1) with (Z.of_nat (S i)) by lia.
      apply IH; lia. }
    unfold pn_loop in Hstep; cbn [fn_body cf_pos_next] in Hstep.
    destruct (Z.leb_spec p (x - (if negb (c =? 0) then 0 else 1))) as [Hp|Hp]; xstep; cbn [andb].
    + unfold ropt at 2. destruct (Z.ltb_spec r 0) as [Hr0|Hr0]; xstep.
      * destruct (Hstep (Z.of_nat i) ltac:(lia)) as [r' [X Y]]. exists r'. split; [exact X|].
        replace (ropt l (Z.of_nat i)) with (Some x) in Y by (unfold ropt; destruct (Z.ltb_spec (Z.of_nat i) 0); [lia|reflexivity]).
        exact Y.
      * xld Hm Hok. fold x. xld Hm Hok.
        destruct (x <? nthz l r); xstep.
        -- destruct (Hstep (Z.of_nat i) ltac:(lia)) as [r' [X Y]]. exists r'. split; [exact X|].
           replace (ropt l (Z.of_nat i)) with (Some x) in Y by (unfold ropt; destruct (Z.ltb_spec (Z.of_nat i) 0); [lia|reflexivity]).
           exact Y.
        -- destruct (Hstep r ltac:(lia)) as [r' [X Y]]. exists r'. split; [exact X|exact Y].
    + destruct (Hstep r ltac:(lia)) as [r' [X Y]]. exists r'. split; [exact X|]. exact Y.
Qed.

Theorem tr_pos_next m b l n p c d fuel : int_arr_at m b l -> ints_ok l -> (n <= length l)%nat ->
  Z.of_nat n <= 2147483647 -> next_ok (firstn n l) (negb (c =? 0)) -> (n < fuel)%nat ->
  callf cprog fuel (S d) F_pos_next [VPtr b 0; VInt (Z.of_nat n); VInt p; VInt c] m
  = Ok (VInt (pos_next l n p (negb (c =? 0))), m).
Proof.
  intros Hm Hok Hn Hmax Hno Hf. enter F_pos_next cf_pos_next. xstep.
  change (chk I32 (- (1))) with (@Ok Z (-1)). xstep.
  destruct (pn_loop_ok (callf cprog fuel d) m b l n p c Hm Hok Hn Hmax Hno n 0%nat (-1) fuel ltac:(lia) ltac:(lia) Hf)
    as [r' [X [Y W]]].
  unfold pn_loop in X; cbn [fn_body cf_pos_next] in X. change (Z.of_nat 0) with 0 in X. rewrite X. xstep.
  unfold pos_next. cbn [skipn] in W. change (ropt l (-1)) with (@None Z) in W. rewrite <- W. unfold ropt.
  destruct (Z.leb_spec 0 r'); destruct (Z.ltb_spec r' 0); try lia; xstep.
  - xld Hm Hok. reflexivity.
  - reflexivity.
Qed.

(* ------------------------------------------------------------------ pos_prev *)
Definition pp_loop : stmt := match fn_body cf_pos_prev with SSeq _ (SSeq (SSeq _ w) _) => w | _ => SSkip end.

(* the C variable ret (an index, -1 = none yet) against the model's ret (the value pos[ret]) *)
Lemma pp_loop_ok call m b l n p c : int_arr_at m b l -> ints_ok l -> (n <= length l)%nat ->
  Z.of_nat n <= 2147483647 -> prev_ok (firstn n l) (negb (c =? 0)) ->
  forall k i r fuel, (i + k = n)%nat -> -1 <= r < Z.of_nat i -> (k < fuel)%nat ->
  exists r', exec call fuel pp_loop (mkst [VPtr b 0; VInt (Z.of_nat n); VInt p; VInt c; VInt (Z.of_nat i); VInt r] m)
             = ONormal (mkst [VPtr b 0; VInt (Z.of_nat n); VInt p; VInt c; VInt (Z.of_nat n); VInt r'] m)
    /\ -1 <= r' < Z.of_nat n
    /\ ropt l r' = pos_prev_f (skipn i (firstn n l)) p (negb (c =? 0)) (ropt l r).
Proof.
  intros Hm Hok Hn Hmax Hno. induction k as [|k IH]; intros i r fuel Hik Hr Hf; (destruct fuel as [|fuel]; [lia|]);
    unfold pp_loop; cbn [fn_body cf_pos_prev]; rewrite exec_for; xstep.
  - assert (i = n) by lia. subst i. destruct (Z.ltb_spec (Z.of_nat n) (Z.of_nat n)); [lia|]. xstep.
    exists r. split; [reflexivity|]. split; [lia|].
    rewrite skipn_all2 by (rewrite firstn_length; lia). reflexivity.
  - destruct (Z.ltb_spec (Z.of_nat i) (Z.of_nat n)); [|lia]. xstep.
    xld Hm Hok. pose proof (nthz_ok l (Z.of_nat i) Hok) as Hx.
    rewrite (skipn_cons_nthz (firstn n l) i) by (rewrite firstn_length; lia).
    assert (Hnx : nthz (firstn n l) (Z.of_nat i) = nthz l (Z.of_nat i)) by (apply nthz_firstn; lia).
    rewrite Hnx. cbn [pos_prev_f]. set (x := nthz l (Z.of_nat i)) in *.
    assert (Hsub : x + (if negb (c =? 0) then 0 else 1) <= 2147483647).
    { unfold prev_ok in Hno. rewrite Forall_forall in Hno. rewrite <- Hnx. apply Hno. unfold nthz. apply nth_In.
      rewrite firstn_length; lia. }
    assert (Hb : b2z (negb (negb (c =? 0))) = (if negb (c =? 0) then 0 else 1)) by (destruct (c =? 0); reflexivity).
    rewrite Hb. rewrite chk_I32 by (destruct (negb (c =? 0)); lia). xstep.
    assert (Hstep : forall r1, -1 <= r1 < Z.of_nat (S i) ->
      exists r' : Z,
        match (match eval call (EIncLocal true 4 (Some I32) 1)
                       (mkst [VPtr b 0; VInt (Z.of_nat n); VInt p; VInt c; VInt (Z.of_nat i); VInt r1] m) with
               | Ok (_, st3) => exec call fuel pp_loop st3
               | Err x0 => OErr x0 end) with o => o end
        = ONormal (mkst [VPtr b 0; VInt (Z.of_nat n); VInt p; VInt c; VInt (Z.of_nat n); VInt r'] m) /\
        -1 <= r' < Z.of_nat n /\ ropt l r' = pos_prev_f (skipn (S i) (firstn n l)) p (negb (c =? 0)) (ropt l r1)).
    { intros r1 Hr1. xstep. rewrite chk_I32 by lia. xstep. replace (Z.of_nat i + 1) with (Z.of_nat (S i)) by lia.
      apply IH; lia. }
    unfold pp_loop in Hstep; cbn [fn_body cf_pos_prev] in Hstep.
    destruct (Z.leb_spec (x + (if negb (c =? 0) then 0 else 1)) p) as [Hp|Hp]; xstep; cbn [andb].
    + unfold ropt at 2. destruct (Z.ltb_spec r 0) as [Hr0|Hr0]; xstep.
      * destruct (Hstep (Z.of_nat i) ltac:(lia)) as [r' [X Y]]. exists r'. split; [exact X|].
        replace (ropt l (Z.of_nat i)) with (Some x) in Y by (unfold ropt; destruct (Z.ltb_spec (Z.of_nat i) 0); [lia|reflexivity]).
        exact Y.
      * xld Hm Hok. fold x. xld Hm Hok.
        destruct (nthz l r <? x); xstep.
        -- destruct (Hstep (Z.of_nat i) ltac:(lia)) as [r' [X Y]]. exists r'. split; [exact X|].
           replace (ropt l (Z.of_nat i)) with (Some x) in Y by (unfold ropt; destruct (Z.ltb_spec (Z.of_nat i) 0); [lia|reflexivity]).
           exact Y.
        -- destruct (Hstep r ltac:(lia)) as [r' [X Y]]. exists r'. split; [exact X|exact Y].
    + destruct (Hstep r ltac:(lia)) as [r' [X Y]]. exists r'. split; [exact X|]. exact Y.
Qed.

Theorem tr_pos_prev m b l n p c d fuel : int_arr_at m b l -> ints_ok l -> (n <= length l)%nat ->
  Z.of_nat n <= 2147483647 -> prev_ok (firstn n l) (negb (c =? 0)) -> (n < fuel)%nat ->
  callf cprog fuel (S d) F_pos_prev [VPtr b 0; VInt (Z.of_nat n); VInt p; VInt c] m
  = Ok (VInt (pos_prev l n p (negb (c =? 0))), m).
Proof.
  intros Hm Hok Hn Hmax Hno Hf. enter F_pos_prev cf_pos_prev. xstep.
  change (chk I32 (- (1))) with (@Ok Z (-1)). xstep.
  destruct (pp_loop_ok (callf cprog fuel d) m b l n p c Hm Hok Hn Hmax Hno n 0%nat (-1) fuel ltac:(lia) ltac:(lia) Hf)
    as [r' [X [Y W]]].
  unfold pp_loop in X; cbn [fn_body cf_pos_prev] in X. change (Z.of_nat 0) with 0 in X. rewrite X. xstep.
  unfold pos_prev. cbn [skipn] in W. change (ropt l (-1)) with (@None Z) in W. rewrite <- W. unfold ropt.
  destruct (Z.leb_spec 0 r'); destruct (Z.ltb_spec r' 0); try lia; xstep.
  - xld Hm Hok. reflexivity.
  - reflexivity.
Qed.

(* ------------------------------------------------------------------ dir_reverse *)
(* the range reversal of DirDefs.dir_reverse, for any element type *)
Definition rev_range {A} (l : list A) (b e : nat) : list A :=
  if (b <? e)%nat then firstn b l ++ rev (firstn (e - b) (skipn b l)) ++ skipn e l else l.
Lemma dir_reverse_is_rev_range ord b e : dir_reverse ord b e = rev_range ord b e.
Proof. reflexivity. Qed.
Lemma map_rev_range {A B} (f : A -> B) l b e : map f (rev_range l b e) = rev_range (map f l) b e.
Proof.
  unfold rev_range. destruct (b <? e)%nat; [|reflexivity].
  rewrite !map_app, map_rev, !skipn_map, !firstn_map. reflexivity.
Qed.
Lemma length_rev_range {A} (l : list A) b e : (e <= length l)%nat -> length (rev_range l b e) = length l.
Proof.
  intro H. unfold rev_range. destruct (Nat.ltb_spec b e); [|reflexivity].
  rewrite !app_length, rev_length, !firstn_length, !skipn_length. lia.
Qed.
Lemma nth_firstn_lt {A} (l : list A) n i d : (i < n)%nat -> nth i (firstn n l) d = nth i l d.
Proof.
  revert n i; induction l as [|a l IH]; intros n i H; [rewrite firstn_nil; reflexivity|].
  destruct n as [|n]; [lia|]. destruct i as [|i]; [reflexivity|]. cbn [firstn nth]. apply IH. lia.
Qed.
Lemma nth_skipn_add {A} (l : list A) n i d : nth i (skipn n l) d = nth (n + i) l d.
Proof.
  revert l; induction n as [|n IH]; intro l; [reflexivity|]. destruct l as [|a l]; [destruct i; reflexivity|]. apply IH.
Qed.
(* cell by cell: inside [b, e) the mirror image, outside unchanged *)
Lemma nth_rev_range {A} (l : list A) b e i d : (e <= length l)%nat ->
  nth i (rev_range l b e) d = if (b <=? i)%nat && (i <? e)%nat then nth (b + e - 1 - i) l d else nth i l d.
Proof.
  intro H. unfold rev_range. destruct (Nat.ltb_spec b e) as [Hbe|Hbe].
  - destruct (Nat.leb_spec b i) as [Hbi|Hbi]; cbn [andb].
    + rewrite app_nth2 by (rewrite firstn_length; lia). rewrite firstn_length, Nat.min_l by lia.
      destruct (Nat.ltb_spec i e) as [Hie|Hie].
      * rewrite app_nth1 by (rewrite rev_length, firstn_length, skipn_length; lia).
        rewrite rev_nth by (rewrite firstn_length, skipn_length; lia).
        rewrite firstn_length, skipn_length, Nat.min_l by lia.
        rewrite nth_firstn_lt by lia. rewrite nth_skipn_add. f_equal. lia.
      * rewrite app_nth2 by (rewrite rev_length, firstn_length, skipn_length; lia).
        rewrite rev_length, firstn_length, skipn_length, Nat.min_l by lia.
        rewrite nth_skipn_add. f_equal. lia.
    + rewrite app_nth1 by (rewrite firstn_length; lia). apply nth_firstn_lt. lia.
  - destruct (Nat.leb_spec b i); destruct (Nat.ltb_spec i e); cbn [andb]; try reflexivity. lia.
Qed.

(* the loop of dir_reverse on lists: swap the two ends and move inwards (e1 is the C variable end after end--) *)
Fixpoint swaps (k : nat) (l : list Z) (b e1 : nat) : list Z :=
  match k with
  | O => l
  | S k => if (b <? e1)%nat
           then swaps k (upd (upd l b (nthz l (Z.of_nat e1))) e1 (nthz l (Z.of_nat b))) (S b) (e1 - 1)
           else l
  end.
Lemma length_swaps k : forall l b e1, (e1 < length l)%nat -> length (swaps k l b e1) = length l.
Proof.
  induction k as [|k IH]; intros l b e1 H; [reflexivity|]. cbn [swaps].
  destruct (Nat.ltb_spec b e1); [|reflexivity].
  rewrite IH; rewrite !upd_length; rewrite ?upd_length; lia.
Qed.
Lemma nth_swaps k : forall l b e1 i, (e1 < length l)%nat -> (e1 - b <= 2 * k)%nat ->
  nth i (swaps k l b e1) 0 = if (b <=? i)%nat && (i <=? e1)%nat then nth (b + e1 - i) l 0 else nth i l 0.
Proof.
  induction k as [|k IH]; intros l b e1 i H Hk; cbn [swaps].
  - destruct (Nat.leb_spec b i); destruct (Nat.leb_spec i e1); cbn [andb]; try reflexivity. f_equal. lia.
  - destruct (Nat.ltb_spec b e1) as [Hbe|Hbe].
    + rewrite IH by (rewrite ?upd_length; rewrite ?upd_length; lia).
      unfold nthz. rewrite !Nat2Z.id.
      rewrite !nth_upd by (rewrite ?upd_length; lia).
      destruct (Nat.leb_spec (S b) i); destruct (Nat.leb_spec i (e1 - 1)); destruct (Nat.leb_spec b i);
        destruct (Nat.leb_spec i e1); cbn [andb]; try lia;
        repeat match goal with |- context [Nat.eqb ?x ?y] => destruct (Nat.eqb_spec x y) end; try lia; try reflexivity;
        try (f_equal; lia).
    + destruct (Nat.leb_spec b i); destruct (Nat.leb_spec i e1); cbn [andb]; try reflexivity. f_equal. lia.
Qed.
Lemma swaps_is_rev_range k l b e : (e <= length l)%nat -> (1 <= e)%nat -> (e - 1 - b <= 2 * k)%nat ->
  swaps k l b (e - 1) = rev_range l b e.
Proof.
  intros H H1 Hk. apply (nth_ext _ _ 0 0).
  - rewrite length_swaps, length_rev_range by lia. reflexivity.
  - intros i _. rewrite nth_swaps, nth_rev_range by lia.
    destruct (Nat.leb_spec b i); destruct (Nat.leb_spec i (e - 1)); destruct (Nat.ltb_spec i e); cbn [andb]; try lia; try reflexivity.
    f_equal. lia.
Qed.
Lemma rev_range_small {A} (l : list A) b e : (e <= S b)%nat -> rev_range l b e = l.
Proof.
  intros H. unfold rev_range. destruct (Nat.ltb_spec b e); [|reflexivity].
  assert (e = S b) by lia. subst e. replace (S b - b)%nat with 1%nat by lia.
  replace (skipn (S b) l) with (skipn 1 (skipn b l)) by (rewrite skipn_skipn; f_equal; lia).
  rewrite <- (firstn_skipn b l) at 4. f_equal.
  destruct (skipn b l) as [|x r]; reflexivity.
Qed.

Definition dr_loop : stmt := match fn_body cf_dir_reverse with SSeq _ w => w | _ => SSkip end.

Ltac xst Hm :=
  match goal with
  | |- context [store ?m ?b (0 + 1 * ?z) (VInt ?v)] =>
      replace (0 + 1 * z) with z by lia; rewrite (store_int_arr m b _ z v Hm) by (rewrite ?upd_length; rewrite ?upd_length; lia); xstep
  end.

Lemma dr_loop_ok call g : forall k l b e1 fuel m tmp, int_arr_at m g l -> ints_ok l ->
  (b < e1 -> e1 < length l)%nat -> Z.of_nat b <= 2147483647 -> Z.of_nat e1 <= 2147483647 ->
  (e1 - b <= 2 * k)%nat -> (k < fuel)%nat ->
  exists loc', exec call fuel dr_loop (mkst [VPtr g 0; VInt (Z.of_nat b); VInt (Z.of_nat e1); tmp] m)
               = ONormal (mkst loc' (upd m g (map VInt (swaps k l b e1)))).
Proof.
  induction k as [|k IH]; intros l b e1 fuel m tmp Hm Hok Hin Hb He Hk Hf; (destruct fuel as [|fuel]; [lia|]);
    unfold dr_loop; cbn [fn_body cf_dir_reverse]; rewrite exec_while; xstep; cbn [swaps].
  - destruct (Z.ltb_spec (Z.of_nat b) (Z.of_nat e1)); [lia|]. xstep.
    rewrite (int_arr_upd_self m g l Hm). eexists; reflexivity.
  - destruct (Nat.ltb_spec b e1) as [Hbe|Hbe]; (destruct (Z.ltb_spec (Z.of_nat b) (Z.of_nat e1)); try lia); xstep.
    + specialize (Hin Hbe).
      xld Hm Hok. xld Hm Hok.
      xst Hm. rewrite ?(wrap_I32_id _ (nthz_ok l (Z.of_nat e1) Hok)), ?(wrap_I32_id _ (nthz_ok l (Z.of_nat b) Hok)).
      set (l1 := upd l (Z.to_nat (Z.of_nat b)) (nthz l (Z.of_nat e1))) in *.
      assert (Hm1 : int_arr_at (upd m g (map VInt l1)) g l1) by (apply (int_arr_at_upd m g l l1 Hm)).
      assert (Hl1 : length l1 = length l) by (unfold l1; apply upd_length; lia).
      xst Hm1. rewrite (int_arr_upd_upd m g l _ _ Hm).
      set (l2 := upd l1 (Z.to_nat (Z.of_nat e1)) (nthz l (Z.of_nat b))) in *.
      assert (Hm2 : int_arr_at (upd m g (map VInt l2)) g l2) by (apply (int_arr_at_upd m g l l2 Hm)).
      assert (Hl2 : length l2 = length l) by (unfold l2; rewrite upd_length; lia).
      rewrite !chk_I32 by lia. xstep. rewrite chk_I32 by lia. xstep.
      replace (Z.of_nat b + 1) with (Z.of_nat (S b)) by lia.
      replace (Z.of_nat e1 + -1) with (Z.of_nat (e1 - 1)) by lia.
      destruct (IH l2 (S b) (e1 - 1)%nat fuel (upd m g (map VInt l2)) (VInt (nthz l (Z.of_nat b))) Hm2) as [loc' X].
      * unfold l2, l1. apply ints_ok_upd; [apply ints_ok_upd; [exact Hok|]|]; apply nthz_ok; exact Hok.
      * lia.
      * lia.
      * lia.
      * lia.
      * lia.
      * exists loc'. unfold dr_loop in X; cbn [fn_body cf_dir_reverse] in X. rewrite X.
        rewrite (int_arr_upd_upd m g l _ _ Hm). unfold l2, l1. rewrite !Nat2Z.id. reflexivity.
    + rewrite (int_arr_upd_self m g l Hm). eexists; reflexivity.
Qed.

Lemma swaps_none k l b e1 : (e1 <= b)%nat -> swaps k l b e1 = l.
Proof. intro H. destruct k; cbn [swaps]; [reflexivity|]. destruct (Nat.ltb_spec b e1); [lia|reflexivity]. Qed.

(* the array as a list of ints.  The precondition is what the C text needs: beg and end are ints, and when at
   least one swap happens (beg < end - 1) the range ends inside the array; 0 <= beg holds because beg : nat *)
Theorem tr_dir_reverse_z m g l b e d fuel : int_arr_at m g l -> ints_ok l ->
  Z.of_nat b <= 2147483647 -> Z.of_nat e <= 2147483647 -> (S b < e -> e <= length l)%nat -> (e - b < fuel)%nat ->
  callf cprog fuel (S d) F_dir_reverse [VPtr g 0; VInt (Z.of_nat b); VInt (Z.of_nat e)] m
  = Ok (VUndef, upd m g (map VInt (rev_range l b e))).
Proof.
  intros Hm Hok Hb He Hin Hf. enter F_dir_reverse cf_dir_reverse. xstep.
  rewrite chk_I32 by lia. xstep.
  destruct e as [|e].
  - change (Z.of_nat 0 + -1) with (-1). destruct fuel as [|fuel]; [lia|]. rewrite exec_while. xstep.
    destruct (Z.ltb_spec (Z.of_nat b) (-1)); [lia|]. xstep.
    rewrite rev_range_small by lia. rewrite (int_arr_upd_self m g l Hm). reflexivity.
  - replace (Z.of_nat (S e) + -1) with (Z.of_nat e) by lia.
    destruct (dr_loop_ok (callf cprog fuel d) g (S e - b) l b e fuel m VUndef Hm Hok ltac:(lia) Hb ltac:(lia) ltac:(lia) ltac:(lia))
      as [loc' X].
    unfold dr_loop in X; cbn [fn_body cf_dir_reverse] in X. rewrite X. cbn [memm]. do 4 f_equal.
    destruct (Nat.lt_ge_cases b e) as [L|L].
    + rewrite <- (swaps_is_rev_range (S e - b) l b (S e)) by lia. f_equal. lia.
    + rewrite swaps_none by lia. rewrite rev_range_small by lia. reflexivity.
Qed.

(* the order array of dir.c: entries are character indices *)
Theorem tr_dir_reverse m g ord b e d fuel : int_arr_at m g (map Z.of_nat ord) -> ints_ok (map Z.of_nat ord) ->
  Z.of_nat b <= 2147483647 -> Z.of_nat e <= 2147483647 -> (S b < e -> e <= length ord)%nat -> (e - b < fuel)%nat ->
  callf cprog fuel (S d) F_dir_reverse [VPtr g 0; VInt (Z.of_nat b); VInt (Z.of_nat e)] m
  = Ok (VUndef, upd m g (map VInt (map Z.of_nat (dir_reverse ord b e)))).
Proof.
  intros Hm Hok Hb He Hin Hf. rewrite dir_reverse_is_rev_range, map_rev_range.
  apply tr_dir_reverse_z; try assumption. rewrite map_length. exact Hin.
Qed.

(* what the reversal does cell by cell: mirror image inside [b, e), nothing outside; same length *)
Lemma dir_reverse_cells ord b e i d : (e <= length ord)%nat ->
  length (dir_reverse ord b e) = length ord /\
  nth i (dir_reverse ord b e) d = if (b <=? i)%nat && (i <? e)%nat then nth (b + e - 1 - i) ord d else nth i ord d.
Proof. intro H. rewrite dir_reverse_is_rev_range. split; [apply length_rev_range; exact H|apply nth_rev_range; exact H]. Qed.

(* outside the precondition the C function does leave the array: one witness is enough to show the
   precondition is not idle -- see the Example in Properties_C18.v *)

(* deciding the side conditions on concrete arrays (for the Examples) *)
Lemma ints_ok_dec l : forallb (fun z => (-2147483648 <=? z) && (z <=? 2147483647)) l = true -> ints_ok l.
Proof. unfold ints_ok. rewrite forallb_forall, Forall_forall. intros H x Hin. specialize (H x Hin). lia. Qed.
Lemma next_ok_dec l (cur : bool) : forallb (fun x => -2147483648 <=? x - (if cur then 0 else 1)) l = true -> next_ok l cur.
Proof. unfold next_ok. rewrite forallb_forall, Forall_forall. intros H x Hin. specialize (H x Hin). lia. Qed.
Lemma prev_ok_dec l (cur : bool) : forallb (fun x => x + (if cur then 0 else 1) <=? 2147483647) l = true -> prev_ok l cur.
Proof. unfold prev_ok. rewrite forallb_forall, Forall_forall. intros H x Hin. specialize (H x Hin). lia. Qed.
