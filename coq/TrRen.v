(* TrRen.v -- the functions of ren.c / dir.c that work on an int array (the column array pos[] of
   ren_position, the order array ord[] of dir_reorder): the hand-written models (RenDefs.pos_next,
   RenDefs.pos_prev, DirDefs.dir_reverse) are what the C text says.  For each function, running the
   CLite term tools/c2clite.py generated from /repo (GenCFuncs.v) gives, for ALL arrays and arguments,
   the value / the memory the model predicts -- every load and store checked inside the array,
   no signed overflow, no fuel exhausted. *)
From Coq Require Import List ZArith NArith Bool Lia.
From NV Require Import Bytes RenDefs DirDefs CLite CLiteProps GenCFuncs TrUc.
Import ListNotations.
Local Open Scope Z_scope.

Ltac xld Hm Hok :=
  match goal with
  | |- context [load ?m ?b (0 + 1 * ?z)] =>
      replace (0 + 1 * z) with z by lia; rewrite (load_int_arr m b _ z Hm) by lia; xstep;
      rewrite (wrap_I32_id _ (nthz_ok _ z Hok))
  end.

(* ------------------------------------------------------------------ pos_next *)
Definition pn_loop : stmt := match fn_body cf_pos_next with SSeq _ (SSeq (SSeq _ w) _) => w | _ => SSkip end.

(* the C variable ret (an index, -1 = none yet) against the model's ret (the value pos[ret]) *)
Definition ropt (l : list Z) (r : Z) : option Z := if r <? 0 then None else Some (nthz l r).

(* the subtraction pos[i] - !cur must not leave int: columns are never INT_MIN in neatvi *)
Definition next_ok (l : list Z) (cur : bool) : Prop := Forall (fun x => -2147483648 <= x - (if cur then 0 else 1)) l.
Definition prev_ok (l : list Z) (cur : bool) : Prop := Forall (fun x => x + (if cur then 0 else 1) <= 2147483647) l.

Lemma pn_loop_ok call m b l n p c : int_arr_at m b l -> ints_ok l -> (n <= length l)%nat ->
  Z.of_nat n <= 2147483647 -> next_ok (firstn n l) (negb (c =? 0)) ->
  forall k i r fuel, (i + k = n)%nat -> -1 <= r < Z.of_nat i -> (k < fuel)%nat ->
  exists r', exec call fuel pn_loop (mkst [VPtr b 0; VInt (Z.of_nat n); VInt p; VInt c; VInt (Z.of_nat i); VInt r] m)
             = ONormal (mkst [VPtr b 0; VInt (Z.of_nat n); VInt p; VInt c; VInt (Z.of_nat n); VInt r'] m)
    /\ -1 <= r' < Z.of_nat n
    /\ ropt l r' = pos_next_f (skipn i (firstn n l)) p (negb (c =? 0)) (ropt l r).
Proof.
  intros Hm Hok Hn Hmax Hno. induction k as [|k IH]; intros i r fuel Hik Hr Hf; (destruct fuel as [|fuel]; [lia|]);
    unfold pn_loop; cbn [fn_body cf_pos_next]; rewrite exec_for; xstep.
  - assert (i = n) by lia. subst i. destruct (Z.ltb_spec (Z.of_nat n) (Z.of_nat n)); [lia|]. xstep.
    exists r. split; [reflexivity|]. split; [lia|].
    rewrite skipn_all2 by (rewrite firstn_length; lia). reflexivity.
  - destruct (Z.ltb_spec (Z.of_nat i) (Z.of_nat n)); [|lia]. xstep.
    xld Hm Hok. pose proof (nthz_ok l (Z.of_nat i) Hok) as Hx.
    rewrite (skipn_cons_nthz (firstn n l) i) by (rewrite firstn_length; lia).
    assert (Hnx : nthz (firstn n l) (Z.of_nat i) = nthz l (Z.of_nat i)) by (apply nthz_firstn; lia).
    rewrite Hnx. cbn [pos_next_f]. set (x := nthz l (Z.of_nat i)) in *.
    assert (Hsub : -2147483648 <= x - (if negb (c =? 0) then 0 else 1)).
    { unfold next_ok in Hno. rewrite Forall_forall in Hno. rewrite <- Hnx. apply Hno. unfold nthz. apply nth_In.
      rewrite firstn_length; lia. }
    assert (Hb : b2z (negb (negb (c =? 0))) = (if negb (c =? 0) then 0 else 1)) by (destruct (c =? 0); reflexivity).
    rewrite Hb. rewrite chk_I32 by (destruct (negb (c =? 0)); lia). xstep.
    assert (Hstep : forall r1, -1 <= r1 < Z.of_nat (S i) ->
      exists r' : Z,
        match (match eval call (EIncLocal true 4 (Some I32) 1)
                       (mkst [VPtr b 0; VInt (Z.of_nat n); VInt p; VInt c; VInt (Z.of_nat i); VInt r1] m) with
               | Ok (_, st3) => exec call fuel pn_loop st3
               | Err x0 => OErr x0 end) with o => o end
        = ONormal (mkst [VPtr b 0; VInt (Z.of_nat n); VInt p; VInt c; VInt (Z.of_nat n); VInt r'] m) /\
        -1 <= r' < Z.of_nat n /\ ropt l r' = pos_next_f (skipn (S i) (firstn n l)) p (negb (c =? 0)) (ropt l r1)).
    { intros r1 Hr1. xstep. rewrite chk_I32 by lia. xstep. replace (Z.of_nat i + 1) with (Z.of_nat (S i)) by lia.
      apply IH; lia. }
    unfold pn_loop in Hstep; cbn [fn_body cf_pos_next] in Hstep.
    destruct (Z.leb_spec p (x - (if negb (c =? 0) then 0 else 1))) as [Hp|Hp]; xstep; cbn [andb].
    + unfold ropt at 2. destruct (Z.ltb_spec r 0) as [Hr0|Hr0]; xstep.
      * destruct (Hstep (Z.of_nat i) ltac:(lia)) as [r' [X Y]]. exists r'. split; [exact X|].
        replace (ropt l (Z.of_nat i)) with (Some x) in Y by (unfold ropt; destruct (Z.ltb_spec (Z.of_nat i) 0); [lia|reflexivity]).
        exact Y.
      * xld Hm Hok. fold x. xld Hm Hok.
        destruct (x <? nthz l r); xstep.
        -- destruct (Hstep (Z.of_nat i) ltac:(lia)) as [r' [X Y]]. exists r'. split; [exact X|].
           replace (ropt l (Z.of_nat i)) with (Some x) in Y by (unfold ropt; destruct (Z.ltb_spec (Z.of_nat i) 0); [lia|reflexivity]).
           exact Y.
        -- destruct (Hstep r ltac:(lia)) as [r' [X Y]]. exists r'. split; [exact X|exact Y].
    + destruct (Hstep r ltac:(lia)) as [r' [X Y]]. exists r'. split; [exact X|]. exact Y.
Qed.

Theorem tr_pos_next m b l n p c d fuel : int_arr_at m b l -> ints_ok l -> (n <= length l)%nat ->
  Z.of_nat n <= 2147483647 -> next_ok (firstn n l) (negb (c =? 0)) -> (n < fuel)%nat ->
  callf cprog fuel (S d) F_pos_next [VPtr b 0; VInt (Z.of_nat n); VInt p; VInt c] m
  = Ok (VInt (pos_next l n p (negb (c =? 0))), m).
Proof.
  intros Hm Hok Hn Hmax Hno Hf. enter F_pos_next cf_pos_next. xstep.
  change (chk I32 (- (1))) with (@Ok Z (-1)). xstep.
  destruct (pn_loop_ok (callf cprog fuel d) m b l n p c Hm Hok Hn Hmax Hno n 0%nat (-1) fuel ltac:(lia) ltac:(lia) Hf)
    as [r' [X [Y W]]].
  unfold pn_loop in X; cbn [fn_body cf_pos_next] in X. change (Z.of_nat 0) with 0 in X. rewrite X. xstep.
  unfold pos_next. cbn [skipn] in W. change (ropt l (-1)) with (@None Z) in W. rewrite <- W. unfold ropt.
  destruct (Z.leb_spec 0 r'); destruct (Z.ltb_spec r' 0); try lia; xstep.
  - xld Hm Hok. reflexivity.
  - reflexivity.
Qed.

(* ------------------------------------------------------------------ pos_prev *)
Definition pp_loop : stmt := match fn_body cf_pos_prev with SSeq _ (SSeq (SSeq _ w) _) => w | _ => SSkip end.

(* the C variable ret (an index, -1 = none yet) against the model's ret (the value pos[ret]) *)
Lemma pp_loop_ok call m b l n p c : int_arr_at m b l -> ints_ok l -> (n <= length l)%nat ->
  Z.of_nat n <= 2147483647 -> prev_ok (firstn n l) (negb (c =? 0)) ->
  forall k i r fuel, (i + k = n)%nat -> -1 <= r < Z.of_nat i -> (k < fuel)%nat ->
  exists r', exec call fuel pp_loop (mkst [VPtr b 0; VInt (Z.of_nat n); VInt p; VInt c; VInt (Z.of_nat i); VInt r] m)
             = ONormal (mkst [VPtr b 0; VInt (Z.of_nat n); VInt p; VInt c; VInt (Z.of_nat n); VInt r'] m)
    /\ -1 <= r' < Z.of_nat n
    /\ ropt l r' = pos_prev_f (skipn i (firstn n l)) p (negb (c =? 0)) (ropt l r).
Proof.
  intros Hm Hok Hn Hmax Hno. induction k as [|k IH]; intros i r fuel Hik Hr Hf; (destruct fuel as [|fuel]; [lia|]);
    unfold pp_loop; cbn [fn_body cf_pos_prev]; rewrite exec_for; xstep.
  - assert (i = n) by lia. subst i. destruct (Z.ltb_spec (Z.of_nat n) (Z.of_nat n)); [lia|]. xstep.
    exists r. split; [reflexivity|]. split; [lia|].
    rewrite skipn_all2 by (rewrite firstn_length; lia). reflexivity.
  - destruct (Z.ltb_spec (Z.of_nat i) (Z.of_nat n)); [|lia]. xstep.
    xld Hm Hok. pose proof (nthz_ok l (Z.of_nat i) Hok) as Hx.
    rewrite (skipn_cons_nthz (firstn n l) i) by (rewrite firstn_length; lia).
    assert (Hnx : nthz (firstn n l) (Z.of_nat i) = nthz l (Z.of_nat i)) by (apply nthz_firstn; lia).
    rewrite Hnx. cbn [pos_prev_f]. set (x := nthz l (Z.of_nat i)) in *.
    assert (Hsub : x + (if negb (c =? 0) then 0 else 1) <= 2147483647).
    { unfold prev_ok in Hno. rewrite Forall_forall in Hno. rewrite <- Hnx. apply Hno. unfold nthz. apply nth_In.
      rewrite firstn_length; lia. }
    assert (Hb : b2z (negb (negb (c =? 0))) = (if negb (c =? 0) then 0 else 1)) by (destruct (c =? 0); reflexivity).
    rewrite Hb. rewrite chk_I32 by (destruct (negb (c =? 0)); lia). xstep.
    assert (Hstep : forall r1, -1 <= r1 < Z.of_nat (S i) ->
      exists r' : Z,
        match (match eval call (EIncLocal true 4 (Some I32) 1)
                       (mkst [VPtr b 0; VInt (Z.of_nat n); VInt p; VInt c; VInt (Z.of_nat i); VInt r1] m) with
               | Ok (_, st3) => exec call fuel pp_loop st3
               | Err x0 => OErr x0 end) with o => o end
        = ONormal (mkst [VPtr b 0; VInt (Z.of_nat n); VInt p; VInt c; VInt (Z.of_nat n); VInt r'] m) /\
        -1 <= r' < Z.of_nat n /\ ropt l r' = pos_prev_f (skipn (S i) (firstn n l)) p (negb (c =? 0)) (ropt l r1)).
    { intros r1 Hr1. xstep. rewrite chk_I32 by lia. xstep. replace (Z.of_nat i + 1) with (Z.of_nat (S i)) by lia.
      apply IH; lia. }
    unfold pp_loop in Hstep; cbn [fn_body cf_pos_prev] in Hstep.
    destruct (Z.leb_spec (x + (if negb (c =? 0) then 0 else 1)) p) as [Hp|Hp]; xstep; cbn [andb].
    + unfold ropt at 2. destruct (Z.ltb_spec r 0) as [Hr0|Hr0]; xstep.
      * destruct (Hstep (Z.of_nat i) ltac:(lia)) as [r' [X Y]]. exists r'. split; [exact X|].
        replace (ropt l (Z.of_nat i)) with (Some x) in Y by (unfold ropt; destruct (Z.ltb_spec (Z.of_nat i) 0); [lia|reflexivity]).
        exact Y.
      * xld Hm Hok. fold x. xld Hm Hok.
        destruct (nthz l r <? x); xstep.
        -- destruct (Hstep (Z.of_nat i) ltac:(lia)) as [r' [X Y]]. exists r'. split; [exact X|].
           replace (ropt l (Z.of_nat i)) with (Some x) in Y by (unfold ropt; destruct (Z.ltb_spec (Z.of_nat i) 0); [lia|reflexivity]).
           exact Y.
        -- destruct (Hstep r ltac:(lia)) as [r' [X Y]]. exists r'. split; [exact X|exact Y].
    + destruct (Hstep r ltac:(lia)) as [r' [X Y]]. exists r'. split; [exact X|]. exact Y.
Qed.

Theorem tr_pos_prev m b l n p c d fuel : int_arr_at m b l -> ints_ok l -> (n <= length l)%nat ->
  Z.of_nat n <= 2147483647 -> prev_ok (firstn n l) (negb (c =? 0)) -> (n < fuel)%nat ->
  callf cprog fuel (S d) F_pos_prev [VPtr b 0; VInt (Z.of_nat n); VInt p; VInt c] m
  = Ok (VInt (pos_prev l n p (negb (c =? 0))), m).
Proof.
  intros Hm Hok Hn Hmax Hno Hf. enter F_pos_prev cf_pos_prev. xstep.
  change (chk I32 (- (1))) with (@Ok Z (-1)). xstep.
  destruct (pp_loop_ok (callf cprog fuel d) m b l n p c Hm Hok Hn Hmax Hno n 0%nat (-1) fuel ltac:(lia) ltac:(lia) Hf)
    as [r' [X [Y W]]].
  unfold pp_loop in X; cbn [fn_body cf_pos_prev] in X. change (Z.of_nat 0) with 0 in X. rewrite X. xstep.
  unfold pos_prev. cbn [skipn] in W. change (ropt l (-1)) with (@None Z) in W. rewrite <- W. unfold ropt.
  destruct (Z.leb_spec 0 r'); destruct (Z.ltb_spec r' 0); try lia; xstep.
  - xld Hm Hok. reflexivity.
  - reflexivity.
Qed.
