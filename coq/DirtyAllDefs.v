(* DirtyAllDefs.v -- C02: ec_quit of ex.c for EVERY form (q, wq, x, xa, each with or without `!`) over the table bufs[] whose
   entries have a NAME or none (DirtyDefs.nbuf: nname = None is the buffer of an editor started without a file name, path "").

     if (cmd[0] == 'w' || cmd[0] == 'x')
             if (ec_write("", cmd, arg, NULL)) return 1;
     for (i = 0; i < LEN(bufs); i++) {
             if (bufs[i].lb) {
                     if (!strchr(cmd, 'a') && !strchr(cmd, '!'))
                             if (bufs_modified(i, "buffer modified")) { bufs_switch(i); return 0; }
                     if (strchr(cmd, 'a')) {
                             char *err = lbuf_save(b->lb, 0, -1, b->path, !!strchr(cmd, '!'), b->mtime);
                             if (err) { bufs_switch(i); ex_show(err); return 0; }
                     }
             }
     }
     xquit = 1;

   The `a` forms (xa, xa!; the command table has no wqa / qa) ask no buffer whether it is modified: EVERY occupied slot is handed to
   lbuf_save and the first error stops the quit.  What lbuf_save answers for a slot that has a path is the environment's business
   (mtime guards, open, write, close: IoDefs / DirtyIoDefs): here one boolean per call, in call order (`sch`; when the list is used up
   every further call succeeds).  A slot WITHOUT a path is not the environment's business: lbuf_save(lb, 0, -1, "", ...) finds
   mtime("") = -1 = the recorded stamp, so neither guard refuses, and open("", O_WRONLY | O_CREAT) fails: "write failed: cannot
   create file", with or without `!`, whether the buffer holds text or not.  A save that succeeds puts the text into the file and
   marks the buffer saved (`written`; ex.c since 37c81b2: lbuf_saved(b->lb, 0); b->mtime = mtime(b->path)).
   No proofs here (DirtyAllProps.v). *)
From Coq Require Import List Arith NArith ZArith Bool.
From NV Require Import GenConsts UndoDefs DirtyDefs.
Import ListNotations.

Definition ntable := list (option nbuf).
Definition noccupied (t : ntable) : list nbuf := flat_map (fun s => match s with Some b => [b] | None => [] end) t.
Definition set_nb (f : nbuf) (e : ebuf) : nbuf := {| nb := e; nname := nname f |}.

(* the environment's answer to the next lbuf_save call on a path *)
Definition next_ok (sch : list bool) : bool * list bool := match sch with [] => (true, []) | b :: r => (b, r) end.

(* lbuf_save returned NULL for the whole buffer and its own path: the file holds the text, and (since fix 37c81b2) the loop records it:
   lbuf_saved(b->lb, 0); b->mtime = mtime(b->path) -- the saved mark of DSaveWhole.  (Before 37c81b2 the buffer was left as it was: a
   REFUSED xa then had buffers whose file held a newer text than their saved mark said; after one undo they reported clean.) *)
Definition written (f : nbuf) : nbuf := set_nb f {| lb := lbuf_saved (lb (nb f)) false; disk := ln (lb (nb f)) |}.

(* bufs_switch(idx) on pre ++ Some b :: r, idx = length pre (DirtyDefs.switch_tab on entries with names) *)
Definition bumpN (s : option nbuf) : option nbuf := match s with Some x => Some (set_nb x (bumpE (nb x))) | None => None end.
Definition switch_n (pre : ntable) (b : nbuf) (r : ntable) : ntable :=
  match pre with
  | [] => bumpN (Some b) :: r
  | x :: p => Some b :: bumpN x :: p ++ r
  end.

(* the loop.  all = 'a' in cmd, bang = '!' in cmd.  calls = the names handed to lbuf_save so far (reversed; None = the empty path).
   Result: bufs[], xquit, the names handed to lbuf_save in call order, the unused answers. *)
Fixpoint quit_n (all bang : bool) (pre l : ntable) (sch : list bool) (calls : list (option nat))
  : ntable * bool * list (option nat) * list bool :=
  match l with
  | [] => (rev pre, true, rev calls, sch)
  | None :: r => quit_n all bang (None :: pre) r sch calls
  | Some f :: r =>
    let chk := negb all && negb bang in                                   (* !strchr(cmd, 'a') && !strchr(cmd, '!') *)
    let f1 := if chk then set_nb f (fst (bufs_modified (nb f))) else f in (* bufs_modified(i, ...) bumps that buffer's counter *)
    if chk && dirty_flag (nb f) then (switch_n (rev pre) f1 r, false, rev calls, sch)       (* "buffer modified" *)
    else if all then
      match nname f1 with
      | None => (switch_n (rev pre) f1 r, false, rev (None :: calls), sch)                 (* open("") fails *)
      | Some p =>
        let (ok, s') := next_ok sch in
        if ok then quit_n all bang (Some (written f1) :: pre) r s' (Some p :: calls)
        else (switch_n (rev pre) f1 r, false, rev (Some p :: calls), s')                   (* bufs_switch(i); ex_show(err); return 0 *)
      end
    else quit_n all bang (Some f1 :: pre) r sch calls
  end.

(* the write part of wq / x / xa: ec_write("", cmd, arg, NULL) -- the whole buffer (loc is ""), to the argument or the own path.
   x: `cmd[0] == 'x' && !lbuf_modified(xb)` (the call bumps) -> nothing to write.  Result: bufs[0], the command failed, unused answers *)
Definition head_write (isx : bool) (t : wtarget) (f : nbuf) (sch : list bool) : nbuf * bool * list bool :=
  let f1 := if isx then set_nb f (fst (bufs_modified (nb f))) else f in
  if isx && negb (dirty_flag (nb f)) then (f1, false, sch)
  else
    let n := length (ln (lb (nb f1))) in
    match t, nname f1 with
    | WPipe, _ => (f1, false, sch)                                        (* cmd_pipe: no file, nothing changes *)
    | WOwn, None => (f1, true, sch)                                       (* lbuf_save(""): cannot create file *)
    | _, _ =>
      let (ok, s') := next_ok sch in
      if ok then (fst (ec_write_named t 0 n f1), false, s') else (f1, true, s')
    end.

Inductive qcmd := CQ | CWq | CX | CXa.
Definition q_writes (c : qcmd) : bool := match c with CQ => false | _ => true end.        (* cmd[0] == 'w' || cmd[0] == 'x' *)
Definition q_isx (c : qcmd) : bool := match c with CX | CXa => true | _ => false end.     (* cmd[0] == 'x' *)
Definition q_all (c : qcmd) : bool := match c with CXa => true | _ => false end.          (* strchr(cmd, 'a') *)

(* ec_quit(loc, cmd, arg): (bufs[], xquit, names handed to lbuf_save by the loop, unused answers) *)
Definition ec_quit_n (c : qcmd) (bang : bool) (t : wtarget) (tab : ntable) (sch : list bool)
  : ntable * bool * list (option nat) * list bool :=
  match tab with
  | Some f0 :: rest =>
    if q_writes c then
      match head_write (q_isx c) t f0 sch with
      | (f0', true, s') => (Some f0' :: rest, false, [], s')               (* return 1 *)
      | (f0', false, s') => quit_n (q_all c) bang [] (Some f0' :: rest) s' []
      end
    else quit_n (q_all c) bang [] tab sch []
  | _ => quit_n (q_all c) bang [] tab sch []                               (* no current buffer: xb == NULL never happens in ex *)
  end.

