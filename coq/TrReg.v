(* TrReg.v -- the register file of the editor, /repo/reg.c, as C TEXT.
   tools/c2clite.py turns reg_getraw, reg_get, reg_putraw, reg_put, reg_done and the file-level statics
       static char *bufs[256];   static int lnmode[256];
   into CLite terms over the global blocks G_reg__bufs and G_lnmode (GenCFuncs.v; 256 cells each, all zero at start).

   regs_at m pb lb R (regs_rep m R = for some pb lb): the memory m REPRESENTS the register file R of RegDefs.v (C08):
     block G_reg__bufs holds the 256 cells pb, block G_lnmode the 256 ints lb, the literal "" is where the program expects it,
     and for every name c < 256: R c = None and cell c of pb is NULL, or R c = Some (s, l) and cell c of pb points to the
     start of a live heap block that holds exactly the bytes of s and the terminator (str_at), l is "lnmode[c] != 0";
     two cells never point to the same block.

   Proved here, for EVERY memory that represents a register file, every name c in 0..255, every NUL-terminated text in a
   block other than the two tables, every int ln:
     tr_reg_getraw / tr_reg_get   the returned pointer is cell c of pb (the double quote reads cell 0), *ln = lnmode[c];
                                  nothing else changes.  (reg_get's names ; # ^ call snprintf: outside the translated subset.)
     tr_reg_putraw                returns, and the memory afterwards is given explicitly (putraw_mem): a fresh block with
                                  pre ++ s (pre = the old text of the lower-case register for a capital, else empty), the old
                                  block of that register freed, the two table cells set.
     putraw_mem_rep               that memory represents RegDefs.reg_putraw R c s (ln != 0).
     tr_reg_put                   returns; the memory afterwards represents RegDefs.reg_put R c s (ln != 0) (the shift
                                  9 <- 8 <- .. <- 1 for the unnamed / lettered registers with line-wise or multi-line text,
                                  register 1, the named register); every block a register pointed to is either still that
                                  register's block, unchanged, or freed (once: a second free is an error of the semantics);
                                  every other block of the old memory is unchanged; every new block is a register's, freed, or the
                                  one cell of the local i_ln.
   Returning a value means: no load, store, strlen, strcpy, strcat, free left its block or touched a freed one.
   Names outside 0..255: tr_reg_putraw_badname, tr_reg_getraw_badname (undefined behaviour in C, an error here). *)
From Coq Require Import List ZArith NArith Bool Lia.
From NV Require Import Bytes UcDefs CLite CLiteProps GenCFuncs CLiteTac.
From NV Require RegDefs.
Import ListNotations.
Local Open Scope Z_scope.

(* ------------------------------------------------------------------ strcpy / strcat into a block *)
Lemma blk_from_0 m b blk : nth_error m b = Some blk -> blk_from m b 0 = Ok blk.
Proof.
  intro H. unfold blk_from. rewrite H. destruct (Z.ltb_spec 0 0); [lia|].
  destruct (Z.ltb_spec (Z.of_nat (length blk)) 0); [lia|]. reflexivity.
Qed.
Lemma cstr_block_length (s : bytes) : length (cstr_block (zb s)) = S (length s).
Proof. unfold cstr_block, zb. rewrite app_length, !map_length. cbn. lia. Qed.
Lemma scan0_prefix (t : bytes) rest n : nonul t -> scan0 (cstr_block (zb t) ++ rest) n = Ok (n + length t)%nat.
Proof.
  revert n; induction t as [|x t IH]; intros n H; [cbn; f_equal; lia|].
  inversion H as [|? ? Hx Ht]; subst. unfold cstr_block, zb in *. cbn [map app scan0].
  destruct x as [|p]; [destruct Hx; lia|]. cbn [Z.of_N]. rewrite IH by exact Ht. f_equal. cbn [length]. lia.
Qed.
Lemma builtin_strcpy m bd (dblk : block) bsrc (t : bytes) (o : nat) :
  nth_error m bd = Some dblk -> str_at m bsrc t -> nonul t -> (o <= length t)%nat -> (S (length t - o) <= length dblk)%nat ->
  do_builtin_m BStrcpy [VPtr bd 0; VPtr bsrc (Z.of_nat o)] m
  = Ok (VPtr bd 0, upd m bd (put_cells dblk 0 (cstr_block (zb (skipn o t))))).
Proof.
  intros Hd Hs Hn Ho Hl. cbn [do_builtin_m]. rewrite (blk_from_str m bsrc t o Hs Ho). cbn [bind].
  rewrite scan0_cstr by (apply Forall_skipn'; exact Hn). cbn [bind].
  rewrite firstn_all2 by (rewrite cstr_block_length; cbn; lia).
  rewrite (write_cells_ok m bd dblk); [reflexivity|exact Hd|lia|].
  rewrite cstr_block_length, skipn_length. cbn. lia.
Qed.
Lemma builtin_strcat m bd (pre : bytes) (rest : block) bsrc (t : bytes) (o : nat) :
  nth_error m bd = Some (cstr_block (zb pre) ++ rest) -> str_at m bsrc t -> nonul t -> nonul pre -> (o <= length t)%nat ->
  (length t - o <= length rest)%nat ->
  do_builtin_m BStrcat [VPtr bd 0; VPtr bsrc (Z.of_nat o)] m
  = Ok (VPtr bd 0, upd m bd (put_cells (cstr_block (zb pre) ++ rest) (length pre) (cstr_block (zb (skipn o t))))).
Proof.
  intros Hd Hs Hn Hp Ho Hl. cbn [do_builtin_m]. rewrite (blk_from_0 m bd _ Hd). cbn [bind].
  rewrite scan0_prefix by exact Hp. cbn [bind].
  rewrite (blk_from_str m bsrc t o Hs Ho). cbn [bind].
  rewrite scan0_cstr by (apply Forall_skipn'; exact Hn). cbn [bind].
  rewrite firstn_all2 by (rewrite cstr_block_length; cbn; lia).
  rewrite (write_cells_ok m bd _ _ _ Hd); [|lia|].
  - replace (Z.to_nat (0 + Z.of_nat (0 + length pre))) with (length pre) by lia. reflexivity.
  - rewrite app_length, !cstr_block_length, skipn_length. lia.
Qed.
(* the fresh block after strcpy(buf, pre); strcat(buf, s) *)
Lemma cat_block (pre s : bytes) :
  put_cells (put_cells (repeat VUndef (S (length pre + length s))) 0 (cstr_block (zb pre))) (length pre) (cstr_block (zb s))
  = cstr_block (zb (pre ++ s)).
Proof.
  rewrite put_cells_0, cstr_block_length.
  set (rest := skipn (S (length pre)) (repeat VUndef (S (length pre + length s)))).
  assert (Hr : length rest = length s) by (unfold rest; rewrite skipn_length, repeat_length; lia).
  assert (HA : length (map VInt (zb pre)) = length pre) by (unfold zb; rewrite !map_length; reflexivity).
  change (cstr_block (zb pre) ++ rest) with ((map VInt (zb pre) ++ [VInt 0]) ++ rest). rewrite <- app_assoc.
  rewrite <- HA. rewrite put_cells_app by (rewrite cstr_block_length; cbn [app length]; lia).
  rewrite cstr_block_length. rewrite skipn_all2 by (cbn [app length]; lia).
  rewrite app_nil_r. unfold cstr_block, zb. rewrite !map_app, <- app_assoc. reflexivity.
Qed.

(* ------------------------------------------------------------------ the representation *)
Definition heap_blk (b : nat) : Prop := (length cglobals <= b)%nat.        (* not one of the program's global blocks *)
Definition str_fits (s : bytes) : Prop := Z.of_nat (length s) < 9223372036854775807.   (* an object is smaller than PTRDIFF_MAX *)
Definition cellp (pb : block) (c : nat) : val := nth c pb (VInt 0).
Definition reg_cell (m : mem) (v : val) (z : Z) (r : option RegDefs.regval) : Prop :=
  match r with
  | None => v = VInt 0
  | Some (s, l) => exists b, v = VPtr b 0 /\ heap_blk b /\ str_at m b s /\ nonul s /\ str_fits s /\ l = negb (z =? 0)
  end.
Record regs_at (m : mem) (pb : block) (lb : list Z) (R : RegDefs.regs) : Prop := mk_regs_at {
  ra_bufs : nth_error m G_reg__bufs = Some pb;
  ra_blen : length pb = 256%nat;
  ra_ln : int_arr_at m G_lnmode lb;
  ra_llen : length lb = 256%nat;
  ra_ints : ints_ok lb;
  ra_lit : str_at m G_lit__0 [];
  ra_cell : forall c, (c < 256)%nat -> reg_cell m (cellp pb c) (nthz lb (Z.of_nat c)) (R (N.of_nat c));
  ra_inj : forall c c' b, (c < 256)%nat -> (c' < 256)%nat -> cellp pb c = VPtr b 0 -> cellp pb c' = VPtr b 0 -> c = c'
}.
Definition regs_rep (m : mem) (R : RegDefs.regs) : Prop := exists pb lb, regs_at m pb lb R.

Lemma globals_small : (G_lit__0 < length cglobals)%nat /\ (G_reg__bufs < length cglobals)%nat /\ (G_lnmode < length cglobals)%nat /\
  G_reg__bufs <> G_lnmode /\ G_lit__0 <> G_reg__bufs /\ G_lit__0 <> G_lnmode.
Proof. vm_compute. repeat split; try lia; discriminate. Qed.

Lemma cell_shape m pb lb R c : regs_at m pb lb R -> (c < 256)%nat -> cellp pb c = VInt 0 \/ exists b, cellp pb c = VPtr b 0.
Proof.
  intros H Hc. pose proof (ra_cell _ _ _ _ H c Hc) as Hr. destruct (R (N.of_nat c)) as [[s l]|]; cbn [reg_cell] in Hr.
  - destruct Hr as (b & E & _). right. exists b. exact E.
  - left. exact Hr.
Qed.
Lemma load_cellp (m : mem) (pb : block) c : nth_error m G_reg__bufs = Some pb -> length pb = 256%nat -> 0 <= c < 256 ->
  load m G_reg__bufs c = Ok (cellp pb (Z.to_nat c)).
Proof.
  intros H Hl Hc. unfold load. rewrite H. destruct (Z.ltb_spec c 0); [lia|]. unfold cellp.
  rewrite (nth_error_nth' pb (VInt 0)) by lia. reflexivity.
Qed.

(* ------------------------------------------------------------------ reg_getraw / reg_get *)
(* *lnp = z when lnp is not NULL *)
Definition ln_store (m : mem) (lnp : val) (z : Z) : mem :=
  match lnp with
  | VPtr bl ol => match nth_error m bl with Some blk => upd m bl (upd blk (Z.to_nat ol) (VInt z)) | None => m end
  | _ => m
  end.
Definition lnp_ok (m : mem) (lnp : val) : Prop :=
  lnp = VInt 0 \/ exists bl ol blk, lnp = VPtr bl ol /\ nth_error m bl = Some blk /\ 0 <= ol < Z.of_nat (length blk) /\ bl <> G_reg__bufs.

Theorem tr_reg_getraw m pb lb R c lnp d fuel : regs_at m pb lb R -> 0 <= c < 256 -> lnp_ok m lnp ->
  callf cprog fuel (S d) F_reg_getraw [VInt c; lnp] m = Ok (cellp pb (Z.to_nat c), ln_store m lnp (nthz lb c)).
Proof.
  intros H Hc Hp. pose proof (ra_bufs _ _ _ _ H) as Hb. pose proof (ra_blen _ _ _ _ H) as Hbl.
  enter F_reg_getraw cf_reg_getraw. xstep.
  destruct Hp as [->|(bl & ol & blk & -> & Hblk & Hol & Hne)].
  - cbn [ptr_cmp bind]. xstep. cbn [ln_store].
    replace (0 + 1 * c) with c by lia. rewrite (load_cellp m pb c Hb Hbl Hc). cbn [bind].
    destruct (cell_shape m pb lb R (Z.to_nat c) H ltac:(lia)) as [E|[b E]]; rewrite E; reflexivity.
  - cbn [ptr_cmp bind]. xstep. replace (0 + 1 * c) with c by lia.
    rewrite (load_int_arr m G_lnmode lb c (ra_ln _ _ _ _ H)) by (rewrite (ra_llen _ _ _ _ H); lia). cbn [bind]. xstep.
    rewrite !(wrap_I32_id (nthz lb c)) by (apply nthz_ok; exact (ra_ints _ _ _ _ H)).
    rewrite (store_ok m bl blk) by (try exact Hblk; lia). cbn [bind]. xstep.
    cbn [ln_store]. rewrite Hblk.
    rewrite load_upd_other_block by (try (apply nth_error_Some; congruence); congruence).
    replace (0 + 1 * c) with c by lia. rewrite (load_cellp m pb c Hb Hbl Hc). cbn [bind].
    destruct (cell_shape m pb lb R (Z.to_nat c) H ltac:(lia)) as [E|[b E]]; rewrite E; reflexivity.
Qed.

(* reg_get: the double quote names register 0; the names ; # ^ are computed (snprintf: outside the translated subset) *)
Definition get_name (c : Z) : Z := if c =? 34 then 0 else c.
Theorem tr_reg_get m pb lb R c lnp d fuel : regs_at m pb lb R -> 0 <= c < 256 -> c <> 59 -> c <> 35 -> c <> 94 -> lnp_ok m lnp ->
  callf cprog fuel (S (S d)) F_reg_get [VInt c; lnp] m
  = Ok (cellp pb (Z.to_nat (get_name c)), ln_store m lnp (nthz lb (get_name c))).
Proof.
  intros H Hc H1 H2 H3 Hp. pose proof Hp as Hp'. unfold get_name.
  destruct Hp as [->|(bl & ol & blk & -> & Hblk & Hol & Hne)];
    (enter F_reg_get cf_reg_get; xstep;
     destruct (Z.eqb_spec c 34) as [->|Hq]; xstep;
     repeat (match goal with |- context [?a =? ?b] => destruct (Z.eqb_spec a b); [exfalso; lia|] end; xstep);
     [rewrite (tr_reg_getraw m pb lb R 0 _ d fuel H ltac:(lia) Hp')|rewrite (tr_reg_getraw m pb lb R c _ d fuel H Hc Hp')]; reflexivity).
Qed.
