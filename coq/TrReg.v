(* TrReg.v -- the register file of the editor, /repo/reg.c, as C TEXT.
   tools/c2clite.py turns reg_getraw, reg_get, reg_putraw, reg_put, reg_done and the file-level statics
       static char *bufs[256];   static int lnmode[256];
   into CLite terms over the global blocks G_reg__bufs and G_lnmode (GenCFuncs.v; 256 cells each, all zero at start).

   regs_at m pb lb R (regs_rep m R = for some pb lb): the memory m REPRESENTS the register file R of RegDefs.v (C08):
     block G_reg__bufs holds the 256 cells pb, block G_lnmode the 256 ints lb, the literal "" is where the program expects it,
     and for every name c < 256: R c = None and cell c of pb is NULL, or R c = Some (s, l) and cell c of pb points to the
     start of a live heap block that holds exactly the bytes of s and the terminator (str_at), l is "lnmode[c] != 0";
     two cells never point to the same block.

   Proved here, for EVERY memory that represents a register file, every name c in 0..255, every NUL-terminated text in a
   block other than the two tables, every int ln:
     tr_reg_getraw / tr_reg_get   the returned pointer is cell c of pb (the double quote reads cell 0), *ln = lnmode[c];
                                  nothing else changes.  (reg_get's names ; # ^ call snprintf: outside the translated subset.)
     tr_reg_putraw                returns, and the memory afterwards is given explicitly (putraw_mem): a fresh block with
                                  pre ++ s (pre = the old text of the lower-case register for a capital, else empty), the old
                                  block of that register freed, the two table cells set.
     putraw_mem_rep               that memory represents RegDefs.reg_putraw R c s (ln != 0).
     tr_reg_put                   returns; the memory afterwards represents RegDefs.reg_put R c s (ln != 0) (the shift
                                  9 <- 8 <- .. <- 1 for the unnamed / lettered registers with line-wise or multi-line text,
                                  register 1, the named register); every block a register pointed to is either still that
                                  register's block, unchanged, or freed (once: a second free is an error of the semantics);
                                  every other block of the old memory is unchanged; every new block is a register's, freed, or the
                                  one cell of the local i_ln.
   Returning a value means: no load, store, strlen, strcpy, strcat, free left its block or touched a freed one.
   Names outside 0..255: tr_reg_putraw_badname, tr_reg_getraw_badname (undefined behaviour in C, an error here). *)
From Coq Require Import List ZArith NArith Bool Lia.
From NV Require Import Bytes UcDefs CLite CLiteProps GenCFuncs CLiteTac.
From NV Require RegDefs.
Import ListNotations.
Local Open Scope Z_scope.

(* ------------------------------------------------------------------ strcpy / strcat into a block *)
Lemma blk_from_0 m b blk : nth_error m b = Some blk -> blk_from m b 0 = Ok blk.
Proof.
  intro H. unfold blk_from. rewrite H. destruct (Z.ltb_spec 0 0); [lia|].
  destruct (Z.ltb_spec (Z.of_nat (length blk)) 0); [lia|]. reflexivity.
Qed.
Lemma cstr_block_length (s : bytes) : length (cstr_block (zb s)) = S (length s).
Proof. unfold cstr_block, zb. rewrite app_length, !map_length. cbn. lia. Qed.
Lemma scan0_prefix (t : bytes) rest n : nonul t -> scan0 (cstr_block (zb t) ++ rest) n = Ok (n + length t)%nat.
Proof.
  revert n; induction t as [|x t IH]; intros n H; [cbn; f_equal; lia|].
  inversion H as [|? ? Hx Ht]; subst. unfold cstr_block, zb in *. cbn [map app scan0].
  destruct x as [|p]; [destruct Hx; lia|]. cbn [Z.of_N]. rewrite IH by exact Ht. f_equal. cbn [length]. lia.
Qed.
Lemma builtin_strcpy m bd (dblk : block) bsrc (t : bytes) (o : nat) :
  nth_error m bd = Some dblk -> str_at m bsrc t -> nonul t -> (o <= length t)%nat -> (S (length t - o) <= length dblk)%nat ->
  do_builtin_m BStrcpy [VPtr bd 0; VPtr bsrc (Z.of_nat o)] m
  = Ok (VPtr bd 0, upd m bd (put_cells dblk 0 (cstr_block (zb (skipn o t))))).
Proof.
  intros Hd Hs Hn Ho Hl. cbn [do_builtin_m]. rewrite (blk_from_str m bsrc t o Hs Ho). cbn [bind].
  rewrite scan0_cstr by (apply Forall_skipn'; exact Hn). cbn [bind].
  rewrite firstn_all2 by (rewrite cstr_block_length; cbn; lia).
  rewrite (write_cells_ok m bd dblk); [reflexivity|exact Hd|lia|].
  rewrite cstr_block_length, skipn_length. cbn. lia.
Qed.
Lemma builtin_strcat m bd (pre : bytes) (rest : block) bsrc (t : bytes) (o : nat) :
  nth_error m bd = Some (cstr_block (zb pre) ++ rest) -> str_at m bsrc t -> nonul t -> nonul pre -> (o <= length t)%nat ->
  (length t - o <= length rest)%nat ->
  do_builtin_m BStrcat [VPtr bd 0; VPtr bsrc (Z.of_nat o)] m
  = Ok (VPtr bd 0, upd m bd (put_cells (cstr_block (zb pre) ++ rest) (length pre) (cstr_block (zb (skipn o t))))).
Proof.
  intros Hd Hs Hn Hp Ho Hl. cbn [do_builtin_m]. rewrite (blk_from_0 m bd _ Hd). cbn [bind].
  rewrite scan0_prefix by exact Hp. cbn [bind].
  rewrite (blk_from_str m bsrc t o Hs Ho). cbn [bind].
  rewrite scan0_cstr by (apply Forall_skipn'; exact Hn). cbn [bind].
  rewrite firstn_all2 by (rewrite cstr_block_length; cbn; lia).
  rewrite (write_cells_ok m bd _ _ _ Hd); [|lia|].
  - replace (Z.to_nat (0 + Z.of_nat (0 + length pre))) with (length pre) by lia. reflexivity.
  - rewrite app_length, !cstr_block_length, skipn_length. lia.
Qed.
(* the fresh block after strcpy(buf, pre); strcat(buf, s) *)
Lemma cat_block (pre s : bytes) :
  put_cells (put_cells (repeat VUndef (S (length pre + length s))) 0 (cstr_block (zb pre))) (length pre) (cstr_block (zb s))
  = cstr_block (zb (pre ++ s)).
Proof.
  rewrite put_cells_0, cstr_block_length.
  set (rest := skipn (S (length pre)) (repeat VUndef (S (length pre + length s)))).
  assert (Hr : length rest = length s) by (unfold rest; rewrite skipn_length, repeat_length; lia).
  assert (HA : length (map VInt (zb pre)) = length pre) by (unfold zb; rewrite !map_length; reflexivity).
  change (cstr_block (zb pre) ++ rest) with ((map VInt (zb pre) ++ [VInt 0]) ++ rest). rewrite <- app_assoc.
  rewrite <- HA. rewrite put_cells_app by (rewrite cstr_block_length; cbn [app length]; lia).
  rewrite cstr_block_length. rewrite skipn_all2 by (cbn [app length]; lia).
  rewrite app_nil_r. unfold cstr_block, zb. rewrite !map_app, <- app_assoc. reflexivity.
Qed.

(* ------------------------------------------------------------------ the representation *)
Definition heap_blk (b : nat) : Prop := (length cglobals <= b)%nat.        (* not one of the program's global blocks *)
Definition str_fits (s : bytes) : Prop := Z.of_nat (length s) < 9223372036854775807.   (* an object is smaller than PTRDIFF_MAX *)
Definition cellp (pb : block) (c : nat) : val := nth c pb (VInt 0).
Definition reg_cell (m : mem) (v : val) (z : Z) (r : option RegDefs.regval) : Prop :=
  match r with
  | None => v = VInt 0
  | Some (s, l) => exists b, v = VPtr b 0 /\ heap_blk b /\ str_at m b s /\ nonul s /\ str_fits s /\ l = negb (z =? 0)
  end.
Record regs_at (m : mem) (pb : block) (lb : list Z) (R : RegDefs.regs) : Prop := mk_regs_at {
  ra_bufs : nth_error m G_reg__bufs = Some pb;
  ra_blen : length pb = 256%nat;
  ra_ln : int_arr_at m G_lnmode lb;
  ra_llen : length lb = 256%nat;
  ra_ints : ints_ok lb;
  ra_lit : str_at m G_lit__0 [];
  ra_cell : forall c, (c < 256)%nat -> reg_cell m (cellp pb c) (nthz lb (Z.of_nat c)) (R (N.of_nat c));
  ra_inj : forall c c' b, (c < 256)%nat -> (c' < 256)%nat -> cellp pb c = VPtr b 0 -> cellp pb c' = VPtr b 0 -> c = c';
  ra_glob : (length cglobals <= length m)%nat          (* the program's global blocks come first *)
}.
Definition regs_rep (m : mem) (R : RegDefs.regs) : Prop := exists pb lb, regs_at m pb lb R.

Lemma globals_small : (G_lit__0 < length cglobals)%nat /\ (G_reg__bufs < length cglobals)%nat /\ (G_lnmode < length cglobals)%nat /\
  G_reg__bufs <> G_lnmode /\ G_lit__0 <> G_reg__bufs /\ G_lit__0 <> G_lnmode.
Proof. vm_compute. repeat split; try lia; discriminate. Qed.

Lemma cell_shape m pb lb R c : regs_at m pb lb R -> (c < 256)%nat -> cellp pb c = VInt 0 \/ exists b, cellp pb c = VPtr b 0.
Proof.
  intros H Hc. pose proof (ra_cell _ _ _ _ H c Hc) as Hr. destruct (R (N.of_nat c)) as [[s l]|]; cbn [reg_cell] in Hr.
  - destruct Hr as (b & E & _). right. exists b. exact E.
  - left. exact Hr.
Qed.
Lemma load_cellp (m : mem) (pb : block) c : nth_error m G_reg__bufs = Some pb -> length pb = 256%nat -> 0 <= c < 256 ->
  load m G_reg__bufs c = Ok (cellp pb (Z.to_nat c)).
Proof.
  intros H Hl Hc. unfold load. rewrite H. destruct (Z.ltb_spec c 0); [lia|]. unfold cellp.
  rewrite (nth_error_nth' pb (VInt 0)) by lia. reflexivity.
Qed.

(* ------------------------------------------------------------------ reg_getraw / reg_get *)
(* *lnp = z when lnp is not NULL *)
Definition ln_store (m : mem) (lnp : val) (z : Z) : mem :=
  match lnp with
  | VPtr bl ol => match nth_error m bl with Some blk => upd m bl (upd blk (Z.to_nat ol) (VInt z)) | None => m end
  | _ => m
  end.
Definition lnp_ok (m : mem) (lnp : val) : Prop :=
  lnp = VInt 0 \/ exists bl ol blk, lnp = VPtr bl ol /\ nth_error m bl = Some blk /\ 0 <= ol < Z.of_nat (length blk) /\ bl <> G_reg__bufs.

Theorem tr_reg_getraw m pb lb R c lnp d fuel : regs_at m pb lb R -> 0 <= c < 256 -> lnp_ok m lnp ->
  callf cprog fuel (S d) F_reg_getraw [VInt c; lnp] m = Ok (cellp pb (Z.to_nat c), ln_store m lnp (nthz lb c)).
Proof.
  intros H Hc Hp. pose proof (ra_bufs _ _ _ _ H) as Hb. pose proof (ra_blen _ _ _ _ H) as Hbl.
  enter F_reg_getraw cf_reg_getraw. xstep.
  destruct Hp as [->|(bl & ol & blk & -> & Hblk & Hol & Hne)].
  - cbn [ptr_cmp bind]. xstep. cbn [ln_store].
    replace (0 + 1 * c) with c by lia. rewrite (load_cellp m pb c Hb Hbl Hc). cbn [bind].
    destruct (cell_shape m pb lb R (Z.to_nat c) H ltac:(lia)) as [E|[b E]]; rewrite E; reflexivity.
  - cbn [ptr_cmp bind]. xstep. replace (0 + 1 * c) with c by lia.
    rewrite (load_int_arr m G_lnmode lb c (ra_ln _ _ _ _ H)) by (rewrite (ra_llen _ _ _ _ H); lia). cbn [bind]. xstep.
    rewrite !(wrap_I32_id (nthz lb c)) by (apply nthz_ok; exact (ra_ints _ _ _ _ H)).
    rewrite (store_ok m bl blk) by (try exact Hblk; lia). cbn [bind]. xstep.
    cbn [ln_store]. rewrite Hblk.
    rewrite load_upd_other_block by (try (apply nth_error_Some; congruence); congruence).
    replace (0 + 1 * c) with c by lia. rewrite (load_cellp m pb c Hb Hbl Hc). cbn [bind].
    destruct (cell_shape m pb lb R (Z.to_nat c) H ltac:(lia)) as [E|[b E]]; rewrite E; reflexivity.
Qed.

(* reg_get: the double quote names register 0; the names ; # ^ are computed (snprintf: outside the translated subset) *)
Definition get_name (c : Z) : Z := if c =? 34 then 0 else c.
Theorem tr_reg_get m pb lb R c lnp d fuel : regs_at m pb lb R -> 0 <= c < 256 -> c <> 59 -> c <> 35 -> c <> 94 -> lnp_ok m lnp ->
  callf cprog fuel (S (S d)) F_reg_get [VInt c; lnp] m
  = Ok (cellp pb (Z.to_nat (get_name c)), ln_store m lnp (nthz lb (get_name c))).
Proof.
  intros H Hc H1 H2 H3 Hp. pose proof Hp as Hp'. unfold get_name.
  destruct Hp as [->|(bl & ol & blk & -> & Hblk & Hol & Hne)];
    (enter F_reg_get cf_reg_get; xstep;
     destruct (Z.eqb_spec c 34) as [->|Hq]; xstep;
     repeat (match goal with |- context [?a =? ?b] => destruct (Z.eqb_spec a b); [exfalso; lia|] end; xstep);
     [rewrite (tr_reg_getraw m pb lb R 0 _ d fuel H ltac:(lia) Hp')|rewrite (tr_reg_getraw m pb lb R c _ d fuel H Hc Hp')]; reflexivity).
Qed.

(* ------------------------------------------------------------------ <ctype.h> on a register name *)
Definition lowz (c : Z) : Z := if ct_isupper c then c + 32 else c.
Lemma ct_arg_ok c : 0 <= c < 256 -> ct_arg c = Ok c.
Proof. intro H. unfold ct_arg. destruct (Z.leb_spec (-1) c); [|lia]. destruct (Z.leb_spec c 255); [|lia]. reflexivity. Qed.
Lemma builtin_isupper m c : 0 <= c < 256 -> do_builtin_m BIsupper [VInt c] m = Ok (VInt (b2z (ct_isupper c)), m).
Proof. intro H. cbn [do_builtin_m do_builtin]. rewrite ct_arg_ok by exact H. reflexivity. Qed.
Lemma builtin_isalpha m c : 0 <= c < 256 -> do_builtin_m BIsalpha [VInt c] m = Ok (VInt (b2z (ct_isalpha c)), m).
Proof. intro H. cbn [do_builtin_m do_builtin]. rewrite ct_arg_ok by exact H. reflexivity. Qed.
Lemma builtin_tolower m c : 0 <= c < 256 -> do_builtin_m BTolower [VInt c] m = Ok (VInt (lowz c), m).
Proof. intro H. cbn [do_builtin_m do_builtin]. rewrite ct_arg_ok by exact H. reflexivity. Qed.
Lemma lowz_range c : 0 <= c < 256 -> 0 <= lowz c < 256.
Proof. intro H. unfold lowz, ct_isupper. destruct (Z.leb_spec 65 c); destruct (Z.leb_spec c 90); cbn [andb]; lia. Qed.
(* the model's ctype (UcDefs, on N) is the C library's (CLite, on Z) *)
Lemma isupper_N c : 0 <= c -> c_isupper (Z.to_N c) = ct_isupper c.
Proof.
  intro H. unfold c_isupper, ct_isupper.
  destruct (N.leb_spec 65 (Z.to_N c)); destruct (Z.leb_spec 65 c); try lia;
  destruct (N.leb_spec (Z.to_N c) 90); destruct (Z.leb_spec c 90); try lia; reflexivity.
Qed.
Lemma tolower_N c : 0 <= c -> c_tolower (Z.to_N c) = Z.to_N (lowz c).
Proof. intro H. unfold c_tolower, lowz. rewrite isupper_N by exact H. destruct (ct_isupper c); lia. Qed.
Lemma isalpha_N c : 0 <= c -> c_isalpha (Z.to_N c) = ct_isalpha c.
Proof.
  intro H. unfold c_isalpha, ct_isalpha. rewrite isupper_N by exact H. f_equal. unfold c_islower, ct_islower.
  destruct (N.leb_spec 97 (Z.to_N c)); destruct (Z.leb_spec 97 c); try lia;
  destruct (N.leb_spec (Z.to_N c) 122); destruct (Z.leb_spec c 122); try lia; reflexivity.
Qed.

Lemma builtin_strlen0 m b (s : bytes) : str_at m b s -> nonul s -> do_builtin_m BStrlen [VPtr b 0] m = Ok (VInt (Z.of_nat (length s)), m).
Proof. intros H Hn. change 0 with (Z.of_nat 0). rewrite (builtin_strlen m b s 0 H Hn) by lia. rewrite Nat.sub_0_r. reflexivity. Qed.

(* ------------------------------------------------------------------ reg_putraw *)
(* the text in front of s: the old text of the lower-case register when the name is a capital *)
Definition pre_of (R : RegDefs.regs) (c : Z) : bytes :=
  if ct_isupper c then match R (Z.to_N (lowz c)) with Some (b, _) => b | None => [] end else [].
(* the memory after reg_putraw(c, s, ln): a fresh block with the new text, the old block of the register freed,
   bufs[tolower(c)] and lnmode[tolower(c)] set *)
Definition free_cell (v : val) (m : mem) : mem := match v with VPtr b0 _ => upd m b0 [] | _ => m end.
Definition putraw_mem (m : mem) (pb : block) (lb : list Z) (lc : nat) (txt : bytes) (ln : Z) : mem :=
  upd (upd (free_cell (cellp pb lc) (m ++ [cstr_block (zb txt)])) G_reg__bufs (upd pb lc (VPtr (length m) 0)))
      G_lnmode (map VInt (upd lb lc ln)).

Definition putraw_e1 : expr := match fn_body cf_reg_putraw with SSeq (SExpr e) _ => e | _ => EConst 0 end.
Lemma putraw_head call m pb lb R c sp lnv : regs_at m pb lb R -> 0 <= c < 256 ->
  exists bp, str_at m bp (pre_of R c) /\ nonul (pre_of R c) /\ (bp < length m)%nat /\
    eval call putraw_e1 (mkst [VInt c; sp; lnv; VUndef; VUndef] m) = Ok (VPtr bp 0, mkst [VInt c; sp; lnv; VPtr bp 0; VUndef] m).
Proof.
  intros H Hc. pose proof (ra_bufs _ _ _ _ H) as Hb. pose proof (ra_blen _ _ _ _ H) as Hbl.
  pose proof (lowz_range c Hc) as Hlc. pose proof (ra_lit _ _ _ _ H) as Hlit.
  assert (Hl0 : (G_lit__0 < length m)%nat) by (apply nth_error_Some; unfold str_at in Hlit; congruence).
  unfold putraw_e1. cbn [fn_body cf_reg_putraw]. xcbn. rewrite (builtin_isupper m c Hc). xcbn. unfold pre_of.
  destruct (ct_isupper c) eqn:Eu; cbn [b2z]; xstep.
  - rewrite (builtin_tolower m c Hc). xcbn. replace (0 + 1 * lowz c) with (lowz c) by lia.
    rewrite (load_cellp m pb _ Hb Hbl Hlc). xcbn.
    pose proof (ra_cell _ _ _ _ H (Z.to_nat (lowz c)) ltac:(lia)) as Hr. rewrite Z_nat_N, Z2Nat.id in Hr by lia.
    destruct (R (Z.to_N (lowz c))) as [[t l]|]; cbn [reg_cell] in Hr.
    + destruct Hr as (b & E & Hh & Hs & Hn & _). rewrite E. xcbn.
      rewrite (builtin_tolower m c Hc). xcbn. replace (0 + 1 * lowz c) with (lowz c) by lia.
      rewrite (load_cellp m pb _ Hb Hbl Hlc). rewrite E. xcbn.
      exists b. repeat split; try assumption. apply nth_error_Some. unfold str_at in Hs. congruence.
    + rewrite Hr. xcbn. exists G_lit__0. repeat split; try assumption. constructor.
  - exists G_lit__0. repeat split; try assumption. constructor.
Qed.

Theorem tr_reg_putraw m pb lb R c bs (t : bytes) (o : nat) ln d fuel :
  regs_at m pb lb R -> 0 <= c < 256 -> str_at m bs t -> nonul t -> (o <= length t)%nat ->
  bs <> G_reg__bufs -> bs <> G_lnmode -> int_ok ln -> str_fits (pre_of R c ++ skipn o t) ->
  callf cprog fuel (S d) F_reg_putraw [VInt c; VPtr bs (Z.of_nat o); VInt ln] m
  = Ok (VUndef, putraw_mem m pb lb (Z.to_nat (lowz c)) (pre_of R c ++ skipn o t) ln).
Proof.
  intros H Hc Hs Hn Ho Hb1 Hb2 Hln Hfit.
  pose proof (ra_bufs _ _ _ _ H) as Hb. pose proof (ra_blen _ _ _ _ H) as Hbl.
  pose proof (lowz_range c Hc) as Hlc. destruct globals_small as (G0 & G1 & G2 & G3 & G4 & G5).
  set (s := skipn o t) in *. set (pre := pre_of R c) in *.
  assert (Hsn : nonul s) by (apply Forall_skipn'; exact Hn).
  assert (Hbs : (bs < length m)%nat) by (apply nth_error_Some; unfold str_at in Hs; congruence).
  enter F_reg_putraw cf_reg_putraw. rewrite exec_seq, exec_expr.
  match goal with |- context [eval ?call ?e ?st] =>
    destruct (putraw_head call m pb lb R c (VPtr bs (Z.of_nat o)) (VInt ln) H Hc) as (bp & Hbp & Hpn & Hbpl & E);
    change e with putraw_e1; rewrite E; clear E end.
  fold pre in Hbp, Hpn.
  xstep. rewrite (builtin_strlen0 m bp pre Hbp Hpn). xstep.
  rewrite (builtin_strlen m bs t o Hs Hn Ho). xstep.
  assert (Hsl : length s = (length t - o)%nat) by (unfold s; apply skipn_length). rewrite <- Hsl.
  assert (Hfit' : Z.of_nat (length pre) + Z.of_nat (length s) < 9223372036854775807)
    by (unfold str_fits in Hfit; rewrite app_length in Hfit; lia).
  rewrite chk_U64 by lia. xstep. change (wrap U64 1) with 1. rewrite chk_U64 by lia. xstep.
  rewrite malloc_ok by lia. xstep.
  replace (Z.to_nat (Z.of_nat (length pre) + Z.of_nat (length s) + 1)) with (S (length pre + length s)) by lia.
  set (nb := length m). set (blk0 := repeat VUndef (S (length pre + length s))). set (m1 := m ++ [blk0]).
  assert (Hnb : nth_error m1 nb = Some blk0) by (apply nth_error_app_new).
  assert (Hbp1 : str_at m1 bp pre) by (unfold str_at, m1; rewrite nth_error_app_old by exact Hbpl; exact Hbp).
  change (VPtr bp 0) with (VPtr bp (Z.of_nat 0)).
  rewrite (builtin_strcpy m1 nb blk0 bp pre 0 Hnb Hbp1 Hpn) by (try (unfold blk0; rewrite repeat_length); lia). xstep.
  cbn [skipn]. unfold m1 at 1. rewrite (upd_app_new m blk0).
  set (rest := skipn (S (length pre)) blk0).
  assert (Hrest : length rest = length s) by (unfold rest, blk0; rewrite skipn_length, repeat_length; lia).
  assert (Eb1 : put_cells blk0 0 (cstr_block (zb pre)) = cstr_block (zb pre) ++ rest)
    by (rewrite put_cells_0, cstr_block_length; reflexivity).
  match goal with |- context [do_builtin_m BStrcat _ ?mm] => set (m2 := mm) end.
  assert (Hnb2 : nth_error m2 nb = Some (cstr_block (zb pre) ++ rest)) by (unfold m2, nb; rewrite nth_error_app_new, Eb1; reflexivity).
  assert (Hs2 : str_at m2 bs t) by (unfold str_at, m2; rewrite nth_error_app_old by exact Hbs; exact Hs).
  rewrite (builtin_strcat m2 nb pre rest bs t o Hnb2 Hs2 Hn Hpn Ho) by lia. xstep.
  fold s. rewrite <- Eb1. unfold blk0 at 1. rewrite cat_block. unfold m2. rewrite (upd_app_new m).
  match goal with |- context [do_builtin_m BTolower _ ?mm] => set (m3 := mm) end.
  rewrite (builtin_tolower _ c Hc). xstep. replace (0 + 1 * lowz c) with (lowz c) by lia.
  assert (Hb3 : nth_error m3 G_reg__bufs = Some pb) by (unfold m3; rewrite nth_error_app_old by (apply nth_error_Some; congruence); exact Hb).
  rewrite (load_cellp m3 pb _ Hb3 Hbl Hlc). xstep.
  set (lc := Z.to_nat (lowz c)) in *.
  assert (Hlnm : (G_lnmode < length m)%nat) by (apply nth_error_Some; pose proof (ra_ln _ _ _ _ H) as X; unfold int_arr_at in X; congruence).
  assert (Hfree : exists m4, m4 = free_cell (cellp pb lc) m3 /\ do_builtin_m BFree [cellp pb lc] m3 = Ok (VUndef, m4) /\ (cellp pb lc = VInt 0 \/ exists b0, cellp pb lc = VPtr b0 0) /\ nth_error m4 G_reg__bufs = Some pb /\ int_arr_at m4 G_lnmode lb).
  { pose proof (ra_cell _ _ _ _ H lc ltac:(unfold lc; lia)) as Hr.
    destruct (R (N.of_nat lc)) as [[t0 l0]|]; cbn [reg_cell] in Hr.
    - destruct Hr as (b0 & E & Hh & Hs0 & _). rewrite E. cbn [free_cell]. eexists. split; [reflexivity|].
      assert (Hb0 : (b0 < length m)%nat) by (apply nth_error_Some; unfold str_at in Hs0; congruence).
      assert (Hb0' : nth_error m3 b0 = Some (cstr_block (zb t0))) by (unfold m3; rewrite nth_error_app_old by exact Hb0; exact Hs0).
      assert (Hl3 : (b0 < length m3)%nat) by (apply nth_error_Some; congruence).
      unfold heap_blk in Hh.
      split; [apply (free_ok m3 b0 _ Hb0'); unfold cstr_block; destruct (map VInt (zb t0)); discriminate|].
      split; [right; exists b0; reflexivity|].
      split; [rewrite mem_upd_other by (try exact Hl3; lia); exact Hb3|].
      unfold int_arr_at. rewrite mem_upd_other by (try exact Hl3; lia). unfold m3. rewrite nth_error_app_old by lia.
      exact (ra_ln _ _ _ _ H).
    - rewrite Hr. cbn [free_cell]. eexists. split; [reflexivity|]. split; [reflexivity|]. split; [left; reflexivity|].
      split; [exact Hb3|]. unfold int_arr_at, m3. rewrite nth_error_app_old by lia. exact (ra_ln _ _ _ _ H). }
  destruct Hfree as (m4 & Em4 & Hfr & Hshape & Hb4 & Hl4).
  assert (Ecell : forall (st : state), (match cellp pb lc with VUndef => Err EUndef | VInt (Z.pos _) | VInt (Z.neg _) => Err EType
           | _ => Ok (cellp pb lc, st) end) = Ok (cellp pb lc, st))
    by (intro st; destruct Hshape as [E|[b0 E]]; rewrite E; reflexivity).
  rewrite Ecell. xstep. rewrite Hfr. xstep.
  rewrite (builtin_tolower _ c Hc). xstep. replace (0 + 1 * lowz c) with (lowz c) by lia.
  rewrite (store_ok m4 G_reg__bufs pb) by (try exact Hb4; lia). xstep.
  rewrite (builtin_tolower _ c Hc). xstep. replace (0 + 1 * lowz c) with (lowz c) by lia.
  rewrite (wrap_int_ok ln Hln).
  assert (Hb4l : (G_reg__bufs < length m4)%nat) by (apply nth_error_Some; congruence).
  assert (Hl5 : int_arr_at (upd m4 G_reg__bufs (upd pb (Z.to_nat (lowz c)) (VPtr nb 0))) G_lnmode lb)
    by (unfold int_arr_at; rewrite mem_upd_other by (try exact Hb4l; congruence); exact Hl4).
  rewrite (store_int_arr _ G_lnmode lb (lowz c) ln Hl5) by (rewrite (ra_llen _ _ _ _ H); lia). xstep.
  unfold putraw_mem. fold m3. rewrite <- Em4. reflexivity.
Qed.

(* names outside 0..255 (and not EOF): isupper(c) is undefined behaviour in C, the error ECtype here; reg_getraw reads outside
   the two tables: the error EOob.  (ex.c passes REG(s) = an unsigned char; vi.c passes the key it read, an unsigned char.) *)
Theorem tr_reg_putraw_badname m c sp ln d fuel : (c < -1 \/ 255 < c) -> sp <> VUndef ->
  callf cprog fuel (S d) F_reg_putraw [VInt c; sp; VInt ln] m = Err ECtype.
Proof.
  intros Hc Hsp. enter F_reg_putraw cf_reg_putraw. xstep. cbn [do_builtin_m do_builtin]. unfold ct_arg.
  replace ((-1 <=? c) && (c <=? 255)) with false by (destruct (Z.leb_spec (-1) c); destruct (Z.leb_spec c 255); cbn; lia).
  reflexivity.
Qed.
Theorem tr_reg_getraw_badname m pb lb R c d fuel : regs_at m pb lb R -> (c < 0 \/ 256 <= c) ->
  callf cprog fuel (S d) F_reg_getraw [VInt c; VInt 0] m = Err EOob.
Proof.
  intros H Hc. enter F_reg_getraw cf_reg_getraw. xstep. cbn [ptr_cmp bind]. xstep.
  replace (0 + 1 * c) with c by lia. unfold load. rewrite (ra_bufs _ _ _ _ H).
  destruct (Z.ltb_spec c 0); [reflexivity|].
  replace (nth_error pb (Z.to_nat c)) with (@None val); [reflexivity|]. symmetry. apply nth_error_None.
  rewrite (ra_blen _ _ _ _ H). lia.
Qed.

(* ------------------------------------------------------------------ the memory after reg_putraw represents the model's register file *)
Lemma cell_live m pb lb R c b o : regs_at m pb lb R -> (c < 256)%nat -> cellp pb c = VPtr b o ->
  o = 0 /\ heap_blk b /\ (b < length m)%nat /\
  exists s l, R (N.of_nat c) = Some (s, l) /\ str_at m b s /\ nonul s /\ str_fits s /\ l = negb (nthz lb (Z.of_nat c) =? 0).
Proof.
  intros H Hc E. pose proof (ra_cell _ _ _ _ H c Hc) as Hr. destruct (R (N.of_nat c)) as [[s l]|]; cbn [reg_cell] in Hr.
  - destruct Hr as (b' & E' & Hh & Hs & Hn & Hf & Hl). rewrite E in E'. injection E' as -> ->.
    repeat split; try assumption. { apply nth_error_Some. unfold str_at in Hs. congruence. }
    exists s, l. repeat split; assumption.
  - rewrite E in Hr. discriminate.
Qed.
Lemma cellp_upd pb lc v c : (lc < length pb)%nat -> cellp (upd pb lc v) c = if Nat.eqb c lc then v else cellp pb c.
Proof. intro H. unfold cellp. apply nth_upd. exact H. Qed.
Lemma nthz_upd lb lc z c : (lc < length lb)%nat -> nthz (upd lb lc z) (Z.of_nat c) = if Nat.eqb c lc then z else nthz lb (Z.of_nat c).
Proof. intro H. unfold nthz. rewrite Nat2Z.id. apply nth_upd. exact H. Qed.

(* the blocks of putraw_mem *)
Lemma putraw_mem_blocks m pb lb R lc txt ln : regs_at m pb lb R -> (lc < 256)%nat ->
  let m' := putraw_mem m pb lb lc txt ln in
  nth_error m' G_reg__bufs = Some (upd pb lc (VPtr (length m) 0)) /\
  nth_error m' G_lnmode = Some (map VInt (upd lb lc ln)) /\
  nth_error m' (length m) = Some (cstr_block (zb txt)) /\
  length m' = S (length m) /\
  (forall b o, cellp pb lc = VPtr b o -> nth_error m' b = Some []) /\
  (forall b, (b < length m)%nat -> b <> G_reg__bufs -> b <> G_lnmode -> (forall o, cellp pb lc <> VPtr b o) -> nth_error m' b = nth_error m b).
Proof.
  intros H Hlc m'. destruct globals_small as (G0 & G1 & G2 & G3 & G4 & G5).
  pose proof (ra_glob _ _ _ _ H) as Hg.
  set (m3 := m ++ [cstr_block (zb txt)]).
  assert (L3 : length m3 = S (length m)) by (unfold m3; rewrite app_length; cbn; lia).
  set (m4 := free_cell (cellp pb lc) m3).
  assert (L4 : length m4 = S (length m)).
  { unfold m4. destruct (cellp pb lc) as [|z|b o] eqn:E; cbn [free_cell]; try exact L3.
    destruct (cell_live m pb lb R lc b o H Hlc E) as (_ & _ & Hb & _). rewrite upd_length by lia. exact L3. }
  assert (B4 : forall b, (forall o, cellp pb lc <> VPtr b o) -> nth_error m4 b = nth_error m3 b).
  { intros b Hb. unfold m4. destruct (cellp pb lc) as [|z|b0 o] eqn:E; cbn [free_cell]; try reflexivity.
    destruct (cell_live m pb lb R lc b0 o H Hlc E) as (_ & _ & Hb0 & _).
    apply mem_upd_other; [lia|]. intro. subst b0. apply (Hb o). reflexivity. }
  assert (F4 : forall b o, cellp pb lc = VPtr b o -> nth_error m4 b = Some []).
  { intros b o E. unfold m4. rewrite E. cbn [free_cell].
    destruct (cell_live m pb lb R lc b o H Hlc E) as (_ & _ & Hb0 & _). apply mem_upd_same. lia. }
  assert (NG : forall b o, cellp pb lc = VPtr b o -> (length cglobals <= b < length m)%nat).
  { intros b o E. destruct (cell_live m pb lb R lc b o H Hlc E) as (_ & Hh & Hb0 & _). unfold heap_blk in Hh. lia. }
  unfold m', putraw_mem. fold m3. fold m4.
  set (m5 := upd m4 G_reg__bufs _).
  assert (L5 : length m5 = S (length m)) by (unfold m5; rewrite upd_length by lia; exact L4).
  repeat split.
  - rewrite mem_upd_other by (try lia; congruence). unfold m5. apply mem_upd_same. lia.
  - apply mem_upd_same. lia.
  - rewrite mem_upd_other by lia. unfold m5. rewrite mem_upd_other by lia.
    rewrite B4 by (intros o E; specialize (NG _ _ E); lia). unfold m3. apply nth_error_app_new.
  - rewrite upd_length by lia. exact L5.
  - intros b o E. specialize (NG _ _ E). rewrite mem_upd_other by lia. unfold m5. rewrite mem_upd_other by lia. apply (F4 b o E).
  - intros b Hb N1 N2 Hc. rewrite mem_upd_other by (try lia; congruence). unfold m5. rewrite mem_upd_other by (try lia; congruence).
    rewrite (B4 b Hc). unfold m3. apply nth_error_app_old. exact Hb.
Qed.

Lemma pre_of_nonul m pb lb R c : regs_at m pb lb R -> 0 <= c < 256 -> nonul (pre_of R c).
Proof.
  intros H Hc. unfold pre_of. destruct (ct_isupper c); [|constructor].
  pose proof (lowz_range c Hc) as Hlc.
  pose proof (ra_cell _ _ _ _ H (Z.to_nat (lowz c)) ltac:(lia)) as Hr. rewrite Z_nat_N in Hr.
  destruct (R (Z.to_N (lowz c))) as [[t l]|]; [|constructor]. cbn [reg_cell] in Hr.
  destruct Hr as (b & _ & _ & _ & Hn & _). exact Hn.
Qed.
Lemma nonul_app (a b : bytes) : nonul a -> nonul b -> nonul (a ++ b).
Proof. intros Ha Hb. unfold nonul. apply Forall_app. split; assumption. Qed.

(* the model's reg_putraw, read through the keys 0..255 *)
Lemma model_putraw R c s l k : 0 <= c < 256 ->
  RegDefs.reg_putraw R (Z.to_N c) s l (N.of_nat k) =
  if Nat.eqb k (Z.to_nat (lowz c)) then Some (pre_of R c ++ s, l) else R (N.of_nat k).
Proof.
  intro Hc. pose proof (lowz_range c Hc) as Hlc. unfold RegDefs.reg_putraw, RegDefs.upd.
  rewrite tolower_N, isupper_N by lia. unfold pre_of.
  destruct (Nat.eqb_spec k (Z.to_nat (lowz c))) as [->|Hne].
  - rewrite Z_nat_N, N.eqb_refl. reflexivity.
  - destruct (N.eqb_spec (N.of_nat k) (Z.to_N (lowz c))) as [E|_]; [exfalso; lia|reflexivity].
Qed.

Theorem putraw_mem_rep m pb lb R c (s : bytes) ln : regs_at m pb lb R -> 0 <= c < 256 -> nonul s -> int_ok ln ->
  str_fits (pre_of R c ++ s) ->
  regs_at (putraw_mem m pb lb (Z.to_nat (lowz c)) (pre_of R c ++ s) ln)
          (upd pb (Z.to_nat (lowz c)) (VPtr (length m) 0)) (upd lb (Z.to_nat (lowz c)) ln)
          (RegDefs.reg_putraw R (Z.to_N c) s (negb (ln =? 0))).
Proof.
  intros H Hc Hs Hln Hfit. pose proof (lowz_range c Hc) as Hlc. set (lc := Z.to_nat (lowz c)) in *.
  assert (Hlc' : (lc < 256)%nat) by (unfold lc; lia).
  destruct globals_small as (G0 & G1 & G2 & G3 & G4 & G5). pose proof (ra_glob _ _ _ _ H) as Hg.
  pose proof (ra_blen _ _ _ _ H) as Hbl. pose proof (ra_llen _ _ _ _ H) as Hll.
  destruct (putraw_mem_blocks m pb lb R lc (pre_of R c ++ s) ln H Hlc') as (B1 & B2 & B3 & B4 & B5 & B6).
  set (m' := putraw_mem m pb lb lc (pre_of R c ++ s) ln) in *.
  (* a block a register other than lc points to is unchanged *)
  assert (Keep : forall k b o, (k < 256)%nat -> k <> lc -> cellp pb k = VPtr b o -> nth_error m' b = nth_error m b).
  { intros k b o Hk Hne E. destruct (cell_live m pb lb R k b o H Hk E) as (-> & Hh & Hb & _). unfold heap_blk in Hh.
    apply B6; [exact Hb|lia|lia|]. intros o' E'.
    destruct (cell_live m pb lb R lc b o' H Hlc' E') as (-> & _). apply Hne. exact (ra_inj _ _ _ _ H k lc b Hk Hlc' E E'). }
  constructor.
  - exact B1.
  - rewrite upd_length by lia. exact Hbl.
  - exact B2.
  - rewrite upd_length by lia. exact Hll.
  - apply ints_ok_upd; [exact (ra_ints _ _ _ _ H)|exact Hln].
  - unfold str_at. rewrite B6; [exact (ra_lit _ _ _ _ H)|lia|congruence|congruence|].
    intros o E. destruct (cell_live m pb lb R lc _ o H Hlc' E) as (_ & Hh & _). unfold heap_blk in Hh. lia.
  - intros k Hk. rewrite cellp_upd, nthz_upd, model_putraw by lia. fold lc.
    destruct (Nat.eqb_spec k lc) as [->|Hne].
    + cbn [reg_cell]. exists (length m). repeat split; try assumption.
      apply nonul_app; [exact (pre_of_nonul m pb lb R c H Hc)|exact Hs].
    + pose proof (ra_cell _ _ _ _ H k Hk) as Hr. destruct (R (N.of_nat k)) as [[t l]|]; cbn [reg_cell] in Hr |- *; [|exact Hr].
      destruct Hr as (b & E & Hh & Hst & Hn & Hf & Hl). exists b. repeat split; try assumption.
      unfold str_at. rewrite (Keep k b 0 Hk Hne E). exact Hst.
  - intros k k' b Hk Hk' E E'. rewrite cellp_upd in E, E' by lia.
    destruct (Nat.eqb_spec k lc) as [->|Hne]; destruct (Nat.eqb_spec k' lc) as [->|Hne']; try reflexivity.
    + injection E as <-. destruct (cell_live m pb lb R k' _ 0 H Hk' E') as (_ & _ & Hb & _). lia.
    + injection E' as <-. destruct (cell_live m pb lb R k _ 0 H Hk E) as (_ & _ & Hb & _). lia.
    + exact (ra_inj _ _ _ _ H k k' b Hk Hk' E E').
  - rewrite B4. lia.
Qed.

(* ------------------------------------------------------------------ what a run of reg.c's functions may do to the memory *)
(* from (m, pb) to (m', pb'), k0 = the block of reg_put's local i_ln:
   fr_prov   a register's pointer is the old one or points to a block allocated since;
   fr_own    a block a register pointed to is still that register's, unchanged -- or it was freed and the register points elsewhere;
   fr_other  every other old block (not the two tables, not k0) is unchanged;
   fr_new    a block allocated since is a register's block or was freed again (nothing leaks) *)
Record fr (k0 : nat) (m : mem) (pb : block) (m' : mem) (pb' : block) : Prop := mk_fr {
  fr_len : (length m <= length m')%nat;
  fr_prov : forall k b o, (k < 256)%nat -> cellp pb' k = VPtr b o -> cellp pb k = VPtr b o \/ (length m <= b)%nat;
  fr_own : forall k b o, (k < 256)%nat -> cellp pb k = VPtr b o ->
           (cellp pb' k = VPtr b o /\ nth_error m' b = nth_error m b) \/ (cellp pb' k <> VPtr b o /\ nth_error m' b = Some []);
  fr_other : forall b, (b < length m)%nat -> b <> G_reg__bufs -> b <> G_lnmode -> b <> k0 ->
             (forall k o, (k < 256)%nat -> cellp pb k <> VPtr b o) -> nth_error m' b = nth_error m b;
  fr_new : forall b, (length m <= b < length m')%nat -> b <> k0 ->
           nth_error m' b = Some [] \/ exists k, (k < 256)%nat /\ cellp pb' k = VPtr b 0
}.

Lemma fr_refl k0 m pb : fr k0 m pb m pb.
Proof.
  constructor; intros; try lia; try reflexivity.
  - left. assumption.
  - left. split; [assumption|reflexivity].
Qed.

Lemma live_not_freed m pb lb R k b o : regs_at m pb lb R -> (k < 256)%nat -> cellp pb k = VPtr b o -> nth_error m b <> Some [].
Proof.
  intros H Hk E. destruct (cell_live m pb lb R k b o H Hk E) as (_ & _ & _ & s & l & _ & Hs & _).
  unfold str_at in Hs. rewrite Hs. unfold cstr_block. destruct (map VInt (zb s)); discriminate.
Qed.

Lemma fr_trans k0 m pb lb R m1 pb1 lb1 R1 m2 pb2 :
  regs_at m pb lb R -> regs_at m1 pb1 lb1 R1 -> (length m <= k0)%nat ->
  fr k0 m pb m1 pb1 -> fr k0 m1 pb1 m2 pb2 -> fr k0 m pb m2 pb2.
Proof.
  intros H H1 Hk0 F G. destruct globals_small as (G0 & G1 & G2 & G3 & G4 & G5). pose proof (ra_glob _ _ _ _ H) as Hg.
  pose proof (fr_len _ _ _ _ _ F) as L1. pose proof (fr_len _ _ _ _ _ G) as L2.
  constructor.
  - lia.
  - intros k b o Hk E. destruct (fr_prov _ _ _ _ _ G k b o Hk E) as [E1|Hb]; [|right; lia].
    destruct (fr_prov _ _ _ _ _ F k b o Hk E1) as [E0|Hb]; [left; exact E0|right; exact Hb].
  - intros k b o Hk E. destruct (cell_live m pb lb R k b o H Hk E) as (-> & Hh & Hb & _). unfold heap_blk in Hh.
    destruct (fr_own _ _ _ _ _ F k b 0 Hk E) as [[E1 M1]|[E1 M1]].
    + destruct (fr_own _ _ _ _ _ G k b 0 Hk E1) as [[E2 M2]|[E2 M2]]; [left|right]; (split; [exact E2|congruence]).
    + right. split.
      * intro E2. destruct (fr_prov _ _ _ _ _ G k b 0 Hk E2) as [X|X]; [exact (E1 X)|lia].
      * rewrite (fr_other _ _ _ _ _ G b); [exact M1|lia|lia|lia|lia|].
        intros k' o' Hk' X. exact (live_not_freed m1 pb1 lb1 R1 k' b o' H1 Hk' X M1).
  - intros b Hb N1 N2 N3 Hun. rewrite (fr_other _ _ _ _ _ G b); [apply (fr_other _ _ _ _ _ F b); assumption|lia|exact N1|exact N2|exact N3|].
    intros k o Hk X. destruct (fr_prov _ _ _ _ _ F k b o Hk X) as [Y|Y]; [exact (Hun k o Hk Y)|lia].
  - intros b Hb N3. destruct (Nat.lt_ge_cases b (length m1)) as [Lt|Ge].
    + destruct (fr_new _ _ _ _ _ F b ltac:(lia) N3) as [M1|(k & Hk & E1)].
      * left. rewrite (fr_other _ _ _ _ _ G b); [exact M1|lia|lia|lia|exact N3|].
        intros k' o' Hk' X. exact (live_not_freed m1 pb1 lb1 R1 k' b o' H1 Hk' X M1).
      * destruct (fr_own _ _ _ _ _ G k b 0 Hk E1) as [[E2 M2]|[E2 M2]]; [right; exists k; split; assumption|left; exact M2].
    + apply (fr_new _ _ _ _ _ G b); [lia|exact N3].
Qed.

(* one reg_putraw *)
Lemma fr_putraw k0 m pb lb R lc txt ln : regs_at m pb lb R -> (lc < 256)%nat ->
  fr k0 m pb (putraw_mem m pb lb lc txt ln) (upd pb lc (VPtr (length m) 0)).
Proof.
  intros H Hlc. pose proof (ra_blen _ _ _ _ H) as Hbl.
  destruct (putraw_mem_blocks m pb lb R lc txt ln H Hlc) as (B1 & B2 & B3 & B4 & B5 & B6).
  constructor.
  - rewrite B4. lia.
  - intros k b o Hk E. rewrite cellp_upd in E by lia. destruct (Nat.eqb_spec k lc); [injection E as <- <-; right; lia|left; exact E].
  - intros k b o Hk E. destruct (cell_live m pb lb R k b o H Hk E) as (-> & Hh & Hb & _). unfold heap_blk in Hh.
    destruct globals_small as (G0 & G1 & G2 & _). pose proof (ra_glob _ _ _ _ H) as Hg.
    rewrite cellp_upd by lia. destruct (Nat.eqb_spec k lc) as [->|Hne].
    + right. split; [intro X; injection X as X; lia|exact (B5 b 0 E)].
    + left. split; [exact E|]. apply B6; [exact Hb|lia|lia|].
      intros o' E'. destruct (cell_live m pb lb R lc b o' H Hlc E') as (-> & _). apply Hne. exact (ra_inj _ _ _ _ H k lc b Hk Hlc E E').
  - intros b Hb N1 N2 N3 Hun. apply B6; try assumption. intros o. apply Hun. exact Hlc.
  - intros b Hb N3. rewrite B4 in Hb. assert (b = length m) by lia. subst b. right. exists lc. split; [exact Hlc|].
    rewrite cellp_upd by lia. rewrite Nat.eqb_refl. reflexivity.
Qed.

(* a store into the cell of i_ln *)
Lemma fr_scratch k0 m pb v : (k0 < length m)%nat -> (forall k o, (k < 256)%nat -> cellp pb k <> VPtr k0 o) ->
  fr k0 m pb (upd m k0 v) pb.
Proof.
  intros Hk0 Hun. constructor.
  - rewrite upd_length by exact Hk0. lia.
  - intros. left. assumption.
  - intros k b o Hk E. left. split; [exact E|]. apply mem_upd_other; [exact Hk0|]. intro X. subst b. exact (Hun k o Hk E).
  - intros b Hb N1 N2 N3 _. apply mem_upd_other; assumption.
  - intros b Hb. rewrite upd_length in Hb by exact Hk0. lia.
Qed.
Lemma regs_at_scratch m pb lb R k0 v : regs_at m pb lb R -> (length cglobals <= k0 < length m)%nat ->
  (forall k o, (k < 256)%nat -> cellp pb k <> VPtr k0 o) -> regs_at (upd m k0 v) pb lb R.
Proof.
  intros H Hk0 Hun. destruct globals_small as (G0 & G1 & G2 & G3 & G4 & G5).
  assert (O : forall b, b <> k0 -> nth_error (upd m k0 v) b = nth_error m b) by (intros; apply mem_upd_other; [lia|assumption]).
  constructor.
  - rewrite O by lia. exact (ra_bufs _ _ _ _ H).
  - exact (ra_blen _ _ _ _ H).
  - unfold int_arr_at. rewrite O by lia. exact (ra_ln _ _ _ _ H).
  - exact (ra_llen _ _ _ _ H).
  - exact (ra_ints _ _ _ _ H).
  - unfold str_at. rewrite O by lia. exact (ra_lit _ _ _ _ H).
  - intros k Hk. pose proof (ra_cell _ _ _ _ H k Hk) as Hr. destruct (R (N.of_nat k)) as [[t l]|]; cbn [reg_cell] in Hr |- *; [|exact Hr].
    destruct Hr as (b & E & Hh & Hst & Hn & Hf & Hl). exists b. repeat split; try assumption.
    unfold str_at. rewrite O; [exact Hst|]. intro X. subst b. exact (Hun k 0 Hk E).
  - exact (ra_inj _ _ _ _ H).
  - rewrite upd_length by lia. exact (ra_glob _ _ _ _ H).
Qed.

(* ------------------------------------------------------------------ the invariant of reg_put's body *)
(* m0 pb0: the memory at entry; block length m0 is the cell of the local i_ln; (bs, t): the text argument *)
Record inv (m0 : mem) (pb0 : block) (bs : nat) (t : bytes) (m : mem) (pb : block) (lb : list Z) (R : RegDefs.regs) : Prop := mk_inv {
  iv_rep : regs_at m pb lb R;
  iv_fr : fr (length m0) m0 pb0 m pb;
  iv_k0 : exists v, nth_error m (length m0) = Some [v];
  iv_un : forall k o, (k < 256)%nat -> cellp pb k <> VPtr (length m0) o;
  iv_arg : str_at m bs t;
  iv_argun : forall k o, (k < 256)%nat -> cellp pb k <> VPtr bs o
}.

Lemma regs_at_app m pb lb R x : regs_at m pb lb R -> regs_at (m ++ [x]) pb lb R.
Proof.
  intro H. destruct globals_small as (G0 & G1 & G2 & G3 & G4 & G5). pose proof (ra_glob _ _ _ _ H) as Hg.
  assert (O : forall b, (b < length m)%nat -> nth_error (m ++ [x]) b = nth_error m b) by (intros; apply nth_error_app_old; assumption).
  constructor.
  - rewrite O by lia. exact (ra_bufs _ _ _ _ H).
  - exact (ra_blen _ _ _ _ H).
  - unfold int_arr_at. rewrite O by lia. exact (ra_ln _ _ _ _ H).
  - exact (ra_llen _ _ _ _ H).
  - exact (ra_ints _ _ _ _ H).
  - unfold str_at. rewrite O by lia. exact (ra_lit _ _ _ _ H).
  - intros k Hk. pose proof (ra_cell _ _ _ _ H k Hk) as Hr. destruct (R (N.of_nat k)) as [[t l]|]; cbn [reg_cell] in Hr |- *; [|exact Hr].
    destruct Hr as (b & E & Hh & Hst & Hn & Hf & Hl). exists b. repeat split; try assumption.
    unfold str_at. rewrite O; [exact Hst|]. apply nth_error_Some. unfold str_at in Hst. congruence.
  - exact (ra_inj _ _ _ _ H).
  - rewrite app_length. lia.
Qed.

Lemma inv_init m0 pb0 lb0 R0 bs t x : regs_at m0 pb0 lb0 R0 -> str_at m0 bs t ->
  (forall k o, (k < 256)%nat -> cellp pb0 k <> VPtr bs o) -> inv m0 pb0 bs t (m0 ++ [[x]]) pb0 lb0 R0.
Proof.
  intros H Hs Hun.
  assert (Hbs : (bs < length m0)%nat) by (apply nth_error_Some; unfold str_at in Hs; congruence).
  constructor.
  - apply regs_at_app. exact H.
  - constructor.
    + rewrite app_length. cbn. lia.
    + intros. left. assumption.
    + intros k b o Hk E. left. split; [exact E|]. destruct (cell_live m0 pb0 lb0 R0 k b o H Hk E) as (_ & _ & Hb & _).
      apply nth_error_app_old. exact Hb.
    + intros b Hb _ _ _ _. apply nth_error_app_old. exact Hb.
    + intros b Hb N. rewrite app_length in Hb. cbn in Hb. lia.
  - exists x. apply nth_error_app_new.
  - intros k o Hk E. destruct (cell_live m0 pb0 lb0 R0 k _ o H Hk E) as (_ & _ & Hb & _). lia.
  - unfold str_at. rewrite nth_error_app_old by exact Hbs. exact Hs.
  - exact Hun.
Qed.

Lemma inv_scratch m0 pb0 lb0 R0 bs t m pb lb R z : regs_at m0 pb0 lb0 R0 -> (bs < length m0)%nat ->
  inv m0 pb0 bs t m pb lb R -> inv m0 pb0 bs t (upd m (length m0) [VInt z]) pb lb R.
Proof.
  intros H0 Hbs I. destruct I as [Ir If [v Ik] Iu Ia Iau].
  assert (Hk0 : (length m0 < length m)%nat) by (apply nth_error_Some; congruence).
  pose proof (ra_glob _ _ _ _ H0) as Hg.
  constructor.
  - apply regs_at_scratch; [exact Ir|lia|exact Iu].
  - apply (fr_trans _ m0 pb0 lb0 R0 m pb lb R); [exact H0|exact Ir|lia|exact If|]. apply fr_scratch; assumption.
  - exists (VInt z). apply mem_upd_same. exact Hk0.
  - exact Iu.
  - unfold str_at. rewrite mem_upd_other by lia. exact Ia.
  - exact Iau.
Qed.

Lemma inv_putraw m0 pb0 lb0 R0 bs t m pb lb R c (s : bytes) ln : regs_at m0 pb0 lb0 R0 -> (bs < length m0)%nat ->
  bs <> G_reg__bufs -> bs <> G_lnmode ->
  inv m0 pb0 bs t m pb lb R -> 0 <= c < 256 -> nonul s -> int_ok ln -> str_fits (pre_of R c ++ s) ->
  inv m0 pb0 bs t (putraw_mem m pb lb (Z.to_nat (lowz c)) (pre_of R c ++ s) ln)
      (upd pb (Z.to_nat (lowz c)) (VPtr (length m) 0)) (upd lb (Z.to_nat (lowz c)) ln)
      (RegDefs.reg_putraw R (Z.to_N c) s (negb (ln =? 0))).
Proof.
  intros H0 Hbs Nb1 Nb2 I Hc Hs Hln Hfit. destruct I as [Ir If [v Ik] Iu Ia Iau].
  pose proof (lowz_range c Hc) as Hlc. set (lc := Z.to_nat (lowz c)) in *. assert (Hlc' : (lc < 256)%nat) by (unfold lc; lia).
  assert (Hk0 : (length m0 < length m)%nat) by (apply nth_error_Some; congruence).
  pose proof (ra_glob _ _ _ _ H0) as Hg. pose proof (ra_blen _ _ _ _ Ir) as Hbl.
  destruct globals_small as (G0 & G1 & G2 & G3 & G4 & G5).
  destruct (putraw_mem_blocks m pb lb R lc (pre_of R c ++ s) ln Ir Hlc') as (B1 & B2 & B3 & B4 & B5 & B6).
  assert (Hbsm : (bs < length m)%nat) by lia.
  constructor.
  - apply putraw_mem_rep; assumption.
  - apply (fr_trans _ m0 pb0 lb0 R0 m pb lb R); [exact H0|exact Ir|lia|exact If|]. apply (fr_putraw _ m pb lb R); assumption.
  - exists v. rewrite B6; [exact Ik|lia|lia|lia|]. intro o. apply Iu. exact Hlc'.
  - intros k o Hk. rewrite cellp_upd by lia. destruct (Nat.eqb_spec k lc); [intro X; injection X as X; lia|apply Iu; exact Hk].
  - unfold str_at. rewrite B6; [exact Ia|exact Hbsm|exact Nb1|exact Nb2|]. intro o. apply Iau. exact Hlc'.
  - intros k o Hk. rewrite cellp_upd by lia. destruct (Nat.eqb_spec k lc); [intro X; injection X as X; lia|apply Iau; exact Hk].
Qed.

(* ------------------------------------------------------------------ reg_put: the shift loop *)
Definition put_loop : stmt :=
  match fn_body cf_reg_put with SSeq _ (SSeq (SIf _ (SSeq (SSeq _ l) _) _) _) => l | _ => SSkip end.
Definition put_body : stmt := match put_loop with SFor _ _ b => b | _ => SSkip end.
(* the model's loop, counted as the C loop counts: i, i-1, .., 1 *)
Fixpoint rot_n (i : nat) (R : RegDefs.regs) : RegDefs.regs :=
  match i with O => R | S j => rot_n j (RegDefs.rot_step R (N.of_nat (48 + S j))) end.
Lemma rotate_rot_n R : RegDefs.rotate R = rot_n 8 R.
Proof. reflexivity. Qed.

Lemma not_upper c : c < 65 -> ct_isupper c = false.
Proof. intro H. unfold ct_isupper. destruct (Z.leb_spec 65 c); [lia|reflexivity]. Qed.

Lemma put_body_ok m0 pb0 lb0 R0 bs t c sp ln d fuel f : regs_at m0 pb0 lb0 R0 -> (bs < length m0)%nat ->
  bs <> G_reg__bufs -> bs <> G_lnmode ->
  forall i m pb lb R v5, 1 <= i <= 8 -> inv m0 pb0 bs t m pb lb R ->
  exists m' pb' lb' v5',
    exec (callf cprog fuel (S (S d))) f put_body (mkst [VInt c; sp; VInt ln; VInt i; VPtr (length m0) 0; v5] m)
    = ONormal (mkst [VInt c; sp; VInt ln; VInt i; VPtr (length m0) 0; v5'] m') /\
    inv m0 pb0 bs t m' pb' lb' (RegDefs.rot_step R (Z.to_N (48 + i))).
Proof.
  intros H0 Hbs Nb1 Nb2 i m pb lb R v5 Hi I.
  pose proof (iv_rep _ _ _ _ _ _ _ _ I) as Ir. destruct (iv_k0 _ _ _ _ _ _ _ _ I) as [v Ik].
  assert (Hk0 : (length m0 < length m)%nat) by (apply nth_error_Some; congruence).
  destruct globals_small as (G0 & G1 & G2 & G3 & G4 & G5). pose proof (ra_glob _ _ _ _ H0) as Hg.
  unfold put_body, put_loop. cbn [fn_body cf_reg_put]. xstep.
  rewrite chk_I32 by lia. xstep.
  assert (Hp : lnp_ok m (VPtr (length m0) 0)) by (right; exists (length m0), 0, [v]; repeat split; try assumption; cbn; lia).
  rewrite (tr_reg_get m pb lb R (48 + i) _ d fuel Ir) by (try exact Hp; lia).
  unfold get_name. destruct (Z.eqb_spec (48 + i) 34); [lia|]. cbn [ln_store]. rewrite Ik. cbn [upd firstn skipn app Z.to_nat].
  xstep.
  set (z := nthz lb (48 + i)). set (k := Z.to_nat (48 + i)). assert (Hk : (k < 256)%nat) by (unfold k; lia).
  pose proof (inv_scratch m0 pb0 lb0 R0 bs t m pb lb R z H0 Hbs I) as I1.
  set (m1 := upd m (length m0) [VInt z]) in *.
  pose proof (iv_rep _ _ _ _ _ _ _ _ I1) as Ir1.
  assert (Hz : int_ok z) by (unfold z, int_ok; apply nthz_ok; exact (ra_ints _ _ _ _ Ir)).
  assert (EN : N.of_nat k = Z.to_N (48 + i)) by (unfold k; apply Z_nat_N).
  assert (Eget : RegDefs.reg_get R (Z.to_N (48 + i)) = R (N.of_nat k)).
  { unfold RegDefs.reg_get. destruct (N.eqb_spec (Z.to_N (48 + i)) 34); [lia|]. rewrite EN. reflexivity. }
  unfold RegDefs.rot_step. rewrite Eget.
  pose proof (ra_cell _ _ _ _ Ir1 k Hk) as Hr. replace (Z.of_nat k) with (48 + i) in Hr by (unfold k; lia). fold z in Hr.
  destruct (R (N.of_nat k)) as [[ti li]|]; cbn [reg_cell] in Hr.
  - destruct Hr as (b & E & Hh & Hst & Hn & Hf & Hl). rewrite E. xstep.
    rewrite chk_I32 by lia. xstep. rewrite chk_I32 by lia. xstep.
    assert (Eld : load m1 (length m0) 0 = Ok (VInt z)).
    { unfold load, m1. rewrite mem_upd_same by exact Hk0. reflexivity. }
    rewrite Eld. xstep. rewrite (wrap_int_ok z Hz).
    assert (Hb1 : b <> G_reg__bufs /\ b <> G_lnmode) by (unfold heap_blk in Hh; lia).
    assert (Epre : pre_of R (48 + i + 1) = []) by (unfold pre_of; rewrite not_upper by lia; reflexivity).
    change (VPtr b 0) with (VPtr b (Z.of_nat 0)).
    rewrite (tr_reg_putraw m1 pb lb R (48 + i + 1) b ti 0 z (S d) fuel Ir1) by
      (try assumption; try lia; try (apply Hb1); rewrite Epre; exact Hf).
    xstep. cbn [skipn].
    eexists _, _, _, _. split; [reflexivity|].
    replace (Z.to_N (48 + i) + 1)%N with (Z.to_N (48 + i + 1)) by lia. rewrite Hl.
    apply (inv_putraw m0 pb0 lb0 R0 bs t m1 pb lb R (48 + i + 1) ti z); try assumption; try lia.
    rewrite Epre. exact Hf.
  - rewrite Hr. xstep. eexists _, _, _, _. split; [reflexivity|exact I1].
Qed.

Definition put_cond : expr := match put_loop with SFor (Some c) _ _ => c | _ => EConst 0 end.
Definition put_step : expr := match put_loop with SFor _ (Some s) _ => s | _ => EConst 0 end.
Lemma put_loop_eq : put_loop = SFor (Some put_cond) (Some put_step) put_body.
Proof. reflexivity. Qed.

Lemma put_loop_ok m0 pb0 lb0 R0 bs t c sp ln d fuel : regs_at m0 pb0 lb0 R0 -> (bs < length m0)%nat ->
  bs <> G_reg__bufs -> bs <> G_lnmode ->
  forall i, (i <= 8)%nat -> forall f m pb lb R v5, (i < f)%nat -> inv m0 pb0 bs t m pb lb R ->
  exists m' pb' lb' v5',
    exec (callf cprog fuel (S (S d))) f put_loop (mkst [VInt c; sp; VInt ln; VInt (Z.of_nat i); VPtr (length m0) 0; v5] m)
    = ONormal (mkst [VInt c; sp; VInt ln; VInt 0; VPtr (length m0) 0; v5'] m') /\
    inv m0 pb0 bs t m' pb' lb' (rot_n i R).
Proof.
  intros H0 Hbs Nb1 Nb2. induction i as [|j IH]; intros Hi f m pb lb R v5 Hf I.
  - destruct f as [|f]; [lia|]. rewrite put_loop_eq, exec_for. unfold put_cond, put_loop. cbn [fn_body cf_reg_put]. xstep.
    eexists _, _, _, _. split; [reflexivity|exact I].
  - destruct f as [|f]; [lia|]. rewrite put_loop_eq, exec_for. unfold put_cond at 1, put_loop at 1. cbn [fn_body cf_reg_put]. xstep.
    destruct (Z.ltb_spec 0 (Z.of_nat (S j))); [|lia]. xstep.
    destruct (put_body_ok m0 pb0 lb0 R0 bs t c sp ln d fuel (S f) H0 Hbs Nb1 Nb2 (Z.of_nat (S j)) m pb lb R v5 ltac:(lia) I)
      as (m1 & pb1 & lb1 & v51 & E & I1).
    rewrite E. unfold put_step at 1, put_loop at 1. cbn [fn_body cf_reg_put]. xstep.
    rewrite chk_I32 by lia. xstep. replace (Z.of_nat (S j) + -1) with (Z.of_nat j) by lia.
    rewrite <- put_loop_eq.
    destruct (IH ltac:(lia) f m1 pb1 lb1 _ v51 ltac:(lia) I1) as (m2 & pb2 & lb2 & v52 & E2 & I2).
    rewrite E2. eexists _, _, _, _. split; [reflexivity|].
    cbn [rot_n]. replace (N.of_nat (48 + S j)) with (Z.to_N (48 + Z.of_nat (S j))) by lia. exact I2.
Qed.

(* ------------------------------------------------------------------ reg_put *)
(* (ln || strchr(s, '\n')) && (!c || isalpha(c)) *)
Definition put_test : expr := match fn_body cf_reg_put with SSeq _ (SSeq (SIf e _ _) _) => e | _ => EConst 0 end.
Definition shifts (c ln : Z) (s : bytes) : bool := (negb (ln =? 0) || RegDefs.has_nl s) && ((c =? 0) || ct_isalpha c).

Lemma has_nl_find s : RegDefs.has_nl s = match find_byte 10 s with Some _ => true | None => false end.
Proof.
  unfold RegDefs.has_nl. induction s as [|x s IH]; [reflexivity|]. cbn [existsb find_byte]. rewrite N.eqb_sym.
  destruct (x =? 10)%N; [reflexivity|]. cbn [orb]. rewrite IH. destruct (find_byte 10 s); reflexivity.
Qed.
Lemma put_test_ok call m c bs (t : bytes) (o : nat) ln v3 v4 v5 : 0 <= c < 256 -> str_at m bs t -> nonul t -> (o <= length t)%nat ->
  eval call put_test (mkst [VInt c; VPtr bs (Z.of_nat o); VInt ln; v3; v4; v5] m)
  = Ok (VInt (b2z (shifts c ln (skipn o t))), mkst [VInt c; VPtr bs (Z.of_nat o); VInt ln; v3; v4; v5] m).
Proof.
  intros Hc Hs Hn Ho. unfold put_test. cbn [fn_body cf_reg_put]. unfold shifts. xcbn.
  destruct (Z.eqb_spec ln 0) as [->|Hne]; cbn [negb orb andb]; xstep.
  - change (VInt 10) with (VInt (Z.of_N 10)). rewrite (builtin_strchr m bs t o 10 Hs Hn Ho) by lia. xstep.
    rewrite has_nl_find. destruct (find_byte 10 (skipn o t)); xstep; [|reflexivity].
    destruct (Z.eqb_spec c 0); xstep; [reflexivity|]. rewrite (builtin_isalpha m c Hc). xstep.
    destruct (ct_isalpha c); reflexivity.
  - destruct (Z.eqb_spec c 0); xstep; [reflexivity|]. rewrite (builtin_isalpha m c Hc). xstep.
    destruct (ct_isalpha c); reflexivity.
Qed.

(* the shift and the store into register 1 leave every register outside '1'..'9' alone *)
Lemma putraw_other R c s l k : k <> c_tolower c -> RegDefs.reg_putraw R c s l k = R k.
Proof. intro H. unfold RegDefs.reg_putraw, RegDefs.upd. destruct (N.eqb_spec k (c_tolower c)); [contradiction|reflexivity]. Qed.
Lemma tolower_digit c : (c < 65)%N -> c_tolower c = c.
Proof. intro H. unfold c_tolower, c_isupper. destruct (N.leb_spec 65 c); [lia|reflexivity]. Qed.
Lemma rot_n_other i R k : (i <= 8)%nat -> (k < 50 \/ 57 < k)%N -> rot_n i R k = R k.
Proof.
  revert R; induction i as [|j IH]; intros R Hi Hk; [reflexivity|]. cbn [rot_n]. rewrite IH by lia.
  unfold RegDefs.rot_step. destruct (RegDefs.reg_get R (N.of_nat (48 + S j))) as [[s l]|]; [|reflexivity].
  apply putraw_other. rewrite tolower_digit by lia. lia.
Qed.
Lemma pre_of_shift R c s l : 0 <= c < 256 -> pre_of (RegDefs.reg_putraw (rot_n 8 R) (Z.to_N 49) s l) c = pre_of R c.
Proof.
  intro Hc. unfold pre_of. destruct (ct_isupper c) eqn:E; [|reflexivity].
  unfold ct_isupper in E. apply andb_prop in E. destruct E as [E1 E2]. apply Z.leb_le in E1, E2.
  assert (Hl : lowz c = c + 32) by (unfold lowz, ct_isupper; destruct (Z.leb_spec 65 c); destruct (Z.leb_spec c 90); cbn [andb]; lia).
  rewrite putraw_other by (rewrite tolower_digit by lia; lia). rewrite rot_n_other by lia. reflexivity.
Qed.
Lemma model_put R c s ln : 0 <= c < 256 ->
  RegDefs.reg_put R (Z.to_N c) s (negb (ln =? 0)) =
  RegDefs.reg_putraw (if shifts c ln s then RegDefs.reg_putraw (rot_n 8 R) (Z.to_N 49) s (negb (ln =? 0)) else R) (Z.to_N c) s (negb (ln =? 0)).
Proof.
  intro Hc. unfold RegDefs.reg_put, shifts. rewrite isalpha_N by lia. rewrite rotate_rot_n.
  replace (Z.to_N c =? 0)%N with (c =? 0); [reflexivity|].
  destruct (Z.eqb_spec c 0); destruct (N.eqb_spec (Z.to_N c) 0); try reflexivity; lia.
Qed.
Lemma str_fits_app_r (a b : bytes) : str_fits (a ++ b) -> str_fits b.
Proof. unfold str_fits. rewrite app_length. lia. Qed.

Theorem tr_reg_put m pb lb R c bs (t : bytes) (o : nat) ln d fuel :
  regs_at m pb lb R -> 0 <= c < 256 -> str_at m bs t -> nonul t -> (o <= length t)%nat ->
  bs <> G_reg__bufs -> bs <> G_lnmode -> (forall k o', (k < 256)%nat -> cellp pb k <> VPtr bs o') ->
  int_ok ln -> str_fits (pre_of R c ++ skipn o t) -> (9 <= fuel)%nat ->
  exists m' pb' lb',
    callf cprog fuel (S (S (S d))) F_reg_put [VInt c; VPtr bs (Z.of_nat o); VInt ln] m = Ok (VUndef, m') /\
    regs_at m' pb' lb' (RegDefs.reg_put R (Z.to_N c) (skipn o t) (negb (ln =? 0))) /\
    fr (length m) m pb m' pb' /\ (exists v, nth_error m' (length m) = Some [v]).
Proof.
  intros H Hc Hs Hn Ho Nb1 Nb2 Hun Hln Hfit Hfuel.
  assert (Hbs : (bs < length m)%nat) by (apply nth_error_Some; unfold str_at in Hs; congruence).
  set (s := skipn o t) in *. assert (Hsn : nonul s) by (apply Forall_skipn'; exact Hn).
  rewrite (model_put R c s ln Hc).
  enter F_reg_put cf_reg_put. rewrite exec_seq, exec_expr. xcbn. rewrite malloc_ok by lia. xcbn.
  change (repeat VUndef (Z.to_nat 1)) with [VUndef].
  pose proof (inv_init m pb lb R bs t VUndef H Hs Hun) as I0.
  set (m0 := m ++ [[VUndef]]) in *.
  rewrite exec_seq, exec_if.
  match goal with |- context [eval ?call ?e ?st] => change e with put_test end.
  rewrite (put_test_ok _ m0 c bs t o ln _ _ _ Hc (iv_arg _ _ _ _ _ _ _ _ I0) Hn Ho). fold s. rewrite truth_b2z.
  destruct (shifts c ln s) eqn:Esh.
  - xstep.
    match goal with |- context [exec ?call ?f (SFor ?a ?b ?bd) ?st] => change (SFor a b bd) with put_loop end.
    change (VInt 8) with (VInt (Z.of_nat 8)).
    destruct (put_loop_ok m pb lb R bs t c (VPtr bs (Z.of_nat o)) ln d fuel H Hbs Nb1 Nb2 8%nat (le_n 8) fuel m0 pb lb R VUndef ltac:(lia) I0)
      as (m1 & pb1 & lb1 & v5 & E1 & I1).
    rewrite E1. xstep.
    assert (Ep1 : pre_of (rot_n 8 R) 49 = []) by (unfold pre_of; rewrite not_upper by lia; reflexivity).
    assert (Hf1 : str_fits (pre_of (rot_n 8 R) 49 ++ s)) by (rewrite Ep1; exact (str_fits_app_r _ _ Hfit)).
    rewrite (tr_reg_putraw m1 pb1 lb1 (rot_n 8 R) 49 bs t o ln (S d) fuel (iv_rep _ _ _ _ _ _ _ _ I1) ltac:(lia)
               (iv_arg _ _ _ _ _ _ _ _ I1) Hn Ho Nb1 Nb2 Hln Hf1).
    pose proof (inv_putraw m pb lb R bs t m1 pb1 lb1 (rot_n 8 R) 49 s ln H Hbs Nb1 Nb2 I1 ltac:(lia) Hsn Hln Hf1) as I2.
    fold s. xstep.
    set (R2 := RegDefs.reg_putraw (rot_n 8 R) (Z.to_N 49) s (negb (ln =? 0))) in *.
    assert (Hf2 : str_fits (pre_of R2 c ++ s)) by (unfold R2; rewrite pre_of_shift by exact Hc; exact Hfit).
    rewrite (tr_reg_putraw _ _ _ R2 c bs t o ln (S d) fuel (iv_rep _ _ _ _ _ _ _ _ I2) Hc
               (iv_arg _ _ _ _ _ _ _ _ I2) Hn Ho Nb1 Nb2 Hln Hf2).
    pose proof (inv_putraw m pb lb R bs t _ _ _ R2 c s ln H Hbs Nb1 Nb2 I2 Hc Hsn Hln Hf2) as I3.
    fold s. eexists _, _, _. split; [reflexivity|].
    split; [exact (iv_rep _ _ _ _ _ _ _ _ I3)|]. split; [exact (iv_fr _ _ _ _ _ _ _ _ I3)|exact (iv_k0 _ _ _ _ _ _ _ _ I3)].
  - xstep.
    rewrite (tr_reg_putraw _ _ _ R c bs t o ln (S d) fuel (iv_rep _ _ _ _ _ _ _ _ I0) Hc
               (iv_arg _ _ _ _ _ _ _ _ I0) Hn Ho Nb1 Nb2 Hln Hfit).
    pose proof (inv_putraw m pb lb R bs t _ _ _ R c s ln H Hbs Nb1 Nb2 I0 Hc Hsn Hln Hfit) as I3.
    fold s. eexists _, _, _. split; [reflexivity|].
    split; [exact (iv_rep _ _ _ _ _ _ _ _ I3)|]. split; [exact (iv_fr _ _ _ _ _ _ _ _ I3)|exact (iv_k0 _ _ _ _ _ _ _ _ I3)].
Qed.

(* ------------------------------------------------------------------ the state at program start, and reading a register off a memory *)
Lemma regs_at_init : regs_at cglobals gb_reg__bufs (repeat 0 256) RegDefs.regs0.
Proof.
  assert (C : forall c, cellp gb_reg__bufs c = VInt 0).
  { intro c. unfold cellp, gb_reg__bufs. destruct (Nat.lt_ge_cases c 256) as [L|L]; [apply nth_repeat|].
    apply nth_overflow. rewrite repeat_length. exact L. }
  constructor.
  - reflexivity.
  - reflexivity.
  - reflexivity.
  - reflexivity.
  - unfold ints_ok. apply Forall_forall. intros x Hx. apply repeat_spec in Hx. subst x. lia.
  - reflexivity.
  - intros c _. cbn [RegDefs.regs0 reg_cell]. apply C.
  - intros c c' b _ _ E. rewrite C in E. discriminate.
  - apply le_n.
Qed.
(* the text register c holds in memory m (None: the cell is NULL, or not a pointer to a C string) *)
Definition reg_text (m : mem) (c : nat) : option (list val) :=
  match nth_error m G_reg__bufs with
  | Some pb => match nth c pb VUndef with VPtr b 0 => nth_error m b | _ => None end
  | None => None
  end.

(* ------------------------------------------------------------------ reg_done: for (i = 0; i < LEN(bufs); i++) free(bufs[i]); *)
(* the memory with the blocks the cells point to emptied, one after the other *)
Fixpoint free_cells (cells : block) (m : mem) : mem :=
  match cells with [] => m | v :: r => free_cells r (free_cell v m) end.
Lemma free_cells_snoc l v m : free_cells (l ++ [v]) m = free_cell v (free_cells l m).
Proof. revert m; induction l as [|x l IH]; intro m; [reflexivity|]. cbn [app free_cells]. apply IH. Qed.
Lemma firstn_S_cellp (pb : block) i : (i < length pb)%nat -> firstn (S i) pb = firstn i pb ++ [cellp pb i].
Proof.
  revert i; induction pb as [|x pb IH]; intros i H; cbn [length] in H; [lia|]. destruct i as [|i]; [reflexivity|].
  cbn [firstn app]. f_equal. apply IH. lia.
Qed.
(* after the first i cells: a block one of them points to is empty, every other block is as it was *)
Lemma free_cells_blocks m pb lb R : regs_at m pb lb R -> forall i, (i <= 256)%nat ->
  length (free_cells (firstn i pb) m) = length m /\
  (forall c b o, (c < i)%nat -> cellp pb c = VPtr b o -> nth_error (free_cells (firstn i pb) m) b = Some []) /\
  (forall b, (forall c o, (c < i)%nat -> cellp pb c <> VPtr b o) -> nth_error (free_cells (firstn i pb) m) b = nth_error m b).
Proof.
  intros H. pose proof (ra_blen _ _ _ _ H) as Hbl. induction i as [|i IH]; intro Hi.
  - cbn [firstn free_cells]. repeat split; intros; try reflexivity; lia.
  - destruct (IH ltac:(lia)) as (L & F & K). rewrite firstn_S_cellp by lia. rewrite free_cells_snoc.
    set (mi := free_cells (firstn i pb) m) in *.
    destruct (cellp pb i) as [|z|bi oi] eqn:E; cbn [free_cell].
    + repeat split; [exact L| |].
      * intros c b o Hc Ec. destruct (Nat.eq_dec c i) as [->|Hne]; [congruence|]. apply (F c b o); [lia|exact Ec].
      * intros b Hb. apply K. intros c o Hc. apply Hb. lia.
    + repeat split; [exact L| |].
      * intros c b o Hc Ec. destruct (Nat.eq_dec c i) as [->|Hne]; [congruence|]. apply (F c b o); [lia|exact Ec].
      * intros b Hb. apply K. intros c o Hc. apply Hb. lia.
    + destruct (cell_live m pb lb R i bi oi H ltac:(lia) E) as (-> & _ & Hbi & _).
      repeat split.
      * rewrite upd_length by lia. exact L.
      * intros c b o Hc Ec. destruct (Nat.eq_dec b bi) as [->|Hne]; [apply mem_upd_same; lia|].
        rewrite mem_upd_other by (try lia; exact Hne). destruct (Nat.eq_dec c i) as [->|Hci]; [congruence|]. apply (F c b o); [lia|exact Ec].
      * intros b Hb. rewrite mem_upd_other; [apply K; intros c o Hc; apply Hb; lia|lia|].
        intro X. subst b. apply (Hb i 0); [lia|exact E].
Qed.

Definition done_loop : stmt := match fn_body cf_reg_done with SSeq _ l => l | _ => SSkip end.
Lemma done_loop_ok call m pb lb R : regs_at m pb lb R ->
  forall n i f, (i + n = 256)%nat -> (n < f)%nat ->
  exec call f done_loop (mkst [VInt (Z.of_nat i)] (free_cells (firstn i pb) m))
  = ONormal (mkst [VInt 256] (free_cells pb m)).
Proof.
  intros H. pose proof (ra_blen _ _ _ _ H) as Hbl. pose proof (ra_bufs _ _ _ _ H) as Hb.
  destruct globals_small as (G0 & G1 & G2 & G3 & G4 & G5). pose proof (ra_glob _ _ _ _ H) as Hg.
  induction n as [|n IH]; intros i f Hin Hf; (destruct f as [|f]; [lia|]); unfold done_loop; cbn [fn_body cf_reg_done]; rewrite exec_for; xstep.
  - change (if 8 =? 0 then Err EDivZero else chk U64 (2048 ÷ 8)) with (@Ok Z 256). xstep.
    rewrite wrap_U64_id by lia. destruct (Z.ltb_spec (Z.of_nat i) 256); [lia|]. xstep.
    assert (Ei : firstn i pb = pb) by (replace i with (length pb) by lia; apply firstn_all).
    rewrite Ei. replace (Z.of_nat i) with 256 by lia. reflexivity.
  - change (if 8 =? 0 then Err EDivZero else chk U64 (2048 ÷ 8)) with (@Ok Z 256). xstep.
    rewrite wrap_U64_id by lia. destruct (Z.ltb_spec (Z.of_nat i) 256); [|lia]. xstep.
    destruct (free_cells_blocks m pb lb R H i ltac:(lia)) as (L & F & K). set (mi := free_cells (firstn i pb) m) in *.
    assert (Hbi : nth_error mi G_reg__bufs = Some pb).
    { rewrite K; [exact Hb|]. intros c o Hc E. destruct (cell_live m pb lb R c _ o H ltac:(lia) E) as (_ & Hh & _). unfold heap_blk in Hh. lia. }
    replace (0 + 1 * Z.of_nat i) with (Z.of_nat i) by lia.
    rewrite (load_cellp mi pb _ Hbi Hbl) by lia. rewrite Nat2Z.id. xstep.
    assert (Efree : do_builtin_m BFree [cellp pb i] mi = Ok (VUndef, free_cell (cellp pb i) mi) /\
                    (cellp pb i = VInt 0 \/ exists b, cellp pb i = VPtr b 0)).
    { destruct (cellp pb i) as [|z|bi oi] eqn:E.
      - destruct (cell_shape m pb lb R i H ltac:(lia)) as [X|[b X]]; rewrite E in X; discriminate.
      - destruct (cell_shape m pb lb R i H ltac:(lia)) as [X|[b X]]; rewrite E in X; [|discriminate]. injection X as ->.
        split; [reflexivity|left; reflexivity].
      - destruct (cell_live m pb lb R i bi oi H ltac:(lia) E) as (-> & _ & Hlt & s & l & _ & Hs & _).
        split; [|right; exists bi; reflexivity]. cbn [free_cell].
        apply (free_ok mi bi (cstr_block (zb s))).
        + rewrite K; [exact Hs|]. intros c o Hc E'. destruct (cell_live m pb lb R c bi o H ltac:(lia) E') as (-> & _).
          pose proof (ra_inj _ _ _ _ H c i bi ltac:(lia) ltac:(lia) E' E). lia.
        + unfold cstr_block. destruct (map VInt (zb s)); discriminate. }
    destruct Efree as [Efree Hshape].
    assert (Ecell : forall (st : state), (match cellp pb i with VUndef => Err EUndef | VInt (Z.pos _) | VInt (Z.neg _) => Err EType
             | _ => Ok (cellp pb i, st) end) = Ok (cellp pb i, st))
      by (intro st; destruct Hshape as [E|[b0 E]]; rewrite E; reflexivity).
    rewrite Ecell. xstep. rewrite Efree. xstep. rewrite chk_I32 by lia. xstep.
    replace (Z.of_nat i + 1) with (Z.of_nat (S i)) by lia.
    unfold mi. rewrite <- free_cells_snoc, <- firstn_S_cellp by lia.
    exact (IH (S i) f ltac:(lia) ltac:(lia)).
Qed.

(* reg_done(): returns; every block a register pointed to is freed (once: the cells are pairwise distinct, a second free of a
   block is an error of the semantics), every other block is unchanged; the cells of bufs keep their (now dangling) pointers *)
Theorem tr_reg_done m pb lb R d fuel : regs_at m pb lb R -> (257 <= fuel)%nat ->
  callf cprog fuel (S d) F_reg_done [] m = Ok (VUndef, free_cells pb m) /\
  (forall c b o, (c < 256)%nat -> cellp pb c = VPtr b o -> nth_error (free_cells pb m) b = Some []) /\
  (forall b, (forall c o, (c < 256)%nat -> cellp pb c <> VPtr b o) -> nth_error (free_cells pb m) b = nth_error m b).
Proof.
  intros H Hf. pose proof (ra_blen _ _ _ _ H) as Hbl. split.
  - enter F_reg_done cf_reg_done. rewrite exec_seq, exec_expr. xcbn.
    change (SFor _ _ _) with done_loop.
    change (VInt 0) with (VInt (Z.of_nat 0)). change m with (free_cells (firstn 0 pb) m) at 1.
    rewrite (done_loop_ok _ m pb lb R H 256 0 fuel) by lia. reflexivity.
  - destruct (free_cells_blocks m pb lb R H 256 (le_n _)) as (_ & F & K). rewrite <- Hbl, firstn_all in F, K.
    rewrite Hbl in F, K. split; assumption.
Qed.
