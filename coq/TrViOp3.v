(* TrViOp3.v -- C08: vc_put of /repo/vi.c (p and P) on the translated C text (whitelist tools/c2clite.d/99zzzzz_viops.list), with the
   vocabulary of coq/TrViOp.v.  reg_get is an oracle with one hypothesis for the call: it returns NULL or a pointer to the register's text
   (a string that was in memory before the command) and stores the line-wise flag into the local lnmode (a one-cell block allocated at
   entry: the translator's convention for an address-taken local; never freed). *)
From Coq Require Import List ZArith NArith Bool Lia.
From NV Require Import Bytes UcDefs CLite CLiteProps GenCFuncs CLiteTac CLiteExt TrLbufBase MotDefs TrUc TrMot TrViOpPure TrViOp.
From NV Require RenDefs.
Import ListNotations.
Local Open Scope Z_scope.
Ltac xc := repeat (progress (xcbn; cbn [b2z fst snd]; try change (0 =? 0) with true; try change (1 =? 0) with false; cbn [negb])).

Lemma x_reg_get_none : nth_error cprog X_reg_get = None. Proof. vm_compute. reflexivity. Qed.
Lemma x_snprintf_none : nth_error cprog X_snprintf = None. Proof. vm_compute. reflexivity. Qed.

Fixpoint rep_b (n : nat) (t : bytes) : bytes := match n with O => [] | S k => t ++ rep_b k t end.
Lemma rep_b_snoc n t : rep_b (S n) t = rep_b n t ++ t.
Proof. induction n as [|n IH]; cbn [rep_b]; [rewrite app_nil_r; reflexivity|]. cbn [rep_b] in IH. rewrite IH at 1. rewrite app_assoc. reflexivity. Qed.
Lemma rep_b_nonul n t : nonul t -> nonul (rep_b n t).
Proof. intro H. induction n; cbn [rep_b]; [constructor|apply nonul_app; assumption]. Qed.

Lemma upd_last0 (m : mem) x y : upd (m ++ [x]) (length m) y = m ++ [y].
Proof. rewrite <- (Nat.add_0_r (length m)) at 1. rewrite upd_app_at. reflexivity. Qed.
Lemma str_last0 (m : mem) s : str_at (m ++ [cstr_block (zb s)]) (length m) s.
Proof. unfold str_at. apply nth_error_app_new. Qed.

(* ------------------------------------------------------------------ ren_noeol (ren.c) in a memory of the running editor *)
(* coq/TrRen2.v proves ren_noeol for a memory that holds ALL the program's globals at their initial values; the editor's memory does not
   (xrow, the buffer table ... have changed): the same proof, needing only the literal "" that uc_chr returns for an offset outside the string *)
Lemma uc_next_le' t : (uc_next t <= length t)%nat.
Proof.
  unfold uc_next. pose proof (uc_end_in t) as H.
  destruct (N.eqb_spec (nthb t (uc_end t)) 0) as [E|E]; [exact H|].
  destruct (Nat.eq_dec (uc_end t) (length t)) as [E2|E2]; [|lia]. rewrite E2, nthb_end in E by lia. congruence.
Qed.
Lemma uc_chr_f_le' fuel : forall t i off base k, uc_chr_f fuel t i off base = Some k -> (k <= base + length t)%nat.
Proof.
  induction fuel as [|fuel IH]; intros t i off base k H; destruct t as [|x t]; cbn [uc_chr_f] in H.
  - destruct ((off <? 0) || (i =? off)); [injection H as <-; lia|discriminate].
  - destruct (i =? off); [injection H as <-; lia|discriminate].
  - destruct ((off <? 0) || (i =? off)); [injection H as <-; lia|discriminate].
  - destruct (i =? off); [injection H as <-; lia|]. apply IH in H. rewrite skipn_length in H. pose proof (uc_next_le' (x :: t)). lia.
Qed.
Lemma uc_slen_le (t : bytes) : nonul t -> (uc_slen t <= length t)%nat.
Proof. intro H. rewrite uc_slen_chop by exact H. apply chop_length_le. exact H. Qed.
Lemma hd0_skipn'' s o : hd0 (skipn o s) = nthb s o.
Proof. rewrite <- (Nat.add_0_r o) at 2. rewrite <- nthb_skipn. destruct (skipn o s); reflexivity. Qed.
Theorem tr_ren_noeol' m b s off d fuel : str_at m G_lit__0 [] ->
  str_at m b s -> nonul s -> (length s < fuel)%nat -> Z.of_nat (length s) <= 2147483647 -> off <= 2147483647 ->
  callf cprog fuel (S (S (S (S d)))) F_ren_noeol [VPtr b 0; VInt off] m = Ok (VInt (RenDefs.ren_noeol s off), m).
Proof.
  intros Hg Hs Hnn Hf Hmax Hoff. pose proof (nonul_lt256 s Hnn) as H256.
  enter F_ren_noeol cf_ren_noeol. xstep.
  pose proof (tr_uc_slen m b s 0 (S d) fuel Hs Hnn ltac:(lia) Hf Hmax) as E. change (Z.of_nat 0) with 0 in E.
  rewrite E; clear E. xstep. cbn [skipn].
  unfold RenDefs.ren_noeol. set (n := Z.of_nat (uc_slen s)).
  assert (Hn : 0 <= n <= 2147483647) by (unfold n; pose proof (uc_slen_le s Hnn); lia).
  assert (Htail : forall o1, o1 <= 2147483647 ->
    exec (callf cprog fuel (S (S (S d)))) fuel
      (SReturn (Some (ECond (EAndAlso (EBin OGt I32 (ELocal 1) (EConst 0))
                (EBin OEq I32 (ECast I32 (ELoad (Some I8) (EPtrAdd 1 (ECall F_uc_chr [ELocal 0; ELocal 1]) (EConst 0)))) (EConst 10)))
                (EBin OSub I32 (ELocal 1) (EConst 1)) (ELocal 1))))
      (mkst [VPtr b 0; VInt o1; VInt n] m)
    = OReturn (VInt (if (0 <? o1) && (hd0 (RenDefs.chr_suffix s (Z.to_nat o1)) =? 10)%N then o1 - 1 else o1))
              (mkst [VPtr b 0; VInt o1; VInt n] m)).
  { intros o1 Ho1. xstep. destruct (Z.ltb_spec 0 o1) as [Hp|Hp]; xstep; [|reflexivity].
    pose proof (tr_uc_chr m b s 0 o1 d fuel Hs Hnn ltac:(lia) Hf Hmax) as E. change (Z.of_nat 0) with 0 in E.
    rewrite E; clear E. cbn [skipn]. unfold RenDefs.chr_suffix. rewrite Z2Nat.id by lia.
    destruct (uc_chr s o1) as [q|] eqn:Eq; cbn [option_map chr_val]; xstep.
    - assert (q <= length s)%nat by (apply uc_chr_f_le' in Eq; lia).
      replace (Z.of_nat (0 + q) + 1 * 0) with (Z.of_nat q) by lia.
      rewrite (load_str m b s _ q Hs) by lia. xstep.
      rewrite (sx_eq10 _ (nthb_lt256 s q H256)), hd0_skipn''.
      destruct (nthb s q =? 10)%N; xstep; [rewrite chk_I32 by lia|]; reflexivity.
    - rewrite (load_str m G_lit__0 [] _ O Hg) by (cbn [length]; lia). reflexivity. }
  destruct (Z.leb_spec n off) as [Hge|Hlt].
  - rewrite chk_I32 by lia. xc. destruct (Z.ltb_spec 0 (n - 1)) as [H1|H1]; xc.
    + rewrite chk_I32 by lia. xc. rewrite Htail by lia. rewrite Z.max_r by lia. reflexivity.
    + rewrite Htail by lia. rewrite Z.max_l by lia. reflexivity.
  - rewrite Htail by lia. reflexivity.
Qed.

Section Put.
  Variable ext : nat -> list val -> mem -> res (val * mem).
  Variable fuel : nat.
  Hypothesis OR : oracles ext.
  Variable lown : nat -> Prop.
  Local Notation cx D := (callx ext cprog fuel D).

  Definition put_cnt (a1 : Z) : Z := if 1 <? a1 then a1 else 1.
  Definition pl_body : stmt := match fn_body cf_vc_put with SSeq _ (SSeq _ (SSeq _ (SSeq _ (SSeq _ (SSeq _ (SSeq (SIf _ a _) _)))))) => a | _ => SSkip end.
  Definition pc_body : stmt := match fn_body cf_vc_put with SSeq _ (SSeq _ (SSeq _ (SSeq _ (SSeq _ (SSeq _ (SSeq (SIf _ _ b) _)))))) => b | _ => SSkip end.
  Definition pl_loop : stmt := match pl_body with SSeq _ (SSeq (SSeq _ w) _) => w | _ => SSkip end.

  (* for (i = 0; i < cnt; i++) sbuf_str(sb, buf);  -- the string builder is the block p that comes last in memory *)
  Lemma pl_loop_ok D m0 rb txt cnt l0 l2 l4 l7 l8 l9 l10 : str_at m0 rb txt -> nonul txt -> (rb < length m0)%nat -> cnt <= 2147483647 ->
    forall n i acc F, (n = Z.to_nat (cnt - Z.of_nat i))%nat -> Z.of_nat i <= Z.max 0 cnt -> (n < F)%nat ->
    exec (cx (S D)) F pl_loop (mkst [l0; VInt cnt; l2; VPtr rb 0; l4; VInt (Z.of_nat i); VPtr (length m0) 0; l7; l8; l9; l10] (m0 ++ [cstr_block (zb acc)]))
    = ONormal (mkst [l0; VInt cnt; l2; VPtr rb 0; l4; VInt (Z.max (Z.of_nat i) cnt); VPtr (length m0) 0; l7; l8; l9; l10] (m0 ++ [cstr_block (zb (acc ++ rep_b n txt))])).
  Proof.
    intros Hs Hn Hrb Hc. induction n as [|n IH]; intros i acc F Hn' Hi HF; (destruct F as [|F]; [lia|]);
      unfold pl_loop; cbn [pl_body fn_body cf_vc_put]; rewrite exec_for; xc.
    - destruct (Z.ltb_spec (Z.of_nat i) cnt); [lia|]. xc. cbn [rep_b]. rewrite app_nil_r, Z.max_l by lia. reflexivity.
    - destruct (Z.ltb_spec (Z.of_nat i) cnt); [|lia]. xs.
      rewrite (cx_ext ext fuel D _ _ _ x_sbuf_str_none).
      pose proof (o_str ext OR (m0 ++ [cstr_block (zb acc)]) (length m0) acc rb txt O (str_last0 m0 acc) (str_at_app m0 _ rb txt Hs) ltac:(lia) Hn ltac:(lia)) as X.
      change (Z.of_nat 0) with 0 in X. rewrite X. clear X. xs. cbn [skipn]. rewrite upd_last0. rewrite chk_I32 by lia. xs.
      replace (Z.of_nat i + 1) with (Z.of_nat (S i)) by lia.
      specialize (IH (S i) (acc ++ txt) F ltac:(lia) ltac:(lia) ltac:(lia)). unfold pl_loop in IH; cbn [pl_body fn_body cf_vc_put] in IH. rewrite IH.
      rewrite <- app_assoc. cbn [rep_b]. replace (Z.max (Z.of_nat (S i)) cnt) with (Z.max (Z.of_nat i) cnt) by lia. reflexivity.
  Qed.

  Definition put_tail : stmt := match fn_body cf_vc_put with SSeq _ (SSeq _ (SSeq _ (SSeq _ (SSeq _ (SSeq _ (SSeq _ t)))))) => t | _ => SSkip end.
  Definition put_L1 (m : mem) (cmd cnt : Z) (rb : nat) : list val :=
    [VInt cmd; VInt cnt; VPtr (length m) 0; VPtr rb 0; VInt 0; VUndef; VUndef; VUndef; VUndef; VUndef; VUndef].
  (* the start of vc_put, for a register that holds a non-empty text: cnt, reg_get, the two tests *)
  Lemma put_head D m cmd a1 y lnm rb txt : cell_at m G_vi_arg1 a1 -> cell_at m G_vi_ybuf y -> int_ok a1 -> int_ok y -> int_ok lnm ->
    ext X_reg_get [VInt y; VPtr (length m) 0] (m ++ [[VUndef]]) = Ok (VPtr rb 0, m ++ [[VInt lnm]]) ->
    str_at m rb txt -> nonul txt -> txt <> [] ->
    exec (cx (S D)) fuel (fn_body cf_vc_put) (mkst (VInt cmd :: repeat VUndef 10) m)
    = match exec (cx (S D)) fuel (if lnm =? 0 then pc_body else pl_body) (mkst (put_L1 m cmd (put_cnt a1) rb) (m ++ [[VInt lnm]])) with
      | ONormal st => exec (cx (S D)) fuel put_tail st | o => o end.
  Proof.
    intros Ha Hy Ia Iy Il Hget Hs Hn Hne. pose proof (nonul_lt256 txt Hn) as H256.
    cbn [fn_body cf_vc_put repeat].
    match goal with |- context [SSeq (SIf (ELoad (Some I32) (ELocal 2)) ?a ?b) ?t] => change a with pl_body; change b with pc_body; change t with put_tail end.
    xs. rewrite (ld1 m G_vi_arg1 _ Ha). xs. rewrite (wrap_int_ok a1 Ia).
    assert (Hc : (if 1 <? a1 then a1 else 1) = put_cnt a1) by reflexivity.
    destruct (Z.ltb_spec 1 a1); xs; rewrite ?(ld1 m G_vi_arg1 _ Ha); xs; rewrite ?(wrap_int_ok a1 Ia); rewrite malloc_ok by lia; xs;
      change (repeat VUndef (Z.to_nat 1)) with [VUndef];
      rewrite (ld1 _ G_vi_ybuf (VInt y)) by (apply cell_at_app; exact Hy); xs; rewrite (wrap_int_ok y Iy);
      rewrite (cx_ext ext fuel D _ _ _ x_reg_get_none), Hget; xs;
      rewrite (load_str _ rb txt _ O (str_at_app m _ rb txt Hs)) by lia; xs;
      rewrite (sx_i8_nz _ (nthb_lt256 txt 0 H256));
      (destruct txt as [|c0 t0]; [congruence|]); change (nthb (c0 :: t0) 0) with c0;
      (destruct (N.eqb_spec c0 0) as [->|Hc0]; [inversion Hn as [|? ? [Hx _] _]; lia|]); xs;
      rewrite (ld1 _ (length m) (VInt lnm)) by apply nth_error_app_new; xs; rewrite (wrap_int_ok lnm Il);
      unfold put_L1, put_cnt.
    all: destruct (Z.ltb_spec 1 a1); try lia; destruct (lnm =? 0); reflexivity.
  Qed.

  (* ================================================================ a line-wise register, on a buffer that is not empty *)
  Definition put_row (cmd xr : Z) : Z := if cmd =? 112 then xr + 1 else xr.
  Definition put_rep (a1 : Z) (txt : bytes) : bytes := rep_b (Z.to_nat (put_cnt a1)) txt.
  (* the memory in which lbuf_edit is called: the local lnmode, the builder with cnt copies of the text, xrow moved for p *)
  Definition putl_mem4 (m : mem) (lnm cmd a1 xr : Z) (txt : bytes) : mem :=
    let M3 := (m ++ [[VInt lnm]]) ++ [cstr_block (zb (put_rep a1 txt))] in
    if cmd =? 112 then upd M3 G_xrow [VInt (xr + 1)] else M3.
  Definition putl_mem8 (m m6 : mem) (v : Z) : mem := upd (upd m6 G_xoff [VInt v]) (length m + 1) [].
  Theorem tr_vc_put_lines D m lb bln lbs lines cmd a1 y lnm rb txt xr xo u' m6 bln' lbs' lines' ud m9 :
    ed_cur m lb bln lbs lines -> lines <> [] ->
    cell_at m G_vi_arg1 a1 -> cell_at m G_vi_ybuf y -> cell_at m G_xrow xr -> cell_at m G_xoff xo ->
    int_ok a1 -> int_ok y -> int_ok lnm -> int_ok cmd -> int_ok xr -> int_ok (xr + 1) -> lnm <> 0 ->
    ext X_reg_get [VInt y; VPtr (length m) 0] (m ++ [[VUndef]]) = Ok (VPtr rb 0, m ++ [[VInt lnm]]) ->
    str_at m rb txt -> nonul txt -> txt <> [] ->
    let rep := put_rep a1 txt in let row := put_row cmd xr in
    Z.of_nat (length rep) < 2147483647 -> (nlcount rep + 1 < fuel)%nat -> (Z.to_nat (put_cnt a1) < fuel)%nat ->
    (forall b, lown b -> (b < length m)%nat) -> ~ lown G_xrow -> ~ lown G_xoff ->
    ext X_lbuf_edit [VPtr lb 0; VPtr (length m + 1) 0; VInt row; VInt row] (putl_mem4 m lnm cmd a1 xr txt) = Ok (u', m6) ->
    eframe lown (putl_mem4 m lnm cmd a1 xr txt) m6 -> ed_cur m6 lb bln' lbs' lines' -> (maxlen lines' < fuel)%nat ->
    let v := lbuf_indents (map chop lines') row in
    ext X_vi_drawfix [VInt row; VInt row; VInt (Z.of_nat (nlcount rep) + 1); VInt 0] (putl_mem8 m m6 v) = Ok (ud, m9) ->
    callx ext cprog fuel (S (S (S (S D)))) F_vc_put [VInt cmd] m = Ok (VInt 16, m9).
  Proof.
    intros (E & N01 & N02 & N03) Hne Ha Hy Hx Ho Ia Iy Il Ic Ix Ix1 Hl0 Hget Hs Hn Htn rep row Hrl Hfu1 Hfu2 Hlown Nlx Nlo Hedit [Hlen6 Hfr6] Ec Hfl v Hdraw.
    pose proof Ec as (E6 & N61 & N62 & N63).
    assert (Lx : (G_xrow < length m)%nat) by (apply nth_error_Some; unfold cell_at in Hx; congruence).
    assert (Lo : (G_xoff < length m)%nat) by (apply nth_error_Some; unfold cell_at in Ho; congruence).
    assert (Lrb : (rb < length m)%nat) by (apply nth_error_Some; unfold str_at in Hs; congruence).
    rewrite callx_S. change (nth_error cprog F_vc_put) with (Some cf_vc_put).
    cbn [fn_nparams cf_vc_put length Nat.eqb fn_nlocals Nat.sub app].
    rewrite (put_head (S (S D)) m cmd a1 y lnm rb txt Ha Hy Ia Iy Il Hget Hs Hn Htn).
    destruct (Z.eqb_spec lnm 0) as [|_]; [contradiction|]. unfold put_L1.
    set (M1 := m ++ [[VInt lnm]]). assert (LM1 : length M1 = (length m + 1)%nat) by (unfold M1; rewrite app_length; reflexivity).
    unfold pl_body. cbn [fn_body cf_vc_put].
    match goal with |- context [SFor ?c ?st ?b] => change (SFor c st b) with pl_loop end.
    xs. rewrite (cx_ext ext fuel (S (S D)) _ _ _ x_sbuf_make_none), (o_make ext OR M1). unfold fresh. xs.
    assert (HsM1 : str_at M1 rb txt) by (apply str_at_app; exact Hs).
    assert (Hcnt : 1 <= put_cnt a1 <= 2147483647) by (unfold put_cnt, int_ok in *; destruct (Z.ltb_spec 1 a1); lia).
    pose proof (pl_loop_ok (S (S D)) M1 rb txt (put_cnt a1) (VInt cmd) (VPtr (length m) 0) (VInt 0) VUndef VUndef VUndef VUndef HsM1 Hn ltac:(lia) ltac:(lia)
                  (Z.to_nat (put_cnt a1)) O [] fuel ltac:(lia) ltac:(lia) Hfu2) as X.
    change (Z.of_nat 0) with 0 in X. rewrite X. clear X. cbn [app]. fold (put_rep a1 txt). fold rep. rewrite Z.max_r by lia.
    set (M3 := M1 ++ [cstr_block (zb rep)]).
    assert (E3 : ed_at M3 lb bln lbs lines) by (unfold M3, M1; apply ed_at_app, ed_at_app; exact E).
    assert (LM3 : length M3 = (length m + 2)%nat) by (unfold M3; rewrite app_length, LM1; cbn [length]; lia).
    assert (Hx3 : cell_at M3 G_xrow xr) by (unfold M3, M1; apply cell_at_app, cell_at_app; exact Hx).
    assert (Hlen : Z.of_nat (length lines) <> 0) by (destruct lines; [congruence|cbn [length]; lia]).
    (* if (!lbuf_len(xb)) ...: the buffer is not empty *)
    xs. rewrite (cx_xb ext fuel (S (S D)) M3 lb bln lbs lines E3). xs. rewrite (cx_len ext fuel (S (S D)) M3 lb bln lbs lines E3). xs.
    destruct (Z.eqb_spec (Z.of_nat (length lines)) 0) as [|_]; [contradiction|]. xs.
    set (M4 := putl_mem4 m lnm cmd a1 xr txt) in *.
    assert (EM4 : M4 = if cmd =? 112 then upd M3 G_xrow [VInt (xr + 1)] else M3) by reflexivity.
    assert (LM3x : (G_xrow < length M3)%nat) by lia.
    assert (F4 : str_at M4 (length M1) rep /\ ed_at M4 lb bln lbs lines /\ cell_at M4 G_xrow row /\ length M4 = (length m + 2)%nat).
    { rewrite EM4. unfold row, put_row. destruct (cmd =? 112).
      - split; [unfold str_at; rewrite mem_upd_other by lia; apply str_last0|]. split.
        + apply ed_at_upd; [exact E3|exact LM3x|]. intros [Hb|Hin]; [vm_compute in Hb; discriminate Hb|contradiction].
        + split; [unfold cell_at; apply mem_upd_same; exact LM3x|rewrite upd_length by exact LM3x; exact LM3].
      - split; [apply str_last0|]. split; [exact E3|]. split; [exact Hx3|exact LM3]. }
    destruct F4 as (S4 & E4 & X4 & L4).
    match goal with |- context [if cmd =? 112 then ?A else ?B] =>
      match B with ONormal (mkst ?L _) => assert (Hif : (if cmd =? 112 then A else B) = ONormal (mkst L M4)) end end.
    { rewrite EM4. destruct (cmd =? 112); [|reflexivity]. rewrite (ld1 M3 G_xrow _ Hx3). xs. rewrite (wrap_int_ok xr Ix), chk_I32 by (unfold int_ok in Ix1; lia). xs.
      rewrite (store_cell M3 G_xrow xr _ Hx3). reflexivity. }
    rewrite Hif. clear Hif.
    (* lbuf_edit(xb, sbuf_buf(sb), xrow, xrow) *)
    assert (Irow : int_ok row) by (unfold row, put_row; destruct (cmd =? 112); assumption).
    rewrite LM1 in *.
    xs. rewrite (cx_xb ext fuel (S (S D)) M4 lb bln lbs lines E4). xs.
    rewrite (cx_ext ext fuel (S (S D)) _ _ _ x_sbuf_buf_none), (o_buf ext OR M4 _ rep S4). xs.
    rewrite (ld1 M4 G_xrow _ X4). xs. rewrite (wrap_int_ok row Irow). rewrite (ld1 M4 G_xrow _ X4). xs. rewrite (wrap_int_ok row Irow).
    rewrite (cx_ext ext fuel (S (S D)) _ _ _ x_lbuf_edit_none), Hedit. xs.
    (* lncnt = linecount(sbuf_buf(sb)) *)
    assert (Nl : forall k, (length m <= k)%nat -> ~ lown k) by (intros k Hk Hl; specialize (Hlown _ Hl); lia).
    assert (S6 : str_at m6 (length m + 1) rep) by (unfold str_at; rewrite Hfr6 by (try apply Nl; lia); exact S4).
    rewrite (cx_ext ext fuel (S (S D)) _ _ _ x_sbuf_buf_none), (o_buf ext OR m6 _ rep S6). xs.
    rewrite (callx_mono ext _ _ _ _ _ _ _ (tr_linecount m6 (length m + 1) rep (S (S D)) fuel S6 (rep_b_nonul _ _ Hn) Hrl Hfu1)). xs. unfold vlinecount.
    (* xoff = lbuf_indents(xb, xrow) *)
    assert (X6 : cell_at m6 G_xrow row) by (unfold cell_at; rewrite Hfr6 by (try exact Nlx; lia); exact X4).
    assert (O6 : cell_at m6 G_xoff xo).
    { unfold cell_at. rewrite Hfr6 by (try exact Nlo; lia). rewrite EM4.
      assert (Ne : G_xoff <> G_xrow) by (vm_compute; discriminate).
      destruct (cmd =? 112); [rewrite (mem_upd_other M3 G_xrow G_xoff _ LM3x Ne)|]; unfold M3, M1; rewrite !nth_app_lt by (rewrite ?app_length; cbn [length]; lia); exact Ho. }
    rewrite (cx_xb ext fuel (S (S D)) m6 lb bln' lbs' lines' E6). xs. rewrite (ld1 m6 G_xrow _ X6). xs. rewrite (wrap_int_ok row Irow).
    rewrite (callx_mono ext _ _ _ _ _ _ _ (tr_lbuf_indents m6 lb bln' lbs' lines' row D fuel (ed_lb _ _ _ _ _ E6) (ed_small _ _ _ _ _ E6) Hfl)). xs.
    fold v.
    assert (Iv : int_ok v).
    { unfold v, lbuf_indents. rewrite getl_rowidx. destruct (rowidx lines' row) as [i|]; cbn [option_map]; [|unfold int_ok; lia].
      pose proof (count_space_le (chop (nthl lines' i))). pose proof (slen_small lines' i (ed_small _ _ _ _ _ E6) (la_nonul _ _ _ _ _ (ed_lb _ _ _ _ _ E6))). unfold int_ok. lia. }
    rewrite (wrap_int_ok v Iv), (store_cell m6 G_xoff xo v O6). xs.
    (* sbuf_free(sb); vi_drawfix(xrow, xrow, lncnt, 0) *)
    assert (S7 : str_at (upd m6 G_xoff [VInt v]) (length m + 1) rep) by (unfold str_at; rewrite mem_upd_other by lia; exact S6).
    rewrite (cx_ext ext fuel (S (S D)) _ _ _ x_sbuf_free_none), (o_free ext OR _ _ rep S7). xs. fold (putl_mem8 m m6 v).
    unfold put_tail. cbn [fn_body cf_vc_put]. xs.
    assert (X8 : cell_at (putl_mem8 m m6 v) G_xrow row).
    { unfold cell_at, putl_mem8. rewrite !mem_upd_other by (rewrite ?upd_length by lia; try lia; unfold G_xoff, G_xrow; discriminate). exact X6. }
    rewrite (ld1 _ G_xrow _ X8). xs. rewrite (wrap_int_ok row Irow). rewrite (ld1 _ G_xrow _ X8). xs. rewrite (wrap_int_ok row Irow).
    rewrite (cx_ext ext fuel (S (S D)) _ _ _ x_vi_drawfix_none), Hdraw. xs. reflexivity.
  Qed.

  (* ================================================================ a character-wise register, on an existing row *)
  Definition pc_loop : stmt := match pc_body with SSeq _ (SSeq _ (SSeq _ (SSeq _ (SSeq _ (SSeq _ (SSeq (SSeq _ w) _)))))) => w | _ => SSkip end.
  Lemma upd_at0 (m0 : mem) x tl y : upd (m0 ++ x :: tl) (length m0) y = m0 ++ y :: tl.
  Proof. rewrite <- (Nat.add_0_r (length m0)) at 1. rewrite upd_app_at. reflexivity. Qed.
  Lemma str_at0 (m0 : mem) s tl : str_at (m0 ++ cstr_block (zb s) :: tl) (length m0) s.
  Proof. unfold str_at. rewrite <- (Nat.add_0_r (length m0)), nth_app_at. reflexivity. Qed.
  Lemma pc_loop_ok D m0 tl rb txt cnt l0 l2 l4 l6 l8 l9 l10 : str_at m0 rb txt -> nonul txt -> (rb < length m0)%nat -> cnt <= 2147483647 ->
    forall n i acc F, (n = Z.to_nat (cnt - Z.of_nat i))%nat -> Z.of_nat i <= Z.max 0 cnt -> (n < F)%nat ->
    exec (cx (S D)) F pc_loop (mkst [l0; VInt cnt; l2; VPtr rb 0; l4; VInt (Z.of_nat i); l6; VPtr (length m0) 0; l8; l9; l10] (m0 ++ cstr_block (zb acc) :: tl))
    = ONormal (mkst [l0; VInt cnt; l2; VPtr rb 0; l4; VInt (Z.max (Z.of_nat i) cnt); l6; VPtr (length m0) 0; l8; l9; l10] (m0 ++ cstr_block (zb (acc ++ rep_b n txt)) :: tl)).
  Proof.
    intros Hs Hn Hrb Hc. induction n as [|n IH]; intros i acc F Hn' Hi HF; (destruct F as [|F]; [lia|]);
      unfold pc_loop; cbn [pc_body fn_body cf_vc_put]; rewrite exec_for; xc.
    - destruct (Z.ltb_spec (Z.of_nat i) cnt); [lia|]. xc. cbn [rep_b]. rewrite app_nil_r, Z.max_l by lia. reflexivity.
    - destruct (Z.ltb_spec (Z.of_nat i) cnt); [|lia]. xs.
      rewrite (cx_ext ext fuel D _ _ _ x_sbuf_str_none).
      pose proof (o_str ext OR (m0 ++ cstr_block (zb acc) :: tl) (length m0) acc rb txt O (str_at0 m0 acc tl) (str_at_app m0 _ rb txt Hs) ltac:(lia) Hn ltac:(lia)) as X.
      change (Z.of_nat 0) with 0 in X. rewrite X. clear X. xs. cbn [skipn]. rewrite upd_at0. rewrite chk_I32 by lia. xs.
      replace (Z.of_nat i + 1) with (Z.of_nat (S i)) by lia.
      specialize (IH (S i) (acc ++ txt) F ltac:(lia) ltac:(lia) ltac:(lia)). unfold pc_loop in IH; cbn [pc_body fn_body cf_vc_put] in IH. rewrite IH.
      rewrite <- app_assoc. cbn [rep_b]. replace (Z.max (Z.of_nat (S i)) cnt) with (Z.max (Z.of_nat i) cnt) by lia. reflexivity.
  Qed.

  Definition putc_off (s : bytes) (cmd xo : Z) : Z :=
    RenDefs.ren_noeol s xo + (if negb (nthb s 0 =? 10)%N && (cmd =? 112) then 1 else 0).
  Definition putc_text (s : bytes) (cmd xo a1 : Z) (txt : bytes) : bytes :=
    sub_b (Some s) 0 (putc_off s cmd xo) ++ put_rep a1 txt ++ sub_b (Some s) (putc_off s cmd xo) (-1).
  Definition putc_mem5 (m : mem) (lnm : Z) (text : bytes) : mem := (m ++ [[VInt lnm]]) ++ [cstr_block (zb text); []; []].
  Theorem tr_vc_put_chars D m lb bln lbs lines cmd a1 y rb txt xr xo u' m6 ud m9 :
    ed_cur m lb bln lbs lines -> 0 <= xr < Z.of_nat (length lines) ->
    cell_at m G_vi_arg1 a1 -> cell_at m G_vi_ybuf y -> cell_at m G_xrow xr -> cell_at m G_xoff xo -> str_at m G_lit__0 [] ->
    int_ok a1 -> int_ok y -> int_ok cmd -> int_ok xo ->
    ext X_reg_get [VInt y; VPtr (length m) 0] (m ++ [[VUndef]]) = Ok (VPtr rb 0, m ++ [[VInt 0]]) ->
    str_at m rb txt -> nonul txt -> txt <> [] ->
    let s := nthl lines (Z.to_nat xr) in
    let off := putc_off s cmd xo in
    let text := putc_text s cmd xo a1 txt in
    sub_in (Some s) 0 off -> sub_in (Some s) off (-1) ->
    Z.of_nat (length text) < 2147483647 -> (nlcount text + 1 < fuel)%nat -> (Z.to_nat (put_cnt a1) < fuel)%nat -> (maxlen lines < fuel)%nat -> (length txt < fuel)%nat ->
    let v := off + Z.of_nat (uc_slen txt) * put_cnt a1 - 1 in
    Z.of_nat (uc_slen txt) * put_cnt a1 <= 2147483647 -> int_ok v -> int_ok (off + Z.of_nat (uc_slen txt) * put_cnt a1) ->
    (forall b, lown b -> (b < length m)%nat) -> ~ lown G_xrow -> ~ lown G_xoff -> ~ lown rb ->
    ext X_lbuf_edit [VPtr lb 0; VPtr (length m + 1) 0; VInt xr; VInt (xr + 1)] (putc_mem5 m 0 text) = Ok (u', m6) ->
    eframe lown (putc_mem5 m 0 text) m6 ->
    ext X_vi_drawfix [VInt xr; VInt xr; VInt (Z.of_nat (nlcount text)); VInt 0] (putl_mem8 m m6 v) = Ok (ud, m9) ->
    callx ext cprog fuel (S (S (S (S (S (S D)))))) F_vc_put [VInt cmd] m = Ok (VInt 16, m9).
  Proof.
    intros (E & N01 & N02 & N03) Hxr Ha Hy Hx Ho Hlit Ia Iy Ic Ixo Hget Hs Hn Htn s off text Hin1 Hin2 Htl Hfu1 Hfu2 Hfl Hft v Hmul Iv Iv2
           Hlown Nlx Nlo Nlr Hedit [Hlen6 Hfr6] Hdraw.
    assert (Lx : (G_xrow < length m)%nat) by (apply nth_error_Some; unfold cell_at in Hx; congruence).
    assert (Lo : (G_xoff < length m)%nat) by (apply nth_error_Some; unfold cell_at in Ho; congruence).
    assert (Lrb : (rb < length m)%nat) by (apply nth_error_Some; unfold str_at in Hs; congruence).
    assert (Ix : int_ok xr) by (pose proof (ed_small _ _ _ _ _ E) as [Hsm _]; unfold int_ok; lia).
    pose proof (ed_lb _ _ _ _ _ E) as R. set (i := Z.to_nat xr) in *.
    assert (Hi : (i < length lines)%nat) by (unfold i; lia).
    assert (Hrow : rowidx lines xr = Some i).
    { unfold rowidx. destruct (Z.leb_spec 0 xr); [|lia]. destruct (Z.ltb_spec xr (Z.of_nat (length lines))); [|lia]. reflexivity. }
    set (bi := nth i lbs O). pose proof (la_str _ _ _ _ _ R i Hi) as Hsl. fold s in Hsl. fold bi in Hsl.
    pose proof (nthl_nonul lines i (la_nonul _ _ _ _ _ R)) as Hns. fold s in Hns. pose proof (nonul_lt256 s Hns) as H256.
    pose proof (maxlen_ge lines i) as Hml. fold s in Hml. pose proof (nthl_small lines i (ed_small _ _ _ _ _ E)) as Hsm. fold s in Hsm.
    assert (Lbi : (bi < length m)%nat) by (apply nth_error_Some; unfold str_at in Hsl; congruence).
    rewrite callx_S. change (nth_error cprog F_vc_put) with (Some cf_vc_put).
    cbn [fn_nparams cf_vc_put length Nat.eqb fn_nlocals Nat.sub app].
    rewrite (put_head (S (S (S (S D)))) m cmd a1 y 0 rb txt Ha Hy Ia Iy ltac:(unfold int_ok; lia) Hget Hs Hn Htn).
    change (0 =? 0) with true. cbv iota. unfold put_L1.
    set (M1 := m ++ [[VInt 0]]). assert (LM1 : length M1 = (length m + 1)%nat) by (unfold M1; rewrite app_length; reflexivity).
    assert (Hcnt : 1 <= put_cnt a1 <= 2147483647) by (unfold put_cnt, int_ok in *; destruct (Z.ltb_spec 1 a1); lia).
    assert (EM : forall t, ed_at (M1 ++ t) lb bln lbs lines) by (intro t; unfold M1; apply ed_at_app, ed_at_app; exact E).
    assert (XM : forall t, cell_at (M1 ++ t) G_xrow xr) by (intro t; unfold M1; apply cell_at_app, cell_at_app; exact Hx).
    assert (OM : forall t, cell_at (M1 ++ t) G_xoff xo) by (intro t; unfold M1; apply cell_at_app, cell_at_app; exact Ho).
    assert (SM : forall t, str_at (M1 ++ t) bi s) by (intro t; unfold M1; apply str_at_app, str_at_app; exact Hsl).
    assert (RM : forall t, str_at (M1 ++ t) rb txt) by (intro t; unfold M1; apply str_at_app, str_at_app; exact Hs).
    assert (LitM : forall t, str_at (M1 ++ t) G_lit__0 []) by (intro t; unfold M1; apply str_at_app, str_at_app; exact Hlit).
    unfold pc_body. cbn [fn_body cf_vc_put].
    match goal with |- context [SFor ?c ?st ?b] => change (SFor c st b) with pc_loop end.
    xs. rewrite (cx_ext ext fuel (S (S (S (S D)))) _ _ _ x_sbuf_make_none), (o_make ext OR M1). unfold fresh. xs.
    (* ln = xrow < lbuf_len(xb) ? lbuf_get(xb, xrow) : "\n" *)
    rewrite (ld1 _ G_xrow _ (XM _)). xs. rewrite (wrap_int_ok xr Ix).
    rewrite (cx_xb ext fuel (S (S (S (S D)))) _ lb bln lbs lines (EM _)). xs. rewrite (cx_len ext fuel (S (S (S (S D)))) _ lb bln lbs lines (EM _)). xs.
    destruct (Z.ltb_spec xr (Z.of_nat (length lines))); [|lia]. xs.
    rewrite (cx_xb ext fuel (S (S (S (S D)))) _ lb bln lbs lines (EM _)). xs. rewrite (ld1 _ G_xrow _ (XM _)). xs. rewrite (wrap_int_ok xr Ix).
    rewrite (cx_get ext fuel (S (S (S (S D)))) _ lb bln lbs lines xr (EM _)). unfold line_ptr. rewrite Hrow. fold bi. xs.
    (* off = ren_noeol(ln, xoff) + (ln[0] != '\n' && cmd == 'p') *)
    rewrite (ld1 _ G_xoff _ (OM _)). xs. rewrite (wrap_int_ok xo Ixo).
    rewrite (callx_mono ext _ _ _ _ _ _ _ (tr_ren_noeol' _ bi s xo (S D) fuel (LitM _) (SM _) Hns ltac:(lia) Hsm ltac:(unfold int_ok in Ixo; lia))). xs.
    rewrite (load_str _ bi s _ O (SM _)) by lia. xs. rewrite (sx_eq10 _ (nthb_lt256 s 0 H256)).
    assert (Hoff : forall L mm, (do (v2, st2) <- (if negb (nthb s 0 =? 10)%N
                   then do (w, st2) <- Ok (VInt (b2z (cmd =? 112)), mkst L mm); do u0 <- truth w; Ok (VInt (b2z u0), st2)
                   else Ok (VInt 0, mkst L mm)); do z1 <- as_int (VInt (RenDefs.ren_noeol s xo)); do z2 <- as_int v2; do r <- arith OAdd I32 z1 z2; Ok (VInt r, st2))
                = Ok (VInt off, mkst L mm) -> True) by (intros; exact I).
    clear Hoff.
    assert (Irn' : -2147483648 <= RenDefs.ren_noeol s xo <= 2147483646).
    { pose proof (uc_slen_le s Hns). unfold RenDefs.ren_noeol, int_ok in *. set (n := Z.of_nat (uc_slen s)) in *.
      assert (Hn' : 0 <= n <= 2147483647) by (unfold n; lia).
      set (o1 := if n <=? xo then Z.max 0 (n - 1) else xo).
      assert (Ho1 : -2147483648 <= o1 <= 2147483646) by (unfold o1; destruct (Z.leb_spec n xo); lia).
      destruct (Z.ltb_spec 0 o1); cbn [andb]; [destruct (_ =? 10)%N|]; lia. }
    assert (Ioff : int_ok off /\ int_ok (RenDefs.ren_noeol s xo)).
    { unfold off, putc_off, int_ok. destruct (_ && _); lia. }
    destruct Ioff as [Ioff Irn].
    match goal with |- context [bind (if negb (nthb s 0 =? 10)%N then Ok (?a, ?st) else Ok (?b, ?st)) ?k] =>
      assert (Hsum : bind (if negb (nthb s 0 =? 10)%N then Ok (a, st) else Ok (b, st)) k = Ok (VInt off, st)) end.
    { unfold off, putc_off. destruct (nthb s 0 =? 10)%N; destruct (cmd =? 112); cbn [negb andb bind as_int b2z]; rewrite chk_I32 by lia; reflexivity. }
    rewrite Hsum. clear Hsum. xs.
    (* s = uc_sub(ln, 0, off); sbuf_str(sb, s); free(s) *)
    set (pre := sub_b (Some s) 0 off). set (post := sub_b (Some s) off (-1)). set (rep := put_rep a1 txt).
    assert (Npre : nonul pre) by (apply sub_b_nonul; intros s0 Es; injection Es as <-; exact Hns).
    assert (Npost : nonul post) by (apply sub_b_nonul; intros s0 Es; injection Es as <-; exact Hns).
    assert (Sarg : forall t, sarg (M1 ++ t) (VPtr bi 0) (Some s)) by (intro t; exists bi; split; [reflexivity|split; [apply SM|exact Hns]]).
    rewrite (cx_ext ext fuel (S (S (S (S D)))) _ _ _ x_uc_sub_none), (o_sub ext OR _ _ _ 0 off (Sarg _) Hin1). unfold fresh. fold pre. xs.
    rewrite app_tail. cbn [app]. rewrite app_length. cbn [length]. rewrite LM1.
    rewrite (cx_ext ext fuel (S (S (S (S D)))) _ _ _ x_sbuf_str_none).
    assert (Q : forall (t : list block) k x, nth_error t k = Some x -> nth_error (M1 ++ t) (length m + 1 + k) = Some x) by (intros t k x HQ; rewrite <- LM1, nth_app_at; exact HQ).
    assert (U : forall (t : list block) k x, upd (M1 ++ t) (length m + 1 + k) x = M1 ++ upd t k x) by (intros t k x; rewrite <- LM1; apply upd_app_at).
    assert (U0 : forall (t : list block) x, upd (M1 ++ t) (length m + 1) x = M1 ++ upd t 0 x) by (intros t x; rewrite <- (Nat.add_0_r (length m + 1)); apply U).
    pose proof (o_str ext OR (M1 ++ [cstr_block (zb []); cstr_block (zb pre)]) (length m + 1) [] (length m + 1 + 1) pre O
                  ltac:(unfold str_at; rewrite <- (Nat.add_0_r (length m + 1)); apply Q; reflexivity) ltac:(unfold str_at; apply Q; reflexivity) ltac:(lia) Npre ltac:(lia)) as X.
    change (Z.of_nat 0) with 0 in X. rewrite X. clear X. xs. cbn [skipn app].
    rewrite U0. cbn [upd firstn skipn app].
    rewrite (free_ok _ (length m + 1 + 1) (cstr_block (zb pre))) by (try apply cstr_ne; apply Q; reflexivity). xs.
    rewrite U. cbn [upd firstn skipn app]. xs.
    (* the copies of the register text *)
    pose proof (pc_loop_ok (S (S (S (S D)))) M1 (@cons block (@nil val) (@nil block)) rb txt (put_cnt a1) (VInt cmd) (VPtr (length m) 0) (VInt 0) VUndef (VPtr bi 0) (VInt off) (VPtr (length m + 1 + 1) 0)
                  ltac:(unfold M1; apply str_at_app; exact Hs) Hn ltac:(lia) ltac:(lia) (Z.to_nat (put_cnt a1)) O pre fuel ltac:(lia) ltac:(lia) Hfu2) as X.
    change (Z.of_nat 0) with 0 in X. rewrite LM1 in X. rewrite X. clear X. fold (put_rep a1 txt). fold rep. rewrite Z.max_r by lia. xs.
    (* s = uc_sub(ln, off, -1); sbuf_str(sb, s); free(s) *)
    change (chk I32 (- (1))) with (@Ok Z (-1)). xs.
    rewrite (cx_ext ext fuel (S (S (S (S D)))) _ _ _ x_uc_sub_none), (o_sub ext OR _ _ _ off (-1) (Sarg _) Hin2). unfold fresh. fold post. xs.
    rewrite app_tail. cbn [app]. rewrite app_length. cbn [length]. rewrite LM1.
    rewrite (cx_ext ext fuel (S (S (S (S D)))) _ _ _ x_sbuf_str_none).
    match goal with |- context [ext X_sbuf_str _ ?mm] =>
      pose proof (o_str ext OR mm (length m + 1) (pre ++ rep) (length m + 1 + 2) post O
                  ltac:(unfold str_at; rewrite <- (Nat.add_0_r (length m + 1)); apply Q; reflexivity) ltac:(unfold str_at; apply Q; reflexivity) ltac:(lia) Npost ltac:(lia)) as X end.
    change (Z.of_nat 0) with 0 in X. rewrite X. clear X. xs. cbn [skipn]. rewrite U0. cbn [upd firstn skipn app].
    rewrite (free_ok _ (length m + 1 + 2) (cstr_block (zb post))) by (try apply cstr_ne; apply Q; reflexivity). xs.
    rewrite U. cbn [upd firstn skipn app]. rewrite <- app_assoc.
    match goal with |- context [callx ext cprog fuel _ F_ex_lbuf [] ?mm] => change mm with (putc_mem5 m 0 text) end.
    set (M5 := putc_mem5 m 0 text) in *.
    assert (EM5 : M5 = M1 ++ [cstr_block (zb text); []; []]) by reflexivity.
    assert (E5 : ed_at M5 lb bln lbs lines) by (rewrite EM5; apply EM).
    assert (S5 : str_at M5 (length m + 1) text) by (rewrite EM5; unfold str_at; rewrite <- (Nat.add_0_r (length m + 1)); apply Q; reflexivity).
    assert (X5 : cell_at M5 G_xrow xr) by (rewrite EM5; apply XM).
    assert (L5 : length M5 = (length m + 4)%nat) by (rewrite EM5, app_length, LM1; cbn [length]; lia).
    (* lbuf_edit(xb, sbuf_buf(sb), xrow, xrow + 1) *)
    rewrite (cx_xb ext fuel (S (S (S (S D)))) M5 lb bln lbs lines E5). xs.
    rewrite (cx_ext ext fuel (S (S (S (S D)))) _ _ _ x_sbuf_buf_none), (o_buf ext OR M5 _ text S5). xs.
    rewrite (ld1 M5 G_xrow _ X5). xs. rewrite (wrap_int_ok xr Ix). rewrite (ld1 M5 G_xrow _ X5). xs. rewrite (wrap_int_ok xr Ix).
    rewrite chk_I32 by (pose proof (ed_small _ _ _ _ _ E) as [Hs' _]; lia). xs.
    rewrite (cx_ext ext fuel (S (S (S (S D)))) _ _ _ x_lbuf_edit_none), Hedit. xs.
    (* lncnt = linecount(sbuf_buf(sb)) - 1 *)
    assert (Nl : forall k, (length m <= k)%nat -> ~ lown k) by (intros k Hk Hl; specialize (Hlown _ Hl); lia).
    assert (Ntext : nonul text) by (unfold text, putc_text; apply nonul_app; [exact Npre|apply nonul_app; [apply rep_b_nonul; exact Hn|exact Npost]]).
    assert (S6 : str_at m6 (length m + 1) text) by (unfold str_at; rewrite Hfr6 by (try apply Nl; lia); exact S5).
    rewrite (cx_ext ext fuel (S (S (S (S D)))) _ _ _ x_sbuf_buf_none), (o_buf ext OR m6 _ text S6). xs.
    rewrite (callx_mono ext _ _ _ _ _ _ _ (tr_linecount m6 (length m + 1) text (S (S (S (S D)))) fuel S6 Ntext Htl Hfu1)). xs. unfold vlinecount.
    rewrite chk_I32 by (pose proof (nlcount_le text); lia). xs. replace (Z.of_nat (nlcount text) + 1 - 1) with (Z.of_nat (nlcount text)) by lia.
    (* xoff = off + uc_slen(buf) * cnt - 1 *)
    assert (R6 : str_at m6 rb txt).
    { unfold str_at. rewrite Hfr6 by (try exact Nlr; lia). rewrite EM5. apply RM. }
    pose proof (nthl_small lines i (ed_small _ _ _ _ _ E)) as _.
    assert (Htxl : Z.of_nat (length txt) <= 2147483647).
    { pose proof (app_length (sub_b (Some s) 0 off) (put_rep a1 txt ++ post)). unfold text, putc_text in Htl. fold off in Htl. rewrite !app_length in Htl.
      unfold put_rep in Htl. destruct (Z.to_nat (put_cnt a1)) as [|k] eqn:Ek; [lia|]. cbn [rep_b] in Htl. rewrite app_length in Htl. lia. }
    change (VPtr rb 0) with (VPtr rb (Z.of_nat 0)).
    rewrite (callx_mono ext _ _ _ _ _ _ _ (tr_uc_slen m6 rb txt 0 (S (S (S D))) fuel R6 Hn ltac:(lia) Hft Htxl)). xs. cbn [skipn].
    rewrite chk_I32 by (pose proof (uc_slen_le txt Hn); lia). xs. rewrite chk_I32 by (unfold int_ok in Iv2; lia). xs.
    rewrite chk_I32 by (unfold v, int_ok in Iv; lia). xs. fold v.
    assert (X6 : cell_at m6 G_xrow xr) by (unfold cell_at; rewrite Hfr6 by (try exact Nlx; lia); exact X5).
    assert (O6 : cell_at m6 G_xoff xo) by (unfold cell_at; rewrite Hfr6 by (try exact Nlo; lia); rewrite EM5; apply OM).
    rewrite (wrap_int_ok v Iv), (store_cell m6 G_xoff xo v O6). xs.
    (* sbuf_free(sb); vi_drawfix(xrow, xrow, lncnt, 0) *)
    assert (S7 : str_at (upd m6 G_xoff [VInt v]) (length m + 1) text) by (unfold str_at; rewrite mem_upd_other by lia; exact S6).
    rewrite (cx_ext ext fuel (S (S (S (S D)))) _ _ _ x_sbuf_free_none), (o_free ext OR _ _ text S7). xs. fold (putl_mem8 m m6 v).
    unfold put_tail. cbn [fn_body cf_vc_put]. xs.
    assert (X8 : cell_at (putl_mem8 m m6 v) G_xrow xr).
    { unfold cell_at, putl_mem8. rewrite !mem_upd_other by (rewrite ?upd_length by lia; try lia; vm_compute; discriminate). exact X6. }
    rewrite (ld1 _ G_xrow _ X8). xs. rewrite (wrap_int_ok xr Ix). rewrite (ld1 _ G_xrow _ X8). xs. rewrite (wrap_int_ok xr Ix).
    rewrite (cx_ext ext fuel (S (S (S (S D)))) _ _ _ x_vi_drawfix_none), Hdraw. xs. reflexivity.
  Qed.

  (* ================================================================ an unset or empty register: 0 is returned, nothing is edited *)
  Theorem tr_vc_put_unset D m cmd a1 y lnm us ms : cell_at m G_vi_arg1 a1 -> cell_at m G_vi_ybuf y -> int_ok a1 -> int_ok y ->
    ext X_reg_get [VInt y; VPtr (length m) 0] (m ++ [[VUndef]]) = Ok (VInt 0, m ++ [[lnm]]) ->
    ext X_snprintf [VPtr G_vi_msg 0; VInt 512; VPtr G_lit_79616e6b2062756666657220656d707479_17 0] (m ++ [[lnm]]) = Ok (us, ms) ->
    callx ext cprog fuel (S (S D)) F_vc_put [VInt cmd] m = Ok (VInt 0, ms).
  Proof.
    intros Ha Hy Ia Iy Hget Hsn. rewrite callx_S. change (nth_error cprog F_vc_put) with (Some cf_vc_put).
    cbn [fn_nparams cf_vc_put length Nat.eqb fn_nlocals Nat.sub app repeat fn_body].
    match goal with |- context [SSeq (SIf (ELoad (Some I32) (ELocal 2)) ?a ?b) ?t] => change a with pl_body; change b with pc_body; change t with put_tail end.
    xs. rewrite (ld1 m G_vi_arg1 _ Ha). xs. rewrite (wrap_int_ok a1 Ia).
    destruct (Z.ltb_spec 1 a1); xs; rewrite ?(ld1 m G_vi_arg1 _ Ha); xs; rewrite ?(wrap_int_ok a1 Ia); rewrite malloc_ok by lia; xs;
      change (repeat VUndef (Z.to_nat 1)) with [VUndef];
      rewrite (ld1 _ G_vi_ybuf (VInt y)) by (apply cell_at_app; exact Hy); xs; rewrite (wrap_int_ok y Iy);
      rewrite (cx_ext ext fuel D _ _ _ x_reg_get_none), Hget; xs;
      rewrite (cx_ext ext fuel D _ _ _ x_snprintf_none), Hsn; xs; reflexivity.
  Qed.
  Theorem tr_vc_put_empty D m cmd a1 y lnm rb : cell_at m G_vi_arg1 a1 -> cell_at m G_vi_ybuf y -> int_ok a1 -> int_ok y ->
    ext X_reg_get [VInt y; VPtr (length m) 0] (m ++ [[VUndef]]) = Ok (VPtr rb 0, m ++ [[lnm]]) -> str_at m rb [] ->
    callx ext cprog fuel (S (S D)) F_vc_put [VInt cmd] m = Ok (VInt 0, m ++ [[lnm]]).
  Proof.
    intros Ha Hy Ia Iy Hget Hs. rewrite callx_S. change (nth_error cprog F_vc_put) with (Some cf_vc_put).
    cbn [fn_nparams cf_vc_put length Nat.eqb fn_nlocals Nat.sub app repeat fn_body].
    match goal with |- context [SSeq (SIf (ELoad (Some I32) (ELocal 2)) ?a ?b) ?t] => change a with pl_body; change b with pc_body; change t with put_tail end.
    xs. rewrite (ld1 m G_vi_arg1 _ Ha). xs. rewrite (wrap_int_ok a1 Ia).
    destruct (Z.ltb_spec 1 a1); xs; rewrite ?(ld1 m G_vi_arg1 _ Ha); xs; rewrite ?(wrap_int_ok a1 Ia); rewrite malloc_ok by lia; xs;
      change (repeat VUndef (Z.to_nat 1)) with [VUndef];
      rewrite (ld1 _ G_vi_ybuf (VInt y)) by (apply cell_at_app; exact Hy); xs; rewrite (wrap_int_ok y Iy);
      rewrite (cx_ext ext fuel D _ _ _ x_reg_get_none), Hget; xs;
      rewrite (load_str _ rb [] _ O (str_at_app m _ rb [] Hs)) by (cbn [length]; lia); xs; reflexivity.
  Qed.
End Put.

(* ------------------------------------------------------------------ the translated vc_put RUNS *)
(* TrViOp.ideal_ext plus a reg_get that answers with a fixed register block and line-wise flag.  Lines "ab\n" "cde\n" "f\n" (TrViOp.op_mem) and
   the register text in one more block.  p of the line-wise "X\n" with count 2 on row 1: lbuf_edit(xb, "X\nX\n", 2, 2), xrow = 2, vi_drawfix(2, 2, 3, 0);
   P: lbuf_edit(.., 1, 1).  p of the character-wise "xy" at (1,1): lbuf_edit(xb, "cdxyxye\n", 1, 2) for count 2, xoff = 1 + 1 + 2 * 2 - 1 = 5, vi_drawfix(1, 1, 1, 0);
   P: "cxyde\n", xoff = 2.  An unset register: 0 *)
Definition put_ext (rbv : val) (lnm : Z) (f : nat) (args : list val) (m : mem) : res (val * mem) :=
  if Nat.eqb f X_reg_get then match args with [_; VPtr pl _] => Ok (rbv, upd m pl [VInt lnm]) | _ => Err EShape end
  else if Nat.eqb f X_snprintf then Ok (VInt 0, m)
  else ideal_ext f args m.
Definition put_mem_ex (xr xo a1 : Z) (txt : list Z) : mem := upd (op_mem xr xo) G_vi_arg1 [VInt a1] ++ [cstr_block txt].
Definition put_show (r : res (val * mem)) : option (val * option block * option block * list block) :=
  match r with
  | Ok (v, m) => Some (v, nth_error m G_xrow, nth_error m G_xoff,
                       filter (fun b => match b with VInt 2 :: _ | VInt 3 :: _ => Nat.ltb 2 (length b) | _ => false end) (skipn (length cglobals + 6) m))
  | Err _ => None end.
Lemma put_run_examples :
  let rb := VPtr (length cglobals + 5) 0 in
  let run lnm cmd xr xo a1 txt := put_show (callx (put_ext rb lnm) cprog 60 10 F_vc_put [VInt cmd] (put_mem_ex xr xo a1 txt)) in
  run 1 112 1 0 2 [88; 10] = Some (VInt 16, Some [VInt 2], Some [VInt 0], [map VInt [2; 2; 2; 88; 10; 88; 10]; map VInt [3; 2; 2; 3; 0]]) /\
  run 1 80 1 0 0 [88; 10] = Some (VInt 16, Some [VInt 1], Some [VInt 0], [map VInt [2; 1; 1; 88; 10]; map VInt [3; 1; 1; 2; 0]]) /\
  run 0 112 1 1 2 [120; 121] = Some (VInt 16, Some [VInt 1], Some [VInt 5], [map VInt [2; 1; 2; 99; 100; 120; 121; 120; 121; 101; 10]; map VInt [3; 1; 1; 1; 0]]) /\
  run 0 80 1 1 1 [120; 121] = Some (VInt 16, Some [VInt 1], Some [VInt 2], [map VInt [2; 1; 2; 99; 120; 121; 100; 101; 10]; map VInt [3; 1; 1; 1; 0]]) /\
  put_show (callx (put_ext (VInt 0) 0) cprog 60 10 F_vc_put [VInt 112] (put_mem_ex 1 1 1 [])) = Some (VInt 0, Some [VInt 1], Some [VInt 1], []).
Proof. vm_compute. repeat split; reflexivity. Qed.
