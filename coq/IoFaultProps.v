(* IoFaultProps.v -- proofs about saving under fault schedules (C03). *)
From Coq Require Import List NArith ZArith Bool Arith Lia.
From NV Require Import Bytes GenConsts IoDefs IoProps.
Import ListNotations.

(* ------------------------------------------------------------------ write_fully / write_all *)
Lemma write_fully_spec : forall sch p w ok r, write_fully p sch = (w, ok, r) ->
  exists used, sch = used ++ r /\
    (ok = true -> w = p /\ ~ In OErr used) /\
    (ok = false -> In OErr used /\ exists t, p = w ++ t).
Proof.
  induction sch as [|o s IH]; intros p w ok r H.
  - exists []. destruct p; cbn in H; inversion H; subst; (split; [reflexivity|]); split; try discriminate; intros _; split; auto.
  - destruct p as [|x p'].
    + cbn in H. inversion H; subst. exists []. split; [reflexivity|]. split; [intros _; split; auto | discriminate].
    + cbn [write_fully] in H. destruct o as [| |k].
      * inversion H; subst. exists [OOk]. split; [reflexivity|]. split; [|discriminate].
        intros _. split; [reflexivity|]. intros [E|[]]; discriminate.
      * inversion H; subst. exists [OErr]. split; [reflexivity|]. split; [discriminate|].
        intros _. split; [left; reflexivity | exists (x :: p'); reflexivity].
      * set (k' := Nat.min k (length (x :: p'))) in *.
        destruct (write_fully (skipn k' (x :: p')) s) as [[w1 ok1] r1] eqn:E. inversion H; subst.
        destruct (IH _ _ _ _ E) as [used [U [A B]]]. exists (OShort k :: used). split; [cbn; rewrite U; reflexivity|]. split.
        -- intro T. destruct (A T) as [A1 A2]. split; [rewrite A1; apply firstn_skipn|].
           intros [X|X]; [discriminate | exact (A2 X)].
        -- intro T. destruct (B T) as [B1 [t B2]]. split; [right; exact B1|].
           exists t. rewrite <- app_assoc, <- B2. symmetry. apply firstn_skipn.
Qed.

Lemma write_all_spec : forall ps sch w ok r, write_all ps sch = (w, ok, r) ->
  exists used, sch = used ++ r /\
    (ok = true -> w = concat ps /\ ~ In OErr used) /\
    (ok = false -> In OErr used /\ exists t, concat ps = w ++ t).
Proof.
  induction ps as [|p ps IH]; intros sch w ok r H; cbn [write_all] in H.
  - inversion H; subst. exists []. split; [reflexivity|]. split; [intros _; split; auto | discriminate].
  - destruct (write_fully p sch) as [[w1 ok1] r1] eqn:E.
    destruct (write_fully_spec _ _ _ _ _ E) as [u1 [U1 [A1 B1]]].
    destruct ok1.
    + destruct (write_all ps r1) as [[w2 ok2] r2] eqn:E2. inversion H; subst.
      destruct (IH _ _ _ _ E2) as [u2 [U2 [A2 B2]]]. destruct (A1 eq_refl) as [-> N1].
      exists (u1 ++ u2). split; [rewrite <- app_assoc, <- U2; reflexivity|]. split.
      * intro T. destruct (A2 T) as [-> N2]. split; [reflexivity|]. intro X. apply in_app_or in X. tauto.
      * intro T. destruct (B2 T) as [I [t C]]. split; [apply in_or_app; right; exact I|].
        exists t. cbn [concat]. rewrite C, app_assoc. reflexivity.
    + inversion H; subst. destruct (B1 eq_refl) as [I [t C]]. exists u1. split; [reflexivity|]. split; [discriminate|].
      intros _. split; [exact I|]. exists (t ++ concat ps). cbn [concat]. rewrite C, app_assoc. reflexivity.
Qed.

(* ------------------------------------------------------------------ the file system *)
Lemma fs_get_set_same fs p f : fs_get (fs_set fs p f) p = Some f.
Proof. unfold fs_set. cbn [fs_get]. rewrite Nat.eqb_refl. reflexivity. Qed.
Lemma fs_get_set_other fs p q f : q <> p -> fs_get (fs_set fs p f) q = fs_get fs q.
Proof. intro H. unfold fs_set. cbn [fs_get]. destruct (Nat.eqb_spec p q); [congruence | reflexivity]. Qed.
Lemma fs_content_set_same fs p c m : fs_content (fs_set fs p (c, m)) p = Some c.
Proof. unfold fs_content. rewrite fs_get_set_same. reflexivity. Qed.

Lemma ftrunc_overwrite old d : ftrunc (length d) (overwrite old d) = d.
Proof.
  unfold ftrunc, overwrite. rewrite firstn_app_exact, app_length.
  replace (_ - _) with 0 by lia. apply app_nil_r.
Qed.

(* ------------------------------------------------------------------ lbuf_save *)
Lemma save_opened_spec now lines b e path fs s st fs' r :
  save_opened now lines b e path fs s = (st, fs', r) ->
  st <> SRefused /\
  (forall q, q <> path -> fs_get fs' q = fs_get fs q) /\
  exists used, s = used ++ r /\
    (st = SOk -> ~ In OErr used /\ fs_content fs' path = Some (want lines b e)) /\
    (In OErr used <-> st = SFailed).
Proof.
  unfold save_opened.
  set (old := match fs_content fs path with Some c => c | None => [] end).
  set (fs0 := match fs_get fs path with Some _ => fs | None => fs_set fs path ([], now) end).
  assert (F0 : forall q, q <> path -> fs_get fs0 q = fs_get fs q).
  { intros q Hq. unfold fs0. destruct (fs_get fs path); [reflexivity | apply fs_get_set_other, Hq]. }
  destruct (write_all (outp (lbuf_wr lines b e)) s) as [[d ok] r0] eqn:E.
  destruct (write_all_spec _ _ _ _ _ E) as [u [U [A B]]].
  destruct (lbuf_wr_bytes BATCH lines b e) as [W1 W2]. fold lbuf_wr in W1, W2.
  destruct ok.
  - destruct (A eq_refl) as [-> N].
    assert (C : forall m, fs_content (fs_set fs0 path (ftrunc (wsz (lbuf_wr lines b e)) (overwrite old (concat (outp (lbuf_wr lines b e)))), m)) path
                          = Some (want lines b e)).
    { intro m. rewrite fs_content_set_same, W2, <- W1 at 1. rewrite W1 at 2. rewrite <- W1. rewrite ftrunc_overwrite. reflexivity. }
    destruct r0 as [|[| |k] r'].
    + intro H. inversion H; subst. split; [discriminate|]. split; [intros q Hq; rewrite fs_get_set_other by exact Hq; apply F0, Hq|].
      exists u. split; [rewrite app_nil_r; reflexivity|]. split; [intros _; split; [exact N | apply C] | split; [intro X; contradiction | discriminate]].
    + intro H. inversion H; subst. split; [discriminate|]. split; [intros q Hq; rewrite fs_get_set_other by exact Hq; apply F0, Hq|].
      exists (u ++ [OOk]). split; [rewrite <- app_assoc; reflexivity|]. split.
      * intros _. split; [|apply C]. intro X. apply in_app_or in X. destruct X as [X|[X|[]]]; [contradiction | discriminate].
      * split; [|discriminate]. intro X. apply in_app_or in X. destruct X as [X|[X|[]]]; [contradiction | discriminate].
    + intro H. inversion H; subst. split; [discriminate|]. split; [intros q Hq; rewrite fs_get_set_other by exact Hq; apply F0, Hq|].
      exists (u ++ [OErr]). split; [rewrite <- app_assoc; reflexivity|]. split; [discriminate|].
      split; [reflexivity | intros _; apply in_or_app; right; left; reflexivity].
    + intro H. inversion H; subst. split; [discriminate|]. split; [intros q Hq; rewrite fs_get_set_other by exact Hq; apply F0, Hq|].
      exists (u ++ [OShort k]). split; [rewrite <- app_assoc; reflexivity|]. split.
      * intros _. split; [|apply C]. intro X. apply in_app_or in X. destruct X as [X|[X|[]]]; [contradiction | discriminate].
      * split; [|discriminate]. intro X. apply in_app_or in X. destruct X as [X|[X|[]]]; [contradiction | discriminate].
  - destruct (B eq_refl) as [I _]. intro H. inversion H; subst. split; [discriminate|]. split.
    + intros q Hq. destruct d; [apply F0, Hq | rewrite fs_get_set_other by exact Hq; apply F0, Hq].
    + exists (u ++ firstn 1 r0). split; [rewrite <- app_assoc; destruct r0; reflexivity|]. split; [discriminate|].
      split; [reflexivity | intros _; apply in_or_app; left; exact I].
Qed.

Lemma lbuf_save_refused now lines b e path force ts fs sch :
  refuses force ts (fs_mtime fs path) = true -> lbuf_save now lines b e path force ts fs sch = (SRefused, fs, sch).
Proof. intro H. unfold lbuf_save. rewrite H. reflexivity. Qed.

Lemma lbuf_save_spec now lines b e path force ts fs sch st fs' r :
  lbuf_save now lines b e path force ts fs sch = (st, fs', r) ->
  (forall q, q <> path -> fs_get fs' q = fs_get fs q) /\
  exists used, sch = used ++ r /\
    (st = SRefused -> refuses force ts (fs_mtime fs path) = true /\ fs' = fs /\ used = []) /\
    (st = SOk -> ~ In OErr used /\ fs_content fs' path = Some (want lines b e)) /\
    (In OErr used <-> st = SFailed).
Proof.
  unfold lbuf_save. destruct (refuses force ts (fs_mtime fs path)) eqn:R.
  - intro H. inversion H; subst. split; [reflexivity|]. exists []. split; [reflexivity|].
    split; [auto|]. split; [discriminate | split; [intros [] | discriminate]].
  - assert (G : forall s, save_opened now lines b e path fs s = (st, fs', r) ->
      forall o, (o = OOk \/ exists k, o = OShort k) -> forall pre, pre = [] \/ pre = [o] ->
      (forall q, q <> path -> fs_get fs' q = fs_get fs q) /\
      exists used, pre ++ s = used ++ r /\
        (st = SRefused -> false = true /\ fs' = fs /\ used = []) /\
        (st = SOk -> ~ In OErr used /\ fs_content fs' path = Some (want lines b e)) /\
        (In OErr used <-> st = SFailed)).
    { intros s H o Ho pre Hpre. destruct (save_opened_spec _ _ _ _ _ _ _ _ _ _ H) as [NR [F [u [U [A B]]]]].
      split; [exact F|]. exists (pre ++ u). split; [rewrite <- app_assoc, U; reflexivity|].
      split; [intro X; contradiction|].
      assert (P : In OErr (pre ++ u) -> In OErr u).
      { intro X. apply in_app_or in X. destruct X as [X|X]; [|exact X].
        destruct Hpre as [->| ->]; [destruct X|]. destruct X as [X|[]]. destruct Ho as [->|[k ->]]; discriminate. }
      split; [intro T; destruct (A T) as [A1 A2]; split; [intro X; exact (A1 (P X)) | exact A2]|].
      split; [intro X; exact (proj1 B (P X)) | intro X; apply in_or_app; right; exact (proj2 B X)]. }
    destruct sch as [|[| |k] s]; cbn [tl].
    + intro H. exact (G [] H OOk (or_introl eq_refl) [] (or_introl eq_refl)).
    + intro H. exact (G s H OOk (or_introl eq_refl) [OOk] (or_intror eq_refl)).
    + intro H. inversion H; subst. split; [reflexivity|]. exists [OErr]. split; [reflexivity|].
      split; [discriminate|]. split; [discriminate | split; [reflexivity | intros _; left; reflexivity]].
    + intro H. exact (G s H (OShort k) (or_intror (ex_intro _ k eq_refl)) [OShort k] (or_intror eq_refl)).
Qed.

(* ------------------------------------------------------------------ ec_write *)
Definition rng_of (rng : option (nat * nat)) (n : nat) : nat * nat := match rng with Some r => r | None => (0, n) end.
Definition skips (isx : bool) (bf : buf) : bool := isx && negb (b_dirty bf).   (* :x on an unmodified buffer writes nothing *)

Lemma ec_write_spec now isx force rng path bf fs sch st bf' fs' r :
  ec_write now isx force rng path bf fs sch = (st, bf', fs', r) ->
  (forall q, q <> path -> fs_get fs' q = fs_get fs q) /\
  b_lines bf' = b_lines bf /\ b_path bf' = b_path bf /\
  (st <> SOk -> bf' = bf) /\
  exists used, sch = used ++ r /\
    (In OErr used <-> st = SFailed) /\
    (st = SRefused -> fs' = fs /\ used = [] /\ skips isx bf = false /\
        refuses force (if Nat.eqb (b_path bf) path then b_mtime bf else 0%Z) (fs_mtime fs path) = true) /\
    (st = SOk -> skips isx bf = true /\ bf' = bf /\ fs' = fs /\ used = [] \/
                 skips isx bf = false /\
                 fs_content fs' path = Some (want (b_lines bf) (fst (rng_of rng (length (b_lines bf)))) (snd (rng_of rng (length (b_lines bf))))) /\
                 (b_path bf = path -> b_mtime bf' = fs_mtime fs' path /\
                    b_dirty bf' = negb (Nat.eqb (fst (rng_of rng (length (b_lines bf)))) 0 &&
                                        Nat.eqb (snd (rng_of rng (length (b_lines bf)))) (length (b_lines bf))))).
Proof.
  unfold ec_write. fold (skips isx bf). destruct (skips isx bf) eqn:SK.
  - intro H. inversion H; subst. split; [reflexivity|]. split; [reflexivity|]. split; [reflexivity|]. split; [reflexivity|].
    exists []. split; [reflexivity|]. split; [split; [intros [] | discriminate]|]. split; [discriminate|].
    intros _. left. auto.
  - fold (rng_of rng (length (b_lines bf))). destruct (rng_of rng (length (b_lines bf))) as [b e] eqn:RG. cbn [fst snd].
    set (ts := if Nat.eqb (b_path bf) path then b_mtime bf else 0%Z).
    destruct (lbuf_save now (b_lines bf) b e path force ts fs sch) as [[st0 fs0] r0] eqn:E.
    destruct (lbuf_save_spec _ _ _ _ _ _ _ _ _ _ _ _ E) as [F [u [U [A [B C]]]]].
    destruct st0; intro H; inversion H; subst.
    + split; [exact F|]. split; [destruct (Nat.eqb (b_path bf) path); reflexivity|].
      split; [destruct (Nat.eqb (b_path bf) path); reflexivity|]. split; [congruence|].
      exists u. split; [reflexivity|]. split; [exact C|]. split; [discriminate|].
      intros _. right. split; [reflexivity|]. destruct (B eq_refl) as [_ B2]. split; [exact B2|].
      intro P. apply Nat.eqb_eq in P. rewrite P. cbn [b_mtime b_dirty]. split; reflexivity.
    + destruct (A eq_refl) as [A1 [A2 A3]]. subst.
      split; [exact F|]. split; [reflexivity|]. split; [reflexivity|]. split; [reflexivity|].
      exists []. split; [reflexivity|]. split; [exact C|]. split; [|discriminate]. intros _. auto.
    + split; [exact F|]. split; [reflexivity|]. split; [reflexivity|]. split; [reflexivity|].
      exists u. split; [reflexivity|]. split; [exact C|]. split; discriminate.
Qed.

Lemma write_fully_nil p : write_fully p [] = (p, true, []).
Proof. destruct p; reflexivity. Qed.
Lemma write_all_nil : forall ps, write_all ps [] = (concat ps, true, []).
Proof.
  induction ps as [|p ps IH]; cbn [write_all concat]; [reflexivity|]. rewrite write_fully_nil, IH. reflexivity.
Qed.

(* the guards *)
Lemma refuses_guard ts m : (0 <= m)%Z -> (ts <= 0 \/ m > ts)%Z -> refuses false ts m = true.
Proof.
  intros H0 H. unfold refuses. cbn [negb andb].
  destruct (Z.gtb_spec m ts); [reflexivity|]. cbn [orb].
  destruct (Z.leb_spec ts 0); [|lia]. destruct (Z.geb_spec m 0); [reflexivity | lia].
Qed.

Lemma guard_save now lines b e path ts fs sch c m :
  fs_get fs path = Some (c, m) -> (0 <= m)%Z -> (ts <= 0 \/ m > ts)%Z ->
  lbuf_save now lines b e path false ts fs sch = (SRefused, fs, sch).
Proof.
  intros G H0 H. apply lbuf_save_refused. unfold fs_mtime. rewrite G. apply refuses_guard; assumption.
Qed.

Lemma guard_write now isx rng path bf fs sch c m :
  fs_get fs path = Some (c, m) -> (0 <= m)%Z ->
  (path <> b_path bf \/ (m > b_mtime bf)%Z) ->
  skips isx bf = false ->
  ec_write now isx false rng path bf fs sch = (SRefused, bf, fs, sch).
Proof.
  intros G H0 H SK. unfold ec_write. fold (skips isx bf). rewrite SK.
  destruct (match rng with Some r => r | None => (0, length (b_lines bf)) end) as [b e].
  rewrite (guard_save now (b_lines bf) b e path _ fs sch c m G H0); [reflexivity|].
  destruct (Nat.eqb_spec (b_path bf) path) as [P|P]; [|left; lia].
  destruct H as [H|H]; [congruence | right; exact H].
Qed.

Lemma success_exact now isx force rng path bf fs sch bf' fs' r :
  ec_write now isx force rng path bf fs sch = (SOk, bf', fs', r) -> skips isx bf = false ->
  fs_content fs' path = Some (want (b_lines bf) (fst (rng_of rng (length (b_lines bf)))) (snd (rng_of rng (length (b_lines bf))))).
Proof.
  intros H SK. destruct (ec_write_spec _ _ _ _ _ _ _ _ _ _ _ _ H) as [_ [_ [_ [_ [u [_ [_ [_ S]]]]]]]].
  destruct (S eq_refl) as [[X _]|[_ [X _]]]; [congruence | exact X].
Qed.

Lemma failure_surfaces now isx force rng path bf fs sch st bf' fs' r used :
  ec_write now isx force rng path bf fs sch = (st, bf', fs', r) -> sch = used ++ r ->
  (In OErr used <-> st = SFailed) /\ (st <> SOk -> bf' = bf).
Proof.
  intros H U. destruct (ec_write_spec _ _ _ _ _ _ _ _ _ _ _ _ H) as [_ [_ [_ [K [u [U2 [C _]]]]]]].
  assert (used = u) by (rewrite U2 in U; apply app_inv_tail in U; symmetry; exact U). subst u. split; assumption.
Qed.

(* a forced retry on a healthy file system succeeds, whatever the earlier failure left behind *)
Lemma retry_succeeds now rng path bf fs :
  exists bf' fs', ec_write now false true rng path bf fs [] = (SOk, bf', fs', []) /\
    fs_content fs' path = Some (want (b_lines bf) (fst (rng_of rng (length (b_lines bf)))) (snd (rng_of rng (length (b_lines bf))))) /\
    (b_path bf = path -> rng = None -> b_dirty bf' = false /\ b_mtime bf' = fs_mtime fs' path).
Proof.
  destruct (ec_write now false true rng path bf fs []) as [[[st bf'] fs'] r] eqn:E.
  destruct (ec_write_spec _ _ _ _ _ _ _ _ _ _ _ _ E) as [_ [_ [_ [_ [u [U [C [R S]]]]]]]].
  symmetry in U. apply app_eq_nil in U. destruct U as [-> ->].
  assert (st = SOk).
  { destruct st; [reflexivity | | exfalso; apply (proj2 C eq_refl)].
    destruct (R eq_refl) as [_ [_ [_ X]]]. unfold refuses in X. cbn in X. discriminate. }
  subst st. exists bf', fs'. split; [reflexivity|].
  destruct (S eq_refl) as [[X _]|[_ [X Y]]]; [cbn in X; discriminate|]. split; [exact X|].
  intros P ->. destruct (Y P) as [Y1 Y2]. cbn [rng_of fst snd] in Y2. rewrite !Nat.eqb_refl in Y2. split; [exact Y2 | exact Y1].
Qed.

(* ------------------------------------------------------------------ ec_quit *)
Definition holds_text (fs : fsys) (bf : buf) : Prop := fs_content fs (b_path bf) = Some (concat (b_lines bf)).

Lemma quit_loop_spec now all bang : forall bufs fs sch q st fs' r,
  quit_loop now all bang bufs fs sch = (q, st, fs', r) ->
  (forall p, ~ In p (map b_path bufs) -> fs_get fs' p = fs_get fs p) /\
  exists used, sch = used ++ r /\
    (In OErr used -> q = false /\ st = SFailed) /\
    (q = false -> st <> SOk) /\
    (q = true -> (all = true -> NoDup (map b_path bufs) -> Forall (holds_text fs') bufs) /\
                 (all = false -> bang = false -> Forall (fun bf => b_dirty bf = false) bufs)).
Proof.
  induction bufs as [|bf rest IH]; intros fs sch q st fs' r H; cbn [quit_loop] in H.
  - inversion H; subst. split; [reflexivity|]. exists []. split; [reflexivity|].
    split; [intros []|]. split; [discriminate|]. intros _. split; intros; constructor.
  - destruct (negb all && negb bang && b_dirty bf) eqn:D.
    + inversion H; subst. split; [reflexivity|]. exists []. split; [reflexivity|].
      split; [intros []|]. split; [discriminate | discriminate].
    + destruct all.
      * destruct (lbuf_save now (b_lines bf) 0 (length (b_lines bf)) (b_path bf) bang (b_mtime bf) fs sch) as [[st0 fs0] r0] eqn:E.
        destruct (lbuf_save_spec _ _ _ _ _ _ _ _ _ _ _ _ E) as [F [u0 [U0 [A [B C]]]]].
        destruct st0.
        -- destruct (IH _ _ _ _ _ _ H) as [F1 [u1 [U1 [P [Q R]]]]].
           split.
           { intros p Hp. cbn [map In] in Hp. rewrite F1 by tauto. apply F. intro X. apply Hp. left. symmetry. exact X. }
           exists (u0 ++ u1). split; [rewrite <- app_assoc, <- U1; exact U0|].
           split.
           { intro X. apply in_app_or in X. destruct X as [X|X]; [|exact (P X)].
             apply (proj1 C) in X. discriminate. }
           split; [exact Q|]. intro T. destruct (R T) as [R1 R2]. split; [|discriminate].
           intros _ ND. cbn [map] in ND. inversion ND as [|x l NI ND']; subst.
           constructor; [|apply R1; [reflexivity | exact ND']].
           unfold holds_text, fs_content. rewrite F1 by exact NI.
           destruct (B eq_refl) as [_ B2]. unfold fs_content in B2. rewrite B2, want_all. reflexivity.
        -- inversion H; subst. destruct (A eq_refl) as [_ [-> ->]].
           split; [reflexivity|]. exists []. split; [reflexivity|]. split; [intros []|]. split; discriminate.
        -- inversion H; subst. split.
           { intros p Hp. apply F. intro X. apply Hp. left. symmetry. exact X. }
           exists u0. split; [reflexivity|]. split; [intros _; split; reflexivity|]. split; discriminate.
      * destruct (IH _ _ _ _ _ _ H) as [F1 [u1 [U1 [P [Q R]]]]].
        split; [intros p Hp; apply F1; intro X; apply Hp; right; exact X|].
        exists u1. split; [exact U1|]. split; [exact P|]. split; [exact Q|].
        intro T. destruct (R T) as [R1 R2]. split; [discriminate|]. intros _ BG. subst bang.
        cbn [negb andb] in D. constructor; [exact D | apply R2; reflexivity].
Qed.

Lemma quit_marks_notall now bang : forall bufs fs sch, quit_marks now false bang bufs fs sch = bufs.
Proof.
  induction bufs as [|bf rest IH]; intros fs sch; cbn [quit_marks]; [reflexivity|].
  destruct (negb false && negb bang && b_dirty bf); [reflexivity|]. rewrite IH. reflexivity.
Qed.
Lemma ec_quit_spec_ex now wr isx all bang bufs fs sch q st bufs' fs' r :
  ec_quit now wr isx all bang bufs fs sch = (q, st, bufs', fs', r) ->
  exists used, sch = used ++ r /\
  (In OErr used -> q = false /\ st = SFailed) /\
  (q = false -> st <> SOk) /\
  (q = true -> all = true -> NoDup (map b_path bufs) -> Forall (holds_text fs') bufs) /\
  (q = true -> all = false -> bang = false -> Forall (fun bf => b_dirty bf = false) bufs').
Proof.
  intros H. unfold ec_quit in H. destruct bufs as [|b0 rest].
  - inversion H; subst. exists []. split; [reflexivity|].
    split; [intros []|]. split; [discriminate|]. split; intros; constructor.
  - destruct wr.
    + destruct (ec_write now isx bang None (b_path b0) b0 fs sch) as [[[st1 b0'] fs1] r1] eqn:E.
      destruct (ec_write_spec _ _ _ _ _ _ _ _ _ _ _ _ E) as [_ [L [P [K [u1 [U1 [C _]]]]]]].
      destruct st1.
      * destruct (quit_loop now all bang (b0' :: rest) fs1 r1) as [[[q2 st2] fs2] r2] eqn:E2. inversion H; subst.
        destruct (quit_loop_spec _ _ _ _ _ _ _ _ _ _ E2) as [_ [u2 [U2 [A [B R]]]]].
        exists (u1 ++ u2). split; [rewrite <- app_assoc, <- U2; reflexivity|]. split.
        { intro X. apply in_app_or in X. destruct X as [X|X]; [apply (proj1 C) in X; discriminate | exact (A X)]. }
        split; [exact B|]. split.
        { intros T AL ND. destruct (R T) as [R1 _]. cbn [map] in *. rewrite P in R1. specialize (R1 AL ND).
          inversion R1; subst. constructor; [|assumption]. unfold holds_text in *. rewrite <- P, <- L. assumption. }
        { intros T AL BG. subst all. destruct (R T) as [_ R2]. rewrite ?quit_marks_notall. repeat match goal with |- context [if ?c then _ else _] => destruct c end; exact (R2 eq_refl BG). }
      * inversion H; subst. exists u1. split; [reflexivity|].
        split; [intro X; apply (proj1 C) in X; discriminate|]. split; [discriminate|]. split; discriminate.
      * inversion H; subst. exists u1. split; [reflexivity|].
        split; [intros _; split; reflexivity|]. split; [discriminate|]. split; discriminate.
    + destruct (quit_loop now all bang (b0 :: rest) fs sch) as [[[q2 st2] fs2] r2] eqn:E2. inversion H; subst.
      destruct (quit_loop_spec _ _ _ _ _ _ _ _ _ _ E2) as [_ [u2 [U2 [A [B R]]]]].
      exists u2. split; [exact U2|].
      split; [exact A|]. split; [exact B|]. split; [intros T; exact (proj1 (R T)) | intros T AL BG; subst all; rewrite ?quit_marks_notall; repeat match goal with |- context [if ?c then _ else _] => destruct c end; exact (proj2 (R T) eq_refl BG)].
Qed.

Lemma ec_quit_spec now wr isx all bang bufs fs sch q st bufs' fs' r used :
  ec_quit now wr isx all bang bufs fs sch = (q, st, bufs', fs', r) -> sch = used ++ r ->
  (In OErr used -> q = false /\ st = SFailed) /\
  (q = false -> st <> SOk) /\
  (q = true -> all = true -> NoDup (map b_path bufs) -> Forall (holds_text fs') bufs) /\
  (q = true -> all = false -> bang = false -> Forall (fun bf => b_dirty bf = false) bufs').
Proof.
  intros H U. destruct (ec_quit_spec_ex _ _ _ _ _ _ _ _ _ _ _ _ _ H) as [u [U2 X]].
  assert (used = u) by (rewrite U2 in U; apply app_inv_tail in U; symmetry; exact U). subst. exact X.
Qed.

(* a failing write part of wq / x / xa leaves every buffer as it was and does not quit *)
Lemma ec_quit_write_fails now isx all bang b0 rest fs sch st b0' fs1 r1 :
  ec_write now isx bang None (b_path b0) b0 fs sch = (st, b0', fs1, r1) -> st <> SOk ->
  ec_quit now true isx all bang (b0 :: rest) fs sch = (false, st, b0 :: rest, fs1, r1).
Proof. intros E N. unfold ec_quit. rewrite E. destruct st; [congruence | reflexivity | reflexivity]. Qed.
