(* TrSpliceAll.v -- lbuf_replace of /repo/lbuf.c on the translated C text, part 5: the whole function.
   lbuf_at = the line buffer in memory (struct, pointer array, ln_glob array, one live block per line, all distinct);
   tr_lbuf_replace: from any such memory the call returns, and the new memory holds the spliced buffer the models predict. *)
From Coq Require Import List ZArith NArith Bool Lia.
From NV Require Import Bytes GenConsts GenCap CLite CLiteProps GenCFuncs CLiteTac TrLbufBase IoDefs TrLbufLines TrLbufMarks
  TrSplice TrSpliceMove TrSpliceCut TrSpliceMarks.
From NV Require CapDefs2.
Import ListNotations.
Local Open Scope Z_scope.

(* ---- lists *)
Lemma nth_error_put_cells {A} (l vs : list A) o i : (o + length vs <= length l)%nat ->
  nth_error (put_cells l o vs) i =
  if (i <? o)%nat then nth_error l i else if (i <? o + length vs)%nat then nth_error vs (i - o) else nth_error l i.
Proof.
  intro H. unfold put_cells. destruct (Nat.ltb_spec i o) as [L|L].
  - rewrite nth_error_app1 by (rewrite firstn_length; lia). apply nth_error_firstn_lt. exact L.
  - rewrite nth_error_app2 by (rewrite firstn_length; lia). rewrite firstn_length, Nat.min_l by lia.
    destruct (Nat.ltb_spec i (o + length vs)) as [L2|L2].
    + rewrite nth_error_app1 by lia. reflexivity.
    + rewrite nth_error_app2 by lia. rewrite nth_error_skipn_add. f_equal. lia.
Qed.
Definition splice {A} (l new : list A) (pos nd : nat) : list A := firstn pos l ++ new ++ skipn (pos + nd) l.
Lemma splice_length {A} (l new : list A) pos nd : (pos + nd <= length l)%nat -> length (splice l new pos nd) = (length l + length new - nd)%nat.
Proof. intro H. unfold splice. rewrite !app_length, firstn_length, skipn_length. lia. Qed.
Lemma splice_nth {A} (l new : list A) pos nd i d : (pos + nd <= length l)%nat ->
  nth i (splice l new pos nd) d =
  if (i <? pos)%nat then nth i l d else if (i <? pos + length new)%nat then nth (i - pos) new d else nth (i - length new + nd) l d.
Proof.
  intro H. unfold splice. destruct (Nat.ltb_spec i pos) as [L|L].
  - rewrite app_nth1 by (rewrite firstn_length; lia). rewrite <- (firstn_skipn pos l) at 2. rewrite app_nth1 by (rewrite firstn_length; lia). reflexivity.
  - rewrite app_nth2 by (rewrite firstn_length; lia). rewrite firstn_length, Nat.min_l by lia.
    destruct (Nat.ltb_spec i (pos + length new)) as [L2|L2].
    + rewrite app_nth1 by lia. reflexivity.
    + rewrite app_nth2 by lia. rewrite <- (firstn_skipn (pos + nd) l) at 2.
      rewrite (app_nth2 (firstn (pos + nd) l)) by (rewrite firstn_length; lia). rewrite firstn_length, Nat.min_l by lia. f_equal. lia.
Qed.
Lemma nth_error_nth_some {A} (l : list A) i d : (i < length l)%nat -> nth_error l i = Some (nth i l d).
Proof. intro H. apply nth_error_nth'. exact H. Qed.

(* ---- cells of the struct that the mark code leaves alone *)
Lemma mark_blk_cell_hi blk c p o j : length blk = LBUF_CELLS -> -1 <= c <= 255 -> (64 <= j)%nat -> nth_error (mark_blk blk c p o) j = nth_error blk j.
Proof.
  intros H Hc Hj. unfold mark_blk. pose proof (markidx_range c Hc) as Hk. destruct (Z.leb_spec 0 (CapDefs2.markidx c)); [|reflexivity].
  rewrite nth_error_upd_other by (rewrite ?upd_length; rewrite ?H; unfold LBUF_CELLS, M_OFF; lia).
  apply nth_error_upd_other; rewrite ?H; unfold LBUF_CELLS; lia.
Qed.

(* ---- the line buffer in memory *)
(* block lb is the struct lbuf blk; ln points to the start of block bln, an array of cap pointer cells whose first |lines|
   point (offset 0) to the blocks lbs; ln_glob points to the start of block bgl, an array of cap cells whose first |lines| hold
   globs; block (nth i lbs) holds line i (with its newline) as a C string; lb, bln, bgl and the line blocks are pairwise
   distinct; ln_n = |lines|, ln_sz = cap > 0; the 32 cells mark[] hold the rows mk. *)
Record lbuf_at (m : mem) (lb : nat) (blk : block) (bln bgl : nat) (lbs : list nat) (lines : list bytes) (globs : list Z)
    (mk : list Z) (cap : nat) : Prop := mk_lbuf_at {
  la_tbl : exists lnblk glblk, tbl m lb blk bln bgl lnblk glblk (length lines) cap /\
           (forall i, (i < length lines)%nat -> nth_error lnblk i = Some (VPtr (nth i lbs O) 0)) /\
           (forall i, (i < length lines)%nat -> nth_error glblk i = Some (VInt (nth i globs 0)));
  la_lbs : length lbs = length lines;
  la_globs : length globs = length lines;
  la_str : forall i, (i < length lines)%nat -> str_at m (nth i lbs O) (nth i lines []);
  la_nodup : NoDup (lb :: bln :: bgl :: lbs);
  la_cap : (length lines <= cap)%nat /\ (0 < cap)%nat;
  la_marks : length mk = 32%nat /\ forall k, (k < 32)%nat -> nth_error blk k = Some (VInt (nth k mk 0))
}.
Definition lbuf_rep (m : mem) (lb : nat) (lines : list bytes) (globs : list Z) (mk : list Z) (cap : nat) : Prop :=
  exists blk bln bgl lbs, lbuf_at m lb blk bln bgl lbs lines globs mk cap.

(* the argument s: NULL, or a pointer into a block (outside the buffer) that holds a NUL-terminated text *)
Inductive s_text (m : mem) (keep : list nat) : val -> bytes -> bool -> Prop :=
| st_null : s_text m keep (VInt 0) [] true
| st_ptr bs o text : str_at m bs text -> nonul text -> (o <= length text)%nat -> Z.of_nat (length text) + 2 <= 2147483647 ->
    ~ In bs keep -> s_text m keep (VPtr bs (Z.of_nat o)) (skipn o text) false.

(* what the models say about ln_glob and the marks *)
Definition new_globs (globs : list Z) (pos nd ni : nat) : list Z := firstn (Nat.min nd ni) (skipn pos globs) ++ repeat 0 (ni - nd).
Definition splice_globs (globs : list Z) (pos nd ni : nat) : list Z := splice globs (new_globs globs pos nd ni) pos nd.
Definition splice_marks (nul : bool) (pos nd ni : nat) (mk : list Z) : list Z :=
  upd (upd (map (shift_row nul (Z.of_nat pos) (Z.of_nat nd) (Z.of_nat ni)) mk) 28 (Z.of_nat pos)) 29 (last_row pos ni).

Lemma new_globs_length globs pos nd ni : (pos + nd <= length globs)%nat -> length (new_globs globs pos nd ni) = ni.
Proof. intro H. unfold new_globs. rewrite app_length, firstn_length, skipn_length, repeat_length. lia. Qed.

(* the spliced block list has no repetition *)
Lemma splice_nodup (lbs : list nat) base ni pos nd : NoDup lbs -> (pos + nd <= length lbs)%nat -> (forall b, In b lbs -> (b < base)%nat) ->
  NoDup (splice lbs (seq base ni) pos nd).
Proof.
  intros Hd Hp Hlt. apply (NoDup_nth _ O). intros i j Hi Hj E.
  rewrite splice_length in Hi, Hj by exact Hp. rewrite seq_length in Hi, Hj.
  rewrite !splice_nth in E by exact Hp. rewrite seq_length in E.
  assert (Inj : forall a b, (a < length lbs)%nat -> (b < length lbs)%nat -> nth a lbs O = nth b lbs O -> a = b) by (apply NoDup_nth; exact Hd).
  assert (Old : forall a, (a < length lbs)%nat -> (nth a lbs O < base)%nat) by (intros a Ha; apply Hlt; apply nth_In; exact Ha).
  destruct (Nat.ltb_spec i pos); destruct (Nat.ltb_spec j pos); try (destruct (Nat.ltb_spec i (pos + ni))); try (destruct (Nat.ltb_spec j (pos + ni)));
    rewrite ?seq_nth in E by lia;
    try (apply Inj in E; lia);
    try (pose proof (Old i ltac:(lia)); lia); try (pose proof (Old j ltac:(lia)); lia);
    try (pose proof (Old (i - ni + nd)%nat ltac:(lia)); lia); try (pose proof (Old (j - ni + nd)%nat ltac:(lia)); lia); lia.
Qed.
Lemma splice_in_old (lbs : list nat) base ni pos nd b : (pos + nd <= length lbs)%nat -> In b (splice lbs (seq base ni) pos nd) ->
  In b lbs \/ (base <= b)%nat.
Proof.
  intros Hp Hin. unfold splice in Hin. apply in_app_or in Hin. destruct Hin as [H|H].
  - left. rewrite <- (firstn_skipn pos lbs). apply in_or_app. left. exact H.
  - apply in_app_or in H. destruct H as [H|H].
    + right. apply in_seq in H. lia.
    + left. rewrite <- (firstn_skipn (pos + nd) lbs). apply in_or_app. right. exact H.
Qed.

Lemma nth_sub {A} (l : list A) pos nd j d : (j < nd)%nat -> (pos + nd <= length l)%nat -> nth j (firstn nd (skipn pos l)) d = nth (pos + j) l d.
Proof.
  intros Hj Hl. apply nth_error_nth. rewrite nth_error_firstn_lt by exact Hj. rewrite nth_error_skipn_add. apply nth_error_nth'. lia.
Qed.
Lemma in_sub {A} (l : list A) pos nd x : In x (firstn nd (skipn pos l)) -> In x l.
Proof.
  intro H. rewrite <- (firstn_skipn pos l). apply in_or_app. right.
  rewrite <- (firstn_skipn nd (skipn pos l)). apply in_or_app. left. exact H.
Qed.
Lemma nodup_app_r {A} (a b : list A) : NoDup (a ++ b) -> NoDup b.
Proof. induction a as [|x a IH]; intro H; [exact H|]. inversion H; subst. apply IH. assumption. Qed.
Lemma nodup_app_l {A} (a b : list A) : NoDup (a ++ b) -> NoDup a.
Proof.
  induction a as [|x a IH]; intro H; [constructor|]. inversion H as [|? ? X Y]; subst. constructor; [|apply IH; exact Y].
  intro Hin. apply X. apply in_or_app. left. exact Hin.
Qed.
Lemma nodup_sub {A} (l : list A) pos nd : NoDup l -> NoDup (firstn nd (skipn pos l)).
Proof.
  intro H. rewrite <- (firstn_skipn pos l) in H. apply nodup_app_r in H.
  rewrite <- (firstn_skipn nd (skipn pos l)) in H. apply nodup_app_l in H. exact H.
Qed.
Lemma rp_free_eq : rp_free = SSeq (SExpr (ESetLocal 5 (EConst 0))) rp_free_loop.
Proof. reflexivity. Qed.

Lemma split_aux_len : forall s cur, linecount_aux (match cur with [] => false | _ => true end) s = length (split_aux cur s).
Proof.
  induction s as [|c s IH]; intro cur; cbn [linecount_aux split_aux].
  - destruct cur; reflexivity.
  - destruct (is_nl c); [cbn [length]; f_equal; apply (IH []) | apply (IH (c :: cur))].
Qed.
Lemma split_len s : length (split_lines s) = linecount s.
Proof. symmetry. apply (split_aux_len s []). Qed.

(* ---- the cells of the two arrays after the splice *)
Lemma move_arr_cells (a : block) pos nd ni n i : (pos + nd <= n)%nat -> (n <= length a)%nat -> (n + ni - nd <= length a)%nat ->
  nth_error (move_arr a pos nd ni n) i =
  if (i <? pos + ni)%nat then nth_error a i else if (i <? n + ni - nd)%nat then nth_error a (i - ni + nd) else nth_error a i.
Proof.
  intros H1 H2 H3. unfold move_arr.
  assert (Lv : length (firstn (n - pos - nd) (skipn (pos + nd) a)) = (n - pos - nd)%nat) by (rewrite firstn_length, skipn_length; lia).
  rewrite nth_error_put_cells by (rewrite Lv; lia). rewrite Lv.
  destruct (Nat.ltb_spec i (pos + ni)); [reflexivity|].
  destruct (Nat.ltb_spec i (pos + ni + (n - pos - nd))); destruct (Nat.ltb_spec i (n + ni - nd)); try lia; [|reflexivity].
  rewrite nth_error_firstn_lt by lia. rewrite nth_error_skipn_add. f_equal. lia.
Qed.
Lemma ptr_cells {A} (g : A -> val) (d : A) (a : block) (xs news : list A) pos nd n :
  (pos + nd <= n)%nat -> (n <= length a)%nat -> (n + length news - nd <= length a)%nat -> length xs = n ->
  (forall i, (i < n)%nat -> nth_error a i = Some (g (nth i xs d))) ->
  forall i, (i < n + length news - nd)%nat ->
  nth_error (put_cells (move_arr a pos nd (length news) n) pos (map g news)) i = Some (g (nth i (splice xs news pos nd) d)).
Proof.
  intros H1 H2 H3 Hx Hc i Hi. set (ni := length news) in *.
  assert (Lm : length (move_arr a pos nd ni n) = length a) by (apply move_arr_len; lia).
  rewrite nth_error_put_cells by (rewrite map_length, Lm; fold ni; lia). rewrite map_length. fold ni.
  rewrite splice_nth by lia. fold ni.
  destruct (Nat.ltb_spec i pos).
  - rewrite move_arr_cells by lia. destruct (Nat.ltb_spec i (pos + ni)); [|lia]. apply Hc. lia.
  - destruct (Nat.ltb_spec i (pos + ni)).
    + rewrite nth_error_map, (nth_error_nth' news d) by (fold ni; lia). reflexivity.
    + rewrite move_arr_cells by lia. destruct (Nat.ltb_spec i (pos + ni)); [lia|]. destruct (Nat.ltb_spec i (n + ni - nd)); [|lia]. apply Hc. lia.
Qed.
Lemma glob_cells (a : block) (globs : list Z) pos nd ni n :
  (pos + nd <= n)%nat -> (n <= length a)%nat -> (n + ni - nd <= length a)%nat -> length globs = n ->
  (forall i, (i < n)%nat -> nth_error a i = Some (VInt (nth i globs 0))) ->
  forall i, (i < n + ni - nd)%nat ->
  nth_error (glob_arr (move_arr a pos nd ni n) pos nd ni) i = Some (VInt (nth i (splice_globs globs pos nd ni) 0)).
Proof.
  intros H1 H2 H3 Hx Hc i Hi. unfold glob_arr, splice_globs.
  assert (Lm : length (move_arr a pos nd ni n) = length a) by (apply move_arr_len; lia).
  rewrite nth_error_put_cells by (rewrite repeat_length, Lm; lia). rewrite repeat_length.
  rewrite splice_nth by lia. rewrite new_globs_length by lia.
  destruct (Nat.ltb_spec i pos).
  - destruct (Nat.ltb_spec i (pos + nd)); [|lia]. rewrite move_arr_cells by lia. destruct (Nat.ltb_spec i (pos + ni)); [|lia]. apply Hc. lia.
  - destruct (Nat.ltb_spec i (pos + ni)).
    + unfold new_globs. destruct (Nat.ltb_spec i (pos + nd)).
      * rewrite move_arr_cells by lia. destruct (Nat.ltb_spec i (pos + ni)); [|lia].
        rewrite app_nth1 by (rewrite firstn_length, skipn_length; lia). rewrite nth_sub by lia.
        replace (pos + (i - pos))%nat with i by lia. apply Hc. lia.
      * destruct (Nat.ltb_spec i (pos + nd + (ni - nd))); [|lia].
        rewrite app_nth2 by (rewrite firstn_length, skipn_length; lia).
        rewrite (nth_error_nth' (repeat (VInt 0) (ni - nd)) (VInt 0)) by (rewrite repeat_length; lia).
        rewrite !nth_repeat. reflexivity.
    + assert (E : (if (i <? pos + nd)%nat then nth_error (move_arr a pos nd ni n) i
                   else if (i <? pos + nd + (ni - nd))%nat then nth_error (repeat (VInt 0) (ni - nd)) (i - (pos + nd))
                   else nth_error (move_arr a pos nd ni n) i) = nth_error (move_arr a pos nd ni n) i).
      { destruct (Nat.ltb_spec i (pos + nd)); [reflexivity|]. destruct (Nat.ltb_spec i (pos + nd + (ni - nd))); [lia|reflexivity]. }
      rewrite E. rewrite move_arr_cells by lia. destruct (Nat.ltb_spec i (pos + ni)); [lia|]. destruct (Nat.ltb_spec i (n + ni - nd)); [|lia].
      apply Hc. lia.
Qed.

(* ---- the whole function *)
Definition rp_count : stmt := match rp_body with SSeq a _ => a | _ => SSkip end.
Lemma rp_body_eq : rp_body = SSeq rp_count (SSeq rp_grow (SSeq rp_free (SSeq rp_move (SSeq rp_setn (SSeq rp_cut (SSeq rp_glob (SSeq rp_marks rp_rest7))))))).
Proof. reflexivity. Qed.
Lemma exec_seq_assoc call f a b r st : exec call f (SSeq a (SSeq b r)) st = exec call f (SSeq (SSeq a b) r) st.
Proof.
  rewrite (exec_seq call f a (SSeq b r)), (exec_seq call f (SSeq a b) r), (exec_seq call f a b).
  destruct (exec call f a st); try reflexivity. apply exec_seq.
Qed.

(* lia without the disequalities of the context (each one doubles its case analysis) *)
Ltac nlia := repeat match goal with H : _ <> _ |- _ => clear H end; lia.

Definition splice_fuel (n ni nd : nat) : nat := (n + ni + 34)%nat.

Theorem tr_lbuf_replace (m : mem) lb blk bln bgl lbs lines globs mk cap sv t nul pos nd cap' d fuel :
  let n := length lines in let ni := linecount t in
  let need := Z.of_nat n + Z.of_nat ni - Z.of_nat nd in
  lbuf_at m lb blk bln bgl lbs lines globs mk cap ->
  s_text m (lb :: bln :: bgl :: lbs) sv t nul ->
  (pos + nd <= n)%nat ->
  Z.of_nat n + Z.of_nat ni <= 2147483647 ->
  grow (grow_fuel need) need (Z.of_nat cap) = Some cap' -> cap' <= 2147483647 ->
  Forall (row_fits (Z.of_nat pos) (Z.of_nat nd) (Z.of_nat ni)) mk ->
  (splice_fuel n ni nd <= fuel)%nat ->
  exists m' blk' bln' bgl' base,
    callf cprog fuel (S (S (S d))) F_lbuf_replace [VPtr lb 0; sv; VInt (Z.of_nat pos); VInt (Z.of_nat nd)] m = Ok (VUndef, m')
    /\ lbuf_at m' lb blk' bln' bgl' (splice lbs (seq base ni) pos nd) (splice lines (split_lines t) pos nd)
         (splice_globs globs pos nd ni) (splice_marks nul pos nd ni mk) (Z.to_nat cap')
    /\ need < cap' /\ Z.of_nat cap <= cap'
    /\ (length m <= base)%nat /\ (length m <= length m')%nat
    /\ (forall c, (c < length m)%nat -> ~ In c (lb :: bln :: bgl :: lbs) -> nth_error m' c = nth_error m c)
    /\ (forall b, In b (firstn nd (skipn pos lbs)) -> nth_error m' b = Some [])
    /\ arr_kept m m' bln bln' /\ arr_kept m m' bgl bgl'
    /\ (forall j, (68 <= j)%nat -> nth_error blk' j = nth_error blk j).
Proof.
  intros n ni need R St Hpos Hsz Hgrow Hcap' Hfit Hfuel.
  assert (Sc : (sv = VInt 0 /\ t = [] /\ nul = true) \/
               (exists bs o text, sv = VPtr bs (Z.of_nat o) /\ t = skipn o text /\ nul = false /\ str_at m bs text /\ nonul text /\
                  (o <= length text)%nat /\ Z.of_nat (length text) + 2 <= 2147483647 /\ ~ In bs (lb :: bln :: bgl :: lbs))).
  { destruct St as [|bs o text Hs Hnn Ho Hlen Hout]; [left; repeat split; reflexivity|right].
    exists bs, o, text. repeat split; assumption. }
  clear St.
  destruct R as [(lnblk & glblk & T & Cln & Cgl) Hlbs Hglobs Hstr Hnd [Hcap Hcap0] [Hmk Hmarks]]. fold n in T, Cln, Cgl, Hlbs, Hglobs, Hstr, Hcap.
  pose proof T as [Tb Tl Tln Tgl Tn Tsz Tlnb Tglb Tlnl Tgll (N1 & N2 & N3)].
  unfold splice_fuel in Hfuel.
  (* blocks of the representation are below length m, pairwise distinct *)
  assert (Llb : (lb < length m)%nat) by (apply (nth_lt _ _ _ Tb)).
  assert (Lbln : (bln < length m)%nat) by (apply (nth_lt _ _ _ Tlnb)).
  assert (Lbgl : (bgl < length m)%nat) by (apply (nth_lt _ _ _ Tglb)).
  assert (Llbs : forall b, In b lbs -> (b < length m)%nat).
  { intros b Hb. destruct (In_nth _ _ O Hb) as (i & Hi & <-). apply (nth_lt _ _ _ (Hstr i ltac:(nlia))). }
  assert (Dlbs : forall b, In b lbs -> b <> lb /\ b <> bln /\ b <> bgl).
  { intros b Hb. inversion Hnd as [|? ? X1 X2]; subst. inversion X2 as [|? ? X3 X4]; subst. inversion X4 as [|? ? X5 X6]; subst.
    repeat split; intros ->; [apply X1|apply X3|apply X5]; cbn [In]; tauto. }
  assert (Ndl : NoDup lbs) by (inversion Hnd as [|? ? X1 X2]; subst; inversion X2 as [|? ? X3 X4]; subst; inversion X4; assumption).
  assert (Inj : forall a b, (a < length lbs)%nat -> (b < length lbs)%nat -> nth a lbs O = nth b lbs O -> a = b) by (apply NoDup_nth; exact Ndl).
  (* the call *)
  rewrite callf_S. change (nth_error cprog F_lbuf_replace) with (Some cf_lbuf_replace).
  cbn [cf_lbuf_replace fn_nparams fn_nlocals length Nat.eqb Nat.sub repeat app]. fold cf_lbuf_replace.
  change (fn_body cf_lbuf_replace) with rp_body. rewrite rp_body_eq.
  set (call := callf cprog fuel (S (S d))).
  (* n_ins = linecount(s) *)
  assert (E0 : exec call fuel rp_count (mkst [VPtr lb 0; sv; VInt (Z.of_nat pos); VInt (Z.of_nat nd); VUndef; VUndef; VUndef; VUndef; VUndef; VUndef; VUndef; VUndef] m)
               = ONormal (mkst [VPtr lb 0; sv; VInt (Z.of_nat pos); VInt (Z.of_nat nd); VInt (Z.of_nat ni); VUndef; VUndef; VUndef; VUndef; VUndef; VUndef; VUndef] m)).
  { unfold rp_count, rp_body; cbn [fn_body cf_lbuf_replace]. unfold call.
    destruct Sc as [(Es & Et & En)|(bs & o & text & Es & Et & En & Hs & Hnn & Ho & Hlen & Hout)]; rewrite Es; xstep.
    - rewrite (tr_linecount_null m d fuel) by nlia. unfold ni. rewrite Et. reflexivity.
    - rewrite (tr_linecount m bs text o d fuel Hs Hnn Ho) by (rewrite <- ?Et; fold ni; nlia). unfold ni. rewrite Et. reflexivity. }
  assert (Sarg : s_arg sv nul).
  { destruct Sc as [(Es & Et & En)|(bs & o & text & Es & Et & En & _)]; [left; split; assumption|right; split; [assumption|eauto]]. }
  rewrite exec_seq, E0. clear E0.
  (* the growth loop *)
  destruct (grow_loop_ok call lb n ni nd sv (VInt (Z.of_nat pos)) VUndef VUndef VUndef VUndef Hsz ltac:(nlia)
              (grow_fuel need) fuel m blk bln bgl lnblk glblk cap cap' VUndef VUndef VUndef T Hcap Hcap0 Hgrow Hcap' ltac:(unfold grow_fuel, need; nlia))
    as (m1 & blk1 & bln1 & bgl1 & lnblk1 & glblk1 & w6 & w7 & w8 & E1 & T1 & C1 & C2 & L1 & K1 & A1 & A2 & P1 & P2 & Q1).
  rewrite exec_seq, E1. clear E1.
  set (c1 := Z.to_nat cap') in *.
  pose proof T1 as [Ub Ul Uln Ugl Un Usz Ulnb Uglb Ulnl Ugll (M1 & M2 & M3)].
  assert (Lbln1 : (bln1 < length m1)%nat) by (apply (nth_lt _ _ _ Ulnb)).
  assert (Lbgl1 : (bgl1 < length m1)%nat) by (apply (nth_lt _ _ _ Uglb)).
  assert (D1 : forall b, In b lbs -> b <> bln1 /\ b <> bgl1).
  { intros b Hb. pose proof (Llbs b Hb). destruct (Dlbs b Hb) as (X1 & X2 & X3).
    split; [destruct A1 as [->|[Y _]]|destruct A2 as [->|[Y _]]]; try assumption; nlia. }
  assert (Cln1 : forall i, (i < n)%nat -> nth_error lnblk1 i = Some (VPtr (nth i lbs O) 0)).
  { intros i Hi. rewrite <- (nth_error_firstn_lt lnblk1 n i Hi), P1, nth_error_firstn_lt by exact Hi. apply Cln. exact Hi. }
  assert (Cgl1 : forall i, (i < n)%nat -> nth_error glblk1 i = Some (VInt (nth i globs 0))).
  { intros i Hi. rewrite <- (nth_error_firstn_lt glblk1 n i Hi), P2, nth_error_firstn_lt by exact Hi. apply Cgl. exact Hi. }
  assert (Str1 : forall i, (i < n)%nat -> str_at m1 (nth i lbs O) (nth i lines [])).
  { intros i Hi. assert (Hin : In (nth i lbs O) lbs) by (apply nth_In; nlia). destruct (Dlbs _ Hin) as (X1 & X2 & X3).
    unfold str_at. rewrite K1 by (try assumption; apply Llbs; exact Hin). apply Hstr. exact Hi. }
  (* the deleted lines are freed *)
  set (dels := firstn nd (skipn pos lbs)).
  assert (Ldels : length dels = nd) by (unfold dels; rewrite firstn_length, skipn_length; nlia).
  assert (Idels : forall b, In b dels -> In b lbs) by (intros b Hb; apply (in_sub lbs pos nd b Hb)).
  rewrite exec_seq, rp_free_eq, exec_seq, exec_expr. xcbn.
  assert (E2 : exec call fuel rp_free_loop (mkst [VPtr lb 0; sv; VInt (Z.of_nat pos); VInt (Z.of_nat nd); VInt (Z.of_nat ni); VInt 0; w6; w7; w8; VUndef; VUndef; VUndef] m1)
     = ONormal (mkst [VPtr lb 0; sv; VInt (Z.of_nat pos); VInt (Z.of_nat nd); VInt (Z.of_nat ni); VInt (Z.of_nat nd); w6; w7; w8; VUndef; VUndef; VUndef] (free_blocks dels m1))).
  { apply (free_loop_ok call lb blk1 bln1 lnblk1 sv pos nd (VInt (Z.of_nat ni)) w6 w7 w8 VUndef VUndef VUndef Uln ltac:(nlia) nd O dels m1 fuel eq_refl Ldels).
    - intros j Hj. rewrite Nat.add_0_r. unfold dels. rewrite nth_sub by nlia. apply Cln1. nlia.
    - apply nodup_sub. exact Ndl.
    - intros b Hb. pose proof (Idels b Hb) as Hin. destruct (Dlbs b Hin) as (X1 & X2 & X3). destruct (D1 b Hin) as (X4 & X5).
      split; [exact X1|]. split; [exact X4|]. destruct (In_nth _ _ O Hin) as (i & Hi & Ei). pose proof (Str1 i ltac:(nlia)) as Y. rewrite Ei in Y.
      exists (cstr_block (zb (nth i lines []))). split; [exact Y|]. unfold cstr_block. intro E. apply (f_equal (@length val)) in E. rewrite app_length in E. cbn in E. nlia.
    - exact Ub.
    - exact Ulnb.
    - nlia. }
  rewrite E2. clear E2.
  set (m2 := free_blocks dels m1).
  assert (Bd : forall b, In b dels -> (b < length m1)%nat) by (intros b Hb; pose proof (Llbs b (Idels b Hb)); nlia).
  assert (L2 : length m2 = length m1) by (apply free_blocks_length; exact Bd).
  assert (K2 : forall c, ~ In c dels -> nth_error m2 c = nth_error m1 c) by (intros c Hc; apply free_blocks_other; assumption).
  assert (F2 : forall c, In c dels -> nth_error m2 c = Some []) by (intros c Hc; apply free_blocks_in; assumption).
  assert (T2 : tbl m2 lb blk1 bln1 bgl1 lnblk1 glblk1 n c1).
  { apply (tbl_same m1); [exact T1| | |]; apply K2; intro Hc; pose proof (Idels _ Hc) as Hin.
    - destruct (Dlbs _ Hin) as (X & _). congruence.
    - destruct (D1 _ Hin) as (X & _). congruence.
    - destruct (D1 _ Hin) as (_ & X). congruence. }
  (* the tails move, ln_n is updated *)
  assert (Zc1 : Z.of_nat c1 = cap') by (unfold c1; nlia).
  rewrite exec_seq_assoc, exec_seq.
  destruct (move_ok call fuel m2 lb blk1 bln1 bgl1 lnblk1 glblk1 n c1 sv pos nd ni (VInt (Z.of_nat nd)) w6 w7 w8 VUndef VUndef VUndef T2 Hpos ltac:(nlia) ltac:(nlia) ltac:(nlia) ltac:(nlia))
    as (m3 & E3 & T3 & L3 & K3).
  rewrite E3. clear E3.
  set (n' := (n + ni - nd)%nat) in T3 |- *. set (blk3 := setn_blk blk1 n') in T3 |- *.
  set (lnblk3 := move_arr lnblk1 pos nd ni n) in T3 |- *. set (glblk3 := move_arr glblk1 pos nd ni n) in T3 |- *.
  pose proof T3 as [Vb Vl Vln Vgl Vn Vsz Vlnb Vglb Vlnl Vgll _].
  (* blocks outside the old representation are still what they were *)
  assert (Fr3 : forall c, (c < length m)%nat -> ~ In c (lb :: bln :: bgl :: lbs) ->
                  c <> lb /\ c <> bln1 /\ c <> bgl1 /\ nth_error m3 c = nth_error m c).
  { intros c Hc Hout. cbn [In] in Hout.
    assert (X1 : c <> lb) by (intro E; rewrite E in Hout; tauto). assert (X2 : c <> bln) by (intro E; rewrite E in Hout; tauto). assert (X3 : c <> bgl) by (intro E; rewrite E in Hout; tauto).
    assert (X4 : ~ In c lbs) by tauto.
    assert (X5 : c <> bln1) by (destruct A1 as [->|[Y _]]; [exact X2|nlia]).
    assert (X6 : c <> bgl1) by (destruct A2 as [->|[Y _]]; [exact X3|nlia]).
    repeat split; try assumption. rewrite K3, K2, K1 by (try assumption; intro Hd; apply X4; apply Idels; exact Hd). reflexivity. }
  (* the lines of s are cut, allocated and stored *)
  set (m4 := upd (m3 ++ map line_blk (split_lines t)) bln1 (put_cells lnblk3 pos (new_ptrs (length m3) ni))).
  assert (E4 : exists sv' w9 w10 w11, s_arg sv' nul /\
     exec call fuel rp_cut (mkst [VPtr lb 0; sv; VInt (Z.of_nat pos); VInt (Z.of_nat nd); VInt (Z.of_nat ni); VInt (Z.of_nat nd); w6; w7; w8; VUndef; VUndef; VUndef] m3)
     = ONormal (mkst [VPtr lb 0; sv'; VInt (Z.of_nat pos); VInt (Z.of_nat nd); VInt (Z.of_nat ni); VInt (Z.of_nat ni); w6; w7; w8; w9; w10; w11] m4)).
  { unfold m4. clear m4. destruct Sc as [(Es & Et & En)|(bs & o & text & Es & Et & En & Hs & Hnn & Ho & Hlen & Hout)].
    - exists (VInt 0), VUndef, VUndef, VUndef. split; [left; split; [exact En|reflexivity]|].
      assert (Z0 : ni = 0%nat) by (unfold ni; rewrite Et; reflexivity). rewrite Es, Z0, Et. change (Z.of_nat 0) with 0. rewrite (cut_zero call fuel) by nlia.
      cbn [split_lines split_aux map new_ptrs seq]. rewrite app_nil_r, put_cells_nil, (upd_self m3 bln1 lnblk3 Vlnb). reflexivity.
    - assert (Lbs : (bs < length m)%nat) by (apply (nth_lt _ _ _ Hs)).
      destruct (Fr3 bs Lbs Hout) as (X1 & X2 & X3 & X4).
      assert (Eni : linecount (skipn o text) = ni) by (unfold ni; rewrite Et; reflexivity).
      destruct (cut_ok fuel (S d) lb blk3 bln1 bs text o pos ni (VInt (Z.of_nat nd)) (VInt (Z.of_nat nd)) w6 w7 w8 VUndef VUndef VUndef m3 lnblk3
                  Vln Hnn Hlen ltac:(nlia) X2 X1 M1 Eni Ho Vb Vlnb) as (o' & w9 & w10 & w11 & E).
      + unfold str_at. rewrite X4. exact Hs.
      + rewrite Vlnl. nlia.
      + nlia.
      + exists (VPtr bs o'), w9, w10, w11. split; [right; split; [exact En|eauto]|]. rewrite Es, Et. exact E. }
  destruct E4 as (sv' & w9 & w10 & w11 & Sarg' & E4).
  rewrite exec_seq, E4. clear E4.
  set (NB := map line_blk (split_lines t)) in *. set (L4 := put_cells lnblk3 pos (new_ptrs (length m3) ni)) in *.
  assert (LNB : length NB = ni) by (unfold NB; rewrite map_length; apply split_len).
  assert (Llb3 : (lb < length m3)%nat) by (apply (nth_lt _ _ _ Vb)).
  assert (Lbln3 : (bln1 < length m3)%nat) by (apply (nth_lt _ _ _ Vlnb)).
  assert (Lbgl3 : (bgl1 < length m3)%nat) by (apply (nth_lt _ _ _ Vglb)).
  assert (Old4 : forall c, (c < length m3)%nat -> nth_error (m3 ++ NB) c = nth_error m3 c) by (intros c Hc; apply nth_error_app1; exact Hc).
  assert (Hbl4 : nth_error (m3 ++ NB) bln1 = Some lnblk3) by (rewrite Old4 by nlia; exact Vlnb).
  destruct (upd_frame (m3 ++ NB) bln1 lnblk3 L4 Hbl4) as (W1 & W2 & W3). fold m4 in W1, W2, W3.
  assert (B4 : nth_error m4 lb = Some blk3) by (rewrite W2, Old4 by (try nlia; congruence); exact Vb).
  assert (G4 : nth_error m4 bgl1 = Some glblk3) by (rewrite W2, Old4 by (try nlia; congruence); exact Vglb).
  (* ln_glob of the added lines is cleared *)
  rewrite exec_seq.
  rewrite (glob_ok call fuel lb blk3 bgl1 sv' pos nd ni (VInt (Z.of_nat ni)) w6 w7 w8 w9 w10 w11 m4 glblk3 Vgl ltac:(nlia) M2 B4 G4 ltac:(rewrite Vgll; nlia) ltac:(nlia)).
  set (G5 := glob_arr glblk3 pos nd ni).
  destruct (upd_frame m4 bgl1 glblk3 G5 G4) as (W4 & W5 & W6). set (m5 := upd m4 bgl1 G5) in *.
  assert (B5 : nth_error m5 lb = Some blk3) by (rewrite W5 by congruence; exact B4).
  (* the marks *)
  assert (Rows : forall j, (j < 32)%nat -> nth_error blk3 j = Some (VInt (nth j mk 0)) /\ row_fits (Z.of_nat pos) (Z.of_nat nd) (Z.of_nat ni) (nth j mk 0)).
  { intros j Hj. split.
    - unfold blk3, setn_blk. rewrite nth_error_upd_other by (rewrite ?Ul; unfold LBUF_CELLS, L_ln_n; nlia).
      rewrite Q1 by (unfold L_ln, L_ln_glob, L_ln_sz; nlia). apply Hmarks. exact Hj.
    - rewrite Forall_forall in Hfit. apply Hfit. apply nth_In. nlia. }
  rewrite exec_seq.
  rewrite (marks_ok call fuel lb sv' nul pos nd ni (VInt (Z.of_nat (Nat.max nd ni))) w6 w7 w8 w9 w10 w11 m5 blk3 Sarg' ltac:(nlia) ltac:(nlia) B5)
    by (first [nlia | rewrite Vl; unfold LBUF_CELLS; nlia | intros j Hj; exists (nth j mk 0); apply Rows; exact Hj]).
  set (f := shift_row nul (Z.of_nat pos) (Z.of_nat nd) (Z.of_nat ni)). set (blk6 := shift_cells f blk3 0 32).
  destruct (upd_frame m5 lb blk3 blk6 B5) as (W7 & W8 & W9). set (m6 := upd m5 lb blk6) in *.
  assert (Lb6 : length blk6 = LBUF_CELLS) by (unfold blk6; rewrite shift_cells_length by (rewrite Vl; unfold LBUF_CELLS; nlia); exact Vl).
  unfold call. rewrite (tail_ok fuel d fuel lb sv' pos (VInt (Z.of_nat nd)) ni (VInt 32) w6 w7 w8 w9 w10 w11 m6 blk6 W7 Lb6 ltac:(nlia)).
  set (blk7 := tail_blk blk6 pos ni).
  destruct (upd_frame m6 lb blk6 blk7 W7) as (W10 & W11 & W12). set (m7 := upd m6 lb blk7) in *.
  cbn [memm].
  (* every block of the final memory *)
  assert (V7 : forall c, c <> lb -> c <> bgl1 -> c <> bln1 -> nth_error m7 c = nth_error (m3 ++ NB) c).
  { intros c X1 X2 X3. rewrite W11, W8, W5, W2 by assumption. reflexivity. }
  assert (V7ln : nth_error m7 bln1 = Some L4) by (rewrite W11, W8, W5 by congruence; exact W1).
  assert (V7gl : nth_error m7 bgl1 = Some G5) by (rewrite W11, W8 by congruence; exact W4).
  assert (Len7 : length m7 = (length m3 + ni)%nat) by (rewrite W12, W9, W6, W3, app_length, LNB; reflexivity).
  exists m7, blk7, bln1, bgl1, (length m3). split; [reflexivity|].
  (* the cells of the struct above the marks *)
  assert (Lmb : length (mark_blk blk6 91 (Z.of_nat pos) 0) = LBUF_CELLS) by (apply mark_blk_len; [exact Lb6|nlia]).
  assert (Hi7 : forall j, (64 <= j)%nat -> nth_error blk7 j = nth_error blk3 j).
  { intros j Hj. unfold blk7, tail_blk. rewrite mark_blk_cell_hi by (try exact Lmb; nlia). rewrite mark_blk_cell_hi by (try exact Lb6; nlia).
    unfold blk6. rewrite shift_cells_nth by (rewrite Vl; unfold LBUF_CELLS; nlia).
    destruct (Nat.leb_spec 0 j); destruct (Nat.ltb_spec j (0 + 32)); try nlia; reflexivity. }
  assert (Lb7 : length blk7 = LBUF_CELLS) by (unfold blk7, tail_blk; apply mark_blk_len; [exact Lmb|nlia]).
  assert (X6 : forall j, (j < 32)%nat -> nth_error blk6 j = Some (VInt (f (nth j mk 0)))).
  { intros j Hj. unfold blk6. rewrite shift_cells_nth by (rewrite Vl; unfold LBUF_CELLS; nlia).
    destruct (Nat.leb_spec 0 j); [|nlia]. destruct (Nat.ltb_spec j (0 + 32)); [|nlia]. cbn [andb]. unfold cellz. rewrite (proj1 (Rows j Hj)). reflexivity. }
  clear W1 W2 W3 W4 W5 W6 W7 W8 W9 W11 W12 B4 G4 B5 Hbl4 Lmb. clearbody m7 m6 m5 m4 blk6. clear m6 m5 m4.
  assert (Hnc : (n <= c1)%nat) by nlia. assert (Hn'c : (n + ni < c1 + nd)%nat) by nlia. assert (Hc0 : (0 < c1)%nat) by nlia.
  assert (Hni : Z.of_nat pos + Z.of_nat ni <= 2147483647) by nlia.
  assert (PC2 := C2). assert (PC1 := C1).
  clear C1 C2 Zc1 Hsz Hcap' Hfuel Hgrow Hcap Hcap0 Hfit Rows Sarg Sarg' Sc. clearbody c1 call.
  clear T Cln Cgl Hstr Hnd Hmarks Tb Tl Tln Tgl Tn Tsz Tlnb Tglb Tlnl Tgll T1 P1 P2 Ub Uln Ugl Un Usz Ulnb Uglb Lbln1 Lbgl1 Bd T2 T3 Vb Vlnb Vglb K1 call w6 w7 w8 w9 w10 w11 sv'.
  assert (Hn' : length (splice lines (split_lines t) pos nd) = n') by (rewrite splice_length, split_len by exact Hpos; reflexivity).
  assert (LL4 : length L4 = c1).
  { unfold L4. rewrite put_cells_length; [exact Vlnl|]. unfold new_ptrs. rewrite map_length, seq_length, Vlnl. nlia. }
  assert (LG5 : length G5 = c1).
  { unfold G5, glob_arr. rewrite put_cells_length; [exact Vgll|]. rewrite repeat_length, Vgll. nlia. }
  split.
  { constructor.
    - exists L4, G5. rewrite Hn'. split; [|split].
      + constructor; try assumption; try (rewrite Hi7 by (unfold L_ln, L_ln_glob, L_ln_n, L_ln_sz; nlia); assumption).
        repeat split; assumption.
      + intros i Hi. unfold L4, lnblk3, new_ptrs.
        pose proof (ptr_cells (fun j => VPtr j 0) O lnblk1 lbs (seq (length m3) ni) pos nd n) as X. rewrite seq_length in X.
        apply X; try nlia; try exact Cln1; rewrite Ulnl; nlia.
      + intros i Hi. unfold G5, glblk3. apply (glob_cells glblk1 globs pos nd ni n); try nlia; try exact Cgl1; rewrite Ugll; nlia.
    - rewrite !splice_length, seq_length, split_len by nlia. rewrite Hlbs. reflexivity.
    - unfold splice_globs. rewrite !splice_length, new_globs_length, split_len by nlia. rewrite Hglobs. reflexivity.
    - rewrite Hn'. intros i Hi. rewrite !splice_nth by nlia. rewrite seq_length, split_len. fold ni. unfold str_at.
      destruct (Nat.ltb_spec i pos); [|destruct (Nat.ltb_spec i (pos + ni))].
      + assert (Hin : In (nth i lbs O) lbs) by (apply nth_In; nlia). destruct (Dlbs _ Hin) as (X1 & X2 & X3). destruct (D1 _ Hin) as (X4 & X5).
        pose proof (Llbs _ Hin).
        assert (Nd : ~ In (nth i lbs O) dels).
        { intro Hd. destruct (In_nth _ _ O Hd) as (j & Hj & Ej). rewrite Ldels in Hj. unfold dels in Ej. rewrite nth_sub in Ej by nlia.
          apply Inj in Ej; nlia. }
        rewrite V7, Old4, K3, K2 by (try assumption; nlia). apply Str1. nlia.
      + rewrite seq_nth by nlia. rewrite V7 by nlia. rewrite nth_error_app2 by nlia.
        replace (length m3 + (i - pos) - length m3)%nat with (i - pos)%nat by nlia. unfold NB.
        rewrite nth_error_map, (nth_error_nth' (split_lines t) []) by (rewrite split_len; fold ni; nlia). reflexivity.
      + assert (Hin : In (nth (i - ni + nd) lbs O) lbs) by (apply nth_In; nlia). destruct (Dlbs _ Hin) as (X1 & X2 & X3). destruct (D1 _ Hin) as (X4 & X5).
        pose proof (Llbs _ Hin).
        assert (Nd : ~ In (nth (i - ni + nd) lbs O) dels).
        { intro Hd. destruct (In_nth _ _ O Hd) as (j & Hj & Ej). rewrite Ldels in Hj. unfold dels in Ej. rewrite nth_sub in Ej by nlia.
          apply Inj in Ej; nlia. }
        rewrite V7, Old4, K3, K2 by (try assumption; nlia). apply Str1. nlia.
    - assert (Hs' : NoDup (splice lbs (seq (length m3) ni) pos nd)) by (apply splice_nodup; [exact Ndl|nlia|intros b Hb; pose proof (Llbs b Hb); nlia]).
      assert (Ho : forall c, In c (splice lbs (seq (length m3) ni) pos nd) -> c <> lb /\ c <> bln1 /\ c <> bgl1).
      { intros c Hc. destruct (splice_in_old lbs (length m3) ni pos nd c ltac:(nlia) Hc) as [Hin|Hge].
        - destruct (Dlbs _ Hin) as (X1 & _). destruct (D1 _ Hin) as (X4 & X5). repeat split; assumption.
        - repeat split; nlia. }
      constructor; [|constructor; [|constructor; [|exact Hs']]]; cbn [In].
      + intros [E|[E|Hc]]; [congruence|congruence|]. destruct (Ho _ Hc) as (X & _). congruence.
      + intros [E|Hc]; [congruence|]. destruct (Ho _ Hc) as (_ & X & _). congruence.
      + intro Hc. destruct (Ho _ Hc) as (_ & _ & X). congruence.
    - rewrite Hn'. split; nlia.
    - split.
      + unfold splice_marks. rewrite !upd_length; rewrite ?upd_length; rewrite ?map_length; nlia.
      + intros k Hk. unfold splice_marks, blk7, tail_blk, mark_blk. change (CapDefs2.markidx 91) with 28. change (CapDefs2.markidx 93) with 29.
        change (0 <=? 28) with true. change (0 <=? 29) with true. cbv iota. change (Z.to_nat 28) with 28%nat. change (Z.to_nat 29) with 29%nat. unfold M_OFF.
        rewrite (nth_upd _ 29 k) by (rewrite upd_length; rewrite ?map_length; nlia). rewrite (nth_upd _ 28 k) by (rewrite map_length; nlia).
        rewrite nth_error_upd_other by (rewrite ?upd_length; rewrite ?upd_length; rewrite ?upd_length; rewrite ?Lb6; unfold LBUF_CELLS; nlia).
        destruct (Nat.eqb_spec k 29) as [->|N29].
        { rewrite nth_error_upd_same by (rewrite ?upd_length; rewrite ?upd_length; rewrite ?Lb6; unfold LBUF_CELLS; nlia). reflexivity. }
        rewrite nth_error_upd_other by (try assumption; rewrite ?upd_length; rewrite ?upd_length; rewrite ?Lb6; unfold LBUF_CELLS; nlia).
        rewrite nth_error_upd_other by (rewrite ?upd_length; rewrite ?Lb6; unfold LBUF_CELLS; nlia).
        destruct (Nat.eqb_spec k 28) as [->|N28].
        { rewrite nth_error_upd_same by (rewrite ?Lb6; unfold LBUF_CELLS; nlia). reflexivity. }
        rewrite nth_error_upd_other by (try assumption; rewrite ?Lb6; unfold LBUF_CELLS; nlia). rewrite X6 by exact Hk.
        rewrite (nth_indep (map f mk) 0 (f 0)) by (rewrite map_length; nlia). rewrite map_nth. reflexivity. }
  split; [exact PC2|]. split; [exact PC1|]. split; [nlia|]. split; [nlia|].
  split.
  { intros c Hc Hout. destruct (Fr3 c Hc Hout) as (X1 & X2 & X3 & X4). rewrite V7, Old4 by (try assumption; nlia). exact X4. }
  split.
  { intros b Hb. pose proof (Idels b Hb) as Hin. destruct (Dlbs _ Hin) as (X1 & X2 & X3). destruct (D1 _ Hin) as (X4 & X5). pose proof (Llbs _ Hin).
    rewrite V7, Old4, K3 by (try assumption; nlia). apply F2. exact Hb. }
  assert (Nd_bln : ~ In bln dels) by (intro Hd; destruct (Dlbs _ (Idels _ Hd)) as (_ & X & _); congruence).
  assert (Nd_bgl : ~ In bgl dels) by (intro Hd; destruct (Dlbs _ (Idels _ Hd)) as (_ & _ & X); congruence).
  split.
  { destruct A1 as [E|[Y F]]; [left; exact E|right]. split; [exact Y|].
    assert (bln <> bgl1) by (destruct A2 as [->|[Y2 _]]; [exact N3|nlia]).
    rewrite V7, Old4, K3, K2 by (try assumption; try nlia; congruence). exact F. }
  split.
  { destruct A2 as [E|[Y F]]; [left; exact E|right]. split; [exact Y|].
    assert (bgl <> bln1) by (destruct A1 as [->|[Y2 _]]; [congruence|nlia]).
    rewrite V7, Old4, K3, K2 by (try assumption; try nlia; congruence). exact F. }
  intros j Hj. rewrite Hi7 by nlia. unfold blk3, setn_blk. rewrite nth_error_upd_other by (rewrite ?Ul; unfold LBUF_CELLS, L_ln_n; nlia).
  apply Q1; unfold L_ln, L_ln_glob, L_ln_sz; nlia.
Qed.
