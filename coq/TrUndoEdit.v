(* TrUndoEdit.v -- lbuf_edit of /repo/lbuf.c on the translated C text (GenCFuncs.v): the clamping of beg / end to ln_n, the early
   return for an empty change (beg == end after the clamping, no text), then lbuf_opt and lbuf_replace with the clamped
   arguments -- UndoDefs.lbuf_edit, relative to the oracles for lbuf_replace (replace_oracle, TrUndo.v) and lbuf_cp (cp_oracle,
   TrUndoOpt.v).  Also: the first lbuf_opt on a buffer lbuf_make just made (hist == NULL) stops in memcpy(hist, NULL, 0). *)
From Coq Require Import List ZArith NArith Bool Lia.
From NV Require Import Bytes GenConsts CLite CLiteProps GenCFuncs CLiteTac CLiteExt TrLbufBase UndoDefs TrUndoBase TrUndo TrUndoOpt.
Import ListNotations.
Local Open Scope Z_scope.

Lemma bufarg_sarg (m : mem) bl bh v buf : bufarg m bl bh v buf -> sarg m v buf.
Proof.
  destruct buf as [t|]; [|auto]. intros (bb & s & o & -> & Hs & Hn & Ho & Hm & -> & _). split; [apply Forall_skipn'; exact Hn|].
  exists bb, (Z.of_nat o). split; [reflexivity|]. exists (cstr_block (zb s)). split; [exact Hs|]. split; [lia|].
  rewrite Nat2Z.id, skipn_cstr_block by exact Ho. apply firstn_all2. rewrite cstr_block_len. lia.
Qed.

Section Edit.
  Variable ext : nat -> list val -> mem -> res (val * mem).
  Variables (d fuel : nat).
  Variable T : Tpred.
  Hypothesis TF : T_frame T.

  Theorem tr_lbuf_edit (m : mem) bl (blk : block) bh (hblk : block) lb (bufv : val) buf b e :
    replace_oracle ext T bl -> cp_oracle ext T bl -> urep T m bl blk bh hblk lb -> bufarg m bl bh bufv buf ->
    (forall bb o, bufv = VPtr bb o -> ~ In bb (log_blocks hblk 0 (length (hist lb)))) ->
    (b <= e)%nat -> i31 e -> i31 (length (ln lb) + linecount buf) -> Z.of_nat (hist_sz lb) * 2 <= 2147483647 ->
    (length (hist lb) - hist_u lb < fuel)%nat -> (linecount buf < fuel)%nat -> (28 < fuel)%nat ->
    let b' := Nat.min b (length (ln lb)) in let e' := Nat.min e (length (ln lb)) in
    if Nat.eqb b' e' && is_none buf
    then callx ext cprog fuel (S (S (S (S (S d))))) F_lbuf_edit [VPtr bl 0; bufv; VInt (Z.of_nat b); VInt (Z.of_nat e)] m = Ok (VUndef, m)
    else exists (m' : mem) (blk' : block) bh' (hblk' : block),
           callx ext cprog fuel (S (S (S (S (S d))))) F_lbuf_edit [VPtr bl 0; bufv; VInt (Z.of_nat b); VInt (Z.of_nat e)] m = Ok (VUndef, m') /\
           urep T m' bl blk' bh' hblk' (lbuf_edit lb buf b e).
  Proof.
    intros HO HC R Hbuf Hnb Hbe Hie Hin Hsz2 Hf1 Hf2 Hf3 b' e'.
    pose proof R as [Hb L I Cn Rn Cq Ch Csz Cnn Cu Cz Cl Rg Hh Hl He Ho Ht].
    set (n := length (ln lb)) in *.
    assert (Hbv : bufv = VInt 0 /\ buf = None \/ (exists bb o, bufv = VPtr bb o) /\ exists t, buf = Some t).
    { destruct buf as [t|]; [right|left; auto]. destruct Hbuf as (bb & s & o & -> & _). eauto. }
    assert (HcA : exec (callx ext cprog fuel (S (S (S (S d))))) fuel
               (SIf (EBin OGt I32 (ELocal 2) (ELoad (Some I32) (EPtrAdd 1 (ELocal 0) (EConst 66)))) (SExpr (ESetLocal 2 (ELoad (Some I32) (EPtrAdd 1 (ELocal 0) (EConst 66))))) SSkip)
               (mkst [VPtr bl 0; bufv; VInt (Z.of_nat b); VInt (Z.of_nat e)] m) = ONormal (mkst [VPtr bl 0; bufv; VInt (Z.of_nat b'); VInt (Z.of_nat e)] m)).
    { xstep. xfld Hb Cn. rewrite !(wrap_I32_id (Z.of_nat n)) by (unfold i31 in *; lia). unfold b'. fold n.
      destruct (Z.ltb_spec (Z.of_nat n) (Z.of_nat b)); xstep; [xfld Hb Cn; rewrite !(wrap_I32_id (Z.of_nat n)) by (unfold i31 in *; lia); rewrite Nat.min_r by lia|rewrite Nat.min_l by lia]; reflexivity. }
    assert (HcB : exec (callx ext cprog fuel (S (S (S (S d))))) fuel
               (SIf (EBin OGt I32 (ELocal 3) (ELoad (Some I32) (EPtrAdd 1 (ELocal 0) (EConst 66)))) (SExpr (ESetLocal 3 (ELoad (Some I32) (EPtrAdd 1 (ELocal 0) (EConst 66))))) SSkip)
               (mkst [VPtr bl 0; bufv; VInt (Z.of_nat b'); VInt (Z.of_nat e)] m) = ONormal (mkst [VPtr bl 0; bufv; VInt (Z.of_nat b'); VInt (Z.of_nat e')] m)).
    { xstep. xfld Hb Cn. rewrite !(wrap_I32_id (Z.of_nat n)) by (unfold i31 in *; lia). unfold e'. fold n.
      destruct (Z.ltb_spec (Z.of_nat n) (Z.of_nat e)); xstep; [xfld Hb Cn; rewrite !(wrap_I32_id (Z.of_nat n)) by (unfold i31 in *; lia); rewrite Nat.min_r by lia|rewrite Nat.min_l by lia]; reflexivity. }
    assert (Hb'e' : (b' <= e')%nat /\ (e' <= n)%nat) by (unfold b', e'; fold n; lia). destruct Hb'e' as (Hle & Hen).
    assert (Hedit : Nat.eqb b' e' && is_none buf = false -> lbuf_edit lb buf b e = lbuf_replace (lbuf_opt lb buf b' (e' - b')) buf b' (e' - b')).
    { intro X. unfold lbuf_edit. fold n b' e'. rewrite X. reflexivity. }
    (* lbuf_opt(lb, buf, beg, end - beg); lbuf_replace(lb, buf, beg, end - beg); *)
    assert (Htail : exists (m' : mem) (blk' : block) bh' (hblk' : block),
              exec (callx ext cprog fuel (S (S (S (S d))))) fuel
                (SSeq (SExpr (ECall F_lbuf_opt [ELocal 0; ELocal 1; ELocal 2; EBin OSub I32 (ELocal 3) (ELocal 2)]))
                      (SExpr (ECall X_lbuf_replace [ELocal 0; ELocal 1; ELocal 2; EBin OSub I32 (ELocal 3) (ELocal 2)])))
                (mkst [VPtr bl 0; bufv; VInt (Z.of_nat b'); VInt (Z.of_nat e')] m)
              = ONormal (mkst [VPtr bl 0; bufv; VInt (Z.of_nat b'); VInt (Z.of_nat e')] m') /\
              urep T m' bl blk' bh' hblk' (lbuf_replace (lbuf_opt lb buf b' (e' - b')) buf b' (e' - b'))).
    { assert (Hpn : i31 (b' + (e' - b'))) by (unfold i31 in *; lia).
      destruct (tr_lbuf_opt ext d fuel T TF m bl blk bh hblk lb bufv buf b' (e' - b')%nat HC R Hbuf Hnb Hpn Hsz2 Hf1 Hf2 Hf3)
        as (m1 & blk1 & bh1 & hblk1 & C1 & R1 & L1 & K1 & _ & _).
      assert (Hbuf1 : bufarg m1 bl bh bufv buf).
      { apply (bufarg_keep m m1 bl bh bufv buf Hbuf). intros bb o Ev.
        destruct buf as [t|]; [|cbn in Hbuf; congruence]. destruct Hbuf as (bb' & s & o' & Ev' & Hs & _ & _ & _ & _ & N1 & N2).
        rewrite Ev in Ev'. injection Ev' as -> _. apply K1; [apply nth_error_Some; unfold str_at in Hs; congruence|].
        unfold owned. intros [X|[X|X]]; [congruence|congruence|apply (Hnb bb' _ Ev X)]. }
      assert (Hsp : splice_ok (lbuf_opt lb buf b' (e' - b')) buf b' (e' - b')).
      { unfold splice_ok. cbn [lbuf_opt ln]. fold n. split; [lia|exact Hin]. }
      destruct (HO m1 blk1 bh1 hblk1 _ bufv buf b' (e' - b')%nat R1 (bufarg_sarg m1 bl bh bufv buf Hbuf1) Hsp) as (r & m2 & blk2 & C2 & R2).
      exists m2, blk2, bh1, hblk1. split; [|exact R2].
      clear Hbuf Hbuf1 Hnb.
      destruct Hbv as [(Ev & _)|((bb & o & Ev) & _)]; rewrite Ev in *;
        (xstep; (rewrite chk_I32 by (unfold i31 in *; lia)); xstep; replace (Z.of_nat e' - Z.of_nat b') with (Z.of_nat (e' - b')) by lia;
         rewrite C1; xstep; (rewrite chk_I32 by (unfold i31 in *; lia)); xstep; replace (Z.of_nat e' - Z.of_nat b') with (Z.of_nat (e' - b')) by lia;
         rewrite callx_S, x_lbuf_replace_none, C2; reflexivity). }
    destruct (Nat.eqb b' e' && is_none buf) eqn:Ecase.
    - (* the early return *)
      apply andb_prop in Ecase. destruct Ecase as (E1 & E2). apply Nat.eqb_eq in E1. destruct buf as [t|]; [discriminate|].
      cbn [bufarg] in Hbuf. subst bufv.
      rewrite callx_S. cbn [nth_error cprog F_lbuf_edit cf_lbuf_edit fn_nparams fn_nlocals fn_body length Nat.eqb Nat.sub repeat app].
      rewrite exec_seq, HcA, exec_seq, HcB.
      xstep. rewrite E1, Z.eqb_refl. xstep. reflexivity.
    - destruct Htail as (m' & blk' & bh' & hblk' & C & R'). exists m', blk', bh', hblk'. split; [|rewrite (Hedit eq_refl); exact R'].
      rewrite callx_S. cbn [nth_error cprog F_lbuf_edit cf_lbuf_edit fn_nparams fn_nlocals fn_body length Nat.eqb Nat.sub repeat app].
      rewrite exec_seq, HcA, exec_seq, HcB.
      rewrite exec_seq, exec_if. xcbn.
      apply andb_false_iff in Ecase.
      destruct Hbv as [(-> & ->)|((bb & o & ->) & (t & ->))].
      + destruct Ecase as [Ec|Ec]; [|discriminate]. apply Nat.eqb_neq in Ec.
        destruct (Z.eqb_spec (Z.of_nat b') (Z.of_nat e')); [lia|]. cbn [b2z negb truth bind Z.eqb]. rewrite exec_skip, C. reflexivity.
      + destruct (Z.eqb_spec (Z.of_nat b') (Z.of_nat e')); cbn [b2z negb truth bind Z.eqb]; rewrite exec_skip, C; reflexivity.
  Qed.
End Edit.

(* ------------------------------------------------------------------ the first lbuf_opt of a buffer: hist == NULL *)
(* lbuf_make zeroes the struct: hist == NULL, hist_sz == hist_n == hist_u == 0.  The first lbuf_opt takes the growth branch with
   sz = 0 + HIST_INIT (GenConsts), allocates the array, and calls memcpy(hist, lb->hist, 0) with lb->hist == NULL: undefined by
   C11 7.24.1p2 (a null pointer argument, even for n == 0), and an error of CLite.v's memcpy.  (Harmless with every libc; the
   theorems above therefore start from a buffer whose log array exists.) *)
Theorem tr_lbuf_opt_null_hist ext (m : mem) bl (blk : block) (bufv : val) p nd d fuel : nth_error m bl = Some blk -> length blk = LBUF_CELLS ->
  nth_error blk L_hist = Some (VInt 0) -> nth_error blk L_hist_sz = Some (VInt 0) -> nth_error blk L_hist_n = Some (VInt 0) ->
  nth_error blk L_hist_u = Some (VInt 0) -> (0 < fuel)%nat ->
  callx ext cprog fuel (S (S (S (S d)))) F_lbuf_opt [VPtr bl 0; bufv; VInt p; VInt nd] m = Err EShape.
Proof.
  intros Hb L C69 C70 C71 C72 Hf. destruct fuel as [|fuel]; [lia|].
  assert (Hbl : (bl < length m)%nat) by (apply nth_error_Some; congruence).
  rewrite callx_S. cbn [nth_error cprog F_lbuf_opt cf_lbuf_opt fn_nparams fn_nlocals fn_body length Nat.eqb Nat.sub repeat app].
  xstep. xfld Hb C72. rewrite exec_for. xstep. xfld Hb C71. change (wrap I32 0 <? wrap I32 0) with false. xstep.
  xfld Hb C72. change (wrap I32 (wrap I32 0)) with 0.
  rewrite (fld_store m bl blk L_hist_n _ _ Hb) by (try reflexivity; rewrite L; unfold LBUF_CELLS, L_hist_n; lia). xstep.
  set (b1 := upd blk L_hist_n (VInt 0)).
  assert (L1 : length b1 = LBUF_CELLS) by (unfold b1; rewrite upd_length; [exact L|rewrite L; unfold LBUF_CELLS, L_hist_n; lia]).
  assert (D71 : nth_error b1 L_hist_n = Some (VInt 0)) by (unfold b1; apply nth_error_upd_same; rewrite L; unfold LBUF_CELLS, L_hist_n; lia).
  assert (D70 : nth_error b1 L_hist_sz = Some (VInt 0)) by (unfold b1; rewrite nth_error_upd_other by (try (unfold L_hist_sz, L_hist_n; lia); rewrite L; unfold LBUF_CELLS, L_hist_n; lia); exact C70).
  assert (D69 : nth_error b1 L_hist = Some (VInt 0)) by (unfold b1; rewrite nth_error_upd_other by (try (unfold L_hist, L_hist_n; lia); rewrite L; unfold LBUF_CELLS, L_hist_n; lia); exact C69).
  rewrite (fld_load_upd m bl b1 L_hist_n _ _ Hbl D71) by reflexivity. xstep.
  rewrite (fld_load_upd m bl b1 L_hist_sz _ _ Hbl D70) by reflexivity. xstep. change (wrap I32 0 =? wrap I32 0) with true. xstep.
  rewrite (fld_load_upd m bl b1 L_hist_sz _ _ Hbl D70) by reflexivity. xstep.
  rewrite (fld_load_upd m bl b1 L_hist_sz _ _ Hbl D70) by reflexivity. xstep.
  change (wrap I32 0 =? 0) with true. xstep. change (chk I32 (wrap I32 0 + 128)) with (@Ok Z 128). xstep.
  change (wrap U64 128) with 128. change (chk U64 (128 * 56)) with (@Ok Z 7168). xstep. change (chk U64 (7168 * 9)) with (@Ok Z 64512). xstep.
  change (if 56 =? 0 then Err EDivZero else chk U64 (64512 ÷ 56)) with (@Ok Z 1152). xstep. rewrite malloc_ok by lia. xstep.
  set (M := upd m bl b1 ++ [repeat VUndef (Z.to_nat 1152)]).
  assert (HM : nth_error M bl = Some b1) by (unfold M; rewrite nth_error_app_old by (rewrite upd_length by exact Hbl; exact Hbl); apply mem_upd_same; exact Hbl).
  xfld HM D69. xfld HM D71. change (wrap U64 (wrap I32 0)) with 0. change (chk U64 (0 * 56)) with (@Ok Z 0). xstep. change (chk U64 (0 * 9)) with (@Ok Z 0). xstep.
  change (if 56 =? 0 then Err EDivZero else chk U64 (0 ÷ 56)) with (@Ok Z 0). xstep. reflexivity.
Qed.
(* the array allocated on that path has HIST_INIT records (1152 cells = 9 * HIST_INIT; HIST_INIT is read from lbuf.c by tools/translate.py) *)
Lemma null_hist_alloc_is_HIST_INIT : 1152 = 9 * HIST_INIT.
Proof. reflexivity. Qed.
