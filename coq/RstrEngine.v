(* RstrEngine.v -- C12: the declarative meaning of a simple pattern (RstrDefs.spec_find) is what the
   model of the general regex engine (rset_make / rset_find of RsetDefs, over ReParse / ReEmit /
   ReVM) answers.  Part 1: character-level facts, the parser and the compiler on the wrapped
   pattern "((" ++ [^][\<]literal[\>][$] ++ "))". *)
From Coq Require Import List NArith ZArith Bool Arith Lia ZifyBool ZifyNat ZifyN.
From NV Require Import Bytes GenConsts UcDefs UcSpec UcProps UcSegProps RstrDefs RstrProps ReSyntax ReParse ReEmit ReVM RsetDefs.
Import ListNotations.
Local Open Scope N_scope.

(* ------------------------------------------------------------------------------------------ *)
(* regex.c's private uc_len on an encoded scalar followed by anything *)
Lemma re_uclen_encode c rest : scalar c -> re_uclen (encode c ++ rest) = length (encode c).
Proof.
  intro Hs. destruct (encode_shape c Hs) as [H | l t H El Et Hl Ht | l t1 t2 H El E1 E2 Hl H1 H2 | l t1 t2 t3 H El E1 E2 E3 Hl H1 H2 H3].
  - destruct (cls_ascii c ltac:(lia)) as (B1 & _ & _ & B2).
    cbn [app re_uclen length]. rewrite B2. cbn [negb]. destruct (c =? 0) eqn:E; [lia|reflexivity].
  - destruct (cls_lead2 l ltac:(lia)) as (B1 & B2 & _).
    cbn [app re_uclen length]. unfold re_ucfull. rewrite B1, B2. cbn [negb Nat.sub ucl_scan].
    destruct (t =? 0) eqn:E; [lia|reflexivity].
  - destruct (cls_lead3 l ltac:(lia)) as (B1 & B2 & B3 & _).
    cbn [app re_uclen length]. unfold re_ucfull. rewrite B1, B2, B3. cbn [negb Nat.sub ucl_scan].
    destruct (t1 =? 0) eqn:E; [lia|]. destruct (t2 =? 0) eqn:E'; [lia|reflexivity].
  - destruct (cls_lead4 l ltac:(lia)) as (B1 & B2 & B3 & B4 & _).
    cbn [app re_uclen length]. unfold re_ucfull. rewrite B1, B2, B3, B4. cbn [negb Nat.sub ucl_scan].
    destruct (t1 =? 0) eqn:E; [lia|]. destruct (t2 =? 0) eqn:E'; [lia|]. destruct (t3 =? 0) eqn:E''; [lia|reflexivity].
Qed.

Lemma hd0_app_ne (a b : bytes) : a <> [] -> hd0 (a ++ b) = hd0 a.
Proof. destruct a; [congruence|reflexivity]. Qed.

Lemma chars_nil_iff cs : Forall scalar cs -> chars cs = [] -> cs = [].
Proof.
  intros H E. destruct cs as [|c cs]; [reflexivity|]. inversion H; subst.
  rewrite chars_cons in E. pose proof (encode_nonempty c H2) as L. destruct (encode c); [cbn in L; lia|discriminate].
Qed.

(* ------------------------------------------------------------------------------------------ *)
(* the literal run of ratom_read *)
Definition nometa (l : bytes) : Prop := Forall (fun c => memb c re_meta = false /\ memb c re_rep = false) l.
Definition stopb (c : N) : Prop := memb c re_meta = true /\ memb c re_rep = false.

Lemma nometa_hd a b : nometa (a ++ b) -> a <> [] -> memb (hd0 a) re_meta = false /\ memb (hd0 a) re_rep = false.
Proof. intros H Ha. destruct a as [|x a]; [congruence|]. inversion H; subst. exact H2. Qed.

Lemma encode_ne c : scalar c -> encode c <> [].
Proof. intros H E. pose proof (encode_nonempty c H) as L. rewrite E in L. cbn in L. lia. Qed.

Lemma hd0_nz_encode c rest : scalar c -> hd0 (encode c ++ rest) <> 0.
Proof.
  intros H. destruct (encode_decomp c H) as (l & t & E & _ & _ & Hl & _). rewrite E. cbn. lia.
Qed.

Lemma chr_run_lit : forall lcs k first n rest, Forall scalar lcs -> nometa (chars lcs) -> stopb (hd0 rest) ->
  (first = true -> lcs <> []) -> (length lcs < k)%nat ->
  chr_run k first (chars lcs ++ rest) n = Ok (n + length (chars lcs))%nat.
Proof.
  induction lcs as [|c lcs IH]; intros k first n rest Hs Hm Hr Hf Hk.
  - destruct k; [lia|]. cbn [chars flat_map app chr_run length]. destruct first; [exfalso; now apply Hf|].
    destruct Hr as [Hr _]. rewrite Hr. rewrite orb_true_r. cbn [orb negb]. f_equal. lia.
  - destruct k; [lia|]. inversion Hs as [|? ? Hc Hs']; subst. rewrite chars_cons in *. rewrite <- app_assoc.
    cbn [chr_run].
    assert (Hhd : hd0 (encode c ++ chars lcs ++ rest) = hd0 (encode c)) by (apply hd0_app_ne, encode_ne, Hc).
    destruct (nometa_hd _ _ Hm (encode_ne c Hc)) as [M1 M2].
    pose proof (hd0_nz_encode c (chars lcs ++ rest) Hc) as Hnz.
    rewrite Hhd in Hnz |- *. rewrite M1. destruct (N.eqb_spec (hd0 (encode c)) 0) as [E0|E0]; [contradiction|].
    cbn [orb negb]. rewrite orb_true_r.
    rewrite re_uclen_encode by exact Hc.
    assert (Hm' : nometa (chars lcs)). { unfold nometa in *. apply Forall_app in Hm. apply Hm. }
    assert (Hadv : adv SUcLen (encode c ++ chars lcs ++ rest) (length (encode c)) = Ok (chars lcs ++ rest)).
    { unfold adv. rewrite app_length. replace (length (encode c) <=? length (encode c) + length (chars lcs ++ rest))%nat with true by (symmetry; apply Nat.leb_le; lia).
      now rewrite skipn_app_exact. }
    assert (IH' : chr_run k false (chars lcs ++ rest) (n + length (encode c)) = Ok (n + length (encode c ++ chars lcs))%nat).
    { rewrite IH; try assumption; [f_equal; rewrite app_length; lia|discriminate|cbn [length] in Hk; lia]. }
    destruct first.
    + pose proof (encode_nonempty c Hc) as Lp. destruct (Nat.eqb_spec (length (encode c)) 0); [lia|].
      rewrite Hadv. cbn [bind]. exact IH'.
    + assert (Hrd : rdk SUcLen (encode c ++ chars lcs ++ rest) (length (encode c)) = Ok (hd0 (chars lcs ++ rest))).
      { unfold rdk. rewrite nth_error_app2 by lia. rewrite Nat.sub_diag.
        destruct (chars lcs ++ rest) as [|x y] eqn:E; cbn [nth_error hd0]; [|reflexivity].
        rewrite app_length. cbn [length]. now rewrite Nat.add_0_r, Nat.eqb_refl. }
      rewrite Hrd. cbn [bind].
      assert (Hd : memb (hd0 (chars lcs ++ rest)) re_rep = false).
      { destruct (chars lcs) as [|x y] eqn:E; [apply Hr|]. inversion Hm'; subst. cbn. apply H1. }
      rewrite Hd, andb_false_r. rewrite Hadv. cbn [bind]. exact IH'.
Qed.

Lemma chr_lit_lit lcs rest : Forall scalar lcs -> lcs <> [] -> nometa (chars lcs) -> stopb (hd0 rest) ->
  chr_lit (chars lcs ++ rest) = Ok (AChr (chars lcs), rest).
Proof.
  intros Hs Hne Hm Hr. unfold chr_lit. rewrite chr_run_lit; try assumption; [|intros _; exact Hne|].
  - cbn [bind Nat.add]. now rewrite firstn_app_exact, skipn_app_exact.
  - pose proof (length_cs_le_chars lcs Hs). rewrite app_length. lia.
Qed.

(* ------------------------------------------------------------------------------------------ *)
(* tokens of the five atoms a simple pattern is made of *)
Definition tok (a : atom) : bytes :=
  match a with
  | ABeg => [94] | AWBeg => [92; 60] | AWEnd => [92; 62] | AEnd => [36] | AChr l => l
  | _ => []
  end.

Definition litok (l : bytes) : Prop := exists lcs, l = chars lcs /\ Forall scalar lcs /\ lcs <> [] /\ nometa l.

Definition atom_ok (a : atom) (next : N) : Prop :=
  match a with
  | ABeg | AWBeg | AWEnd | AEnd => memb next re_rep = false
  | AChr l => litok l /\ stopb next
  | _ => False
  end.

Fixpoint seq_ok (l : list atom) (e : N) : Prop :=
  match l with
  | [] => True
  | a :: r => atom_ok a (hd0 (flat_map tok r ++ [e])) /\ seq_ok r e
  end.

Fixpoint cat_of (l : list atom) : node :=
  match l with
  | [] => NNil
  | [a] => NAtom a 1 1
  | a :: r => NCat (NAtom a 1 1) (cat_of r)
  end.

Lemma memb_false_in c l x : memb c l = false -> In x l -> (c =? x) = false.
Proof.
  intros H Hin. destruct (N.eqb_spec c x) as [->|]; [|reflexivity].
  unfold memb in H. rewrite <- H. symmetry. apply existsb_exists. exists x. split; [exact Hin|apply N.eqb_refl].
Qed.

Lemma rep_suffix_none s : memb (hd0 s) re_rep = false -> rep_suffix s = Ok (Some (1, 1)%Z, s).
Proof.
  intro H. unfold rep_suffix. unfold memb, re_rep in H. cbn [existsb] in H.
  apply orb_false_iff in H; destruct H as [H1 H]. apply orb_false_iff in H; destruct H as [H2 H].
  apply orb_false_iff in H; destruct H as [H3 H]. apply orb_false_iff in H; destruct H as [H4 _].
  rewrite H1, H2. cbn [orb]. cbv beta iota. rewrite H3. cbv beta iota. rewrite H4. reflexivity.
Qed.

Lemma litok_hd l rest : litok l -> hd0 (l ++ rest) <> 0 /\ memb (hd0 (l ++ rest)) re_meta = false.
Proof.
  intros (lcs & -> & Hs & Hne & Hm). destruct lcs as [|c lcs]; [congruence|]. inversion Hs; subst.
  rewrite chars_cons in *. rewrite <- app_assoc. split; [apply hd0_nz_encode; assumption|].
  rewrite hd0_app_ne by (apply encode_ne; assumption). eapply nometa_hd; [exact Hm|apply encode_ne; assumption].
Qed.

Lemma ratom_read_tok a rest : atom_ok a (hd0 rest) -> ratom_read (tok a ++ rest) = Ok (a, rest).
Proof.
  destruct a as [l| |l| | | |]; cbn [atom_ok tok]; intro H; try contradiction; try reflexivity.
  destruct H as [Hl Hr]. destruct (litok_hd l rest Hl) as [Hnz Hm].
  destruct Hl as (lcs & -> & Hs & Hne & Hmm).
  assert (E : ratom_read (chars lcs ++ rest) = chr_lit (chars lcs ++ rest)).
  { destruct (chars lcs ++ rest) as [|c r] eqn:Es; [reflexivity|]. cbn [hd0] in *. unfold ratom_read.
    rewrite (memb_false_in c re_meta 46 Hm), (memb_false_in c re_meta 94 Hm), (memb_false_in c re_meta 36 Hm),
      (memb_false_in c re_meta 91 Hm), (memb_false_in c re_meta 92 Hm) by (cbn; tauto). reflexivity. }
  rewrite E. apply chr_lit_lit; assumption.
Qed.

Lemma tok_hd a rest : atom_ok a (hd0 rest) ->
  hd0 (tok a ++ rest) <> 0 /\ hd0 (tok a ++ rest) <> 124 /\ hd0 (tok a ++ rest) <> 41 /\ hd0 (tok a ++ rest) <> 40.
Proof.
  destruct a as [l| |l| | | |]; cbn [atom_ok tok]; intro H; try contradiction; cbn [app hd0]; try lia.
  destruct H as [Hl _]. destruct (litok_hd l rest Hl) as [Hnz Hm].
  pose proof (memb_false_in _ re_meta 124 Hm ltac:(cbn; tauto)). pose proof (memb_false_in _ re_meta 41 Hm ltac:(cbn; tauto)).
  pose proof (memb_false_in _ re_meta 40 Hm ltac:(cbn; tauto)). lia.
Qed.

Section Seq.
  Variable parse : bytes -> ReSyntax.res (option node * bytes)%type.

  Lemma rnode_atom_tok a rest : atom_ok a (hd0 rest) -> memb (hd0 rest) re_rep = false ->
    rnode_atom parse (tok a ++ rest) = Ok (Some (NAtom a 1 1), rest).
  Proof.
    intros H Hr. destruct (tok_hd a rest H) as (H0 & H1 & H2 & H3). unfold rnode_atom.
    destruct (N.eqb_spec (hd0 (tok a ++ rest)) 0); [contradiction|].
    destruct (N.eqb_spec (hd0 (tok a ++ rest)) 124); [contradiction|].
    destruct (N.eqb_spec (hd0 (tok a ++ rest)) 41); [contradiction|].
    destruct (N.eqb_spec (hd0 (tok a ++ rest)) 40); [contradiction|]. cbn [orb].
    rewrite ratom_read_tok by exact H. cbn [bind fst snd]. rewrite rep_suffix_none by exact Hr. reflexivity.
  Qed.

  Lemma atom_ok_rep a c : atom_ok a c -> memb c re_rep = false.
  Proof. destruct a; cbn; try tauto. intros [_ [_ H]]. exact H. Qed.

  Lemma rnode_atom_close r : rnode_atom parse (41 :: r) = Ok (None, 41 :: r).
  Proof. reflexivity. Qed.

  Lemma rnode_seq_atoms : forall l f r, seq_ok l 41 -> (length l < f)%nat ->
    rnode_seq parse f (flat_map tok l ++ 41 :: r) = Ok (match l with [] => None | _ => Some (cat_of l) end, 41 :: r).
  Proof.
    induction l as [|a l IH]; intros f r Hok Hf; (destruct f as [|f]; [lia|]).
    - cbn [flat_map app rnode_seq]. rewrite rnode_atom_close. reflexivity.
    - cbn [flat_map rnode_seq]. rewrite <- app_assoc. destruct Hok as [Ha Hok].
      assert (Hhd : hd0 (flat_map tok l ++ [41]) = hd0 (flat_map tok l ++ 41 :: r)).
      { destruct (flat_map tok l); reflexivity. }
      rewrite Hhd in Ha.
      rewrite rnode_atom_tok; [|exact Ha|eapply atom_ok_rep; exact Ha]. cbn [bind].
      rewrite IH; [|exact Hok|cbn [length] in Hf; lia]. cbn [bind].
      destruct l; reflexivity.
  Qed.

  Lemma rnode_grp_some s1 x s2 : hd0 s1 <> 41 -> parse s1 = Ok (Some x, 41 :: s2) ->
    rnode_grp parse (40 :: s1) = Ok (Some (NGrp x 0 1 1), s2).
  Proof.
    intros H E. unfold rnode_grp. cbn [hd0 tl]. destruct (N.eqb_spec (hd0 s1) 41); [contradiction|].
    cbn [negb N.eqb Pos.eqb]. rewrite E. cbn [bind hd0 tl N.eqb Pos.eqb negb]. reflexivity.
  Qed.
  Lemma rnode_grp_nil s2 : rnode_grp parse (40 :: 41 :: s2) = Ok (Some (NGrp NNil 0 1 1), s2).
  Proof. reflexivity. Qed.

  Lemma rnode_atom_grp s1 g s2 : rnode_grp parse (40 :: s1) = Ok (Some g, s2) -> memb (hd0 s2) re_rep = false ->
    rnode_atom parse (40 :: s1) = Ok (Some (set_rep g 1 1), s2).
  Proof.
    intros E H. unfold rnode_atom. cbn [hd0 N.eqb Pos.eqb orb]. rewrite E. cbn [bind]. rewrite rep_suffix_none by exact H. reflexivity.
  Qed.

  Lemma rnode_seq_single f s x s2 : rnode_atom parse s = Ok (Some x, 41 :: s2) ->
    rnode_seq parse (S (S f)) s = Ok (Some x, 41 :: s2).
  Proof. intro E. cbn [rnode_seq]. rewrite E. cbn [bind]. rewrite rnode_atom_close. reflexivity. Qed.
End Seq.

Lemma rnode_parse_of_seq f s x s1 : rnode_seq (rnode_parse f) f s = Ok (x, s1) -> hd0 s1 <> 124 ->
  rnode_parse (S f) s = Ok (x, s1).
Proof.
  intros E H. cbn [rnode_parse]. rewrite E. cbn [bind]. destruct (N.eqb_spec (hd0 s1) 124); [contradiction|]. reflexivity.
Qed.

(* ---- the flag re_bad stays clear ---- *)
Lemma rep_bad_none s : memb (hd0 s) re_rep = false -> rep_bad s = false.
Proof. intro H. unfold rep_bad. now rewrite rep_suffix_none. Qed.

Section SeqBad.
  Variable parse : bytes -> ReSyntax.res (option node * bytes)%type.
  Variable pbad : bytes -> bool.

  Lemma atom_bad_tok a rest : atom_ok a (hd0 rest) -> memb (hd0 rest) re_rep = false ->
    rnode_atom_bad parse pbad (tok a ++ rest) = false.
  Proof.
    intros H Hr. destruct (tok_hd a rest H) as (H0 & H1 & H2 & H3). unfold rnode_atom_bad.
    destruct (N.eqb_spec (hd0 (tok a ++ rest)) 0); [contradiction|].
    destruct (N.eqb_spec (hd0 (tok a ++ rest)) 124); [contradiction|].
    destruct (N.eqb_spec (hd0 (tok a ++ rest)) 41); [contradiction|].
    destruct (N.eqb_spec (hd0 (tok a ++ rest)) 40); [contradiction|]. cbn [orb].
    rewrite ratom_read_tok by exact H. cbn [snd]. apply rep_bad_none, Hr.
  Qed.

  Lemma seq_bad_atoms : forall l f r, seq_ok l 41 ->
    rnode_seq_bad parse pbad f (flat_map tok l ++ 41 :: r) = false.
  Proof.
    induction l as [|a l IH]; intros f r Hok; (destruct f as [|f]; [reflexivity|]).
    - cbn [flat_map app rnode_seq_bad]. rewrite rnode_atom_close. reflexivity.
    - cbn [flat_map rnode_seq_bad]. rewrite <- app_assoc. destruct Hok as [Ha Hok].
      assert (Hhd : hd0 (flat_map tok l ++ [41]) = hd0 (flat_map tok l ++ 41 :: r)).
      { destruct (flat_map tok l); reflexivity. }
      rewrite Hhd in Ha.
      assert (Hr : memb (hd0 (flat_map tok l ++ 41 :: r)) re_rep = false) by (apply (atom_ok_rep parse a _ Ha)).
      rewrite (rnode_atom_tok parse a _ Ha Hr).
      rewrite (atom_bad_tok a _ Ha Hr). cbn [orb]. apply IH. exact Hok.
  Qed.

  Lemma grp_bad_some s1 x s2 : hd0 s1 <> 41 -> parse s1 = Ok (Some x, 41 :: s2) -> pbad s1 = false ->
    rnode_grp_bad parse pbad (40 :: s1) = false.
  Proof.
    intros H E Hb. unfold rnode_grp_bad. cbn [hd0 tl]. destruct (N.eqb_spec (hd0 s1) 41); [contradiction|].
    cbn [negb N.eqb Pos.eqb]. rewrite E, Hb. reflexivity.
  Qed.

  Lemma atom_bad_grp s1 g s2 : rnode_grp parse (40 :: s1) = Ok (Some g, s2) ->
    rnode_grp_bad parse pbad (40 :: s1) = false -> memb (hd0 s2) re_rep = false ->
    rnode_atom_bad parse pbad (40 :: s1) = false.
  Proof.
    intros E Hb H. unfold rnode_atom_bad. cbn [hd0 N.eqb Pos.eqb orb]. rewrite E, Hb. cbn [orb]. apply rep_bad_none, H.
  Qed.

  Lemma seq_bad_single f s x s2 : rnode_atom parse s = Ok (Some x, 41 :: s2) ->
    rnode_atom_bad parse pbad s = false -> rnode_seq_bad parse pbad f s = false.
  Proof.
    intros E Hb. destruct f as [|f]; [reflexivity|]. cbn [rnode_seq_bad]. rewrite E, Hb. cbn [orb].
    destruct f as [|f]; [reflexivity|]. cbn [rnode_seq_bad]. rewrite rnode_atom_close. reflexivity.
  Qed.
End SeqBad.

Lemma parse_bad_of_seq f s x s1 : rnode_seq (rnode_parse f) f s = Ok (x, s1) -> hd0 s1 <> 124 ->
  rnode_seq_bad (rnode_parse f) (rnode_parse_bad f) f s = false -> rnode_parse_bad (S f) s = false.
Proof.
  intros E H Hb. cbn [rnode_parse_bad]. rewrite E, Hb. destruct (N.eqb_spec (hd0 s1) 124); [contradiction|]. reflexivity.
Qed.

(* the wrapped pattern of rset_make parses to two nested groups around the atom sequence, completely,
   and the flag re_bad is not set *)
Lemma parse_wrap_both l f : seq_ok l 41 -> (length l < f)%nat ->
  rnode_parse (S (S (S (S (S f))))) ([40; 40] ++ flat_map tok l ++ [41; 41]) =
  Ok (Some (NGrp (NGrp (cat_of l) 0 1 1) 0 1 1), []) /\
  rnode_parse_bad (S (S (S (S (S f))))) ([40; 40] ++ flat_map tok l ++ [41; 41]) = false.
Proof.
  intros Hok Hf.
  (* innermost: the atom sequence followed by "))" *)
  assert (SeqI : rnode_seq (rnode_parse (S (S f))) (S (S f)) (flat_map tok l ++ [41; 41]) =
                 Ok (match l with [] => None | _ => Some (cat_of l) end, [41; 41])).
  { apply (rnode_seq_atoms _ l (S (S f)) [41] Hok). lia. }
  assert (Inner : flat_map tok l <> [] ->
            rnode_parse (S (S (S f))) (flat_map tok l ++ [41; 41]) = Ok (Some (cat_of l), [41; 41])).
  { intro Hne. apply rnode_parse_of_seq; [|cbn; lia].
    rewrite SeqI. destruct l; [cbn in Hne; congruence|reflexivity]. }
  assert (InnerB : rnode_parse_bad (S (S (S f))) (flat_map tok l ++ [41; 41]) = false).
  { eapply parse_bad_of_seq; [exact SeqI|cbn; lia|]. apply (seq_bad_atoms _ _ l _ [41] Hok). }
  assert (Hhd : forall c t, flat_map tok l = c :: t -> c <> 41).
  { intros c t E. destruct l as [|a l]; [discriminate|]. cbn [flat_map] in E.
    destruct Hok as [Ha _]. pose proof (tok_hd a (flat_map tok l ++ [41])) as T.
    assert (hd0 (tok a ++ flat_map tok l ++ [41]) = c).
    { rewrite app_assoc, E. reflexivity. }
    rewrite H in T. apply T. exact Ha. }
  assert (G2 : rnode_grp (rnode_parse (S (S (S f)))) (40 :: flat_map tok l ++ [41; 41]) = Ok (Some (NGrp (cat_of l) 0 1 1), [41])).
  { destruct (flat_map tok l) as [|c t] eqn:E in |- *.
    - destruct l as [|a l]; [reflexivity|]. exfalso. cbn [flat_map] in E. apply app_eq_nil in E. destruct E as [E _].
      destruct Hok as [Ha _]. destruct a; cbn in E, Ha; try discriminate; try contradiction.
      destruct Ha as [(lcs & -> & Hs & Hne & _) _]. apply Hne. apply chars_nil_iff; assumption.
    - rewrite <- E. apply rnode_grp_some; [|apply Inner; rewrite E; discriminate].
      rewrite E. cbn [app hd0]. eapply Hhd. exact E. }
  assert (G2B : rnode_grp_bad (rnode_parse (S (S (S f)))) (rnode_parse_bad (S (S (S f)))) (40 :: flat_map tok l ++ [41; 41]) = false).
  { destruct (flat_map tok l) as [|c t] eqn:E in |- *; [reflexivity|].
    rewrite <- E. eapply grp_bad_some; [|apply Inner; rewrite E; discriminate|exact InnerB].
    rewrite E. cbn [app hd0]. eapply Hhd. exact E. }
  pose proof (rnode_atom_grp _ _ _ _ G2 eq_refl) as A2. cbn [set_rep] in A2.
  pose proof (atom_bad_grp _ _ _ _ _ G2 G2B eq_refl) as A2B.
  pose proof (rnode_seq_single _ (S f) _ _ _ A2) as Seq2.
  assert (P2 : rnode_parse (S (S (S (S f)))) (40 :: flat_map tok l ++ [41; 41]) = Ok (Some (NGrp (cat_of l) 0 1 1), [41])).
  { apply rnode_parse_of_seq; [exact Seq2|cbn; lia]. }
  assert (P2B : rnode_parse_bad (S (S (S (S f)))) (40 :: flat_map tok l ++ [41; 41]) = false).
  { eapply parse_bad_of_seq; [exact Seq2|cbn; lia|]. eapply seq_bad_single; [exact A2|exact A2B]. }
  cbn [app]. change [41; 41] with ([41] ++ [41]) in *.
  assert (G1 : rnode_grp (rnode_parse (S (S (S (S f))))) (40 :: 40 :: flat_map tok l ++ [41] ++ [41]) = Ok (Some (NGrp (NGrp (cat_of l) 0 1 1) 0 1 1), [])).
  { apply rnode_grp_some; [cbn; lia|]. exact P2. }
  assert (G1B : rnode_grp_bad (rnode_parse (S (S (S (S f))))) (rnode_parse_bad (S (S (S (S f))))) (40 :: 40 :: flat_map tok l ++ [41] ++ [41]) = false).
  { eapply grp_bad_some; [cbn; lia|exact P2|exact P2B]. }
  pose proof (rnode_atom_grp _ _ _ _ G1 eq_refl) as A1. cbn [set_rep] in A1.
  pose proof (atom_bad_grp _ _ _ _ _ G1 G1B eq_refl) as A1B.
  assert (Seq1 : rnode_seq (rnode_parse (S (S (S (S f))))) (S (S (S (S f)))) (40 :: 40 :: flat_map tok l ++ [41] ++ [41]) =
                 Ok (Some (NGrp (NGrp (cat_of l) 0 1 1) 0 1 1), [])).
  { cbn [rnode_seq]. rewrite A1. cbn [bind]. reflexivity. }
  split.
  - apply rnode_parse_of_seq; [exact Seq1|cbn; lia].
  - eapply parse_bad_of_seq; [exact Seq1|cbn; lia|].
    cbn [rnode_seq_bad]. rewrite A1, A1B. reflexivity.
Qed.

Lemma parse_wrap l f : seq_ok l 41 -> (length l < f)%nat ->
  rnode_parse (S (S (S (S (S f))))) ([40; 40] ++ flat_map tok l ++ [41; 41]) =
  Ok (Some (NGrp (NGrp (cat_of l) 0 1 1) 0 1 1), []).
Proof. intros H1 H2. apply (parse_wrap_both l f H1 H2). Qed.
Lemma parse_wrap_bad l f : seq_ok l 41 -> (length l < f)%nat ->
  rnode_parse_bad (S (S (S (S (S f))))) ([40; 40] ++ flat_map tok l ++ [41; 41]) = false.
Proof. intros H1 H2. apply (parse_wrap_both l f H1 H2). Qed.

(* ------------------------------------------------------------------------------------------ *)
(* the atoms of a simple pattern *)
Definition atoms_of (sp : spat) : list atom :=
  (if p_lbeg sp then [ABeg] else []) ++ (if p_wbeg sp then [AWBeg] else []) ++
  (match p_lit sp with [] => [] | _ => [AChr (p_lit sp)] end) ++
  (if p_wend sp then [AWEnd] else []) ++ (if p_lend sp then [AEnd] else []).

Lemma atoms_string sp : flat_map tok (atoms_of sp) = spat_string sp.
Proof.
  destruct sp as [b1 b2 lit b3 b4]. unfold atoms_of, spat_string. cbn [p_lbeg p_wbeg p_lit p_wend p_lend].
  destruct b1, b2, b3, b4, lit; cbn; rewrite ?app_nil_r; reflexivity.
Qed.

Lemma atoms_len sp : (length (atoms_of sp) <= 5)%nat /\ (length (atoms_of sp) <= length (spat_string sp))%nat.
Proof.
  destruct sp as [b1 b2 lit b3 b4]. unfold atoms_of, spat_string. cbn [p_lbeg p_wbeg p_lit p_wend p_lend].
  destruct b1, b2, b3, b4, lit; cbn [app length]; rewrite ?app_length; cbn [length]; lia.
Qed.

Definition lit_valid (lit : bytes) : Prop := exists lcs, lit = chars lcs /\ Forall scalar lcs.

Lemma litok_of lit : lit_valid lit -> nometa lit -> lit <> [] -> litok lit.
Proof.
  intros (lcs & -> & Hs) Hm Hne. exists lcs. repeat split; try assumption. intros ->. apply Hne. reflexivity.
Qed.

Lemma atoms_seq_ok sp : lit_valid (p_lit sp) -> nometa (p_lit sp) -> seq_ok (atoms_of sp) 41.
Proof.
  destruct sp as [b1 b2 lit b3 b4]. unfold atoms_of. cbn [p_lbeg p_wbeg p_lit p_wend p_lend]. intros Hv Hm.
  destruct lit as [|x lit].
  - destruct b1, b2, b3, b4; cbn; tauto.
  - assert (Hl : litok (x :: lit)) by (apply litok_of; [assumption|assumption|discriminate]).
    assert (Hx : memb x re_rep = false) by (inversion Hm; subst; tauto).
    destruct b1, b2, b3, b4; cbn [app seq_ok flat_map tok hd0 atom_ok]; unfold stopb; repeat split; try exact Hl; try exact Hx; reflexivity.
Qed.

(* ------------------------------------------------------------------------------------------ *)
(* re_groupcount of a simple pattern is 0 *)
Lemma gcount_lit lit : forall rest n dep, Forall (fun c => memb c re_meta = false) lit ->
  gcount (lit ++ rest) 0 n dep = gcount rest 0 n dep.
Proof.
  induction lit as [|c lit IH]; intros rest n dep H; [reflexivity|]. inversion H; subst.
  cbn [app gcount].
  rewrite (memb_false_in c re_meta 92 H2), (memb_false_in c re_meta 91 H2), (memb_false_in c re_meta 40 H2),
    (memb_false_in c re_meta 41 H2) by (cbn; tauto).
  apply IH. assumption.
Qed.

Lemma groupcount_opt_simple sp : nometa (p_lit sp) -> re_groupcount_opt (spat_string sp) = Some 0%nat.
Proof.
  destruct sp as [b1 b2 lit b3 b4]. unfold spat_string, re_groupcount_opt. cbn [p_lbeg p_wbeg p_lit p_wend p_lend]. intro Hm.
  assert (Hm' : Forall (fun c => memb c re_meta = false) lit) by (eapply Forall_impl; [|exact Hm]; cbn; tauto).
  assert (T : gcount (lit ++ (if b3 then [92; 62] else []) ++ (if b4 then [36] else [])) 0 0 0 = Some 0%nat).
  { rewrite gcount_lit by exact Hm'. destruct b3, b4; reflexivity. }
  destruct b1, b2; cbn [app gcount N.eqb Pos.eqb andb hd0 negb]; exact T.
Qed.
Lemma groupcount_simple sp : nometa (p_lit sp) -> re_groupcount (spat_string sp) = 0%nat.
Proof. intro H. unfold re_groupcount. now rewrite groupcount_opt_simple. Qed.

(* ------------------------------------------------------------------------------------------ *)
(* compilation *)
Lemma rep_count_11 n : (0 <= n < NINST)%Z -> rep_count n 1 1 = n.
Proof.
  intro H. unfold rep_count, rep_raw, sat. cbn [Z.eqb andb Pos.eqb]. unfold NINST in *.
  destruct (1048576 <? 0)%Z eqn:E; [reflexivity|]. destruct (n <? 1048576)%Z eqn:E'; lia.
Qed.

Lemma count_cat l : (length l <= 5)%nat -> count (cat_of l) = Z.of_nat (length l).
Proof.
  induction l as [|a l IH]; intro H; [reflexivity|]. cbn [length] in H.
  destruct l as [|b l]; [reflexivity|].
  change (cat_of (a :: b :: l)) with (NCat (NAtom a 1 1) (cat_of (b :: l))). cbn [count].
  rewrite IH by lia. rewrite (rep_count_11 1) by (unfold NINST; lia). rewrite rep_count_11; [cbn [length]; lia|].
  unfold NINST. cbn [length] in *. lia.
Qed.

Lemma grpnum_cat l : forall num, grpnum (cat_of l) num = (cat_of l, 0%nat).
Proof.
  induction l as [|a l IH]; intro num; [reflexivity|]. destruct l as [|b l]; [reflexivity|].
  change (cat_of (a :: b :: l)) with (NCat (NAtom a 1 1) (cat_of (b :: l))). cbn [grpnum].
  rewrite IH. reflexivity.
Qed.

Lemma emit_cat l : forall b, emit_n (cat_of l) b = map IAtom l.
Proof.
  induction l as [|a l IH]; intro b; [reflexivity|]. destruct l as [|c l]; [reflexivity|].
  change (cat_of (a :: c :: l)) with (NCat (NAtom a 1 1) (cat_of (c :: l))). cbn [emit_n].
  rewrite IH. reflexivity.
Qed.

Definition simple_code (l : list atom) : list instr :=
  [IMark 0; IMark 2; IMark 4] ++ map IAtom l ++ [IMark 5; IMark 3; IMark 1; IMatch].

Definition simple_tree (l : list atom) : node := NGrp (NGrp (cat_of l) 2 1 1) 1 1 1.

Definition simple_rset (l : list atom) (cflg : Z) : rset :=
  {| rs_prog := {| code := simple_code l; reserve := Z.of_nat (length l) + 7; tree := simple_tree l |};
     rs_cflg := cflg; rs_n := 1; rs_grp := [2%Z; 3%Z]; rs_setgrpcnt := [0%nat]; rs_grpcnt := 3 |}.

Lemma regcomp_wrap l : seq_ok l 41 -> (length l <= 5)%nat -> (length l <= length (flat_map tok l))%nat ->
  regcomp ([40; 40] ++ flat_map tok l ++ [41; 41]) =
  Ok (Some {| code := simple_code l; reserve := Z.of_nat (length l) + 7; tree := simple_tree l |}).
Proof.
  intros Hok H5 Hlen. unfold regcomp, parse_pat, parse_bad, parse_fuel.
  replace (2 * length ([40; 40]%N ++ flat_map tok l ++ [41; 41]%N) + 2)%nat
    with (S (S (S (S (S (2 * length (flat_map tok l) + 5)))))) by (rewrite !app_length; cbn [length]; lia).
  rewrite parse_wrap by (try assumption; lia). cbn [bind fst snd].
  rewrite parse_wrap_bad by (try assumption; lia). cbn [orb negb].
  assert (C : count (NGrp (NGrp (cat_of l) 0 1 1) 0 1 1) = (Z.of_nat (length l) + 4)%Z).
  { cbn [count]. rewrite count_cat by assumption. rewrite (rep_count_11 (Z.of_nat (length l) + 2)) by (unfold NINST; lia). rewrite rep_count_11 by (unfold NINST; lia). lia. }
  rewrite C.
  destruct ((0 <=? NINST)%Z && (NINST <=? Z.of_nat (length l) + 4 + 3)%Z) eqn:E; [unfold NINST in E; lia|].
  cbn [grpnum]. rewrite grpnum_cat. cbn [fst].
  do 3 f_equal; [|lia].
  cbn [emit_n]. unfold emit_rep. cbn [Z.eqb Pos.eqb andb]. rewrite emit_cat. unfold simple_code. cbn [app Nat.mul Nat.add]. 
  rewrite <- !app_assoc. reflexivity.
Qed.

Lemma rset_make_simple sp flg : lit_valid (p_lit sp) -> nometa (p_lit sp) ->
  rset_make [Some (spat_string sp)] flg =
  Ok (Some (simple_rset (atoms_of sp) (if has flg RE_ICASE then REG_ICASE else 0%Z))).
Proof.
  intros Hv Hm. unfold rset_make. cbn [rset_build length Nat.ltb Nat.leb somes existsb].
  rewrite groupcount_opt_simple by exact Hm. cbn [orb].
  rewrite groupcount_simple by exact Hm.
  replace (([40] ++ [40] ++ spat_string sp ++ [41]) ++ [41]) with ([40; 40] ++ flat_map tok (atoms_of sp) ++ [41; 41])
    by (rewrite atoms_string; cbn [app]; rewrite <- app_assoc; reflexivity).
  destruct (atoms_len sp) as [L5 Ll].
  rewrite regcomp_wrap; [|apply atoms_seq_ok; assumption|exact L5|rewrite atoms_string; exact Ll].
  cbn [bind]. unfold simple_rset. reflexivity.
Qed.
