(* TrRegexCompile.v -- regcomp of /repo/regex.c on the translated C text (part 5 of the compiler side): for EVERY pattern string in memory
   and EVERY value the static flag re_bad had before the call, the C text returns what the threaded model ReStateDefs.regcomp_st says
   (= the pure ReEmit.regcomp and the flag a function of the pattern alone: C11_regcomp_ignores_stale_flag):
   * rejected: 1 is returned and every block the call allocated with malloc is freed again (the one-cell block the translator makes for
     the address-taken parameter `pat` stays, as do -- on the success path -- the `int jmpend[NREPS]` blocks of rnode_emit: C locals);
   * accepted: 0 is returned, *preg points to a struct regex {p, n, flg} whose array holds the model's program (code_ok), the parse tree
     is freed.  The array has rnode_count + 3 instructions: that every store of the emission lands inside it is the hypothesis
     b + nlen t <= N of TrRegexEmit3.emit_ok, discharged here from ReProps2.emit_fits (C11_emit_fits). *)
From Coq Require Import List ZArith NArith Bool Lia.
From NV Require Import Bytes GenConsts ReSyntax ReParse ReEmit ReVM ReSem RsetDefs ReStateDefs ReStateProps ReProps ReProps2 ReProps3 ReCountBound
  CLite CLiteProps GenCFuncs CLiteTac CLiteExt TrRegex TrRegexAtom TrRegexComp TrRegexParse TrRegexCount TrRegexEmit TrRegexEmit2 TrRegexEmit3.
Import ListNotations.
Local Open Scope Z_scope.

(* ------------------------------------------------------------------ what the emitter needs, from what the parser gives *)
Fixpoint mxlow (t : node) : Prop :=
  match t with
  | NNil => True
  | NAtom _ _ mx => -2147483648 <= mx
  | NGrp x _ _ mx => -2147483648 <= mx /\ mxlow x
  | NCat x y | NAlt x y => mxlow x /\ mxlow y
  end.
Lemma tree_in_mxlow (m : mem) t : forall lo hi p, tree_in m t lo hi p -> mxlow t.
Proof.
  induction t as [|a mn mx|x IHx g mn mx|x IHx y IHy|x IHx y IHy]; intros lo hi p H; cbn [tree_in mxlow] in *; auto.
  - destruct H as [_ [_ [I2 _]]]. apply I2.
  - destruct H as [b [px [_ [_ [I2 [_ [Hx _]]]]]]]. split; [apply I2|eapply IHx; exact Hx].
  - destruct H as [k [b [px [py [_ [Hx [Hy _]]]]]]]. split; [eapply IHx; exact Hx|eapply IHy; exact Hy].
  - destruct H as [k [b [px [py [_ [Hx [Hy _]]]]]]]. split; [eapply IHx; exact Hx|eapply IHy; exact Hy].
Qed.
Lemma atoms_ok_grpnum pat t : forall num, atoms_ok pat t -> atoms_ok pat (fst (grpnum t num)).
Proof.
  induction t as [|a mn mx|x IHx g mn mx|x IHx y IHy|x IHx y IHy]; intros num H; cbn [grpnum atoms_ok fst] in *; auto.
  - specialize (IHx (num + 1)%nat H). destruct (grpnum x (num + 1)). exact IHx.
  - destruct H as [Hx Hy]. specialize (IHx num Hx). destruct (grpnum x num) as [x' k1]. specialize (IHy (num + k1)%nat Hy). destruct (grpnum y (num + k1)). split; assumption.
  - destruct H as [Hx Hy]. specialize (IHx num Hx). destruct (grpnum x num) as [x' k1]. specialize (IHy (num + k1)%nat Hy). destruct (grpnum y (num + k1)). split; assumption.
Qed.
Lemma height_grpnum t : forall num, height (fst (grpnum t num)) = height t.
Proof.
  induction t as [|a mn mx|x IHx g mn mx|x IHx y IHy|x IHx y IHy]; intro num; cbn [grpnum height fst]; auto.
  - specialize (IHx (num + 1)%nat). destruct (grpnum x (num + 1)). cbn [fst height] in *. lia.
  - specialize (IHx num). destruct (grpnum x num) as [x' k1]. specialize (IHy (num + k1)%nat). destruct (grpnum y (num + k1)). cbn [fst height] in *. lia.
  - specialize (IHx num). destruct (grpnum x num) as [x' k1]. specialize (IHy (num + k1)%nat). destruct (grpnum y (num + k1)). cbn [fst height] in *. lia.
Qed.
(* the tree after rnode_grpnum is what rnode_emit can emit *)
Lemma eok_grpnum pat t : forall num, bd_node t -> mxlow t -> atoms_ok pat t -> Z.of_nat (length pat) < 2147483647 ->
  Z.of_nat (2 * (num + ngrp t) + 1) <= 2147483647 -> eok (fst (grpnum t num)).
Proof.
  induction t as [|a mn mx|x IHx g mn mx|x IHx y IHy|x IHx y IHy]; intros num Hb Hl Ha Hp Hg; cbn [grpnum eok fst bd_node mxlow atoms_ok ngrp] in *; auto.
  - destruct Hb as [[W1 W2] [B1 B2]]. unfold NREPS in *. split; [unfold repok; lia|]. destruct Ha as [Ha _].
    destruct (ra_str a) as [s|]; [|exact I]. destruct Ha as [A1 A2]. split; [exact A1|lia].
  - destruct Hb as [[[W1 W2] [B1 B2]] Hbx]. destruct Hl as [Hl Hlx]. unfold NREPS in *.
    specialize (IHx (num + 1)%nat Hbx Hlx Ha Hp ltac:(lia)). destruct (grpnum x (num + 1)) as [x' k]. cbn [fst eok].
    split; [unfold repok; lia|]. split; [lia|exact IHx].
  - destruct Hb as [Hbx Hby]. destruct Hl as [Hlx Hly]. destruct Ha as [Hax Hay].
    pose proof (grpnum_snd x num) as S1. specialize (IHx num Hbx Hlx Hax Hp ltac:(lia)). destruct (grpnum x num) as [x' k1]. cbn [snd fst] in *.
    specialize (IHy (num + k1)%nat Hby Hly Hay Hp ltac:(lia)). destruct (grpnum y (num + k1)) as [y' k2]. cbn [fst eok]. split; assumption.
  - destruct Hb as [Hbx Hby]. destruct Hl as [Hlx Hly]. destruct Ha as [Hax Hay].
    pose proof (grpnum_snd x num) as S1. specialize (IHx num Hbx Hlx Hax Hp ltac:(lia)). destruct (grpnum x num) as [x' k1]. cbn [snd fst] in *.
    specialize (IHy (num + k1)%nat Hby Hly Hay Hp ltac:(lia)). destruct (grpnum y (num + k1)) as [y' k2]. cbn [fst eok]. split; assumption.
Qed.
(* the threaded parser and the pure one *)
Lemma parse_st_some f s st t s' st' : rnode_parse_st f s st = ReSyntax.Ok ((Some t, s'), st') -> rnode_parse f s = ReSyntax.Ok (Some t, s').
Proof. rewrite parse_st_pure. destruct (rnode_parse f s) as [[r s1]| |]; cbn [lift]; intro H; try discriminate. injection H as -> -> _. reflexivity. Qed.

(* a quantified fact the arithmetic procedures need not look into *)
Definition Hide (P : Prop) : Prop := P.
Ltac hide H := match type of H with ?T => change (Hide T) in H end.

(* ------------------------------------------------------------------ regcomp *)
Definition compiled (m' : mem) (bpreg : nat) (cflg : Z) (P : list instr) (lo : nat) : Prop :=
  exists bre bp cells, nth_error m' bpreg = Some [VPtr bre 0] /\ nth_error m' bre = Some [VPtr bp 0; VInt (Z.of_nat (length P)); VInt cflg] /\
    nth_error m' bp = Some cells /\ code_ok m' cells lo (length m') 0 P /\ (lo <= bre)%nat /\ (lo <= bp)%nat /\ bre <> bp /\ (bre < length m')%nat /\ (bp < length m')%nat.

Section Regcomp.
  Variables (m : mem) (bl : nat) (pat : bytes) (bpreg : nat) (pv : val) (cflg : Z) (st0 : bool) (fuel : nat).
  Hypothesis Hs : str_at m bl pat.
  Hypothesis Hnn : nonul pat.
  Hypothesis Hpreg : nth_error m bpreg = Some [pv].
  Hypothesis Hbad : bad_at m st0.
  Hypothesis Hl : lits_at m.
  Hypothesis Hgl : (length cglobals <= length m)%nat.
  Hypothesis Nlb : bl <> G_re_bad.
  Hypothesis Hgp : (length cglobals <= bpreg)%nat.
  Hypothesis Hflg : i32 cflg.
  Hypothesis Hmax : Z.of_nat (length pat) < 1073741820.
  Hypothesis Hf : (length pat + 2 <= fuel)%nat.
  Hypothesis Hfu : (130 < fuel)%nat.

  Let bpp := length m.
  Let m2 : mem := m ++ [[VPtr bl 0]].
  Let m3 : mem := upd m2 G_re_bad [VInt 0].
  Let Lbl : (bl < length m)%nat. Proof. eapply nth_lt; exact Hs. Qed.
  Let Lpreg : (bpreg < length m)%nat. Proof. eapply nth_lt; exact Hpreg. Qed.
  Let Lg : (G_re_bad < length m)%nat. Proof. pose proof G_re_bad_lt. lia. Qed.
  Let L2 : length m2 = S (length m). Proof. unfold m2. rewrite app_length. cbn [length]. lia. Qed.
  Let L3 : length m3 = S (length m). Proof. unfold m3. rewrite upd_length by lia. exact L2. Qed.

  Lemma pm3 : pmem bl pat bpp m3 0 false.
  Proof.
    pose proof G_meta_lt. pose proof G_rep_lt. pose proof G_re_bad_lt. destruct Hl as [A B].
    assert (G_meta <> G_re_bad) by (vm_compute; discriminate). assert (G_rep <> G_re_bad) by (vm_compute; discriminate).
    split; [split; [unfold str_at, m3, m2; mnth; exact Hs|split; [unfold m3, m2, bpp; mnth; reflexivity|lia]]|].
    split; [unfold bad_at, m3; apply mem_upd_same; lia|]. split; unfold m3, m2; mnth; assumption.
  Qed.

  (* the start of regcomp: the cell for &pat, re_bad = 0, rnode_parse *)
  Definition rc_tail : stmt := match fn_body cf_regcomp with SSeq _ (SSeq _ (SSeq _ (SSeq _ t))) => t | _ => SSkip end.
  Lemma rc_head d r s' st' : (4 * length pat + 9 <= d)%nat ->
    rnode_parse_st (parse_fuel pat) pat false = ReSyntax.Ok ((r, s'), st') ->
    exists v m4, ppost bl pat bpp m3 0 r s' st' v m4 /\
      callf cprog fuel (S d) F_regcomp [VPtr bpreg 0; VPtr bl 0; VInt cflg] m
      = match exec (callf cprog fuel d) fuel rc_tail (mkst [VPtr bpreg 0; VPtr bl 0; VInt cflg; VPtr bpp 0; v; VUndef; VUndef; VUndef] m4) with
        | OReturn v0 st => Ok (v0, memm st) | ONormal st => Ok (VUndef, memm st) | OErr x => Err x | _ => Err EShape end.
  Proof.
    intros Hd Ep.
    destruct (parse_ok bl pat bpp fuel Hnn ltac:(unfold bpp; lia) Nlb ltac:(unfold bpp; lia) ltac:(lia) Hf ltac:(lia) (parse_fuel pat) m3 0%nat false d r s' st' pm3
                ltac:(unfold rem; lia) Ep) as [v [m4 [C4 P4]]].
    exists v, m4. split; [exact P4|].
    enter F_regcomp cf_regcomp.
    match goal with |- context [SSeq (SExpr (ESetLocal 4 (ECall F_rnode_parse _))) ?tl] => change tl with rc_tail; remember rc_tail as tail eqn:Etail end.
    xs. rewrite malloc_ok by lia. xs. change (Z.to_nat 1) with 1%nat. cbn [repeat].
    xst (nth_error_app_new m [VUndef]). xs. rewrite upd_app_new. fold m2.
    assert (Hb2 : nth_error m2 G_re_bad = Some [VInt (b2z st0)]) by (unfold m2; rewrite nth_error_app_old by lia; exact Hbad).
    xst Hb2. xs. fold m3. fold bpp. rewrite C4. xs. reflexivity.
  Qed.

  Definition rc_result (res : option prog) (st1 : bool) (m' : mem) : Prop :=
    bad_at m' st1 /\ (length m < length m')%nat /\
    (forall j, (j < length m)%nat -> j <> G_re_bad -> j <> bpreg -> nth_error m' j = nth_error m j) /\
    (exists o, nth_error m' (length m) = Some [VPtr bl o]) /\
    match res with
    | Some p => compiled m' bpreg cflg (code p) (S (length m)) /\ atoms_ok pat (tree p) /\ eok (tree p)
    | None => nth_error m' bpreg = Some [pv] /\ dead m' (S (length m)) (length m')
    end.

  Theorem tr_regcomp d res st1 : (4 * length pat + 12 <= d)%nat -> regcomp_st pat st0 = (ReSyntax.Ok res, st1) ->
    exists m', callf cprog fuel d F_regcomp [VPtr bpreg 0; VPtr bl 0; VInt cflg] m = Ok (VInt (match res with Some _ => 0 | None => 1 end), m') /\
      rc_result res st1 m'.
  Proof.
    intros Hd Hr. unfold regcomp_st, regcomp_gen in Hr.
    destruct (rnode_parse_st (parse_fuel pat) pat false) as [[[r s'] st']| |] eqn:Ep; try (injection Hr as Hr _; discriminate Hr).
    destruct d as [|d]; [lia|].
    destruct (rc_head d r s' st' ltac:(lia) Ep) as [v [m4 [P4 C]]]. rewrite C. clear C.
    destruct P4 as [o' [Es' [_ [Hm4 [B4 [Ll4 [T4 [Ne4 [A4 [Hh4 Hg4]]]]]]]]]]. rewrite L3 in *.
    pose proof Hm4 as [[Hs4 [Hp4 Ho4]] [Hb4 Hl4]].
    assert (F4 : forall j, (j < length m)%nat -> j <> G_re_bad -> nth_error m4 j = nth_error m j).
    { intros j Hj Nj. rewrite B4 by (try lia; unfold bpp; lia). unfold m3, m2. mnth. reflexivity. }
    assert (Hpreg4 : nth_error m4 bpreg = Some [pv]) by (rewrite F4 by (pose proof G_re_bad_lt; lia); exact Hpreg).
    hide F4. hide B4.
    unfold rc_tail. cbn [fn_body cf_regcomp].
    destruct r as [t|]; cbn [of_opt] in *.
    2:{ (* nothing parsed: return 1 *)
      injection Hr as <- <-. cbn [tree_in] in T4. destruct T4 as [-> [_ D4]]. xs.
      exists m4. split; [reflexivity|]. split; [exact Hb4|]. split; [lia|]. split; [intros j Hj N1 N2; apply F4; assumption|].
      split; [eexists; exact Hp4|]. split; [exact Hpreg4|exact D4]. }
    destruct (tree_in_ptr _ _ _ _ _ T4 Ne4) as [bt ->].
    pose proof (parse_st_some _ _ _ _ _ _ Ep) as Epure.
    pose proof (rnode_parse_bd _ _ _ _ Epure) as Hbd. pose proof (parse_count_safe _ _ _ _ Epure) as Hcs.
    pose proof (parse_count_range _ _ _ _ Epure) as Hcr. unfold NINST in Hcr.
    assert (Hht : (height t <= length pat)%nat) by lia.
    (* a rejected tree: rnode_free(rnode); return 1 *)
    destruct (tr_rnode_free fuel t m4 (S (length m)) (length m4) (VPtr bt 0) d T4 Ne4 ltac:(lia)) as [m5 [C5 [D5 [L5 F5]]]].
    assert (Rj : rc_result None st' m5).
    { split; [unfold bad_at; rewrite F5 by lia; exact Hb4|]. split; [lia|].
      split; [intros j Hj N1 N2; rewrite F5 by lia; apply F4; assumption|].
      split; [eexists; rewrite F5 by (unfold bpp in *; lia); exact Hp4|]. split; [rewrite F5 by lia; exact Hpreg4|rewrite L5; exact D5]. }
    hide F5. hide D5.
    pose proof Hb4 as Hb4'. unfold bad_at in Hb4'. xs. xld Hb4'. xs. rewrite (wrap_I32_id (b2z st')) by (destruct st'; cbn; lia). rewrite ?nb2z.
    destruct st'; cbn [orb] in Hr.
    { injection Hr as <- <-. xs. rewrite C5. xs. exists m5. split; [reflexivity|exact Rj]. }
    xs. xld Hp4. xs. rewrite (load_str m4 bl pat _ o' Hs4 eq_refl Ho4). xs. fold_sx.
    pose proof (nthb_lt256 pat o' (nonul_lt256 pat Hnn)) as H8. rewrite (sx_eq_0 _ H8).
    assert (Erest : (match s' with [] => true | _ :: _ => false end) = (nthb pat o' =? 0)%N).
    { rewrite Es'. destruct (Nat.eq_dec o' (length pat)) as [E|E].
      - rewrite skipn_end by lia. rewrite nthb_end by lia. reflexivity.
      - rewrite (skipn_cons_nthb pat o') by lia. rewrite nonul_nz by (auto; lia). reflexivity. }
    rewrite Erest in Hr.
    destruct (nthb pat o' =? 0)%N eqn:Ez; cbn [negb b2z] in *; xs.
    2:{ injection Hr as <- <-. rewrite C5. xs. exists m5. split; [reflexivity|exact Rj]. }
    (* n = rnode_count(rnode) + 3 *)
    rewrite (tr_rnode_count fuel t m4 (S (length m)) (length m4) (VPtr bt 0) d T4 Hcs ltac:(lia)). xs.
    rewrite (chk_I32 (count t + 3)) by lia. xs. unfold NINST in Hr. change (0 <=? 1048576) with true in Hr. cbn [andb] in Hr.
    destruct (Z.leb_spec 1048576 (count t + 3)) as [Lbig|Lbig]; xs.
    { injection Hr as <- <-. rewrite C5. xs. exists m5. split; [reflexivity|exact Rj]. }
    (* accepted *)
    injection Hr as <- <-. cbn [code].
    set (t' := fst (grpnum t 1)) in *.
    pose proof (emit_fits t (bd_node_wf t Hbd)) as Hfits. unfold fits, NINST in Hfits.
    assert (Hnl : Z.of_nat (nlen t) <= count t) by (destruct Hfits as [F|[_ F]]; lia).
    set (Nn := Z.to_nat (count t + 3)).
    assert (HNn : Z.of_nat Nn = count t + 3) by (unfold Nn; lia).
    assert (HN : Z.of_nat Nn <= 1048576) by lia.
    assert (Hnl' : (nlen t' + 3 <= Nn)%nat) by (unfold t'; rewrite grpnum_nlen; lia).
    assert (Hok' : eok t') by (apply (eok_grpnum pat); [exact Hbd|eapply tree_in_mxlow; exact T4|exact A4|lia|lia]).
    assert (Hh' : height t' = height t) by apply height_grpnum.
    do 3 (destruct d as [|d]; [lia|]).
    (* rnode_grpnum(rnode, 1) *)
    destruct (tr_rnode_grpnum fuel t m4 (S (length m)) (length m4) (VPtr bt 0) 1%nat (S (S (S d))) T4 ltac:(lia) ltac:(lia)) as [m6 [C6 [T6 [L6 [F6 _]]]]].
    fold t' in T6. change (Z.of_nat 1) with 1 in C6. rewrite C6. xs.
    hide F6.
    (* re = malloc; memset; re->p = malloc; memset *)
    rewrite malloc_ok by lia. xs. change (Z.to_nat 3) with 3%nat.
    rewrite (memset_ok _ (length m6) 0 0 3 (repeat VUndef 3)) by (try apply nth_error_app_new; cbn [repeat length]; lia). xs. rewrite upd_app_new.
    change (put_cells (repeat VUndef 3) (Z.to_nat 0) (repeat (VInt 0) (Z.to_nat 3))) with [VInt 0; VInt 0; VInt 0].
    set (bre := length m6). set (bp := S (length m6)).
    assert (Eq6 : ((count t + 3) * 32 * 6) ÷ 32 = Z.of_nat (6 * Nn)) by (replace ((count t + 3) * 32 * 6) with ((count t + 3) * 6 * 32) by ring; rewrite Z.quot_mul by lia; lia).
    rewrite (wrap_U64_id (count t + 3)) by lia. rewrite (chk_U64 ((count t + 3) * 32)) by lia. xs. rewrite (chk_U64 ((count t + 3) * 32 * 6)) by lia. xs.
    rewrite Eq6. rewrite (chk_U64 (Z.of_nat (6 * Nn))) by lia. xs. rewrite malloc_ok by lia. xs. rewrite Nat2Z.id.
    assert (Hre0 : nth_error ((m6 ++ [[VInt 0; VInt 0; VInt 0]]) ++ [repeat VUndef (6 * Nn)]) bre = Some [VInt 0; VInt 0; VInt 0]).
    { rewrite nth_error_app_old by (rewrite app_length; cbn [length]; unfold bre; lia). apply nth_error_app_new. }
    xst Hre0. xs.
    rewrite app_length. cbn [length]. replace (length m6 + 1)%nat with bp by (unfold bp; lia).
    set (m7a := upd ((m6 ++ [[VInt 0; VInt 0; VInt 0]]) ++ [repeat VUndef (6 * Nn)]) bre [VPtr bp 0; VInt 0; VInt 0]).
    assert (Hre7a : nth_error m7a bre = Some [VPtr bp 0; VInt 0; VInt 0]) by (unfold m7a; apply mem_upd_same; rewrite !app_length; cbn [length]; unfold bre; lia).
    assert (Hbp7a : nth_error m7a bp = Some (repeat VUndef (6 * Nn))).
    { unfold m7a. rewrite mem_upd_other by (try (rewrite !app_length; cbn [length]; unfold bre; lia); unfold bre, bp; lia).
      replace bp with (length (m6 ++ [[VInt 0; VInt 0; VInt 0]])) by (rewrite app_length; cbn [length]; unfold bp; lia). apply nth_error_app_new. }
    xld Hre7a. xs. rewrite (wrap_U64_id (count t + 3)) by lia. rewrite (chk_U64 ((count t + 3) * 32)) by lia. xs. rewrite (chk_U64 ((count t + 3) * 32 * 6)) by lia. xs.
    rewrite Eq6. rewrite (chk_U64 (Z.of_nat (6 * Nn))) by lia. xs.
    rewrite (memset_ok m7a bp 0 0 (Z.of_nat (6 * Nn)) (repeat VUndef (6 * Nn)) Hbp7a) by (rewrite ?repeat_length; lia). xs.
    change (Z.to_nat 0) with 0%nat. rewrite Nat2Z.id. rewrite put_cells_0. rewrite skipn_all2 by (rewrite !repeat_length; lia). rewrite app_nil_r.
    set (cells0 := repeat (VInt 0) (6 * Nn)). set (m7 := upd m7a bp cells0).
    assert (Lm7 : length m7 = S (S (length m6))) by (unfold m7, m7a; rewrite !upd_length by (rewrite ?upd_length by (rewrite !app_length; cbn [length]; unfold bre; lia); rewrite !app_length; cbn [length]; unfold bp; lia); rewrite !app_length; cbn [length]; lia).
    assert (Nbp : bre <> bp) by (unfold bre, bp; lia).
    assert (E7 : est bre bp Nn m7 0 cells0).
    { split; [unfold m7; rewrite mem_upd_other by (try (unfold m7a; rewrite upd_length by (rewrite !app_length; cbn [length]; unfold bre; lia); rewrite !app_length; cbn [length]; unfold bp; lia); exact Nbp); exact Hre7a|].
      split; [unfold m7; apply mem_upd_same; unfold m7a; rewrite upd_length by (rewrite !app_length; cbn [length]; unfold bre; lia); rewrite !app_length; cbn [length]; unfold bp; lia|].
      unfold cells0. apply repeat_length. }
    assert (F7 : forall j, (j < length m6)%nat -> nth_error m7 j = nth_error m6 j).
    { intros j Hj. unfold m7, m7a. rewrite !mem_upd_other by (try (rewrite ?upd_length by (rewrite !app_length; cbn [length]; unfold bre; lia); rewrite !app_length; cbn [length]; unfold bre, bp; lia); unfold bre, bp; lia).
      rewrite !nth_error_app_old by (rewrite ?app_length; cbn [length]; lia). reflexivity. }
    clearbody m7 cells0. clear Hre7a Hbp7a Hre0. clearbody m7a.
    hide F7.
    assert (Lm64 : length m6 = length m4) by exact L6.
    assert (Fr6 : forall j, (j < S (length m))%nat -> nth_error m6 j = nth_error m4 j) by (intros j Hj; apply F6; lia).
    hide Fr6.
    (* MARK 0 *)
    destruct (ins_field bre bp Nn fuel Nbp HN Hfu m7 0 cells0 109 5 0 (S (S d)) E7 ltac:(lia) ltac:(unfold i32; lia) ltac:(lia) ltac:(lia))
      as [m8 [m9 [cA [cB [C8 [E8 [S9 [E9 [L9 [F9 [K91 [K92 [K93 [F8 L8]]]]]]]]]]]]]].
    hide F9. hide K93. hide F8.
    rewrite C8. xs. rewrite (ld_p bre bp Nn Nbp _ _ _ E8). xs. change (0 + 6 * Z.of_nat 0 + 1 * 5) with (Z.of_nat (6 * 0 + 5)). rewrite S9. xs.
    (* rnode_emit(rnode, re) *)
    assert (T9 : tree_in m9 t' (S (length m)) (length m4) (VPtr bt 0)).
    { apply (tree_in_same m6); [exact T6|]. intros j Hj. rewrite F9 by (unfold bre, bp; lia). apply F7. lia. }
    destruct (emit_ok bre bp Nn fuel Nbp HN Hfu t' m9 (S (length m)) (length m4) (VPtr bt 0) 1%nat cB (S (S (S d))) T9 Hok' E9 ltac:(lia) ltac:(unfold bre; lia) ltac:(unfold bp; lia) ltac:(lia))
      as [m10 [C10 P10]].
    rewrite C10. xs. destruct P10 as [c10 [E10 [G10 [K10 [L10 M10]]]]].
    hide G10. hide K10. hide M10.
    rewrite (emit_n_length t' (eok_wf t' Hok')) in E10. set (q := (1 + nlen t')%nat) in *.
    (* MARK 1, MATCH *)
    destruct (ins_field bre bp Nn fuel Nbp HN Hfu m10 q c10 109 5 1 (S (S d)) E10 ltac:(unfold q; lia) ltac:(unfold i32; lia) ltac:(lia) ltac:(lia))
      as [m11 [m12 [cC [cD [C11 [E11 [S12 [E12 [L12 [F12 [K121 [K122 [K123 [F11 L11]]]]]]]]]]]]]].
    hide F12. hide K123. hide F11.
    rewrite C11. xs. rewrite (ld_p bre bp Nn Nbp _ _ _ E11). xs. replace (0 + 6 * Z.of_nat q + 1 * 5) with (Z.of_nat (6 * q + 5)) by lia. rewrite S12. xs.
    destruct (tr_re_insert bre bp Nn fuel Nbp HN m12 (S q) cD 113 (S (S d)) E12 ltac:(unfold q; lia) ltac:(unfold i32; lia)) as [C13 E13].
    rewrite C13. xs. set (cE := upd cD (6 * S q + 2) (VInt 113)) in *. set (m13 := upd (upd m12 bre [VPtr bp 0; VInt (Z.of_nat (S (S q))); VInt 0]) bp cE) in *.
    (* rnode_free(rnode) *)
    destruct (est_lt _ _ _ _ _ _ E12) as [B121 B122]. pose proof E12 as [_ [_ ClD]].
    assert (L13 : length m13 = length m12) by (unfold m13; mlen).
    assert (F13 : forall j, j <> bre -> j <> bp -> nth_error m13 j = nth_error m12 j) by (intros j N1 N2; unfold m13; mnth; reflexivity).
    hide F13.
    assert (Low13 : forall j, (j < length m6)%nat -> nth_error m13 j = nth_error m6 j).
    { intros j Hj. rewrite F13 by (unfold bre, bp; lia). rewrite F12 by (unfold bre, bp; lia). rewrite M10 by (try lia; unfold bre, bp; lia).
      rewrite F9 by (unfold bre, bp; lia). apply F7. exact Hj. }
    hide Low13.
    assert (Hbp13 : nth_error m13 bp = Some cE) by (unfold m13; apply mem_upd_same; mlen).
    assert (Hre13 : nth_error m13 bre = Some [VPtr bp 0; VInt (Z.of_nat (S (S q))); VInt 0]) by (unfold m13; mnth; reflexivity).
    assert (EcE1 : forall j, j <> (6 * S q + 2)%nat -> nth_error cE j = nth_error cD j) by (intros j Nj; unfold cE; apply nth_upd_other; lia).
    assert (EcE2 : nth_error cE (6 * S q + 2) = Some (VInt 113)) by (unfold cE; apply nth_upd_same; lia).
    clearbody m13 cE. clear C8 C10 C11 C13 S9 S12.
    hide EcE1.
    assert (T13 : tree_in m13 t' (S (length m)) (length m4) (VPtr bt 0)) by (apply (tree_in_same m6); [exact T6|intros j Hj; apply Low13; lia]).
    assert (Ne' : t' <> NNil) by (unfold t'; destruct t; cbn; try congruence; repeat match goal with |- context [grpnum ?a ?b] => destruct (grpnum a b) end; discriminate).
    destruct (tr_rnode_free fuel t' m13 (S (length m)) (length m4) (VPtr bt 0) (S (S (S d))) T13 Ne' ltac:(lia)) as [m14 [C14 [D14 [L14 F14]]]].
    rewrite C14. xs.
    hide D14. hide F14.
    (* re->flg = flg; *preg = re; return 0 *)
    assert (Hre14 : nth_error m14 bre = Some [VPtr bp 0; VInt (Z.of_nat (S (S q))); VInt 0]) by (rewrite F14 by (unfold bre; lia); exact Hre13).
    xst Hre14. xs. rewrite (wrap_I32_id cflg Hflg).
    set (m15 := upd m14 bre [VPtr bp 0; VInt (Z.of_nat (S (S q))); VInt cflg]).
    assert (Hpreg15 : nth_error m15 bpreg = Some [pv]).
    { unfold m15. rewrite mem_upd_other by (try lia; unfold bre; lia). rewrite F14 by lia. rewrite Low13 by lia. rewrite F6 by lia. exact Hpreg4. }
    xst Hpreg15. xs.
    eexists. split; [reflexivity|]. cbn [memm].
    set (m16 := upd m15 bpreg [VPtr bre 0]).
    assert (L15 : length m15 = length m14) by (unfold m15; apply upd_length; rewrite L14, L13; exact B121).
    assert (L16 : length m16 = length m15) by (unfold m16; apply upd_length; rewrite L15, L14, L13, L12; lia).
    assert (Lall : (S (S (length m6)) <= length m10)%nat /\ length m12 = length m10) by (split; [rewrite <- Lm7, <- L9; exact L10|exact L12]).
    destruct Lall as [La Lb].
    assert (G16 : forall j, (j < length m4)%nat -> j <> bpreg -> (j < S (length m) \/ length m4 <= j)%nat -> nth_error m16 j = nth_error m4 j).
    { intros j Hj N1 Hout. unfold m16, m15. rewrite mem_upd_other by (try (rewrite ?upd_length by lia; lia); exact N1). rewrite mem_upd_other by (try lia; unfold bre; lia).
      rewrite F14 by lia. rewrite Low13 by lia. apply F6. lia. }
    assert (EcD : forall j, j <> (6 * q + 2)%nat -> j <> (6 * q + 5)%nat -> j <> (6 * S q + 2)%nat -> nth_error cE j = nth_error c10 j).
    { intros j N1 N2 N3. rewrite EcE1 by exact N3. apply K123; assumption. }
    assert (Hi16 : forall j, (length m7 <= j < length m10)%nat -> nth_error m16 j = nth_error m10 j).
    { intros j Hj. unfold m16, m15. rewrite mem_upd_other by (try (rewrite ?upd_length by lia; lia); lia). rewrite mem_upd_other by (try lia; unfold bre; lia).
      rewrite F14 by lia. rewrite F13 by (unfold bre, bp; lia). apply F12; unfold bre, bp; lia. }
    pose proof G_re_bad_lt as Glt.
    split; [unfold bad_at; rewrite G16 by lia; exact Hb4|]. split; [lia|].
    split; [intros j Hj N1 N2; rewrite G16 by lia; apply F4; assumption|].
    split; [eexists; rewrite G16 by (unfold bpp in *; lia); exact Hp4|].
    split; [|split; [cbn [tree]; apply atoms_ok_grpnum; exact A4|cbn [tree]; exact Hok']].
    exists bre, bp, cE.
    split; [unfold m16; apply mem_upd_same; lia|].
    split.
    { unfold m16. rewrite mem_upd_other by (first [lia | unfold bre; lia]). unfold m15. rewrite mem_upd_same by lia.
      cbn [code app length]. rewrite app_length, (emit_n_length t' (eok_wf t' Hok')). cbn [length]. repeat f_equal. unfold q. lia. }
    split.
    { unfold m16. rewrite mem_upd_other by (first [lia | unfold bp; lia]). unfold m15. rewrite mem_upd_other by (first [lia | exact (not_eq_sym Nbp)]).
      rewrite F14 by (unfold bp; lia). exact Hbp13. }
    split.
    { cbn [code]. change (IMark 0 :: emit_n t' 1 ++ [IMark 1; IMatch]) with ([IMark 0] ++ emit_n t' 1 ++ [IMark 1; IMatch]). apply (code_ok_app bre bp Nn Nbp); [apply code_ok_one|apply (code_ok_app bre bp Nn Nbp)].
      - split; [rewrite EcD by (unfold q; lia); rewrite G10 by lia; exact K91|rewrite EcD by (unfold q; lia); rewrite G10 by lia; exact K92].
      - cbn [length]. apply (code_ok_same bre bp Nn Nbp m10 m16 c10 cE (length m9) (length m10)); [exact K10| | |lia|lia].
        + intros j Hj. apply Hi16. lia.
        + intros j Hj. rewrite (emit_n_length t' (eok_wf t' Hok')) in Hj. apply EcD; unfold q; lia.
      - replace (0 + length [IMark 0] + length (emit_n t' 1))%nat with q by (rewrite (emit_n_length t' (eok_wf t' Hok')); cbn [length]; unfold q; lia). intros k i Hk.
        destruct k as [|[|k]]; cbn [nth_error] in Hk; [| |destruct k; discriminate Hk]; injection Hk as <-.
        + rewrite Nat.add_0_r. split; [rewrite EcE1 by lia; exact K121|rewrite EcE1 by lia; exact K122].
        + replace (q + 1)%nat with (S q) by lia. split; [exact EcE2|exact I]. }
    split; [unfold bre; lia|]. split; [unfold bp; lia|]. split; [exact Nbp|]. split; lia.
  Qed.
End Regcomp.