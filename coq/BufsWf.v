(* BufsWf.v -- well-formedness invariant of the buffer table (C20): the ids of the occupied slots are
   pairwise distinct, positive and at most bufs_cnt, the occupied slots form a prefix of the 16 slots.
   Preserved by every command (wf_step), established by ex_init (wf_init).  Lemmas and proofs only. *)
From Coq Require Import List ZArith NArith Bool Lia Permutation Arith.
From NV Require Import GenConsts BufsDefs BufsProps.
Import ListNotations.

(* ---------- lists of optional ids: a prefix of Some, then None ---------- *)
Definition PF (ks : list Z) (m : nat) : list (option Z) := map Some ks ++ repeat None m.
Definition isn (x : option Z) : bool := match x with None => true | Some _ => false end.

Lemma repeat_snoc {A} (a : A) n : repeat a n ++ [a] = repeat a (S n).
Proof. induction n as [|n IH]; cbn; [reflexivity|]. f_equal. exact IH. Qed.
Lemma nth_error_repeat' {A} (a : A) n i x : nth_error (repeat a n) i = Some x -> x = a.
Proof. revert i. induction n as [|n IH]; intros [|i] H; cbn in H; try discriminate; [congruence|]. eapply IH; eauto. Qed.
Lemma nth_error_map' {A B} (f : A -> B) l i : nth_error (map f l) i = option_map f (nth_error l i).
Proof. revert i. induction l as [|x l IH]; intros [|i]; cbn; auto. Qed.

Lemma map_repeat' {A B} (f : A -> B) a n : map f (repeat a n) = repeat (f a) n.
Proof. induction n; cbn; congruence. Qed.
Lemma PF_length ks m : length (PF ks m) = (length ks + m)%nat.
Proof. unfold PF. rewrite app_length, map_length, repeat_length. reflexivity. Qed.
Lemma PF_nth_some ks m i x : nth_error (PF ks m) i = Some (Some x) <-> nth_error ks i = Some x.
Proof.
  unfold PF. destruct (lt_dec i (length ks)) as [H|H].
  - rewrite nth_error_app1 by (rewrite map_length; exact H). rewrite nth_error_map'.
    destruct (nth_error ks i); cbn; split; intro E; congruence.
  - rewrite nth_error_app2 by (rewrite map_length; lia). split; intro E.
    + apply nth_error_repeat' in E. discriminate.
    + assert (i < length ks)%nat by (apply nth_error_Some; congruence). lia.
Qed.
Lemma PF_nth_none ks m i : nth_error (PF ks m) i = Some None <-> (length ks <= i < length ks + m)%nat.
Proof.
  split; intro H.
  - assert (i < length (PF ks m))%nat by (apply nth_error_Some; congruence). rewrite PF_length in H0.
    split; [|exact H0]. destruct (le_dec (length ks) i); auto. exfalso.
    destruct (nth_error ks i) as [x|] eqn:E; [|apply nth_error_None in E; lia].
    apply (PF_nth_some ks m) in E. congruence.
  - unfold PF. rewrite nth_error_app2 by (rewrite map_length; lia). rewrite map_length.
    destruct (nth_error (repeat None m) (i - length ks)) as [y|] eqn:E.
    + apply nth_error_repeat' in E. congruence.
    + apply nth_error_None in E. rewrite repeat_length in E. lia.
Qed.

Lemma switch_map {A B} (f : A -> B) l idx : map f (switch l idx) = switch (map f l) idx.
Proof.
  unfold switch. rewrite nth_error_map'. destruct (nth_error l idx); cbn [option_map]; [|reflexivity].
  cbn [map]. rewrite map_app, firstn_map, skipn_map. reflexivity.
Qed.
Lemma switch_app {A} (l r : list A) idx : (idx < length l)%nat -> switch (l ++ r) idx = switch l idx ++ r.
Proof.
  intro H. unfold switch. rewrite nth_error_app1 by exact H.
  destruct (nth_error l idx) eqn:E; [|apply nth_error_None in E; lia].
  rewrite firstn_app, skipn_app. replace (idx - length l)%nat with 0%nat by lia. replace (S idx - length l)%nat with 0%nat by lia.
  cbn [firstn skipn]. rewrite app_nil_r. cbn. rewrite <- app_assoc. reflexivity.
Qed.
Lemma switch_PF ks m idx : (idx < length ks)%nat -> switch (PF ks m) idx = PF (switch ks idx) m.
Proof. intro H. unfold PF. rewrite switch_app by (rewrite map_length; exact H). rewrite switch_map. reflexivity. Qed.

Lemma set_nth_PF_end ks m x : set_nth (PF ks (S m)) (length ks) (Some x) = PF (ks ++ [x]) m.
Proof. induction ks as [|k ks IH]; cbn; [reflexivity|]. f_equal. exact IH. Qed.
Lemma set_nth_map {A B} (f : A -> B) l i x : set_nth (map f l) i (f x) = map f (set_nth l i x).
Proof. revert i. induction l as [|y l IH]; intros [|i]; cbn; auto. f_equal. apply IH. Qed.
Lemma set_nth_split {A} (l : list A) i x : (i < length l)%nat -> set_nth l i x = firstn i l ++ x :: skipn (S i) l.
Proof. revert i. induction l as [|y l IH]; intros [|i] H; cbn in *; try lia; [reflexivity|]. f_equal. apply IH. lia. Qed.
Lemma nth_split' {A} (l : list A) i : (i < length l)%nat -> exists y, l = firstn i l ++ y :: skipn (S i) l.
Proof. revert i. induction l as [|z l IH]; intros [|i] H; cbn in *; try lia; [eexists; reflexivity|]. destruct (IH i ltac:(lia)) as [y Hy]. exists y. f_equal. exact Hy. Qed.

Lemma NoDup_set_nth (l : list Z) i x : NoDup l -> ~ In x l -> NoDup (set_nth l i x).
Proof.
  intros Hn Hx. destruct (lt_dec i (length l)) as [H|H].
  - rewrite set_nth_split by exact H. destruct (nth_split' l i H) as [y Hy].
    rewrite Hy in Hn. apply NoDup_remove_1 in Hn.
    eapply Permutation_NoDup; [apply Permutation_middle|]. constructor; [|exact Hn].
    intro Hin. apply Hx. rewrite Hy. apply in_app_or in Hin. apply in_or_app. destruct Hin; [left|right; right]; assumption.
  - replace (set_nth l i x) with l; [exact Hn|]. clear -H. revert i H. induction l as [|y l IH]; intros [|i] H; cbn in *; try lia; auto. f_equal. apply IH. lia.
Qed.
Lemma Forall_set_nth {A} (Q : A -> Prop) l i x : Forall Q l -> Q x -> Forall Q (set_nth l i x).
Proof. intros Hl Hx. revert i. induction Hl; intros [|i]; cbn; auto. Qed.

Lemma first_idx_PF ks m k : first_idx isn (firstn k (PF ks m)) = if (length ks <? k)%nat && (0 <? m)%nat then Some (length ks) else None.
Proof.
  revert k. induction ks as [|x ks IH]; intro k.
  - cbn [length PF map app]. destruct k; [reflexivity|]. destruct m; reflexivity.
  - destruct k; [reflexivity|]. cbn [PF map app firstn first_idx isn length]. change (map Some ks ++ repeat None m) with (PF ks m). rewrite IH.
    change (S (length ks) <? S k)%nat with (length ks <? k)%nat. destruct ((length ks <? k)%nat && (0 <? m)%nat); reflexivity.
Qed.

Fixpoint upfrom (n : Z) (k : nat) : list Z := match k with O => [] | S k' => (n + 1)%Z :: upfrom (n + 1) k' end.
Lemma upfrom_length n k : length (upfrom n k) = k.
Proof. revert n. induction k; intro n; cbn; auto. Qed.
Lemma upfrom_range k : forall n x, In x (upfrom n k) -> (n < x <= n + Z.of_nat k)%Z.
Proof. induction k as [|k IH]; intros n x H; cbn in H; [destruct H|]. destruct H as [<-|H]; [lia|]. apply IH in H. lia. Qed.
Lemma upfrom_nodup k : forall n, NoDup (upfrom n k).
Proof. induction k as [|k IH]; intro n; cbn; constructor; [|apply IH]. intro H. apply upfrom_range in H. lia. Qed.
Lemma upfrom_nth k : forall n i, (i < k)%nat -> nth_error (upfrom n k) i = Some (n + 1 + Z.of_nat i)%Z.
Proof. induction k as [|k IH]; intros n i H; [lia|]. destruct i; cbn [upfrom nth_error]; [f_equal; lia|]. rewrite IH by lia. f_equal. lia. Qed.

Definition wfl (l : list (option Z)) (n : Z) : Prop :=
  (0 <= n)%Z /\ exists ks, l = PF ks (NB - length ks) /\ (length ks <= NB)%nat /\ NoDup ks /\ Forall (fun i => 0 < i <= n)%Z ks.

Lemma NB_pos : (0 < NB)%nat. Proof. vm_compute. lia. Qed.

Lemma wfl_switch l n idx : wfl l n -> nth_error l idx <> Some None -> wfl (switch l idx) n.
Proof.
  intros (H0 & ks & -> & Hl & Hn & Hb) Hocc. split; [exact H0|]. destruct (lt_dec idx (length ks)) as [H|H].
  - exists (switch ks idx). rewrite switch_length. split; [apply switch_PF; exact H|]. split; [exact Hl|].
    split; [eapply Permutation_NoDup; [symmetry; apply switch_perm|exact Hn]|].
    eapply Permutation_Forall; [symmetry; apply switch_perm|exact Hb].
  - exists ks. split; [|auto]. apply switch_oob. destruct (nth_error (PF ks (NB - length ks)) idx) as [[x|]|] eqn:E; auto.
    + apply PF_nth_some in E. assert (idx < length ks)%nat by (apply nth_error_Some; congruence). lia.
    + congruence.
Qed.
Lemma wfl_mono l n n' : (n <= n')%Z -> wfl l n -> wfl l n'.
Proof. intros H (H0 & ks & E & Hl & Hn & Hb). split; [lia|]. exists ks. repeat split; auto. eapply Forall_impl; [|exact Hb]. cbn. intros; lia. Qed.

(* allocating id n+1 in the slot that bufs_findroom chooses *)
Definition room (l : list (option Z)) : nat :=
  match first_idx isn (firstn (NB - 1) l) with Some i => i | None => (NB - 1)%nat end.
Lemma wfl_alloc l n : wfl l n -> wfl (set_nth l (room l) (Some (n + 1)%Z)) (n + 1) /\ nth_error (set_nth l (room l) (Some (n + 1)%Z)) (room l) = Some (Some (n + 1)%Z).
Proof.
  intros (H0 & ks & -> & Hl & Hn & Hb). pose proof NB_pos as NBp.
  assert (Hfresh : ~ In (n + 1)%Z ks).
  { intro Hin. rewrite Forall_forall in Hb. apply Hb in Hin. lia. }
  assert (Hb' : Forall (fun i => 0 < i <= n + 1)%Z ks) by (eapply Forall_impl; [|exact Hb]; cbn; intros; lia).
  split.
  2:{ apply nth_error_set_nth_eq. rewrite PF_length. unfold room. rewrite first_idx_PF.
      destruct ((length ks <? NB - 1)%nat && (0 <? NB - length ks)%nat) eqn:E; [|lia].
      apply andb_true_iff in E. destruct E as [E _]. apply Nat.ltb_lt in E. lia. }
  split; [lia|]. unfold room. rewrite first_idx_PF.
  destruct ((length ks <? NB - 1)%nat && (0 <? NB - length ks)%nat) eqn:E.
  - apply andb_true_iff in E. destruct E as [E _]. apply Nat.ltb_lt in E.
    exists (ks ++ [(n + 1)%Z]). rewrite app_length. cbn [length].
    replace (NB - length ks)%nat with (S (NB - (length ks + 1)))%nat by lia. rewrite set_nth_PF_end.
    split; [reflexivity|]. split; [lia|]. split.
    + eapply Permutation_NoDup; [apply Permutation_cons_append|]. constructor; assumption.
    + apply Forall_app. split; [exact Hb'|]. constructor; [lia|constructor].
  - destruct (Nat.eq_dec (length ks) NB) as [Hfull|Hnf].
    + (* all 16 slots occupied: slot 15 is replaced *)
      exists (set_nth ks (NB - 1) (n + 1)%Z). rewrite set_nth_length. rewrite Hfull, Nat.sub_diag. unfold PF. cbn [repeat]. rewrite !app_nil_r.
      split; [apply set_nth_map|]. split; [lia|]. split; [apply NoDup_set_nth; assumption|].
      apply Forall_set_nth; [exact Hb'|]. lia.
    + (* exactly slot 15 is free *)
      assert (length ks = NB - 1)%nat.
      { apply andb_false_iff in E. destruct E as [E|E]; [apply Nat.ltb_ge in E|apply Nat.ltb_ge in E]; lia. }
      exists (ks ++ [(n + 1)%Z]). rewrite app_length. cbn [length].
      replace (NB - length ks)%nat with (S (NB - (length ks + 1)))%nat by lia. rewrite <- H. rewrite set_nth_PF_end.
      split; [reflexivity|]. split; [lia|]. split.
      * eapply Permutation_NoDup; [apply Permutation_cons_append|]. constructor; assumption.
      * apply Forall_app. split; [exact Hb'|]. constructor; [lia|constructor].
Qed.

(* removing slot 0 (bufs_shift) *)
Lemma wfl_shift l n : wfl l n -> wfl (tl l ++ [None]) n.
Proof.
  intros (H0 & ks & -> & Hl & Hn & Hb). split; [exact H0|]. pose proof NB_pos as NBp. destruct ks as [|k ks].
  - exists []. cbn [length PF map app] in *. rewrite Nat.sub_0_r. destruct NB as [|nb]; [lia|]. cbn [repeat tl]. rewrite repeat_snoc.
    repeat split; auto; lia.
  - exists ks. cbn [length PF map app tl] in *. unfold PF. rewrite <- app_assoc, repeat_snoc.
    replace (S (NB - S (length ks)))%nat with (NB - length ks)%nat by lia.
    split; [reflexivity|]. split; [lia|]. inversion Hn; inversion Hb; subst. auto.
Qed.
Lemma wfl_renum (ks : list Z) m : (length ks + m = NB)%nat -> wfl (PF (upfrom 0 (length ks)) m) (Z.of_nat (length ks)).
Proof.
  intro H. split; [lia|]. exists (upfrom 0 (length ks)). rewrite upfrom_length. replace (NB - length ks)%nat with m by lia.
  split; [reflexivity|]. split; [lia|]. split; [apply upfrom_nodup|]. apply Forall_forall. intros x Hx. apply upfrom_range in Hx. lia.
Qed.

(* ---------- the table ---------- *)
Section Wf.
Context {L Op Out : Type}.
Variable Lo : lops L Op Out.
Notation buf := (buf L).
Notation slot := (slot L).
Notation st := (st L).
Notation bump := (bump Lo).
Implicit Types s : st.

Definition idl (l : list slot) : list (option Z) := map (option_map (@b_id L)) l.
Definition wf (s : st) : Prop := wfl (idl (bufs s)) (cnt s).
Ltac wfs := unfold wf; cbn [bufs cnt set_bufs set_cnt set_xv set_fs set_pct set_next_pos set_xwa set_xquit bufs_init].

Lemma idl_nth l i b : nth_error l i = Some (Some b) -> nth_error (idl l) i = Some (Some (b_id b)).
Proof. intro H. unfold idl. rewrite nth_error_map', H. reflexivity. Qed.
Lemma idl_nth_none l i : nth_error l i = Some None <-> nth_error (idl l) i = Some None.
Proof. unfold idl. rewrite nth_error_map'. destruct (nth_error l i) as [[b|]|]; cbn; split; intro; congruence. Qed.
Lemma idl_length l : length (idl l) = length l. Proof. apply map_length. Qed.

(* ---- pointwise reading of the invariant ---- *)
Theorem wf_length s : wf s -> length (bufs s) = NB.
Proof. intros (_ & ks & E & Hl & _). rewrite <- idl_length, E, PF_length. lia. Qed.
Theorem wf_unique s i j b b' : wf s -> nth_error (bufs s) i = Some (Some b) -> nth_error (bufs s) j = Some (Some b') ->
  b_id b = b_id b' -> i = j.
Proof.
  intros (_ & ks & E & _ & Hn & _) Hi Hj Hid. apply idl_nth in Hi, Hj. rewrite E in Hi, Hj. apply PF_nth_some in Hi, Hj.
  eapply (proj1 (NoDup_nth_error ks) Hn); [apply nth_error_Some; congruence|congruence].
Qed.
Theorem wf_bound s i b : wf s -> nth_error (bufs s) i = Some (Some b) -> (0 < b_id b <= cnt s)%Z.
Proof.
  intros (_ & ks & E & _ & _ & Hb) Hi. apply idl_nth in Hi. rewrite E in Hi. apply PF_nth_some in Hi.
  rewrite Forall_forall in Hb. apply Hb. eapply nth_error_In; eauto.
Qed.
Theorem wf_prefix s i j b : wf s -> nth_error (bufs s) i = Some (Some b) -> (j <= i)%nat -> exists b', nth_error (bufs s) j = Some (Some b').
Proof.
  intros (_ & ks & E & _) Hi Hj. apply idl_nth in Hi. rewrite E in Hi. apply PF_nth_some in Hi.
  assert (i < length ks)%nat by (apply nth_error_Some; congruence).
  destruct (nth_error (bufs s) j) as [[b'|]|] eqn:En; [eauto| |].
  - apply idl_nth_none in En. rewrite E in En. apply PF_nth_none in En. lia.
  - apply nth_error_None in En. assert (length (bufs s) = length ks + (NB - length ks))%nat by (rewrite <- idl_length, E, PF_length; reflexivity). lia.
Qed.
Theorem wf_cnt s : wf s -> (0 <= cnt s)%Z.
Proof. intros (H & _). exact H. Qed.

(* ---- id-preserving updates ---- *)
Lemma idl_upd0 f l : (forall b, b_id (f b) = b_id b) -> idl (upd0 f l) = idl l.
Proof. intro H. destruct l as [|[b|] r]; cbn; auto. rewrite H. reflexivity. Qed.
Lemma idl_upd0_const b b' l : nth_error l 0 = Some (Some b) -> b_id b' = b_id b -> idl (upd0 (fun _ => b') l) = idl l.
Proof. intros H E. destruct l as [|x r]; cbn in *; [discriminate|]. inversion H; subst. cbn. rewrite E. reflexivity. Qed.
Lemma idl_set_nth l : forall i x, idl (set_nth l i x) = set_nth (idl l) i (option_map (@b_id L) x).
Proof. induction l as [|y l IH]; intros [|i] x; cbn; auto. f_equal. apply IH. Qed.
Lemma set_nth_same {A} (l : list A) : forall i x, nth_error l i = Some x -> set_nth l i x = l.
Proof. induction l as [|y l IH]; intros [|i] x H; cbn in *; try discriminate; [congruence|]. f_equal. apply IH. exact H. Qed.
Lemma idl_set_nth_same l i b b' : nth_error l i = Some (Some b) -> b_id b' = b_id b -> idl (set_nth l i (Some b')) = idl l.
Proof. intros H E. rewrite idl_set_nth. apply set_nth_same. cbn. rewrite E. apply idl_nth. exact H. Qed.
Lemma idl_switch l idx : idl (switch l idx) = switch (idl l) idx.
Proof. apply switch_map. Qed.
Lemma idl_saved s : idl (saved Lo s) = idl (bufs s).
Proof. unfold saved. rewrite !idl_upd0; auto. Qed.

Lemma occupied_nth s i : occupied s i = true <-> exists b, nth_error (bufs s) i = Some (Some b).
Proof. unfold occupied. destruct (nth_error (bufs s) i) as [[b|]|]; split; intro H; try discriminate; eauto; destruct H; discriminate. Qed.

Lemma slot0_some s b : slot0 s = Some b -> nth_error (bufs s) 0 = Some (Some b).
Proof. unfold slot0. destruct (bufs s) as [|x r]; cbn; intro H; [discriminate|rewrite H; reflexivity]. Qed.

(* ---- the primitives ---- *)
Lemma wf_switch s idx : wf s -> nth_error (bufs s) idx <> Some None -> wf (bufs_switch Lo s idx).
Proof.
  intros H Ho. unfold wf. rewrite switch_bufs, idl_switch, idl_saved. destruct (switch_fields Lo s idx) as (_ & -> & _).
  apply wfl_switch; [exact H|]. intro E. apply idl_nth_none in E. contradiction.
Qed.
Lemma wf_switch_occ s idx b : wf s -> nth_error (bufs s) idx = Some (Some b) -> wf (bufs_switch Lo s idx).
Proof. intros H E. apply wf_switch; [exact H|congruence]. Qed.
Lemma wf_modified s i : wf s -> wf (fst (bufs_modified Lo s i)).
Proof.
  intro H. unfold bufs_modified. destruct (nth_error (bufs s) i) as [[b|]|] eqn:E; cbn [fst]; auto.
  wfs. rewrite (idl_set_nth_same _ i b); auto.
Qed.
Lemma wf_set_bufs_same s l : wf s -> idl l = idl (bufs s) -> wf (set_bufs s l).
Proof. intros H E. wfs. rewrite E. exact H. Qed.
Lemma wf_load s : wf s -> wf (bufs_load s).
Proof. intro H. unfold bufs_load. destruct (slot0 s); exact H. Qed.

Lemma first_idx_free (l : list slot) : first_idx is_free l = first_idx isn (idl l).
Proof. induction l as [|[b|] l IH]; cbn; auto. rewrite IH. reflexivity. Qed.
Lemma findroom_room s : bufs_findroom s = room (idl (bufs s)).
Proof.
  unfold bufs_findroom, room. rewrite first_idx_free. unfold idl. rewrite firstn_map. reflexivity.
Qed.
Lemma wf_open s p : wf s -> wf (fst (bufs_open Lo s p)) /\ exists b, nth_error (bufs (fst (bufs_open Lo s p))) (snd (bufs_open Lo s p)) = Some (Some b).
Proof.
  intro H. unfold bufs_open, bufs_init. cbn [fst snd]. destruct (wfl_alloc _ _ H) as [W N]. rewrite findroom_room. split.
  - wfs. rewrite idl_set_nth. exact W.
  - cbn [bufs set_bufs set_cnt]. eexists. apply nth_error_set_nth_eq.
    rewrite <- idl_length, <- (set_nth_length (idl (bufs s)) (room (idl (bufs s))) (Some (cnt s + 1)%Z)). apply nth_error_Some. rewrite N. discriminate.
Qed.
Lemma wf_open_switch s p : wf s -> wf (let (s', idx) := bufs_open Lo s p in bufs_switch Lo s' idx).
Proof.
  intro H. destruct (wf_open s p H) as [W [b Hb]]. destruct (bufs_open Lo s p) as [s' idx]. cbn [fst snd] in *. eapply wf_switch_occ; eauto.
Qed.
Lemma map_tl' {A B} (f : A -> B) l : map f (tl l) = tl (map f l).
Proof. destruct l; reflexivity. Qed.
Lemma wf_shift s : wf s -> wf (bufs_shift s).
Proof.
  intro H. unfold bufs_shift. apply wf_load. wfs. unfold idl. rewrite map_app, map_tl'. cbn [map option_map]. apply wfl_shift. exact H.
Qed.
Lemma idl_renum l : forall ks m n, idl l = PF ks m ->
  idl (fst (renum l n)) = PF (upfrom n (length ks)) m /\ snd (renum l n) = (n + Z.of_nat (length ks))%Z.
Proof.
  unfold idl. induction l as [|x l IH]; intros ks m n E.
  - destruct ks; [|discriminate]. destruct m; [|discriminate]. cbn. split; [reflexivity|lia].
  - destruct ks as [|k ks].
    + cbn [PF map app] in E. destruct m; [discriminate|]. cbn [repeat] in E. inversion E as [[E0 E']].
      destruct x as [b|]; [discriminate E0|].
      specialize (IH [] m n E'). cbn [renum]. destruct (renum l n) as [r' n']. cbn [fst snd] in *. destruct IH as [I1 I2].
      cbn [map option_map length upfrom PF app repeat] in *. rewrite I1. split; [reflexivity|exact I2].
    + cbn [PF map app] in E. inversion E as [[E0 E']]. destruct x as [b|]; [|discriminate E0].
      specialize (IH ks m (n + 1)%Z E'). cbn [renum]. destruct (renum l (n + 1)) as [r' n']. cbn [fst snd] in *. destruct IH as [I1 I2].
      cbn [map option_map length upfrom PF app b_id set_id] in *. rewrite I1. split; [reflexivity|lia].
Qed.
Lemma wf_number s : wf s -> wf (bufs_number s).
Proof.
  intros (H0 & ks & E & Hl & _). unfold bufs_number. destruct (idl_renum (bufs s) ks _ 0 E) as [I1 I2].
  destruct (renum (bufs s) 0) as [l n]. cbn [fst snd] in *. wfs. rewrite I1, I2. cbn. apply (wfl_renum ks (NB - length ks)). lia.
Qed.
Lemma idl_list_walk l : forall i, idl (fst (list_walk Lo l i)) = idl l.
Proof.
  induction l as [|[b|] r IH]; intro i; cbn [list_walk]; try reflexivity.
  specialize (IH (S i)). destruct (list_walk Lo r (S i)) as [r' es]. cbn in *. rewrite IH. reflexivity.
Qed.
Lemma wf_edit_read s named : wf s -> wf (fst (edit_read Lo s named)).
Proof.
  intro H. unfold edit_read. destruct (slot0 s) as [b|] eqn:E; [|exact H]. cbn [fst]. wfs.
  rewrite (idl_upd0_const b); auto. apply slot0_some. exact E.
Qed.
Lemma wf_goto s idx : wf s -> wf (fst (buffer_goto Lo s idx)).
Proof.
  intro H. unfold buffer_goto. destruct idx as [i|]; [|exact H]. destruct (occupied s i) eqn:O; [|exact H].
  apply occupied_nth in O. destruct O as [b Hb]. destruct (xwa s); cbn [fst]; [eapply wf_switch_occ; eauto|].
  pose proof (wf_modified s 0 H) as W. destruct (bufs_modified Lo s 0) as [s1 d] eqn:E. cbn [fst] in W. destruct d; cbn [fst]; [exact W|].
  apply wf_switch; [exact W|]. destruct (Nat.eq_dec 0 i) as [<-|N].
  - pose proof (modified_at Lo s 0 b Hb) as A. rewrite E in A. cbn [fst] in A. rewrite A. discriminate.
  - pose proof (modified_other Lo s 0 i N) as A. rewrite E in A. cbn [fst] in A. rewrite A, Hb. discriminate.
Qed.
Lemma find_occupied s p i : bufs_find s p = Some i -> exists b, nth_error (bufs s) i = Some (Some b).
Proof.
  unfold bufs_find. intro H. destruct (first_idx_some _ _ _ H) as (x & Hx & Fx & _). destruct x as [b|]; [eauto|discriminate].
Qed.
Lemma wf_edit s bang ew a : wf s -> wf (fst (fst (ec_edit Lo s bang ew a))).
Proof.
  intro H. unfold ec_edit.
  assert (P : wf (fst (if bang || xwa s then (s, false) else bufs_modified Lo s 0))).
  { destruct (bang || xwa s); [exact H|apply wf_modified; exact H]. }
  destruct (if bang || xwa s then (s, false) else bufs_modified Lo s 0) as [s0 refused]. cbn [fst] in P.
  destruct refused; cbn [fst]; [exact P|]. destruct (pathexpand s0 a) as [p|]; cbn [fst]; [|exact P].
  set (nonempty := match p with [] => false | _ => true end).
  set (s1 := if nonempty && ew then match bufs_find s0 p with Some i => if (1 <? i)%nat then bufs_switch Lo s0 1 else s0 | None => s0 end else s0).
  assert (P1 : wf s1).
  { unfold s1. destruct (nonempty && ew); [|exact P]. destruct (bufs_find s0 p) as [i|] eqn:F; [|exact P]. destruct (1 <? i)%nat eqn:Hi; [|exact P].
    apply Nat.ltb_lt in Hi. destruct (find_occupied s0 p i F) as [b Hb]. destruct (wf_prefix s0 i 1 b P Hb ltac:(lia)) as [b1 Hb1].
    eapply wf_switch_occ; eauto. }
  clearbody s1. destruct (if nonempty then bufs_find s1 p else None) as [i|] eqn:F; cbn [fst].
  - destruct nonempty; [|discriminate]. destruct (find_occupied s1 p i F) as [b Hb]. eapply wf_switch_occ; eauto.
  - set (s2 := if nonempty || is_free (slot0 s1) then let (s', idx) := bufs_open Lo s1 p in bufs_switch Lo s' idx else s1).
    assert (P2 : wf s2). { unfold s2. destruct (nonempty || is_free (slot0 s1)); [apply wf_open_switch; exact P1|exact P1]. }
    clearbody s2. pose proof (wf_edit_read s2 nonempty P2) as W. destruct (edit_read Lo s2 nonempty). exact W.
Qed.
Lemma wf_next s dis : wf s -> wf (fst (ex_next Lo s dis)).
Proof.
  intro H. unfold ex_next. generalize (match nth_path (args s) (next_pos s) with Some _ => (next_pos s + dis)%Z | None => (-1)%Z end). intro idx.
  destruct (nth_path (args s) idx) as [p|]; [|exact H].
  pose proof (wf_edit s false false (PLit p) H) as W. destruct (ec_edit Lo s false false (PLit p)) as [[s1 evs] ok]. cbn [fst] in *.
  destruct ok; exact W.
Qed.
Lemma wf_quit_walk : forall n s i, wf s -> wf (fst (quit_walk Lo s i n)).
Proof.
  induction n as [|n IH]; intros s i H; cbn [quit_walk fst]; [exact H|].
  pose proof (wf_modified s i H) as W. pose proof (modified_snd Lo s i) as D. pose proof (modified_at Lo s i) as A.
  destruct (bufs_modified Lo s i) as [s1 d]. cbn [fst snd] in *. destruct d; cbn [fst]; [|apply IH; exact W].
  unfold dirty_at in D. destruct (nth_error (bufs s) i) as [[b|]|] eqn:E; try discriminate.
  eapply wf_switch_occ; [exact W|apply A; reflexivity].
Qed.

Theorem wf_exec s c : wf s -> wf (fst (ex_exec Lo s c)).
Proof.
  intro H. destruct c; cbn [ex_exec].
  - pose proof (wf_edit s bang ew a H) as W. destruct (ec_edit Lo s bang ew a) as [[s1 evs] ok]. exact W.
  - unfold ec_buffer_list. pose proof (idl_list_walk (bufs s) 0) as I. destruct (list_walk Lo (bufs s) 0) as [l es]. cbn [fst] in *.
    apply wf_set_bufs_same; auto.
  - unfold ec_buffer_del. cbn [fst]. pose proof (wf_shift s H) as W. destruct (slot0 (bufs_shift s)) eqn:E; [exact W|].
    destruct (wfl_alloc _ _ W) as [W2 _]. wfs. rewrite idl_set_nth. cbn.
    replace 0%nat with (room (idl (bufs (bufs_shift s)))); [exact W2|].
    destruct W as (_ & ks & Ek & Hl & _). rewrite Ek. unfold room. rewrite first_idx_PF.
    assert (ks = []).
    { destruct ks as [|k ks]; [reflexivity|]. exfalso.
      assert (X : nth_error (idl (bufs (bufs_shift s))) 0 = Some (Some k)) by (rewrite Ek; reflexivity).
      revert E X. unfold slot0, idl. destruct (bufs (bufs_shift s)) as [|y r]; cbn; intros E X; [discriminate X|]. rewrite E in X. discriminate X. }
    subst ks. cbn [length]. pose proof NB_pos. assert (2 <= NB)%nat by (vm_compute; lia).
    replace ((0 <? NB - 1)%nat && (0 <? NB - 0)%nat) with true; [reflexivity|].
    symmetry. apply andb_true_iff. split; apply Nat.ltb_lt; lia.
  - apply wf_number. exact H.
  - apply wf_goto. exact H.
  - apply wf_goto. exact H.
  - apply wf_goto. exact H.
  - apply wf_goto. exact H.
  - apply wf_next. exact H.
  - apply wf_next. exact H.
  - unfold ec_quit. destruct bang; [exact H|]. pose proof (wf_quit_walk NB s 0 H) as W. destruct (quit_walk Lo s 0 NB) as [s1 f]. cbn [fst] in *.
    destruct f; exact W.
  - unfold ec_write. destruct (slot0 s) as [b|] eqn:E; [|exact H].
    assert (E0 : nth_error (bufs s) 0 = Some (Some b)) by (apply slot0_some; exact E).
    destruct (negb bang && _); [exact H|]. destruct (negb bang && _ && _); [exact H|].
    destruct (match p with Some q => q | None => b_path b end) eqn:Ep; [exact H|]. cbn [fst].
    destruct (b_path b); wfs; (rewrite (idl_upd0_const b _ (bufs s) E0); [exact H|]); cbn; try destruct (path_eqb _ _); try destruct (_ && _); reflexivity.
  - exact H.
  - unfold ec_op. destruct (slot0 s) as [b0|]; [|exact H]. destruct (lb_op Lo o (b_lb b0) (xv s)) as [[lb' v'] out]. cbn [fst].
    wfs. rewrite idl_upd0; auto.
Qed.
Theorem wf_step s c : wf s -> wf (fst (ex_command Lo s c)).
Proof.
  intro H. unfold ex_command. pose proof (wf_exec s c H) as W. destruct (ex_exec Lo s c) as [s1 evs]. cbn [fst] in *.
  wfs. rewrite idl_upd0; auto.
Qed.
Theorem wf_run : forall cs s, wf s -> wf (run Lo s cs).
Proof. induction cs as [|c r IH]; intros s H; cbn [run]; [exact H|]. destruct (xquit s); [exact H|]. apply IH, wf_step, H. Qed.
Theorem wf_init files argv : wf (fst (ex_init Lo files argv)).
Proof.
  unfold ex_init. set (a := match match argv with [] => [] | q :: _ => q end with [] => PNone | _ :: _ => PLit _ end).
  assert (W : wf (init_st files argv)).
  { unfold init_st. wfs. split; [lia|]. exists []. cbn. rewrite Nat.sub_0_r. unfold idl. rewrite map_repeat'. repeat split; auto; try lia; constructor. }
  pose proof (wf_edit _ false false a W) as W2. destruct (ec_edit Lo (init_st files argv) false false a) as [[s1 evs] ok]. exact W2.
Qed.

End Wf.
