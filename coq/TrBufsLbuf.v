(* TrBufsLbuf.v -- the `if (bufs[0].lb) lbuf_modified(bufs[0].lb);` of bufs_switch (repo commit 75e4c2f: the command ends for the
   buffer being left) with the translated lbuf_modified of TrLbuf.v: the hypothesis `bump_call` of TrBufs.tr_bufs_switch is
   discharged by TrLbuf.tr_lbuf_modified -- the struct lbuf behind bufs[0].lb gets useq + 1 (UndoDefs.lbuf_modified), nothing
   else changes.  Kept apart from TrBufs.v so that a change of lbuf.c does not break the theorems about the table. *)
From Coq Require Import List ZArith NArith Bool Lia.
From NV Require Import Bytes UndoDefs.
From NV Require Import CLite CLiteProps GenCFuncs CLiteTac CLiteExt TrLbufBase TrLbuf TrBufs.
Import ListNotations.
Local Open Scope Z_scope.

(* the representation of a struct lbuf reads its own block and its log block only *)
Lemma lbuf_rep_frame m m' bl blk lb : lbuf_rep m bl blk lb -> nth_error m' bl = nth_error m bl ->
  (forall bh hblk, nth_error blk L_hist = Some (VPtr bh 0) -> nth_error m bh = Some hblk -> nth_error m' bh = Some hblk) -> lbuf_rep m' bl blk lb.
Proof.
  intros [Rb Rl Ru Rsz Rn Rhu Rz Rla Rh] Hbl Hbh. constructor; try assumption; [rewrite Hbl; exact Rb|].
  intro Hne. destruct (Rh Hne) as (bh & hblk & Hd & Hp & Hhb & Hcells). exists bh, hblk.
  split; [exact Hd|]. split; [exact Hp|]. split; [exact (Hbh bh hblk Hp Hhb)|exact Hcells].
Qed.

(* lbuf_modified on a struct lbuf in memory, under any oracle: useq + 1, every other block kept *)
Theorem tr_bump_call ext m1 bl blk lb d fuel : lbuf_rep m1 bl blk lb -> lbuf_ints lb -> useq lb < 2147483647 ->
  let blk' := upd blk L_useq (VInt (useq lb + 1)) in
  let m2 := upd m1 bl blk' in
  bump_call ext fuel d (VPtr bl 0) m1 m2 /\ length m2 = length m1 /\
  (forall b, b <> bl -> nth_error m2 b = nth_error m1 b) /\ lbuf_rep m2 bl blk' (fst (lbuf_modified lb)).
Proof.
  intros R Hints Hmax blk' m2. destruct (tr_lbuf_modified m1 bl blk lb d fuel R Hints Hmax) as [Hcall R'].
  assert (Hbl : (bl < length m1)%nat) by (destruct R as [Rb _ _ _ _ _ _ _ _]; apply nth_error_Some; congruence).
  split; [|split; [|split]].
  - unfold bump_call. cbn [is_null]. eexists. apply callx_mono. exact Hcall.
  - unfold m2. apply upd_length. exact Hbl.
  - intros b Hne. unfold m2. apply mem_upd_other; assumption.
  - exact R'.
Qed.

(* bufs_switch with the buffer being left behind bufs[0].lb = bl: the whole effect on the memory, relative to the reg_put oracle only *)
Theorem tr_bufs_switch_bump ext m t r o tp l td i bl blk lb u m' d fuel :
  tab_at m t -> tab_ok t -> globs_at m r o tp l td -> int_ok r -> int_ok o -> int_ok tp -> int_ok l -> int_ok td -> (i < 16)%nat ->
  cs_lb (nths t 0) = VPtr bl 0 -> lbuf_rep m bl blk lb -> lbuf_ints lb -> useq lb < 2147483647 ->
  ~ In bl [G_bufs; G_xrow; G_xoff; G_xtop; G_xleft; G_xtd] -> nth_error blk L_hist <> Some (VPtr G_bufs 0) ->
  let t1 := save0 t r o tp l td in
  let sx := nths t1 i in
  slot_ints sx -> ptr_val (cs_path sx) ->
  let blk' := upd blk L_useq (VInt (useq lb + 1)) in
  let m2 := upd (upd (m ++ [repeat VUndef 41]) G_bufs (tab_cells t1)) bl blk' in
  let m4 := upd (upd m2 (length m) (slot_cells sx)) G_bufs (tab_cells (BufsDefs.switch t1 i)) in
  ext X_reg_put [VInt 37; path_arg (cs_path sx); VInt 0] (set_globs m4 (cs_row sx) (cs_off sx) (cs_top sx) (cs_left sx) (cs_td sx)) = Ok (u, m') ->
  callx ext cprog fuel (S (S (S d))) F_bufs_switch [VInt (Z.of_nat i)] m = Ok (VUndef, m') /\
  lbuf_rep m2 bl blk' (fst (lbuf_modified lb)).
Proof.
  intros Hm Ht Hg Ir Io Itp Il Itd Hi Hlb R Hints Hmax Hnin Hhist t1 sx Isx Psx blk' m2 m4 Hext.
  set (m1 := upd (m ++ [repeat VUndef 41]) G_bufs (tab_cells t1)).
  assert (Hb : (G_bufs < length m)%nat) by (apply nth_error_Some; unfold tab_at in Hm; congruence).
  assert (Hbl : (bl < length m)%nat) by (destruct R as [Rb _ _ _ _ _ _ _ _]; apply nth_error_Some; congruence).
  assert (Hfr : forall b, b <> G_bufs -> (b < length m)%nat -> nth_error m1 b = nth_error m b).
  { intros b Hne Hlt. unfold m1. rewrite mem_upd_other by (try assumption; rewrite app_length; cbn [length]; lia).
    apply nth_error_app_old. exact Hlt. }
  assert (R1 : lbuf_rep m1 bl blk lb).
  { apply (lbuf_rep_frame m m1 bl blk lb R).
    - apply Hfr; [intro E; apply Hnin; subst bl; left; reflexivity|exact Hbl].
    - intros bh hblk Hp Hhb. destruct (Nat.eq_dec bh G_bufs) as [->|Hne]; [contradiction|].
      rewrite Hfr; [exact Hhb|exact Hne|apply nth_error_Some; congruence]. }
  destruct (tr_bump_call ext m1 bl blk lb d fuel R1 Hints Hmax) as (Hbump & Hlen & Hoth & R2). fold blk' in Hbump, Hlen, Hoth, R2.
  change (upd m1 bl blk') with m2 in Hbump, Hlen, Hoth, R2.
  split; [|exact R2].
  apply (tr_bufs_switch ext m t r o tp l td i m2 u m' d fuel Hm Ht Hg Ir Io Itp Il Itd Hi); try assumption.
  - rewrite Hlb. right. eauto.
  - rewrite Hlb. exact Hbump.
  - intros b Hin. apply Hoth. intro E. subst b. destruct Hin as [E|[E|Hin]].
    + apply Hnin. left. exact E.
    + lia.
    + apply Hnin. right. exact Hin.
Qed.
Print Assumptions tr_bufs_switch_bump.
