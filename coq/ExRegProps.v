(* ExRegProps.v -- the numbered registers 1..9 of the ex model (C06): reg_put's loop equals the loop-free statement. *)
From Coq Require Import List NArith ZArith Bool Lia ZifyBool.
From NV Require Import Bytes ExDefs ExRegDefs.
Import ListNotations.

Local Ltac nb :=
  unfold pushes, is_numkey, isalpha, tolower, numkey in *; unfold isupper, islower in *.

Lemma putraw_low r c v : isupper c = false -> reg_putraw r c v = (c, v) :: r.
Proof. intro H. unfold reg_putraw, tolower. rewrite H. reflexivity. Qed.

Lemma getraw_cons k c v r : reg_getraw ((c, v) :: r) k = if (c =? k)%N then Some v else reg_getraw r k.
Proof. reflexivity. Qed.

(* the loop for (i = n; i > 0; i--): register k in 2..n+1 ends up with old k-1 when that was set, everything else is as before *)
Lemma shift_get : forall i r k, (i <= 8)%nat ->
  reg_getraw (reg_shift i r) k =
  if ((50 <=? k) && (k <=? 49 + N.of_nat i))%N
  then match reg_getraw r (k - 1) with Some t => Some t | None => reg_getraw r k end
  else reg_getraw r k.
Proof.
  induction i as [|i IH]; intros r k Hi.
  - cbn [reg_shift]. destruct ((50 <=? k) && (k <=? 49 + N.of_nat 0))%N eqn:C; [lia | reflexivity].
  - cbn [reg_shift]. rewrite IH by lia.
    set (a := (48 + N.of_nat (S i))%N).
    assert (Ha : (a = 49 + N.of_nat i)%N) by (unfold a; lia).
    destruct (reg_getraw r a) as [b|] eqn:G.
    + rewrite putraw_low by (unfold isupper; lia).
      rewrite !getraw_cons.
      destruct ((50 <=? k) && (k <=? 49 + N.of_nat i))%N eqn:C1;
      destruct ((50 <=? k) && (k <=? 49 + N.of_nat (S i)))%N eqn:C2;
      destruct (N.eqb_spec (a + 1) k) as [E1|E1];
      destruct (N.eqb_spec (a + 1) (k - 1)) as [E2|E2]; try lia; try reflexivity.
      * replace (k - 1)%N with a by lia. rewrite G. reflexivity.
    + destruct ((50 <=? k) && (k <=? 49 + N.of_nat i))%N eqn:C1;
      destruct ((50 <=? k) && (k <=? 49 + N.of_nat (S i)))%N eqn:C2; try lia; try reflexivity.
      replace (k - 1)%N with a by lia. rewrite G. reflexivity.
Qed.

Lemma pushes_low_not_num c : pushes c = true -> is_numkey (tolower c) = false.
Proof. nb. destruct ((65 <=? c) && (c <=? 90))%N eqn:U; cbv iota; lia. Qed.

Lemma put_unfold r c v : pushes c = true ->
  reg_put r c v = reg_putraw ((49%N, v) :: reg_shift 8 r) c v.
Proof.
  intro P. unfold reg_put. unfold pushes in P. rewrite P. rewrite (putraw_low _ 49%N) by reflexivity. reflexivity.
Qed.

Lemma putraw_get r c v k : reg_getraw (reg_putraw r c v) k =
  if (tolower c =? k)%N
  then Some ((if isupper c then match reg_getraw r (tolower c) with Some p => p | None => [] end else []) ++ v)
  else reg_getraw r k.
Proof. reflexivity. Qed.

(* one pushed store, register by register *)
Lemma put_get_num r c v k : pushes c = true -> is_numkey k = true ->
  reg_getraw (reg_put r c v) k =
  if (k =? 49)%N then Some v else match reg_getraw r (k - 1) with Some t => Some t | None => reg_getraw r k end.
Proof.
  intros P K. rewrite put_unfold by exact P. rewrite putraw_get.
  pose proof (pushes_low_not_num c P) as L.
  destruct (N.eqb_spec (tolower c) k) as [E|E]; [rewrite E in L; congruence|].
  rewrite getraw_cons. rewrite shift_get by lia.
  destruct (N.eqb_spec 49 k) as [E1|E1]; destruct (N.eqb_spec k 49) as [E2|E2]; try lia; [reflexivity|].
  unfold is_numkey in K.
  destruct ((50 <=? k) && (k <=? 49 + N.of_nat 8))%N eqn:C; [reflexivity | lia].
Qed.

Theorem put_num_push r c v : pushes c = true ->
  forall i, (1 <= i <= 9)%nat -> nreg (reg_put r c v) i = num_after_push (nreg r) v i.
Proof.
  intros P i Hi. unfold nreg. rewrite put_get_num; [|exact P|unfold is_numkey, numkey; lia].
  destruct i as [|[|j]]; [lia|reflexivity|].
  destruct (N.eqb_spec (numkey (S (S j))) 49) as [E|E]; [unfold numkey in E; lia|].
  cbn [num_after_push]. unfold nreg.
  replace (numkey (S (S j)) - 1)%N with (numkey (S j)) by (unfold numkey; lia). reflexivity.
Qed.

(* every other register keeps its text *)
Theorem put_other r c v k : k <> tolower c -> (pushes c = true -> is_numkey k = false) ->
  reg_getraw (reg_put r c v) k = reg_getraw r k.
Proof.
  intros Hk Hn. destruct (pushes c) eqn:P.
  - rewrite put_unfold by exact P. rewrite putraw_get.
    destruct (N.eqb_spec (tolower c) k) as [E|E]; [congruence|].
    rewrite getraw_cons, shift_get by lia. specialize (Hn eq_refl). unfold is_numkey in Hn.
    destruct (N.eqb_spec 49 k) as [E1|E1]; [lia|].
    destruct ((50 <=? k) && (k <=? 49 + N.of_nat 8))%N eqn:C; [lia | reflexivity].
  - unfold reg_put. unfold pushes in P. rewrite P. rewrite putraw_get.
    destruct (N.eqb_spec (tolower c) k) as [E|E]; [congruence | reflexivity].
Qed.

(* the addressed register itself: the text, appended to the old one for a capital letter *)
Theorem put_named r c v :
  reg_getraw (reg_put r c v) (tolower c) =
  Some ((if isupper c then match reg_getraw r (tolower c) with Some p => p | None => [] end else []) ++ v).
Proof.
  destruct (pushes c) eqn:P.
  - rewrite put_unfold by exact P. rewrite putraw_get, N.eqb_refl.
    destruct (isupper c) eqn:U; [|reflexivity].
    pose proof (pushes_low_not_num c P) as L. unfold is_numkey in L.
    rewrite getraw_cons, shift_get by lia.
    destruct (N.eqb_spec 49 (tolower c)) as [E1|E1]; [lia|].
    destruct ((50 <=? tolower c) && (tolower c <=? 49 + N.of_nat 8))%N eqn:C; [lia | reflexivity].
  - unfold reg_put. unfold pushes in P. rewrite P. rewrite putraw_get, N.eqb_refl. reflexivity.
Qed.

(* histories *)
Theorem put_shows r h c v : shows r h -> pushes c = true -> shows (reg_put r c v) (v :: h).
Proof.
  intros HS P i Hi. rewrite put_num_push by assumption.
  destruct i as [|[|j]]; [lia|reflexivity|].
  cbn [num_after_push]. replace (S (S j) - 1)%nat with (S j) by lia. cbn [nth_error].
  pose proof (HS (S j) ltac:(lia)) as S1. pose proof (HS (S (S j)) ltac:(lia)) as S2.
  replace (S j - 1)%nat with j in S1 by lia. replace (S (S j) - 1)%nat with (S j) in S2 by lia.
  rewrite S1, S2. destruct (nth_error h j) eqn:N1; [reflexivity|].
  apply nth_error_None. apply nth_error_None in N1. lia.
Qed.

Theorem put_plain_shows r h c v : shows r h -> pushes c = false -> is_numkey c = false -> shows (reg_put r c v) h.
Proof.
  intros HS P K i Hi. unfold nreg. rewrite put_other; [apply HS; exact Hi| |congruence].
  assert (U : isupper c = false).
  { unfold pushes, isalpha in P. destruct (isupper c); [|reflexivity]. destruct (c =? 0)%N; discriminate. }
  unfold tolower. rewrite U. intro E. rewrite <- E in K. unfold is_numkey, numkey in K. lia.
Qed.

Lemma pushed_cons cv l : pushed (cv :: l) = if pushes (fst cv) then pushed l ++ [snd cv] else pushed l.
Proof. unfold pushed. cbn [filter]. destruct (pushes (fst cv)); reflexivity. Qed.

Theorem stores_show : forall l r h, shows r h -> forallb plain_store l = true ->
  shows (reg_stores r l) (pushed l ++ h).
Proof.
  induction l as [|[c v] l IH]; intros r h HS F; [exact HS|].
  cbn [forallb] in F. apply andb_prop in F. destruct F as [F1 F2].
  unfold reg_stores. cbn [fold_left fst snd]. fold (reg_stores (reg_put r c v) l).
  rewrite pushed_cons. cbn [fst snd]. unfold plain_store in F1. cbn [fst] in F1.
  destruct (pushes c) eqn:P.
  - rewrite <- app_assoc. cbn [app]. apply IH; [apply put_shows; assumption | exact F2].
  - apply IH; [apply put_plain_shows; [assumption | assumption | cbn [orb] in F1; destruct (is_numkey c); [discriminate | reflexivity]] | exact F2].
Qed.

Theorem stores_named : forall l r k, is_numkey k = false ->
  (forall cv, In cv l -> tolower (fst cv) <> k) ->
  reg_getraw (reg_stores r l) k = reg_getraw r k.
Proof.
  induction l as [|[c v] l IH]; intros r k K H; [reflexivity|].
  unfold reg_stores. cbn [fold_left fst snd]. fold (reg_stores (reg_put r c v) l).
  rewrite IH; [|exact K|intros cv I; apply H; right; exact I].
  apply put_other; [|intros _; exact K].
  intro E. apply (H (c, v)); [left; reflexivity | cbn [fst]; congruence].
Qed.

(* the headline: k pushed stores with the texts t1..tk into registers whose numbered registers were unset *)
Theorem numbered_history : forall r names texts,
  shows r [] -> length names = length texts -> Forall (fun c => pushes c = true) names ->
  forall i, (1 <= i <= 9)%nat ->
  nreg (reg_stores r (combine names texts)) i =
  if (i <=? length texts)%nat then Some (nth (length texts - i) texts []) else None.
Proof.
  intros r names texts HS L F i Hi.
  assert (A : forallb plain_store (combine names texts) = true).
  { clear HS L. revert texts. induction F as [|c names P F IH]; intros texts; [reflexivity|].
    destruct texts as [|t texts]; [reflexivity|]. cbn [combine forallb]. rewrite IH.
    unfold plain_store. cbn [fst]. rewrite P. reflexivity. }
  assert (B : pushed (combine names texts) = rev texts).
  { clear HS A. unfold pushed. f_equal. revert texts L. induction F as [|c names P F IH]; intros texts L.
    - destruct texts; [reflexivity | discriminate].
    - destruct texts as [|t texts]; [discriminate|]. cbn [combine filter fst]. rewrite P. cbn [map snd].
      rewrite IH by (cbn in L; lia). reflexivity. }
  pose proof (stores_show _ _ _ HS A i Hi) as H. rewrite B, app_nil_r in H. rewrite H.
  destruct (Nat.leb_spec i (length texts)) as [C|C].
  - rewrite (nth_error_nth' (rev texts) (@nil N)) by (rewrite rev_length; lia).
    rewrite rev_nth by lia. f_equal. f_equal. lia.
  - apply nth_error_None. rewrite rev_length. lia.
Qed.

Lemma REG_cons k rest : k <> 92%N -> REG (k :: rest) = k.
Proof.
  intro H. unfold REG. destruct k as [|p]; [reflexivity|].
  repeat (match goal with |- context [match ?q with xI _ => _ | xO _ => _ | xH => _ end] => destruct q end);
    try reflexivity. exfalso; apply H; reflexivity.
Qed.

(* put and @ read a numbered register through reg_get only: with the history h they get its i-th newest text, or nothing *)
Theorem numbered_get s h i rest : shows (regs s) h -> (1 <= i <= 9)%nat ->
  reg_special (REG (numkey i :: rest)) = false /\ reg_get s (REG (numkey i :: rest)) = nth_error h (i - 1).
Proof.
  intros HS Hi.
  assert (R : REG (numkey i :: rest) = numkey i) by (apply REG_cons; unfold numkey; lia).
  rewrite R. split.
  - unfold reg_special, numkey. lia.
  - unfold reg_get. destruct (N.eqb_spec (numkey i) 34) as [E|E]; [unfold numkey in E; lia|]. apply HS. exact Hi.
Qed.

Theorem put_unset_rejected rvalid rfind loc s h i rest : shows (regs s) h -> (1 <= i <= 9)%nat -> (length h < i)%nat ->
  ec_put rvalid rfind loc (numkey i :: rest) s = (s, 1%Z).
Proof.
  intros HS Hi L. destruct (numbered_get s h i rest HS Hi) as [A B].
  unfold ec_put. rewrite A, B. replace (nth_error h (i - 1)) with (@None bytes); [reflexivity|].
  symmetry. apply nth_error_None. lia.
Qed.

Theorem at_unset_rejected rvalid rfind exec loc s h i rest : shows (regs s) h -> (1 <= i <= 9)%nat -> (length h < i)%nat ->
  ec_at rvalid rfind exec loc (numkey i :: rest) s = (s, 1%Z).
Proof.
  intros HS Hi L. destruct (numbered_get s h i rest HS Hi) as [A B].
  unfold ec_at. rewrite A, B. replace (nth_error h (i - 1)) with (@None bytes); [reflexivity|].
  symmetry. apply nth_error_None. lia.
Qed.

(* rs stores its text block and touches nothing but the registers *)
Theorem rs_only_regs arg t s : let s' := fst (ec_rs arg (Some t) s) in
  regs s' = reg_put (regs s) (REG arg) t /\ lb s' = lb s /\ xrow s' = xrow s /\ out s' = out s /\ kwd s' = kwd s /\ inp s' = inp s.
Proof. cbn. repeat split. Qed.
