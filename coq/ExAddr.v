(* ExAddr.v -- the address resolver of the ex model (ex_search / ex_lineno / ex_region of ExDefs.v) computes the
   meaning ExSpec.spec_region gives to the tokens of the address string: C06_address_semantics. *)
From Coq Require Import List NArith ZArith Bool Lia.
From NV Require Import Bytes ExDefs ExSpec ExProps ExRefine.
Import ListNotations.
Local Open Scope Z_scope.

(* ---------------------------------------------------------------------------------------- *)
(* offsets *)
Lemma offsets_tok : forall fuel num n,
  offsets fuel num n = (fold_left Z.add (fst (tok_offs fuel num)) n, snd (tok_offs fuel num)).
Proof.
  induction fuel as [|f IH]; intros num n; [reflexivity|]. cbn [offsets tok_offs].
  destruct num as [|c rest]; [reflexivity|]. destruct ((c =? 45) || (c =? 43))%N; [|reflexivity].
  rewrite IH. destruct (tok_offs f (skip_digits rest)) as [l r]. reflexivity.
Qed.

(* ---------------------------------------------------------------------------------------- *)
(* lengths: every term consumes what it reads, so the fuel of region_loop / tok_terms is never exhausted *)
Lemma skip_digits_len : forall s, (length (skip_digits s) <= length s)%nat.
Proof. induction s as [|c s IH]; [reflexivity|]. cbn [skip_digits]. destruct (isdigit c); cbn [length]; lia. Qed.

Lemma tok_offs_len : forall fuel num, (length (snd (tok_offs fuel num)) <= length num)%nat.
Proof.
  induction fuel as [|f IH]; intro num; [reflexivity|]. cbn [tok_offs]. destruct num as [|c rest]; [reflexivity|].
  destruct ((c =? 45) || (c =? 43))%N; [|reflexivity].
  specialize (IH (skip_digits rest)). destruct (tok_offs f (skip_digits rest)) as [l r]. cbn [snd length] in *.
  pose proof (skip_digits_len rest). lia.
Qed.

Lemma re_read_loop_len : forall n s delim acc, (length s <= n)%nat -> (length (snd (re_read_loop s delim acc)) <= length s)%nat.
Proof.
  induction n as [|n IH]; intros s delim acc H.
  - destruct s; [reflexivity | cbn in H; lia].
  - destruct s as [|c s]; [reflexivity|]. cbn [re_read_loop]. cbn [length] in H.
    destruct (c =? delim)%N; [cbn [snd length]; lia|].
    destruct (c =? 92)%N.
    + destruct s as [|d s2].
      * specialize (IH [] delim (c :: acc) ltac:(cbn; lia)). cbn [length] in *. lia.
      * cbn [length] in H. destruct (d =? delim)%N;
          [specialize (IH s2 delim (d :: acc) ltac:(lia)) | specialize (IH s2 delim (d :: 92%N :: acc) ltac:(lia))]; cbn [length]; lia.
    + specialize (IH s delim (c :: acc) ltac:(lia)). cbn [length]. lia.
Qed.

Lemma re_read_len s : (length (snd (re_read s)) <= length s)%nat.
Proof.
  unfold re_read. destruct s as [|d s]; [reflexivity|].
  pose proof (re_read_loop_len (length s) s d [] (le_n _)) as H. destruct (re_read_loop s d []) as [p rest]. cbn [snd length] in *. lia.
Qed.

Lemma tok_term_len loc : (length (snd (tok_term loc)) <= length loc)%nat.
Proof.
  unfold tok_term.
  assert (F : forall b rest, (length (snd (let '(l, r) := tok_offs (S (length rest)) rest in (mkterm b l, r))) <= length rest)%nat).
  { intros b rest. pose proof (tok_offs_len (S (length rest)) rest) as H. destruct (tok_offs (S (length rest)) rest). exact H. }
  destruct loc as [|c rest]; [apply F|].
  destruct (c =? 46)%N; [eapply Nat.le_trans; [apply F|]; cbn; lia|].
  destruct (c =? 36)%N; [eapply Nat.le_trans; [apply F|]; cbn; lia|].
  destruct (c =? 39)%N; [eapply Nat.le_trans; [apply F|]; destruct rest; cbn; lia|].
  destruct ((c =? 47) || (c =? 63))%N.
  - pose proof (re_read_len (c :: rest)) as H. destruct (re_read (c :: rest)) as [kw rest']. cbn [snd] in H.
    eapply Nat.le_trans; [apply F | exact H].
  - destruct (isdigit c); [eapply Nat.le_trans; [apply F | apply skip_digits_len] | apply F].
Qed.

Lemma skip_to_sep_len : forall s, (length (skip_to_sep s) <= length s)%nat.
Proof. induction s as [|c s IH]; [reflexivity|]. cbn [skip_to_sep]. destruct ((c =? 59) || (c =? 44))%N; cbn [length]; lia. Qed.

(* ---------------------------------------------------------------------------------------- *)
(* searching *)
Section A.
Variable rvalid : bytes -> bool.
Variable rfind : bytes -> bytes -> bool -> option (nat * nat).

Notation m := (matches rfind).

Lemma line_at_texts s row :
  option_map ltxt (line_at s row) =
  if (row <? 0) || (Z.of_nat (length (texts s)) <=? row) then None else nth_error (texts s) (Z.to_nat row).
Proof.
  unfold line_at, texts, slen, llen. rewrite map_length, nth_error_map.
  destruct (0 <=? row) eqn:A; destruct (row <? Z.of_nat (length (lns (lb s)))) eqn:B;
    destruct (row <? 0) eqn:C; destruct (Z.of_nat (length (lns (lb s))) <=? row) eqn:D; cbn [andb orb option_map]; try reflexivity; lia.
Qed.

Lemma search_gen s pat : forall fuel row dir,
  search_loop rfind fuel s pat row dir =
  match gen_search rfind fuel (texts s) pat row dir with Some n => n | None => -1 end.
Proof.
  induction fuel as [|f IH]; intros row dir; [reflexivity|]. cbn [search_loop gen_search].
  pose proof (line_at_texts s row) as L.
  destruct ((row <? 0) || (Z.of_nat (length (texts s)) <=? row)).
  - destruct (line_at s row); [discriminate | reflexivity].
  - destruct (line_at s row) as [x|]; cbn [option_map] in L; rewrite <- L; [|reflexivity].
    unfold matches. destruct (rfind pat (ltxt x) false); [reflexivity | apply IH].
Qed.

Lemma skipn_nth_cons {A} : forall (l : list A) n x, nth_error l n = Some x -> skipn n l = x :: skipn (S n) l.
Proof. induction l as [|y l IH]; intros n x H; [destruct n; discriminate|]. destruct n; cbn in *; [inversion H; reflexivity | apply IH, H]. Qed.

Lemma firstn_S_nth {A} : forall (l : list A) n x, nth_error l n = Some x -> firstn (S n) l = firstn n l ++ [x].
Proof. induction l as [|y l IH]; intros n x H; [destruct n; discriminate|]. destruct n; cbn in *; [inversion H; reflexivity | rewrite (IH n x H); reflexivity]. Qed.

Lemma gen_fwd texts pat : forall fuel row, 0 <= row -> (length texts - Z.to_nat row < fuel)%nat ->
  gen_search rfind fuel texts pat row 1 =
  if Z.of_nat (length texts) <=? row then None
  else option_map (fun k => row + Z.of_nat k) (first_match (m pat) (skipn (Z.to_nat row) texts)).
Proof.
  induction fuel as [|f IH]; intros row H0 HF; [lia|]. cbn [gen_search].
  replace (row <? 0) with false by (symmetry; apply Z.ltb_ge; lia). cbn [orb].
  destruct (Z.of_nat (length texts) <=? row) eqn:E; [reflexivity|]. apply Z.leb_gt in E.
  destruct (nth_error texts (Z.to_nat row)) as [x|] eqn:N; [|apply nth_error_None in N; lia].
  rewrite (skipn_nth_cons _ _ _ N). cbn [first_match]. destruct (m pat x); [cbn; f_equal; lia|].
  rewrite IH by lia. replace (Z.to_nat (row + 1)) with (S (Z.to_nat row)) by lia.
  destruct (Z.of_nat (length texts) <=? row + 1) eqn:E2.
  - apply Z.leb_le in E2. rewrite skipn_all2 by lia. reflexivity.
  - destruct (first_match (m pat) (skipn (S (Z.to_nat row)) texts)); cbn [option_map]; [f_equal; lia | reflexivity].
Qed.

Lemma gen_bwd texts pat : forall fuel row, row < Z.of_nat (length texts) -> (Z.to_nat row < fuel)%nat ->
  gen_search rfind fuel texts pat row (-1) =
  if row <? 0 then None
  else option_map (fun k => row - Z.of_nat k) (first_match (m pat) (rev (firstn (S (Z.to_nat row)) texts))).
Proof.
  induction fuel as [|f IH]; intros row HL HF; [lia|]. cbn [gen_search].
  destruct (row <? 0) eqn:E; [reflexivity|]. apply Z.ltb_ge in E.
  replace (Z.of_nat (length texts) <=? row) with false by (symmetry; apply Z.leb_gt; lia). cbn [orb].
  destruct (nth_error texts (Z.to_nat row)) as [x|] eqn:N; [|apply nth_error_None in N; lia].
  rewrite (firstn_S_nth _ _ _ N), rev_app_distr. cbn [rev app first_match]. destruct (m pat x); [cbn; f_equal; lia|].
  destruct (Z.eq_dec row 0) as [->|NZ].
  - cbn [Z.to_nat firstn rev first_match option_map]. destruct f; [reflexivity|]. reflexivity.
  - rewrite IH by lia. replace (row + -1 <? 0) with false by (symmetry; apply Z.ltb_ge; lia).
    replace (S (Z.to_nat (row + -1))) with (Z.to_nat row) by lia.
    destruct (first_match (m pat) (rev (firstn (Z.to_nat row) texts))); cbn [option_map]; [f_equal; lia | reflexivity].
Qed.

Lemma search_spec s pat cur dir :
  search_loop rfind (S (length (lns (lb s)))) s pat (cur + dir) dir =
  match spec_search rfind (texts s) pat cur dir with Some n => n | None => -1 end.
Proof.
  rewrite search_gen. unfold spec_search.
  assert (LEN : length (lns (lb s)) = length (texts s)) by (unfold texts; rewrite map_length; reflexivity). rewrite LEN.
  destruct ((cur + dir <? 0) || (Z.of_nat (length (texts s)) <=? cur + dir)) eqn:R.
  - cbn [gen_search]. rewrite R. reflexivity.
  - apply orb_false_iff in R. destruct R as [R1 R2]. apply Z.ltb_ge in R1. apply Z.leb_gt in R2.
    destruct (dir =? 1) eqn:D1.
    + apply Z.eqb_eq in D1. subst dir. rewrite gen_fwd by lia.
      replace (Z.of_nat (length (texts s)) <=? cur + 1) with false by (symmetry; apply Z.leb_gt; lia). reflexivity.
    + destruct (dir =? -1) eqn:D2; [|reflexivity].
      apply Z.eqb_eq in D2. subst dir. rewrite gen_bwd by lia.
      replace (cur + -1 <? 0) with false by (symmetry; apply Z.ltb_ge; lia). reflexivity.
Qed.

Lemma first_match_lt f : forall l k, first_match f l = Some k -> (k < length l)%nat.
Proof.
  induction l as [|x l IH]; intros k H; [discriminate|]. cbn [first_match] in H. destruct (f x); [inversion H; cbn; lia|].
  destruct (first_match f l) as [j|]; [|discriminate]. inversion H. specialize (IH j eq_refl). cbn. lia.
Qed.

Lemma gen_search_nonneg texts pat dir : forall fuel row n, gen_search rfind fuel texts pat row dir = Some n -> 0 <= n.
Proof.
  induction fuel as [|f IH]; intros row n H; [discriminate|]. cbn [gen_search] in H.
  destruct ((row <? 0) || (Z.of_nat (length texts) <=? row)) eqn:R; [discriminate|].
  apply orb_false_iff in R. destruct R as [R1 _]. apply Z.ltb_ge in R1.
  destruct (nth_error texts (Z.to_nat row)); [|discriminate]. destruct (m pat b); [inversion H; lia | eapply IH; exact H].
Qed.

Lemma spec_search_nonneg texts pat cur dir n : spec_search rfind texts pat cur dir = Some n -> 0 <= n.
Proof.
  unfold spec_search. destruct ((cur + dir <? 0) || (Z.of_nat (length texts) <=? cur + dir)) eqn:R; [discriminate|].
  apply orb_false_iff in R. destruct R as [R1 R2]. apply Z.ltb_ge in R1. apply Z.leb_gt in R2.
  destruct (dir =? 1).
  - destruct (first_match _ _) as [k|]; [|discriminate]. cbn. intro H. inversion H. lia.
  - destruct (dir =? -1); [|apply gen_search_nonneg].
    destruct (first_match _ _) as [k|] eqn:F; [|discriminate]. cbn. intro H. inversion H.
    apply first_match_lt in F. rewrite rev_length, firstn_length in F. lia.
Qed.

(* ---------------------------------------------------------------------------------------- *)
(* one term *)
Definition orow (o : option Z) : Z := match o with Some n => n | None => -2 end.

Lemma jump_abs s c : lbuf_jump (lb s) c = r_jump (abs s) c.
Proof.
  unfold lbuf_jump, r_jump. destruct (markidx c) as [k|]; [|reflexivity]. unfold mark_row. cbn [abs r_marks].
  replace (nth k (map fst (marks (lb s))) (-1)) with (fst (nth k (marks (lb s)) (-1, @None nat)))
    by (symmetry; exact (map_nth fst (marks (lb s)) (-1, @None nat) k)). reflexivity.
Qed.

Lemma lineno_spec s loc :
  let '(n, rest, s1) := ex_lineno rvalid rfind s loc in
  let '(t, rest') := tok_term loc in
  let '(o, r1) := sem_term rvalid rfind t (abs s) in
  r1 = abs s1 /\ n = orow o /\ (0 <= n + 1 -> rest = rest').
Proof.
  unfold ex_lineno, tok_term.
  assert (F : forall b base rest s', sem_base rvalid rfind b (abs s) = (Some base, abs s') ->
    let '(n, rest0, s1) := (let '(n', rest') := offsets (S (length rest)) rest base in (n', rest', s')) in
    let '(t, rest') := (let '(l, r) := tok_offs (S (length rest)) rest in (mkterm b l, r)) in
    let '(o, r1) := sem_term rvalid rfind t (abs s) in
    r1 = abs s1 /\ n = orow o /\ (0 <= n + 1 -> rest0 = rest')).
  { intros b base rest s' H. rewrite offsets_tok. destruct (tok_offs (S (length rest)) rest) as [l r]. cbn [fst snd].
    unfold sem_term. cbn [t_base t_offs]. rewrite H. cbn [orow]. auto. }
  destruct loc as [|c rest]; [apply (F BCur); reflexivity|].
  destruct (c =? 46)%N; [apply (F BCur); reflexivity|].
  destruct (c =? 36)%N; [apply (F BLast); cbn [sem_base]; unfold r_len; cbn [abs r_txt]; rewrite <- slen_texts; reflexivity|].
  destruct (c =? 39)%N.
  { destruct (lbuf_jump (lb s) (hd0 rest)) as [n|] eqn:J.
    - apply (F (BMark (hd0 rest))). cbn [sem_base]. rewrite <- jump_abs, J. reflexivity.
    - destruct (tok_offs (S (length (tl rest))) (tl rest)) as [l r]. unfold sem_term. cbn [t_base t_offs sem_base].
      rewrite <- jump_abs, J. cbn [orow]. split; [reflexivity|]. split; [reflexivity | lia]. }
  destruct ((c =? 47) || (c =? 63))%N eqn:SL.
  { unfold ex_search. cbn [hd0]. destruct (re_read (c :: rest)) as [kw rest'].
    set (d := if (c =? 47)%N then 1 else -1).
    set (s1 := kwdset_if s kw d).
    assert (A1 : abs s1 = match kw with Some (c0 :: p) => r_addr (abs s) (r_cur (abs s)) (c0 :: p) d | _ => abs s end)
      by (unfold s1; destruct kw as [[|c0 p]|]; reflexivity).
    assert (SB : sem_base rvalid rfind (BPat c kw) (abs s) =
                 (if kwddir s1 =? 0 then None else if negb (rvalid (kwd s1)) then None
                  else spec_search rfind (texts s1) (kwd s1) (xrow s1) (kwddir s1), abs s1)).
    { cbn [sem_base]. fold d. rewrite <- A1. cbn [abs r_kwddir r_kwd r_txt r_cur].
      destruct (kwddir s1 =? 0); [reflexivity|]. destruct (negb (rvalid (kwd s1))); reflexivity. }
    destruct (kwddir s1 =? 0) eqn:K0.
    - cbn [Z.ltb Z.compare]. destruct (tok_offs (S (length rest')) rest') as [l r]. unfold sem_term. cbn [t_base t_offs]. rewrite SB.
      cbn [orow]. split; [reflexivity|]. split; [reflexivity | lia].
    - destruct (negb (rvalid (kwd s1))) eqn:V.
      + cbn [Z.ltb Z.compare]. destruct (tok_offs (S (length rest')) rest') as [l r]. unfold sem_term. cbn [t_base t_offs]. rewrite SB.
        cbn [orow]. split; [reflexivity|]. split; [reflexivity | lia].
      + rewrite search_spec.
        destruct (spec_search rfind (texts s1) (kwd s1) (xrow s1) (kwddir s1)) as [n|] eqn:SS.
        * pose proof (spec_search_nonneg _ _ _ _ _ SS) as NN.
          replace (n <? 0) with false by (symmetry; apply Z.ltb_ge; lia).
          apply (F (BPat c kw)). exact SB.
        * cbn [Z.ltb Z.compare]. destruct (tok_offs (S (length rest')) rest') as [l r]. unfold sem_term. cbn [t_base t_offs]. rewrite SB.
          cbn [orow]. split; [reflexivity|]. split; [reflexivity | lia]. }
  destruct (isdigit c); [apply (F (BNum (fst (digits (c :: rest) 0)))); reflexivity | apply (F BCur); reflexivity].
Qed.

(* ---------------------------------------------------------------------------------------- *)
(* the loop over the terms *)
Lemma region_loop_spec : forall fuel loc first b e s, (length loc < fuel)%nat ->
  let '(bad, b', e', s1) := region_loop rvalid rfind fuel loc first b e s in
  sem_terms rvalid rfind (tok_terms fuel loc) first b e (abs s) = (bad, b', e', abs s1).
Proof.
  induction fuel as [|f IH]; intros loc first b e s HF; [lia|]. cbn [region_loop tok_terms].
  destruct loc as [|c loc]; [reflexivity|].
  pose proof (lineno_spec s (c :: loc)) as L. pose proof (tok_term_len (c :: loc)) as TL.
  destruct (ex_lineno rvalid rfind s (c :: loc)) as [[n rest] s1].
  destruct (tok_term (c :: loc)) as [t rest']. cbn [snd] in TL.
  destruct (sem_term rvalid rfind t (abs s)) as [o r1] eqn:ST. destruct L as (L1 & L2 & L3). subst r1.
  destruct (n + 1 <? 0) eqn:NEG.
  - destruct (skip_to_sep rest') as [|c2 r2]; cbn [sem_terms]; rewrite ST; fold (orow o); rewrite <- L2, NEG; reflexivity.
  - pose proof NEG as NEG'. apply Z.ltb_ge in NEG'. rewrite (L3 NEG').
    pose proof (skip_to_sep_len rest') as SL.
    destruct (skip_to_sep rest') as [|c2 r2]; cbn [sem_terms]; rewrite ST; fold (orow o); rewrite <- L2, NEG; [reflexivity|].
    cbn [length] in SL, HF, TL.
    specialize (IH r2 false (if first then n + 1 - 1 else e - 1) (n + 1) (if (c2 =? 59)%N then set_xrow s1 (n + 1 - 1) else s1) ltac:(lia)).
    destruct (c2 =? 59)%N; exact IH.
Qed.

Theorem region_spec_st loc s :
  let '(bad, b, e, s1) := ex_region rvalid rfind loc s in
  spec_region rvalid rfind (tok_addr loc) (abs s) = (bad, b, e, abs s1).
Proof.
  unfold ex_region, tok_addr. destruct (bytes_eqb loc [37%N]).
  - cbn [spec_region]. unfold r_len. cbn [abs r_txt]. rewrite <- slen_texts. reflexivity.
  - destruct loc as [|c loc].
    + cbn [spec_region]. unfold r_len. cbn [abs r_txt r_cur]. rewrite <- slen_texts. reflexivity.
    + pose proof (region_loop_spec (S (length (c :: loc))) (c :: loc) true 0 0 s ltac:(lia)) as R.
      destruct (region_loop rvalid rfind (S (length (c :: loc))) (c :: loc) true 0 0 s) as [[[bad b] e] s1].
      cbn [spec_region]. rewrite R. unfold r_len. cbn [abs r_txt]. rewrite <- slen_texts.
      destruct bad; [reflexivity|].
      repeat match goal with |- context [if ?x then _ else _] => destruct x end; reflexivity.
Qed.

Lemma abs_conc r : abs (conc r) = r.
Proof.
  destruct r. unfold abs, conc, texts. cbn.
  assert (A : forall l : list bytes, map ltxt (map (mkline 0 0%N) l) = l) by (induction l; cbn; congruence).
  assert (B : forall l : list Z, map fst (map (fun z => (z, @None nat)) l) = l) by (induction l; cbn; congruence).
  rewrite A, B. reflexivity.
Qed.

(* the resolver the reference editor uses IS the token semantics *)
Theorem region_spec loc r : ref_region rvalid rfind loc r = spec_region rvalid rfind (tok_addr loc) r.
Proof.
  unfold ref_region. pose proof (region_spec_st loc (conc r)) as H. rewrite abs_conc in H.
  pose proof (ex_region_lb rvalid rfind loc (conc r)) as L. pose proof (ex_region_rest rvalid rfind loc (conc r)) as R.
  destruct (ex_region rvalid rfind loc (conc r)) as [[[bad b] e] s1]. cbn [snd] in L, R.
  rewrite H. rewrite (abs_addr (conc r) s1 L R), abs_conc. reflexivity.
Qed.

End A.
