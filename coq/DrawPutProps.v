(* DrawPutProps.v -- vc_put: the vi_drawfix arguments computed from the text that was put (DrawPutDefs.v) describe the
   splice lbuf_edit made, for every register text and every count; so the call leaves the window of the new buffer
   (DrawProps.site_replace_line / site_put_lines). *)
From Coq Require Import List Arith NArith ZArith Bool Lia.
From NV Require Import Bytes TermEmu DrawDefs DrawProps DrawPutDefs.
Import ListNotations.

Lemma vi_linecount_nl s : vi_linecount s = S (count_nl s).
Proof. induction s as [|c s IH]; [reflexivity|]. cbn [vi_linecount count_nl]. destruct (is_nl c); lia. Qed.

Lemma count_nl_app a b : count_nl (a ++ b) = count_nl a + count_nl b.
Proof. induction a as [|c a IH]; [reflexivity|]. cbn [app count_nl]. destruct (is_nl c); lia. Qed.

Lemma count_nl_rep r c : count_nl (rep_text r c) = c * count_nl r.
Proof. induction c as [|c IH]; [reflexivity|]. cbn [rep_text]. rewrite count_nl_app, IH. lia. Qed.

(* a text that ends with a newline is cut into as many lines as it has newlines *)
Lemma text_lines_closed s : length (text_lines (s ++ [10%N])) = S (count_nl s).
Proof.
  induction s as [|c s IH]; [reflexivity|].
  cbn [app text_lines count_nl]. destruct (is_nl c); cbn [length]; [lia|].
  destruct (text_lines (s ++ [10%N])) as [|l ls]; cbn [length] in *; lia.
Qed.

Lemma rep_text_closed r c : exists s, rep_text (r ++ [10%N]) (S c) = s ++ [10%N].
Proof.
  induction c as [|c [s IH]].
  - exists r. cbn [rep_text]. apply app_nil_r.
  - exists ((r ++ [10%N]) ++ s). change (rep_text (r ++ [10%N]) (S (S c))) with ((r ++ [10%N]) ++ rep_text (r ++ [10%N]) (S c)).
    rewrite IH. apply app_assoc.
Qed.

(* the line count vc_put hands to vi_drawfix in the character-wise branch is the number of lines the text becomes:
   any prefix, any register, any count, as long as the rest of the cursor line ends with the line's newline *)
Lemma put_chars_n xrow pref post' reg cnt :
  p_n (vc_put_chars xrow pref (post' ++ [10%N]) reg cnt)
  = Z.of_nat (length (text_lines (p_text (vc_put_chars xrow pref (post' ++ [10%N]) reg cnt)))).
Proof.
  unfold vc_put_chars. cbn [p_n p_text].
  replace (pref ++ rep_text reg cnt ++ post' ++ [10%N]) with ((pref ++ rep_text reg cnt ++ post') ++ [10%N])
    by (rewrite <- !app_assoc; reflexivity).
  rewrite text_lines_closed, vi_linecount_nl, count_nl_app. cbn [count_nl is_nl N.eqb Pos.eqb]. lia.
Qed.

(* ... and that number is count * (newlines of the register) + 1 when the cursor line is an ordinary line *)
Theorem put_chars_linecount xrow pref post' reg cnt :
  count_nl pref = 0 -> count_nl post' = 0 ->
  let c := vc_put_chars xrow pref (post' ++ [10%N]) reg cnt in
  length (text_lines (p_text c)) = cnt * count_nl reg + 1 /\ p_n c = Z.of_nat (cnt * count_nl reg + 1).
Proof.
  intros Hp Hq c. assert (L : length (text_lines (p_text c)) = cnt * count_nl reg + 1).
  { unfold c, vc_put_chars. cbn [p_text].
    replace (pref ++ rep_text reg cnt ++ post' ++ [10%N]) with ((pref ++ rep_text reg cnt ++ post') ++ [10%N])
      by (rewrite <- !app_assoc; reflexivity).
    rewrite text_lines_closed, !count_nl_app, count_nl_rep. lia. }
  split; [exact L|]. unfold c. rewrite put_chars_n. fold c. rewrite L. reflexivity.
Qed.

Section PutSites.
Variable R : Type.
Variable blank : R.
Variable img : option (list N) -> R.
Notation win := (@win R).
Notation fimg := (@fimg R (list N) img).
Notation splice := (@splice (list N)).

(* vc_put, character-wise register, any count: the call leaves the window of the buffer in which the cursor line has
   been replaced by the lines of pref ++ register * count ++ post *)
Theorem site_put_chars_count buf W h xrow pref post' reg cnt :
  W <= xrow < W + h -> xrow < length buf ->
  let c := vc_put_chars xrow pref (post' ++ [10%N]) reg cnt in
  let buf' := splice buf (p_beg c) (p_end c) (text_lines (p_text c)) in
  put_screen R blank (fimg buf') W h c (win (fimg buf) W h) = win (fimg buf') W h.
Proof.
  intros Hw Hl c buf'. unfold put_screen. unfold c at 3. rewrite put_chars_n. fold c.
  unfold buf', c. cbn [p_r1 p_r2 p_beg p_end vc_put_chars]. apply site_replace_line; assumption.
Qed.

(* vc_put, line-wise register (it ends with a newline), count >= 1: a pure insertion of count * lines lines *)
Theorem site_put_lines_count buf W h xrow reg' cnt :
  1 <= h -> W <= xrow <= W + h -> xrow <= length buf -> 1 <= cnt ->
  let c := vc_put_lines xrow (reg' ++ [10%N]) cnt in
  let buf' := splice buf (p_beg c) (p_end c) (text_lines (p_text c)) in
  length (text_lines (p_text c)) = cnt * S (count_nl reg') /\
  put_screen R blank (fimg buf') W h c (win (fimg buf) W h) = win (fimg buf') W h.
Proof.
  intros Hh Hw Hl Hc c buf'.
  destruct cnt as [|k]; [lia|]. destruct (rep_text_closed reg' k) as [s Hs].
  assert (Hcnt : count_nl (p_text c) = S k * S (count_nl reg')).
  { unfold c, vc_put_lines. cbn [p_text]. rewrite count_nl_rep, count_nl_app. cbn [count_nl is_nl N.eqb Pos.eqb]. lia. }
  assert (L : length (text_lines (p_text c)) = S k * S (count_nl reg')).
  { rewrite <- Hcnt. unfold c, vc_put_lines. cbn [p_text]. rewrite Hs, text_lines_closed, count_nl_app.
    cbn [count_nl is_nl N.eqb Pos.eqb]. lia. }
  split; [exact L|].
  unfold put_screen.
  replace (p_n c) with (Z.of_nat (length (text_lines (p_text c))) + 1)%Z.
  - unfold buf', c. cbn [p_r1 p_r2 p_beg p_end vc_put_lines p_text]. apply site_put_lines; try assumption.
    unfold c, vc_put_lines in L. cbn [p_text] in L. rewrite L. lia.
  - rewrite L. unfold c, vc_put_lines. cbn [p_n p_text]. rewrite vi_linecount_nl.
    unfold c, vc_put_lines in Hcnt. cbn [p_text] in Hcnt. rewrite Hcnt. lia.
Qed.

(* vc_put, character-wise, on an EMPTY buffer: ln = "\n", lbuf_edit(text, 0, 1) is clamped to an insertion at 0, the call is
   still vi_drawfix(0, 0, lncnt, 0).  The screen of an empty buffer is its first row (drawn blank: `first`) over filler rows. *)
Theorem site_put_chars_empty (first : R) h reg cnt :
  1 <= h ->
  let c := vc_put_chars 0 [] [10%N] reg cnt in
  let buf' := text_lines (p_text c) in
  put_screen R blank (fimg buf') 0 h c (win (fun i => if i =? 0 then first else img None) 0 h) = win (fimg buf') 0 h.
Proof.
  intros Hh c buf'. unfold put_screen.
  assert (Hn : p_n c = Z.of_nat (length buf')) by (apply (put_chars_n 0 [] [] reg cnt)).
  rewrite Hn. unfold c. cbn [p_r1 p_r2 vc_put_chars].
  change (Z.of_nat 0) with (Z.of_nat 1 - 1)%Z at 2.
  apply (drawfix_is_repaint R blank (fun i => if i =? 0 then first else img None) (fimg buf') 0 h 0 1 (length buf')); try lia.
  - intro k. cbn [plus]. unfold DrawProps.fimg.
    replace (nth_error buf' (length buf' + k)) with (@None (list N)); [reflexivity|].
    symmetry. apply nth_error_None. lia.
  - left. split; lia.
Qed.
End PutSites.

(* the count matters: with the row count taken from the register alone (linecount(buf), what a "count the register once"
   rewrite of vc_put would pass) the call damages a correct screen -- 2p of the register "5\n6" on the first of four lines *)
Theorem put_count_needed : exists (buf : list (list N)) (pref post reg : list N) cnt W h xrow,
  W <= xrow < W + h /\ xrow < length buf /\
  let c := vc_put_chars xrow pref post reg cnt in
  let f := fimg (option (list N)) (list N) (fun o => o) (splice (list N) buf (p_beg c) (p_end c) (text_lines (p_text c))) in
  put_screen _ None f W h c (win _ (fimg _ (list N) (fun o => o) buf) W h) = win _ f W h /\
  drawfix _ None f W h (p_r1 c) (p_r2 c) (Z.of_nat (vi_linecount reg)) (win _ (fimg _ (list N) (fun o => o) buf) W h) <> win _ f W h.
Proof.
  exists [[1%N]; [2%N]; [3%N]; [4%N]], [1%N], [10%N], [5%N; 10%N; 6%N], 2, 0, 4, 0.
  split; [lia|]. split; [cbn; lia|]. split; vm_compute; [reflexivity|discriminate].
Qed.
